#!/usr/bin/env python3
"""Runs a property's check against a seeded change without touching /repo:
  seedtest.py Cxx /verif/seeded/<name>           (directory with patch.diff)
creates a scratch worktree of /repo HEAD under /tmp, applies patch.diff, runs
`VERIF_REPO=<wt> ./check Cxx --tier quick` (or --tier thorough with -t), prints the verdict and
removes the worktree."""
import os, subprocess, sys, shutil, tempfile
args = [a for a in sys.argv[1:] if not a.startswith("-")]
tier = "thorough" if "-t" in sys.argv else "quick"
prop, d = args[0], os.path.abspath(args[1])
V = os.path.dirname(os.path.dirname(os.path.abspath(__file__)))
wt = tempfile.mkdtemp(prefix=f"seedrun_{prop}_", dir="/tmp")
os.rmdir(wt)
def sh(cmd, **kw):
    return subprocess.run(cmd, stdout=subprocess.PIPE, stderr=subprocess.STDOUT, text=True, **kw)
r = sh(["git", "-C", "/repo", "worktree", "add", "-q", "--detach", wt, "HEAD"])
if r.returncode:
    print(r.stdout); sys.exit(2)
ev = os.path.join(V, "evidence", prop + ".json")
ev_saved = open(ev).read() if os.path.exists(ev) else None
try:
    r = sh(["git", "-C", wt, "apply", os.path.join(d, "patch.diff")])
    if r.returncode:  # /repo HEAD moved since the seed was written: merge the hunks three-way
        r = sh(["git", "-C", wt, "apply", "--3way", os.path.join(d, "patch.diff")])
    if r.returncode:
        print("PATCH DOES NOT APPLY\n" + r.stdout); sys.exit(2)
    env = dict(os.environ, VERIF_REPO=wt)
    r = sh([os.path.join(V, "check"), prop, "--tier", tier], cwd=V, env=env)
    tail = "\n".join(r.stdout.splitlines()[-12:])
    print(tail)
    caught = r.returncode != 0 and "VIOLATION property=" + prop in r.stdout
    print(f"SEED {os.path.basename(d)} on {prop}: {'CAUGHT' if caught else 'MISSED'}")
    sys.exit(0 if caught else 1)
finally:
    if ev_saved is not None:
        open(ev, "w").write(ev_saved)
    sh(["git", "-C", "/repo", "worktree", "remove", "--force", wt])
    shutil.rmtree(wt, ignore_errors=True)
