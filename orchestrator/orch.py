"""Orchestrator: Lean obligations + audit, Go harness (overlay), driver, diff, classify,
shrink, replay, evidence.  Python 3 standard library only."""
import fcntl, hashlib, json, os, re, shutil, subprocess, sys, time
from concurrent.futures import ThreadPoolExecutor

VERIF = os.path.dirname(os.path.dirname(os.path.abspath(__file__)))
REPO = os.environ.get("VERIF_REPO", "/repo")
LEAN = os.path.join(VERIF, "lean")
ALLOWED_AXIOMS = {"propext", "Classical.choice", "Quot.sound"}
FORBIDDEN = ["sorry", "admit", "native_decide", "bv_decide", "implemented_by", "unsafe ",
             "maxHeartbeats 0", "axiom "]

GOENV = dict(os.environ, GOFLAGS="-mod=mod", GOPROXY="off", GOSUMDB="off", GOTOOLCHAIN="local",
             CGO_ENABLED=os.environ.get("CGO_ENABLED", "1"))


def log(msg):
    print(msg, flush=True)


def sh(cmd, cwd=None, env=None, timeout=None, inp=None):
    p = subprocess.run(cmd, cwd=cwd, env=env, timeout=timeout, input=inp,
                       stdout=subprocess.PIPE, stderr=subprocess.STDOUT, text=True)
    out = "\n".join(l for l in p.stdout.splitlines() if "auto_activate_base" not in l)
    return p.returncode, out


class Lock:
    def __init__(self, name):
        os.makedirs(os.path.join(VERIF, ".work"), exist_ok=True)
        self.path = os.path.join(VERIF, ".work", name)

    def __enter__(self):
        self.f = open(self.path, "w")
        fcntl.flock(self.f, fcntl.LOCK_EX)

    def __exit__(self, *a):
        fcntl.flock(self.f, fcntl.LOCK_UN)
        self.f.close()


def load_cfg(prop):
    p = os.path.join(VERIF, "harness", prop, "config.json")
    with open(p) as f:
        cfg = json.load(f)
    cfg["_dir"] = os.path.dirname(p)
    return cfg


def all_props():
    d = os.path.join(VERIF, "harness")
    out = []
    for x in sorted(os.listdir(d)):
        cp = os.path.join(d, x, "config.json")
        if re.fullmatch(r"C\d+", x) and os.path.exists(cp):
            try:
                if json.load(open(cp)).get("ready"):
                    out.append(x)
            except Exception:
                pass
    return out


# ----------------------------------------------------------------------------- Lean side

def strip_lean_comments(src):
    src = re.sub(r"/-.*?-/", "", src, flags=re.S)
    return "\n".join(l.split("--")[0] for l in src.splitlines())


def forbidden_hits(cfg):
    hits = []
    for rel in cfg.get("lean_sources", []):
        p = os.path.join(LEAN, rel)
        if not os.path.exists(p):
            hits.append(f"{rel}: missing")
            continue
        body = strip_lean_comments(open(p).read())
        for tok in FORBIDDEN:
            if re.search(r"(^|[^A-Za-z_.])" + re.escape(tok), body):
                hits.append(f"{rel}: {tok.strip()}")
    return hits


def run_gen(cfg):
    """Regenerate Gen/<prop>.lean from /repo when the property has goextract targets."""
    tg = os.path.join(cfg["_dir"], "gen_targets.json")
    if not os.path.exists(tg):
        return True, ""
    exe = os.path.join(VERIF, ".work", "goextract")
    if not os.path.exists(exe) or os.path.getmtime(exe) < os.path.getmtime(
            os.path.join(VERIF, "goextract", "main.go")):
        rc, out = sh(["go", "build", "-o", exe, "."], cwd=os.path.join(VERIF, "goextract"), env=GOENV)
        if rc != 0:
            return False, "goextract build failed\n" + out
    dst = os.path.join(LEAN, "Gossamer", "Gen", cfg["property"] + ".lean")
    os.makedirs(os.path.dirname(dst), exist_ok=True)
    tmp = dst + ".tmp"
    rc, out = sh([exe, "-repo", REPO, "-targets", tg, "-ns", "Gossamer.Gen." + cfg["property"],
                  "-o", tmp], env=GOENV)
    if rc != 0:
        if os.path.exists(tmp):
            os.remove(tmp)
        return False, "goextract failed (target left the supported subset or disappeared)\n" + out
    old = open(dst).read() if os.path.exists(dst) else None
    new = open(tmp).read()
    if old != new:
        os.replace(tmp, dst)
    else:
        os.remove(tmp)
    return True, out


def lean_stage(cfg):
    """Build proofs + driver, audit axioms.  Returns dict with status and details."""
    res = {"build_ok": False, "driver_ok": False, "theorems": {}, "bad": [], "log": "",
           "missing": [], "forbidden": [], "gen_ok": True}
    with Lock("lake.lock"):
        ok, out = run_gen(cfg)
        res["gen_ok"] = ok
        if not ok:
            res["log"] += out
        drivers = sorted({cfg.get("driver")} | {r.get("driver") for r in cfg["runs"]} - {None})
        rc, out = sh(["lake", "build"] + drivers, cwd=LEAN)
        res["driver_ok"] = rc == 0
        if rc != 0:
            res["log"] += out[-4000:]
        mods = [cfg["props_module"]] if cfg.get("props_module") else []
        if mods:
            rc, out = sh(["lake", "build"] + mods, cwd=LEAN)
            res["build_ok"] = rc == 0 and ok
            if rc != 0:
                res["log"] += out[-6000:]
        else:
            res["build_ok"] = ok
    if res["build_ok"] and cfg.get("audit"):
        rc, out = sh(["lake", "env", "lean", cfg["audit"]], cwd=LEAN)
        flat = re.sub(r"\s+", " ", out)
        for m in re.finditer(r"'([^']+)' depends on axioms: \[([^\]]*)\]", flat):
            res["theorems"][m.group(1)] = [a.strip() for a in m.group(2).split(",") if a.strip()]
        for m in re.finditer(r"'([^']+)' does not depend on any axioms", flat):
            res["theorems"][m.group(1)] = []
        if rc != 0:
            res["build_ok"] = False
            res["log"] += out[-3000:]
        for name, axs in res["theorems"].items():
            extra = [a for a in axs if a not in ALLOWED_AXIOMS]
            if extra:
                res["bad"].append(f"{name}: {extra}")
        for want in cfg.get("theorems", []):
            if not any(n == want or n.endswith("." + want) for n in res["theorems"]):
                res["missing"].append(want)
    res["forbidden"] = forbidden_hits(cfg)
    res["ok"] = (res["build_ok"] and res["driver_ok"] and not res["bad"] and not res["missing"]
                 and not res["forbidden"])
    return res


# ----------------------------------------------------------------------------- Go side

def build_harness(cfg, run, idx, work):
    """go test -c with an overlay that injects the harness files into the package."""
    pkgdir = os.path.normpath(os.path.join(REPO, run["pkg"]))
    replace = {}
    common = open(os.path.join(VERIF, "harness", "common", "vh_test.go.tmpl")).read()
    cpath = os.path.join(work, f"zz_verif_common_{idx}_test.go")
    with open(cpath, "w") as f:
        f.write(common.replace("PKGNAME", run["pkgname"]))
    replace[os.path.join(pkgdir, "zz_verif_common_test.go")] = cpath
    for fn in run["files"]:
        src = os.path.join(cfg["_dir"], fn)
        base = os.path.basename(fn)
        if not base.endswith("_test.go"):
            base = base[:-3] + "_test.go"
        replace[os.path.join(pkgdir, "zz_verif_" + base)] = src
    # extra overlay entries (helper packages the harness imports): {"path/relative/to/repo.go": "file in harness dir"}
    for rel, src in (run.get("overlay") or {}).items():
        replace[os.path.normpath(os.path.join(REPO, rel))] = os.path.join(cfg["_dir"], src)
    ov = os.path.join(work, f"overlay_{idx}.json")
    with open(ov, "w") as f:
        json.dump({"Replace": replace}, f)
    binp = os.path.join(work, f"harness_{idx}.test")
    if os.path.exists(binp):
        os.remove(binp)
    tags = "verif" + ("," + run["tags"] if run.get("tags") else "")
    cmd = ["go", "test", "-c", "-tags", tags, "-overlay", ov, "-vet=off", "-o", binp]
    if run.get("race"):
        cmd.append("-race")
    cmd.append(run["pkg"])
    rc, out = sh(cmd, cwd=REPO, env=GOENV, timeout=1800)
    return rc == 0 and os.path.exists(binp), out, binp, pkgdir


def run_shard(binp, pkgdir, test, seed, n, outp, lines_file, timeout, trace=False, extra_env=None):
    env = dict(GOENV, VERIF_OUT=outp, VERIF_SEED=str(seed), VERIF_N=str(n))
    if lines_file:
        env["VERIF_LINES"] = lines_file
    if trace:
        env["VERIF_TRACE"] = "1"
    if extra_env:
        env.update(extra_env)
    env.setdefault("GOMEMLIMIT", "6GiB")
    try:
        rc, out = sh([binp, "-test.run", f"^{test}$", "-test.count=1", f"-test.timeout={timeout}s"],
                     cwd=pkgdir, env=env, timeout=timeout + 60)
    except subprocess.TimeoutExpired:
        rc, out = 124, "timeout"
    return rc, out


def read_tsv(path):
    cases = []
    if not os.path.exists(path):
        return cases, None
    dangling = None
    with open(path, errors="replace") as f:
        for raw in f:
            line = raw.rstrip("\n")
            if "\t" in line:
                i, o = line.split("\t", 1)
                cases.append((i, o))
            elif line.strip():
                dangling = line
    return cases, dangling


def go_stage(cfg, tier, seed, work, lines_file=None, only_lines=False, n_override=None, reuse=None):
    """Returns list of (run_index, input, impl_output) and a list of harness problems."""
    results, problems = [], []
    n_total = 0 if only_lines else (n_override if n_override is not None else cfg["n"][tier])
    shards = 1 if only_lines else cfg.get("shards", {}).get(tier, 4)
    timeout = cfg.get("timeout", {}).get(tier, 600 if tier == "quick" else 3000)
    def do_run(idx, run):
        results, problems = [], []
        if reuse is not None and os.path.exists(os.path.join(work, f"harness_{reuse}.test")):
            # shrinking: the binary of this check run is still valid, do not rebuild it per round
            ok, out = True, ""
            binp = os.path.join(work, f"harness_{reuse}.test")
            pkgdir = os.path.normpath(os.path.join(REPO, run["pkg"]))
        else:
            ok, out, binp, pkgdir = build_harness(cfg, run, idx, work)
        if not ok:
            problems.append({"kind": "harness-build", "run": idx, "log": out[-6000:]})
            return results, problems
        share = run.get("share", 1.0)
        n_run = int(n_total * share)
        per = max(1, n_run // shards) if n_run else 0
        jobs = []
        with ThreadPoolExecutor(max_workers=shards) as ex:
            for s in range(shards):
                outp = os.path.join(work, f"impl_{idx}_{s}.tsv")
                if os.path.exists(outp):
                    os.remove(outp)
                lf0 = lines_file.get(idx) if isinstance(lines_file, dict) else lines_file
                lf = lf0 if s == 0 else None
                if lf is None and s == 0:
                    cp = os.path.join(VERIF, "corpus", cfg["property"], f"run{idx}.lines")
                    lf = cp if os.path.exists(cp) else None
                jobs.append((s, outp, lf, ex.submit(run_shard, binp, pkgdir, run["test"],
                                                    seed * 1000 + s, per, outp, lf, timeout,
                                                    False, run.get("env"))))
            for s, outp, lf, fut in jobs:
                rc, out = fut.result()
                cases, _ = read_tsv(outp)
                if rc != 0:
                    # the process died (fatal error, os.Exit, hang): find the case with tracing
                    rc2, out2 = run_shard(binp, pkgdir, run["test"], seed * 1000 + s, per, outp, lf,
                                          timeout, True, run.get("env"))
                    cases, dangling = read_tsv(outp)
                    if dangling is not None:
                        cases.append((dangling, "timeout" if rc2 == 124 or "test timed out" in out2
                                      else "crash"))
                    elif rc2 != 0:
                        problems.append({"kind": "harness-run", "run": idx, "shard": s,
                                         "log": (out2 or out)[-4000:]})
                for i, o in cases:
                    results.append((idx, i, o))
        return results, problems

    todo = [(idx, run) for idx, run in enumerate(cfg["runs"])
            if not (isinstance(lines_file, dict) and only_lines and idx not in lines_file)]
    # the runs of one property (different packages) are built and executed side by side
    with ThreadPoolExecutor(max_workers=max(1, len(todo))) as rex:
        for rs, ps in rex.map(lambda t: do_run(*t), todo):
            results.extend(rs)
            problems.extend(ps)
    return results, problems


def driver_stage(cfg, results, work):
    """Feeds every input to the Lean driver of its run; returns parallel list of dicts."""
    outs = [None] * len(results)
    by_drv = {}
    for k, (idx, i, o) in enumerate(results):
        drv = cfg["runs"][idx].get("driver", cfg.get("driver"))
        by_drv.setdefault(drv, []).append(k)
    for drv, ks in by_drv.items():
        exe = os.path.join(LEAN, ".lake", "build", "bin", drv)
        inp = "".join(results[k][1] + "\n" for k in ks)
        # split the input in chunks and run them in parallel
        nchunks = min(16, max(1, len(ks) // 2000))
        bounds = [len(ks) * c // nchunks for c in range(nchunks + 1)]

        def work_chunk(c):
            sub = ks[bounds[c]:bounds[c + 1]]
            data = "".join(results[k][1] + "\n" for k in sub)
            p = subprocess.run([exe], input=data, stdout=subprocess.PIPE, stderr=subprocess.PIPE,
                               text=True, timeout=cfg.get("driver_timeout", 3000))
            lines = p.stdout.split("\n")
            if lines and lines[-1] == "":
                lines.pop()
            return sub, lines, p.returncode, p.stderr

        with ThreadPoolExecutor(max_workers=nchunks) as ex:
            for sub, lines, rc, err in ex.map(work_chunk, range(nchunks)):
                if rc != 0 or len(lines) != len(sub):
                    raise RuntimeError(f"driver {drv}: rc={rc} lines={len(lines)} expected={len(sub)} {err[-2000:]}")
                for k, l in zip(sub, lines):
                    parts = l.split("\t")
                    d = {"model": parts[0], "spec": None, "kf": None}
                    for p in parts[1:]:
                        if p.startswith("spec="):
                            d["spec"] = p[5:]
                        elif p.startswith("kf="):
                            d["kf"] = p[3:]
                    outs[k] = d
    return outs


# ----------------------------------------------------------------------------- classify

def load_findings(prop):
    """Union of /verif/known_findings.json and harness/<prop>/findings.json (same format)."""
    out = {}
    for p in (os.path.join(VERIF, "known_findings.json"),
              os.path.join(VERIF, "harness", prop, "findings.json")):
        if os.path.exists(p):
            data = json.load(open(p))
            for f in data.get("findings", []):
                if f.get("property") == prop:
                    out[f["tag"]] = f
    return out


def classify(cfg, results, outs, findings):
    viol, kf_hits, stale = [], {}, 0
    for (idx, inp, impl), d in zip(results, outs):
        spec = d["spec"] if d["spec"] is not None else d["model"]
        if impl == spec:
            if d["model"] != impl:
                stale += 1
            continue
        if d["kf"] and d["kf"] in findings and impl == d["model"]:
            kf_hits.setdefault(d["kf"], []).append(inp)
            continue
        viol.append({"run": idx, "input": inp, "impl": impl, "model": d["model"], "spec": spec,
                     "kf": d["kf"]})
    return viol, kf_hits, stale


def split_seq(line):
    if "|" in line:
        hdr, body = line.split("|", 1)
        hdr += "|"
    else:
        hdr, body = "", line
    return hdr, [x for x in body.split(";")]


def shrink(cfg, v, work, findings):
    """Delta-debug an op-sequence case (`header|op;op;...`): drop ops while it still violates."""
    if ";" not in v["input"]:
        return v
    best = v
    for _ in range(12):
        hdr, ops = split_seq(best["input"])
        if len(ops) <= 1:
            break
        cands = []
        chunk = max(1, len(ops) // 2)
        while chunk >= 1:
            for s in range(0, len(ops), chunk):
                c = ops[:s] + ops[s + chunk:]
                if c:
                    cands.append(hdr + ";".join(c))
            chunk //= 2
        cands = list(dict.fromkeys(cands))[:400]
        lf = os.path.join(work, "shrink.lines")
        with open(lf, "w") as f:
            f.write("\n".join(cands) + "\n")
        sub = dict(cfg, runs=[cfg["runs"][best["run"]]])
        try:
            res, probs = go_stage(sub, "quick", 1, work, lines_file=lf, only_lines=True,
                                  reuse=best["run"])
            outs = driver_stage(sub, res, work)
        except Exception:
            break
        vs, _, _ = classify(sub, res, outs, findings)
        vs = [x for x in vs if x["input"] in set(cands)]
        if not vs:
            break
        nb = min(vs, key=lambda x: len(x["input"]))
        if len(nb["input"]) >= len(best["input"]):
            break
        nb["run"] = best["run"]
        best = nb
    return best


# ----------------------------------------------------------------------------- evidence

def write_evidence(cfg, tier, seed, lean, results, outs, viol, kf_hits, stale, problems, wall,
                   nviol):
    prop = cfg["property"]
    trivial = set(cfg.get("trivial_outputs", ["err", "bad-op"]))
    seen, samples = set(), []
    for (idx, inp, impl), d in zip(results, outs or [None] * len(results)):
        if impl.split(" ")[0] in trivial or impl in trivial:
            continue
        h = hashlib.blake2b(inp.encode(), digest_size=8).digest()
        if h in seen:
            continue
        seen.add(h)
        if len(samples) < 6 and len(inp) < 400:
            samples.append({"input": inp, "impl": impl[:300], "model": (d or {}).get("model", "")[:300]})
    ths = lean["theorems"]
    obligations = len(ths) + len(lean["missing"]) + (0 if lean["build_ok"] else 1)
    discharged = sum(1 for n, a in ths.items() if all(x in ALLOWED_AXIOMS for x in a)) if lean["build_ok"] else 0
    level = cfg.get("level", "proof")
    cov = {
        "obligations": obligations,
        "discharged": discharged,
        "theorems": {n: a for n, a in sorted(ths.items())},
        "checker_cmd": f"cd lean && lake build {cfg.get('props_module', '')} && lake env lean {cfg.get('audit', '')}"
                       + (f" && lake env leanchecker {cfg.get('props_module')}" if tier == "thorough" else ""),
        "trusted_base": ["Lean 4.33.0 kernel", "axioms: propext, Classical.choice, Quot.sound (audited per theorem)",
                         "hand-written Lean model tied to /repo by the in-process Go harness + compiled Lean driver (differential)",
                         "orchestrator/orch.py canonicalisation and diff"] + cfg.get("trusted_base", []),
        "evaluations": len(results),
        "distinct_nontrivial": len(seen),
        "rule": cfg.get("rule", ""),
        "samples": samples if samples else [{"input": i, "impl": o} for _, i, o in results[:3]],
        "programs": len(cfg.get("modelled_functions", [])) or len(cfg["runs"]),
        "disagreements_checked": len(results),
        "traces_validated_against_impl": len(results),
        "known_findings_hit": {k: len(v) for k, v in kf_hits.items()},
        "model_stale_but_spec_ok": stale,
        "harness_problems": problems,
        "explanation": cfg.get("explanation", cfg.get("rule", "")),
        "lean_ok": lean["ok"],
    }
    if cfg.get("exhaustive", {}).get(tier):
        cov["exhaustive"] = True
    ev = {"property_id": prop, "tier": tier, "seed": seed, "level": level, "coverage": cov,
          "assumptions": cfg.get("assumptions", []), "wall_s": round(wall, 2), "violations": nviol}
    os.makedirs(os.path.join(VERIF, "evidence"), exist_ok=True)
    with open(os.path.join(VERIF, "evidence", prop + ".json"), "w") as f:
        json.dump(ev, f, indent=1)


def write_replay(prop, tier, seed, kind, items, note=""):
    d = os.path.join(VERIF, "replays")
    os.makedirs(d, exist_ok=True)
    path = os.path.join(d, f"{prop}_{tier}_{seed}_{int(time.time())}.json")
    with open(path, "w") as f:
        json.dump({"property": prop, "tier": tier, "seed": seed, "kind": kind, "note": note,
                   "cases": items, "lines": [x["input"] for x in items if "input" in x]}, f, indent=1)
    return path


# ----------------------------------------------------------------------------- main

def check(prop, tier, seed, replay=None):
    t0 = time.time()
    cfg = load_cfg(prop)
    work = os.path.join(VERIF, ".work", prop)
    os.makedirs(work, exist_ok=True)
    findings = load_findings(prop)
    lean = lean_stage(cfg)
    stage_t = {"lean": time.time() - t0}
    if not lean["ok"]:
        log(f"[{prop}] Lean obligations NOT discharged: build_ok={lean['build_ok']} driver_ok={lean['driver_ok']} "
            f"bad_axioms={lean['bad']} missing={lean['missing']} forbidden={lean['forbidden']}")
        log(lean["log"][-3000:])
    else:
        log(f"[{prop}] Lean: {len(lean['theorems'])} theorems built and axiom-audited")
    lines_file = None
    only_lines = False
    if replay:
        data = json.load(open(replay))
        # each replayed line goes only to the harness run it came from (default: run 0, or
        # every run when the replay file does not say)
        by_run = {}
        for c in data.get("cases", []):
            if "input" in c:
                by_run.setdefault(c.get("run", 0), []).append(c["input"])
        if not by_run:
            for idx in range(len(cfg["runs"])):
                by_run[idx] = list(data.get("lines", []))
        lines_file = {}
        for idx, ls in by_run.items():
            lp = os.path.join(work, f"replay_{idx}.lines")
            with open(lp, "w") as f:
                f.write("\n".join(ls) + "\n")
            lines_file[idx] = lp
        only_lines = True
    results, problems, outs, viol, kf_hits, stale = [], [], [], [], {}, 0
    if lean["driver_ok"]:
        # a broken obligation escalates the search to thorough size
        n_override = None
        if not lean["ok"] and tier == "quick":
            n_override = cfg["n"].get("thorough", cfg["n"]["quick"]) // 4
        t1 = time.time()
        results, problems = go_stage(cfg, tier, seed, work, lines_file, only_lines, n_override)
        stage_t["harness"] = time.time() - t1
        t1 = time.time()
        outs = driver_stage(cfg, results, work)
        stage_t["driver"] = time.time() - t1
        t1 = time.time()
        viol, kf_hits, stale = classify(cfg, results, outs, findings)
        stage_t["classify"] = time.time() - t1
    for p in problems:
        log(f"[{prop}] harness problem: {p['kind']} run={p.get('run')}\n{p.get('log', '')[-3000:]}")
    rc = 0
    for tag, inputs in sorted(kf_hits.items()):
        log(f"KNOWN-FINDING: property={prop} {findings[tag]['what']} (e.g. {inputs[0][:120]}; {len(inputs)} cases)")
    if viol:
        # group by (kf tag or generic) and report the shortest of each group, shrunk
        viol.sort(key=lambda v: len(v["input"]))
        first = shrink(cfg, viol[0], work, findings)
        items = [first] + viol[1:20]
        path = write_replay(prop, tier, seed, "correspondence", items,
                            "implementation output differs from the proved model/spec on these inputs")
        log(f"[{prop}] {len(viol)} failing cases; minimal: {first['input'][:300]}")
        log(f"[{prop}]   impl : {first['impl'][:300]}")
        log(f"[{prop}]   spec : {first['spec'][:300]}")
        log(f"VIOLATION property={prop} replay={path}")
        rc = 1
    elif problems:
        path = write_replay(prop, tier, seed, "harness", [{"problem": p} for p in problems],
                            "the harness no longer builds or runs against /repo: the correspondence "
                            f"for {prop} does not check")
        log(f"VIOLATION property={prop} replay={path} no-failing-input-found")
        rc = 1
    elif not lean["ok"]:
        what = {"theorems_missing": lean["missing"], "bad_axioms": lean["bad"], "forbidden": lean["forbidden"],
                "gen_ok": lean["gen_ok"], "build_ok": lean["build_ok"], "driver_ok": lean["driver_ok"],
                "log": lean["log"][-4000:]}
        path = write_replay(prop, tier, seed, "obligation", [{"obligation": what}],
                            f"proof obligation of {cfg.get('props_module')} no longer checks; "
                            f"{len(results)} cases searched without finding a failing input")
        log(f"VIOLATION property={prop} replay={path} no-failing-input-found")
        rc = 1
    if tier == "thorough" and lean["ok"] and cfg.get("props_module") and not replay:
        with Lock("lake.lock"):
            c, out = sh(["lake", "env", "leanchecker", cfg["props_module"]], cwd=LEAN, timeout=3000)
        log(f"[{prop}] leanchecker {cfg['props_module']}: rc={c}")
        if c != 0:
            log(out[-2000:])
            path = write_replay(prop, tier, seed, "obligation", [{"leanchecker": out[-3000:]}])
            log(f"VIOLATION property={prop} replay={path} no-failing-input-found")
            rc = 1
    wall = time.time() - t0
    if not replay:
        write_evidence(cfg, tier, seed, lean, results, outs, viol, kf_hits, stale, problems, wall,
                       len(viol))
    log(f"[{prop}] stages: " + " ".join(f"{k}={v:.0f}s" for k, v in stage_t.items()))
    log(f"[{prop}] tier={tier} seed={seed} cases={len(results)} violations={len(viol)} "
        f"known={sum(len(v) for v in kf_hits.values())} wall={wall:.1f}s")
    return rc


def setup():
    """Builds the Lean library and, per property, proofs + driver + harness binary (warming the Go
    build cache).  A failure of one property is reported but does not fail the setup: that
    property's own check will report it (as a broken obligation / harness)."""
    rc, out = sh(["lake", "build"], cwd=LEAN)
    log(out[-2000:])
    if rc != 0:
        return 1
    failed = []
    for prop in all_props():
        cfg = load_cfg(prop)
        lean = lean_stage(cfg)
        log(f"[setup] {prop}: lean ok={lean['ok']}")
        if not lean["ok"]:
            log(lean["log"][-2000:])
            failed.append(prop + ":lean")
        work = os.path.join(VERIF, ".work", prop)
        os.makedirs(work, exist_ok=True)
        for idx, run in enumerate(cfg["runs"]):
            ok, out, _, _ = build_harness(cfg, run, idx, work)
            log(f"[setup] {prop}: harness {run['pkg']} build ok={ok}")
            if not ok:
                log(out[-2000:])
                failed.append(prop + ":harness")
    if failed:
        log(f"[setup] WARNING: not everything built: {failed} (the affected checks will report it)")
    return 0


def main(argv):
    if not argv or argv[0] in ("-h", "--help"):
        print(__doc__)
        return 2
    if argv[0] == "--setup":
        return setup()
    prop = argv[0]
    tier = os.environ.get("VERIF_TIER", "quick")
    seed = int(os.environ.get("VERIF_SEED", "1") or 1)
    replay = None
    i = 1
    while i < len(argv):
        if argv[i] == "--tier":
            tier = argv[i + 1]; i += 2
        elif argv[i] == "--seed":
            seed = int(argv[i + 1]); i += 2
        elif argv[i] == "--replay":
            replay = argv[i + 1]; i += 2
        else:
            print("unknown argument", argv[i]); return 2
    if prop == "--all":
        rc = 0
        for p in all_props():
            rc |= check(p, tier, seed)
        return rc
    return check(prop, tier, seed, replay)
