#!/usr/bin/env python3
"""Regenerates MANIFEST.json from harness/*/config.json (claimed) and properties.jsonl (the rest)."""
import json, os, sys
V = os.path.dirname(os.path.dirname(os.path.abspath(__file__)))
props = [json.loads(l) for l in open(os.path.join(V, "properties.jsonl"))]
base = json.load(open("/root/.vp/BASELINE.json"))["cmd"] if os.path.exists("/root/.vp/BASELINE.json") else "cd /repo && go test -mod=mod -vet=off -count=1 ./..."
checks, na = [], []
for p in props:
    pid = p["id"]
    cp = os.path.join(V, "harness", pid, "config.json")
    if not os.path.exists(cp):
        na.append({"property_id": pid, "reason": "no check registered yet: model and harness for this property are not built (see DESIGN.md section 4 for the plan)"})
        continue
    c = json.load(open(cp))
    if not c.get("ready"):
        na.append({"property_id": pid, "reason": "check under construction (model/harness exist but are not yet stable on the unchanged tree)"})
        continue
    if c.get("not_applicable"):
        na.append({"property_id": pid, "reason": c["not_applicable"]})
        continue
    checks.append({
        "property_id": pid,
        "quick_cmd": f"./check {pid} --tier quick",
        "thorough_cmd": f"./check {pid} --tier thorough",
        "evidence_file": f"evidence/{pid}.json",
        "replay_cmd_template": f"./check {pid} --replay {{path}}",
        "engine": "lean4-proof+correspondence",
        "level_claimed": {"category": c.get("level", "proof"), "text": c["level_text"], "design_ref": c.get("design_ref", f"DESIGN.md section 4, {pid}")},
        "level_note": c["level_note"],
        "technique": c.get("technique", "Lean 4 theorems about a hand-written executable model; model tied to the Go code by differential correspondence (in-process harness vs compiled Lean driver)"),
    })
m = {
    "version": 1,
    "setup_cmd": "./check --setup",
    "hooks": {
        "guard": "verif",
        "enable": "go test -tags verif -overlay <generated overlay.json> (harness files are injected as extra _test.go files; nothing of the harness is committed to /repo)",
        "baseline_off_cmd": base,
        "source_commits": [],
        "add_only": True,
    },
    "engines": [{"name": "lean4-proof+correspondence", "path": "check", "serves_properties": [c["property_id"] for c in checks],
                 "kind_free_text": "Lean 4 kernel-checked theorems over executable models (lean/Gossamer/Props), audited with #print axioms; Go overlay harness + compiled Lean drivers diffed by orchestrator/orch.py"}],
    "checks": checks,
    "not_applicable": na,
    "notes": "fix: commits in /repo are listed in known_findings.json under 'fixed'.",
}
json.dump(m, open(os.path.join(V, "MANIFEST.json"), "w"), indent=1)
print(f"{len(checks)} checks, {len(na)} not claimed")
