#!/usr/bin/env python3
"""Confirms a seeded change independently of the agent that wrote it:
  seedverify.py /verif/seeded/<name>
In a scratch worktree of /repo HEAD: (1) demo passes without the patch, (2) patch applies and builds,
(3) demo fails with the patch, (4) the stable-pass tests of the touched packages still pass.
Writes the outcome into meta.json under "verified"."""
import json, os, re, shutil, subprocess, sys, tempfile
d = os.path.abspath(sys.argv[1])
meta = json.load(open(os.path.join(d, "meta.json")))
env = dict(os.environ, GOFLAGS="-mod=mod", GOPROXY="off", GOSUMDB="off", GOTOOLCHAIN="local")
def sh(cmd, cwd=None, timeout=3000):
    r = subprocess.run(cmd, cwd=cwd, env=env, stdout=subprocess.PIPE, stderr=subprocess.STDOUT, text=True, timeout=timeout)
    return r.returncode, r.stdout
wt = tempfile.mkdtemp(prefix="seedverify_", dir="/tmp"); os.rmdir(wt)
rc, out = sh(["git", "-C", "/repo", "worktree", "add", "-q", "--detach", wt, "HEAD"])
res = {}
try:
    pkg = meta["demo_pkg"].strip("./")
    demo_files = [f for f in os.listdir(d) if f.endswith("_test.go") or (f.endswith(".go") and f != "patch.diff")]
    for f in demo_files:
        shutil.copy(os.path.join(d, f), os.path.join(wt, pkg, "zz_seed_" + f))
    cmd = meta["demo_cmd"]
    m = re.search(r"-run\s+(\S+)", cmd)
    run = m.group(1).strip("'\"") if m else "."
    mt = re.search(r"-tags[ =](\S+)", cmd)
    democmd = ["go", "test", "-count=1", "-vet=off"] + (["-tags", mt.group(1)] if mt else []) + ["-run", run, "./" + pkg + "/"]
    rc0, out0 = sh(democmd, cwd=wt)
    res["demo_without_patch"] = "pass" if rc0 == 0 else "FAIL"
    rc, out = sh(["git", "-C", wt, "apply", os.path.join(d, "patch.diff")])
    if rc != 0:
        rc, out = sh(["git", "-C", wt, "apply", "--3way", os.path.join(d, "patch.diff")])
    res["patch_applies"] = rc == 0
    rc1, out1 = sh(democmd, cwd=wt)
    res["demo_with_patch"] = "fail" if rc1 != 0 else "PASS"
    res["demo_with_patch_tail"] = out1[-600:]
    pkgs = sorted({"./" + os.path.dirname(f) + "/..." for f in meta.get("files", [])} | {"./" + pkg + "/..."})
    for f in demo_files:
        os.remove(os.path.join(wt, pkg, "zz_seed_" + f))
    rcb, outb = sh([sys.executable, os.path.join(os.path.dirname(os.path.abspath(__file__)), "baseline_check.py"), "--repo", wt] + pkgs)
    res["existing_tests"] = outb.strip().splitlines()[0] if outb.strip() else ""
    res["existing_tests_ok"] = rcb == 0
    res["packages_tested"] = pkgs
    ok = res["demo_without_patch"] == "pass" and res["patch_applies"] and res["demo_with_patch"] == "fail" and rcb == 0
    res["confirmed"] = ok
finally:
    sh(["git", "-C", "/repo", "worktree", "remove", "--force", wt])
    shutil.rmtree(wt, ignore_errors=True)
meta["verified"] = res
json.dump(meta, open(os.path.join(d, "meta.json"), "w"), indent=1)
print(json.dumps(res, indent=1))
sys.exit(0 if res.get("confirmed") else 1)
