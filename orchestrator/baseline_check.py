#!/usr/bin/env python3
"""Runs `go test -json` on the given packages of /repo (default ./...) WITHOUT the verif tag and
reports every test of BASELINE.json's stable_pass list that did not pass.
usage: baseline_check.py [--repo DIR] ./pkg/scale/... ./lib/trie/..."""
import json, os, subprocess, sys
args = sys.argv[1:]
repo = "/repo"
if args and args[0] == "--repo":
    repo = args[1]; args = args[2:]
pkgs = args or ["./..."]
base = json.load(open("/root/.vp/BASELINE.json"))
stable = set(base["stable_pass"])
env = dict(os.environ, GOFLAGS="-mod=mod", GOPROXY="off", GOSUMDB="off", GOTOOLCHAIN="local")
p = subprocess.Popen(["go", "test", "-json", "-vet=off", "-count=1", "-timeout", "25m"] + pkgs, cwd=repo, env=env,
                     stdout=subprocess.PIPE, stderr=subprocess.STDOUT, text=True)
res, pk = {}, set()
for line in p.stdout:
    try:
        e = json.loads(line)
    except Exception:
        continue
    if e.get("Package"):
        pk.add(e["Package"])
    if e.get("Test") and e.get("Action") in ("pass", "fail", "skip"):
        res[e["Package"] + "::" + e["Test"]] = e["Action"]
p.wait()
bad = sorted(t for t in stable if t.split("::")[0] in pk and res.get(t) != "pass")
print(f"packages={len(pk)} tests_seen={len(res)} stable_in_scope={sum(1 for t in stable if t.split('::')[0] in pk)} not_passing={len(bad)}")
for t in bad:
    print("NOT-PASSING", t, res.get(t))
sys.exit(1 if bad else 0)
