//go:build verif

package grandpa

// Harness of property C22 (GRANDPA finality is safe under a Byzantine minority): trace validation.
//
// One case = one SCHEDULE of an asynchronous run of n voters over a small block tree.  Every honest voter is
// a real lib/grandpa Service (its own in-memory BlockState / GrandpaState / Network fakes over the shared
// tree, real lib/blocktree ancestry, real ed25519 signatures).  The schedule says when an honest voter takes
// its next protocol step and which of the votes cast so far is delivered to whom; WHAT an honest voter votes
// for and whether it finalises is decided by the real code:
//   prevote    votingRoundHandler.Run(determinePrevote)   -> handleIsPrimary, determinePreVote, store, gossip
//   precommit  finalisationEngine.defineRoundVotes()      -> the gate `total <= threshold` on getPreVotedBlock,
//              then votingRoundHandler.Run(determinePrecommit) -> determinePreCommit, store, gossip
//   finalise   attemptToFinalize()                         -> getBestFinalCandidate, `precommitCount <= threshold`,
//              finalise(); then initiateRound() starts the voter's next round
//   receive    validateVoteMessage()                       -> round window, descendant of the finalised head,
//              equivocation bookkeeping
// Byzantine voters are scripted: any vote, any round, any number of times.
//
// Authority sets: set 0 consists of the keys 0..n-1; `chg` announces, at a block of the tree, the change from the
// newest set to a new voter list.  Every honest voter's GrandpaState fake then answers NextGrandpaAuthorityChange
// with that block's number for chains through it (the real code caps its votes there) and moves to the next set id
// when the voter finalises that block or a descendant; the real initiateRound/updateAuthorities installs the new
// voter list in the Service.  Keys that are Byzantine, or that are NOT members of the set they sign for (retired
// authorities), are scripted.
//
// line:  n=<voters of set 0> byz=<i,j,..|-> tree=<p1,p2,..|->|<op>;<op>;...
//   tree   block 0 is the root; block i (i>=1) has parent p_i < i; header number = depth
//          chg b<k> v<a>,v<b>,..  the newest set hands over to a new set with these voters at block k
//   op     best v<i> b<k>      BestBlockHeader of honest voter i becomes block k (initially the root)
//          pv v<i>             honest voter i prevotes            (allocates the next message id)
//          pc v<i>             honest voter i runs the precommit gate and, if it passes, precommits (allocates an id)
//          bv <pv|pc> v<j> [s<t>] r<q> b<k>   scripted key j (Byzantine, or not a member of set t) casts that vote for
//                              round q of set t (default set 0)                               (allocates an id)
//          pp v<i>             the primaryProposal message honest voter i gossiped in its current round (it is the
//                              primary and has prevoted) becomes a message              (allocates an id)
//          d m<id> v<i>        message <id> is delivered to honest voter i
//          fin v<i>            honest voter i attempts to finalise its round
//        thr <n>               State.threshold() of n voters (alone on a line)
// output: one token per op joined by ';', then ';safe=<0|1>' (1: all blocks finalised by honest voters lie on one chain)
//         and ';cnt=<i>:<prevotes>.<precommits>.<prevote equivocators>.<precommit equivocators>,..' (the vote maps of
//         every honest Service at the end)   pp: ok|nopp
//   best: ok|nobest (the block does not descend from the voter's finalised head)   pv: pv=b<k>|skip|done|pv=err   pc: pc=b<k>|wait|skip|done|pc=err|pc=panic   bv: ok
//   d: ok|eq|round|set|notvoter|notdesc|self|nomsg|err   fin: fin=b<k>|no|skip|fin=err   chg: ok
//   done: checkRoundCompletable said that the round is over (a block was finalised in a HIGHER round - the code compares
//         round numbers across authority sets); the voter moved to its next round
//   pv / pc / fin of a key that is not a voter of its Service's current set: notauth

import (
	"encoding/json"
	"errors"
	"fmt"
	"strconv"
	"strings"
	"sync"
	"testing"
	"time"

	"github.com/ChainSafe/gossamer/dot/network"
	"github.com/ChainSafe/gossamer/dot/state"
	"github.com/ChainSafe/gossamer/dot/types"
	"github.com/ChainSafe/gossamer/internal/database"
	"github.com/ChainSafe/gossamer/internal/log"
	"github.com/ChainSafe/gossamer/lib/blocktree"
	"github.com/ChainSafe/gossamer/lib/common"
	"github.com/ChainSafe/gossamer/lib/crypto/ed25519"
	"github.com/ChainSafe/gossamer/lib/runtime"
	"github.com/ChainSafe/gossamer/pkg/scale"
	"github.com/libp2p/go-libp2p/core/peer"
)

// ---------------------------------------------------------------- fakes

var (
	c22ErrNoFin   = errors.New("c22: no finalised header for that round")
	c22ErrRuntime = errors.New("c22: no runtime")
	c22ErrNoPc    = errors.New("c22: no precommits stored")
	c22ErrPanic   = errors.New("c22: the code panicked")
	c22ErrNoSet   = errors.New("c22: no such authority set")
)

// c22World is what all voters of a schedule share: the tree, the voter lists of the sets and the handover blocks.
type c22World struct {
	tree    *c22Tree
	sets    [][]int // sets[t] = keys of set t, in voter order
	changes []int   // changes[t] = block at which set t hands over to set t+1
}

type c22SetRound struct{ set, round uint64 }

type c22BlockState struct {
	BlockState // every method that is not overridden panics (nil interface)
	mu         sync.Mutex
	w          *c22World
	tree       *c22Tree
	best       int
	head       int // the latest finalised block
	curSet     uint64
	finByRound map[c22SetRound]common.Hash
	highest    c22SetRound
	hasCalls   int
	finCalls   []int
}

// pendingChange returns the handover block of the voter's current set if the change is still ahead of its
// finalised head.
func (b *c22BlockState) pendingChange() (int, bool) {
	if int(b.curSet) >= len(b.w.changes) {
		return 0, false
	}
	x := b.w.changes[b.curSet]
	if done, err := b.tree.bt.IsDescendantOf(b.tree.headers[x].Hash(), b.tree.headers[b.head].Hash()); err != nil || done {
		return 0, false
	}
	return x, true
}

func (b *c22BlockState) GenesisHash() common.Hash { return b.tree.headers[0].Hash() }

func (b *c22BlockState) HasHeader(h common.Hash) (bool, error) {
	_, ok := b.tree.index[h]
	return ok, nil
}

func (b *c22BlockState) GetHeader(h common.Hash) (*types.Header, error) {
	if i, ok := b.tree.index[h]; ok {
		return b.tree.headers[i], nil
	}
	return nil, fmt.Errorf("c22 header: %w", database.ErrNotFound)
}

func (b *c22BlockState) IsDescendantOf(parent, child common.Hash) (bool, error) {
	return b.tree.bt.IsDescendantOf(parent, child)
}

func (b *c22BlockState) LowestCommonAncestor(x, y common.Hash) (common.Hash, error) {
	return b.tree.bt.LowestCommonAncestor(x, y)
}

func (b *c22BlockState) BestBlockHeader() (*types.Header, error) { return b.tree.headers[b.best], nil }
func (b *c22BlockState) BestBlockHash() common.Hash                { return b.tree.headers[b.best].Hash() }

func (b *c22BlockState) HasFinalisedBlock(round, setID uint64) (bool, error) {
	b.mu.Lock()
	defer b.mu.Unlock()
	b.hasCalls++
	_, ok := b.finByRound[c22SetRound{setID, round}]
	return ok, nil
}

func (b *c22BlockState) hasCount() int {
	b.mu.Lock()
	defer b.mu.Unlock()
	return b.hasCalls
}

func (b *c22BlockState) GetHighestRoundAndSetID() (uint64, uint64, error) {
	return b.highest.round, b.highest.set, nil
}

func (b *c22BlockState) GetFinalisedHeader(round, setID uint64) (*types.Header, error) {
	if h, ok := b.finByRound[c22SetRound{setID, round}]; ok {
		return b.GetHeader(h)
	}
	return nil, c22ErrNoFin
}

func (b *c22BlockState) GetHighestFinalisedHeader() (*types.Header, error) {
	return b.GetFinalisedHeader(b.highest.round, b.highest.set)
}

func (b *c22BlockState) GetRuntime(common.Hash) (runtime.Instance, error) { return nil, c22ErrRuntime }
func (b *c22BlockState) SetJustification(common.Hash, []byte) error       { return nil }

func (b *c22BlockState) SetFinalisedHash(h common.Hash, round, setID uint64) error {
	i, ok := b.tree.index[h]
	if !ok {
		i = -1
	}
	b.finCalls = append(b.finCalls, i)
	b.finByRound[c22SetRound{setID, round}] = h
	if setID > b.highest.set || (setID == b.highest.set && round > b.highest.round) {
		b.highest = c22SetRound{setID, round}
	}
	if i >= 0 {
		// finalising the handover block (or a descendant) enacts the authority change
		if int(b.curSet) < len(b.w.changes) {
			x := b.w.changes[b.curSet]
			if on, err := b.tree.bt.IsDescendantOf(b.tree.headers[x].Hash(), h); err == nil && on {
				b.curSet++
			}
		}
		b.head = i
	}
	return nil
}

type c22GrandpaState struct {
	GrandpaState
	bs  *c22BlockState
	pcs map[c22SetRound][]SignedVote
	pvs map[c22SetRound][]SignedVote
}

// NextGrandpaAuthorityChange: the number of the handover block when it lies on the chain of the given block.
func (g *c22GrandpaState) NextGrandpaAuthorityChange(hash common.Hash, _ uint) (uint, error) {
	if x, ok := g.bs.pendingChange(); ok {
		xh := g.bs.tree.headers[x]
		if on, err := g.bs.tree.bt.IsDescendantOf(xh.Hash(), hash); err == nil && on {
			return xh.Number, nil
		}
	}
	return 0, fmt.Errorf("c22: %w", state.ErrNoNextAuthorityChange)
}
func (g *c22GrandpaState) GetCurrentSetID() (uint64, error) { return g.bs.curSet, nil }
func (g *c22GrandpaState) GetAuthorities(setID uint64) ([]types.GrandpaVoter, error) {
	if int(setID) >= len(g.bs.w.sets) {
		return nil, c22ErrNoSet
	}
	return c22Voters(g.bs.w.sets[setID]), nil
}
func (*c22GrandpaState) GetLatestRound() (uint64, error) { return 0, nil }
func (*c22GrandpaState) SetLatestRound(uint64) error     { return nil }
func (g *c22GrandpaState) SetPrevotes(round, set uint64, v []SignedVote) error {
	g.pvs[c22SetRound{set, round}] = v
	return nil
}
func (g *c22GrandpaState) SetPrecommits(round, set uint64, v []SignedVote) error {
	g.pcs[c22SetRound{set, round}] = v
	return nil
}
func (g *c22GrandpaState) GetPrecommits(round, set uint64) ([]SignedVote, error) {
	if v, ok := g.pcs[c22SetRound{set, round}]; ok {
		return v, nil
	}
	return nil, c22ErrNoPc
}
func (g *c22GrandpaState) GetPrevotes(round, set uint64) ([]SignedVote, error) {
	if v, ok := g.pvs[c22SetRound{set, round}]; ok {
		return v, nil
	}
	return nil, c22ErrNoPc
}

func c22Voters(keys []int) []Voter {
	vs := make([]Voter, len(keys))
	for i, k := range keys {
		vs[i] = Voter{Key: *c22Key(k).Public().(*ed25519.PublicKey), ID: uint64(i)}
	}
	return vs
}

type c22Telemetry struct{}

func (c22Telemetry) SendMessage(json.Marshaler) {}

// c22Network records what the Service gossips.
type c22Network struct {
	Network
	mu   sync.Mutex
	sent []network.NotificationsMessage
}

func (n *c22Network) GossipMessage(msg network.NotificationsMessage) {
	n.mu.Lock()
	n.sent = append(n.sent, msg)
	n.mu.Unlock()
}

func (n *c22Network) SendMessage(peer.ID, NotificationsMessage) error { return nil }

// lastVote returns the last gossiped vote message of the given stage.
func (n *c22Network) lastVote(stage Subround) *VoteMessage {
	n.mu.Lock()
	defer n.mu.Unlock()
	for i := len(n.sent) - 1; i >= 0; i-- {
		cm, ok := n.sent[i].(*ConsensusMessage)
		if !ok {
			continue
		}
		m, err := decodeMessage(cm)
		if err != nil {
			continue
		}
		if vm, ok := m.(*VoteMessage); ok && vm.Message.Stage == stage {
			return vm
		}
	}
	return nil
}

// ---------------------------------------------------------------- cached keys and trees

var (
	c22Mu    sync.Mutex
	c22Keys  = map[int]*ed25519.Keypair{}
	c22Trees = map[string]*c22Tree{}
)

func c22Key(i int) *ed25519.Keypair {
	c22Mu.Lock()
	defer c22Mu.Unlock()
	if k, ok := c22Keys[i]; ok {
		return k
	}
	seed := make([]byte, 32)
	copy(seed, fmt.Sprintf("c22-key-%d", i))
	k, err := ed25519.NewKeypairFromSeed(seed)
	if err != nil {
		panic(err)
	}
	c22Keys[i] = k
	return k
}

func c22Pub(i int) ed25519.PublicKeyBytes {
	return c22Key(i).Public().(*ed25519.PublicKey).AsBytes()
}

type c22Tree struct {
	headers []*types.Header
	parents []int
	index   map[common.Hash]int
	bt      *blocktree.BlockTree
}

func c22Num(s string) (int, bool) {
	v, err := strconv.Atoi(s)
	if err != nil || v < 0 || s != strconv.Itoa(v) {
		return 0, false
	}
	return v, true
}

// c22BuildTree returns nil when the description is malformed.
func c22BuildTree(desc string) *c22Tree {
	c22Mu.Lock()
	defer c22Mu.Unlock()
	if t, ok := c22Trees[desc]; ok {
		return t
	}
	var parents []int
	if desc != "-" {
		for i, s := range strings.Split(desc, ",") {
			p, ok := c22Num(s)
			if !ok || p > i {
				return nil
			}
			parents = append(parents, p)
		}
	}
	if len(parents) > 12 {
		return nil
	}
	t := &c22Tree{parents: parents, index: map[common.Hash]int{}}
	salt := func(i int) common.Hash {
		h, _ := common.Blake2bHash([]byte(fmt.Sprintf("c22-block-%d", i)))
		return h
	}
	// every block is a BABE secondary-slot block (lib/blocktree wants a pre-runtime digest in every header)
	digest := func(i int) types.Digest {
		d := types.NewDigest()
		bd := types.NewBabeDigest()
		if err := bd.SetValue(types.BabeSecondaryPlainPreDigest{AuthorityIndex: uint32(i), SlotNumber: uint64(i)}); err != nil {
			panic(err)
		}
		enc, err := scale.Marshal(bd)
		if err != nil {
			panic(err)
		}
		if err := d.Add(types.PreRuntimeDigest{ConsensusEngineID: types.BabeEngineID, Data: enc}); err != nil {
			panic(err)
		}
		return d
	}
	root := types.NewHeader(common.Hash{}, salt(0), common.Hash{}, 0, digest(0))
	t.headers = append(t.headers, root)
	for i, p := range parents {
		ph := t.headers[p]
		t.headers = append(t.headers, types.NewHeader(ph.Hash(), salt(i+1), common.Hash{}, ph.Number+1, digest(i+1)))
	}
	t.bt = blocktree.NewBlockTreeFromRoot(root)
	t0 := time.Unix(1_700_000_000, 0)
	for i, h := range t.headers {
		t.index[h.Hash()] = i
		if i > 0 {
			if err := t.bt.AddBlock(h, t0.Add(time.Duration(i)*time.Second)); err != nil {
				panic(err)
			}
		}
	}
	if len(c22Trees) < 50000 {
		c22Trees[desc] = t
	}
	return t
}

func (t *c22Tree) name(h common.Hash) string {
	if i, ok := t.index[h]; ok {
		return "b" + strconv.Itoa(i)
	}
	return "b?"
}

// ---------------------------------------------------------------- one honest voter

type c22Voter struct {
	idx          int
	svc          *Service
	bs           *c22BlockState
	net          *c22Network
	prevoted     bool
	precommitted bool
	finalised    []int
}

func c22NewVoter(idx int, w *c22World) *c22Voter {
	t := w.tree
	voters := c22Voters(w.sets[0])
	bs := &c22BlockState{w: w, tree: t, finByRound: map[c22SetRound]common.Hash{{0, 0}: t.headers[0].Hash()}}
	nw := &c22Network{}
	svc := &Service{
		blockState:         bs,
		grandpaState:       &c22GrandpaState{bs: bs, pcs: map[c22SetRound][]SignedVote{}, pvs: map[c22SetRound][]SignedVote{}},
		keypair:            c22Key(idx),
		authority:          true,
		network:            nw,
		interval:           200 * time.Microsecond,
		state:              NewState(voters, 0, 0),
		prevotes:           new(sync.Map),
		precommits:         new(sync.Map),
		pvEquivocations:    make(map[ed25519.PublicKeyBytes][]*SignedVote),
		pcEquivocations:    make(map[ed25519.PublicKeyBytes][]*SignedVote),
		preVotedBlock:      make(map[uint64]*Vote),
		bestFinalCandidate: make(map[uint64]*Vote),
		head:               t.headers[0],
		telemetry:          c22Telemetry{},
		tracker:            &tracker{votes: newVotesTracker(1000), commits: newCommitsTracker(8)},
	}
	if err := svc.initiateRound(); err != nil { // round 1, head = the finalised root
		panic(err)
	}
	return &c22Voter{idx: idx, svc: svc, bs: bs, net: nw}
}

// act lets the real votingRoundHandler execute one engine action and waits until it is done.
func (v *c22Voter) act(a engineAction) error {
	ch := make(chan engineAction)
	h := newvotingRoundHandler(v.svc, ch)
	done := make(chan error, 1)
	go func() {
		defer func() { // a panic of the real code must not kill the test binary
			if r := recover(); r != nil {
				done <- c22ErrPanic
			}
		}()
		done <- h.Run()
	}()
	select {
	case ch <- a:
	case err := <-done:
		return err
	}
	select {
	case err := <-done: // the handler failed on the action
		return err
	case ch <- alreadyFinalized: // accepted only after the action has been carried out
	}
	return <-done
}

// member: is the key a voter of the set its Service is in?
func (v *c22Voter) member() bool {
	me := c22Pub(v.idx)
	for _, x := range v.svc.state.voters {
		if x.Key.AsBytes() == me {
			return true
		}
	}
	return false
}

// roundDone asks the real checkRoundCompletable (the first thing both timers of defineRoundVotes do): when it says
// that the round is over, the ephemeral services end and the real initiateRound starts the next round.
func (v *c22Voter) roundDone() (string, bool) {
	done, err := v.svc.checkRoundCompletable()
	if err != nil {
		return "err", true
	}
	if !done {
		return "", false
	}
	if err := v.svc.initiateRound(); err != nil {
		return "err", true
	}
	v.prevoted, v.precommitted = false, false
	return "done", true
}

// proposal returns the primaryProposal message the Service gossiped in its current round, if any.
func (v *c22Voter) proposal() *VoteMessage {
	vm := v.net.lastVote(primaryProposal)
	if vm == nil || vm.Round != v.svc.state.round || vm.SetID != v.svc.state.setID {
		return nil
	}
	return vm
}

func (v *c22Voter) counts() string {
	n := func(m *sync.Map) int {
		c := 0
		m.Range(func(_, _ interface{}) bool { c++; return true })
		return c
	}
	return fmt.Sprintf("%d:%d.%d.%d.%d", v.idx, n(v.svc.prevotes), n(v.svc.precommits),
		len(v.svc.pvEquivocations), len(v.svc.pcEquivocations))
}

func (v *c22Voter) prevote() (string, *VoteMessage) {
	if !v.member() {
		return "notauth", nil
	}
	if v.prevoted {
		return "skip", nil
	}
	if res, over := v.roundDone(); over {
		return res, nil
	}
	if err := v.act(determinePrevote); err != nil {
		return "pv=err", nil
	}
	vm := v.net.lastVote(prevote)
	if vm == nil || vm.Round != v.svc.state.round || vm.SetID != v.svc.state.setID {
		return "pv=err", nil
	}
	v.prevoted = true
	return "pv=" + v.bs.tree.name(vm.Message.BlockHash), vm
}

// gate runs the real finalisationEngine.defineRoundVotes until it either asks for the precommit or has
// declined at least once (the fake HasFinalisedBlock is called once per timer event: the third call means
// that a complete evaluation of the precommit gate ended without a precommit).
func (v *c22Voter) gate() string {
	f := newfinalisationEngine(v.svc)
	start := v.bs.hasCount()
	done := make(chan error, 2)
	go func() {
		defer func() { // e.g. "block with supermajority does not belong to the latest finalized block chain"
			if r := recover(); r != nil {
				done <- c22ErrPanic
			}
		}()
		done <- f.defineRoundVotes()
	}()
	res := ""
	deadline := time.After(20 * time.Second)
	tick := time.NewTicker(50 * time.Microsecond)
	defer tick.Stop()
	for res == "" {
		select {
		case a := <-f.actionCh:
			switch a {
			case determinePrecommit:
				res = "go"
			case alreadyFinalized:
				res = "done"
			}
		case err := <-done:
			done <- err
			if errors.Is(err, c22ErrPanic) {
				return "panic"
			}
			if err != nil {
				return "err"
			}
			res = "done"
		case <-tick.C:
			if v.bs.hasCount()-start >= 3 {
				res = "wait"
			}
		case <-deadline:
			res = "timeout"
		}
	}
	if res == "wait" || res == "timeout" {
		close(f.stopCh)
		// the engine may be blocked offering an action: drain until it returns
		for {
			select {
			case a := <-f.actionCh:
				if a == determinePrecommit {
					res = "go"
				}
				continue
			case err := <-done:
				if errors.Is(err, c22ErrPanic) {
					res = "panic"
				}
			}
			break
		}
		return res
	}
	if err := <-done; err != nil {
		return "err"
	}
	return res
}

func (v *c22Voter) precommit() (string, *VoteMessage) {
	if !v.member() {
		return "notauth", nil
	}
	if !v.prevoted || v.precommitted {
		return "skip", nil
	}
	if res, over := v.roundDone(); over {
		return res, nil
	}
	switch v.gate() {
	case "go":
	case "wait":
		return "wait", nil
	case "panic":
		return "pc=panic", nil
	default:
		return "pc=err", nil
	}
	if err := v.act(determinePrecommit); err != nil {
		return "pc=err", nil
	}
	vm := v.net.lastVote(precommit)
	if vm == nil || vm.Round != v.svc.state.round || vm.SetID != v.svc.state.setID {
		return "pc=err", nil
	}
	v.precommitted = true
	return "pc=" + v.bs.tree.name(vm.Message.BlockHash), vm
}

func (v *c22Voter) finalise() string {
	if !v.member() {
		return "notauth"
	}
	if !v.precommitted {
		return "skip"
	}
	before := len(v.bs.finCalls)
	ok, err := v.svc.attemptToFinalize()
	if err != nil {
		return "fin=err"
	}
	if !ok {
		if len(v.bs.finCalls) != before {
			return "fin=err"
		}
		return "no"
	}
	if len(v.bs.finCalls) != before+1 || v.bs.finCalls[before] < 0 {
		return "fin=err"
	}
	b := v.bs.finCalls[before]
	if v.svc.head.Hash() != v.bs.tree.headers[b].Hash() {
		return "fin=err"
	}
	v.finalised = append(v.finalised, b)
	// finalisation prunes the other forks: a best block outside the finalised chain is replaced by the head
	if ok, err := v.bs.tree.bt.IsDescendantOf(v.bs.tree.headers[b].Hash(), v.bs.tree.headers[v.bs.best].Hash()); err != nil || !ok {
		v.bs.best = b
	}
	if err := v.svc.initiateRound(); err != nil {
		return "fin=err"
	}
	v.prevoted, v.precommitted = false, false
	return "fin=b" + strconv.Itoa(b)
}

func (v *c22Voter) receive(vm *VoteMessage) string {
	cp := *vm
	_, err := v.svc.validateVoteMessage(peer.ID("c22-peer"), &cp)
	switch {
	case err == nil:
		return "ok"
	case errors.Is(err, ErrEquivocation):
		return "eq"
	case errors.Is(err, ErrSetIDMismatch):
		return "set"
	case errors.Is(err, ErrVoterNotFound):
		return "notvoter"
	case errors.Is(err, errRoundOutOfBounds), errors.Is(err, errRoundsMismatch):
		return "round"
	case errors.Is(err, errVoteFromSelf):
		return "self"
	case errors.Is(err, errVoteBlockMismatch):
		return "notdesc"
	}
	return "err"
}

func c22ByzVote(key int, stage Subround, set, round int, t *c22Tree, blk int) *VoteMessage {
	vote := Vote{Hash: t.headers[blk].Hash(), Number: uint32(t.headers[blk].Number)}
	msg, err := scale.Marshal(FullVote{Stage: stage, Vote: vote, Round: uint64(round), SetID: uint64(set)})
	if err != nil {
		panic(err)
	}
	sig, err := c22Key(key).Sign(msg)
	if err != nil {
		panic(err)
	}
	return &VoteMessage{
		Round: uint64(round),
		SetID: uint64(set),
		Message: SignedMessage{
			Stage:       stage,
			BlockHash:   vote.Hash,
			Number:      vote.Number,
			Signature:   ed25519.NewSignatureBytes(sig),
			AuthorityID: c22Pub(key),
		},
	}
}

// ---------------------------------------------------------------- running a schedule

func c22Tagged(s string, tag byte) (int, bool) {
	if len(s) < 2 || s[0] != tag {
		return 0, false
	}
	return c22Num(s[1:])
}

func c22Run(line string) string {
	if f := strings.Fields(line); len(f) == 2 && f[0] == "thr" { // ties State.threshold to the model's thrLib
		n, ok := c22Num(f[1])
		if !ok || n > 100000 {
			return "bad-op"
		}
		return strconv.FormatUint((&State{voters: make([]Voter, n)}).threshold(), 10)
	}
	bar := strings.IndexByte(line, '|')
	if bar < 0 {
		return "bad-op"
	}
	var (
		n    int
		byz  = map[int]bool{}
		tree *c22Tree
		seen = map[string]bool{}
	)
	for _, tok := range strings.Fields(line[:bar]) {
		eq := strings.IndexByte(tok, '=')
		if eq < 0 || seen[tok[:eq]] {
			return "bad-op"
		}
		k, val := tok[:eq], tok[eq+1:]
		seen[k] = true
		ok := false
		switch k {
		case "n":
			n, ok = c22Num(val)
			ok = ok && n >= 1 && n <= 12
		case "byz":
			ok = true
			if val != "-" {
				for _, s := range strings.Split(val, ",") {
					i, ok2 := c22Num(s)
					if !ok2 || i > 15 || byz[i] {
						return "bad-op"
					}
					byz[i] = true
				}
			}
		case "tree":
			tree = c22BuildTree(val)
			ok = tree != nil
		}
		if !ok {
			return "bad-op"
		}
	}
	if len(seen) != 3 {
		return "bad-op"
	}
	var ops [][]string
	if body := strings.TrimSpace(line[bar+1:]); body != "" {
		for _, o := range strings.Split(body, ";") {
			ops = append(ops, strings.Fields(o))
		}
	}
	if len(ops) > 600 {
		return "bad-op"
	}
	// validate the whole schedule before running anything
	honest := func(s string) (int, bool) {
		i, ok := c22Tagged(s, 'v')
		return i, ok && i < n && !byz[i]
	}
	block := func(s string) (int, bool) {
		k, ok := c22Tagged(s, 'b')
		return k, ok && k < len(tree.headers)
	}
	keyList := func(s string) ([]int, bool) { // v1,v4,..: distinct keys, honest ones among the initial voters
		var ks []int
		seen := map[int]bool{}
		for _, x := range strings.Split(s, ",") {
			k, ok := c22Tagged(x, 'v')
			if !ok || k > 15 || seen[k] || (!byz[k] && k >= n) {
				return nil, false
			}
			seen[k] = true
			ks = append(ks, k)
		}
		return ks, len(ks) >= 1 && len(ks) <= 12
	}
	setsV := [][]int{c22Range(n)} // the sets defined so far, in the order of the schedule
	memberOf := func(j, t int) bool {
		for _, k := range setsV[t] {
			if k == j {
				return true
			}
		}
		return false
	}
	for _, f := range ops {
		ok := false
		switch {
		case len(f) == 3 && f[0] == "chg":
			_, ok1 := block(f[1])
			ks, ok2 := keyList(f[2])
			ok = ok1 && ok2 && len(setsV) < 8
			if ok {
				setsV = append(setsV, ks)
			}
		case (len(f) == 5 || len(f) == 6) && f[0] == "bv" && (f[1] == "pv" || f[1] == "pc"):
			j, ok1 := c22Tagged(f[2], 'v')
			t, okt := 0, true
			if len(f) == 6 {
				t, okt = c22Tagged(f[3], 's')
			}
			q, ok2 := c22Tagged(f[len(f)-2], 'r')
			_, ok3 := block(f[len(f)-1])
			ok = ok1 && j <= 15 && okt && t <= 20 && ok2 && q <= 20 && ok3 &&
				(byz[j] || (t < len(setsV) && !memberOf(j, t)))
		case len(f) == 3 && f[0] == "best":
			_, ok1 := honest(f[1])
			_, ok2 := block(f[2])
			ok = ok1 && ok2
		case len(f) == 2 && (f[0] == "pv" || f[0] == "pc" || f[0] == "fin" || f[0] == "pp"):
			_, ok = honest(f[1])
		case len(f) == 3 && f[0] == "d":
			id, ok1 := c22Tagged(f[1], 'm')
			_, ok2 := honest(f[2])
			ok = ok1 && id < 1000 && ok2
		}
		if !ok {
			return "bad-op"
		}
	}

	world := &c22World{tree: tree, sets: [][]int{c22Range(n)}}
	vs := make([]*c22Voter, n)
	for i := range vs {
		if !byz[i] {
			vs[i] = c22NewVoter(i, world)
		}
	}
	var msgs []*VoteMessage // message id -> vote (nil: the voter did not vote)
	var out []string
	for _, f := range ops {
		switch f[0] {
		case "best":
			i, _ := honest(f[1])
			k, _ := block(f[2])
			// like the pruned block tree of a node, the best block always descends from the finalised head
			if ok, err := tree.bt.IsDescendantOf(vs[i].svc.head.Hash(), tree.headers[k].Hash()); err != nil || !ok {
				out = append(out, "nobest")
			} else {
				vs[i].bs.best = k
				out = append(out, "ok")
			}
		case "pv":
			i, _ := honest(f[1])
			res, vm := vs[i].prevote()
			msgs = append(msgs, vm)
			out = append(out, res)
		case "pp":
			i, _ := honest(f[1])
			vm := vs[i].proposal()
			msgs = append(msgs, vm)
			if vm == nil {
				out = append(out, "nopp")
			} else {
				out = append(out, "ok")
			}
		case "pc":
			i, _ := honest(f[1])
			res, vm := vs[i].precommit()
			msgs = append(msgs, vm)
			out = append(out, res)
		case "chg":
			k, _ := block(f[1])
			ks, _ := keyList(f[2])
			world.changes = append(world.changes, k)
			world.sets = append(world.sets, ks)
			out = append(out, "ok")
		case "bv":
			j, _ := c22Tagged(f[2], 'v')
			t := 0
			if len(f) == 6 {
				t, _ = c22Tagged(f[3], 's')
			}
			q, _ := c22Tagged(f[len(f)-2], 'r')
			k, _ := block(f[len(f)-1])
			st := prevote
			if f[1] == "pc" {
				st = precommit
			}
			msgs = append(msgs, c22ByzVote(j, st, t, q, tree, k))
			out = append(out, "ok")
		case "d":
			id, _ := c22Tagged(f[1], 'm')
			i, _ := honest(f[2])
			if id >= len(msgs) || msgs[id] == nil {
				out = append(out, "nomsg")
			} else {
				out = append(out, vs[i].receive(msgs[id]))
			}
		case "fin":
			i, _ := honest(f[1])
			out = append(out, vs[i].finalise())
		}
	}
	// safety verdict with the real ancestry function
	safe := 1
	var fins []int
	for _, v := range vs {
		if v != nil {
			fins = append(fins, v.finalised...)
		}
	}
	for _, a := range fins {
		for _, b := range fins {
			ab, err1 := tree.bt.IsDescendantOf(tree.headers[a].Hash(), tree.headers[b].Hash())
			ba, err2 := tree.bt.IsDescendantOf(tree.headers[b].Hash(), tree.headers[a].Hash())
			if err1 != nil || err2 != nil || (!ab && !ba) {
				safe = 0
			}
		}
	}
	out = append(out, "safe="+strconv.Itoa(safe))
	var cnts []string
	for _, v := range vs {
		if v != nil {
			cnts = append(cnts, v.counts())
		}
	}
	out = append(out, "cnt="+strings.Join(cnts, ","))
	return strings.Join(out, ";")
}

func TestVerifC22(t *testing.T) {
	logger.Patch(log.SetLevel(log.Critical))
	vhMain(t, c22Gen, func(line string) string {
		return vhWithTimeout(60000, func() string { return c22Run(line) })
	})
}
