//go:build verif

package grandpa

// C22, pkg/finality-grandpa side: the supermajority threshold and the way a Round compares with it.
//
// line:  fgthr <total>            threshold(VoterWeight(total))                         -> <threshold>
//        fgset <w1,w2,..>         NewVoterSet of voters 0,1,.. with these weights       -> <total> <threshold> | nil
//        fgfin <w1,w2,..> <k>     a Round over the chain R <- A; the first k voters prevote and precommit A
//                                 -> <total> <threshold> <weight of the k voters> fin=<A|-> ghost=<A|->
//                                 (fin: Round.State().Finalized, ghost: State().PrevoteGHOST; `A` iff the k voters
//                                 reach the threshold)

import (
	"fmt"
	"strconv"
	"strings"
	"testing"
)

type c22Chain struct{}

// the chain R <- A
func (c22Chain) Ancestry(base, block string) ([]string, error) {
	if base == "R" && block == "A" {
		return []string{}, nil
	}
	return nil, fmt.Errorf("block not descendent of base")
}

func (c c22Chain) IsEqualOrDescendantOf(base, block string) bool {
	if base == block {
		return true
	}
	_, err := c.Ancestry(base, block)
	return err == nil
}

func c22Weights(s string) ([]IDWeight[uint32], bool) {
	var out []IDWeight[uint32]
	for i, x := range strings.Split(s, ",") {
		n, err := strconv.ParseUint(x, 10, 64)
		if err != nil || x != strconv.FormatUint(n, 10) || n >= 1<<32 {
			return nil, false
		}
		out = append(out, IDWeight[uint32]{ID: uint32(i), Weight: n})
	}
	return out, len(out) <= 64
}

func c22FGRun(line string) string {
	f := strings.Fields(line)
	switch {
	case len(f) == 2 && f[0] == "fgthr":
		n, err := strconv.ParseUint(f[1], 10, 64)
		if err != nil || f[1] != strconv.FormatUint(n, 10) {
			return "bad-op"
		}
		return strconv.FormatUint(uint64(threshold(VoterWeight(n))), 10)
	case len(f) == 2 && f[0] == "fgset":
		ws, ok := c22Weights(f[1])
		if !ok {
			return "bad-op"
		}
		vs := NewVoterSet(ws)
		if vs == nil {
			return "nil"
		}
		return fmt.Sprintf("%d %d", uint64(vs.TotalWeight()), uint64(vs.Threshold()))
	case len(f) == 3 && f[0] == "fgfin":
		ws, ok := c22Weights(f[1])
		k, err := strconv.Atoi(f[2])
		if !ok || err != nil || k < 0 || k > len(ws) || f[2] != strconv.Itoa(k) {
			return "bad-op"
		}
		vs := NewVoterSet(ws)
		if vs == nil {
			return "nil"
		}
		round := NewRound[uint32, string, uint32, int](RoundParams[uint32, string, uint32]{
			RoundNumber: 1,
			Voters:      *vs,
			Base:        HashNumber[string, uint32]{"R", 0},
		})
		var w uint64
		for i := 0; i < k; i++ {
			w += ws[i].Weight
			if ws[i].Weight == 0 {
				continue // not a member of the set
			}
			if _, err := round.importPrevote(c22Chain{}, Prevote[string, uint32]{"A", 1}, uint32(i), i); err != nil {
				return "err"
			}
			if _, err := round.importPrecommit(c22Chain{}, Precommit[string, uint32]{"A", 1}, uint32(i), i); err != nil {
				return "err"
			}
		}
		st := round.State()
		show := func(hn *HashNumber[string, uint32]) string {
			if hn == nil {
				return "-"
			}
			return hn.Hash
		}
		return fmt.Sprintf("%d %d %d fin=%s ghost=%s", uint64(vs.TotalWeight()), uint64(vs.Threshold()), w,
			show(st.Finalized), show(st.PrevoteGHOST))
	}
	return "bad-op"
}

func c22FGGen(r *vhRng) string {
	weights := func() (string, int) {
		n := 1 + r.Intn(8)
		ws := make([]string, n)
		for i := range ws {
			w := 1
			switch r.Intn(6) {
			case 0:
				w = 0
			case 1, 2:
				w = 1 + r.Intn(5)
			case 3:
				w = 1 + r.Intn(1000)
			}
			ws[i] = strconv.Itoa(w)
		}
		return strings.Join(ws, ","), n
	}
	switch r.Intn(10) {
	case 0, 1:
		if r.Chance(1, 10) {
			return "fgthr " + strconv.FormatUint(r.U64(), 10)
		}
		return fmt.Sprintf("fgthr %d", r.Intn(301))
	case 2, 3:
		ws, _ := weights()
		return "fgset " + ws
	default:
		if r.Chance(1, 2) { // unit weights: the voter counts of lib/grandpa
			n := 1 + r.Intn(12)
			ws := strings.TrimSuffix(strings.Repeat("1,", n), ",")
			k := 2 * n / 3
			k += r.Intn(3) - 1
			if k < 0 {
				k = 0
			}
			if k > n {
				k = n
			}
			return fmt.Sprintf("fgfin %s %d", ws, k)
		}
		ws, n := weights()
		return fmt.Sprintf("fgfin %s %d", ws, r.Intn(n+1))
	}
}

func TestVerifC22FG(t *testing.T) { vhMain(t, c22FGGen, c22FGRun) }
