//go:build verif

package grandpa

// C22, pkg/finality-grandpa side: the supermajority threshold and the way a Round compares with it.
//
// line:  fgthr <total>            threshold(VoterWeight(total))                         -> <threshold>
//        fgset <w1,w2,..>         NewVoterSet of voters 0,1,.. with these weights       -> <total> <threshold> | nil
//        fgfin <w1,w2,..> <k>     a Round over the chain R <- A; the first k voters prevote and precommit A
//                                 -> <total> <threshold> <weight of the k voters> fin=<A|-> ghost=<A|->
//                                 (fin: Round.State().Finalized, ghost: State().PrevoteGHOST; `A` iff the k voters
//                                 reach the threshold)
//        fgrnd w=<w1,w2,..> tree=<p1,p2,..|->|pv <voter> <block>;pc <voter> <block>;...
//                                 a Round over a block tree (block 0 = base) with WEIGHTED voters; the votes are imported
//                                 in the given order (a voter with two different votes equivocates)
//                                 -> ghost=<b|-> fin=<b|-> est=<b|-> comp=<T|F|->   (State() after the last import;
//                                 est/comp only once the precommit weight has reached the threshold), or `eqv` when
//                                 the equivocators of a phase outweigh the tolerated weight (nothing is promised then)

import (
	"fmt"
	"strconv"
	"strings"
	"testing"
)

type c22Chain struct{}

// the chain R <- A
func (c22Chain) Ancestry(base, block string) ([]string, error) {
	if base == "R" && block == "A" {
		return []string{}, nil
	}
	return nil, fmt.Errorf("block not descendent of base")
}

func (c c22Chain) IsEqualOrDescendantOf(base, block string) bool {
	if base == block {
		return true
	}
	_, err := c.Ancestry(base, block)
	return err == nil
}

func c22Weights(s string) ([]IDWeight[uint32], bool) {
	var out []IDWeight[uint32]
	for i, x := range strings.Split(s, ",") {
		n, err := strconv.ParseUint(x, 10, 64)
		if err != nil || x != strconv.FormatUint(n, 10) || n >= 1<<32 {
			return nil, false
		}
		out = append(out, IDWeight[uint32]{ID: uint32(i), Weight: n})
	}
	return out, len(out) <= 64
}

// c22TreeChain is a Chain over a parent table; block i is called "b<i>".
type c22TreeChain struct{ par []int }

func (c c22TreeChain) idx(h string) int {
	if len(h) < 2 || h[0] != 'b' {
		return -1
	}
	i, err := strconv.Atoi(h[1:])
	if err != nil || i < 0 || i > len(c.par) {
		return -1
	}
	return i
}

func (c c22TreeChain) Ancestry(base, block string) ([]string, error) {
	bi, ki := c.idx(base), c.idx(block)
	if bi < 0 || ki < 0 {
		return nil, fmt.Errorf("unknown block")
	}
	anc := []string{}
	for ki != bi {
		if ki == 0 {
			return nil, fmt.Errorf("block not descendent of base")
		}
		ki = c.par[ki-1]
		if ki != bi {
			anc = append(anc, "b"+strconv.Itoa(ki))
		}
	}
	return anc, nil
}

func (c c22TreeChain) IsEqualOrDescendantOf(base, block string) bool {
	if base == block {
		return true
	}
	_, err := c.Ancestry(base, block)
	return err == nil
}

func (c c22TreeChain) depth(i int) uint32 {
	d := uint32(0)
	for i > 0 {
		i = c.par[i-1]
		d++
	}
	return d
}

func c22FGRound(line string) string {
	bar := strings.IndexByte(line, '|')
	hdr := strings.Fields(line[:bar])
	if len(hdr) != 3 || !strings.HasPrefix(hdr[1], "w=") || !strings.HasPrefix(hdr[2], "tree=") {
		return "bad-op"
	}
	ws, ok := c22Weights(hdr[1][2:])
	if !ok {
		return "bad-op"
	}
	var par []int
	if t := hdr[2][5:]; t != "-" {
		for i, x := range strings.Split(t, ",") {
			p, err := strconv.Atoi(x)
			if err != nil || p < 0 || p > i || x != strconv.Itoa(p) {
				return "bad-op"
			}
			par = append(par, p)
		}
	}
	if len(par) > 12 {
		return "bad-op"
	}
	type op struct {
		pc   bool
		v, b int
	}
	var ops []op
	if body := strings.TrimSpace(line[bar+1:]); body != "" {
		for _, o := range strings.Split(body, ";") {
			f := strings.Fields(o)
			if len(f) != 3 || (f[0] != "pv" && f[0] != "pc") {
				return "bad-op"
			}
			v, e1 := strconv.Atoi(f[1])
			b, e2 := strconv.Atoi(f[2])
			if e1 != nil || e2 != nil || v < 0 || v >= len(ws) || b < 0 || b > len(par) ||
				f[1] != strconv.Itoa(v) || f[2] != strconv.Itoa(b) {
				return "bad-op"
			}
			ops = append(ops, op{f[0] == "pc", v, b})
		}
	}
	if len(ops) > 200 {
		return "bad-op"
	}
	vs := NewVoterSet(ws)
	if vs == nil {
		return "nil"
	}
	chain := c22TreeChain{par}
	round := NewRound[uint32, string, uint32, int](RoundParams[uint32, string, uint32]{
		RoundNumber: 1,
		Voters:      *vs,
		Base:        HashNumber[string, uint32]{"b0", 0},
	})
	for _, o := range ops {
		h, n := "b"+strconv.Itoa(o.b), chain.depth(o.b)
		var err error
		if o.pc {
			_, err = round.importPrecommit(chain, Precommit[string, uint32]{h, n}, uint32(o.v), o.b)
		} else {
			_, err = round.importPrevote(chain, Prevote[string, uint32]{h, n}, uint32(o.v), o.b)
		}
		if err != nil {
			return "err"
		}
	}
	round.update()
	tolerated := VoteWeight(vs.TotalWeight() - vs.Threshold())
	if round.context.EquivocationWeight(PrevotePhase) > tolerated ||
		round.context.EquivocationWeight(PrecommitPhase) > tolerated {
		return "eqv"
	}
	show := func(hn *HashNumber[string, uint32]) string {
		if hn == nil {
			return "-"
		}
		return hn.Hash
	}
	st := round.State()
	est, comp := "-", "-"
	if pcW, _ := round.PrecommitParticipation(); pcW >= VoteWeight(vs.Threshold()) && st.PrevoteGHOST != nil {
		est = show(st.Estimate)
		comp = "F"
		if st.Completable {
			comp = "T"
		}
	}
	return fmt.Sprintf("ghost=%s fin=%s est=%s comp=%s", show(st.PrevoteGHOST), show(st.Finalized), est, comp)
}

func c22FGRun(line string) string {
	if strings.HasPrefix(line, "fgrnd ") && strings.IndexByte(line, '|') > 0 {
		return c22FGRound(line)
	}
	f := strings.Fields(line)
	switch {
	case len(f) == 2 && f[0] == "fgthr":
		n, err := strconv.ParseUint(f[1], 10, 64)
		if err != nil || f[1] != strconv.FormatUint(n, 10) {
			return "bad-op"
		}
		return strconv.FormatUint(uint64(threshold(VoterWeight(n))), 10)
	case len(f) == 2 && f[0] == "fgset":
		ws, ok := c22Weights(f[1])
		if !ok {
			return "bad-op"
		}
		vs := NewVoterSet(ws)
		if vs == nil {
			return "nil"
		}
		return fmt.Sprintf("%d %d", uint64(vs.TotalWeight()), uint64(vs.Threshold()))
	case len(f) == 3 && f[0] == "fgfin":
		ws, ok := c22Weights(f[1])
		k, err := strconv.Atoi(f[2])
		if !ok || err != nil || k < 0 || k > len(ws) || f[2] != strconv.Itoa(k) {
			return "bad-op"
		}
		vs := NewVoterSet(ws)
		if vs == nil {
			return "nil"
		}
		round := NewRound[uint32, string, uint32, int](RoundParams[uint32, string, uint32]{
			RoundNumber: 1,
			Voters:      *vs,
			Base:        HashNumber[string, uint32]{"R", 0},
		})
		var w uint64
		for i := 0; i < k; i++ {
			w += ws[i].Weight
			if ws[i].Weight == 0 {
				continue // not a member of the set
			}
			if _, err := round.importPrevote(c22Chain{}, Prevote[string, uint32]{"A", 1}, uint32(i), i); err != nil {
				return "err"
			}
			if _, err := round.importPrecommit(c22Chain{}, Precommit[string, uint32]{"A", 1}, uint32(i), i); err != nil {
				return "err"
			}
		}
		st := round.State()
		show := func(hn *HashNumber[string, uint32]) string {
			if hn == nil {
				return "-"
			}
			return hn.Hash
		}
		return fmt.Sprintf("%d %d %d fin=%s ghost=%s", uint64(vs.TotalWeight()), uint64(vs.Threshold()), w,
			show(st.Finalized), show(st.PrevoteGHOST))
	}
	return "bad-op"
}

func c22FGGen(r *vhRng) string {
	weights := func() (string, int) {
		n := 1 + r.Intn(8)
		ws := make([]string, n)
		for i := range ws {
			w := 1
			switch r.Intn(6) {
			case 0:
				w = 0
			case 1, 2:
				w = 1 + r.Intn(5)
			case 3:
				w = 1 + r.Intn(1000)
			}
			ws[i] = strconv.Itoa(w)
		}
		return strings.Join(ws, ","), n
	}
	if r.Chance(1, 2) {
		return c22FGGenRound(r)
	}
	switch r.Intn(10) {
	case 0, 1:
		if r.Chance(1, 10) {
			return "fgthr " + strconv.FormatUint(r.U64(), 10)
		}
		return fmt.Sprintf("fgthr %d", r.Intn(301))
	case 2, 3:
		ws, _ := weights()
		return "fgset " + ws
	default:
		if r.Chance(1, 2) { // unit weights: the voter counts of lib/grandpa
			n := 1 + r.Intn(12)
			ws := strings.TrimSuffix(strings.Repeat("1,", n), ",")
			k := 2 * n / 3
			k += r.Intn(3) - 1
			if k < 0 {
				k = 0
			}
			if k > n {
				k = n
			}
			return fmt.Sprintf("fgfin %s %d", ws, k)
		}
		ws, n := weights()
		return fmt.Sprintf("fgfin %s %d", ws, r.Intn(n+1))
	}
}

// c22FGGenRound: weighted voters over a small tree; most voters follow one chain, some vote for forks, a few
// equivocate; precommits from a part of the voters.
func c22FGGenRound(r *vhRng) string {
	n := 2 + r.Intn(6)
	ws := make([]string, n)
	for i := range ws {
		w := 1 + r.Intn(5)
		switch r.Intn(8) {
		case 0:
			w = 0
		case 1:
			w = 1 + r.Intn(40)
		case 2, 3:
			w = 1
		}
		ws[i] = strconv.Itoa(w)
	}
	size := 2 + r.Intn(5)
	par := make([]int, 0, size)
	ps := make([]string, 0, size)
	for i := 1; i < size; i++ {
		p := i - 1
		if r.Chance(2, 5) {
			p = r.Intn(i)
		}
		par = append(par, p)
		ps = append(ps, strconv.Itoa(p))
	}
	tree := "-"
	if len(ps) > 0 {
		tree = strings.Join(ps, ",")
	}
	mainB := r.Intn(size)
	pick := func() int {
		if r.Chance(2, 3) {
			return mainB
		}
		return r.Intn(size)
	}
	var ops []string
	for v := 0; v < n; v++ {
		if r.Chance(9, 10) {
			ops = append(ops, fmt.Sprintf("pv %d %d", v, pick()))
			if r.Chance(1, 8) {
				ops = append(ops, fmt.Sprintf("pv %d %d", v, r.Intn(size)))
			}
		}
	}
	for v := 0; v < n; v++ {
		if r.Chance(3, 4) {
			ops = append(ops, fmt.Sprintf("pc %d %d", v, pick()))
			if r.Chance(1, 8) {
				ops = append(ops, fmt.Sprintf("pc %d %d", v, r.Intn(size)))
			}
		}
	}
	for i := len(ops) - 1; i > 0; i-- {
		if r.Chance(1, 2) {
			j := r.Intn(i + 1)
			ops[i], ops[j] = ops[j], ops[i]
		}
	}
	return fmt.Sprintf("fgrnd w=%s tree=%s|%s", strings.Join(ws, ","), tree, strings.Join(ops, ";"))
}

func TestVerifC22FG(t *testing.T) { vhMain(t, c22FGGen, c22FGRun) }
