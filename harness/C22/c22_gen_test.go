//go:build verif

package grandpa

// Schedule generator of the C22 harness.  The generator never looks at what the code does: a schedule is a
// fixed list of steps and deliveries; message ids are allocated per vote op (pv / pc / bv), also when the
// voter does not vote.

import (
	"fmt"
	"strconv"
	"strings"
)

type c22Sched struct {
	r      *vhRng
	n      int
	byz    map[int]bool
	hon    []int
	byzL   []int
	par    []int // parents of blocks 1..
	ops    []string
	nextID int
	set    int   // the authority set the generated round belongs to
	nset   int   // number of voters of that set
	prims  []int // its voters in order (nil: 0..n-1)
	script []int // the scripted keys of the round (nil: the Byzantine voters)
}

// bvote appends a scripted vote of key j for (set, round q).
func (s *c22Sched) bvote(stage string, j, q, blk int) int {
	if s.set == 0 {
		return s.vote("bv %s v%d r%d b%d", stage, j, q, blk)
	}
	return s.vote("bv %s v%d s%d r%d b%d", stage, j, s.set, q, blk)
}

func (s *c22Sched) size() int { return len(s.par) + 1 }

func (s *c22Sched) op(format string, a ...interface{}) { s.ops = append(s.ops, fmt.Sprintf(format, a...)) }

// vote appends a vote op and returns the message id it allocates.
func (s *c22Sched) vote(format string, a ...interface{}) int {
	s.op(format, a...)
	s.nextID++
	return s.nextID - 1
}

func (s *c22Sched) shuffle(xs []int) []int {
	ys := append([]int{}, xs...)
	for i := len(ys) - 1; i > 0; i-- {
		j := s.r.Intn(i + 1)
		ys[i], ys[j] = ys[j], ys[i]
	}
	return ys
}

func (s *c22Sched) line() string {
	bz := "-"
	if len(s.byzL) > 0 {
		strs := make([]string, len(s.byzL))
		for i, b := range s.byzL {
			strs[i] = strconv.Itoa(b)
		}
		bz = strings.Join(strs, ",")
	}
	tr := "-"
	if len(s.par) > 0 {
		strs := make([]string, len(s.par))
		for i, p := range s.par {
			strs[i] = strconv.Itoa(p)
		}
		tr = strings.Join(strs, ",")
	}
	return fmt.Sprintf("n=%d byz=%s tree=%s|%s", s.n, bz, tr, strings.Join(s.ops, ";"))
}

func (s *c22Sched) depth(b int) int {
	d := 0
	for b > 0 {
		b = s.par[b-1]
		d++
	}
	return d
}

func (s *c22Sched) leaves() []int {
	isPar := map[int]bool{}
	for _, p := range s.par {
		isPar[p] = true
	}
	var ls []int
	for b := 0; b < s.size(); b++ {
		if !isPar[b] {
			ls = append(ls, b)
		}
	}
	return ls
}

func c22NewSched(r *vhRng) *c22Sched {
	s := &c22Sched{r: r, byz: map[int]bool{}}
	s.n = r.Pick(3, 4, 4, 4, 5, 5, 6, 7, 7)
	fmax := (s.n - 1) / 3
	f := r.Intn(fmax + 1)
	if s.n%3 == 0 && r.Chance(1, 6) {
		f = s.n / 3 // exactly one third: outside the hypothesis of the theorem, the model must still agree
	}
	for _, i := range s.shuffle(c22Range(s.n))[:f] {
		s.byz[i] = true
	}
	for i := 0; i < s.n; i++ {
		if s.byz[i] {
			s.byzL = append(s.byzL, i)
		} else {
			s.hon = append(s.hon, i)
		}
	}
	size := 2 + r.Intn(5)
	for i := 1; i < size; i++ {
		p := i - 1
		if r.Chance(2, 5) {
			p = r.Intn(i)
		}
		s.par = append(s.par, p)
	}
	return s
}

func c22Range(n int) []int {
	xs := make([]int, n)
	for i := range xs {
		xs[i] = i
	}
	return xs
}

// deliver sends the messages `ids` to every honest voter: each one with probability num/den, in a random
// order; with `exact >= 0` the receiver gets exactly that many of them (boundary of the thresholds).
func (s *c22Sched) deliver(ids []int, num, den, exact int) {
	for _, to := range s.shuffle(s.hon) {
		order := s.shuffle(ids)
		if exact >= 0 {
			if exact < len(order) {
				order = order[:exact]
			}
			for _, id := range order {
				s.op("d m%d v%d", id, to)
			}
			continue
		}
		for _, id := range order {
			if s.r.Chance(num, den) {
				s.op("d m%d v%d", id, to)
				if s.r.Chance(1, 25) {
					s.op("d m%d v%d", id, to) // duplicate
				}
			}
		}
	}
}

// round appends one protocol round for all honest voters.
func (s *c22Sched) round(q int, lossy bool) {
	r := s.r
	ls := s.leaves()
	mainLeaf := ls[r.Intn(len(ls))]
	for _, i := range s.hon {
		b := mainLeaf
		switch r.Intn(10) {
		case 0, 1:
			b = ls[r.Intn(len(ls))]
		case 2:
			b = r.Intn(s.size())
		}
		s.op("best v%d b%d", i, b)
	}
	num, den := 9, 10
	if lossy {
		num, den = 2, 3
	}
	nset := s.n
	if s.nset > 0 {
		nset = s.nset
	}
	script := s.byzL
	if s.script != nil {
		script = s.script
	}
	thr := 2 * nset / 3
	var pvs, pcs []int
	// every third round the primary (voters[round % n]) votes first and its prevote reaches the others before
	// they prevote: determinePreVote then copies the primary's block when its number is not below the head's
	prim := -1
	ppID := -1
	if r.Chance(1, 3) {
		prim = q % nset
		if s.prims != nil {
			prim = s.prims[q%nset]
		}
		var id int
		if s.byz[prim] {
			blk := r.Intn(s.size())
			if r.Chance(1, 3) {
				blk = 0
			}
			id = s.bvote("pv", prim, q, blk)
		} else {
			if r.Chance(1, 3) {
				s.op("best v%d b%d", prim, r.Pick(0, 0, 1, r.Intn(s.size())))
			}
			id = s.vote("pv v%d", prim)
			ppID = s.vote("pp v%d", prim) // its signed primaryProposal: the best block, whatever it precommits later
		}
		pvs = append(pvs, id)
		for _, to := range s.hon {
			if to == prim {
				continue
			}
			if ppID >= 0 && r.Chance(1, 2) {
				s.op("d m%d v%d", ppID, to) // the proposal arrives before the voter prevotes
			}
			if r.Chance(9, 10) {
				s.op("d m%d v%d", id, to)
			}
		}
	}
	for _, i := range s.shuffle(s.hon) {
		if i != prim {
			pvs = append(pvs, s.vote("pv v%d", i))
		}
	}
	if ppID < 0 && r.Chance(1, 2) { // the primary's proposal of an ordinary round
		p := q % nset
		if s.prims != nil {
			p = s.prims[q%nset]
		}
		if !s.byz[p] {
			ppID = s.vote("pp v%d", p)
		}
	}
	if ppID >= 0 && r.Chance(1, 2) { // … reaches some voters after they have prevoted
		for _, to := range s.hon {
			if r.Chance(1, 2) {
				s.op("d m%d v%d", ppID, to)
			}
		}
	}
	for _, j := range script {
		for k := r.Intn(3); k > 0; k-- {
			q2 := q
			if r.Chance(1, 12) {
				q2 = q + r.Intn(3) - 1
				if q2 < 0 {
					q2 = 0
				}
			}
			blk := ls[r.Intn(len(ls))]
			if r.Chance(1, 4) {
				blk = r.Intn(s.size())
			}
			pvs = append(pvs, s.bvote("pv", j, q2, blk))
		}
	}
	exact := -1
	if r.Chance(1, 5) {
		exact = thr - 1 + r.Intn(3) // own vote + these: thr, thr+1, thr+2 votes
		if exact < 0 {
			exact = 0
		}
	}
	s.deliver(pvs, num, den, exact)
	for _, i := range s.shuffle(s.hon) {
		pcs = append(pcs, s.vote("pc v%d", i))
	}
	for _, j := range script {
		for k := r.Intn(3); k > 0; k-- {
			blk := ls[r.Intn(len(ls))]
			if r.Chance(1, 4) {
				blk = r.Intn(s.size())
			}
			pcs = append(pcs, s.bvote("pc", j, q, blk))
		}
	}
	if r.Chance(1, 4) { // late prevotes
		s.deliver(pvs, 1, 3, -1)
	}
	if ppID >= 0 && r.Chance(2, 3) { // the proposal reaches voters after they have precommitted, before or after the
		for _, to := range s.hon { // primary's own precommit
			if r.Chance(2, 3) {
				s.op("d m%d v%d", ppID, to)
			}
		}
	}
	exact = -1
	if r.Chance(1, 5) {
		exact = thr - 1 + r.Intn(3)
		if exact < 0 {
			exact = 0
		}
	}
	s.deliver(pcs, num, den, exact)
	for _, i := range s.shuffle(s.hon) {
		s.op("fin v%d", i)
	}
	if r.Chance(1, 3) { // a second chance for those who could not finalise yet
		s.deliver(pcs, 1, 1, -1)
		for _, i := range s.shuffle(s.hon) {
			s.op("fin v%d", i)
		}
	}
}

func c22GenRandom(r *vhRng) string {
	s := c22NewSched(r)
	rounds := 1 + r.Intn(2)
	for q := 1; q <= rounds; q++ {
		s.round(q, r.Chance(1, 3))
	}
	return s.line()
}

// c22GenFork builds the schedule in which the voters finalise DIFFERENT blocks of one chain in round 1 and
// the voters that finalised the lower one move to another fork in round 2 (no Byzantine voter needed):
// tree 0 <- 1(A) <- 2(B), 1 <- 3(C) [<- 4]; k voters see enough precommits for B, the others only for A.
func c22GenFork(r *vhRng) string {
	s := &c22Sched{r: r, byz: map[int]bool{}}
	s.n = r.Pick(4, 4, 5, 7)
	s.hon = c22Range(s.n)
	s.par = []int{0, 1, 1}
	c2 := 3
	if r.Bool() {
		s.par = append(s.par, 3)
		c2 = 4
	}
	last := s.n - 1 // the voter whose chain is C in round 1
	for i := 0; i < s.n; i++ {
		b := 2
		if i == last {
			b = 3
		}
		s.op("best v%d b%d", i, b)
	}
	pv := make([]int, s.n)
	for i := 0; i < s.n; i++ {
		pv[i] = s.vote("pv v%d", i)
	}
	thr := 2 * s.n / 3
	for to := 0; to < s.n; to++ {
		ids := pv // everybody receives every prevote ...
		if to == last && !r.Chance(1, 8) {
			ids = pv[:thr] // ... but `last` only thr prevotes for B: with its own vote only A has a supermajority
		}
		for _, id := range s.shuffle(ids) {
			if id != pv[to] {
				s.op("d m%d v%d", id, to)
			}
		}
	}
	pc := make([]int, s.n)
	for i := 0; i < s.n; i++ {
		pc[i] = s.vote("pc v%d", i)
	}
	// voter 0 receives all precommits (B gets a supermajority); the others miss enough precommits for B
	// that only A has one for them
	for to := 0; to < s.n; to++ {
		var ids []int
		if to == 0 || r.Chance(1, 6) {
			ids = pc
		} else {
			// own precommit + (thr - 1) other precommits for B + the precommit of `last` (for A): B has thr, A thr+1
			cnt := 0
			for i := 0; i < s.n-1 && cnt < thr-1; i++ {
				if i != to {
					ids = append(ids, pc[i])
					cnt++
				}
			}
			ids = append(ids, pc[last])
		}
		for _, id := range s.shuffle(ids) {
			if id != pc[to] {
				s.op("d m%d v%d", id, to)
			}
		}
	}
	for i := 0; i < s.n; i++ {
		s.op("fin v%d", i)
	}
	// round 2: everybody whose head is A follows the fork of C
	for i := 1; i < s.n; i++ {
		s.op("best v%d b%d", i, c2)
	}
	var pv2 []int
	for i := 0; i < s.n; i++ {
		pv2 = append(pv2, s.vote("pv v%d", i))
	}
	s.deliver(pv2, 1, 1, -1)
	var pc2 []int
	for i := 0; i < s.n; i++ {
		pc2 = append(pc2, s.vote("pc v%d", i))
	}
	s.deliver(pc2, 1, 1, -1)
	for i := 0; i < s.n; i++ {
		s.op("fin v%d", i)
	}
	return s.line()
}

func c22KeyList(ks []int) string {
	strs := make([]string, len(ks))
	for i, k := range ks {
		strs[i] = "v" + strconv.Itoa(k)
	}
	return strings.Join(strs, ",")
}

// c22GenSetChange: a round in set 0 with a pending authority change at a block of the main chain (the code caps
// its votes there), then one or two rounds in set 1: some voters retire, and the retired keys — outside every
// budget, whoever they were — keep sending votes for the new set.
func c22GenSetChange(r *vhRng) string {
	s := c22NewSched(r)
	// the handover block: a block of depth >= 1
	x := 1 + r.Intn(s.size()-1)
	if r.Chance(1, 2) {
		for s.depth(x) > 1 {
			x = s.par[x-1]
		}
	}
	// the new set: retire 1..3 keys, keep at least 2 voters and the 1/3 bound
	keep := s.shuffle(c22Range(s.n))
	retire := 1 + r.Intn(3)
	if retire > s.n-2 {
		retire = s.n - 2
	}
	retired, members := keep[:retire], keep[retire:]
	for {
		nb := 0
		for _, k := range members {
			if s.byz[k] {
				nb++
			}
		}
		if 3*nb < len(members) || r.Chance(1, 10) {
			break
		}
		for i, k := range members { // retire one more Byzantine voter
			if s.byz[k] {
				retired = append(retired, k)
				members = append(members[:i:i], members[i+1:]...)
				break
			}
		}
	}
	if !r.Chance(1, 3) { // keep the order of the keys most of the time
		for i := range members {
			for j := i + 1; j < len(members); j++ {
				if members[j] < members[i] {
					members[i], members[j] = members[j], members[i]
				}
			}
		}
	}
	// the change is part of block x: everybody who votes for x or a descendant knows it
	s.op("chg b%d %s", x, c22KeyList(members))
	s.round(1, false)
	old := s.nextID
	s.set, s.nset, s.prims = 1, len(members), members
	var hon []int
	s.script = []int{}
	for _, k := range members {
		if s.byz[k] {
			s.script = append(s.script, k)
		} else {
			hon = append(hon, k)
		}
	}
	s.script = append(s.script, retired...)
	if r.Chance(1, 6) { // the retired honest keys try to go on
		for _, k := range retired {
			if !s.byz[k] {
				s.op("pv v%d", k)
				s.nextID++
			}
		}
	}
	s.hon = hon
	if len(hon) == 0 {
		return s.line()
	}
	if old > 0 && r.Chance(1, 4) { // votes of the old set reach voters of the new one
		for _, to := range hon {
			s.op("d m%d v%d", r.Intn(old), to)
		}
	}
	rounds := 1 + r.Intn(2)
	for q := 1; q <= rounds; q++ {
		s.round(q, r.Chance(1, 4))
	}
	return s.line()
}

// c22GenRetired: the handover block 1 is finalised by everybody in set 0; in set 1 the honest voters split over the
// forks 2 and 3 so that neither has a supermajority — unless the votes of the retired keys (sent for both forks)
// were counted.  tree 0 <- 1 <- 2, 1 <- 3.
func c22GenRetired(r *vhRng) string {
	s := &c22Sched{r: r, byz: map[int]bool{}}
	nb := r.Intn(3)                 // Byzantine voters that stay
	nh := 3*nb + 1 + r.Intn(4)      // honest voters that stay: the new set keeps its bound
	nr := 1 + r.Intn(3)             // retired (honest in set 0)
	s.n = nh + nb + nr
	if s.n > 12 {
		nr = 12 - nh - nb
		s.n = 12
	}
	if 3*nb >= s.n { // set 0 must keep its bound as well
		nb = (s.n - 1) / 3
	}
	s.par = []int{0, 1, 1}
	for i := 0; i < s.n; i++ {
		if i >= nh && i < nh+nb {
			s.byz[i] = true
			s.byzL = append(s.byzL, i)
		} else {
			s.hon = append(s.hon, i)
		}
	}
	members := c22Range(nh + nb)
	retired := c22Range(s.n)[nh+nb:]
	s.op("chg b1 %s", c22KeyList(members))
	// set 0, round 1: everybody is on the fork of block 2; the votes are capped at block 1
	for _, i := range s.hon {
		s.op("best v%d b2", i)
	}
	var pvs, pcs []int
	for _, i := range s.hon {
		pvs = append(pvs, s.vote("pv v%d", i))
	}
	s.deliver(pvs, 1, 1, -1)
	for _, i := range s.hon {
		pcs = append(pcs, s.vote("pc v%d", i))
	}
	s.deliver(pcs, 1, 1, -1)
	for _, i := range s.hon {
		s.op("fin v%d", i)
	}
	// set 1, round 1: the honest voters split
	s.set, s.nset = 1, nh+nb
	g1 := (nh + 1) / 2
	pvs, pcs = nil, nil
	for i := 0; i < nh; i++ {
		b := 2
		if i >= g1 {
			b = 3
		}
		s.op("best v%d b%d", i, b)
	}
	for i := 0; i < nh; i++ {
		pvs = append(pvs, s.vote("pv v%d", i))
	}
	var pv2, pv3, pc2, pc3 []int
	for _, j := range append(append([]int{}, s.byzL...), retired...) {
		pv2 = append(pv2, s.bvote("pv", j, 1, 2))
		pv3 = append(pv3, s.bvote("pv", j, 1, 3))
	}
	for to := 0; to < nh; to++ { // the scripted keys tell every group what it likes to hear
		ids := append(append([]int{}, pvs...), pv2...)
		if to >= g1 {
			ids = append(append([]int{}, pvs...), pv3...)
		}
		if r.Chance(1, 5) {
			ids = append(ids, pv2...)
			ids = append(ids, pv3...)
		}
		for _, id := range s.shuffle(ids) {
			s.op("d m%d v%d", id, to)
		}
	}
	for i := 0; i < nh; i++ {
		pcs = append(pcs, s.vote("pc v%d", i))
	}
	for _, j := range append(append([]int{}, s.byzL...), retired...) {
		pc2 = append(pc2, s.bvote("pc", j, 1, 2))
		pc3 = append(pc3, s.bvote("pc", j, 1, 3))
	}
	for to := 0; to < nh; to++ {
		ids := append(append([]int{}, pcs...), pc2...)
		if to >= g1 {
			ids = append(append([]int{}, pcs...), pc3...)
		}
		for _, id := range s.shuffle(ids) {
			s.op("d m%d v%d", id, to)
		}
	}
	for i := 0; i < nh; i++ {
		s.op("fin v%d", i)
	}
	return s.line()
}

func c22Gen(r *vhRng) string {
	switch x := r.Intn(100); {
	case x < 3:
		return fmt.Sprintf("thr %d", r.Intn(201))
	case x < 12:
		return c22GenFork(r)
	case x < 32:
		return c22GenSetChange(r)
	case x < 40:
		return c22GenRetired(r)
	default:
		return c22GenRandom(r)
	}
}
