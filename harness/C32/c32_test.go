//go:build verif

package sync

import (
	"encoding/binary"
	"encoding/json"
	"errors"
	"fmt"
	"io"
	"sort"
	"strconv"
	"strings"
	"testing"

	"github.com/ChainSafe/gossamer/dot/network/messages"
	"github.com/ChainSafe/gossamer/dot/peerset"
	"github.com/ChainSafe/gossamer/dot/types"
	"github.com/ChainSafe/gossamer/internal/database"
	"github.com/ChainSafe/gossamer/internal/log"
	"github.com/ChainSafe/gossamer/lib/common"
	"github.com/ChainSafe/gossamer/lib/runtime"
	rtstorage "github.com/ChainSafe/gossamer/lib/runtime/storage"
	"github.com/ChainSafe/gossamer/pkg/trie"
	"github.com/ChainSafe/gossamer/pkg/trie/inmemory"
	"github.com/libp2p/go-libp2p/core/peer"
)

// C32: the REAL FullSyncStrategy.Process / validateResults / unreadyBlocks and the REAL
// blockImporter (importBlock, processBlockData, handleBlock) over a fake chain environment
// (c32Env: known headers, highest finalised header, a runtime that accepts every block, a
// finality gadget that accepts every justification, a block import handler that records the
// block and makes its header known).
//
// line:   `<blocks> <bad>|<op>;<op>;...`
//   blocks  `p:n,p:n,...`  block i (1-based position) has parent hash id p and number n.
//           hash ids: 0 = genesis (known, finalised, number 0); 1..k = hash of the header of
//           block i; ids >= 900 are junk hashes nobody has a header for.  `-` = no blocks
//   bad     comma list of hash ids on the bad-block list, `-` = none
//   op      `I <id>`                 unreadyBlocks.newIncompleteBlock(header of block id)
//           `P <res>/<res>/...`      FullSyncStrategy.Process(results); `P` alone = no results
//   res     `<peer><kind><c|u>:<blk>,<blk>,...`  peer a..d; kind A = bootstrap ascending request,
//           D = bootstrap descending request (the block list is given in WIRE order),
//           B = body+justification request; c completed / u not completed
//   blk     `<id>[h][b][j][f<hashid>]`  h = header nil, b = body nil, j = non-empty justification,
//           f = the stated BlockData.Hash is <hashid> instead of the hash of the header
// output per op (joined by `;`): I -> `ok`;  P ->
//   `<r> ev=<events> rep=<peer>:<class>,.. blk=<peers> q=<hashids> inc=<ids> dj=<frag>/<frag> fin=<n>`
//   r       ok | err-parent | err-fin | err | panic
//   events  h<id> block handed to importBlock, i<id> block reached HandleBlockImport (executed and
//           stored), f<id> SetFinalisedHash
//   q       ancestor-search requests pushed by this call (hash id the descending request starts from)
//   inc     incomplete blocks (sorted ids), dj = disjoint fragments in slice order, blocks `.`-joined

type c32Block struct {
	parent int
	num    uint
	header *types.Header
}

type c32Env struct {
	BlockState // embedded nil interface: any method the code is not expected to call panics
	blocks     []c32Block // index 0 = genesis
	bad        []string
	hashID     map[common.Hash]int
	known      map[common.Hash]*types.Header
	fin        *types.Header
	events     []string
	stateRoot  common.Hash
}

func c32Junk(id int) common.Hash {
	b := make([]byte, 12)
	copy(b, "c32junk")
	binary.LittleEndian.PutUint32(b[8:], uint32(id))
	return common.MustBlake2bHash(b)
}

func (e *c32Env) hashOf(id int) common.Hash {
	if id >= 0 && id < len(e.blocks) {
		return e.blocks[id].header.Hash()
	}
	h := c32Junk(id)
	e.hashID[h] = id
	return h
}

func (e *c32Env) idOf(h common.Hash) string {
	if id, ok := e.hashID[h]; ok {
		return strconv.Itoa(id)
	}
	return "?"
}

// --- BlockState methods used by Process and the importer
func (e *c32Env) HasHeader(h common.Hash) (bool, error) {
	_, ok := e.known[h]
	return ok, nil
}

func (e *c32Env) GetHeader(h common.Hash) (*types.Header, error) {
	if hd, ok := e.known[h]; ok {
		return hd, nil
	}
	return nil, database.ErrNotFound
}

func (e *c32Env) GetHighestFinalisedHeader() (*types.Header, error) { return e.fin, nil }

var errC32Fin = errors.New("c32: finalising unknown block")

func (e *c32Env) SetFinalisedHash(h common.Hash, _ uint64, _ uint64) error {
	hd, ok := e.known[h]
	if !ok {
		return errC32Fin
	}
	e.events = append(e.events, "f"+e.idOf(h))
	if hd.Number > e.fin.Number {
		e.fin = hd
	}
	return nil
}

func (e *c32Env) SetJustification(common.Hash, []byte) error     { return nil }
func (e *c32Env) CompareAndSetBlockData(*types.BlockData) error { return nil }
func (e *c32Env) GetRuntime(common.Hash) (runtime.Instance, error) {
	return c32Runtime{}, nil
}

// --- the other collaborators of blockImporter
type c32Runtime struct{ runtime.Instance }

func (c32Runtime) SetContextStorage(runtime.Storage)             {}
func (c32Runtime) ExecuteBlock(*types.Block) ([]byte, error)     { return nil, nil }
func (e *c32Env) Lock()                                          {}
func (e *c32Env) Unlock()                                        {}
func (e *c32Env) RemoveExtrinsic(types.Extrinsic)                {}
func (e *c32Env) SendMessage(json.Marshaler)                     {}
func (e *c32Env) VerifyBlock(*types.Header) error                { return nil }
func (e *c32Env) TrieState(*common.Hash) (*rtstorage.TrieState, error) {
	return rtstorage.NewTrieState(inmemory.NewEmptyTrie()), nil
}
func (e *c32Env) VerifyBlockJustification(common.Hash, uint, []byte) (uint64, uint64, error) {
	return 1, 1, nil
}
func (e *c32Env) HandleBlockImport(block *types.Block, _ *rtstorage.TrieState, _ bool) error {
	h := block.Header.Hash()
	hd := block.Header
	e.known[h] = &hd
	e.events = append(e.events, "i"+e.idOf(h))
	return nil
}

// c32Importer records what the strategy hands over and delegates to the real blockImporter.
type c32Importer struct {
	env   *c32Env
	inner importer
}

func (c *c32Importer) importBlock(bd *types.BlockData, o BlockOrigin) (bool, error) {
	id := "?"
	if bd.Header != nil {
		id = c.env.idOf(bd.Header.Hash())
	}
	c.env.events = append(c.env.events, "h"+id)
	return c.inner.importBlock(bd, o)
}

func c32ParseInts(s string) ([]int, bool) {
	if s == "-" || s == "" {
		return nil, true
	}
	var out []int
	for _, p := range strings.Split(s, ",") {
		v, err := strconv.Atoi(p)
		if err != nil || v < 0 || v > 100000 {
			return nil, false
		}
		out = append(out, v)
	}
	return out, true
}

func c32NewEnv(hdr string) (*c32Env, *FullSyncStrategy, bool) {
	parts := strings.Split(hdr, " ")
	if len(parts) != 2 {
		return nil, nil, false
	}
	e := &c32Env{hashID: map[common.Hash]int{}, known: map[common.Hash]*types.Header{}}
	e.stateRoot = trie.EmptyHash
	gen := types.NewHeader(common.Hash{}, e.stateRoot, common.Hash{}, 0, types.NewDigest())
	e.blocks = []c32Block{{parent: -1, num: 0, header: gen}}
	e.hashID[gen.Hash()] = 0
	e.known[gen.Hash()] = gen
	e.fin = gen
	if parts[0] != "-" {
		for i, tok := range strings.Split(parts[0], ",") {
			pn := strings.Split(tok, ":")
			if len(pn) != 2 {
				return nil, nil, false
			}
			p, e1 := strconv.Atoi(pn[0])
			n, e2 := strconv.Atoi(pn[1])
			id := i + 1
			if e1 != nil || e2 != nil || p < 0 || n < 0 || n > 1000000 || (p >= id && p < 900) || p > 100000 || id >= 900 {
				return nil, nil, false
			}
			// the block id goes into the extrinsics root so that siblings have different hashes
			var xr common.Hash
			binary.LittleEndian.PutUint32(xr[:], uint32(id))
			h := types.NewHeader(e.hashOf(p), e.stateRoot, xr, uint(n), types.NewDigest())
			e.blocks = append(e.blocks, c32Block{parent: p, num: uint(n), header: h})
			e.hashID[h.Hash()] = id
		}
	}
	bad, ok := c32ParseInts(parts[1])
	if !ok {
		return nil, nil, false
	}
	for _, b := range bad {
		e.bad = append(e.bad, e.hashOf(b).String())
	}
	cfg := &FullSyncConfig{
		StorageState: e, TransactionState: e, BabeVerifier: e, FinalityGadget: e,
		BlockImportHandler: e, Telemetry: e, BlockState: e, BadBlocks: e.bad,
	}
	fs := NewFullSyncStrategy(cfg)
	fs.blockImporter = &c32Importer{env: e, inner: fs.blockImporter}
	return e, fs, true
}

func (e *c32Env) parseBlk(tok string) (*types.BlockData, bool) {
	i := 0
	for i < len(tok) && tok[i] >= '0' && tok[i] <= '9' {
		i++
	}
	id, err := strconv.Atoi(tok[:i])
	if err != nil || id < 1 || id >= len(e.blocks) {
		return nil, false
	}
	src := e.blocks[id].header
	// a fresh header per occurrence: the code under test must not rely on pointer identity
	hd := types.NewHeader(src.ParentHash, src.StateRoot, src.ExtrinsicsRoot, src.Number, types.NewDigest())
	body := types.NewBody([]types.Extrinsic{{byte(id)}})
	bd := &types.BlockData{Hash: hd.Hash(), Header: hd, Body: body}
	rest := tok[i:]
	for len(rest) > 0 {
		switch rest[0] {
		case 'h':
			bd.Header = nil
			rest = rest[1:]
		case 'b':
			bd.Body = nil
			rest = rest[1:]
		case 'j':
			j := []byte{1, byte(id)}
			bd.Justification = &j
			rest = rest[1:]
		case 'f':
			hid, err := strconv.Atoi(rest[1:])
			if err != nil || hid < 0 || hid > 100000 {
				return nil, false
			}
			bd.Hash = e.hashOf(hid)
			rest = ""
		default:
			return nil, false
		}
	}
	return bd, true
}

func (e *c32Env) parseResult(s string) (*SyncTaskResult, bool) {
	c := strings.IndexByte(s, ':')
	if c != 3 || s[0] < 'a' || s[0] > 'd' {
		return nil, false
	}
	res := &SyncTaskResult{who: peer.ID(s[:1])}
	switch s[1] {
	case 'A':
		res.request = messages.NewBlockRequest(*messages.NewFromBlock(uint(1)), 128,
			messages.BootstrapRequestData, messages.Ascending)
	case 'D':
		res.request = messages.NewBlockRequest(*messages.NewFromBlock(common.Hash{1}), 128,
			messages.BootstrapRequestData, messages.Descending)
	case 'B':
		res.request = messages.NewBlockRequest(*messages.NewFromBlock(common.Hash{1}), 1,
			messages.RequestedDataBody+messages.RequestedDataJustification, messages.Ascending)
	default:
		return nil, false
	}
	switch s[2] {
	case 'c':
		res.completed = true
	case 'u':
		res.completed = false
		return res, true // response stays nil, as the worker pool produces it
	default:
		return nil, false
	}
	resp := &messages.BlockResponseMessage{}
	if s[4:] != "" {
		for _, tok := range strings.Split(s[4:], ",") {
			bd, ok := e.parseBlk(tok)
			if !ok {
				return nil, false
			}
			resp.BlockData = append(resp.BlockData, bd)
		}
	}
	res.response = resp
	return res, true
}

func (e *c32Env) fragString(frag []*types.BlockData) string {
	ids := make([]string, len(frag))
	for i, b := range frag {
		ids[i] = e.idOf(b.Header.Hash())
		if b.Hash != b.Header.Hash() {
			ids[i] += "~" + e.idOf(b.Hash)
		}
	}
	return strings.Join(ids, ".")
}

func c32Join(xs []string) string {
	if len(xs) == 0 {
		return "-"
	}
	return strings.Join(xs, ",")
}

func (e *c32Env) process(fs *FullSyncStrategy, arg string) string {
	var results []*SyncTaskResult
	if arg != "" {
		for _, rs := range strings.Split(arg, "/") {
			r, ok := e.parseResult(rs)
			if !ok {
				return "bad-op"
			}
			results = append(results, r)
		}
	}
	if len(results) > 12 {
		return "bad-op" // slices.SortFunc is an insertion sort (stable) only up to 12 elements
	}
	e.events = nil
	qBefore := fs.requestQueue.Len()
	var reps []Change
	var bans []peer.ID
	status := func() (st string) {
		defer func() {
			if r := recover(); r != nil {
				st = "panic"
			}
		}()
		_, rc, bn, err := fs.Process(results)
		reps, bans = rc, bn
		switch {
		case err == nil:
			return "ok"
		case errors.Is(err, errFailedToGetParent):
			return "err-parent"
		case errors.Is(err, errC32Fin):
			return "err-fin"
		default:
			return "err"
		}
	}()
	var repS, banS, qS, incS, djS []string
	for _, c := range reps {
		cls := "other"
		switch c.rep.Reason {
		case peerset.IncompleteHeaderReason:
			cls = "hdr"
		case peerset.BadBlockAnnouncementReason:
			cls = "bad"
		}
		repS = append(repS, string(c.who)+":"+cls)
	}
	for _, b := range bans {
		banS = append(banS, string(b))
	}
	// drain the queue to see what was pushed (nothing else reads it in this harness)
	var all []*messages.BlockRequestMessage
	for {
		m, ok := fs.requestQueue.PopFront()
		if !ok {
			break
		}
		all = append(all, m)
	}
	for i, m := range all {
		fs.requestQueue.PushBack(m)
		if i < qBefore {
			continue
		}
		cls := "?"
		if h, ok := m.StartingBlock.RawValue().(common.Hash); ok && m.Direction == messages.Descending &&
			m.RequestedData == messages.BootstrapRequestData && m.Max != nil && *m.Max == messages.MaxBlocksInResponse {
			cls = e.idOf(h)
		}
		qS = append(qS, cls)
	}
	for h := range fs.unreadyBlocks.incompleteBlocks {
		incS = append(incS, e.idOf(h))
	}
	sort.Slice(incS, func(i, j int) bool {
		a, _ := strconv.Atoi(incS[i])
		b, _ := strconv.Atoi(incS[j])
		return a < b
	})
	for _, f := range fs.unreadyBlocks.disjointFragments {
		djS = append(djS, e.fragString(f))
	}
	dj := "-"
	if len(djS) > 0 {
		dj = strings.Join(djS, "/")
	}
	return fmt.Sprintf("%s ev=%s rep=%s blk=%s q=%s inc=%s dj=%s fin=%d", status, c32Join(e.events),
		c32Join(repS), c32Join(banS), c32Join(qS), c32Join(incS), dj, e.fin.Number)
}

func c32Run(line string) string {
	if line == "const" {
		return fmt.Sprintf("max=%d boot=%d hdr=%d body=%d just=%d", messages.MaxBlocksInResponse,
			messages.BootstrapRequestData, messages.RequestedDataHeader, messages.RequestedDataBody,
			messages.RequestedDataJustification)
	}
	bar := strings.IndexByte(line, '|')
	if bar < 0 {
		return "bad-op"
	}
	e, fs, ok := c32NewEnv(line[:bar])
	if !ok {
		return "bad-op"
	}
	var outs []string
	for _, op := range strings.Split(line[bar+1:], ";") {
		switch {
		case strings.HasPrefix(op, "I "):
			id, err := strconv.Atoi(op[2:])
			if err != nil || id < 1 || id >= len(e.blocks) {
				outs = append(outs, "bad-op")
				continue
			}
			src := e.blocks[id].header
			fs.unreadyBlocks.newIncompleteBlock(types.NewHeader(src.ParentHash, src.StateRoot,
				src.ExtrinsicsRoot, src.Number, types.NewDigest()))
			outs = append(outs, "ok")
		case op == "P":
			outs = append(outs, e.process(fs, ""))
		case strings.HasPrefix(op, "P "):
			outs = append(outs, e.process(fs, op[2:]))
		default:
			outs = append(outs, "bad-op")
		}
	}
	return strings.Join(outs, ";")
}

func TestVerifC32(t *testing.T) {
	logger.Patch(log.SetLevel(log.Critical), log.SetWriter(io.Discard))
	vhMain(t, c32Gen, c32Run)
}
