//go:build verif

package sync

func c32Gen(r *vhRng) string { return "const" }
