//go:build verif

package sync

import (
	"fmt"
	"strconv"
	"strings"
)

// Generator of C32 cases.  A block tree (main chain, forks, fragments hanging from junk parents, a
// few inconsistent numbers) is cut into responses: root-to-leaf paths are split into consecutive
// pieces, the pieces are shuffled over one to four Process calls (so later pieces can arrive before
// earlier ones), duplicated, sent ascending or descending, and mutated: forged stated hashes (junk,
// another block's hash, consistently forged links), missing header/body, broken links, wrong
// direction, empty and uncompleted responses, justifications (finality moves), bad-listed blocks.
// Announced (incomplete) blocks get body responses with one or several blocks.

type c32Tree struct {
	parent []int // index 0 unused
	num    []int
}

func c32GenTree(r *vhRng) *c32Tree {
	k := 1 + r.Intn(14)
	if r.Chance(1, 12) {
		k = 1 + r.Intn(3)
	}
	t := &c32Tree{parent: []int{-1}, num: []int{0}}
	for i := 1; i <= k; i++ {
		var p, n int
		c := r.Intn(100)
		switch {
		case c < 10:
			p = 900 + r.Intn(3)
			n = 1 + r.Intn(6)
		case c < 32:
			p = r.Intn(i)
			n = t.num[p] + 1
		default:
			p = i - 1
			n = t.num[p] + 1
		}
		if r.Chance(1, 18) {
			n += r.Pick(-1, 1, 2)
			if n < 0 {
				n = 0
			}
		}
		t.parent = append(t.parent, p)
		t.num = append(t.num, n)
	}
	return t
}

// path from the oldest ancestor inside the tree (excluding genesis) down to block b
func (t *c32Tree) path(b int) []int {
	var rev []int
	for b >= 1 && b < len(t.parent) {
		rev = append(rev, b)
		b = t.parent[b]
	}
	out := make([]int, len(rev))
	for i := range rev {
		out[i] = rev[len(rev)-1-i]
	}
	return out
}

type c32Piece struct {
	peer  byte
	kind  byte
	state byte
	toks  []string
}

func (p c32Piece) String() string {
	return string([]byte{p.peer, p.kind, p.state}) + ":" + strings.Join(p.toks, ",")
}

func c32Toks(ids []int) []string {
	out := make([]string, len(ids))
	for i, id := range ids {
		out[i] = strconv.Itoa(id)
	}
	return out
}

func c32Rev(xs []string) []string {
	out := make([]string, len(xs))
	for i := range xs {
		out[i] = xs[len(xs)-1-i]
	}
	return out
}

func (t *c32Tree) hashPick(r *vhRng) int {
	if r.Chance(1, 2) {
		return 900 + r.Intn(4)
	}
	return r.Intn(len(t.parent))
}

// mutate one piece (tokens are in ascending order here)
func (t *c32Tree) mutate(r *vhRng, toks []string) []string {
	if len(toks) == 0 {
		return toks
	}
	out := append([]string{}, toks...)
	i := r.Intn(len(out))
	switch r.Intn(11) {
	case 0, 1: // forged stated hash
		out[i] += "f" + strconv.Itoa(t.hashPick(r))
	case 2: // forged hash on the last or first block (the chain check cannot see it)
		if r.Bool() {
			i = len(out) - 1
		} else {
			i = 0
		}
		out[i] += "f" + strconv.Itoa(t.hashPick(r))
	case 3:
		out[i] += "h"
	case 4:
		out[i] += "b"
	case 5: // broken link: drop a block
		out = append(out[:i], out[i+1:]...)
	case 6: // broken link: swap two
		j := r.Intn(len(out))
		out[i], out[j] = out[j], out[i]
	case 7: // foreign block inserted
		out = append(out[:i], append([]string{strconv.Itoa(1 + r.Intn(len(t.parent)-1))}, out[i:]...)...)
	case 8: // duplicate block
		out = append(out[:i], append([]string{out[i]}, out[i:]...)...)
	case 9: // stated hash equal to the true one (a no-op forgery)
		if !strings.ContainsAny(out[i], "hbjf") {
			out[i] += "f" + out[i]
		}
	case 10:
		out[i] += "hb"
	}
	return out
}

func c32Gen(r *vhRng) string {
	if r.Chance(1, 500) {
		return "const"
	}
	t := c32GenTree(r)
	k := len(t.parent) - 1
	nOps := 1 + r.Intn(4)
	ops := make([][]c32Piece, nOps)
	announce := make([][]int, nOps)
	mutRate := r.Pick(0, 0, 6, 3)
	justRate := r.Pick(0, 12, 5)

	addPiece := func(ids []int) {
		if len(ids) == 0 {
			return
		}
		toks := c32Toks(ids)
		for i := range toks {
			if justRate > 0 && r.Chance(1, justRate) {
				toks[i] += "j"
			}
		}
		if mutRate > 0 && r.Chance(1, mutRate) {
			toks = t.mutate(r, toks)
		}
		p := c32Piece{peer: byte('a' + r.Intn(4)), kind: 'A', state: 'c', toks: toks}
		if r.Chance(1, 3) {
			p.kind = 'D'
			p.toks = c32Rev(toks)
		}
		if r.Chance(1, 40) { // wrong direction
			p.toks = c32Rev(p.toks)
		}
		if r.Chance(1, 40) {
			p.state = 'u'
		}
		at := r.Intn(nOps)
		ops[at] = append(ops[at], p)
		if r.Chance(1, 7) { // the same piece again, possibly in another call
			at = r.Intn(nOps)
			ops[at] = append(ops[at], p)
		}
	}

	nPaths := 1 + r.Intn(3)
	for pi := 0; pi < nPaths; pi++ {
		path := t.path(1 + r.Intn(k))
		if r.Chance(1, 3) { // the deepest block, so that paths are long
			path = t.path(k)
		}
		if r.Chance(1, 4) && len(path) > 1 { // only a window of the path
			a := r.Intn(len(path))
			path = path[a:]
		}
		cuts := r.Intn(4)
		start := 0
		for c := 0; c < cuts && start < len(path); c++ {
			end := start + 1 + r.Intn(len(path)-start)
			addPiece(path[start:end])
			start = end
			if r.Chance(1, 8) && start < len(path) { // a gap
				start++
			} else if r.Chance(1, 8) && start > 0 { // an overlap
				start--
			}
		}
		addPiece(path[start:])
	}

	// announced blocks and body responses
	if r.Chance(1, 3) {
		n := 1 + r.Intn(3)
		var ann []int
		for i := 0; i < n; i++ {
			b := 1 + r.Intn(k)
			at := r.Intn(nOps)
			announce[at] = append(announce[at], b)
			ann = append(ann, b)
		}
		nb := 1 + r.Intn(2)
		for i := 0; i < nb; i++ {
			var toks []string
			m := 1
			if r.Chance(1, 3) {
				m = 1 + r.Intn(3)
			}
			for j := 0; j < m; j++ {
				b := ann[r.Intn(len(ann))]
				if r.Chance(1, 6) {
					b = 1 + r.Intn(k)
				}
				tok := strconv.Itoa(b)
				if !r.Chance(1, 5) {
					tok += "h"
				}
				if r.Chance(1, 12) {
					tok += "b"
				}
				if r.Chance(1, 6) {
					tok += "j"
				}
				if r.Chance(1, 12) {
					tok += "f" + strconv.Itoa(t.hashPick(r))
				}
				toks = append(toks, tok)
			}
			p := c32Piece{peer: byte('a' + r.Intn(4)), kind: 'B', state: 'c', toks: toks}
			at := r.Intn(nOps)
			ops[at] = append(ops[at], p)
		}
	}
	// empty / degenerate responses
	if r.Chance(1, 10) {
		at := r.Intn(nOps)
		ops[at] = append(ops[at], c32Piece{peer: 'a', kind: byte(r.Pick('A', 'D', 'B')), state: 'c'})
	}

	var bad string = "-"
	if r.Chance(1, 8) {
		bad = strconv.Itoa(t.hashPick(r))
		if r.Chance(1, 4) {
			bad += "," + strconv.Itoa(1+r.Intn(k))
		}
	}

	var blocks []string
	for i := 1; i <= k; i++ {
		blocks = append(blocks, fmt.Sprintf("%d:%d", t.parent[i], t.num[i]))
	}
	var opS []string
	for i := 0; i < nOps; i++ {
		for _, b := range announce[i] {
			opS = append(opS, "I "+strconv.Itoa(b))
		}
		ps := ops[i]
		// shuffle the results of one call
		for j := len(ps) - 1; j > 0; j-- {
			x := r.Intn(j + 1)
			ps[j], ps[x] = ps[x], ps[j]
		}
		if len(ps) > 12 {
			ps = ps[:12]
		}
		if len(ps) == 0 {
			if r.Chance(1, 3) {
				opS = append(opS, "P")
			}
			continue
		}
		ss := make([]string, len(ps))
		for j, p := range ps {
			ss[j] = p.String()
		}
		opS = append(opS, "P "+strings.Join(ss, "/"))
	}
	if len(opS) == 0 {
		opS = append(opS, "P")
	}
	return strings.Join(blocks, ",") + " " + bad + "|" + strings.Join(opS, ";")
}
