//go:build verif

package grandpa

// Harness of property C18 (only supermajority-signed GRANDPA commits finalise).
//
// One case = one commit message handed to MessageHandler.handleMessage of a Service whose
// BlockState / GrandpaState / Telemetry are in-memory fakes over a small generated block tree.
// Signatures are real ed25519 signatures made with cached keys.
//
// line:  n=<auths> set=<svc set id> tree=<p1,p2,..|-> fin=<blk> has=<0|1> f=<fault> R=<round>
//        S=<msg set id> T=b<k>:<num> lm=<0|1|2>|<entry>;<entry>;...
//   tree   block 0 is the root; block i (i>=1) has parent p_i < i; header number = depth
//   fin    block returned by GetHighestFinalisedHeader
//   has    HasFinalisedBlock(round, set) answer
//   f      0 none, 1 GetHighestFinalisedHeader fails, 2 first IsDescendantOf fails with
//          ErrStartNodeNotFound, 3 SetFinalisedHash fails, 4 SetPrecommits fails, 5 HasFinalisedBlock fails
//   lm     0 len(Precommits)==len(AuthData), 1 one extra precommit, 2 one extra AuthData
//   entry  <id> b<k>:<num> <sig>
//   id     v<i> = cached key i (an authority iff i < n), x<j> = cached key 100+j (never an authority)
//   b<k>   block k of the tree; k >= size is a block nobody knows
//   sig    ok | bad<t> (honest signature with one bit flipped, variant t) | z (all zero) |
//          r<q> (signed for round q) | s<q> (signed for set q) | pv (signed as prevote) |
//          kv<i> / kx<j> (signed by that other key) | ob<k>:<num> (signed over that other vote)
//        thr <n>   (State.threshold() of a set of n voters)
// output: <class> [need got] fin=<-|b<k>:<round>:<set>> pc=<-|round:set:len> trk=<0|1>

import (
	"encoding/json"
	"errors"
	"fmt"
	"regexp"
	"strconv"
	"strings"
	"sync"
	"testing"

	"github.com/ChainSafe/gossamer/dot/types"
	"github.com/ChainSafe/gossamer/internal/database"
	"github.com/ChainSafe/gossamer/internal/log"
	"github.com/ChainSafe/gossamer/lib/blocktree"
	"github.com/ChainSafe/gossamer/lib/common"
	"github.com/ChainSafe/gossamer/lib/crypto/ed25519"
	"github.com/ChainSafe/gossamer/pkg/scale"
)

// ---------------------------------------------------------------- fakes

var (
	c18ErrFinHdr = errors.New("c18: no highest finalised header")
	c18ErrSetFin = errors.New("c18: set finalised hash failed")
	c18ErrSetPc  = errors.New("c18: set precommits failed")
	c18ErrHas    = errors.New("c18: has finalised block failed")
)

type c18BlockState struct {
	BlockState // every method that is not overridden panics (nil interface)
	headers    map[common.Hash]*types.Header
	parent     map[common.Hash]common.Hash
	index      map[common.Hash]int
	fin        *types.Header
	has        bool
	fault      int
	descCalls  int
	finCalls   []string
}

func (b *c18BlockState) GetHeader(h common.Hash) (*types.Header, error) {
	if hd, ok := b.headers[h]; ok {
		return hd, nil
	}
	return nil, fmt.Errorf("c18 header: %w", database.ErrNotFound)
}

func (b *c18BlockState) HasFinalisedBlock(round, setID uint64) (bool, error) {
	if b.fault == 5 {
		return false, c18ErrHas
	}
	return b.has, nil
}

func (b *c18BlockState) GetHighestFinalisedHeader() (*types.Header, error) {
	if b.fault == 1 {
		return nil, c18ErrFinHdr
	}
	return b.fin, nil
}

// IsDescendantOf follows lib/blocktree: equal hashes are related even when unknown, an unknown
// first argument is ErrStartNodeNotFound, an unknown second one ErrEndNodeNotFound.
func (b *c18BlockState) IsDescendantOf(parent, child common.Hash) (bool, error) {
	b.descCalls++
	if b.fault == 2 && b.descCalls == 1 {
		return false, fmt.Errorf("%w: injected", blocktree.ErrStartNodeNotFound)
	}
	if parent == child {
		return true, nil
	}
	if _, ok := b.headers[parent]; !ok {
		return false, fmt.Errorf("%w: node hash %s", blocktree.ErrStartNodeNotFound, parent)
	}
	if _, ok := b.headers[child]; !ok {
		return false, fmt.Errorf("%w: node hash %s", blocktree.ErrEndNodeNotFound, child)
	}
	for cur := child; ; {
		p, ok := b.parent[cur]
		if !ok {
			return false, nil
		}
		if p == parent {
			return true, nil
		}
		cur = p
	}
}

func (b *c18BlockState) SetFinalisedHash(h common.Hash, round, setID uint64) error {
	name := "?"
	if i, ok := b.index[h]; ok {
		name = "b" + strconv.Itoa(i)
	}
	b.finCalls = append(b.finCalls, fmt.Sprintf("%s:%d:%d", name, round, setID))
	if b.fault == 3 {
		return c18ErrSetFin
	}
	return nil
}

type c18GrandpaState struct {
	GrandpaState
	fault   int
	pcCalls []string
}

func (g *c18GrandpaState) SetPrecommits(round, setID uint64, data []SignedVote) error {
	g.pcCalls = append(g.pcCalls, fmt.Sprintf("%d:%d:%d", round, setID, len(data)))
	if g.fault == 4 {
		return c18ErrSetPc
	}
	return nil
}

type c18Telemetry struct{}

func (c18Telemetry) SendMessage(json.Marshaler) {}

// ---------------------------------------------------------------- cached keys and trees

var (
	c18Mu    sync.Mutex
	c18Keys  = map[int]*ed25519.Keypair{}
	c18Trees = map[string]*c18Tree{}
)

func c18Key(i int) *ed25519.Keypair {
	c18Mu.Lock()
	defer c18Mu.Unlock()
	if k, ok := c18Keys[i]; ok {
		return k
	}
	seed := make([]byte, 32)
	copy(seed, fmt.Sprintf("c18-key-%d", i))
	k, err := ed25519.NewKeypairFromSeed(seed)
	if err != nil {
		panic(err)
	}
	c18Keys[i] = k
	return k
}

type c18Tree struct {
	headers []*types.Header
	parents []int
}

func c18UnknownHash(k int) common.Hash {
	h, _ := common.Blake2bHash([]byte(fmt.Sprintf("c18-unknown-block-%d", k)))
	return h
}

// c18BuildTree returns nil when the description is malformed.
func c18BuildTree(desc string) *c18Tree {
	c18Mu.Lock()
	defer c18Mu.Unlock()
	if t, ok := c18Trees[desc]; ok {
		return t
	}
	var parents []int
	if desc != "-" {
		for i, s := range strings.Split(desc, ",") {
			p, err := strconv.Atoi(s)
			if err != nil || p < 0 || p > i || s != strconv.Itoa(p) {
				return nil
			}
			parents = append(parents, p)
		}
	}
	t := &c18Tree{parents: parents}
	salt := func(i int) common.Hash {
		h, _ := common.Blake2bHash([]byte(fmt.Sprintf("c18-block-%d", i)))
		return h
	}
	t.headers = append(t.headers, types.NewHeader(common.Hash{}, salt(0), common.Hash{}, 0, types.NewDigest()))
	for i, p := range parents {
		ph := t.headers[p]
		t.headers = append(t.headers, types.NewHeader(ph.Hash(), salt(i+1), common.Hash{}, ph.Number+1, types.NewDigest()))
	}
	if len(c18Trees) < 50000 {
		c18Trees[desc] = t
	}
	return t
}

func (t *c18Tree) hash(k int) common.Hash {
	if k < len(t.headers) {
		return t.headers[k].Hash()
	}
	return c18UnknownHash(k)
}

// ---------------------------------------------------------------- parsing

type c18Case struct {
	n, set, fin, has, fault, round, mset, tblk, tnum, lm int
	tree                                                  *c18Tree
	entries                                               []c18Entry
}

type c18Entry struct {
	key, blk, num int
	sig           string
}

func c18Num(s string) (int, bool) {
	v, err := strconv.Atoi(s)
	if err != nil || v < 0 || s != strconv.Itoa(v) {
		return 0, false
	}
	return v, true
}

func c18ParseKey(s string) (int, bool) {
	if len(s) < 2 {
		return 0, false
	}
	v, ok := c18Num(s[1:])
	if !ok || v > 99 {
		return 0, false
	}
	switch s[0] {
	case 'v':
		return v, true
	case 'x':
		return 100 + v, true
	}
	return 0, false
}

func c18ParseVote(s string) (blk, num int, ok bool) {
	if !strings.HasPrefix(s, "b") {
		return 0, 0, false
	}
	parts := strings.Split(s[1:], ":")
	if len(parts) != 2 {
		return 0, 0, false
	}
	blk, ok1 := c18Num(parts[0])
	num, ok2 := c18Num(parts[1])
	return blk, num, ok1 && ok2 && blk < 1000 && num < 1000000
}

func c18Parse(line string) (*c18Case, bool) {
	bar := strings.IndexByte(line, '|')
	if bar < 0 {
		return nil, false
	}
	c := &c18Case{}
	seen := map[string]bool{}
	for _, tok := range strings.Fields(line[:bar]) {
		eq := strings.IndexByte(tok, '=')
		if eq < 0 {
			return nil, false
		}
		k, v := tok[:eq], tok[eq+1:]
		if seen[k] {
			return nil, false
		}
		seen[k] = true
		var ok bool
		switch k {
		case "n":
			c.n, ok = c18Num(v)
			ok = ok && c.n <= 16
		case "set":
			c.set, ok = c18Num(v)
		case "tree":
			c.tree = c18BuildTree(v)
			ok = c.tree != nil
		case "fin":
			c.fin, ok = c18Num(v)
		case "has":
			c.has, ok = c18Num(v)
			ok = ok && c.has <= 1
		case "f":
			c.fault, ok = c18Num(v)
			ok = ok && c.fault <= 5
		case "R":
			c.round, ok = c18Num(v)
		case "S":
			c.mset, ok = c18Num(v)
		case "T":
			c.tblk, c.tnum, ok = c18ParseVote(v)
		case "lm":
			c.lm, ok = c18Num(v)
			ok = ok && c.lm <= 2
		}
		if !ok {
			return nil, false
		}
	}
	if len(seen) != 10 || c.fin >= len(c.tree.headers) {
		return nil, false
	}
	body := line[bar+1:]
	if strings.TrimSpace(body) != "" {
		for _, e := range strings.Split(body, ";") {
			f := strings.Fields(e)
			if len(f) != 3 {
				return nil, false
			}
			var en c18Entry
			var ok bool
			if en.key, ok = c18ParseKey(f[0]); !ok {
				return nil, false
			}
			if en.blk, en.num, ok = c18ParseVote(f[1]); !ok {
				return nil, false
			}
			en.sig = f[2]
			if !c18SigOK(en.sig) {
				return nil, false
			}
			c.entries = append(c.entries, en)
		}
	}
	return c, true
}

func c18SigOK(s string) bool {
	switch {
	case s == "ok" || s == "z" || s == "pv":
		return true
	case strings.HasPrefix(s, "bad"):
		v, ok := c18Num(s[3:])
		return ok && v < 8
	case strings.HasPrefix(s, "r") || strings.HasPrefix(s, "s"):
		_, ok := c18Num(s[1:])
		return ok
	case strings.HasPrefix(s, "k"):
		_, ok := c18ParseKey(s[1:])
		return ok
	case strings.HasPrefix(s, "o"):
		_, _, ok := c18ParseVote(s[1:])
		return ok
	}
	return false
}

// c18Sign makes the signature bytes an entry's descriptor stands for.
func c18Sign(c *c18Case, e c18Entry) [64]byte {
	key, stage, blk, num, round, set := e.key, precommit, e.blk, e.num, c.round, c.set
	tamper := -1
	s := e.sig
	switch {
	case s == "ok":
	case s == "z":
		return [64]byte{}
	case s == "pv":
		stage = prevote
	case strings.HasPrefix(s, "bad"):
		tamper, _ = c18Num(s[3:])
	case strings.HasPrefix(s, "r"):
		round, _ = c18Num(s[1:])
	case strings.HasPrefix(s, "s"):
		set, _ = c18Num(s[1:])
	case strings.HasPrefix(s, "k"):
		key, _ = c18ParseKey(s[1:])
	case strings.HasPrefix(s, "o"):
		blk, num, _ = c18ParseVote(s[1:])
	}
	msg, err := scale.Marshal(FullVote{
		Stage: stage,
		Vote:  Vote{Hash: c.tree.hash(blk), Number: uint32(num)},
		Round: uint64(round),
		SetID: uint64(set),
	})
	if err != nil {
		panic(err)
	}
	sig, err := c18Key(key).Sign(msg)
	if err != nil {
		panic(err)
	}
	var out [64]byte
	copy(out[:], sig)
	if tamper >= 0 {
		out[(tamper*9)%64] ^= 1 << uint(tamper%8)
	}
	return out
}

var c18NeedRe = regexp.MustCompile(`need (\d+) votes but received only (\d+) valid votes`)

func c18Class(err error) string {
	switch {
	case err == nil:
		return "ok"
	case errors.Is(err, ErrBlockHashMismatch):
		return "err-hashnum"
	case errors.Is(err, c18ErrHas):
		return "err-has"
	case errors.Is(err, ErrPrecommitSignatureMismatch):
		return "err-len"
	case errors.Is(err, ErrSetIDMismatch):
		return "err-set"
	case errors.Is(err, c18ErrFinHdr):
		return "err-finhdr"
	case errors.Is(err, blocktree.ErrStartNodeNotFound), errors.Is(err, blocktree.ErrEndNodeNotFound):
		return "err-anc"
	case errors.Is(err, errVoteBlockMismatch):
		return "err-notdesc"
	case errors.Is(err, ErrBlockNumbersMismatch):
		return "err-num"
	case errors.Is(err, ErrMinVotesNotMet):
		if m := c18NeedRe.FindStringSubmatch(err.Error()); m != nil {
			return "err-min " + m[1] + " " + m[2]
		}
		return "err-min ? ?"
	case errors.Is(err, c18ErrSetFin):
		return "err-setfin"
	case errors.Is(err, c18ErrSetPc):
		return "err-setpc"
	case errors.Is(err, errVoteToSignatureMismatch):
		return "err-compact"
	case errors.Is(err, database.ErrNotFound):
		return "err-hdr"
	}
	return "err-other"
}

func c18Run(line string) string {
	if f := strings.Fields(line); len(f) == 2 && f[0] == "thr" { // ties State.threshold to the model's `thr`
		n, ok := c18Num(f[1])
		if !ok || n > 100000 {
			return "bad-op"
		}
		return strconv.FormatUint((&State{voters: make([]Voter, n)}).threshold(), 10)
	}
	c, ok := c18Parse(line)
	if !ok {
		return "bad-op"
	}
	voters := make([]Voter, c.n)
	for i := range voters {
		voters[i] = Voter{Key: *c18Key(i).Public().(*ed25519.PublicKey), ID: uint64(i)}
	}
	bs := &c18BlockState{
		headers: map[common.Hash]*types.Header{},
		parent:  map[common.Hash]common.Hash{},
		index:   map[common.Hash]int{},
		fin:     c.tree.headers[c.fin],
		has:     c.has == 1,
		fault:   c.fault,
	}
	for i, h := range c.tree.headers {
		bs.headers[h.Hash()] = h
		bs.index[h.Hash()] = i
		if i > 0 {
			bs.parent[h.Hash()] = c.tree.headers[c.tree.parents[i-1]].Hash()
		}
	}
	gst := &c18GrandpaState{fault: c.fault}
	svc := &Service{
		blockState:   bs,
		grandpaState: gst,
		state:        NewState(voters, uint64(c.set), 1),
		tracker:      &tracker{commits: newCommitsTracker(8)},
		telemetry:    c18Telemetry{},
	}
	mh := NewMessageHandler(svc, bs, c18Telemetry{})
	svc.messageHandler = mh

	msg := &CommitMessage{
		Round:      uint64(c.round),
		SetID:      uint64(c.mset),
		Vote:       Vote{Hash: c.tree.hash(c.tblk), Number: uint32(c.tnum)},
		Precommits: []Vote{},
		AuthData:   []AuthData{},
	}
	for _, e := range c.entries {
		msg.Precommits = append(msg.Precommits, Vote{Hash: c.tree.hash(e.blk), Number: uint32(e.num)})
		msg.AuthData = append(msg.AuthData, AuthData{
			Signature:   c18Sign(c, e),
			AuthorityID: c18Key(e.key).Public().(*ed25519.PublicKey).AsBytes(),
		})
	}
	switch c.lm {
	case 1:
		msg.Precommits = append(msg.Precommits, msg.Vote)
	case 2:
		msg.AuthData = append(msg.AuthData, AuthData{AuthorityID: c18Key(0).Public().(*ed25519.PublicKey).AsBytes()})
	}

	out, err := mh.handleMessage("", msg)
	res := c18Class(err)
	if out != nil {
		res += "+out"
	}
	fin, pc := "-", "-"
	if len(bs.finCalls) > 0 {
		fin = strings.Join(bs.finCalls, ",")
	}
	if len(gst.pcCalls) > 0 {
		pc = strings.Join(gst.pcCalls, ",")
	}
	trk := 0
	svc.tracker.commits.forEach(func(*CommitMessage) { trk++ })
	return fmt.Sprintf("%s fin=%s pc=%s trk=%d", res, fin, pc, trk)
}

// ---------------------------------------------------------------- generator

func c18GenTree(r *vhRng) (string, []int) {
	size := 1 + r.Intn(7)
	parents := make([]int, 0, size)
	strs := make([]string, 0, size)
	for i := 1; i < size; i++ {
		p := i - 1
		if r.Chance(2, 5) {
			p = r.Intn(i)
		}
		parents = append(parents, p)
		strs = append(strs, strconv.Itoa(p))
	}
	if len(strs) == 0 {
		return "-", parents
	}
	return strings.Join(strs, ","), parents
}

func c18Depth(parents []int, b int) int {
	d := 0
	for b > 0 {
		b = parents[b-1]
		d++
	}
	return d
}

func c18IsAnc(parents []int, a, d int) bool {
	for {
		if a == d {
			return true
		}
		if d == 0 {
			return false
		}
		d = parents[d-1]
	}
}

// c18GenDense samples a small closed space densely: 1..4 authorities, the tree 0 <- 1 <- 2 with 3 a
// sibling of 1, target 1, and 0..5 entries over a small alphabet, so that repetitions, equivocations
// and valid/invalid pairs of one id collide all the time.
func c18GenDense(r *vhRng) string {
	n := 1 + r.Intn(4)
	k := r.Intn(6)
	ids := []string{"v0", "v1", "v2", "v3", "x0"}
	votes := []string{"b1:1", "b1:1", "b2:2", "b3:1", "b0:0", "b9:1"}
	sigs := []string{"ok", "ok", "ok", "bad0", "bad1", "z", "r2", "ob2:2"}
	es := make([]string, k)
	for i := range es {
		id := ids[r.Intn(len(ids))]
		if r.Chance(3, 4) {
			id = ids[r.Intn(n)]
		}
		es[i] = id + " " + votes[r.Intn(len(votes))] + " " + sigs[r.Intn(len(sigs))]
	}
	return fmt.Sprintf("n=%d set=0 tree=0,1,0 fin=0 has=0 f=0 R=1 S=0 T=b1:1 lm=0|%s", n, strings.Join(es, ";"))
}

func c18Gen(r *vhRng) string {
	if r.Chance(1, 100) {
		return fmt.Sprintf("thr %d", r.Intn(200))
	}
	if r.Chance(1, 4) {
		return c18GenDense(r)
	}
	n := r.Pick(1, 2, 3, 3, 4, 4, 4, 5, 6, 6, 7, 8, 9, 9, 10)
	if r.Chance(1, 60) {
		n = 0
	}
	treeStr, parents := c18GenTree(r)
	size := len(parents) + 1
	set := r.Intn(3)
	round := 1 + r.Intn(3)
	mset := set
	if r.Chance(1, 25) {
		mset = r.Intn(3)
	}
	tblk := r.Intn(size)
	fin := 0
	if r.Chance(1, 3) { // an ancestor of the target, possibly the target itself
		fin = tblk
		for fin > 0 && r.Bool() {
			fin = parents[fin-1]
		}
	} else if r.Chance(1, 8) {
		fin = r.Intn(size)
	}
	tnum := c18Depth(parents, tblk)
	if r.Chance(1, 40) {
		tnum += 1 + r.Intn(2)
	}
	if r.Chance(1, 50) {
		tblk = size + r.Intn(2) // unknown target
		tnum = r.Intn(4)
	}
	has, fault, lm := 0, 0, 0
	if r.Chance(1, 30) {
		has = 1
	}
	if r.Chance(1, 15) {
		fault = 1 + r.Intn(5)
	}
	if r.Chance(1, 30) {
		lm = 1 + r.Intn(2)
	}

	var desc, off []int // blocks on / off the target's subtree
	for b := 0; b < size; b++ {
		if tblk < size && c18IsAnc(parents, tblk, b) {
			desc = append(desc, b)
		} else {
			off = append(off, b)
		}
	}
	vote := func(b int) string {
		num := 0
		if b < size {
			num = c18Depth(parents, b)
		} else {
			num = r.Intn(4)
		}
		return fmt.Sprintf("b%d:%d", b, num)
	}
	pickDesc := func() int {
		if len(desc) == 0 {
			return r.Intn(size)
		}
		return desc[r.Intn(len(desc))]
	}
	pickOff := func() int {
		if len(off) == 0 || r.Chance(1, 6) {
			return size + r.Intn(2)
		}
		return off[r.Intn(len(off))]
	}

	thr := 2 * n / 3
	// number of authorities that support the target honestly: around both boundaries
	want := thr + r.Pick(-2, -1, -1, 0, 0, 0, 1, 1, 2)
	if r.Chance(1, 6) {
		want = r.Intn(n + 1)
	}
	if want < 0 {
		want = 0
	}
	if want > n {
		want = n
	}
	perm := make([]int, n)
	for i := range perm {
		perm[i] = i
	}
	for i := n - 1; i > 0; i-- {
		j := r.Intn(i + 1)
		perm[i], perm[j] = perm[j], perm[i]
	}
	var es []string
	add := func(id string, v string, sig string) { es = append(es, id+" "+v+" "+sig) }
	for _, a := range perm[:want] {
		add(fmt.Sprintf("v%d", a), vote(pickDesc()), "ok")
	}
	rest := perm[want:]
	anyAuth := func() int {
		if n == 0 {
			return 0
		}
		return r.Intn(n)
	}
	restAuth := func() int {
		if len(rest) == 0 {
			return anyAuth()
		}
		return rest[r.Intn(len(rest))]
	}
	badSig := func(a int, v string) string {
		switch r.Intn(9) {
		case 0:
			return fmt.Sprintf("bad%d", r.Intn(4))
		case 1:
			return "z"
		case 2:
			return fmt.Sprintf("r%d", 1+(round+r.Intn(2))%3)
		case 3:
			return fmt.Sprintf("s%d", (set+1+r.Intn(2))%3)
		case 4:
			return "pv"
		case 5:
			return fmt.Sprintf("kv%d", (a+1+r.Intn(3))%11)
		case 6:
			return "kx" + strconv.Itoa(r.Intn(2))
		case 7:
			return "o" + vote(r.Intn(size+1))
		default:
			return fmt.Sprintf("bad%d", r.Intn(4))
		}
	}
	noise := r.Pick(0, 0, 1, 1, 2, 2, 3, 4, 6)
	for k := 0; k < noise; k++ {
		switch r.Intn(12) {
		case 0: // repeat an existing entry verbatim
			if len(es) > 0 {
				es = append(es, es[r.Intn(len(es))])
			}
		case 1: // the same authority again on another block of the subtree (real equivocation or repeat)
			a := anyAuth()
			add(fmt.Sprintf("v%d", a), vote(pickDesc()), "ok")
		case 2: // real equivocation: two valid precommits for different blocks
			a := restAuth()
			add(fmt.Sprintf("v%d", a), vote(pickOff()), "ok")
			add(fmt.Sprintf("v%d", a), vote(r.Intn(size)), "ok")
		case 3: // fake equivocation: two entries of one id with different garbage signatures
			a := restAuth()
			id := fmt.Sprintf("v%d", a)
			if r.Chance(1, 3) {
				id = "x" + strconv.Itoa(r.Intn(3))
			}
			v := vote(pickDesc())
			add(id, v, badSig(a, v))
			add(id, vote(pickDesc()), badSig(a, v))
		case 4: // one valid and one invalid entry of the same authority
			a := restAuth()
			v := vote(r.Intn(size))
			add(fmt.Sprintf("v%d", a), v, "ok")
			add(fmt.Sprintf("v%d", a), vote(r.Intn(size)), badSig(a, v))
		case 5: // valid signature for a block off the target's chain
			add(fmt.Sprintf("v%d", restAuth()), vote(pickOff()), "ok")
		case 6: // a key outside the authority set, honestly signed
			id := "x" + strconv.Itoa(r.Intn(3))
			if r.Bool() {
				id = fmt.Sprintf("v%d", n+r.Intn(3))
			}
			add(id, vote(pickDesc()), "ok")
		case 7, 8: // an authority with a bad signature
			a := restAuth()
			v := vote(pickDesc())
			add(fmt.Sprintf("v%d", a), v, badSig(a, v))
		case 9: // signature that spells out the honest parameters: identical bytes to "ok"
			a := restAuth()
			sig := fmt.Sprintf("r%d", round)
			if r.Bool() {
				sig = fmt.Sprintf("s%d", set)
			}
			add(fmt.Sprintf("v%d", a), vote(pickDesc()), sig)
		case 10: // valid signature over a wrong block number
			if r.Chance(1, 3) {
				b := r.Intn(size)
				add(fmt.Sprintf("v%d", restAuth()), fmt.Sprintf("b%d:%d", b, c18Depth(parents, b)+1+r.Intn(2)), "ok")
			} else {
				add(fmt.Sprintf("v%d", restAuth()), vote(pickDesc()), "ok")
			}
		default:
			add(fmt.Sprintf("v%d", anyAuth()), vote(r.Intn(size+1)), "ok")
		}
	}
	for i := len(es) - 1; i > 0; i-- {
		j := r.Intn(i + 1)
		es[i], es[j] = es[j], es[i]
	}
	return fmt.Sprintf("n=%d set=%d tree=%s fin=%d has=%d f=%d R=%d S=%d T=b%d:%d lm=%d|%s",
		n, set, treeStr, fin, has, fault, round, mset, tblk, tnum, lm, strings.Join(es, ";"))
}

func TestVerifC18(t *testing.T) {
	logger.Patch(log.SetLevel(log.Critical)) // the package logs every rejected entry
	vhMain(t, c18Gen, c18Run)
}
