//go:build verif

package grandpa

// Harness of property C18 (only supermajority-signed GRANDPA commits finalise).
//
// One case = a short history on ONE Service built by the real NewService over in-memory fakes of
// BlockState / GrandpaState / Network / Telemetry and a small generated block tree: commit messages
// handed to MessageHandler.handleMessage, and authority-set changes executed by the real
// Service.initiateRound (updateAuthorities). Signatures are real ed25519 signatures of cached keys.
// The fake BlockState remembers what SetFinalisedHash stored: the highest finalised block and the
// (round, set id) pairs HasFinalisedBlock answers true for.
//
// history line:
//   hist auths=<keys|-> set=<set id> tree=<p1,p2,..|-> fin=<blk>|<op>;<op>;...
//   op  commit f=<fault> R=<round> S=<msg set id> T=b<k>:<num> lm=<0|1|2> / <entry> , <entry> ...
//       setchange <new set id> <keys|->     GetCurrentSetID/GetAuthorities answer this, then initiateRound
// single-commit line (one `commit` op on a Service with authorities v0..v(n-1); entries shrink one by one):
//   n=<auths> set=<svc set id> tree=<..> fin=<blk> has=<0|1> f=<fault> R=<round> S=<msg set id>
//   T=b<k>:<num> lm=<0|1|2>|<entry>;<entry>;...       has=1: (R, set) already has a finalised block
//
//   tree   block 0 is the root; block i (i>=1) has parent p_i < i; header number = depth
//   fin    highest finalised block at the start
//   f      0 none, 1 GetHighestFinalisedHeader fails, 2 first IsDescendantOf of the op fails with
//          ErrStartNodeNotFound, 3 SetFinalisedHash fails, 4 SetPrecommits fails, 5 HasFinalisedBlock fails
//   lm     0 len(Precommits)==len(AuthData), 1 one extra precommit, 2 one extra AuthData
//   entry  <id> b<k>:<num> <sig>
//   keys   comma separated ids, no repetition; id v<i> = cached key i, x<j> = cached key 100+j
//   b<k>   block k of the tree; k >= size is a block nobody knows
//   sig    ok (the id's honest precommit signature for this vote, the commit's round R and set id S) |
//          bad<t> (ok with one bit flipped, variant t) | z (all zero) | r<q> (signed for round q) |
//          s<q> (signed for set q) | pv (signed as prevote) | kv<i> / kx<j> (signed by that other key) |
//          ob<k>:<num> (signed over that other vote)
//        thr <n>   (State.threshold() of a set of n voters)
// output per commit: <class> [need got] fin=<-|b<k>:<round>:<set>> pc=<-|round:set:len> trk=<0|1>
// output per setchange: set:<set id>:<keys>      (the Service's state afterwards); ops joined by ";"

import (
	"encoding/json"
	"errors"
	"fmt"
	"regexp"
	"strconv"
	"strings"
	"sync"
	"testing"

	"github.com/ChainSafe/gossamer/dot/network"
	"github.com/ChainSafe/gossamer/dot/types"
	"github.com/ChainSafe/gossamer/internal/database"
	"github.com/ChainSafe/gossamer/internal/log"
	"github.com/ChainSafe/gossamer/lib/blocktree"
	"github.com/ChainSafe/gossamer/lib/common"
	"github.com/ChainSafe/gossamer/lib/crypto/ed25519"
	"github.com/ChainSafe/gossamer/pkg/scale"
	"github.com/libp2p/go-libp2p/core/protocol"
)

// ---------------------------------------------------------------- fakes

var (
	c18ErrFinHdr = errors.New("c18: no highest finalised header")
	c18ErrSetFin = errors.New("c18: set finalised hash failed")
	c18ErrSetPc  = errors.New("c18: set precommits failed")
	c18ErrHas    = errors.New("c18: has finalised block failed")
)

type c18BlockState struct {
	BlockState // every method that is not overridden panics (nil interface)
	tree       *c18Tree
	index      map[common.Hash]int
	fin        int               // highest finalised block
	done       map[[2]uint64]bool // (round, set id) with a finalised block
	fault      int               // of the running op
	descCalls  int
	finCalls   []string
	curSet     uint64 // set id of the last setchange op (for GetHighestRoundAndSetID)
}

func (b *c18BlockState) GenesisHash() common.Hash { return b.tree.headers[0].Hash() }

func (b *c18BlockState) GetFinalisedNotifierChannel() chan *types.FinalisationInfo {
	return make(chan *types.FinalisationInfo)
}
func (b *c18BlockState) GetImportedBlockNotifierChannel() chan *types.Block {
	return make(chan *types.Block)
}

func (b *c18BlockState) GetHeader(h common.Hash) (*types.Header, error) {
	if i, ok := b.index[h]; ok {
		return b.tree.headers[i], nil
	}
	return nil, fmt.Errorf("c18 header: %w", database.ErrNotFound)
}

func (b *c18BlockState) HasFinalisedBlock(round, setID uint64) (bool, error) {
	if b.fault == 5 {
		return false, c18ErrHas
	}
	return b.done[[2]uint64{round, setID}], nil
}

func (b *c18BlockState) GetHighestFinalisedHeader() (*types.Header, error) {
	if b.fault == 1 {
		return nil, c18ErrFinHdr
	}
	return b.tree.headers[b.fin], nil
}

// initiateRound: nothing was finalised in a later round or set than the Service knows of
func (b *c18BlockState) GetHighestRoundAndSetID() (uint64, uint64, error) { return 0, b.curSet, nil }

// used by NewService and initiateRound only
func (b *c18BlockState) GetFinalisedHeader(round, setID uint64) (*types.Header, error) {
	return b.tree.headers[b.fin], nil
}

// IsDescendantOf follows lib/blocktree: equal hashes are related even when unknown, an unknown
// first argument is ErrStartNodeNotFound, an unknown second one ErrEndNodeNotFound.
func (b *c18BlockState) IsDescendantOf(parent, child common.Hash) (bool, error) {
	b.descCalls++
	if b.fault == 2 && b.descCalls == 1 {
		return false, fmt.Errorf("%w: injected", blocktree.ErrStartNodeNotFound)
	}
	if parent == child {
		return true, nil
	}
	pi, ok := b.index[parent]
	if !ok {
		return false, fmt.Errorf("%w: node hash %s", blocktree.ErrStartNodeNotFound, parent)
	}
	ci, ok := b.index[child]
	if !ok {
		return false, fmt.Errorf("%w: node hash %s", blocktree.ErrEndNodeNotFound, child)
	}
	for cur := ci; cur > 0; {
		cur = b.tree.parents[cur-1]
		if cur == pi {
			return true, nil
		}
	}
	return false, nil
}

func (b *c18BlockState) SetFinalisedHash(h common.Hash, round, setID uint64) error {
	name := "?"
	i, known := b.index[h]
	if known {
		name = "b" + strconv.Itoa(i)
	}
	b.finCalls = append(b.finCalls, fmt.Sprintf("%s:%d:%d", name, round, setID))
	if b.fault == 3 {
		return c18ErrSetFin
	}
	if known {
		b.fin = i
	}
	b.done[[2]uint64{round, setID}] = true
	return nil
}

type c18GrandpaState struct {
	GrandpaState
	fault   int
	pcCalls []string
	cur     uint64 // GetCurrentSetID
	auths   []int  // GetAuthorities(cur)
}

func (g *c18GrandpaState) SetPrecommits(round, setID uint64, data []SignedVote) error {
	g.pcCalls = append(g.pcCalls, fmt.Sprintf("%d:%d:%d", round, setID, len(data)))
	if g.fault == 4 {
		return c18ErrSetPc
	}
	return nil
}

func (g *c18GrandpaState) GetCurrentSetID() (uint64, error) { return g.cur, nil }
func (g *c18GrandpaState) GetLatestRound() (uint64, error)  { return 1, nil }
func (g *c18GrandpaState) SetLatestRound(uint64) error      { return nil }
func (g *c18GrandpaState) GetAuthorities(setID uint64) ([]types.GrandpaVoter, error) {
	if setID != g.cur {
		return nil, errors.New("c18: unknown set id")
	}
	return c18Voters(g.auths), nil
}

func c18Voters(keys []int) []types.GrandpaVoter {
	vs := make([]types.GrandpaVoter, len(keys))
	for i, k := range keys {
		vs[i] = Voter{Key: *c18Key(k).Public().(*ed25519.PublicKey), ID: uint64(i)}
	}
	return vs
}

type c18Telemetry struct{}

func (c18Telemetry) SendMessage(json.Marshaler) {}

type c18Network struct{ Network }

func (c18Network) RegisterNotificationsProtocol(protocol.ID, network.MessageType, network.HandshakeGetter,
	network.HandshakeDecoder, network.HandshakeValidator, network.MessageDecoder,
	network.NotificationsMessageHandler, network.NotificationsMessageBatchHandler, uint64) error {
	return nil
}

// ---------------------------------------------------------------- cached keys and trees

var (
	c18Mu    sync.Mutex
	c18Keys  = map[int]*ed25519.Keypair{}
	c18Trees = map[string]*c18Tree{}
)

func c18Key(i int) *ed25519.Keypair {
	c18Mu.Lock()
	defer c18Mu.Unlock()
	if k, ok := c18Keys[i]; ok {
		return k
	}
	seed := make([]byte, 32)
	copy(seed, fmt.Sprintf("c18-key-%d", i))
	k, err := ed25519.NewKeypairFromSeed(seed)
	if err != nil {
		panic(err)
	}
	c18Keys[i] = k
	return k
}

var (
	c18NamesOnce sync.Once
	c18Names     map[ed25519.PublicKeyBytes]int
)

// c18KeyOf maps a public key back to its cached key number (199 = not one of ours).
func c18KeyOf(pk ed25519.PublicKeyBytes) int {
	c18NamesOnce.Do(func() {
		c18Names = map[ed25519.PublicKeyBytes]int{}
		for k := 0; k < 199; k++ {
			c18Names[c18Key(k).Public().(*ed25519.PublicKey).AsBytes()] = k
		}
	})
	if k, ok := c18Names[pk]; ok {
		return k
	}
	return 199
}

type c18Tree struct {
	headers []*types.Header
	parents []int
}

func c18UnknownHash(k int) common.Hash {
	h, _ := common.Blake2bHash([]byte(fmt.Sprintf("c18-unknown-block-%d", k)))
	return h
}

// c18BuildTree returns nil when the description is malformed.
func c18BuildTree(desc string) *c18Tree {
	c18Mu.Lock()
	defer c18Mu.Unlock()
	if t, ok := c18Trees[desc]; ok {
		return t
	}
	var parents []int
	if desc != "-" {
		for i, s := range strings.Split(desc, ",") {
			p, err := strconv.Atoi(s)
			if err != nil || p < 0 || p > i || s != strconv.Itoa(p) {
				return nil
			}
			parents = append(parents, p)
		}
	}
	t := &c18Tree{parents: parents}
	salt := func(i int) common.Hash {
		h, _ := common.Blake2bHash([]byte(fmt.Sprintf("c18-block-%d", i)))
		return h
	}
	t.headers = append(t.headers, types.NewHeader(common.Hash{}, salt(0), common.Hash{}, 0, types.NewDigest()))
	for i, p := range parents {
		ph := t.headers[p]
		t.headers = append(t.headers, types.NewHeader(ph.Hash(), salt(i+1), common.Hash{}, ph.Number+1, types.NewDigest()))
	}
	if len(c18Trees) < 50000 {
		c18Trees[desc] = t
	}
	return t
}

func (t *c18Tree) hash(k int) common.Hash {
	if k < len(t.headers) {
		return t.headers[k].Hash()
	}
	return c18UnknownHash(k)
}

// ---------------------------------------------------------------- parsing

type c18Hist struct {
	auths    []int
	set, fin int
	seedDone bool // single-commit line with has=1
	single   bool
	tree     *c18Tree
	ops      []c18Op
}

type c18Op struct {
	setchange                         bool
	newSet                            int
	voters                            []int
	fault, round, mset, tblk, tnum, lm int
	entries                           []c18Entry
}

type c18Entry struct {
	key, blk, num int
	sig           string
}

func c18Num(s string) (int, bool) {
	v, err := strconv.Atoi(s)
	if err != nil || v < 0 || s != strconv.Itoa(v) {
		return 0, false
	}
	return v, true
}

func c18ParseKey(s string) (int, bool) {
	if len(s) < 2 {
		return 0, false
	}
	v, ok := c18Num(s[1:])
	if !ok || v > 99 {
		return 0, false
	}
	switch s[0] {
	case 'v':
		return v, true
	case 'x':
		return 100 + v, true
	}
	return 0, false
}

func c18ParseVote(s string) (blk, num int, ok bool) {
	if !strings.HasPrefix(s, "b") {
		return 0, 0, false
	}
	parts := strings.Split(s[1:], ":")
	if len(parts) != 2 {
		return 0, 0, false
	}
	blk, ok1 := c18Num(parts[0])
	num, ok2 := c18Num(parts[1])
	return blk, num, ok1 && ok2 && blk < 1000 && num < 1000000
}

// c18ParseKeys parses `-` or a comma separated list of distinct key names.
func c18ParseKeys(s string) ([]int, bool) {
	if s == "-" {
		return []int{}, true
	}
	var out []int
	seen := map[int]bool{}
	for _, t := range strings.Split(s, ",") {
		k, ok := c18ParseKey(t)
		if !ok || seen[k] {
			return nil, false
		}
		seen[k] = true
		out = append(out, k)
	}
	return out, len(out) <= 16
}

func c18KeyName(k int) string {
	if k >= 100 {
		return "x" + strconv.Itoa(k-100)
	}
	return "v" + strconv.Itoa(k)
}

func c18KeyNames(ks []int) string {
	if len(ks) == 0 {
		return "-"
	}
	n := make([]string, len(ks))
	for i, k := range ks {
		n[i] = c18KeyName(k)
	}
	return strings.Join(n, ",")
}

// c18KV splits `key=value` tokens; every key of `want` must occur exactly once and no other.
func c18KV(toks []string, want string) (map[string]string, bool) {
	m := map[string]string{}
	for _, tok := range toks {
		eq := strings.IndexByte(tok, '=')
		if eq < 0 {
			return nil, false
		}
		k := tok[:eq]
		if _, dup := m[k]; dup || !strings.Contains(" "+want+" ", " "+k+" ") {
			return nil, false
		}
		m[k] = tok[eq+1:]
	}
	return m, len(m) == len(strings.Fields(want))
}

func c18ParseEntries(body, sep string) ([]c18Entry, bool) {
	var out []c18Entry
	if strings.TrimSpace(body) == "" {
		return out, true
	}
	for _, e := range strings.Split(body, sep) {
		f := strings.Fields(e)
		if len(f) != 3 {
			return nil, false
		}
		var en c18Entry
		var ok bool
		if en.key, ok = c18ParseKey(f[0]); !ok {
			return nil, false
		}
		if en.blk, en.num, ok = c18ParseVote(f[1]); !ok {
			return nil, false
		}
		en.sig = f[2]
		if !c18SigOK(en.sig) {
			return nil, false
		}
		out = append(out, en)
	}
	return out, true
}

// c18CommitFields reads f R S T lm out of a key=value map.
func c18CommitFields(m map[string]string, op *c18Op) bool {
	var ok bool
	if op.fault, ok = c18Num(m["f"]); !ok || op.fault > 5 {
		return false
	}
	if op.round, ok = c18Num(m["R"]); !ok {
		return false
	}
	if op.mset, ok = c18Num(m["S"]); !ok {
		return false
	}
	if op.tblk, op.tnum, ok = c18ParseVote(m["T"]); !ok {
		return false
	}
	if op.lm, ok = c18Num(m["lm"]); !ok || op.lm > 2 {
		return false
	}
	return true
}

func c18Parse(line string) (*c18Hist, bool) {
	bar := strings.IndexByte(line, '|')
	if bar < 0 {
		return nil, false
	}
	toks := strings.Fields(line[:bar])
	body := line[bar+1:]
	h := &c18Hist{}
	var ok bool
	if len(toks) > 0 && toks[0] == "hist" {
		m, good := c18KV(toks[1:], "auths set tree fin")
		if !good {
			return nil, false
		}
		if h.auths, ok = c18ParseKeys(m["auths"]); !ok {
			return nil, false
		}
		if h.set, ok = c18Num(m["set"]); !ok {
			return nil, false
		}
		if h.tree = c18BuildTree(m["tree"]); h.tree == nil {
			return nil, false
		}
		if h.fin, ok = c18Num(m["fin"]); !ok || h.fin >= len(h.tree.headers) {
			return nil, false
		}
		if strings.TrimSpace(body) == "" {
			return h, true
		}
		for _, o := range strings.Split(body, ";") {
			f := strings.Fields(o)
			if len(f) == 0 {
				return nil, false
			}
			var op c18Op
			switch f[0] {
			case "setchange":
				if len(f) != 3 {
					return nil, false
				}
				op.setchange = true
				if op.newSet, ok = c18Num(f[1]); !ok {
					return nil, false
				}
				if op.voters, ok = c18ParseKeys(f[2]); !ok {
					return nil, false
				}
			case "commit":
				slash := strings.IndexByte(o, '/')
				if slash < 0 {
					return nil, false
				}
				cm, good := c18KV(strings.Fields(o[:slash])[1:], "f R S T lm")
				if !good || !c18CommitFields(cm, &op) {
					return nil, false
				}
				if op.entries, ok = c18ParseEntries(o[slash+1:], ","); !ok {
					return nil, false
				}
			default:
				return nil, false
			}
			h.ops = append(h.ops, op)
		}
		return h, true
	}
	m, good := c18KV(toks, "n set tree fin has f R S T lm")
	if !good {
		return nil, false
	}
	n, ok := c18Num(m["n"])
	if !ok || n > 16 {
		return nil, false
	}
	for i := 0; i < n; i++ {
		h.auths = append(h.auths, i)
	}
	if h.set, ok = c18Num(m["set"]); !ok {
		return nil, false
	}
	if h.tree = c18BuildTree(m["tree"]); h.tree == nil {
		return nil, false
	}
	if h.fin, ok = c18Num(m["fin"]); !ok || h.fin >= len(h.tree.headers) {
		return nil, false
	}
	has, ok := c18Num(m["has"])
	if !ok || has > 1 {
		return nil, false
	}
	var op c18Op
	if !c18CommitFields(m, &op) {
		return nil, false
	}
	if op.entries, ok = c18ParseEntries(body, ";"); !ok {
		return nil, false
	}
	h.single, h.seedDone, h.ops = true, has == 1, []c18Op{op}
	return h, true
}

func c18SigOK(s string) bool {
	switch {
	case s == "ok" || s == "z" || s == "pv":
		return true
	case strings.HasPrefix(s, "bad"):
		v, ok := c18Num(s[3:])
		return ok && v < 8
	case strings.HasPrefix(s, "r") || strings.HasPrefix(s, "s"):
		_, ok := c18Num(s[1:])
		return ok
	case strings.HasPrefix(s, "k"):
		_, ok := c18ParseKey(s[1:])
		return ok
	case strings.HasPrefix(s, "o"):
		_, _, ok := c18ParseVote(s[1:])
		return ok
	}
	return false
}

// c18Sign makes the signature bytes an entry's descriptor stands for.
func c18Sign(t *c18Tree, c *c18Op, e c18Entry) [64]byte {
	key, stage, blk, num, round, set := e.key, precommit, e.blk, e.num, c.round, c.mset
	tamper := -1
	s := e.sig
	switch {
	case s == "ok":
	case s == "z":
		return [64]byte{}
	case s == "pv":
		stage = prevote
	case strings.HasPrefix(s, "bad"):
		tamper, _ = c18Num(s[3:])
	case strings.HasPrefix(s, "r"):
		round, _ = c18Num(s[1:])
	case strings.HasPrefix(s, "s"):
		set, _ = c18Num(s[1:])
	case strings.HasPrefix(s, "k"):
		key, _ = c18ParseKey(s[1:])
	case strings.HasPrefix(s, "o"):
		blk, num, _ = c18ParseVote(s[1:])
	}
	msg, err := scale.Marshal(FullVote{
		Stage: stage,
		Vote:  Vote{Hash: t.hash(blk), Number: uint32(num)},
		Round: uint64(round),
		SetID: uint64(set),
	})
	if err != nil {
		panic(err)
	}
	sig, err := c18Key(key).Sign(msg)
	if err != nil {
		panic(err)
	}
	var out [64]byte
	copy(out[:], sig)
	if tamper >= 0 {
		out[(tamper*9)%64] ^= 1 << uint(tamper%8)
	}
	return out
}

var c18NeedRe = regexp.MustCompile(`need (\d+) votes but received only (\d+) valid votes`)

func c18Class(err error) string {
	switch {
	case err == nil:
		return "ok"
	case errors.Is(err, ErrBlockHashMismatch):
		return "err-hashnum"
	case errors.Is(err, c18ErrHas):
		return "err-has"
	case errors.Is(err, ErrPrecommitSignatureMismatch):
		return "err-len"
	case errors.Is(err, ErrSetIDMismatch):
		return "err-set"
	case errors.Is(err, c18ErrFinHdr):
		return "err-finhdr"
	case errors.Is(err, blocktree.ErrStartNodeNotFound), errors.Is(err, blocktree.ErrEndNodeNotFound):
		return "err-anc"
	case errors.Is(err, errVoteBlockMismatch):
		return "err-notdesc"
	case errors.Is(err, ErrBlockNumbersMismatch):
		return "err-num"
	case errors.Is(err, ErrMinVotesNotMet):
		if m := c18NeedRe.FindStringSubmatch(err.Error()); m != nil {
			return "err-min " + m[1] + " " + m[2]
		}
		return "err-min ? ?"
	case errors.Is(err, c18ErrSetFin):
		return "err-setfin"
	case errors.Is(err, c18ErrSetPc):
		return "err-setpc"
	case errors.Is(err, errVoteToSignatureMismatch):
		return "err-compact"
	case errors.Is(err, database.ErrNotFound):
		return "err-hdr"
	}
	return "err-other"
}

func c18Run(line string) string {
	if f := strings.Fields(line); len(f) == 2 && f[0] == "thr" { // ties State.threshold to the model's `thr`
		n, ok := c18Num(f[1])
		if !ok || n > 100000 {
			return "bad-op"
		}
		return strconv.FormatUint((&State{voters: make([]Voter, n)}).threshold(), 10)
	}
	h, ok := c18Parse(line)
	if !ok {
		return "bad-op"
	}
	t := h.tree
	bs := &c18BlockState{tree: t, index: map[common.Hash]int{}, fin: h.fin, done: map[[2]uint64]bool{}}
	for i, hd := range t.headers {
		bs.index[hd.Hash()] = i
	}
	if h.seedDone {
		bs.done[[2]uint64{uint64(h.ops[0].round), uint64(h.set)}] = true
	}
	gst := &c18GrandpaState{cur: uint64(h.set), auths: h.auths}
	svc, err := NewService(&Config{
		LogLvl:       log.Critical,
		BlockState:   bs,
		GrandpaState: gst,
		Network:      c18Network{},
		Voters:       c18Voters(h.auths),
		Keypair:      c18Key(0),
		Telemetry:    c18Telemetry{},
	})
	if err != nil {
		return "err-newservice"
	}
	defer svc.cancel()

	var res []string
	for i := range h.ops {
		op := &h.ops[i]
		if op.setchange {
			gst.cur, gst.auths, bs.curSet = uint64(op.newSet), op.voters, uint64(op.newSet)
			bs.fault, gst.fault = 0, 0
			if err := svc.initiateRound(); err != nil {
				res = append(res, "set-err")
				continue
			}
			ks := make([]int, len(svc.state.voters))
			for j, v := range svc.state.voters {
				ks[j] = c18KeyOf(v.Key.AsBytes())
			}
			vs := c18KeyNames(ks)
			res = append(res, fmt.Sprintf("set:%d:%s", svc.state.setID, vs))
			continue
		}
		bs.fault, gst.fault, bs.descCalls = op.fault, op.fault, 0
		bs.finCalls, gst.pcCalls = nil, nil
		msg := &CommitMessage{
			Round:      uint64(op.round),
			SetID:      uint64(op.mset),
			Vote:       Vote{Hash: t.hash(op.tblk), Number: uint32(op.tnum)},
			Precommits: []Vote{},
			AuthData:   []AuthData{},
		}
		for _, e := range op.entries {
			msg.Precommits = append(msg.Precommits, Vote{Hash: t.hash(e.blk), Number: uint32(e.num)})
			msg.AuthData = append(msg.AuthData, AuthData{
				Signature:   c18Sign(t, op, e),
				AuthorityID: c18Key(e.key).Public().(*ed25519.PublicKey).AsBytes(),
			})
		}
		switch op.lm {
		case 1:
			msg.Precommits = append(msg.Precommits, msg.Vote)
		case 2:
			msg.AuthData = append(msg.AuthData, AuthData{AuthorityID: c18Key(0).Public().(*ed25519.PublicKey).AsBytes()})
		}
		out, err := svc.messageHandler.handleMessage("", msg)
		r := c18Class(err)
		if out != nil {
			r += "+out"
		}
		fin, pc := "-", "-"
		if len(bs.finCalls) > 0 {
			fin = strings.Join(bs.finCalls, ",")
		}
		if len(gst.pcCalls) > 0 {
			pc = strings.Join(gst.pcCalls, ",")
		}
		trk := 0
		if svc.tracker.commits.message(msg.Vote.Hash) == msg {
			trk = 1
		}
		res = append(res, fmt.Sprintf("%s fin=%s pc=%s trk=%d", r, fin, pc, trk))
	}
	if len(res) == 0 {
		return "empty"
	}
	return strings.Join(res, ";")
}

// ---------------------------------------------------------------- generator

func c18GenTree(r *vhRng) (string, []int) {
	size := 1 + r.Intn(7)
	parents := make([]int, 0, size)
	strs := make([]string, 0, size)
	for i := 1; i < size; i++ {
		p := i - 1
		if r.Chance(2, 5) {
			p = r.Intn(i)
		}
		parents = append(parents, p)
		strs = append(strs, strconv.Itoa(p))
	}
	if len(strs) == 0 {
		return "-", parents
	}
	return strings.Join(strs, ","), parents
}

func c18Depth(parents []int, b int) int {
	d := 0
	for b > 0 {
		b = parents[b-1]
		d++
	}
	return d
}

func c18IsAnc(parents []int, a, d int) bool {
	for {
		if a == d {
			return true
		}
		if d == 0 {
			return false
		}
		d = parents[d-1]
	}
}

// c18GenDense samples a small closed space densely: 1..4 authorities, the tree 0 <- 1 <- 2 with 3 a
// sibling of 1, target 1, and 0..5 entries over a small alphabet, so that repetitions, equivocations
// and valid/invalid pairs of one id collide all the time.
func c18GenDense(r *vhRng) string {
	n := 1 + r.Intn(4)
	k := r.Intn(6)
	ids := []string{"v0", "v1", "v2", "v3", "x0"}
	votes := []string{"b1:1", "b1:1", "b2:2", "b3:1", "b0:0", "b9:1"}
	sigs := []string{"ok", "ok", "ok", "bad0", "bad1", "z", "r2", "ob2:2"}
	es := make([]string, k)
	for i := range es {
		id := ids[r.Intn(len(ids))]
		if r.Chance(3, 4) {
			id = ids[r.Intn(n)]
		}
		es[i] = id + " " + votes[r.Intn(len(votes))] + " " + sigs[r.Intn(len(sigs))]
	}
	return fmt.Sprintf("n=%d set=0 tree=0,1,0 fin=0 has=0 f=0 R=1 S=0 T=b1:1 lm=0|%s", n, strings.Join(es, ";"))
}

// c18GenHist: commits on one Service around authority-set changes. Members leave, stay and join;
// commits for the old and the new set id are signed by removed / surviving / new authorities in numbers
// around the threshold of the set the Service is in.
func c18GenHist(r *vhRng) string {
	treeStr, parents := c18GenTree(r)
	size := len(parents) + 1
	pool := []int{0, 1, 2, 3, 4, 5, 6, 7, 8, 9, 100, 101}
	subset := func(from []int, k int) []int {
		p := append([]int{}, from...)
		for i := len(p) - 1; i > 0; i-- {
			j := r.Intn(i + 1)
			p[i], p[j] = p[j], p[i]
		}
		if k > len(p) {
			k = len(p)
		}
		return p[:k]
	}
	minus := func(a, b []int) []int {
		in := map[int]bool{}
		for _, x := range b {
			in[x] = true
		}
		var out []int
		for _, x := range a {
			if !in[x] {
				out = append(out, x)
			}
		}
		return out
	}
	cur := subset(pool[:8], 1+r.Intn(6))
	prev := []int{}
	curSet := r.Intn(2)
	prevSet := curSet
	initAuths, initSet := c18KeyNames(cur), curSet
	last := 0 // last target, later targets mostly descend from it
	round := 0
	var ops []string

	commit := func() {
		round++
		rd := round
		if r.Chance(1, 10) && round > 1 {
			rd = 1 + r.Intn(round)
		}
		var desc []int
		for b := 0; b < size; b++ {
			if c18IsAnc(parents, last, b) {
				desc = append(desc, b)
			}
		}
		tblk := desc[r.Intn(len(desc))]
		if r.Chance(1, 8) {
			tblk = r.Intn(size)
		}
		var sub []int
		for b := 0; b < size; b++ {
			if c18IsAnc(parents, tblk, b) {
				sub = append(sub, b)
			}
		}
		vote := func() string {
			b := sub[r.Intn(len(sub))]
			if r.Chance(1, 10) {
				b = r.Intn(size)
			}
			return fmt.Sprintf("b%d:%d", b, c18Depth(parents, b))
		}
		mset := curSet
		if r.Chance(1, 6) {
			mset = prevSet
		}
		thr := 2 * len(cur) / 3
		want := thr + r.Pick(-1, 0, 0, 0, 1, 1, 2)
		if want < 0 {
			want = 0
		}
		removed, joined, stayed := minus(prev, cur), minus(cur, prev), minus(cur, minus(cur, prev))
		var order []int
		switch r.Intn(5) {
		case 0: // current authorities only
			order = subset(cur, len(cur))
		case 1: // those who left the set first
			order = append(subset(removed, len(removed)), subset(cur, len(cur))...)
		case 2: // newcomers first, then survivors
			order = append(subset(joined, len(joined)), subset(stayed, len(stayed))...)
		case 3: // survivors first, then those who left
			order = append(subset(stayed, len(stayed)), subset(removed, len(removed))...)
		default: // anybody
			order = subset(pool, len(pool))
		}
		if want > len(order) {
			want = len(order)
		}
		var es []string
		for _, k := range order[:want] {
			sig := "ok"
			if r.Chance(1, 12) {
				sig = fmt.Sprintf("s%d", prevSet)
			} else if r.Chance(1, 25) {
				sig = fmt.Sprintf("bad%d", r.Intn(3))
			}
			es = append(es, c18KeyName(k)+" "+vote()+" "+sig)
		}
		if r.Chance(1, 5) && len(es) > 0 { // repetition
			es = append(es, es[r.Intn(len(es))])
		}
		if r.Chance(1, 6) && len(order) > 0 { // equivocation of somebody
			k := order[r.Intn(len(order))]
			es = append(es, c18KeyName(k)+" "+vote()+" ok", c18KeyName(k)+" "+fmt.Sprintf("b%d:%d", 0, 0)+" ok")
		}
		for i := len(es) - 1; i > 0; i-- {
			j := r.Intn(i + 1)
			es[i], es[j] = es[j], es[i]
		}
		fault := 0
		if r.Chance(1, 25) {
			fault = 1 + r.Intn(5)
		}
		ops = append(ops, fmt.Sprintf("commit f=%d R=%d S=%d T=b%d:%d lm=0 / %s", fault, rd, mset, tblk,
			c18Depth(parents, tblk), strings.Join(es, " , ")))
		if want >= thr && mset == curSet {
			last = tblk // probably finalised
		}
	}
	change := func() {
		keep := subset(cur, r.Intn(len(cur)+1))
		add := subset(minus(pool, cur), r.Intn(4))
		next := append(keep, add...)
		if r.Chance(1, 12) {
			next = []int{}
		}
		next = subset(next, len(next))
		ns := curSet + 1
		if r.Chance(1, 10) {
			ns = curSet // the Service ignores the voters of an unchanged set id
		} else if r.Chance(1, 10) {
			ns = curSet + 2
		}
		ops = append(ops, fmt.Sprintf("setchange %d %s", ns, c18KeyNames(next)))
		if ns != curSet {
			prev, prevSet = cur, curSet
			cur, curSet = next, ns
		}
	}
	for i := r.Intn(3); i > 0; i-- {
		commit()
	}
	change()
	for i := 1 + r.Intn(3); i > 0; i-- {
		commit()
	}
	if r.Chance(1, 3) {
		change()
		for i := 1 + r.Intn(2); i > 0; i-- {
			commit()
		}
	}
	return fmt.Sprintf("hist auths=%s set=%d tree=%s fin=0|%s", initAuths, initSet, treeStr, strings.Join(ops, ";"))
}

func c18Gen(r *vhRng) string {
	if r.Chance(1, 100) {
		return fmt.Sprintf("thr %d", r.Intn(200))
	}
	if r.Chance(1, 4) {
		return c18GenDense(r)
	}
	if r.Chance(2, 5) {
		return c18GenHist(r)
	}
	n := r.Pick(1, 2, 3, 3, 4, 4, 4, 5, 6, 6, 7, 8, 9, 9, 10)
	if r.Chance(1, 60) {
		n = 0
	}
	treeStr, parents := c18GenTree(r)
	size := len(parents) + 1
	set := r.Intn(3)
	round := 1 + r.Intn(3)
	mset := set
	if r.Chance(1, 25) {
		mset = r.Intn(3)
	}
	tblk := r.Intn(size)
	fin := 0
	if r.Chance(1, 3) { // an ancestor of the target, possibly the target itself
		fin = tblk
		for fin > 0 && r.Bool() {
			fin = parents[fin-1]
		}
	} else if r.Chance(1, 8) {
		fin = r.Intn(size)
	}
	tnum := c18Depth(parents, tblk)
	if r.Chance(1, 40) {
		tnum += 1 + r.Intn(2)
	}
	if r.Chance(1, 50) {
		tblk = size + r.Intn(2) // unknown target
		tnum = r.Intn(4)
	}
	has, fault, lm := 0, 0, 0
	if r.Chance(1, 30) {
		has = 1
	}
	if r.Chance(1, 15) {
		fault = 1 + r.Intn(5)
	}
	if r.Chance(1, 30) {
		lm = 1 + r.Intn(2)
	}

	var desc, off []int // blocks on / off the target's subtree
	for b := 0; b < size; b++ {
		if tblk < size && c18IsAnc(parents, tblk, b) {
			desc = append(desc, b)
		} else {
			off = append(off, b)
		}
	}
	vote := func(b int) string {
		num := 0
		if b < size {
			num = c18Depth(parents, b)
		} else {
			num = r.Intn(4)
		}
		return fmt.Sprintf("b%d:%d", b, num)
	}
	pickDesc := func() int {
		if len(desc) == 0 {
			return r.Intn(size)
		}
		return desc[r.Intn(len(desc))]
	}
	pickOff := func() int {
		if len(off) == 0 || r.Chance(1, 6) {
			return size + r.Intn(2)
		}
		return off[r.Intn(len(off))]
	}

	thr := 2 * n / 3
	// number of authorities that support the target honestly: around both boundaries
	want := thr + r.Pick(-2, -1, -1, 0, 0, 0, 1, 1, 2)
	if r.Chance(1, 6) {
		want = r.Intn(n + 1)
	}
	if want < 0 {
		want = 0
	}
	if want > n {
		want = n
	}
	perm := make([]int, n)
	for i := range perm {
		perm[i] = i
	}
	for i := n - 1; i > 0; i-- {
		j := r.Intn(i + 1)
		perm[i], perm[j] = perm[j], perm[i]
	}
	var es []string
	add := func(id string, v string, sig string) { es = append(es, id+" "+v+" "+sig) }
	for _, a := range perm[:want] {
		add(fmt.Sprintf("v%d", a), vote(pickDesc()), "ok")
	}
	rest := perm[want:]
	anyAuth := func() int {
		if n == 0 {
			return 0
		}
		return r.Intn(n)
	}
	restAuth := func() int {
		if len(rest) == 0 {
			return anyAuth()
		}
		return rest[r.Intn(len(rest))]
	}
	badSig := func(a int, v string) string {
		switch r.Intn(9) {
		case 0:
			return fmt.Sprintf("bad%d", r.Intn(4))
		case 1:
			return "z"
		case 2:
			return fmt.Sprintf("r%d", 1+(round+r.Intn(2))%3)
		case 3:
			return fmt.Sprintf("s%d", (set+1+r.Intn(2))%3)
		case 4:
			return "pv"
		case 5:
			return fmt.Sprintf("kv%d", (a+1+r.Intn(3))%11)
		case 6:
			return "kx" + strconv.Itoa(r.Intn(2))
		case 7:
			return "o" + vote(r.Intn(size+1))
		default:
			return fmt.Sprintf("bad%d", r.Intn(4))
		}
	}
	noise := r.Pick(0, 0, 1, 1, 2, 2, 3, 4, 6)
	for k := 0; k < noise; k++ {
		switch r.Intn(12) {
		case 0: // repeat an existing entry verbatim
			if len(es) > 0 {
				es = append(es, es[r.Intn(len(es))])
			}
		case 1: // the same authority again on another block of the subtree (real equivocation or repeat)
			a := anyAuth()
			add(fmt.Sprintf("v%d", a), vote(pickDesc()), "ok")
		case 2: // real equivocation: two valid precommits for different blocks
			a := restAuth()
			add(fmt.Sprintf("v%d", a), vote(pickOff()), "ok")
			add(fmt.Sprintf("v%d", a), vote(r.Intn(size)), "ok")
		case 3: // fake equivocation: two entries of one id with different garbage signatures
			a := restAuth()
			id := fmt.Sprintf("v%d", a)
			if r.Chance(1, 3) {
				id = "x" + strconv.Itoa(r.Intn(3))
			}
			v := vote(pickDesc())
			add(id, v, badSig(a, v))
			add(id, vote(pickDesc()), badSig(a, v))
		case 4: // one valid and one invalid entry of the same authority
			a := restAuth()
			v := vote(r.Intn(size))
			add(fmt.Sprintf("v%d", a), v, "ok")
			add(fmt.Sprintf("v%d", a), vote(r.Intn(size)), badSig(a, v))
		case 5: // valid signature for a block off the target's chain
			add(fmt.Sprintf("v%d", restAuth()), vote(pickOff()), "ok")
		case 6: // a key outside the authority set, honestly signed
			id := "x" + strconv.Itoa(r.Intn(3))
			if r.Bool() {
				id = fmt.Sprintf("v%d", n+r.Intn(3))
			}
			add(id, vote(pickDesc()), "ok")
		case 7, 8: // an authority with a bad signature
			a := restAuth()
			v := vote(pickDesc())
			add(fmt.Sprintf("v%d", a), v, badSig(a, v))
		case 9: // signature that spells out the honest parameters: identical bytes to "ok"
			a := restAuth()
			sig := fmt.Sprintf("r%d", round)
			if r.Bool() {
				sig = fmt.Sprintf("s%d", set)
			}
			add(fmt.Sprintf("v%d", a), vote(pickDesc()), sig)
		case 10: // valid signature over a wrong block number
			if r.Chance(1, 3) {
				b := r.Intn(size)
				add(fmt.Sprintf("v%d", restAuth()), fmt.Sprintf("b%d:%d", b, c18Depth(parents, b)+1+r.Intn(2)), "ok")
			} else {
				add(fmt.Sprintf("v%d", restAuth()), vote(pickDesc()), "ok")
			}
		default:
			add(fmt.Sprintf("v%d", anyAuth()), vote(r.Intn(size+1)), "ok")
		}
	}
	for i := len(es) - 1; i > 0; i-- {
		j := r.Intn(i + 1)
		es[i], es[j] = es[j], es[i]
	}
	return fmt.Sprintf("n=%d set=%d tree=%s fin=%d has=%d f=%d R=%d S=%d T=b%d:%d lm=%d|%s",
		n, set, treeStr, fin, has, fault, round, mset, tblk, tnum, lm, strings.Join(es, ";"))
}

func TestVerifC18(t *testing.T) {
	logger.Patch(log.SetLevel(log.Critical)) // the package logs every rejected entry
	vhMain(t, c18Gen, c18Run)
}
