//go:build verif

package state

// Harness of property C26 (BABE epoch data is taken from the block's own fork).
//
// One case = `L|op;op;…` run on the REAL dot/state EpochState + BlockState over an in-memory Pebble
// database; L is the epoch length in slots.  Block ids: 0 = genesis, 1..8 defined by the line.
//   add i p s   define header i (parent p, BABE slot s) unless already defined, then BlockState.AddBlock
//   mk i p s    define header i without importing it ("not fully imported by the blocktree")
//   ann i d     HandleBABEDigest(header i, NextEpochData with id d)
//   cfg i d     HandleBABEDigest(header i, NextConfigDataV1 with id d)
//   dbe e d     SetEpochDataRaw(e, d)          dbc e d   StoreConfigData(e, d)
//   restart     NewEpochState over the same database (maps restored from disk)
//   qe i e      GetEpochDataRaw(e, header i)   qc i e    GetConfigData(e, header i)
//   ep i        GetEpochForBlock(header i)
//   qall E      for every defined header, every epoch 0..E: qe and qc
//   fin i       BlockState.SetFinalisedHash(hash of i, next round, 0) and, on success, what dot/digest does on
//               the finalisation notice: FinalizeBABENextEpochData, FinalizeBABENextConfigData
//   sqe i s c   GetSkippedEpochDataRaw(s, c, header i)     sqc i s c   GetSkippedConfigData(s, c, header i)
//   upd i s c   UpdateSkippedEpochDefinitions(s, c, header i)   (dot/core calls it with the block being imported)
//   dump        both in-memory maps, the persisted definitions and the first-slot key, sorted
// An operation that WRITES BACK a choice made by Go's map order (RetrieveAndUpdate, Finalize…) is not executed
// when the choice is not unique: it prints `amb` (the driver applies the same rule).
// Every query runs under a watchdog of 2 s of process CPU time (observable `timeout`, the rest of the case
// prints `skip`).  When the ranged-over Go map holds
// several entries the answer may legitimately depend on Go's random map order: the query is then
// repeated and the sorted set of distinct answers is printed (`3/7`).

import (
	"encoding/binary"
	"errors"
	"fmt"
	"sort"
	"strconv"
	"strings"
	"sync/atomic"
	"syscall"
	"testing"
	"time"

	"github.com/ChainSafe/gossamer/dot/telemetry"
	"github.com/ChainSafe/gossamer/dot/types"
	"github.com/ChainSafe/gossamer/internal/database"
	"github.com/ChainSafe/gossamer/lib/blocktree"
	"github.com/ChainSafe/gossamer/lib/common"
	"github.com/ChainSafe/gossamer/pkg/scale"
	"github.com/ChainSafe/gossamer/pkg/trie"
)

const (
	c26MaxID   = 8
	c26Repeats = 250
	c26WatchMs = 2000
)

// hung queries seen by this process (patience shrinks after a few) and goroutines that could not be
// stopped (after a few of those the harness stops calling the code)
var c26Timeouts, c26Leaked atomic.Int32

// c26Watch runs f under a watchdog.  A hang is the observable `timeout`; the node is then killed
// (its in-memory block map is emptied, so the spinning loop's next GetHeader fails and it returns) and
// the rest of the case prints `skip`.
func (n *c26Node) watch(f func() string) string {
	// the budget is CPU time of this process, not wall time: on an oversubscribed machine a query that
	// merely waits for a core must not count as a hang, while a spinning loop burns its budget quickly
	budget := time.Duration(c26WatchMs) * time.Millisecond
	if c26Timeouts.Load() >= 3 {
		budget = 150 * time.Millisecond
	}
	ch := make(chan string, 1)
	start, wall := c26CPU(), time.Now()
	go func() { ch <- vhCatch(f) }()
	tick := time.NewTicker(20 * time.Millisecond)
	defer tick.Stop()
wait:
	for {
		select {
		case s := <-ch:
			return s
		case <-tick.C:
			if c26CPU()-start >= budget || time.Since(wall) >= 120*time.Second {
				break wait
			}
		}
	}
	c26Timeouts.Add(1)
	n.dead = true
	m := n.bs.unfinalisedBlocks
	m.mutex.Lock()
	m.mapping = map[common.Hash]*types.Block{}
	m.mutex.Unlock()
	select {
	case <-ch:
	case <-time.After(10 * time.Second):
		c26Leaked.Add(1)
	}
	return "timeout"
}

// c26CPU is the CPU time (user + system) this process has used so far.
func c26CPU() time.Duration {
	var ru syscall.Rusage
	if err := syscall.Getrusage(syscall.RUSAGE_SELF, &ru); err != nil {
		return 0
	}
	return time.Duration(ru.Utime.Nano() + ru.Stime.Nano())
}

type c26Node struct {
	db     database.Database
	cfg    *types.BabeConfiguration
	bs     *BlockState
	es     *EpochState
	hdrs   map[int]*types.Header
	byHash map[common.Hash]int
	dead   bool
	round  uint64
}

func c26NewNode(epochLen uint64) (*c26Node, error) {
	db, err := database.NewPebble("verif-c26", true)
	if err != nil {
		return nil, err
	}
	n := &c26Node{db: db, hdrs: map[int]*types.Header{}, byHash: map[common.Hash]int{}}
	gen := types.NewHeader(common.Hash{}, trie.EmptyHash, trie.EmptyHash, 0, types.NewDigest())
	n.bs, err = NewBlockStateFromGenesis(db, NewTries(), gen, telemetry.NewNoopMailer())
	if err != nil {
		return nil, err
	}
	n.cfg = &types.BabeConfiguration{SlotDuration: 1000, EpochLength: epochLen, C1: 0, C2: 1}
	n.es, err = NewEpochStateFromGenesis(db, n.bs, n.cfg)
	if err != nil {
		return nil, err
	}
	n.hdrs[0] = gen
	n.byHash[gen.Hash()] = 0
	return n, nil
}

func (n *c26Node) define(id, parent int, slot uint64) bool {
	if _, ok := n.hdrs[id]; ok {
		return true
	}
	p, ok := n.hdrs[parent]
	if !ok || id < 1 || id > c26MaxID {
		return false
	}
	pre, err := types.NewBabeSecondaryPlainPreDigest(0, slot).ToPreRuntimeDigest()
	if err != nil {
		panic(err)
	}
	d := types.NewDigest()
	if err := d.Add(*pre); err != nil {
		panic(err)
	}
	h := types.NewHeader(p.Hash(), trie.EmptyHash, common.Hash{byte(id)}, p.Number+1, d)
	n.hdrs[id] = h
	n.byHash[h.Hash()] = id
	return true
}

func c26EpochDigest(d int) types.BabeConsensusDigest {
	dg := types.NewBabeConsensusDigest()
	if err := dg.SetValue(types.NextEpochData{Randomness: [32]byte{byte(d), byte(d >> 8)}}); err != nil {
		panic(err)
	}
	return dg
}

func c26ConfigDigest(d int) types.BabeConsensusDigest {
	vc := types.NewVersionedNextConfigData()
	if err := vc.SetValue(types.NextConfigDataV1{C1: uint64(d), C2: 1, SecondarySlots: 1}); err != nil {
		panic(err)
	}
	dg := types.NewBabeConsensusDigest()
	if err := dg.SetValue(vc); err != nil {
		panic(err)
	}
	return dg
}

func c26ErrClass(err error) string {
	switch {
	case errors.Is(err, ErrEpochNotInMemory):
		return "err-epoch"
	case errors.Is(err, errHashNotInMemory):
		return "err-hash"
	case strings.Contains(err.Error(), "cannot get parent header"):
		return "err-parent"
	}
	return "err"
}

func c26ID(d int) string {
	if d == 0 {
		return "gen"
	}
	return strconv.Itoa(d)
}

func (n *c26Node) epochOnce(e uint64, h *types.Header) string {
	d, err := n.es.GetEpochDataRaw(e, h)
	if err != nil {
		return c26ErrClass(err)
	}
	return c26ID(int(d.Randomness[0]) | int(d.Randomness[1])<<8)
}

func (n *c26Node) configOnce(e uint64, h *types.Header) string {
	d, err := n.es.GetConfigData(e, h)
	if err != nil {
		return c26ErrClass(err)
	}
	return c26ID(int(d.C1))
}

// c26Query runs one lookup under the watchdog and, when a Go map with several entries was ranged over,
// repeats it to collect every answer the random iteration order can produce.
func (n *c26Node) query(config bool, e uint64, h *types.Header) string {
	if n.dead {
		return "skip"
	}
	once := func() string {
		if config {
			return n.configOnce(e, h)
		}
		return n.epochOnce(e, h)
	}
	first := n.watch(once)
	if first == "timeout" || strings.HasPrefix(first, "err") || first == "panic" {
		return first
	}
	// the answer came out of the inner map of one epoch; only a map that holds the answered value and
	// at least one more entry can have been ranged over with several possible outcomes
	ambiguous, big := false, false
	ans, _ := strconv.Atoi(first)
	if config {
		for ep, m := range n.es.nextConfigData {
			if ep > e || len(m) < 2 {
				continue
			}
			for _, v := range m {
				if int(v.C1) == ans {
					ambiguous = true
					big = big || len(m) > 8
				}
			}
		}
	} else if m := n.es.nextEpochData[e]; len(m) >= 2 {
		for _, v := range m {
			if int(v.Randomness[0])|int(v.Randomness[1])<<8 == ans {
				ambiguous = true
				big = big || len(m) > 8
			}
		}
	}
	if !ambiguous {
		return first
	}
	// a Go map of up to 8 entries is one bucket ranged over from a random slot: every entry comes first
	// with probability >= 1/8 (>= 1/16 with two buckets); the repeat count makes a miss astronomically rare
	repeats := c26Repeats
	if big {
		repeats = 3 * c26Repeats
	}
	seen := map[string]bool{first: true}
	for i := 0; i < repeats; i++ {
		seen[vhCatch(once)] = true
	}
	var ids []int
	var rest []string
	for s := range seen {
		if v, err := strconv.Atoi(s); err == nil {
			ids = append(ids, v)
		} else {
			rest = append(rest, s)
		}
	}
	sort.Ints(ids)
	sort.Strings(rest)
	var parts []string
	for _, v := range ids {
		parts = append(parts, strconv.Itoa(v))
	}
	parts = append(parts, rest...)
	return strings.Join(parts, "/")
}

func c26DumpMap[T types.NextEpochData | types.NextConfigDataV1](n *c26Node, m nextEpochMap[T], id func(T) int) string {
	var epochs []uint64
	for e := range m {
		epochs = append(epochs, e)
	}
	sort.Slice(epochs, func(i, j int) bool { return epochs[i] < epochs[j] })
	var out []string
	for _, e := range epochs {
		var ent []string
		for h, v := range m[e] {
			b, ok := n.byHash[h]
			if !ok {
				b = -1
			}
			ent = append(ent, fmt.Sprintf("%d=%d", b, id(v)))
		}
		sort.Strings(ent)
		out = append(out, fmt.Sprintf("%d:%s", e, strings.Join(ent, ",")))
	}
	return strings.Join(out, " ")
}


func c26FinErr(err error) string {
	msg := err.Error()
	switch {
	case strings.Contains(msg, "cannot finalise unknown block"):
		return "err-unknown"
	case errors.Is(err, errSetIDLowerThanHighest):
		return "err-setid"
	case errors.Is(err, blocktree.ErrEndNodeNotFound):
		return "err-range-end"
	case errors.Is(err, blocktree.ErrStartNodeNotFound):
		return "err-range-start"
	case errors.Is(err, blocktree.ErrStartGreaterThanEnd):
		return "err-range-greater"
	case errors.Is(err, blocktree.ErrStartNotAncestorOfEnd):
		return "err-range-notanc"
	case errors.Is(err, blocktree.ErrNilBlockInRange):
		return "err-range-nil"
	case strings.Contains(msg, "failed to find block in unfinalised block map"):
		return "err-missing"
	case strings.Contains(msg, "failed to get finalised header"):
		return "err-header"
	}
	return "err"
}

func c26EpochID(v types.NextEpochData) int   { return int(v.Randomness[0]) | int(v.Randomness[1])<<8 }
func c26ConfigID(v types.NextConfigDataV1) int { return int(v.C1) }

// c26Ambiguous tells whether Retrieve(epoch, header) on the given map can answer differently depending on
// Go's map order (read-only: repeated lookups).
func c26Ambiguous[T types.NextEpochData | types.NextConfigDataV1](n *c26Node, m nextEpochMap[T], id func(T) int,
	epoch uint64, h *types.Header) bool {
	if len(m[epoch]) < 2 {
		return false
	}
	seen := map[int]bool{}
	first := n.watch(func() string {
		v, err := m.Retrieve(n.bs, epoch, h)
		if err != nil {
			return "err"
		}
		seen[id(*v)] = true
		return "ok"
	})
	if first != "ok" {
		return false
	}
	for i := 0; i < 3*c26Repeats; i++ {
		if v, err := m.Retrieve(n.bs, epoch, h); err == nil {
			seen[id(*v)] = true
		}
	}
	return len(seen) > 1
}

func (n *c26Node) dbHas(key []byte) bool {
	ok, err := n.es.db.Has(key)
	return err == nil && ok
}

// c26DumpDB lists the persisted definitions under a key prefix as epoch=id.
func c26DumpDB(n *c26Node, prefix []byte, id func([]byte) int) string {
	it, err := n.es.db.NewPrefixIterator(prefix)
	if err != nil {
		return "err"
	}
	defer it.Release()
	var ent []string
	type kv struct {
		e uint64
		d int
	}
	var all []kv
	for it.First(); it.Valid(); it.Next() {
		k := it.Key()
		if len(k) < 8 {
			continue
		}
		all = append(all, kv{binary.LittleEndian.Uint64(k[len(k)-8:]), id(it.Value())})
	}
	sort.Slice(all, func(i, j int) bool { return all[i].e < all[j].e })
	for _, x := range all {
		ent = append(ent, fmt.Sprintf("%d=%d", x.e, x.d))
	}
	return strings.Join(ent, " ")
}

func (n *c26Node) op(f []string) string {
	if n.dead {
		return "skip"
	}
	arg := func(i int) int {
		if i >= len(f) {
			return -1
		}
		v, err := strconv.Atoi(f[i])
		if err != nil || v < 0 {
			return -1
		}
		return v
	}
	hdr := func(i int) *types.Header { return n.hdrs[arg(i)] }
	switch f[0] {
	case "add", "mk":
		if len(f) != 4 || arg(1) < 0 || arg(2) < 0 || arg(3) < 0 || !n.define(arg(1), arg(2), uint64(arg(3))) {
			return "bad-op"
		}
		if f[0] == "mk" {
			return "ok"
		}
		h := n.hdrs[arg(1)]
		if err := n.bs.AddBlock(&types.Block{Header: *h, Body: types.Body{}}); err != nil {
			return "err"
		}
		return "ok"
	case "ann", "cfg":
		h := hdr(1)
		if len(f) != 3 || h == nil || arg(2) < 1 || arg(2) > 65535 {
			return "bad-op"
		}
		dg := c26EpochDigest(arg(2))
		if f[0] == "cfg" {
			dg = c26ConfigDigest(arg(2))
		}
		if err := n.es.HandleBABEDigest(h, dg); err != nil {
			return "err"
		}
		return "ok"
	case "dbe":
		if len(f) != 3 || arg(1) < 0 || arg(2) < 1 || arg(2) > 65535 {
			return "bad-op"
		}
		raw := &types.EpochDataRaw{Randomness: [32]byte{byte(arg(2)), byte(arg(2) >> 8)}}
		if err := n.es.SetEpochDataRaw(uint64(arg(1)), raw); err != nil {
			return "err"
		}
		return "ok"
	case "dbc":
		if len(f) != 3 || arg(1) < 0 || arg(2) < 1 || arg(2) > 65535 {
			return "bad-op"
		}
		if err := n.es.StoreConfigData(uint64(arg(1)), &types.ConfigData{C1: uint64(arg(2)), C2: 1, SecondarySlots: 1}); err != nil {
			return "err"
		}
		return "ok"
	case "restart":
		es, err := NewEpochState(n.db, n.bs, n.cfg)
		if err != nil {
			return "err"
		}
		n.es = es
		return "ok"
	case "fin":
		if len(f) != 2 || arg(1) < 0 {
			return "bad-op"
		}
		hash := common.Hash{0xEE, byte(arg(1)), byte(arg(1) >> 8)}
		h := hdr(1)
		if h != nil {
			hash = h.Hash()
		}
		n.round++
		if err := n.bs.SetFinalisedHash(hash, n.round, 0); err != nil {
			return c26FinErr(err)
		}
		if h == nil {
			return "ok E=err C=err"
		}
		// the choice Finalize… writes back: an announcing block that is in the header table
		persisted := func(hashes []common.Hash) int {
			k := 0
			for _, x := range hashes {
				if ok, err := n.bs.HasHeaderInDatabase(x); err == nil && ok {
					k++
				}
			}
			return k
		}
		out := "ok"
		next := uint64(0)
		known := false
		if h.Number != 0 {
			if e, err := n.es.GetEpochForBlock(h); err == nil {
				next, known = e+1, true
			}
		}
		var hs []common.Hash
		for x := range n.es.nextEpochData[next] {
			hs = append(hs, x)
		}
		switch {
		case known && !n.dbHas(epochDataKey(next)) && persisted(hs) > 1:
			out += " E=amb"
		case n.es.FinalizeBABENextEpochData(h) != nil:
			out += " E=err"
		default:
			out += " E=ok"
		}
		hs = nil
		for x := range n.es.nextConfigData[next] {
			hs = append(hs, x)
		}
		switch {
		case known && !n.dbHas(configDataKey(next)) && persisted(hs) > 1:
			out += " C=amb"
		case n.es.FinalizeBABENextConfigData(h) != nil:
			out += " C=err"
		default:
			out += " C=ok"
		}
		return out
	case "sqe", "sqc", "upd":
		h := hdr(1)
		if len(f) != 4 || h == nil || arg(2) < 0 || arg(3) < 0 {
			return "bad-op"
		}
		sk, cu := uint64(arg(2)), uint64(arg(3))
		ambE := sk != 0 && !n.dbHas(epochDataKey(sk)) && c26Ambiguous(n, n.es.nextEpochData, c26EpochID, sk, h)
		ambC := sk != 0 && !n.dbHas(configDataKey(sk)) && c26Ambiguous(n, n.es.nextConfigData, c26ConfigID, sk, h)
		if n.dead {
			return "timeout"
		}
		switch f[0] {
		case "sqe":
			if ambE {
				return "amb"
			}
			return n.watch(func() string {
				d, err := n.es.GetSkippedEpochDataRaw(sk, cu, h)
				if err != nil {
					return c26ErrClass(err)
				}
				return c26ID(int(d.Randomness[0]) | int(d.Randomness[1])<<8)
			})
		case "sqc":
			if ambC {
				return "amb"
			}
			// without a definition for the skipped epoch on this fork the call falls back to
			// GetConfigData(skipped-1), a read-only lookup whose answer may depend on the map order
			fallback := false
			if sk != 0 && !n.dbHas(configDataKey(sk)) {
				_, err := n.es.nextConfigData.Retrieve(n.bs, sk, h)
				fallback = errors.Is(err, ErrEpochNotInMemory) || errors.Is(err, errHashNotInMemory)
			}
			got := n.watch(func() string {
				d, err := n.es.GetSkippedConfigData(sk, cu, h)
				if err != nil {
					return c26ErrClass(err)
				}
				return c26ID(int(d.C1))
			})
			if !fallback || n.dead {
				return got
			}
			set := n.query(true, sk-1, h)
			for _, x := range strings.Split(set, "/") {
				if x == got {
					return set
				}
			}
			return got + "!" + set
		}
		if ambE || ambC {
			return "amb"
		}
		return n.watch(func() string {
			if err := n.es.UpdateSkippedEpochDefinitions(sk, cu, h); err != nil {
				return "err"
			}
			return "ok"
		})
	case "qe", "qc":
		h := hdr(1)
		if len(f) != 3 || h == nil || arg(2) < 0 {
			return "bad-op"
		}
		return n.query(f[0] == "qc", uint64(arg(2)), h)
	case "ep":
		h := hdr(1)
		if len(f) != 2 || h == nil {
			return "bad-op"
		}
		return n.watch(func() string {
			e, err := n.es.GetEpochForBlock(h)
			if err != nil {
				return "err"
			}
			return strconv.FormatUint(e, 10)
		})
	case "qall":
		if len(f) != 2 || arg(1) < 0 || arg(1) > 12 {
			return "bad-op"
		}
		var rows []string
		for id := 0; id <= c26MaxID; id++ {
			h, ok := n.hdrs[id]
			if !ok {
				continue
			}
			var cells []string
			for e := 0; e <= arg(1); e++ {
				a := n.query(false, uint64(e), h)
				b := n.query(true, uint64(e), h)
				cells = append(cells, a+","+b)
			}
			rows = append(rows, fmt.Sprintf("%d=%s", id, strings.Join(cells, ".")))
		}
		return strings.Join(rows, " ")
	case "dump":
		fsn, err := n.bs.getFirstNonOriginSlotNumber()
		if err != nil {
			return "err"
		}
		return "E[" + c26DumpMap(n, n.es.nextEpochData, c26EpochID) + "] C[" +
			c26DumpMap(n, n.es.nextConfigData, c26ConfigID) + "] DE[" +
			c26DumpDB(n, epochDataPrefix, func(v []byte) int {
				var d types.EpochDataRaw
				if scale.Unmarshal(v, &d) != nil {
					return -1
				}
				return int(d.Randomness[0]) | int(d.Randomness[1])<<8
			}) + "] DC[" +
			c26DumpDB(n, configDataPrefix, func(v []byte) int {
				var d types.ConfigData
				if scale.Unmarshal(v, &d) != nil {
					return -1
				}
				return int(d.C1)
			}) + fmt.Sprintf("] S=%d", fsn)
	}
	return "bad-op"
}

func c26Run(line string) string {
	if c26Leaked.Load() >= 3 {
		return "timeout-abort"
	}
	head, body, ok := strings.Cut(line, "|")
	epochLen, err := strconv.Atoi(strings.TrimSpace(head))
	if !ok || strings.Contains(body, "|") || err != nil || epochLen < 1 || epochLen > 1000 {
		return "bad-op"
	}
	n, err := c26NewNode(uint64(epochLen))
	if err != nil {
		return "harness-error " + err.Error()
	}
	defer n.db.Close()
	var outs []string
	for _, o := range strings.Split(body, ";") {
		f := strings.Fields(o)
		if len(f) == 0 {
			continue
		}
		outs = append(outs, vhCatch(func() string { return n.op(f) }))
	}
	return strings.Join(outs, ";")
}

// ---------------------------------------------------------------------------------------------
// generator

func c26Gen(r *vhRng) string {
	epochLen := r.Pick(1, 1, 2, 2, 3, 5)
	nBlocks := 2 + r.Intn(c26MaxID-1)
	type blk struct {
		parent, number, slot int
		imported             bool
	}
	blks := map[int]*blk{0: {parent: -1, imported: true}}
	ids := []int{0}
	var ops []string
	nextData := 1
	maxEpoch := 1
	fresh := func() int { nextData++; return nextData - 1 }
	chainy := r.Intn(3) // 0: bushy, 1: mixed, 2: long chains
	finalising := r.Chance(3, 5)
	skipping := r.Chance(2, 5)
	last := 0
	if r.Chance(1, 10) {
		ops = append(ops, fmt.Sprintf("dbc %d %d", 1+r.Intn(3), 900+r.Intn(9)))
	}
	for id := 1; id <= nBlocks; id++ {
		var p int
		switch {
		case chainy == 2 && r.Chance(3, 4), chainy == 1 && r.Chance(1, 2):
			p = last
		default:
			p = ids[r.Intn(len(ids))]
		}
		pb := blks[p]
		slot := pb.slot + 1 + r.Intn(3)
		if p == 0 {
			slot = 1 + r.Intn(4)
		}
		if r.Chance(1, 40) && pb.slot > 0 {
			slot = r.Intn(pb.slot + 1) // not increasing: uint64 wrap in GetEpochForBlock
		}
		b := &blk{parent: p, number: pb.number + 1, slot: slot}
		kind := "add"
		if r.Chance(1, 9) {
			kind = "mk"
		} else {
			b.imported = true
		}
		blks[id] = b
		ids = append(ids, id)
		last = id
		ops = append(ops, fmt.Sprintf("%s %d %d %d", kind, id, p, slot))
		if e := slot/epochLen + 2; e > maxEpoch && e <= 7 {
			maxEpoch = e
		}
		// announcements, mostly on the new block, sometimes on an older one (several on one chain)
		for k := 0; k < 2; k++ {
			if r.Chance(2, 5) {
				tgt := id
				if r.Chance(1, 5) {
					tgt = ids[r.Intn(len(ids))]
				}
				op := "ann"
				if r.Chance(2, 5) {
					op = "cfg"
				}
				ops = append(ops, fmt.Sprintf("%s %d %d", op, tgt, fresh()))
			}
		}
		if r.Chance(1, 12) {
			op := "dbe"
			if r.Bool() {
				op = "dbc"
			}
			ops = append(ops, fmt.Sprintf("%s %d %d", op, r.Intn(maxEpoch+1), 900+r.Intn(9)))
		}
		if r.Chance(1, 25) {
			ops = append(ops, "restart")
		}
		if r.Chance(1, 8) {
			switch r.Intn(3) {
			case 0:
				ops = append(ops, fmt.Sprintf("qall %d", r.Intn(maxEpoch+1)))
			case 1:
				ops = append(ops, fmt.Sprintf("ep %d", ids[r.Intn(len(ids))]))
			default:
				q := "qe"
				if r.Bool() {
					q = "qc"
				}
				ops = append(ops, fmt.Sprintf("%s %d %d", q, ids[r.Intn(len(ids))], r.Intn(maxEpoch+2)))
			}
		}
		if r.Chance(1, 30) { // re-import
			ops = append(ops, fmt.Sprintf("add %d %d %d", id, p, slot))
		}
		// finalisation: mostly an imported block on the newest chain (the rest is pruned), sometimes anything
		if finalising && r.Chance(1, 4) {
			tgt := last
			for k := r.Intn(3); k > 0 && blks[tgt].parent > 0; k-- {
				tgt = blks[tgt].parent
			}
			switch r.Intn(10) {
			case 0:
				tgt = ids[r.Intn(len(ids))]
			case 1:
				tgt = 50 + r.Intn(3)
			}
			ops = append(ops, fmt.Sprintf("fin %d", tgt))
			switch r.Intn(4) {
			case 0:
				ops = append(ops, fmt.Sprintf("qall %d", maxEpoch))
			case 1:
				ops = append(ops, "dump")
			case 2:
				ops = append(ops, "restart")
			}
		}
		// skipped epochs: asked with the newest header (imported or not yet) or any other
		if skipping && r.Chance(1, 4) {
			tgt := id
			if r.Chance(1, 4) {
				tgt = ids[r.Intn(len(ids))]
			}
			sk := r.Intn(maxEpoch + 1)
			cu := sk + r.Intn(3)
			if r.Chance(1, 10) && sk > 0 {
				cu = sk - 1
			}
			ops = append(ops, fmt.Sprintf("%s %d %d %d", []string{"upd", "upd", "sqe", "sqc"}[r.Intn(4)], tgt, sk, cu))
			if cu+1 > maxEpoch && cu+1 <= 9 {
				maxEpoch = cu + 1
			}
		}
	}
	if r.Chance(1, 6) {
		ops = append(ops, "restart")
	}
	for _, id := range ids {
		if r.Chance(1, 3) {
			ops = append(ops, fmt.Sprintf("ep %d", id))
		}
	}
	ops = append(ops, fmt.Sprintf("qall %d", maxEpoch), "dump")
	return fmt.Sprintf("%d|%s", epochLen, strings.Join(ops, ";"))
}

func TestVerifC26(t *testing.T) { vhMain(t, c26Gen, c26Run) }
