//go:build verif

package scale

// Two packages that share the package NAME `types` declare same-named structs with different
// layouts; fieldScaleIndices caches the field order per type in a process-global cache.
//
//   xpkg <order> <Name> <descA> <valA> <descB> <valB>
//        order: a permutation of "abc": the order in which the three types are used in this case
//               (a = zzverifa/types.<Name>, b = zzverifb/types.<Name>, c = an anonymous struct of a's shape)
//        -> a=<Marshal hex>|<Unmarshal of it: ok:<canonical re-encoding> / err / panic> b=… c=…
//   The field order of a type is a function of the type alone: nothing may depend on which type was
//   used first in the process.

import (
	"fmt"
	"reflect"
	"strings"

	ta "github.com/ChainSafe/gossamer/pkg/scale/zzverifa/types"
	tb "github.com/ChainSafe/gossamer/pkg/scale/zzverifb/types"
)

var c11XpkgTypes = map[string][2]reflect.Type{
	"Header": {reflect.TypeOf(ta.Header{}), reflect.TypeOf(tb.Header{})},
	"Pair":   {reflect.TypeOf(ta.Pair{}), reflect.TypeOf(tb.Pair{})},
}

var c11XpkgDescs = map[string][2]string{
	"Header": {"st(u32@2,bool@1)", "st(u32,bool,u16)"},
	"Pair":   {"st(u8,u16,u8)", "st(u8@1,u16@0)"},
}

// c11XpkgOne marshals the value v of descriptor t as the Go type rt and decodes the bytes back.
func c11XpkgOne(t *c11Ty, rt reflect.Type, v reflect.Value) (out string) {
	defer func() {
		if r := recover(); r != nil {
			out = "panic"
		}
	}()
	x := reflect.New(rt).Elem()
	for i := 0; i < v.NumField(); i++ {
		x.Field(i).Set(v.Field(i))
	}
	enc, err := Marshal(x.Interface())
	if err != nil {
		return "merr"
	}
	dst := reflect.New(rt)
	if err := Unmarshal(enc, dst.Interface()); err != nil {
		return vhHex(enc) + "|err"
	}
	return vhHex(enc) + "|ok:" + vhHex(c11RefEncode(t, dst.Elem()))
}

func c11XpkgRun(f []string) string {
	if len(f) != 7 {
		return "bad-op"
	}
	order, name := f[1], f[2]
	rts, ok := c11XpkgTypes[name]
	if !ok || f[3] != c11XpkgDescs[name][0] || f[5] != c11XpkgDescs[name][1] {
		return "bad-op"
	}
	tA, tB := c11ParseTy(f[3]), c11ParseTy(f[5])
	vA, vB := c11BuildValue(tA, f[4]), c11BuildValue(tB, f[6])
	res := map[byte]string{}
	for i := 0; i < len(order); i++ {
		switch order[i] {
		case 'a':
			res['a'] = c11XpkgOne(tA, rts[0], vA)
		case 'b':
			res['b'] = c11XpkgOne(tB, rts[1], vB)
		case 'c':
			res['c'] = c11XpkgOne(tA, tA.goType(), vA)
		}
	}
	return fmt.Sprintf("a=%s b=%s c=%s", res['a'], res['b'], res['c'])
}

func c11XpkgGen(r *vhRng) string {
	name := []string{"Header", "Pair"}[r.Intn(2)]
	order := []string{"abc", "acb", "bac", "bca", "cab", "cba"}[r.Intn(6)]
	d := c11XpkgDescs[name]
	tA, tB := c11ParseTy(d[0]), c11ParseTy(d[1])
	return strings.Join([]string{"xpkg", order, name, d[0], c11GenVal(r, tA), d[1], c11GenVal(r, tB)}, " ")
}
