//go:build verif

package scale

// Shared machinery of the C11 / C12 harnesses: a small type language, Go types built from it
// (reflect + a few declared types), values, parsers, printers and boundary-concentrated generators.
//
// type syntax (no blanks):
//   u8 u16 u32 u64 u128 i8 i16 i32 i64 cu big bool bytes str        primitives (cu = Go uint)
//   u8' u16' u32' u64' i8' i16' i32' i64' cu' bool' str'              declared named primitives
//   unit | opt(T) | res(T,T) | arrN(T) | seq(T)
//   st(F,F,...)   F = T | T@k (scale:"k") | T@- (scale:"-" / unexported)   Go declaration order
//   st#1(...)                                                          the declared struct c11S1
//   en(k:T,...)                                                        data-driven VDT (needs a pre-populated destination)
//   en#A(...) en#B(...)                                                declared VDTs c11EnumA / c11EnumB
// value syntax (driven by the type):
//   integers decimal | t f | x<hex> | u | N  S<v> | O<v>  E<v> | [v,v] | (v,v) | V<k>:<v>

import (
	"bytes"
	"encoding/binary"
	"fmt"
	"io"
	"math/big"
	"reflect"
	"runtime"
	"sort"
	"strconv"
	"strings"
	"testing/iotest"
)

type c11Ty struct {
	kind   string // prim name, "unit", "opt", "res", "arr", "seq", "st", "en"
	named  bool   // declared named primitive (')
	n      int    // array length
	sub    []*c11Ty
	tags   []string // st: "" | "-" | decimal
	idx    []uint   // en: variant indices
	marker string   // st#1, en#A, en#B
}

func (t *c11Ty) String() string {
	switch t.kind {
	case "unit":
		return "unit"
	case "opt", "seq":
		return t.kind + "(" + t.sub[0].String() + ")"
	case "res":
		return "res(" + t.sub[0].String() + "," + t.sub[1].String() + ")"
	case "arr":
		return fmt.Sprintf("arr%d(%s)", t.n, t.sub[0])
	case "map":
		return "map(" + t.sub[0].String() + "," + t.sub[1].String() + ")"
	case "st":
		var fs []string
		for i, s := range t.sub {
			f := s.String()
			if t.tags[i] != "" {
				f += "@" + t.tags[i]
			}
			fs = append(fs, f)
		}
		m := ""
		if t.marker != "" {
			m = "#" + t.marker
		}
		return "st" + m + "(" + strings.Join(fs, ",") + ")"
	case "en":
		var fs []string
		for i, s := range t.sub {
			fs = append(fs, fmt.Sprintf("%d:%s", t.idx[i], s))
		}
		m := ""
		if t.marker != "" {
			m = "#" + t.marker
		}
		return "en" + m + "(" + strings.Join(fs, ",") + ")"
	}
	if t.named {
		return t.kind + "'"
	}
	return t.kind
}

// ---------------------------------------------------------------- parser (types)

type c11Parser struct {
	s string
	i int
}

func (p *c11Parser) peek() byte {
	if p.i < len(p.s) {
		return p.s[p.i]
	}
	return 0
}
func (p *c11Parser) eat(c byte) {
	if p.peek() != c {
		panic(fmt.Sprintf("c11 parse: expected %q at %d in %q", c, p.i, p.s))
	}
	p.i++
}
func (p *c11Parser) ident() string {
	j := p.i
	for p.i < len(p.s) && (p.s[p.i] >= 'a' && p.s[p.i] <= 'z' || p.s[p.i] >= '0' && p.s[p.i] <= '9') {
		p.i++
	}
	return p.s[j:p.i]
}
func (p *c11Parser) mark() string {
	j := p.i
	for p.i < len(p.s) && (p.s[p.i] >= 'A' && p.s[p.i] <= 'Z' || p.s[p.i] >= '0' && p.s[p.i] <= '9') {
		p.i++
	}
	return p.s[j:p.i]
}
func (p *c11Parser) number() string {
	j := p.i
	if p.peek() == '-' {
		p.i++
	}
	for p.i < len(p.s) && p.s[p.i] >= '0' && p.s[p.i] <= '9' {
		p.i++
	}
	return p.s[j:p.i]
}

var c11Prims = map[string]bool{"u8": true, "u16": true, "u32": true, "u64": true, "u128": true, "i8": true,
	"i16": true, "i32": true, "i64": true, "cu": true, "big": true, "bool": true, "bytes": true, "str": true}

func (p *c11Parser) ty() *c11Ty {
	id := p.ident()
	switch {
	case c11Prims[id]:
		t := &c11Ty{kind: id}
		if p.peek() == '\'' {
			p.i++
			t.named = true
		}
		return t
	case id == "unit":
		return &c11Ty{kind: "unit"}
	case id == "opt" || id == "seq":
		p.eat('(')
		s := p.ty()
		p.eat(')')
		return &c11Ty{kind: id, sub: []*c11Ty{s}}
	case id == "res" || id == "map":
		p.eat('(')
		a := p.ty()
		p.eat(',')
		b := p.ty()
		p.eat(')')
		return &c11Ty{kind: id, sub: []*c11Ty{a, b}}
	case strings.HasPrefix(id, "arr"):
		n, err := strconv.Atoi(id[3:])
		if err != nil {
			panic("c11 parse: bad array " + id)
		}
		p.eat('(')
		s := p.ty()
		p.eat(')')
		return &c11Ty{kind: "arr", n: n, sub: []*c11Ty{s}}
	case id == "st":
		t := &c11Ty{kind: "st"}
		if p.peek() == '#' {
			p.i++
			t.marker = p.mark()
		}
		p.eat('(')
		for p.peek() != ')' {
			t.sub = append(t.sub, p.ty())
			tag := ""
			if p.peek() == '@' {
				p.i++
				if p.peek() == '-' && !(p.i+1 < len(p.s) && p.s[p.i+1] >= '0' && p.s[p.i+1] <= '9') {
					p.i++
					tag = "-"
				} else {
					tag = p.number()
				}
			}
			t.tags = append(t.tags, tag)
			if p.peek() == ',' {
				p.i++
			}
		}
		p.eat(')')
		return t
	case id == "en":
		t := &c11Ty{kind: "en"}
		if p.peek() == '#' {
			p.i++
			t.marker = p.mark()
		}
		p.eat('(')
		for p.peek() != ')' {
			k, _ := strconv.Atoi(p.number())
			p.eat(':')
			t.idx = append(t.idx, uint(k))
			t.sub = append(t.sub, p.ty())
			if p.peek() == ',' {
				p.i++
			}
		}
		p.eat(')')
		return t
	}
	panic("c11 parse: unknown type " + id + " in " + p.s)
}

func c11ParseTy(s string) *c11Ty {
	p := &c11Parser{s: s}
	t := p.ty()
	if p.i != len(s) {
		panic("c11 parse: trailing input in type " + s)
	}
	return t
}

// ---------------------------------------------------------------- declared Go types

type c11U8 uint8
type c11U16 uint16
type c11U32 uint32
type c11U64 uint64
type c11I8 int8
type c11I16 int16
type c11I32 int32
type c11I64 int64
type c11Uint uint
type c11Bool bool
type c11Str string

// st#1(u32@2,u8@-,bytes@1,bool): tags out of order, an unexported (hence skipped) field, cached by name
type c11S1 struct {
	A uint32 `scale:"2"`
	b uint8  //nolint:unused
	C []byte `scale:"1"`
	D bool
}

const c11S1Desc = "st#1(u32@2,u8@-,bytes@1,bool)"

// en#A(0:u8',1:st#1(...),4:cu,7:bytes)
type c11EnumA struct{ inner any }

const c11EnumADesc = "en#A(0:u8',1:" + c11S1Desc + ",4:cu,7:bytes)"

func (e *c11EnumA) SetValue(v any) error {
	switch v.(type) {
	case c11U8, c11S1, uint, []byte:
		e.inner = v
		return nil
	}
	return ErrUnsupportedVaryingDataTypeValue
}
func (e c11EnumA) IndexValue() (uint, any, error) {
	switch e.inner.(type) {
	case c11U8:
		return 0, e.inner, nil
	case c11S1:
		return 1, e.inner, nil
	case uint:
		return 4, e.inner, nil
	case []byte:
		return 7, e.inner, nil
	}
	return 0, nil, ErrVaryingDataTypeNotSet
}
func (e c11EnumA) Value() (any, error) { _, v, err := e.IndexValue(); return v, err }
func (e c11EnumA) ValueAt(i uint) (any, error) {
	switch i {
	case 0:
		return c11U8(0), nil
	case 1:
		return c11S1{}, nil
	case 4:
		return uint(0), nil
	case 7:
		return []byte{}, nil
	}
	return nil, ErrUnknownVaryingDataTypeValue
}

// en#B(1:unit,2:opt(u16),255:en#A(...)): empty variant, option variant, nested VDT, index 255
type c11EnumB struct{ inner any }

const c11EnumBDesc = "en#B(1:unit,2:opt(u16),255:" + c11EnumADesc + ")"

func (e *c11EnumB) SetValue(v any) error {
	switch v.(type) {
	case struct{}, *uint16, c11EnumA:
		e.inner = v
		return nil
	}
	return ErrUnsupportedVaryingDataTypeValue
}
func (e c11EnumB) IndexValue() (uint, any, error) {
	switch e.inner.(type) {
	case struct{}:
		return 1, e.inner, nil
	case *uint16:
		return 2, e.inner, nil
	case c11EnumA:
		return 255, e.inner, nil
	}
	return 0, nil, ErrVaryingDataTypeNotSet
}
func (e c11EnumB) Value() (any, error) { _, v, err := e.IndexValue(); return v, err }
func (e c11EnumB) ValueAt(i uint) (any, error) {
	switch i {
	case 1:
		return struct{}{}, nil
	case 2:
		return (*uint16)(nil), nil
	case 255:
		return c11EnumA{}, nil
	}
	return nil, ErrUnknownVaryingDataTypeValue
}

// c11VDT is a varying data type whose variant table is data: the destination must carry the table
// (top level, struct fields, Result arms, variants of another c11VDT).
type c11VDT struct {
	idx   []uint
	zero  []any
	inner any
	cur   int
}

func (v *c11VDT) SetValue(value any) error {
	for k, z := range v.zero {
		if reflect.TypeOf(z) == reflect.TypeOf(value) {
			v.inner, v.cur = value, k
			return nil
		}
	}
	return ErrUnsupportedVaryingDataTypeValue
}
func (v c11VDT) IndexValue() (uint, any, error) {
	if v.inner == nil {
		return 0, nil, ErrVaryingDataTypeNotSet
	}
	return v.idx[v.cur], v.inner, nil
}
func (v c11VDT) Value() (any, error) { _, x, err := v.IndexValue(); return x, err }
func (v c11VDT) ValueAt(i uint) (any, error) {
	for k, j := range v.idx {
		if j == i {
			return v.zero[k], nil
		}
	}
	return nil, ErrUnknownVaryingDataTypeValue
}

var c11PrimTypes = map[string]reflect.Type{
	"u8": reflect.TypeOf(uint8(0)), "u16": reflect.TypeOf(uint16(0)), "u32": reflect.TypeOf(uint32(0)),
	"u64": reflect.TypeOf(uint64(0)), "i8": reflect.TypeOf(int8(0)), "i16": reflect.TypeOf(int16(0)),
	"i32": reflect.TypeOf(int32(0)), "i64": reflect.TypeOf(int64(0)), "cu": reflect.TypeOf(uint(0)),
	"bool": reflect.TypeOf(false), "str": reflect.TypeOf(""), "bytes": reflect.TypeOf([]byte(nil)),
	"big": reflect.TypeOf((*big.Int)(nil)), "u128": reflect.TypeOf((*Uint128)(nil)),
}
var c11NamedTypes = map[string]reflect.Type{
	"u8": reflect.TypeOf(c11U8(0)), "u16": reflect.TypeOf(c11U16(0)), "u32": reflect.TypeOf(c11U32(0)),
	"u64": reflect.TypeOf(c11U64(0)), "i8": reflect.TypeOf(c11I8(0)), "i16": reflect.TypeOf(c11I16(0)),
	"i32": reflect.TypeOf(c11I32(0)), "i64": reflect.TypeOf(c11I64(0)), "cu": reflect.TypeOf(c11Uint(0)),
	"bool": reflect.TypeOf(c11Bool(false)), "str": reflect.TypeOf(c11Str("")),
}

// goType returns the Go type denoted by t.
func (t *c11Ty) goType() reflect.Type {
	switch t.kind {
	case "unit":
		return reflect.TypeOf(struct{}{})
	case "opt":
		return reflect.PointerTo(t.sub[0].goType())
	case "res":
		return reflect.TypeOf(Result{})
	case "arr":
		return reflect.ArrayOf(t.n, t.sub[0].goType())
	case "map":
		return reflect.MapOf(t.sub[0].goType(), t.sub[1].goType())
	case "seq":
		return reflect.SliceOf(t.sub[0].goType())
	case "st":
		if t.marker == "1" {
			if t.String() != c11S1Desc {
				panic("c11: st#1 descriptor mismatch")
			}
			return reflect.TypeOf(c11S1{})
		}
		if t.marker == "2" {
			if t.String() != c11W16Desc {
				panic("c11: st#2 descriptor mismatch")
			}
			return reflect.TypeOf(c11W16{})
		}
		var fs []reflect.StructField
		for i, s := range t.sub {
			f := reflect.StructField{Name: fmt.Sprintf("F%d", i), Type: s.goType()}
			if t.tags[i] != "" {
				f.Tag = reflect.StructTag(fmt.Sprintf(`scale:"%s"`, t.tags[i]))
			}
			fs = append(fs, f)
		}
		return reflect.StructOf(fs)
	case "en":
		switch t.marker {
		case "A":
			if t.String() != c11EnumADesc {
				panic("c11: en#A descriptor mismatch")
			}
			return reflect.TypeOf(c11EnumA{})
		case "B":
			if t.String() != c11EnumBDesc {
				panic("c11: en#B descriptor mismatch")
			}
			return reflect.TypeOf(c11EnumB{})
		}
		return reflect.TypeOf(c11VDT{})
	}
	if t.named {
		if rt, ok := c11NamedTypes[t.kind]; ok {
			return rt
		}
		panic("c11: no named type for " + t.kind)
	}
	return c11PrimTypes[t.kind]
}

// zero returns the value a destination of type t must hold before decoding: zero, except that
// Result and c11VDT carry their type tables.
func (t *c11Ty) zero() reflect.Value {
	v := reflect.New(t.goType()).Elem()
	switch t.kind {
	case "res":
		v.Set(reflect.ValueOf(NewResult(t.sub[0].zeroIface(), t.sub[1].zeroIface())))
	case "en":
		if t.marker == "" {
			d := c11VDT{cur: -1}
			for i, s := range t.sub {
				d.idx = append(d.idx, t.idx[i])
				d.zero = append(d.zero, s.zero().Interface())
			}
			v.Set(reflect.ValueOf(d))
		}
	case "st":
		if t.marker == "" {
			for i, s := range t.sub {
				v.Field(i).Set(s.zero())
			}
		}
	}
	return v
}

// zeroIface is zero() as an interface; the empty tuple is nil for NewResult.
func (t *c11Ty) zeroIface() any {
	if t.kind == "unit" {
		return nil
	}
	return t.zero().Interface()
}

// ---------------------------------------------------------------- values

// build parses a value of type t from p and returns it as a Go value.
func (t *c11Ty) build(p *c11Parser) reflect.Value {
	v := reflect.New(t.goType()).Elem()
	switch t.kind {
	case "unit":
		p.eat('u')
	case "opt":
		if p.peek() == 'N' {
			p.i++
		} else {
			p.eat('S')
			x := t.sub[0].build(p)
			ptr := reflect.New(x.Type())
			ptr.Elem().Set(x)
			v.Set(ptr)
		}
	case "res":
		r := NewResult(t.sub[0].zeroIface(), t.sub[1].zeroIface())
		mode, k := OK, 0
		if p.peek() == 'E' {
			mode, k = Err, 1
		} else if p.peek() != 'O' {
			panic("c11: bad result value")
		}
		p.i++
		x := t.sub[k].build(p)
		var in any
		if t.sub[k].kind != "unit" {
			in = x.Interface()
		}
		if err := r.Set(mode, in); err != nil {
			panic("c11: result set: " + err.Error())
		}
		v.Set(reflect.ValueOf(r))
	case "map":
		m := reflect.MakeMap(v.Type())
		p.eat('{')
		for p.peek() != '}' {
			k := t.sub[0].build(p)
			p.eat(':')
			x := t.sub[1].build(p)
			m.SetMapIndex(k, x)
			if p.peek() == ',' {
				p.i++
			}
		}
		p.eat('}')
		v.Set(m)
	case "arr", "seq":
		p.eat('[')
		var xs []reflect.Value
		for p.peek() != ']' {
			xs = append(xs, t.sub[0].build(p))
			if p.peek() == ',' {
				p.i++
			}
		}
		p.eat(']')
		if t.kind == "arr" {
			if len(xs) != t.n {
				panic("c11: array length")
			}
			for i, x := range xs {
				v.Index(i).Set(x)
			}
		} else {
			s := reflect.MakeSlice(v.Type(), 0, len(xs))
			s = reflect.Append(s, xs...)
			v.Set(s)
		}
	case "st":
		p.eat('(')
		for i, s := range t.sub {
			x := s.build(p)
			if v.Field(i).CanSet() {
				v.Field(i).Set(x)
			}
			if p.peek() == ',' {
				p.i++
			}
			_ = i
		}
		p.eat(')')
	case "en":
		p.eat('V')
		k, _ := strconv.Atoi(p.number())
		p.eat(':')
		pos := -1
		for i, j := range t.idx {
			if int(j) == k {
				pos = i
				break
			}
		}
		if pos < 0 {
			panic("c11: unknown variant in value")
		}
		x := t.sub[pos].build(p)
		if t.marker == "" {
			d := t.zero().Interface().(c11VDT)
			d.inner, d.cur = x.Interface(), pos
			v.Set(reflect.ValueOf(d))
		} else {
			if err := v.Addr().Interface().(VaryingDataType).SetValue(x.Interface()); err != nil {
				panic("c11: setvalue: " + err.Error())
			}
		}
	case "bool":
		b := p.peek() == 't'
		p.i++
		v.SetBool(b)
	case "bytes", "str":
		p.eat('x')
		j := p.i
		for p.i < len(p.s) && (p.s[p.i] >= '0' && p.s[p.i] <= '9' || p.s[p.i] >= 'a' && p.s[p.i] <= 'f') {
			p.i++
		}
		b := vhUnhex(p.s[j:p.i])
		if t.kind == "str" {
			v.SetString(string(b))
		} else {
			v.SetBytes(b)
		}
	case "big", "u128":
		n, ok := new(big.Int).SetString(p.number(), 10)
		if !ok {
			panic("c11: bad integer")
		}
		if t.kind == "big" {
			v.Set(reflect.ValueOf(n))
		} else {
			u, err := NewUint128(n)
			if err != nil {
				panic("c11: u128")
			}
			v.Set(reflect.ValueOf(u))
		}
	case "i8", "i16", "i32", "i64":
		n, err := strconv.ParseInt(p.number(), 10, 64)
		if err != nil {
			panic("c11: bad int")
		}
		v.SetInt(n)
	default: // u8 u16 u32 u64 cu
		n, err := strconv.ParseUint(p.number(), 10, 64)
		if err != nil {
			panic("c11: bad uint")
		}
		v.SetUint(n)
	}
	return v
}

func c11BuildValue(t *c11Ty, s string) reflect.Value {
	p := &c11Parser{s: s}
	v := t.build(p)
	if p.i != len(s) {
		panic("c11: trailing input in value " + s)
	}
	return v
}

// ---------------------------------------------------------------- probing reader

// c11Reader wraps the bytes.Buffer that scale.Unmarshal would use and records the largest
// single Read request: the size of the largest buffer the decoder allocated for reading.
type c11Reader struct {
	buf    *bytes.Buffer
	maxReq int
}

func (r *c11Reader) Read(p []byte) (int, error) {
	if len(p) > r.maxReq {
		r.maxReq = len(p)
	}
	return r.buf.Read(p)
}

// ---------------------------------------------------------------- generators

var c11Bounds = []uint64{0, 1, 2, 62, 63, 64, 65, 255, 256, 16382, 16383, 16384, 16385, 65535, 65536,
	1<<30 - 2, 1<<30 - 1, 1 << 30, 1<<30 + 1, 1<<32 - 1, 1 << 32, 1<<32 + 1, 1<<40 - 1, 1 << 40, 1<<40 + 1,
	1<<48 - 1, 1 << 48, 1<<48 + 1, 1<<56 - 1, 1 << 56, 1<<56 + 1, 1<<63 - 1, 1 << 63, 1<<64 - 2, 1<<64 - 1}

// c11Uint64 draws a 64-bit value concentrated at the compact-mode and byte-length boundaries.
func c11Uint64(r *vhRng) uint64 {
	switch r.Intn(4) {
	case 0:
		return c11Bounds[r.Intn(len(c11Bounds))]
	case 1: // random value of a random bit length
		k := 1 + r.Intn(64)
		v := r.U64()
		if k < 64 {
			v &= 1<<uint(k) - 1
			v |= 1 << uint(k-1)
		}
		return v
	case 2: // 2^(8k) + {-1,0,1}
		k := uint(r.Intn(8))
		return uint64(1)<<(8*k) + uint64(r.Intn(3)) - 1
	}
	return r.U64()
}

// c11Big draws a non-negative big integer below 2^536, concentrated at byte-length boundaries.
func c11Big(r *vhRng) *big.Int {
	switch r.Intn(5) {
	case 0, 1:
		return new(big.Int).SetUint64(c11Uint64(r))
	case 2: // 2^(8k) + {-1,0,1} for k up to 67
		k := uint(1 + r.Intn(67))
		n := new(big.Int).Lsh(big.NewInt(1), 8*k)
		n.Add(n, big.NewInt(int64(r.Intn(3)-1)))
		if n.BitLen() > 536 {
			n.Sub(n, big.NewInt(2))
		}
		return n
	case 3: // random k-byte number with non-zero top byte
		k := 1 + r.Intn(67)
		b := r.Bytes(k)
		if b[0] == 0 {
			b[0] = 1
		}
		return new(big.Int).SetBytes(b)
	}
	n := new(big.Int).Lsh(big.NewInt(1), 536)
	return n.Sub(n, big.NewInt(int64(1+r.Intn(2))))
}

func c11Len(r *vhRng) int {
	switch r.Intn(40) {
	case 0:
		return r.Pick(63, 64, 65)
	case 1:
		return r.Pick(16383, 16384, 16385)
	case 2:
		return 66 + r.Intn(200)
	}
	return r.Intn(6)
}

// c11GenTy draws a type; prepop says whether the position can carry type tables (Result, c11VDT).
func c11GenTy(r *vhRng, depth int, prepop bool) *c11Ty {
	if r.Chance(1, 14) { // a fixed byte array at any depth
		return &c11Ty{kind: "arr", n: r.Pick(1, 4, 32, 64), sub: []*c11Ty{{kind: "u8"}}}
	}
	if depth <= 0 || r.Chance(2, 5) {
		names := []string{"u8", "u16", "u32", "u64", "u128", "i8", "i16", "i32", "i64", "cu", "cu", "cu", "big", "big",
			"bool", "bytes", "bytes", "str"}
		t := &c11Ty{kind: names[r.Intn(len(names))]}
		if _, ok := c11NamedTypes[t.kind]; ok && r.Chance(1, 5) {
			t.named = true
		}
		return t
	}
	switch r.Intn(12) {
	case 0:
		return &c11Ty{kind: "unit"}
	case 1, 2:
		return &c11Ty{kind: "opt", sub: []*c11Ty{c11GenTy(r, depth-1, false)}}
	case 3:
		if prepop {
			return &c11Ty{kind: "res", sub: []*c11Ty{c11GenTy(r, depth-1, true), c11GenTy(r, depth-1, true)}}
		}
		return c11ParseTy(c11EnumBDesc)
	case 4:
		if r.Chance(1, 2) { // fixed byte arrays: hashes, keys, signatures ([N]byte)
			return &c11Ty{kind: "arr", n: r.Pick(1, 4, 32, 64), sub: []*c11Ty{{kind: "u8"}}}
		}
		return &c11Ty{kind: "arr", n: r.Intn(4), sub: []*c11Ty{c11GenTy(r, depth-1, false)}}
	case 5, 6:
		s := c11GenTy(r, depth-1, false)
		if s.kind == "u8" && !s.named { // []uint8 is `bytes`
			s.named = true
		}
		return &c11Ty{kind: "seq", sub: []*c11Ty{s}}
	case 7, 8, 9:
		if r.Chance(1, 8) {
			return c11ParseTy(c11S1Desc)
		}
		if r.Chance(1, 7) {
			return c11GenWideSt(r)
		}
		n := r.Intn(5)
		t := &c11Ty{kind: "st"}
		perm := []int{}
		for i := 0; i < n; i++ {
			perm = append(perm, i)
		}
		for i := n - 1; i > 0; i-- {
			j := r.Intn(i + 1)
			perm[i], perm[j] = perm[j], perm[i]
		}
		tagged := r.Chance(1, 2)
		for i := 0; i < n; i++ {
			t.sub = append(t.sub, c11GenTy(r, depth-1, prepop))
			tag := ""
			if tagged && r.Chance(3, 4) {
				tag = strconv.Itoa(perm[i]*3 - 2) // distinct, possibly negative
			} else if r.Chance(1, 10) {
				tag = "-"
				t.sub[i] = &c11Ty{kind: "u8"}
			}
			t.tags = append(t.tags, tag)
		}
		return t
	case 10:
		return c11ParseTy([]string{c11EnumADesc, c11EnumBDesc}[r.Intn(2)])
	default:
		if !prepop {
			return c11ParseTy(c11EnumADesc)
		}
		t := &c11Ty{kind: "en"}
		n := 1 + r.Intn(4)
		seen := map[string]bool{}
		used := map[uint]bool{}
		for i := 0; i < n; i++ {
			s := c11GenTy(r, depth-1, true)
			key := s.goType().String()
			if seen[key] {
				continue
			}
			seen[key] = true
			k := uint(r.Pick(0, 1, 2, 3, 7, 63, 64, 127, 128, 254, 255))
			if used[k] {
				continue
			}
			used[k] = true
			t.idx = append(t.idx, k)
			t.sub = append(t.sub, s)
		}
		return t
	}
}

// c11GenVal draws a value of type t in the value syntax.
func c11GenVal(r *vhRng, t *c11Ty) string {
	switch t.kind {
	case "unit":
		return "u"
	case "opt":
		if r.Chance(1, 3) {
			return "N"
		}
		return "S" + c11GenVal(r, t.sub[0])
	case "res":
		if r.Bool() {
			return "O" + c11GenVal(r, t.sub[0])
		}
		return "E" + c11GenVal(r, t.sub[1])
	case "arr", "seq":
		n := t.n
		if t.kind == "seq" {
			n = r.Intn(4)
			if r.Chance(1, 30) && len(t.sub[0].sub) == 0 {
				n = r.Pick(63, 64, 65)
			}
		}
		xs := make([]string, n)
		for i := range xs {
			xs[i] = c11GenVal(r, t.sub[0])
		}
		return "[" + strings.Join(xs, ",") + "]"
	case "map":
		n := r.Intn(4)
		xs := make([]string, n)
		for i := range xs {
			xs[i] = c11GenVal(r, t.sub[0]) + ":" + c11GenVal(r, t.sub[1])
		}
		return "{" + strings.Join(xs, ",") + "}"
	case "st":
		xs := make([]string, len(t.sub))
		for i, s := range t.sub {
			switch {
			case t.tags[i] == "-":
				xs[i] = "0"
			case len(t.sub) > 12 && (s.kind == "u8" || s.kind == "u16") && !r.Chance(1, 10):
				xs[i] = strconv.Itoa(i + 1) // distinct, so that a permutation of the fields shows
			default:
				xs[i] = c11GenVal(r, s)
			}
		}
		return "(" + strings.Join(xs, ",") + ")"
	case "en":
		k := r.Intn(len(t.sub))
		return fmt.Sprintf("V%d:%s", t.idx[k], c11GenVal(r, t.sub[k]))
	case "bool":
		if r.Bool() {
			return "t"
		}
		return "f"
	case "bytes", "str":
		n := c11Len(r)
		if n == 0 {
			return "x"
		}
		return "x" + vhHex(r.Bytes(n))
	case "big":
		return c11Big(r).String()
	case "u128":
		switch r.Intn(3) {
		case 0:
			return new(big.Int).SetUint64(c11Uint64(r)).String()
		case 1:
			n := new(big.Int).Lsh(big.NewInt(1), uint(8*(1+r.Intn(16))))
			return n.Sub(n, big.NewInt(1)).String()
		}
		return new(big.Int).SetBytes(r.Bytes(1 + r.Intn(16))).String()
	case "cu", "u64":
		return strconv.FormatUint(c11Uint64(r), 10)
	case "u8":
		return strconv.Itoa(r.Pick(0, 1, 127, 128, 254, 255, r.Intn(256)))
	case "u16":
		return strconv.Itoa(r.Pick(0, 1, 255, 256, 32767, 32768, 65535, r.Intn(65536)))
	case "u32":
		return strconv.FormatUint(uint64(uint32(c11Uint64(r))), 10)
	case "i8":
		return strconv.Itoa(r.Pick(0, 1, -1, 127, -128, r.Intn(256)-128))
	case "i16":
		return strconv.Itoa(r.Pick(0, 1, -1, 255, 256, -256, 32767, -32768, r.Intn(65536)-32768))
	case "i32":
		return strconv.FormatInt(int64(int32(c11Uint64(r))), 10)
	case "i64":
		return strconv.FormatInt(int64(c11Uint64(r)), 10)
	}
	panic("c11: gen value for " + t.kind)
}

// c11HasZeroSize reports whether a sequence of t could loop without consuming input.
func c11ZeroSize(t *c11Ty) bool {
	switch t.kind {
	case "unit":
		return true
	case "arr":
		return t.n == 0 || c11ZeroSize(t.sub[0])
	case "st":
		for i, s := range t.sub {
			if t.tags[i] != "-" && !c11ZeroSize(s) {
				return false
			}
		}
		return true
	}
	return false
}

// c11SeqOfZeroSize reports whether t contains a slice whose elements may encode to nothing
// (Vec<()>, [][0]byte, structs whose fields are all ignored).  Decoding such a slice loops `length`
// times without reading, so a MUTATED length can spin for 2^64 rounds: these types are generated
// where the input is an honest encoding (C11: e, mrt, menc) and not where lengths are damaged (C12:
// hand-picked corpus lines only).
func c11SeqOfZeroSize(t *c11Ty) bool {
	if t.kind == "seq" && c11ZeroSize(t.sub[0]) {
		return true
	}
	for _, s := range t.sub {
		if c11SeqOfZeroSize(s) {
			return true
		}
	}
	return false
}

// fieldOrder is the canonical encoding order of a struct's fields, computed from the descriptor
// alone (NOT with scale.go's fieldScaleIndices, which is under test): the tagged fields by ascending
// tag, then the untagged ones in declaration order; "-" (and unexported) fields are left out.
func (t *c11Ty) fieldOrder() []int {
	type tf struct{ idx, tag int }
	var tagged []tf
	var untagged []int
	for i, tag := range t.tags {
		switch tag {
		case "":
			untagged = append(untagged, i)
		case "-":
		default:
			k, err := strconv.Atoi(tag)
			if err != nil {
				panic("c11: bad tag " + tag)
			}
			tagged = append(tagged, tf{i, k})
		}
	}
	sort.SliceStable(tagged, func(a, b int) bool { return tagged[a].tag < tagged[b].tag })
	var out []int
	for _, x := range tagged {
		out = append(out, x.idx)
	}
	return append(out, untagged...)
}

// c11W16 is a declared (hence cached by name) wide struct: 16 fields, tags interleaved with
// untagged fields, one ignored field.
type c11W16 struct {
	F0  uint8
	F1  uint8 `scale:"3"`
	F2  uint8
	F3  uint16
	F4  uint8 `scale:"1"`
	F5  uint8
	F6  uint8 `scale:"-"`
	F7  uint8
	F8  bool
	F9  uint8 `scale:"2"`
	F10 uint8
	F11 uint16
	F12 uint8
	F13 uint8 `scale:"7"`
	F14 uint8
	F15 uint8
}

const c11W16Desc = "st#2(u8,u8@3,u8,u16,u8@1,u8,u8@-,u8,bool,u8@2,u8,u16,u8,u8@7,u8,u8)"

// c11GenWideSt draws a struct of 13..40 fields (more than 12: where an unstable sort shows): small
// field types, and one tag / several tags / tags interleaved with untagged fields / some ignored.
func c11GenWideSt(r *vhRng) *c11Ty {
	if r.Chance(1, 6) {
		return c11ParseTy(c11W16Desc)
	}
	n := r.Pick(13, 13, 14, 16, 20, 24, 33, 40, 13+r.Intn(28))
	t := &c11Ty{kind: "st"}
	style := r.Intn(4)
	one := r.Intn(n)
	tagv := r.Intn(7) - 3
	for i := 0; i < n; i++ {
		t.sub = append(t.sub, &c11Ty{kind: []string{"u8", "u8", "u8", "u16", "bool", "u8"}[r.Intn(6)]})
		tag := ""
		switch style {
		case 0: // one tag
			if i == one {
				tag = strconv.Itoa(tagv)
			}
		case 1: // several tags, descending values
			if r.Chance(1, 4) {
				tag = strconv.Itoa(100 - i)
			}
		case 2: // interleaved
			if i%2 == 1 {
				tag = strconv.Itoa((i*7)%n - 5)
			}
		default: // mostly tagged, a few untagged
			if !r.Chance(1, 5) {
				tag = strconv.Itoa(n - i)
			}
		}
		if tag == "" && r.Chance(1, 15) {
			tag = "-"
			t.sub[i] = &c11Ty{kind: "u8"}
		}
		t.tags = append(t.tags, tag)
	}
	// tags must be distinct (scale.go's order of equal tags is unspecified)
	seen := map[string]bool{}
	for i, tag := range t.tags {
		if tag != "" && tag != "-" {
			if seen[tag] {
				t.tags[i] = ""
			}
			seen[tag] = true
		}
	}
	return t
}

// c11ZeroElemDescs are element types whose SCALE encoding is empty.
var c11ZeroElemDescs = []string{"unit", "unit", "arr0(u8)", "arr0(u64)", "st()", "st(u8@-)", "st(u8@-,unit)",
	"arr2(unit)", "st(unit,arr0(bool))"}

// c11GenZeroSeqTy draws a type around a slice of zero-width elements: the bare slice, nested slices,
// a struct ending in such a slice, an option / array / result of it.
func c11GenZeroSeqTy(r *vhRng) *c11Ty {
	el := c11ZeroElemDescs[r.Intn(len(c11ZeroElemDescs))]
	sq := "seq(" + el + ")"
	switch r.Intn(9) {
	case 0, 1, 2:
		return c11ParseTy(sq)
	case 3:
		return c11ParseTy("seq(" + sq + ")")
	case 4:
		return c11ParseTy("st(u8," + sq + ")")
	case 5:
		return c11ParseTy("st(" + c11GenTy(r, 1, false).String() + "@1," + sq + "@2,opt(unit)@0)")
	case 6:
		return c11ParseTy("opt(" + sq + ")")
	case 7:
		return c11ParseTy("arr2(" + sq + ")")
	default:
		return c11ParseTy("res(" + sq + ",opt(unit))")
	}
}

// c11GenTopTy draws the type of a case; zeroSeq admits slices of zero-width elements.
func c11GenTopTy(r *vhRng, zeroSeq bool) *c11Ty {
	if zeroSeq && r.Chance(1, 12) {
		return c11GenZeroSeqTy(r)
	}
	for {
		t := c11GenTy(r, 1+r.Intn(3), true)
		if zeroSeq || !c11SeqOfZeroSize(t) {
			return t
		}
	}
}

// c12Compact writes n as a compact integer; when evil it picks a longer (non-canonical) form.
func c12Compact(r *vhRng, n *big.Int, evil bool) []byte {
	le := func(k int) []byte { // k little-endian bytes of n
		b := n.Bytes()
		out := make([]byte, k)
		for i := 0; i < len(b) && i < k; i++ {
			out[i] = b[len(b)-1-i]
		}
		return out
	}
	minMode := 3
	switch {
	case n.BitLen() <= 6:
		minMode = 0
	case n.BitLen() <= 14:
		minMode = 1
	case n.BitLen() <= 30:
		minMode = 2
	}
	mode := minMode
	extra := 0
	if evil {
		if minMode < 3 && r.Chance(2, 3) {
			mode = minMode + 1 + r.Intn(3-minMode)
		} else {
			mode = 3
			extra = 1 + r.Intn(3) // zero bytes on top
		}
	}
	v := new(big.Int).Lsh(n, 2)
	switch mode {
	case 0:
		return []byte{byte(v.Uint64())}
	case 1:
		x := uint16(v.Uint64()) + 1
		return []byte{byte(x), byte(x >> 8)}
	case 2:
		x := uint32(v.Uint64()) + 2
		b := make([]byte, 4)
		binary.LittleEndian.PutUint32(b, x)
		return b
	}
	k := len(n.Bytes())
	if k < 4 {
		k = 4
	}
	k += extra
	if k > 67 {
		k = 67
	}
	return append([]byte{byte((k-4)<<2 | 3)}, le(k)...)
}

var c12HugeLens = []uint64{1 << 16, 1<<16 + 1, 1<<16 + 1025, 1<<16 + 1026, 1 << 17, 1 << 20}

type c12Evil struct {
	r     *vhRng
	p     int   // evil with probability 1/p at each site
	sites []int // offsets (in the output of enc) of the length prefixes of byte strings
}

func (e *c12Evil) evil() bool { return e.r.Chance(1, e.p) }

// length writes a length prefix: honest, non-canonical, inflated (short body) or huge.
func (e *c12Evil) length(n int) []byte {
	if e.evil() {
		switch e.r.Intn(4) {
		case 0:
			return c12Compact(e.r, big.NewInt(int64(n)), true)
		case 1:
			return c12Compact(e.r, big.NewInt(int64(n+1+e.r.Intn(4))), false)
		case 2:
			// (declared lengths are really allocated and cleared: the big ones are kept rare)
			l := c12HugeLens[e.r.Intn(len(c12HugeLens))]
			if e.r.Chance(1, 12) {
				l = 1<<24 + uint64(e.r.Intn(8))
			}
			return c12Compact(e.r, new(big.Int).SetUint64(l), false)
		default:
			// any 64-bit length, but nothing between 1 MiB and 4 GiB (those really get allocated)
			l := c11Uint64(e.r)
			if l > 1<<20 && l <= 1<<32 {
				l = 1<<20 + l%1024
			}
			return c12Compact(e.r, new(big.Int).SetUint64(l), false)
		}
	}
	return c12Compact(e.r, big.NewInt(int64(n)), false)
}

func (e *c12Evil) tag(b byte) byte {
	if e.evil() {
		return byte(e.r.Pick(2, 2, 2, 3, 128, 255, 1-int(b&1), 2+e.r.Intn(254)))
	}
	return b
}

// enc is a reference SCALE encoder over (type, Go value) with deliberate damage at random sites.
func (e *c12Evil) enc(t *c11Ty, v reflect.Value) []byte {
	e.sites = nil
	return e.app(nil, t, v)
}

func (e *c12Evil) app(out []byte, t *c11Ty, v reflect.Value) []byte {
	switch t.kind {
	case "unit":
		return out
	case "opt":
		if v.IsNil() {
			return append(out, e.tag(0))
		}
		return e.app(append(out, e.tag(1)), t.sub[0], v.Elem())
	case "res":
		x := v.Interface().(Result)
		if x.mode == OK {
			return e.app(append(out, e.tag(0)), t.sub[0], reflect.ValueOf(x.ok))
		}
		return e.app(append(out, e.tag(1)), t.sub[1], reflect.ValueOf(x.err))
	case "map": // canonical: ascending keys
		out = append(out, e.length(v.Len())...)
		keys := v.MapKeys()
		sort.Slice(keys, func(i, j int) bool { return c11KeyLess(keys[i], keys[j]) })
		for _, k := range keys {
			out = e.app(out, t.sub[0], k)
			out = e.app(out, t.sub[1], v.MapIndex(k))
		}
		return out
	case "arr", "seq":
		if t.kind == "seq" {
			out = append(out, e.length(v.Len())...)
		}
		for i := 0; i < v.Len(); i++ {
			out = e.app(out, t.sub[0], v.Index(i))
		}
		return out
	case "st":
		for _, i := range t.fieldOrder() {
			out = e.app(out, t.sub[i], v.Field(i))
		}
		return out
	case "en":
		k, val, err := v.Interface().(EncodeVaryingDataType).IndexValue()
		if err != nil {
			panic(err)
		}
		pos := -1
		for i, j := range t.idx {
			if j == k {
				pos = i
			}
		}
		b := byte(k)
		if e.evil() {
			b = byte(e.r.Intn(256))
		}
		return e.app(append(out, b), t.sub[pos], reflect.ValueOf(val))
	case "bool":
		if v.Bool() {
			return append(out, e.tag(1))
		}
		return append(out, e.tag(0))
	case "bytes", "str":
		var b []byte
		if t.kind == "str" {
			b = []byte(v.String())
		} else {
			b = v.Bytes()
		}
		e.sites = append(e.sites, len(out))
		return append(append(out, e.length(len(b))...), b...)
	case "big":
		return append(out, c12Compact(e.r, v.Interface().(*big.Int), e.evil())...)
	case "u128":
		b := v.Interface().(*Uint128).Bytes()
		return append(append(out, b...), make([]byte, 16-len(b))...)
	case "cu":
		return append(out, c12Compact(e.r, new(big.Int).SetUint64(v.Uint()), e.evil())...)
	}
	var w int
	var x uint64
	switch t.kind {
	case "u8", "u16", "u32", "u64":
		x = v.Uint()
	default:
		x = uint64(v.Int())
	}
	switch t.kind {
	case "u8", "i8":
		w = 1
	case "u16", "i16":
		w = 2
	case "u32", "i32":
		w = 4
	default:
		w = 8
	}
	b := make([]byte, 8)
	binary.LittleEndian.PutUint64(b, x)
	return append(out, b[:w]...)
}

// c12Scan walks data the way the decoder would walk it for type t and returns the largest byte-string
// length it sees declared.  It is only a filter of the generators: declared lengths are really
// allocated and cleared by decodeBytes (a second or more per GiB, minutes on a loaded machine), so
// inputs that declare more than 64 MiB are not generated (the corpus has some).  Approximate on purpose.
type c12Scanner struct {
	data []byte
	max  uint64
	ok   bool
}

func (sc *c12Scanner) take(n int) []byte {
	if !sc.ok || len(sc.data) < n {
		sc.ok = false
		return nil
	}
	b := sc.data[:n]
	sc.data = sc.data[n:]
	return b
}

func (sc *c12Scanner) compact() uint64 {
	b := sc.take(1)
	if b == nil {
		return 0
	}
	switch b[0] & 3 {
	case 0:
		return uint64(b[0] >> 2)
	case 1:
		c := sc.take(1)
		if c == nil {
			return 0
		}
		return (uint64(b[0]) | uint64(c[0])<<8) >> 2
	case 2:
		c := sc.take(3)
		if c == nil {
			return 0
		}
		return (uint64(b[0]) | uint64(c[0])<<8 | uint64(c[1])<<16 | uint64(c[2])<<24) >> 2
	}
	n := int(b[0]>>2) + 4
	c := sc.take(n)
	if c == nil {
		return 0
	}
	var v uint64
	for i := 0; i < n; i++ {
		if i < 8 {
			v |= uint64(c[i]) << (8 * uint(i))
		} else if c[i] != 0 {
			v = 1<<64 - 1
		}
	}
	return v
}

func (sc *c12Scanner) walk(t *c11Ty, depth int) {
	if !sc.ok || depth > 64 {
		return
	}
	switch t.kind {
	case "unit":
	case "opt":
		b := sc.take(1)
		if b != nil && b[0] == 1 {
			sc.walk(t.sub[0], depth+1)
		} else if b != nil && b[0] != 0 {
			sc.ok = false
		}
	case "res":
		b := sc.take(1)
		if b != nil && b[0] < 2 {
			sc.walk(t.sub[b[0]], depth+1)
		} else {
			sc.ok = false
		}
	case "arr":
		for i := 0; i < t.n && sc.ok; i++ {
			sc.walk(t.sub[0], depth+1)
		}
	case "seq", "map":
		n := sc.compact()
		for i := uint64(0); i < n && sc.ok && i < 1<<16; i++ {
			for _, s := range t.sub {
				sc.walk(s, depth+1)
			}
		}
	case "st":
		for _, i := range t.fieldOrder() {
			sc.walk(t.sub[i], depth+1)
		}
	case "en":
		b := sc.take(1)
		if b == nil {
			return
		}
		for i, k := range t.idx {
			if k == uint(b[0]) {
				sc.walk(t.sub[i], depth+1)
				return
			}
		}
		sc.ok = false
	case "bytes", "str":
		l := sc.compact()
		if !sc.ok {
			return
		}
		if l > sc.max {
			sc.max = l
		}
		if l > uint64(len(sc.data)) { // zero-filled short read: everything is consumed
			if len(sc.data) == 0 && l > 0 {
				sc.ok = false
			}
			sc.data = nil
		} else {
			sc.data = sc.data[l:]
		}
	case "bool", "u8", "i8":
		sc.take(1)
	case "u16", "i16":
		sc.take(2)
	case "u32", "i32":
		sc.take(4)
	case "u64", "i64":
		sc.take(8)
	case "u128":
		sc.take(16)
	case "cu", "big":
		sc.compact()
	}
}

// c12TooCostly reports whether decoding data into t would allocate a byte string above 64 MiB.
func c12TooCostly(t *c11Ty, data []byte) bool {
	sc := &c12Scanner{data: data, ok: true}
	sc.walk(t, 0)
	return sc.max > 1<<26
}

// c11RefEncode is the harness's own canonical SCALE encoder (no damage).
func c11RefEncode(t *c11Ty, v reflect.Value) []byte {
	return (&c12Evil{r: vhNewRng(0), p: 1 << 30}).enc(t, v)
}

// c11Decode decodes data into a fresh destination of type t through the public Decoder API (the
// same decodeState code path as Unmarshal, over a bytes.Buffer) and renders the outcome:
//   ok <canonical encoding (c11RefEncode) of the decoded value> <bytes consumed> | ok-huge | err      [+ " big"]
// "big": the decoder allocated a read buffer larger than the whole input plus 1024 (io.ReadAll in
// the error paths of decodePointer / decodeResult asks for 512 bytes).
// "mem=hi": runtime.MemStats.TotalAlloc grew by more than 8*largest read buffer + 1 MiB + 4096*len(input).
func c11Decode(t *c11Ty, data []byte) string {
	out, _ := c11DecodeReq(t, data)
	return out
}

// c11DecodeReq also returns the largest read request.
func c11DecodeReq(t *c11Ty, data []byte) (string, int) {
	dst := reflect.New(t.goType())
	dst.Elem().Set(t.zero())
	rd := &c11Reader{buf: bytes.NewBuffer(append([]byte{}, data...))}
	var m0, m1 runtime.MemStats
	runtime.ReadMemStats(&m0)
	err := NewDecoder(rd).Decode(dst.Interface())
	runtime.ReadMemStats(&m1)
	suffix := ""
	if rd.maxReq > len(data)+1024 {
		suffix = " big"
	}
	// memory watchdog: total allocation far beyond what the read buffers and the input explain
	if m1.TotalAlloc-m0.TotalAlloc > uint64(8*rd.maxReq+1<<20+4096*len(data)) {
		suffix += " mem=hi"
	}
	if err != nil {
		return "err" + suffix, rd.maxReq
	}
	if rd.maxReq > len(data)+65536 {
		return "ok-huge" + suffix, rd.maxReq
	}
	re := c11RefEncode(t, dst.Elem())
	return fmt.Sprintf("ok %s %d%s", vhHex(re), len(data)-rd.buf.Len(), suffix), rd.maxReq
}

// c11ReaderKinds are the other ways the same bytes can reach the decoder: scale.Unmarshal itself
// and scale.NewDecoder over readers that deliver the data differently (all legal io.Readers).
var c11ReaderKinds = []string{"um", "rdr", "half", "one", "derr"}

// c11Abort stops a decode (sentinel panic) at the first read request above limit: such a request is
// a declared byte-string length far beyond the input; the value is not worth materialising.
type c11Abort struct {
	r     io.Reader
	limit int
}

type c11TooBig struct{}

func (a *c11Abort) Read(p []byte) (int, error) {
	if len(p) > a.limit {
		panic(c11TooBig{})
	}
	return a.r.Read(p)
}

func c11DecodeVia(t *c11Ty, kind string, data []byte) (out string) {
	defer func() {
		if r := recover(); r != nil {
			if _, ok := r.(c11TooBig); ok {
				out = "err" // read request above len(input)+65536: counted as a failure (model: same)
				return
			}
			out = "panic"
		}
	}()
	dst := reflect.New(t.goType())
	dst.Elem().Set(t.zero())
	cp := append([]byte{}, data...)
	guard := func(r io.Reader) io.Reader { return &c11Abort{r: r, limit: len(data) + 65536} }
	var err error
	switch kind {
	case "um":
		err = Unmarshal(cp, dst.Interface())
	case "rdr":
		err = NewDecoder(guard(bytes.NewReader(cp))).Decode(dst.Interface())
	case "half":
		err = NewDecoder(guard(iotest.HalfReader(bytes.NewReader(cp)))).Decode(dst.Interface())
	case "one":
		err = NewDecoder(guard(iotest.OneByteReader(bytes.NewReader(cp)))).Decode(dst.Interface())
	case "derr":
		err = NewDecoder(guard(iotest.DataErrReader(bytes.NewReader(cp)))).Decode(dst.Interface())
	}
	if err != nil {
		return "err"
	}
	return "ok:" + vhHex(c11RefEncode(t, dst.Elem()))
}

// c11HasByteString reports whether t contains a byte string or string.
func c11HasByteString(t *c11Ty) bool {
	if t.kind == "bytes" || t.kind == "str" {
		return true
	}
	for _, s := range t.sub {
		if c11HasByteString(s) {
			return true
		}
	}
	return false
}

// c11Equal compares two Go values structurally (big integers by value, nil and empty byte
// strings / slices identified: SCALE cannot distinguish them).
func c11Equal(a, b reflect.Value) bool {
	return c11Canon(a) == c11Canon(b)
}

func c11Canon(v reflect.Value) string { return c11CanonAny(v) }

func c11CanonAny(v reflect.Value) string {
	if !v.IsValid() {
		return "<invalid>"
	}
	if v.CanInterface() {
		switch x := v.Interface().(type) {
		case Result:
			switch x.mode {
			case OK:
				return "O" + c11CanonAny(reflect.ValueOf(x.ok))
			case Err:
				return "E" + c11CanonAny(reflect.ValueOf(x.err))
			}
			return "R?"
		case c11VDT:
			if x.inner == nil {
				return "V?"
			}
			return fmt.Sprintf("V%d:%s", x.idx[x.cur], c11CanonAny(reflect.ValueOf(x.inner)))
		case c11EnumA:
			i, val, err := x.IndexValue()
			if err != nil {
				return "V?"
			}
			return fmt.Sprintf("V%d:%s", i, c11CanonAny(reflect.ValueOf(val)))
		case c11EnumB:
			i, val, err := x.IndexValue()
			if err != nil {
				return "V?"
			}
			return fmt.Sprintf("V%d:%s", i, c11CanonAny(reflect.ValueOf(val)))
		case empty:
			return "u"
		}
	}
	switch v.Kind() {
	case reflect.Ptr:
		if v.IsNil() {
			return "N"
		}
		if v.CanInterface() {
			switch x := v.Interface().(type) {
			case interface{ String() string }:
				return x.String() // *big.Int, *Uint128
			}
		}
		return "S" + c11CanonAny(v.Elem())
	case reflect.Struct:
		var xs []string
		for i := 0; i < v.NumField(); i++ {
			if v.Type().Field(i).PkgPath != "" {
				xs = append(xs, "_")
				continue
			}
			xs = append(xs, c11CanonAny(v.Field(i)))
		}
		return "(" + strings.Join(xs, ",") + ")"
	case reflect.Map:
		keys := c11SortedKeys(v)
		var xs []string
		for _, k := range keys {
			xs = append(xs, c11CanonAny(k)+":"+c11CanonAny(v.MapIndex(k)))
		}
		return "{" + strings.Join(xs, ",") + "}"
	case reflect.Slice:
		if v.Type().Elem().Kind() == reflect.Uint8 {
			return "x" + vhHex(v.Bytes())
		}
		fallthrough
	case reflect.Array:
		var xs []string
		for i := 0; i < v.Len(); i++ {
			xs = append(xs, c11CanonAny(v.Index(i)))
		}
		return "[" + strings.Join(xs, ",") + "]"
	case reflect.String:
		return "x" + vhHex([]byte(v.String()))
	}
	return fmt.Sprint(v.Interface())
}

// c11DirtyVal is a fixed non-zero value of type t (value syntax): what a "dirty" destination holds
// before decoding.  The Lean driver computes the same value (C12.dirtyVal).
func c11DirtyVal(t *c11Ty) string {
	switch t.kind {
	case "unit":
		return "u"
	case "opt":
		return "S" + c11DirtyVal(t.sub[0])
	case "res":
		return "O" + c11DirtyVal(t.sub[0])
	case "arr":
		xs := make([]string, t.n)
		for i := range xs {
			xs[i] = c11DirtyVal(t.sub[0])
		}
		return "[" + strings.Join(xs, ",") + "]"
	case "seq":
		return "[" + c11DirtyVal(t.sub[0]) + "]"
	case "map":
		return "{" + c11DirtyVal(t.sub[0]) + ":" + c11DirtyVal(t.sub[1]) + "}"
	case "st":
		xs := make([]string, len(t.sub))
		for i, s := range t.sub {
			if t.tags[i] == "-" {
				xs[i] = "0"
			} else {
				xs[i] = c11DirtyVal(s)
			}
		}
		return "(" + strings.Join(xs, ",") + ")"
	case "en":
		return fmt.Sprintf("V%d:%s", t.idx[0], c11DirtyVal(t.sub[0]))
	case "bool":
		return "t"
	case "bytes", "str":
		return "xaa"
	case "i8", "i16", "i32", "i64":
		return "-1"
	}
	return "1"
}

// c11DecodeDirty decodes data (Decoder over a bytes.Buffer) into a destination that already holds
// c11DirtyVal(t): the decoded value must not depend on it.
func c11DecodeDirty(t *c11Ty, data []byte) (out string) {
	defer func() {
		if r := recover(); r != nil {
			if _, ok := r.(c11TooBig); ok {
				out = "err"
				return
			}
			out = "panic"
		}
	}()
	dst := reflect.New(t.goType())
	dst.Elem().Set(c11BuildValue(t, c11DirtyVal(t)))
	rd := &c11Abort{r: bytes.NewBuffer(append([]byte{}, data...)), limit: len(data) + 65536}
	if err := NewDecoder(rd).Decode(dst.Interface()); err != nil {
		return "err"
	}
	return "ok:" + vhHex(c11RefEncode(t, dst.Elem()))
}

// c11DecodeAll is c11Decode followed, for every reader kind whose outcome (err / value) differs
// from the bytes.Buffer outcome, by " <kind>=<outcome>".  The chunking readers (half, one, derr) are
// used for types without byte strings and for a bare byte string / string.  Skipped when the decoder allocated a
// read buffer of more than len(input)+65536 bytes (such values are not materialised).
func c11DecodeAll(t *c11Ty, data []byte) string {
	out, req := c11DecodeReq(t, data)
	if req > len(data)+65536 {
		return out
	}
	f := strings.Fields(out)
	base := "err"
	if f[0] == "ok" {
		base = "ok:" + f[1]
	}
	kinds := c11ReaderKinds
	if !(t.kind == "bytes" || t.kind == "str" || !c11HasByteString(t)) {
		// a chunking reader desynchronises decodeBytes (known finding bytes-chunked-read); what follows
		// is parsed out of the middle of the string and declares random lengths, which the decoder
		// allocates and clears before reading: far too slow to run on every case
		kinds = kinds[:2]
	}
	for _, k := range kinds {
		if o := c11DecodeVia(t, k, data); o != base {
			out += " " + k + "=" + o
		}
	}
	if o := c11DecodeDirty(t, data); o != base {
		out += " dirty=" + o
	}
	return out
}
