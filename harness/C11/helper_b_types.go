//go:build verif

// Package types (flavour b): see flavour a.
package types

// Header is encoded in declaration order: (Number, Flag, Extra).
type Header struct {
	Number uint32
	Flag   bool
	Extra  uint16
}

// Pair has two fields, tagged in reverse order.
type Pair struct {
	A uint8  `scale:"1"`
	B uint16 `scale:"0"`
}
