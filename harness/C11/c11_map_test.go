//go:build verif

package scale

// Go maps (map[K]V) for C11 / C12.  A map is the top-level type of a case; its value type may be any
// type that needs no pre-populated destination, or again a map (`map(K2,V2)`).
//
//   menc <ktype> <vtype> {k:v,k:v,...}                                                  (C11)
//        -> <canonical encoding: compact(n) ++ entries sorted by key> perm=<t|f> stable=<t|f>
//        perm:   Marshal's output is compact(n) followed by the entries' canonical encodings in SOME order
//        stable: 200 calls of Marshal all gave the canonical (sorted) encoding
//   mrt  <ktype> <vtype> {k:v,k:v,...}                                                  (C11)
//        -> <canonical encoding> eq=<t|f> alias=<t|f>
//        Marshal, then Unmarshal into a nil map; eq: the decoded map equals the original deeply;
//        alias: two decoded entries share a pointer / map / slice (changing one would change the other)
//   mdec <ktype> <vtype> <hex> <nil|made|dirty>                                         (C12)
//        -> ok <canonical encoding of the decoded map> <consumed> [aliased] | err | panic
//        the destination is a nil map, an empty made map, or a map holding one entry (c11DirtyVal)
//
// key types: u8 u16 u32 u64 i8 i16 i32 i64 str (comparable, ordered).

import (
	"bytes"
	"fmt"
	"math/big"
	"reflect"
	"sort"
	"strings"
)

func bigFromInt(n int) *big.Int { return big.NewInt(int64(n)) }

var c11MapKeyTypes = []string{"u8", "u8", "u16", "u32", "u64", "i8", "i16", "i32", "i64", "str"}

// c11KeyLess orders two keys of the same kind the way the canonical encoding (Rust BTreeMap) does.
func c11KeyLess(a, b reflect.Value) bool {
	switch a.Kind() {
	case reflect.String:
		return a.String() < b.String()
	case reflect.Int8, reflect.Int16, reflect.Int32, reflect.Int64:
		return a.Int() < b.Int()
	}
	return a.Uint() < b.Uint()
}

func c11SortedKeys(m reflect.Value) []reflect.Value {
	keys := m.MapKeys()
	sort.Slice(keys, func(i, j int) bool { return c11KeyLess(keys[i], keys[j]) })
	return keys
}

func c11MapTy(kt, vt *c11Ty) *c11Ty { return &c11Ty{kind: "map", sub: []*c11Ty{kt, vt}} }

// c11IsEntryPermutation reports whether enc is compact(n) followed by every entry exactly once.
func c11IsEntryPermutation(kt, vt *c11Ty, m reflect.Value, enc []byte) bool {
	pfx := c12Compact(nil, bigFromInt(m.Len()), false)
	if !bytes.HasPrefix(enc, pfx) {
		return false
	}
	rest := enc[len(pfx):]
	var entries [][]byte
	for _, k := range c11SortedKeys(m) {
		entries = append(entries, append(c11RefEncode(kt, k), c11RefEncode(vt, m.MapIndex(k))...))
	}
	used := make([]bool, len(entries))
	for len(rest) > 0 {
		found := false
		for i, e := range entries {
			if !used[i] && bytes.HasPrefix(rest, e) {
				// distinct keys of a fixed key type are prefix-free, so the first match is the match
				used[i], found = true, true
				rest = rest[len(e):]
				break
			}
		}
		if !found {
			return false
		}
	}
	for _, u := range used {
		if !u {
			return false
		}
	}
	return true
}

// c11HasOptVdt reports whether t contains a pointer to a varying data type (known finding opt-vdt).
func c11HasOptVdt(t *c11Ty) bool {
	if t.kind == "opt" && t.sub[0].kind == "en" {
		return true
	}
	for _, s := range t.sub {
		if c11HasOptVdt(s) {
			return true
		}
	}
	return false
}

// c11Aliased reports whether two places of v share storage: the same non-nil pointer (to a type of
// non-zero size), the same map, or the same slice memory.  Mutating one would change the other.
func c11Aliased(v reflect.Value) bool {
	seen := map[uintptr]bool{}
	var walk func(v reflect.Value) bool
	visit := func(p uintptr) bool {
		if seen[p] {
			return true
		}
		seen[p] = true
		return false
	}
	walk = func(v reflect.Value) bool {
		switch v.Kind() {
		case reflect.Ptr:
			if v.IsNil() {
				return false
			}
			if v.Type().Elem().Size() > 0 && visit(v.Pointer()) {
				return true
			}
			return walk(v.Elem())
		case reflect.Map:
			if v.IsNil() {
				return false
			}
			if visit(v.Pointer()) {
				return true
			}
			for _, k := range v.MapKeys() {
				if walk(v.MapIndex(k)) {
					return true
				}
			}
		case reflect.Slice:
			if v.Len() > 0 && v.Type().Elem().Size() > 0 && visit(v.Pointer()) {
				return true
			}
			fallthrough
		case reflect.Array:
			if v.Type().Elem().Kind() == reflect.Uint8 {
				return false
			}
			for i := 0; i < v.Len(); i++ {
				if walk(v.Index(i)) {
					return true
				}
			}
		case reflect.Struct:
			if v.Type() == reflect.TypeOf(big.Int{}) || v.Type() == reflect.TypeOf(Uint128{}) {
				return false
			}
			for i := 0; i < v.NumField(); i++ {
				if v.Type().Field(i).PkgPath == "" && walk(v.Field(i)) {
					return true
				}
			}
			if v.CanInterface() {
				if e, ok := v.Interface().(EncodeVaryingDataType); ok {
					if _, val, err := e.IndexValue(); err == nil {
						return walk(reflect.ValueOf(val))
					}
				}
			}
		case reflect.Interface:
			if !v.IsNil() {
				return walk(v.Elem())
			}
		}
		return false
	}
	return walk(v)
}

func c11MapRun(f []string) string {
	switch f[0] {
	case "menc", "mrt":
		if len(f) != 4 {
			return "bad-op"
		}
		kt, vt := c11ParseTy(f[1]), c11ParseTy(f[2])
		mt := c11MapTy(kt, vt)
		m := c11BuildValue(mt, f[3])
		canon := c11RefEncode(mt, m)
		if f[0] == "mrt" {
			enc, err := Marshal(m.Interface())
			if err != nil {
				return "merr"
			}
			dst := reflect.New(mt.goType())
			if err := Unmarshal(enc, dst.Interface()); err != nil {
				return vhHex(canon) + " err"
			}
			return fmt.Sprintf("%s eq=%v alias=%v", vhHex(canon), c11Equal(dst.Elem(), m), c11Aliased(dst.Elem()))
		}
		perm, stable := true, true
		for i := 0; i < 200; i++ {
			enc, err := Marshal(m.Interface())
			if err != nil {
				return "merr"
			}
			if !bytes.Equal(enc, canon) {
				stable = false
				if !c11IsEntryPermutation(kt, vt, m, enc) {
					perm = false
				}
			}
		}
		return fmt.Sprintf("%s perm=%v stable=%v", vhHex(canon), perm, stable)
	case "mdec":
		if len(f) != 5 {
			return "bad-op"
		}
		kt, vt := c11ParseTy(f[1]), c11ParseTy(f[2])
		mt := c11MapTy(kt, vt)
		data := vhUnhex(f[3])
		dst := reflect.New(mt.goType())
		switch f[4] {
		case "made":
			dst.Elem().Set(reflect.MakeMap(mt.goType()))
		case "dirty":
			dst.Elem().Set(c11BuildValue(mt, c11DirtyVal(mt)))
		}
		buf := bytes.NewBuffer(append([]byte{}, data...))
		rd := &c11Abort{r: buf, limit: len(data) + 65536}
		var err error
		func() {
			defer func() {
				if r := recover(); r != nil {
					if _, ok := r.(c11TooBig); ok {
						err = fmt.Errorf("too big")
						return
					}
					panic(r)
				}
			}()
			err = NewDecoder(rd).Decode(dst.Interface())
		}()
		if err != nil {
			return "err"
		}
		al := ""
		if c11Aliased(dst.Elem()) {
			al = " aliased"
		}
		return fmt.Sprintf("ok %s %d%s", vhHex(c11RefEncode(mt, dst.Elem())), len(data)-buf.Len(), al)
	}
	return "bad-op"
}

// c11MapValueTy draws the value type of a map: the shapes that hold references are frequent
// (options, nested maps, structs with an optional field, slices, varying data types).
func c11MapValueTy(r *vhRng, zeroSeq bool) *c11Ty {
	if zeroSeq && r.Chance(1, 10) {
		return c11GenZeroSeqTy(r)
	}
	for {
		var vt *c11Ty
		switch r.Intn(8) {
		case 0, 1:
			vt = &c11Ty{kind: "opt", sub: []*c11Ty{c11GenTy(r, r.Intn(2), false)}}
		case 2:
			kt := &c11Ty{kind: c11MapKeyTypes[r.Intn(len(c11MapKeyTypes))]}
			vt = c11MapTy(kt, c11GenTy(r, r.Intn(2), false))
		case 3:
			vt = &c11Ty{kind: "st", sub: []*c11Ty{{kind: "u8"},
				{kind: "opt", sub: []*c11Ty{c11GenTy(r, 0, false)}}, c11GenTy(r, 1, false)}, tags: []string{"", "", ""}}
		case 4:
			s := c11GenTy(r, r.Intn(2), false)
			if s.kind == "u8" && !s.named {
				s.named = true
			}
			vt = &c11Ty{kind: "seq", sub: []*c11Ty{s}}
		case 5:
			vt = c11ParseTy([]string{c11EnumADesc, c11EnumBDesc}[r.Intn(2)])
		default:
			vt = c11GenTy(r, r.Intn(3), false)
		}
		if (zeroSeq || !c11SeqOfZeroSize(vt)) && !c11HasOptVdt(vt) {
			return vt
		}
	}
}

// c11MapGen draws a map case (mode 0: menc, 1: mrt, 2: mdec): small maps, usually two or more
// entries, keys colliding now and then in the value text (later entries overwrite earlier ones both
// in Go and in the model).
func c11MapGen(r *vhRng, mode int) string {
	kt := &c11Ty{kind: c11MapKeyTypes[r.Intn(len(c11MapKeyTypes))]}
	// slices of zero-width elements only where the input is an honest encoding (menc, mrt)
	vt := c11MapValueTy(r, mode != 2)
	for (mode == 0 && vt.kind == "map") || (mode != 2 && vt.kind == "res") {
		// menc compares entry encodings: inner maps have no fixed one; a Result value needs a
		// pre-populated destination
		vt = c11MapValueTy(r, mode != 2)
	}
	n := r.Pick(0, 1, 2, 2, 3, 3, 4)
	var es []string
	for i := 0; i < n; i++ {
		k := c11GenVal(r, kt)
		if kt.kind == "str" {
			k = "x" + vhHex(r.Bytes(r.Intn(3)))
			if k == "x-" {
				k = "x"
			}
		}
		es = append(es, k+":"+c11GenVal(r, vt))
	}
	val := "{" + strings.Join(es, ",") + "}"
	switch mode {
	case 0:
		return "menc " + kt.String() + " " + vt.String() + " " + val
	case 1:
		return "mrt " + kt.String() + " " + vt.String() + " " + val
	}
	// the encoding the decoder sees: entries in the (possibly repeating) order of the text
	var data []byte
	data = append(data, c12Compact(nil, bigFromInt(n), false)...)
	p := &c11Parser{s: val}
	p.eat('{')
	for p.peek() != '}' {
		k := kt.build(p)
		p.eat(':')
		v := vt.build(p)
		data = append(data, c11RefEncode(kt, k)...)
		data = append(data, c11RefEncode(vt, v)...)
		if p.peek() == ',' {
			p.i++
		}
	}
	switch r.Intn(8) {
	case 0:
		if len(data) > 0 {
			data = data[:r.Intn(len(data))]
		}
	case 1:
		if len(data) > 0 {
			// not the mode bit: a byte-string length in 4-byte or big-integer mode is 2^29 on average
			// and is really allocated
			bit := uint(r.Pick(0, 2, 3, 4, 5, 6, 7))
			data[r.Intn(len(data))] ^= 1 << bit
		}
	}
	dst := []string{"made", "made", "nil", "nil", "dirty"}[r.Intn(5)]
	return "mdec " + kt.String() + " " + vt.String() + " " + vhHex(data) + " " + dst
}
