//go:build verif

package scale

// Maps (Go map[K]V) for C11 / C12.  Maps are handled at the top level only:
//
//   menc <ktype> <vtype> {k:v,k:v,...}
//        -> <canonical encoding: compact(n) ++ entries sorted by key> perm=<t|f> stable=<t|f>
//        perm:   Marshal's output is compact(n) followed by the entries' canonical encodings in SOME order
//        stable: 200 calls of Marshal all gave the canonical (sorted) encoding
//   mdec <ktype> <vtype> <hex> <nil|made>
//        -> ok <canonical encoding of the decoded map> <consumed> | err | panic
//        the destination is a nil map or an empty made map
//
// key types: u8 u16 u32 u64 i8 i16 i32 i64 str (comparable, ordered); value types: any type that
// needs no pre-populated destination.

import (
	"bytes"
	"fmt"
	"math/big"
	"reflect"
	"sort"
	"strings"
)

func bigFromInt(n int) *big.Int { return big.NewInt(int64(n)) }

var c11MapKeyTypes = []string{"u8", "u8", "u16", "u32", "u64", "i8", "i16", "i32", "i64", "str"}

// c11KeyLess orders two keys of the same kind the way the canonical encoding (Rust BTreeMap) does.
func c11KeyLess(a, b reflect.Value) bool {
	switch a.Kind() {
	case reflect.String:
		return a.String() < b.String()
	case reflect.Int8, reflect.Int16, reflect.Int32, reflect.Int64:
		return a.Int() < b.Int()
	}
	return a.Uint() < b.Uint()
}

func c11SortedKeys(m reflect.Value) []reflect.Value {
	keys := m.MapKeys()
	sort.Slice(keys, func(i, j int) bool { return c11KeyLess(keys[i], keys[j]) })
	return keys
}

// c11CanonMap is the canonical encoding of a map: compact length, entries in ascending key order.
func c11CanonMap(kt, vt *c11Ty, m reflect.Value) []byte {
	out := c12Compact(nil, bigFromInt(m.Len()), false)
	for _, k := range c11SortedKeys(m) {
		out = append(out, c11RefEncode(kt, k)...)
		out = append(out, c11RefEncode(vt, m.MapIndex(k))...)
	}
	return out
}

// c11IsEntryPermutation reports whether enc is compact(n) followed by every entry exactly once.
func c11IsEntryPermutation(kt, vt *c11Ty, m reflect.Value, enc []byte) bool {
	pfx := c12Compact(nil, bigFromInt(m.Len()), false)
	if !bytes.HasPrefix(enc, pfx) {
		return false
	}
	rest := enc[len(pfx):]
	var entries [][]byte
	for _, k := range c11SortedKeys(m) {
		entries = append(entries, append(c11RefEncode(kt, k), c11RefEncode(vt, m.MapIndex(k))...))
	}
	used := make([]bool, len(entries))
	for len(rest) > 0 {
		found := false
		for i, e := range entries {
			if !used[i] && bytes.HasPrefix(rest, e) {
				// distinct keys of a fixed key type are prefix-free, so the first match is the match
				used[i], found = true, true
				rest = rest[len(e):]
				break
			}
		}
		if !found {
			return false
		}
	}
	for _, u := range used {
		if !u {
			return false
		}
	}
	return true
}

// c11HasOptVdt reports whether t contains a pointer to a varying data type (known finding opt-vdt).
func c11HasOptVdt(t *c11Ty) bool {
	if t.kind == "opt" && t.sub[0].kind == "en" {
		return true
	}
	for _, s := range t.sub {
		if c11HasOptVdt(s) {
			return true
		}
	}
	return false
}

func c11BuildMap(kt, vt *c11Ty, s string) reflect.Value {
	m := reflect.MakeMap(reflect.MapOf(kt.goType(), vt.goType()))
	p := &c11Parser{s: s}
	p.eat('{')
	for p.peek() != '}' {
		k := kt.build(p)
		p.eat(':')
		v := vt.build(p)
		m.SetMapIndex(k, v)
		if p.peek() == ',' {
			p.i++
		}
	}
	p.eat('}')
	if p.i != len(s) {
		panic("c11: trailing input in map value")
	}
	return m
}

func c11MapRun(f []string) string {
	switch f[0] {
	case "menc":
		if len(f) != 4 {
			return "bad-op"
		}
		kt, vt := c11ParseTy(f[1]), c11ParseTy(f[2])
		m := c11BuildMap(kt, vt, f[3])
		canon := c11CanonMap(kt, vt, m)
		perm, stable := true, true
		for i := 0; i < 200; i++ {
			enc, err := Marshal(m.Interface())
			if err != nil {
				return "merr"
			}
			if !bytes.Equal(enc, canon) {
				stable = false
				if !c11IsEntryPermutation(kt, vt, m, enc) {
					perm = false
				}
			}
		}
		return fmt.Sprintf("%s perm=%v stable=%v", vhHex(canon), perm, stable)
	case "mdec":
		if len(f) != 5 {
			return "bad-op"
		}
		kt, vt := c11ParseTy(f[1]), c11ParseTy(f[2])
		data := vhUnhex(f[3])
		mt := reflect.MapOf(kt.goType(), vt.goType())
		dst := reflect.New(mt)
		if f[4] == "made" {
			dst.Elem().Set(reflect.MakeMap(mt))
		}
		buf := bytes.NewBuffer(append([]byte{}, data...))
		if err := NewDecoder(buf).Decode(dst.Interface()); err != nil {
			return "err"
		}
		return fmt.Sprintf("ok %s %d", vhHex(c11CanonMap(kt, vt, dst.Elem())), len(data)-buf.Len())
	}
	return "bad-op"
}

// c11MapGen draws a map case (enc: menc, otherwise mdec): small maps, keys colliding now and then
// in the value text (later entries overwrite earlier ones both in Go and in the model).
func c11MapGen(r *vhRng, enc bool) string {
	kt := &c11Ty{kind: c11MapKeyTypes[r.Intn(len(c11MapKeyTypes))]}
	var vt *c11Ty
	for {
		vt = c11GenTy(r, r.Intn(3), false)
		if !c11SeqOfZeroSize(vt) && !c11HasOptVdt(vt) {
			break
		}
	}
	n := r.Intn(5)
	var es []string
	for i := 0; i < n; i++ {
		k := c11GenVal(r, kt)
		if kt.kind == "str" {
			k = "x" + vhHex(r.Bytes(r.Intn(3)))
			if k == "x-" {
				k = "x"
			}
		}
		es = append(es, k+":"+c11GenVal(r, vt))
	}
	val := "{" + strings.Join(es, ",") + "}"
	if enc {
		return "menc " + kt.String() + " " + vt.String() + " " + val
	}
	m := c11BuildMap(kt, vt, val)
	// the encoding the decoder sees: entries in the (possibly repeating) order of the text
	var data []byte
	data = append(data, c12Compact(nil, bigFromInt(n), false)...)
	p := &c11Parser{s: val}
	p.eat('{')
	for p.peek() != '}' {
		k := kt.build(p)
		p.eat(':')
		v := vt.build(p)
		data = append(data, c11RefEncode(kt, k)...)
		data = append(data, c11RefEncode(vt, v)...)
		if p.peek() == ',' {
			p.i++
		}
	}
	_ = m
	switch r.Intn(6) {
	case 0:
		if len(data) > 0 {
			data = data[:r.Intn(len(data))]
		}
	case 1:
		if len(data) > 0 {
			// not the mode bit: a byte-string length in 4-byte or big-integer mode is 2^29 on average
			// and is really allocated
			bit := uint(r.Pick(0, 2, 3, 4, 5, 6, 7))
			data[r.Intn(len(data))] ^= 1 << bit
		}
	}
	dst := "made"
	if r.Chance(1, 3) {
		dst = "nil"
	}
	return "mdec " + kt.String() + " " + vt.String() + " " + vhHex(data) + " " + dst
}
