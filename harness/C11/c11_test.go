//go:build verif

package scale

import (
	"fmt"
	"reflect"
	"strings"
	"testing"
)

// case lines: menc <ktype> <vtype> {k:v,...}   (see c11_map_test.go)
//             order <struct type>              -> the field indices in encoding order
// case line:  e <type> <value> <suffix-hex>
// output:     <hex of Marshal(value)> | <decode of hex++suffix> eq=<decoded value DeepEqual original>
//             merr  (Marshal failed)
func c11Run(line string) string {
	f := strings.Fields(line)
	switch f[0] {
	case "e":
		if len(f) != 4 {
			return "bad-op"
		}
		t := c11ParseTy(f[1])
		v := c11BuildValue(t, f[2])
		suffix := vhUnhex(f[3])
		enc, err := Marshal(v.Interface())
		if err != nil {
			return "merr"
		}
		// a second Marshal of the same value must give the same bytes (determinism)
		enc2, err := Marshal(v.Interface())
		if err != nil || string(enc) != string(enc2) {
			return "nondeterministic"
		}
		data := append(append([]byte{}, enc...), suffix...)
		out := c11Decode(t, data)
		eq := ""
		if strings.HasPrefix(out, "ok ") {
			// decode once more into a fresh destination to compare Go values
			dst := reflect.New(t.goType())
			dst.Elem().Set(t.zero())
			if err := Unmarshal(data, dst.Interface()); err != nil {
				return "unmarshal-differs-from-decoder"
			}
			eq = fmt.Sprintf(" eq=%v", c11Equal(dst.Elem(), v))
		}
		// the decoder above reads from a reader without Len(); the same bytes through Unmarshal
		// (*bytes.Buffer) and through a streaming Decoder over a *bytes.Reader must give the same
		if f2 := strings.Fields(out); len(f2) > 0 && f2[0] != "ok-huge" && !strings.Contains(out, " big") {
			base := "err"
			if f2[0] == "ok" {
				base = "ok:" + f2[1]
			}
			for _, k := range []string{"um", "rdr"} {
				if o := c11DecodeVia(t, k, data); o != base {
					eq += " " + k + "=" + o
				}
			}
		}
		// Unmarshal of the CANONICAL bytes (the harness's own encoder, field order from the descriptor):
		// when Marshal's bytes differ from them, show what the decoder makes of the canonical ones
		if ref := c11RefEncode(t, v); string(ref) != string(enc) {
			eq += " canon=" + vhHex(ref) + " -> " + c11Decode(t, append(ref, suffix...))
		}
		return vhHex(enc) + " | " + out + eq
	case "xpkg":
		return c11XpkgRun(f)
	case "menc", "mdec", "mrt":
		return c11MapRun(f)
	case "order": // order <type>: the field order fieldScaleIndices computes for a struct type
		t := c11ParseTy(f[1])
		v, idx, err := cache.fieldScaleIndices(reflect.New(t.goType()).Elem().Interface())
		if err != nil {
			return "err"
		}
		var xs []string
		for _, i := range idx {
			if !v.Field(i.fieldIndex).CanInterface() { // encodeStruct / decodeStruct skip these
				continue
			}
			xs = append(xs, fmt.Sprint(i.fieldIndex))
		}
		return "[" + strings.Join(xs, ",") + "]"
	}
	return "bad-op"
}

func c11Gen(r *vhRng) string {
	if r.Chance(1, 40) { // field order of a struct type
		if r.Bool() {
			return "order " + c11GenWideSt(r).String()
		}
		for {
			t := c11GenTy(r, 2, true)
			if t.kind == "st" {
				return "order " + t.String()
			}
		}
	}
	if r.Chance(1, 30) { // same-named structs of two packages named `types`
		return c11XpkgGen(r)
	}
	if r.Chance(1, 12) { // a Go map: encoding (menc) or round trip (mrt)
		return c11MapGen(r, r.Pick(0, 1, 1))
	}
	t := c11GenTopTy(r, true)
	v := c11GenVal(r, t)
	suffix := "-"
	if r.Chance(1, 3) {
		suffix = vhHex(r.Bytes(1 + r.Intn(4)))
	}
	return "e " + t.String() + " " + v + " " + suffix
}

func TestVerifC11(t *testing.T) { vhMain(t, c11Gen, c11Run) }
