//go:build verif

// Package types (flavour a): same package NAME and same type names as flavour b, another import
// path and other layouts.  Used by the C11 harness (xpkg cases); injected by the orchestrator overlay.
package types

// Header is encoded as (Flag, Number): the scale tags reverse the declaration order.
type Header struct {
	Number uint32 `scale:"2"`
	Flag   bool   `scale:"1"`
}

// Pair has three untagged fields.
type Pair struct {
	A uint8
	B uint16
	C uint8
}
