//go:build verif

package sync

// C19, run 2 (./dot/sync): blockImporter.processBlockData for block data with a header and no body, over a
// scripted finality gadget and a recording block state: a justification is verified with the header's
// hash and number; on success the block is finalised with the round and set id the gadget returned and the
// justification stored; on any failure nothing is finalised.
//
// line: imp j=<0 none|1 present|2 empty> g=<ok|err> r=<round> s=<set id> ff=<0|1> jf=<0|1> num=<header number>
// output: err-verify | err-fin | err-just | fin r=<r> s=<s> | stored | bad-args (a call with another hash/number)

import (
	"errors"
	"fmt"
	"os"
	"strconv"
	"strings"
	"testing"

	"github.com/ChainSafe/gossamer/dot/types"
	"github.com/ChainSafe/gossamer/lib/common"
)

type c19Gadget struct {
	ok         bool
	round, set uint64
	hash       common.Hash
	num        uint
	calls      int
	badArgs    bool
	just       []byte
}

func (g *c19Gadget) VerifyBlockJustification(h common.Hash, n uint, j []byte) (uint64, uint64, error) {
	g.calls++
	if h != g.hash || n != g.num || string(j) != string(g.just) {
		g.badArgs = true
	}
	if !g.ok {
		return 0, 0, errors.New("c19: bad justification")
	}
	return g.round, g.set, nil
}

type c19ImpState struct {
	BlockState // methods that are not overridden panic
	hash       common.Hash
	just       []byte
	ff, jf     bool
	fin        string
	stored     bool
	setJust    bool
	badArgs    bool
}

func (b *c19ImpState) SetFinalisedHash(h common.Hash, round, setID uint64) error {
	if h != b.hash {
		b.badArgs = true
	}
	if b.ff {
		return errors.New("c19: set finalised hash failed")
	}
	b.fin = fmt.Sprintf("r=%d s=%d", round, setID)
	return nil
}

func (b *c19ImpState) SetJustification(h common.Hash, data []byte) error {
	if h != b.hash || string(data) != string(b.just) {
		b.badArgs = true
	}
	if b.jf {
		return errors.New("c19: set justification failed")
	}
	b.setJust = true
	return nil
}

func (b *c19ImpState) CompareAndSetBlockData(bd *types.BlockData) error {
	b.stored = true
	return nil
}

func c19ImpRun(line string) string {
	f := strings.Fields(line)
	if len(f) == 0 || f[0] != "imp" {
		return "bad-op"
	}
	kv := map[string]string{}
	for _, x := range f[1:] {
		if i := strings.IndexByte(x, '='); i > 0 {
			kv[x[:i]] = x[i+1:]
		}
	}
	u := func(k string) uint64 { v, _ := strconv.ParseUint(kv[k], 10, 64); return v }
	hdr := types.NewHeader(common.Hash{1, 9}, common.Hash{2}, common.Hash{3}, uint(u("num")), types.NewDigest())
	just := []byte{0x19, byte(u("r")), byte(u("s"))}
	bd := types.BlockData{Hash: hdr.Hash(), Header: hdr}
	switch kv["j"] {
	case "1":
		bd.Justification = &just
	case "2":
		empty := []byte{}
		bd.Justification = &empty
	}
	g := &c19Gadget{ok: kv["g"] == "ok", round: u("r"), set: u("s"), hash: hdr.Hash(), num: hdr.Number, just: just}
	bs := &c19ImpState{hash: hdr.Hash(), just: just, ff: kv["ff"] == "1", jf: kv["jf"] == "1"}
	imp := &blockImporter{blockState: bs, finalityGadget: g}
	err := imp.processBlockData(bd, networkInitialSync)
	if g.badArgs || bs.badArgs {
		return "bad-args"
	}
	switch {
	case err == nil && bs.fin != "" && bs.setJust && !bs.stored:
		return "fin " + bs.fin
	case err == nil && bs.fin == "" && bs.stored && g.calls == 0:
		return "stored"
	case err != nil && strings.Contains(err.Error(), "verifying justification") && bs.fin == "" && !bs.stored:
		return "err-verify"
	case err != nil && strings.Contains(err.Error(), "setting finalised hash") && bs.fin == "" && !bs.setJust:
		return "err-fin"
	case err != nil && strings.Contains(err.Error(), "setting justification") && bs.fin != "":
		return "err-just"
	}
	return fmt.Sprintf("other err=%v fin=%q stored=%v", err != nil, bs.fin, bs.stored)
}

func c19ImpGen(r *vhRng) string {
	j := 1
	if r.Chance(1, 4) {
		j = r.Pick(0, 2)
	}
	g := "ok"
	if r.Chance(1, 3) {
		g = "err"
	}
	b := func(num, den int) int {
		if r.Chance(num, den) {
			return 1
		}
		return 0
	}
	return fmt.Sprintf("imp j=%d g=%s r=%d s=%d ff=%d jf=%d num=%d", j, g, r.Intn(200), r.Intn(200), b(1, 8), b(1, 8),
		r.Pick(0, 1, 7, 4294967295, 4294967296))
}

func TestVerifC19I(t *testing.T) {
	if p := os.Getenv("VERIF_LINES"); p != "" { // only `imp` lines of a corpus / replay file
		if data, err := os.ReadFile(p); err == nil {
			var keep []string
			for _, l := range strings.Split(string(data), "\n") {
				if strings.HasPrefix(l, "imp ") {
					keep = append(keep, l)
				}
			}
			out := os.Getenv("VERIF_OUT") + ".lines" // next to the output file: no stray temporary files
			if os.WriteFile(out, []byte(strings.Join(keep, "\n")+"\n"), 0o644) == nil {
				os.Setenv("VERIF_LINES", out)
			}
		}
	}
	vhMain(t, c19ImpGen, c19ImpRun)
}
