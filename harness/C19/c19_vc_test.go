//go:build verif

package grandpa

// C19, `vc` lines: the real finality-grandpa NewVoterSet + ValidateCommit over a fake Chain built from
// the tree on the case line, instantiated with uint32 and uint64 block numbers.  (Runs in the client
// package, through the exported API, so that one harness binary serves both kinds of line.)
//
// line: vc w=<32|64> hp=<n> ip=<n> v=<id:weight,...|-> t=<parent,...|-> c=<blk>:<num>|<blk> <num> <id> <sig>;...

import (
	"fmt"
	"sort"
	"strings"
	"testing"

	grandpa "github.com/ChainSafe/gossamer/pkg/finality-grandpa"
)

type c19Chain struct{ parent map[string]string }

func (c c19Chain) Ancestry(base, block string) ([]string, error) {
	var out []string
	cur := block
	for cur != base {
		p, ok := c.parent[cur]
		if !ok {
			return nil, fmt.Errorf("block not descendent of base")
		}
		cur = p
		out = append(out, cur)
	}
	if len(out) > 0 {
		out = out[:len(out)-1]
	}
	return out, nil
}

func (c c19Chain) IsEqualOrDescendantOf(base, block string) bool {
	if base == block {
		return true
	}
	_, err := c.Ancestry(base, block)
	return err == nil
}

// hash string of block i: the prefix scrambles the lexicographic (btree) order with hp.
func c19Hash(i, n, hp uint64) string {
	if i == n {
		return "~null"
	}
	return fmt.Sprintf("%02d_%d", (i*hp+7)%97, i)
}

func c19ID(k, ip uint64) string { return fmt.Sprintf("%02d_%d", (k*ip+3)%89, k) }

func c19RunVC[N uint32 | uint64](kv map[string]string, body string) string {
	hp, ip := c19U(kv["hp"]), c19U(kv["ip"])
	var ws []grandpa.IDWeight[string]
	for _, p := range c19Pairs(kv["v"]) {
		ws = append(ws, grandpa.IDWeight[string]{ID: c19ID(p[0], ip), Weight: p[1]})
	}
	vs := grandpa.NewVoterSet(ws)
	if vs == nil {
		return "novoters"
	}
	// canonical view of the voter set: by numeric id
	type iw struct{ id, w uint64 }
	var view []iw
	for _, v := range vs.Iter() {
		k := c19U(v.ID[strings.IndexByte(v.ID, '_')+1:])
		view = append(view, iw{k, uint64(v.Weight())})
	}
	sort.Slice(view, func(a, b int) bool { return view[a].id < view[b].id })
	var sb strings.Builder
	fmt.Fprintf(&sb, "vs=%d/%d[", uint64(vs.TotalWeight()), uint64(vs.Threshold()))
	for i, v := range view {
		if i > 0 {
			sb.WriteByte(',')
		}
		fmt.Fprintf(&sb, "%d:%d", v.id, v.w)
	}
	sb.WriteString("]")

	par := c19List(kv["t"])
	n := uint64(len(par))
	ch := c19Chain{parent: map[string]string{}}
	for i, p := range par {
		if p < uint64(i) {
			ch.parent[c19Hash(uint64(i), n, hp)] = c19Hash(p, n, hp)
		} else {
			ch.parent[c19Hash(uint64(i), n, hp)] = c19Hash(n, n, hp)
		}
	}
	tc := strings.Split(kv["c"], ":")
	commit := grandpa.Commit[string, N, string, string]{
		TargetHash:   c19Hash(c19U(tc[0]), n, hp),
		TargetNumber: N(c19U(tc[1])),
	}
	if strings.TrimSpace(body) != "" {
		for _, op := range strings.Split(body, ";") {
			f := strings.Fields(op)
			commit.Precommits = append(commit.Precommits, grandpa.SignedPrecommit[string, N, string, string]{
				Precommit: grandpa.Precommit[string, N]{TargetHash: c19Hash(c19U(f[0]), n, hp), TargetNumber: N(c19U(f[1]))},
				ID:        c19ID(c19U(f[2]), ip),
				Signature: "s" + f[3],
			})
		}
	}
	r, err := grandpa.ValidateCommit[string, N, string, string](commit, *vs, ch)
	if err != nil {
		return sb.String() + " err"
	}
	fmt.Fprintf(&sb, " valid=%v n=%d dup=%d eq=%d inv=%d", r.Valid(), r.NumPrecommits(),
		r.NumDuplicatedPrecommits(), r.NumEquiovcations(), r.NumInvalidVoters())
	return sb.String()
}

func c19Run(line string) string {
	hdr, body, _ := strings.Cut(line, "|")
	f := strings.Fields(hdr)
	if len(f) > 0 && (f[0] == "just" || f[0] == "justl") {
		return c19RunJ(line)
	}
	if len(f) == 0 || (f[0] != "vc" && f[0] != "vcl") {
		return "bad-op"
	}
	kv := c19KV(hdr)
	out := vhWithTimeout(30000, func() string {
		switch kv["w"] {
		case "32":
			return c19RunVC[uint32](kv, body)
		case "64":
			return c19RunVC[uint64](kv, body)
		}
		return "bad-op"
	})
	// `vcl`: precommits whose numbers do not agree with the tree (a voter signed a bogus number).
	// The model does not predict the verdict there; the observable is only that the call returns.
	if f[0] == "vcl" && out != "panic" && out != "timeout" && out != "bad-op" {
		return "returns"
	}
	return out
}

func c19Gen(r *vhRng) string {
	if len(c19Queue) > 0 { // the remaining permutations of a merge-point case
		l := c19Queue[0]
		c19Queue = c19Queue[1:]
		return l
	}
	if r.Chance(1, 40) {
		c19Queue = c19GenMerge(r)
		l := c19Queue[0]
		c19Queue = c19Queue[1:]
		return l
	}
	if r.Chance(1, 20) {
		return c19GenVCL(r)
	}
	if r.Chance(3, 5) {
		return c19GenVC(r)
	}
	return c19GenJust(r)
}

func TestVerifC19(t *testing.T) {
	c19OwnLines("vc", "vcl", "just", "justl")
	vhMain(t, c19Gen, c19Run)
}
