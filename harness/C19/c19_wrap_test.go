//go:build verif

package grandpa

// C19, run 1 (./lib/grandpa): Service.VerifyBlockJustification on a Service whose GrandpaState is the REAL
// dot/state.GrandpaState over a fresh in-memory database holding the change blocks, current set id and
// authorities of the case line. The justification is built as in `just` lines (real BlakeTwo256 headers,
// real ed25519 signatures, SCALE encoding, uint32 numbers).
//
// line: wrap cs=<change block of set 0,1,..> cur=<current set id> as=<set 0>/<set 1>/.. (k:w,.. | - | x)
//            ib=<blk>:<number of the imported block> r=<round> s=<set id signed for> off= t= h= c=|precommits
// output: err-setid | err-auths | err-voters | err-decode | err-target | err-commit | err-sig |
//         err-ancestry | err-unused | ok r=<round> s=<set id>

import (
	"encoding/binary"
	"fmt"
	"strings"
	"testing"

	"github.com/ChainSafe/gossamer/dot/state"
	"github.com/ChainSafe/gossamer/dot/types"
	"github.com/ChainSafe/gossamer/internal/database"
	primitives "github.com/ChainSafe/gossamer/internal/primitives/consensus/grandpa"
	ced25519 "github.com/ChainSafe/gossamer/internal/primitives/core/ed25519"
	"github.com/ChainSafe/gossamer/internal/primitives/core/hash"
	"github.com/ChainSafe/gossamer/internal/primitives/runtime"
	"github.com/ChainSafe/gossamer/internal/primitives/runtime/generic"
	"github.com/ChainSafe/gossamer/lib/common"
	"github.com/ChainSafe/gossamer/lib/crypto/ed25519"
	finality "github.com/ChainSafe/gossamer/pkg/finality-grandpa"
	"github.com/ChainSafe/gossamer/pkg/scale"
)

var c19wPairCache = map[uint64]ced25519.Pair{}

func c19wPair(k uint64) ced25519.Pair {
	if p, ok := c19wPairCache[k]; ok {
		return p
	}
	var seed [32]byte
	seed[0], seed[1], seed[2] = byte(k+1), byte(k>>8), 0x19
	p := ced25519.NewPairFromSeed(seed)
	c19wPairCache[k] = p
	return p
}

func c19wPub(k uint64) ced25519.Public { return c19wPair(k).Public().(ced25519.Public) }

func c19wLE(prefix string, id uint64) []byte {
	buf := make([]byte, 8)
	binary.LittleEndian.PutUint64(buf, id)
	return append([]byte(prefix), buf...)
}

func c19wErr(err error) string {
	m := err.Error()
	switch {
	case strings.Contains(m, "cannot get set ID"):
		return "err-setid"
	case strings.Contains(m, "cannot get authorities"):
		return "err-auths"
	case strings.Contains(m, "no voters"):
		return "err-voters"
	case strings.Contains(m, "error decoding"):
		return "err-decode"
	case strings.Contains(m, "invalid commit target"):
		return "err-target"
	case strings.Contains(m, "invalid commit in grandpa"):
		return "err-commit"
	case strings.Contains(m, "invalid signature"):
		return "err-sig"
	case strings.Contains(m, "invalid precommit ancestry proof"):
		return "err-ancestry"
	case strings.Contains(m, "unused headers"):
		return "err-unused"
	}
	return "err-other"
}

func c19RunWrap(kv map[string]string, body string) string {
	// ---- GrandpaState
	db, err := database.NewPebble("verif-c19", true)
	if err != nil {
		return "err-db"
	}
	defer db.Close()
	gs, err := state.NewGrandpaStateFromGenesis(db, nil, nil, nil)
	if err != nil {
		return "err-db"
	}
	table := database.NewTable(db, "grandpa")
	for i, cb := range c19List(kv["cs"]) {
		if err := table.Put(c19wLE("change", uint64(i)), common.UintToBytes(uint(cb))); err != nil {
			return "err-db"
		}
	}
	for i, set := range strings.Split(kv["as"], "/") {
		if set == "x" {
			if err := table.Del(c19wLE("auth", uint64(i))); err != nil {
				return "err-db"
			}
			continue
		}
		var voters []types.GrandpaVoter
		for _, p := range c19Pairs(set) {
			pub := c19wPub(p[0])
			pk, err := ed25519.NewPublicKey(pub[:])
			if err != nil {
				return "err-key"
			}
			voters = append(voters, types.GrandpaVoter{Key: *pk, ID: p[1]})
		}
		enc, err := types.EncodeGrandpaVoters(voters)
		if err != nil {
			return "err-db"
		}
		if err := table.Put(c19wLE("auth", uint64(i)), enc); err != nil {
			return "err-db"
		}
	}
	cur := make([]byte, 8)
	binary.LittleEndian.PutUint64(cur, c19U(kv["cur"]))
	if err := table.Put([]byte("setID"), cur); err != nil {
		return "err-db"
	}

	// ---- justification
	round, sset, off := c19U(kv["r"]), c19U(kv["s"]), c19U(kv["off"])
	par := c19List(kv["t"])
	n := uint64(len(par))
	hashes := make([]hash.H256, n)
	headers := make([]*generic.Header[uint32, hash.H256, runtime.BlakeTwo256], n)
	depth := make([]uint64, n)
	for i := uint64(0); i < n; i++ {
		parent := hash.H256("")
		if par[i] < i {
			parent = hashes[par[i]]
			depth[i] = depth[par[i]] + 1
		}
		var sr [32]byte
		sr[0], sr[1], sr[2] = byte(i+1), 0x19, 0xc1
		headers[i] = generic.NewHeader[uint32, hash.H256, runtime.BlakeTwo256](
			uint32(off+depth[i]), hash.H256(""), hash.H256(sr[:]), parent, runtime.Digest{})
		hashes[i] = headers[i].Hash()
	}
	blockBytes := func(b uint64) []byte {
		switch {
		case b < n:
			return []byte(hashes[b])
		case b == n:
			return make([]byte, 32)
		}
		u := make([]byte, 32)
		u[0], u[1], u[31] = 0xee, byte(b), 0x19
		return u
	}
	blockHash := func(b uint64) hash.H256 {
		if b == n {
			return hash.H256("")
		}
		return hash.H256(blockBytes(b))
	}
	var pcs []finality.SignedPrecommit[hash.H256, uint32, primitives.AuthoritySignature, primitives.AuthorityID]
	if strings.TrimSpace(body) != "" {
		for _, op := range strings.Split(body, ";") {
			f := strings.Fields(op)
			blk, num, auth, kind := c19U(f[0]), uint32(c19U(f[1])), c19U(f[2]), f[3]
			pc := finality.Precommit[hash.H256, uint32]{TargetHash: blockHash(blk), TargetNumber: num}
			signed, sr, ss, signer := pc, round, sset, c19wPair(auth)
			switch kind {
			case "wr":
				sr++
			case "ws":
				ss += 1000
			case "wk":
				signer = c19wPair(auth + 100)
			case "wn":
				signed.TargetNumber++
			}
			if strings.HasPrefix(kind, "cn") { // the signer's honest signature over (this hash, number X)
				signed.TargetNumber = uint32(c19U(kind[2:]))
			}
			payload := primitives.NewLocalizedPayload(primitives.RoundNumber(sr), primitives.SetID(ss), finality.NewMessage(signed))
			sig := signer.Sign(payload)
			if kind == "bad" {
				sig[0] ^= 1
			}
			pcs = append(pcs, finality.SignedPrecommit[hash.H256, uint32, primitives.AuthoritySignature, primitives.AuthorityID]{
				Precommit: pc, Signature: sig, ID: c19wPub(auth),
			})
		}
	}
	tc := strings.Split(kv["c"], ":")
	just := primitives.GrandpaJustification[hash.H256, uint32]{
		Round: round,
		Commit: primitives.Commit[hash.H256, uint32]{
			TargetHash:   blockHash(c19U(tc[0])),
			TargetNumber: uint32(c19U(tc[1])),
			Precommits:   pcs,
		},
		VoteAncestries: []runtime.Header[uint32, hash.H256]{},
	}
	for _, b := range c19List(kv["h"]) {
		just.VoteAncestries = append(just.VoteAncestries, headers[b])
	}
	enc, err := scale.Marshal(just)
	if err != nil {
		return "err-encode"
	}

	// ---- the call
	ib := strings.Split(kv["ib"], ":")
	svc := &Service{grandpaState: gs}
	r, s, err := svc.VerifyBlockJustification(common.BytesToHash(blockBytes(c19U(ib[0]))), uint(c19U(ib[1])), enc)
	if err != nil {
		e := c19wErr(err)
		if kv["fz"] == "1" && e != "err-setid" && e != "err-auths" && e != "err-voters" {
			return "rej" // forged-number lines: only the verdict
		}
		return e
	}
	return fmt.Sprintf("ok r=%d s=%d", r, s)
}

func c19RunW(line string) string {
	hdr, body, _ := strings.Cut(line, "|")
	f := strings.Fields(hdr)
	if len(f) == 0 || f[0] != "wrap" {
		return "bad-op"
	}
	kv := c19KV(hdr)
	return vhWithTimeout(30000, func() string { return c19RunWrap(kv, body) })
}

func TestVerifC19W(t *testing.T) {
	c19OwnLines("wrap")
	vhMain(t, c19GenWrap, c19RunW)
}
