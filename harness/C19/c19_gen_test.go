//go:build verif

package grandpa

// C19 case generator, shared by both runs (both packages are called `grandpa`).
// A case is drawn abstractly (tree, voter list with duplicates / zeros, precommits in random order
// with equivocations, duplicates, non-members, unknown blocks) and printed as a `vc` or `just` line.

import (
	"fmt"
	"strings"
)

type c19Pc struct {
	blk, num, id uint64
	sig          uint64 // vc: signature token; just: kind index into c19Kinds
}

var c19Kinds = []string{"ok", "wr", "ws", "wk", "wn", "bad"}

type c19Case struct {
	w      int
	voters [][2]uint64
	par    []uint64
	depth  []uint64
	off    uint64
	tBlk   uint64
	tNum   uint64
	pcs    []c19Pc
}

func (c *c19Case) mask() uint64 {
	if c.w == 32 {
		return 0xffffffff
	}
	return ^uint64(0)
}

func (c *c19Case) num(b uint64) uint64 {
	if b < uint64(len(c.par)) {
		return (c.off + c.depth[b]) & c.mask()
	}
	if b == uint64(len(c.par)) { // the pseudo parent of the roots sits one above them
		return (c.off - 1) & c.mask()
	}
	return (c.off + 1) & c.mask()
}

// isDesc: blk is base or below it in the tree
func (c *c19Case) isDesc(base, blk uint64) bool {
	n := uint64(len(c.par))
	for {
		if blk == base {
			return true
		}
		if blk >= n || c.par[blk] >= blk {
			return false
		}
		blk = c.par[blk]
	}
}

func c19Draw(r *vhRng) *c19Case {
	c := &c19Case{w: 32}
	if r.Bool() {
		c.w = 64
	}
	// tree
	n := 1 + r.Intn(8)
	if r.Chance(1, 10) {
		n = 1 + r.Intn(14)
	}
	c.par = make([]uint64, n)
	c.depth = make([]uint64, n)
	style := r.Intn(3)
	for i := 1; i < n; i++ {
		switch {
		case r.Chance(1, 14):
			c.par[i] = uint64(i) // another root
		case style == 0 || (style == 1 && r.Bool()):
			c.par[i] = uint64(i - 1)
		default:
			c.par[i] = uint64(r.Intn(i))
		}
		if c.par[i] < uint64(i) {
			c.depth[i] = c.depth[c.par[i]] + 1
		}
	}
	var maxd uint64
	for _, d := range c.depth {
		if d > maxd {
			maxd = d
		}
	}
	top := c.mask()
	switch r.Intn(10) {
	case 0:
		c.off = 0
	case 1:
		c.off = 1
	case 2:
		c.off = uint64(r.Intn(1000))
	case 3:
		c.off = top - maxd // highest block has the largest number of the width
	case 4:
		c.off = top - maxd - uint64(r.Intn(3))
	case 5:
		if r.Chance(1, 3) {
			c.off = top - uint64(r.Intn(int(maxd)+1)) // numbers wrap inside the tree
		} else {
			c.off = 0x7fffffff - uint64(r.Intn(3))
		}
	case 6:
		if c.w == 64 {
			c.off = []uint64{0xfffffffe, 0xffffffff, 0x100000000, 1<<63 - 2, 1<<63 - 1, 1 << 63}[r.Intn(6)]
		} else {
			c.off = 0x80000000 - uint64(r.Intn(3))
		}
	default:
		c.off = uint64(r.Intn(20))
	}
	c.off &= top

	// voters
	k := 1 + r.Intn(6)
	pool := 7
	if r.Chance(1, 12) { // enough voters for more than 12 precommits (pdqsort instead of insertion sort)
		pool = 20
		k = 10 + r.Intn(9)
	}
	byz := r.Chance(1, 10) // many equivocators: beyond the fault assumption
	if byz && k < 4 {
		k = 4 + r.Intn(3)
	}
	ids := make([]uint64, pool)
	for i := range ids {
		ids[i] = uint64(i)
	}
	for i := len(ids) - 1; i > 0; i-- {
		j := r.Intn(i + 1)
		ids[i], ids[j] = ids[j], ids[i]
	}
	ids = ids[:k]
	sum := map[uint64]uint64{}
	uniform := r.Chance(1, 2) || byz
	for _, id := range ids {
		w := uint64(1)
		if !uniform {
			w = []uint64{1, 1, 2, 3, 5, 10}[r.Intn(6)]
		}
		if r.Chance(1, 60) {
			w = []uint64{1 << 63, ^uint64(0), 1<<63 - 1, 1 << 62}[r.Intn(4)]
		}
		if r.Chance(1, 5) && w > 1 && w < 1<<62 { // split into partial weights
			a := 1 + uint64(r.Intn(int(w-1)))
			c.voters = append(c.voters, [2]uint64{id, a}, [2]uint64{id, w - a})
		} else {
			c.voters = append(c.voters, [2]uint64{id, w})
			if r.Chance(1, 8) { // listed again
				w2 := []uint64{1, 1, 2, 7}[r.Intn(4)]
				c.voters = append(c.voters, [2]uint64{id, w2})
				w += w2
			}
		}
		sum[id] += w
		if r.Chance(1, 8) {
			c.voters = append(c.voters, [2]uint64{id, 0})
		}
	}
	if r.Chance(1, 6) {
		c.voters = append(c.voters, [2]uint64{uint64(30 + r.Intn(2)), 0}) // zero-weight stranger
	}
	if r.Chance(1, 80) {
		c.voters = nil
	}
	for i := len(c.voters) - 1; i > 0; i-- {
		j := r.Intn(i + 1)
		c.voters[i], c.voters[j] = c.voters[j], c.voters[i]
	}

	// target and votes
	c.tBlk = uint64(r.Intn(n))
	var below []uint64 // target and its descendants
	for b := 0; b < n; b++ {
		if c.isDesc(c.tBlk, uint64(b)) {
			below = append(below, uint64(b))
		}
	}
	focus := r.Intn(4) // 0: everybody on the target; 1,2: target or below; 3: anywhere
	if byz {
		focus = 3
	}
	pickBlk := func() uint64 {
		switch {
		case r.Chance(1, 40):
			return uint64(n + r.Intn(3)) // pseudo / unknown block
		case focus == 0 && !r.Chance(1, 10):
			return c.tBlk
		case focus <= 2 && !r.Chance(1, 8):
			return below[r.Intn(len(below))]
		default:
			return uint64(r.Intn(n))
		}
	}
	part := ids
	if r.Chance(1, 4) {
		part = append(append([]uint64{}, ids...), uint64(30+r.Intn(2))) // a non-member votes too
	}
	for _, id := range part {
		if r.Chance(1, 8) {
			continue
		}
		b := pickBlk()
		pc := c19Pc{blk: b, num: c.num(b), id: id}
		c.pcs = append(c.pcs, pc)
		sel := r.Intn(14)
		if byz && r.Chance(1, 2) {
			sel = 2
		}
		switch sel {
		case 0: // exact duplicate
			c.pcs = append(c.pcs, pc)
		case 1: // same vote, other signature: an equivocation for the tracker
			c.pcs = append(c.pcs, c19Pc{blk: b, num: pc.num, id: id, sig: 1})
		case 2, 3: // equivocation
			b2 := pickBlk()
			c.pcs = append(c.pcs, c19Pc{blk: b2, num: c.num(b2), id: id, sig: uint64(r.Intn(2))})
			if r.Chance(1, 3) { // and a third / repeated vote
				b3 := pickBlk()
				c.pcs = append(c.pcs, c19Pc{blk: b3, num: c.num(b3), id: id, sig: uint64(r.Intn(2))})
			}
		}
	}
	if r.Chance(1, 50) {
		c.pcs = nil
	}
	for i := len(c.pcs) - 1; i > 0; i-- {
		j := r.Intn(i + 1)
		c.pcs[i], c.pcs[j] = c.pcs[j], c.pcs[i]
	}
	c.tNum = c.num(c.tBlk)
	if r.Chance(1, 14) {
		c.tNum = (c.tNum + []uint64{1, ^uint64(0), 1 << 32}[r.Intn(3)]) & c.mask()
	}
	return c
}

func c19JoinPairs(ps [][2]uint64) string {
	if len(ps) == 0 {
		return "-"
	}
	var s []string
	for _, p := range ps {
		s = append(s, fmt.Sprintf("%d:%d", p[0], p[1]))
	}
	return strings.Join(s, ",")
}

func c19JoinList(xs []uint64) string {
	if len(xs) == 0 {
		return "-"
	}
	var s []string
	for _, x := range xs {
		s = append(s, fmt.Sprint(x))
	}
	return strings.Join(s, ",")
}

func c19GenVC(r *vhRng) string {
	c := c19Draw(r)
	// non-members may carry any number: they are filtered before the base is chosen
	for i := range c.pcs {
		if c.pcs[i].id >= 30 && r.Chance(1, 3) {
			c.pcs[i].num = uint64(r.Intn(4))
		}
	}
	var ops []string
	for _, p := range c.pcs {
		ops = append(ops, fmt.Sprintf("%d %d %d %d", p.blk, p.num, p.id, p.sig))
	}
	return fmt.Sprintf("vc w=%d hp=%d ip=%d v=%s t=%s c=%d:%d|%s", c.w, 1+r.Intn(96), 1+r.Intn(88),
		c19JoinPairs(c.voters), c19JoinList(c.par), c.tBlk, c.tNum, strings.Join(ops, ";"))
}

// c19GenVCL: a `vc` case in which one to three precommits carry a number that disagrees with the tree.
func c19GenVCL(r *vhRng) string {
	c := c19Draw(r)
	if len(c.pcs) > 0 {
		for k := 1 + r.Intn(3); k > 0; k-- {
			i := r.Intn(len(c.pcs))
			if r.Chance(1, 3) {
				c.pcs[i].num = []uint64{0, 1, 2, 3, c.mask(), c.mask() >> 1, c.mask()>>1 + 1}[r.Intn(7)]
			} else {
				d := []uint64{1, 2, 3, 4, 5, 100}[r.Intn(6)]
				if r.Bool() {
					d = -d
				}
				c.pcs[i].num = (c.pcs[i].num + d) & c.mask()
			}
		}
	}
	var ops []string
	for _, p := range c.pcs {
		ops = append(ops, fmt.Sprintf("%d %d %d %d", p.blk, p.num, p.id, p.sig))
	}
	return fmt.Sprintf("vcl w=%d hp=%d ip=%d v=%s t=%s c=%d:%d|%s", c.w, 1+r.Intn(96), 1+r.Intn(88),
		c19JoinPairs(c.voters), c19JoinList(c.par), c.tBlk, c.tNum, strings.Join(ops, ";"))
}

func c19GenJust(r *vhRng) string {
	c := c19Draw(r)
	n := uint64(len(c.par))
	// signature kinds
	for i := range c.pcs {
		k := uint64(0)
		if c.pcs[i].sig == 1 {
			k = 5 // "same vote, other signature": a corrupted copy (the only way to get other bytes)
		}
		if r.Chance(1, 25) {
			k = uint64(1 + r.Intn(5))
		}
		c.pcs[i].sig = k
	}
	// the headers a correct prover would attach: every block from a precommit target up to (not
	// including) the lowest target
	var need []uint64
	if len(c.pcs) > 0 {
		lo := c.pcs[0]
		for _, p := range c.pcs[1:] {
			if p.num <= lo.num {
				lo = p
			}
		}
		seen := map[uint64]bool{}
		for _, p := range c.pcs {
			if !c.isDesc(lo.blk, p.blk) {
				continue
			}
			for b := p.blk; b != lo.blk; b = c.par[b] {
				if !seen[b] {
					seen[b] = true
					need = append(need, b)
				}
			}
		}
	}
	switch r.Intn(12) {
	case 0: // one missing
		if len(need) > 0 {
			i := r.Intn(len(need))
			need = append(need[:i:i], need[i+1:]...)
		}
	case 1: // one extra
		need = append(need, uint64(r.Intn(int(n))))
	case 2: // one repeated
		if len(need) > 0 {
			need = append(need, need[r.Intn(len(need))])
		}
	case 3: // everything
		need = nil
		for b := uint64(0); b < n; b++ {
			need = append(need, b)
		}
	}
	for i := len(need) - 1; i > 0; i-- {
		j := r.Intn(i + 1)
		need[i], need[j] = need[j], need[i]
	}
	ftB, ftN := c.tBlk, c.tNum
	if r.Chance(1, 25) {
		if r.Bool() {
			ftB = uint64(r.Intn(int(n)))
		} else {
			ftN = (ftN + 1) & c.mask()
		}
	}
	var ops []string
	for _, p := range c.pcs {
		ops = append(ops, fmt.Sprintf("%d %d %d %s", p.blk, p.num, p.id, c19Kinds[p.sig]))
	}
	// header numbers are never read by the verification; they stay below 2^30 so that this check does
	// not depend on how SCALE decodes large compact integers (properties C09-C14)
	hoff := c.off
	if hoff >= 1<<30 {
		hoff %= 1000
	}
	return fmt.Sprintf("just w=%d r=%d s=%d off=%d v=%s t=%s h=%s c=%d:%d ft=%d:%d|%s", c.w, r.Intn(3), r.Intn(3),
		hoff, c19JoinPairs(c.voters), c19JoinList(c.par), c19JoinList(need), c.tBlk, c.tNum, ftB, ftN,
		strings.Join(ops, ";"))
}
