//go:build verif

package grandpa

// C19 case generator, shared by both runs (both packages are called `grandpa`).
// A case is drawn abstractly (tree, voter list with duplicates / zeros, precommits in random order
// with equivocations, duplicates, non-members, unknown blocks) and printed as a `vc` or `just` line.

import (
	"fmt"
	"os"
	"strconv"
	"strings"
)

// c19OwnLines restricts VERIF_LINES (corpus / replay) to the line kinds this run understands, so that a
// replay of another run's lines is not answered with `bad-op`.
func c19OwnLines(kinds ...string) {
	p := os.Getenv("VERIF_LINES")
	if p == "" {
		return
	}
	data, err := os.ReadFile(p)
	if err != nil {
		return
	}
	var keep []string
	for _, l := range strings.Split(string(data), "\n") {
		f := strings.Fields(l)
		if len(f) == 0 {
			continue
		}
		for _, k := range kinds {
			if f[0] == k {
				keep = append(keep, l)
			}
		}
	}
	out := os.Getenv("VERIF_OUT") + ".lines" // next to the output file: no stray temporary files
	if os.WriteFile(out, []byte(strings.Join(keep, "\n")+"\n"), 0o644) == nil {
		os.Setenv("VERIF_LINES", out)
	}
}

func c19KV(hdr string) map[string]string {
	m := map[string]string{}
	for _, f := range strings.Fields(hdr) {
		if i := strings.IndexByte(f, '='); i > 0 {
			m[f[:i]] = f[i+1:]
		}
	}
	return m
}

func c19U(s string) uint64 {
	v, err := strconv.ParseUint(s, 10, 64)
	if err != nil {
		panic("c19U " + s)
	}
	return v
}

func c19List(s string) []uint64 {
	if s == "-" || s == "" {
		return nil
	}
	var out []uint64
	for _, x := range strings.Split(s, ",") {
		out = append(out, c19U(x))
	}
	return out
}

func c19Pairs(s string) [][2]uint64 {
	if s == "-" || s == "" {
		return nil
	}
	var out [][2]uint64
	for _, x := range strings.Split(s, ",") {
		ab := strings.Split(x, ":")
		out = append(out, [2]uint64{c19U(ab[0]), c19U(ab[1])})
	}
	return out
}


type c19Pc struct {
	blk, num, id uint64
	sig          uint64 // vc: signature token; just: kind index into c19Kinds
	kind         string // just/wrap: overrides sig when set (`cn<X>`)
}

func (p c19Pc) kindStr() string {
	if p.kind != "" {
		return p.kind
	}
	return c19Kinds[p.sig]
}

// c19Forge adds a forged copy of a genuine precommit: same voter, same target hash, another number, and
// (a) the signature copied from the genuine entry (`cn<genuine number>`: does not verify for the copy), at
// any position, or (b) a fresh honest signature over the forged pair (a real equivocation, numbers being
// part of the vote).  It reports whether an entry was added (`fz=1`: verdict-only observation) and whether
// the case must be a `justl` line (a validly signed bogus number reaches the vote graph or the base).
func c19Forge(c *c19Case, r *vhRng) (fz bool, lie bool) {
	var cand []int
	for i, p := range c.pcs {
		if p.blk < uint64(len(c.par)) && p.sig == 0 && p.kind == "" {
			cand = append(cand, i)
		}
	}
	if len(cand) == 0 {
		return false, false
	}
	i := cand[r.Intn(len(cand))]
	g := c.pcs[i]
	nn := []uint64{g.num + 1, g.num - 1, 0, c.mask(), c.tNum, g.num + 2}[r.Intn(6)] & c.mask()
	if nn == g.num {
		nn = (g.num + 1) & c.mask()
	}
	f := c19Pc{blk: g.blk, num: nn, id: g.id}
	pos := r.Intn(len(c.pcs) + 1)
	if r.Chance(2, 3) {
		f.kind = fmt.Sprintf("cn%d", g.num)
	} else {
		// the voter's first precommit in the list must stay a genuine one and the base must not move
		first := i
		for k, p := range c.pcs {
			if p.id == g.id {
				first = k
				break
			}
		}
		if pos <= first || nn < g.num {
			lie = true
		}
	}
	c.pcs = append(c.pcs[:pos:pos], append([]c19Pc{f}, c.pcs[pos:]...)...)
	return true, lie
}

var c19Kinds = []string{"ok", "wr", "ws", "wk", "wn", "bad"}

type c19Case struct {
	w      int
	voters [][2]uint64
	par    []uint64
	depth  []uint64
	off    uint64
	tBlk   uint64
	tNum   uint64
	pcs    []c19Pc
}

func (c *c19Case) mask() uint64 {
	if c.w == 32 {
		return 0xffffffff
	}
	return ^uint64(0)
}

func (c *c19Case) num(b uint64) uint64 {
	if b < uint64(len(c.par)) {
		return (c.off + c.depth[b]) & c.mask()
	}
	if b == uint64(len(c.par)) { // the pseudo parent of the roots sits one above them
		return (c.off - 1) & c.mask()
	}
	return (c.off + 1) & c.mask()
}

// isDesc: blk is base or below it in the tree
func (c *c19Case) isDesc(base, blk uint64) bool {
	n := uint64(len(c.par))
	for {
		if blk == base {
			return true
		}
		if blk >= n || c.par[blk] >= blk {
			return false
		}
		blk = c.par[blk]
	}
}

func c19Draw(r *vhRng) *c19Case { return c19DrawW(r, 0) }

func c19DrawW(r *vhRng, w int) *c19Case {
	c := &c19Case{w: 32}
	if r.Bool() {
		c.w = 64
	}
	if w != 0 {
		c.w = w
	}
	// tree
	n := 1 + r.Intn(8)
	if r.Chance(1, 10) {
		n = 1 + r.Intn(14)
	}
	c.par = make([]uint64, n)
	c.depth = make([]uint64, n)
	style := r.Intn(3)
	for i := 1; i < n; i++ {
		switch {
		case r.Chance(1, 14):
			c.par[i] = uint64(i) // another root
		case style == 0 || (style == 1 && r.Bool()):
			c.par[i] = uint64(i - 1)
		default:
			c.par[i] = uint64(r.Intn(i))
		}
		if c.par[i] < uint64(i) {
			c.depth[i] = c.depth[c.par[i]] + 1
		}
	}
	var maxd uint64
	for _, d := range c.depth {
		if d > maxd {
			maxd = d
		}
	}
	top := c.mask()
	switch r.Intn(10) {
	case 0:
		c.off = 0
	case 1:
		c.off = 1
	case 2:
		c.off = uint64(r.Intn(1000))
	case 3:
		c.off = top - maxd // highest block has the largest number of the width
	case 4:
		c.off = top - maxd - uint64(r.Intn(3))
	case 5:
		if r.Chance(1, 3) {
			c.off = top - uint64(r.Intn(int(maxd)+1)) // numbers wrap inside the tree
		} else {
			c.off = 0x7fffffff - uint64(r.Intn(3))
		}
	case 6:
		if c.w == 64 {
			c.off = []uint64{0xfffffffe, 0xffffffff, 0x100000000, 1<<63 - 2, 1<<63 - 1, 1 << 63}[r.Intn(6)]
		} else {
			c.off = 0x80000000 - uint64(r.Intn(3))
		}
	default:
		c.off = uint64(r.Intn(20))
	}
	c.off &= top

	// voters
	k := 1 + r.Intn(6)
	pool := 7
	if r.Chance(1, 12) { // enough voters for more than 12 precommits (pdqsort instead of insertion sort)
		pool = 20
		k = 10 + r.Intn(9)
	}
	byz := r.Chance(1, 10) // many equivocators: beyond the fault assumption
	if byz && k < 4 {
		k = 4 + r.Intn(3)
	}
	ids := make([]uint64, pool)
	for i := range ids {
		ids[i] = uint64(i)
	}
	for i := len(ids) - 1; i > 0; i-- {
		j := r.Intn(i + 1)
		ids[i], ids[j] = ids[j], ids[i]
	}
	ids = ids[:k]
	sum := map[uint64]uint64{}
	uniform := r.Chance(1, 2) || byz
	for _, id := range ids {
		w := uint64(1)
		if !uniform {
			w = []uint64{1, 1, 2, 3, 5, 10}[r.Intn(6)]
		}
		if r.Chance(1, 60) {
			w = []uint64{1 << 63, ^uint64(0), 1<<63 - 1, 1 << 62}[r.Intn(4)]
		}
		if r.Chance(1, 5) && w > 1 && w < 1<<62 { // split into partial weights
			a := 1 + uint64(r.Intn(int(w-1)))
			c.voters = append(c.voters, [2]uint64{id, a}, [2]uint64{id, w - a})
		} else {
			c.voters = append(c.voters, [2]uint64{id, w})
			if r.Chance(1, 8) { // listed again
				w2 := []uint64{1, 1, 2, 7}[r.Intn(4)]
				c.voters = append(c.voters, [2]uint64{id, w2})
				w += w2
			}
		}
		sum[id] += w
		if r.Chance(1, 8) {
			c.voters = append(c.voters, [2]uint64{id, 0})
		}
	}
	if r.Chance(1, 6) {
		c.voters = append(c.voters, [2]uint64{uint64(30 + r.Intn(2)), 0}) // zero-weight stranger
	}
	if r.Chance(1, 80) {
		c.voters = nil
	}
	for i := len(c.voters) - 1; i > 0; i-- {
		j := r.Intn(i + 1)
		c.voters[i], c.voters[j] = c.voters[j], c.voters[i]
	}

	// target and votes
	c.tBlk = uint64(r.Intn(n))
	var below []uint64 // target and its descendants
	for b := 0; b < n; b++ {
		if c.isDesc(c.tBlk, uint64(b)) {
			below = append(below, uint64(b))
		}
	}
	focus := r.Intn(4) // 0: everybody on the target; 1,2: target or below; 3: anywhere
	if byz {
		focus = 3
	}
	pickBlk := func() uint64 {
		switch {
		case r.Chance(1, 40):
			return uint64(n + r.Intn(3)) // pseudo / unknown block
		case focus == 0 && !r.Chance(1, 10):
			return c.tBlk
		case focus <= 2 && !r.Chance(1, 8):
			return below[r.Intn(len(below))]
		default:
			return uint64(r.Intn(n))
		}
	}
	part := ids
	if r.Chance(1, 4) {
		part = append(append([]uint64{}, ids...), uint64(30+r.Intn(2))) // a non-member votes too
	}
	for _, id := range part {
		if r.Chance(1, 8) {
			continue
		}
		b := pickBlk()
		pc := c19Pc{blk: b, num: c.num(b), id: id}
		c.pcs = append(c.pcs, pc)
		sel := r.Intn(14)
		if byz && r.Chance(1, 2) {
			sel = 2
		}
		switch sel {
		case 0: // exact duplicate
			c.pcs = append(c.pcs, pc)
		case 1: // same vote, other signature: an equivocation for the tracker
			c.pcs = append(c.pcs, c19Pc{blk: b, num: pc.num, id: id, sig: 1})
		case 2, 3: // equivocation
			b2 := pickBlk()
			c.pcs = append(c.pcs, c19Pc{blk: b2, num: c.num(b2), id: id, sig: uint64(r.Intn(2))})
			if r.Chance(1, 3) { // and a third / repeated vote
				b3 := pickBlk()
				c.pcs = append(c.pcs, c19Pc{blk: b3, num: c.num(b3), id: id, sig: uint64(r.Intn(2))})
			}
		}
	}
	if r.Chance(1, 50) {
		c.pcs = nil
	}
	for i := len(c.pcs) - 1; i > 0; i-- {
		j := r.Intn(i + 1)
		c.pcs[i], c.pcs[j] = c.pcs[j], c.pcs[i]
	}
	c.tNum = c.num(c.tBlk)
	if r.Chance(1, 14) {
		c.tNum = (c.tNum + []uint64{1, ^uint64(0), 1 << 32}[r.Intn(3)]) & c.mask()
	}
	return c
}

func c19JoinPairs(ps [][2]uint64) string {
	if len(ps) == 0 {
		return "-"
	}
	var s []string
	for _, p := range ps {
		s = append(s, fmt.Sprintf("%d:%d", p[0], p[1]))
	}
	return strings.Join(s, ",")
}

func c19JoinList(xs []uint64) string {
	if len(xs) == 0 {
		return "-"
	}
	var s []string
	for _, x := range xs {
		s = append(s, fmt.Sprint(x))
	}
	return strings.Join(s, ",")
}

func c19GenVC(r *vhRng) string {
	c := c19Draw(r)
	// non-members may carry any number: they are filtered before the base is chosen
	for i := range c.pcs {
		if c.pcs[i].id >= 30 && r.Chance(1, 3) {
			c.pcs[i].num = uint64(r.Intn(4))
		}
	}
	var ops []string
	for _, p := range c.pcs {
		ops = append(ops, fmt.Sprintf("%d %d %d %d", p.blk, p.num, p.id, p.sig))
	}
	return fmt.Sprintf("vc w=%d hp=%d ip=%d v=%s t=%s c=%d:%d|%s", c.w, 1+r.Intn(96), 1+r.Intn(88),
		c19JoinPairs(c.voters), c19JoinList(c.par), c.tBlk, c.tNum, strings.Join(ops, ";"))
}

// c19GenVCL: a `vc` case in which one to three precommits carry a number that disagrees with the tree.
func c19GenVCL(r *vhRng) string {
	c := c19Draw(r)
	if len(c.pcs) > 0 {
		for k := 1 + r.Intn(3); k > 0; k-- {
			i := r.Intn(len(c.pcs))
			if r.Chance(1, 3) {
				c.pcs[i].num = []uint64{0, 1, 2, 3, c.mask(), c.mask() >> 1, c.mask()>>1 + 1}[r.Intn(7)]
			} else {
				d := []uint64{1, 2, 3, 4, 5, 100}[r.Intn(6)]
				if r.Bool() {
					d = -d
				}
				c.pcs[i].num = (c.pcs[i].num + d) & c.mask()
			}
		}
	}
	var ops []string
	for _, p := range c.pcs {
		ops = append(ops, fmt.Sprintf("%d %d %d %d", p.blk, p.num, p.id, p.sig))
	}
	return fmt.Sprintf("vcl w=%d hp=%d ip=%d v=%s t=%s c=%d:%d|%s", c.w, 1+r.Intn(96), 1+r.Intn(88),
		c19JoinPairs(c.voters), c19JoinList(c.par), c.tBlk, c.tNum, strings.Join(ops, ";"))
}

// c19Need: the headers a correct prover would attach (every block from a precommit target up to, not
// including, the lowest target), mutated now and then: one missing / extra / repeated / all headers.
func c19Need(c *c19Case, r *vhRng) []uint64 {
	n := uint64(len(c.par))
	var need []uint64
	if len(c.pcs) > 0 {
		lo := c.pcs[0]
		for _, p := range c.pcs[1:] {
			if p.num <= lo.num {
				lo = p
			}
		}
		seen := map[uint64]bool{}
		for _, p := range c.pcs {
			if !c.isDesc(lo.blk, p.blk) {
				continue
			}
			for b := p.blk; b != lo.blk; b = c.par[b] {
				if !seen[b] {
					seen[b] = true
					need = append(need, b)
				}
			}
		}
	}
	switch r.Intn(12) {
	case 0: // one missing
		if len(need) > 0 {
			i := r.Intn(len(need))
			need = append(need[:i:i], need[i+1:]...)
		}
	case 1: // one extra
		need = append(need, uint64(r.Intn(int(n))))
	case 2: // one repeated
		if len(need) > 0 {
			need = append(need, need[r.Intn(len(need))])
		}
	case 3: // everything
		need = nil
		for b := uint64(0); b < n; b++ {
			need = append(need, b)
		}
	}
	for i := len(need) - 1; i > 0; i-- {
		j := r.Intn(i + 1)
		need[i], need[j] = need[j], need[i]
	}
	return need
}

func c19GenJust(r *vhRng) string {
	c := c19Draw(r)
	n := uint64(len(c.par))
	// signature kinds
	for i := range c.pcs {
		k := uint64(0)
		if c.pcs[i].sig == 1 {
			k = 5 // "same vote, other signature": a corrupted copy (the only way to get other bytes)
		}
		if r.Chance(1, 25) {
			k = uint64(1 + r.Intn(5))
		}
		c.pcs[i].sig = k
	}
	need := c19Need(c, r) // the headers a prover would attach for the genuine entries
	kindName, fzField := "just", ""
	if r.Chance(1, 5) {
		if fz, lie := c19Forge(c, r); fz {
			fzField = " fz=1"
			if lie {
				kindName = "justl"
			}
		}
	}
	ftB, ftN := c.tBlk, c.tNum
	if r.Chance(1, 25) {
		if r.Bool() {
			ftB = uint64(r.Intn(int(n)))
		} else {
			ftN = (ftN + 1) & c.mask()
		}
	}
	var ops []string
	for _, p := range c.pcs {
		ops = append(ops, fmt.Sprintf("%d %d %d %s", p.blk, p.num, p.id, p.kindStr()))
	}
	// header numbers are never read by the verification; they stay below 2^30 so that this check does
	// not depend on how SCALE decodes large compact integers (properties C09-C14)
	hoff := c.off
	if hoff >= 1<<30 {
		hoff %= 1000
	}
	return fmt.Sprintf("%s w=%d%s r=%d s=%d off=%d v=%s t=%s h=%s c=%d:%d ft=%d:%d|%s", kindName, c.w, fzField, r.Intn(3), r.Intn(3),
		hoff, c19JoinPairs(c.voters), c19JoinList(c.par), c19JoinList(need), c.tBlk, c.tNum, ftB, ftN,
		strings.Join(ops, ";"))
}

// c19GenWrap: a `wrap` line for Service.VerifyBlockJustification: a justification as in `just` lines
// (uint32 numbers) plus the GrandpaState it is checked against: change blocks of the sets placed around
// the target number (block exactly at / one after a change block), authorities of every set (the voters
// of the case in the set the target number maps to, others elsewhere; now and then swapped, missing or
// empty), the set id the precommits are signed for, and the imported block (hash and number).
func c19GenWrap(r *vhRng) string {
	c := c19DrawW(r, 32)
	n := uint64(len(c.par))
	for i := range c.pcs {
		k := uint64(0)
		if c.pcs[i].sig == 1 {
			k = 5
		}
		if r.Chance(1, 40) {
			k = uint64(1 + r.Intn(5))
		}
		c.pcs[i].sig = k
	}
	need := c19Need(c, r)
	fzField := ""
	if r.Chance(1, 5) {
		save := append([]c19Pc{}, c.pcs...)
		if fz, lie := c19Forge(c, r); fz && !lie {
			fzField = " fz=1"
		} else {
			c.pcs = save // a bogus number that reaches the vote graph is left to the `justl` stream
		}
	}
	tn := c.tNum
	// change blocks
	cand := map[uint64]bool{}
	nsets := 1 + r.Intn(4)
	for len(cand) < nsets-1 {
		var x uint64
		switch r.Intn(6) {
		case 0:
			x = tn
		case 1:
			x = tn - 1
		case 2:
			x = tn + 1
		case 3:
			x = tn - 2 - uint64(r.Intn(5))
		case 4:
			x = tn + 2 + uint64(r.Intn(5))
		default:
			x = uint64(1 + r.Intn(30))
		}
		x &= 0xffffffff
		if x == 0 {
			x = 1
		}
		cand[x] = true
	}
	cs := []uint64{0}
	for x := range cand {
		cs = append(cs, x)
	}
	for i := 1; i < len(cs); i++ { // insertion sort (map order is random, the draw above is not)
		for j := i; j > 0 && cs[j] < cs[j-1]; j-- {
			cs[j], cs[j-1] = cs[j-1], cs[j]
		}
	}
	sid := 0
	for i := 1; i < len(cs); i++ {
		if cs[i] < tn {
			sid = i
		}
	}
	// authorities of every set
	other := func() string {
		k := 1 + r.Intn(4)
		var ps [][2]uint64
		for i := 0; i < k; i++ {
			ps = append(ps, [2]uint64{uint64(10 + r.Intn(6)), uint64(1 + r.Intn(3))})
		}
		return c19JoinPairs(ps)
	}
	sets := make([]string, len(cs))
	for i := range sets {
		switch {
		case i == sid:
			sets[i] = c19JoinPairs(c.voters)
		case r.Chance(1, 10):
			sets[i] = c19JoinPairs(c.voters) // the neighbour has the same authorities
		default:
			sets[i] = other()
		}
	}
	if len(sets) > 1 && r.Chance(1, 10) { // the voters sit in a neighbouring set
		j := (sid + 1) % len(sets)
		sets[sid], sets[j] = sets[j], sets[sid]
	}
	if r.Chance(1, 25) {
		sets[r.Intn(len(sets))] = "x"
	}
	if r.Chance(1, 40) {
		sets[r.Intn(len(sets))] = "-"
	}
	sset := uint64(sid)
	if r.Chance(1, 10) {
		sset = uint64(r.Intn(len(cs) + 1))
	}
	ibB, ibN := c.tBlk, c.tNum
	switch r.Intn(16) {
	case 0:
		ibB = uint64(r.Intn(int(n) + 2))
	case 1:
		ibN++
	case 2:
		if ibN > 0 {
			ibN--
		}
	case 3:
		ibN += 1 << 32 // header numbers are uint; the comparison is made in uint32
	}
	hoff := c.off
	if hoff >= 1<<30 {
		hoff %= 1000
	}
	var ops []string
	for _, p := range c.pcs {
		ops = append(ops, fmt.Sprintf("%d %d %d %s", p.blk, p.num, p.id, p.kindStr()))
	}
	return fmt.Sprintf("wrap cs=%s cur=%d%s as=%s ib=%d:%d r=%d s=%d off=%d t=%s h=%s c=%d:%d|%s",
		c19JoinList(cs), len(cs)-1, fzField, strings.Join(sets, "/"), ibB, ibN, r.Intn(4), sset, hoff,
		c19JoinList(c.par), c19JoinList(need), c.tBlk, c.tNum, strings.Join(ops, ";"))
}

// ---- merge-point cases ------------------------------------------------------------------------------
//
// The precommit GHOST is a block nobody voted for directly: below the round base there are 2-3 forks at
// the same height, none of them a vote target; every fork carries 1-3 voted descendants (directly below
// it or one block further down), so a fork's weight only shows where its vote-nodes merge mid-edge
// (VoteGraph.ghostFindMergePoint).  Heavy voters sit on different descendants of one fork, light voters
// on the other forks and on the base.  One such justification is emitted under several permutations of
// its precommits and with the targets GHOST-fork / base / another fork, as `vc` lines (hash order of the
// siblings varied by `hp`) and as `just` lines (hash order varied by the header salt `hs`):
// C19_order_independent says all permutations get the same verdict.

var c19Queue []string

func c19GenMerge(r *vhRng) []string {
	c := &c19Case{w: 32}
	if r.Bool() {
		c.w = 64
	}
	c.off = []uint64{0, 1, 7, uint64(r.Intn(1000)), c.mask() - 4}[r.Intn(5)]
	add := func(parent uint64) uint64 {
		c.par = append(c.par, parent)
		c.depth = append(c.depth, c.depth[parent]+1)
		return uint64(len(c.par) - 1)
	}
	c.par, c.depth = []uint64{0}, []uint64{0}
	nf := 2 + r.Intn(2)
	forks := make([]uint64, nf)
	for i := range forks {
		forks[i] = add(0)
	}
	leaves := make([][]uint64, nf)
	for i, f := range forks {
		k := 1 + r.Intn(3)
		if i == 0 && k < 2 {
			k = 2 // the heavy fork merges at least two vote-nodes
		}
		for j := 0; j < k; j++ {
			l := add(f)
			if r.Chance(1, 4) {
				l = add(l) // one block further down
			}
			leaves[i] = append(leaves[i], l)
		}
	}
	// voters: two or three heavy ones on different leaves of fork 0, light ones elsewhere
	id := uint64(0)
	vote := func(blk, w uint64) {
		c.voters = append(c.voters, [2]uint64{id, w})
		c.pcs = append(c.pcs, c19Pc{blk: blk, num: c.num(blk), id: id})
		id++
	}
	heavy := uint64(2 + r.Intn(2))
	for j, l := range leaves[0] {
		if j < 3 {
			vote(l, heavy)
		}
	}
	for i := 1; i < nf; i++ {
		for _, l := range leaves[i] {
			if r.Chance(2, 3) || len(c.pcs) < 3 {
				vote(l, 1)
			}
		}
	}
	vote(0, 1) // the round base
	if r.Chance(1, 3) {
		vote(forks[r.Intn(nf)], 1) // now and then a fork is a vote target after all
	}
	exact := func() []uint64 {
		seen := map[uint64]bool{}
		var need []uint64
		for _, p := range c.pcs {
			for b := p.blk; b != 0; b = c.par[b] {
				if !seen[b] {
					seen[b] = true
					need = append(need, b)
				}
			}
		}
		return need
	}()
	targets := []uint64{forks[0], 0, forks[1], leaves[0][0]}
	var lines []string
	for _, t := range targets[:2+r.Intn(3)] {
		for rep := 0; rep < 2; rep++ { // two hash orders
			hp, ip, hs := 1+r.Intn(96), 1+r.Intn(88), r.Intn(60000)
			rd, st := r.Intn(3), r.Intn(3)
			for perm := 0; perm < 5; perm++ {
				pcs := append([]c19Pc{}, c.pcs...)
				for i := len(pcs) - 1; i > 0; i-- {
					j := r.Intn(i + 1)
					pcs[i], pcs[j] = pcs[j], pcs[i]
				}
				var vops, jops []string
				for _, p := range pcs {
					vops = append(vops, fmt.Sprintf("%d %d %d 0", p.blk, p.num, p.id))
					jops = append(jops, fmt.Sprintf("%d %d %d ok", p.blk, p.num, p.id))
				}
				if rep == 0 {
					lines = append(lines, fmt.Sprintf("vc w=%d hp=%d ip=%d v=%s t=%s c=%d:%d|%s", c.w, hp, ip,
						c19JoinPairs(c.voters), c19JoinList(c.par), t, c.num(t), strings.Join(vops, ";")))
				} else {
					hoff := c.off
					if hoff >= 1<<30 {
						hoff %= 1000
					}
					lines = append(lines, fmt.Sprintf("just w=%d hs=%d r=%d s=%d off=%d v=%s t=%s h=%s c=%d:%d ft=%d:%d|%s",
						c.w, hs, rd, st, hoff, c19JoinPairs(c.voters), c19JoinList(c.par), c19JoinList(exact),
						t, c.num(t), t, c.num(t), strings.Join(jops, ";")))
				}
				if perm%2 == 1 { // fresh hash order every other permutation
					hp, hs = 1+r.Intn(96), r.Intn(60000)
				}
			}
		}
	}
	return lines
}
