//go:build verif

package grandpa

// C19, run 1: a justification is built from the case line with real headers (BlakeTwo256 hashes) and
// real ed25519 signatures, SCALE-encoded, and handed to the real
// DecodeGrandpaJustificationVerifyFinalizes (voter set from NewVoterSet) and, after DecodeJustification,
// to GrandpaJustification.Verify (authority list), with uint32 and uint64 block numbers.
//
// line: just w=<32|64> r=<round> s=<set> off=<n> v=<auth:weight,...|-> t=<parent,...> h=<blk,...|->
//            c=<blk>:<num> ft=<blk>:<num>|<blk> <num> <auth> <ok|wr|ws|wk|wn|bad>;...

import (
	"errors"
	"strings"

	primitives "github.com/ChainSafe/gossamer/internal/primitives/consensus/grandpa"
	ced25519 "github.com/ChainSafe/gossamer/internal/primitives/core/ed25519"
	"github.com/ChainSafe/gossamer/internal/primitives/core/hash"
	"github.com/ChainSafe/gossamer/internal/primitives/runtime"
	"github.com/ChainSafe/gossamer/internal/primitives/runtime/generic"
	grandpa "github.com/ChainSafe/gossamer/pkg/finality-grandpa"
	"github.com/ChainSafe/gossamer/pkg/scale"
)

var c19PairCache = map[uint64]ced25519.Pair{}

func c19Pair(k uint64) ced25519.Pair {
	if p, ok := c19PairCache[k]; ok {
		return p
	}
	var seed [32]byte
	seed[0], seed[1], seed[2] = byte(k+1), byte(k>>8), 0x19
	p := ced25519.NewPairFromSeed(seed)
	c19PairCache[k] = p
	return p
}

func c19Pub(k uint64) ced25519.Public { return c19Pair(k).Public().(ced25519.Public) }

func c19Err(err error) string {
	switch {
	case err == nil:
		return "ok"
	case errors.Is(err, errInvalidAuthoritiesSet):
		return "err-auth"
	}
	m := err.Error()
	switch {
	case strings.Contains(m, "error decoding"):
		return "err-decode"
	case strings.Contains(m, "invalid commit target"):
		return "err-target"
	case strings.Contains(m, "invalid commit in grandpa"):
		return "err-commit"
	case strings.Contains(m, "invalid signature"):
		return "err-sig"
	case strings.Contains(m, "invalid precommit ancestry proof"):
		return "err-ancestry"
	case strings.Contains(m, "unused headers"):
		return "err-unused"
	}
	return "err-other"
}

func c19RunJust[N uint32 | uint64](kv map[string]string, body string) string {
	round, setID, off := c19U(kv["r"]), c19U(kv["s"]), c19U(kv["off"])
	salt := uint64(0)
	if kv["hs"] != "" {
		salt = c19U(kv["hs"])
	}
	par := c19List(kv["t"])
	n := uint64(len(par))

	// headers and hashes of the tree
	hashes := make([]hash.H256, n)
	headers := make([]*generic.Header[N, hash.H256, runtime.BlakeTwo256], n)
	depth := make([]uint64, n)
	for i := uint64(0); i < n; i++ {
		parent := hash.H256("")
		if par[i] < i {
			parent = hashes[par[i]]
			depth[i] = depth[par[i]] + 1
		}
		var sr [32]byte
		sr[0], sr[1], sr[2] = byte(i+1), 0x19, 0xc1
		sr[3], sr[4] = byte(salt), byte(salt>>8) // `hs=`: varies the hashes, hence their sort order
		headers[i] = generic.NewHeader[N, hash.H256, runtime.BlakeTwo256](
			N(off+depth[i]), hash.H256(""), hash.H256(sr[:]), parent, runtime.Digest{})
		hashes[i] = headers[i].Hash()
	}
	blockHash := func(b uint64) hash.H256 {
		switch {
		case b < n:
			return hashes[b]
		case b == n:
			return hash.H256("") // the zero hash (parent of the roots); decodes to ""
		}
		var u [32]byte
		u[0], u[1], u[31] = 0xee, byte(b), 0x19
		return hash.H256(u[:])
	}

	// voters
	var ws []grandpa.IDWeight[string]
	var auths primitives.AuthorityList
	for _, p := range c19Pairs(kv["v"]) {
		pub := c19Pub(p[0])
		ws = append(ws, grandpa.IDWeight[string]{ID: string(pub[:]), Weight: p[1]})
		auths = append(auths, primitives.AuthorityIDWeight{AuthorityID: pub, AuthorityWeight: primitives.AuthorityWeight(p[1])})
	}

	// precommits
	var pcs []grandpa.SignedPrecommit[hash.H256, N, primitives.AuthoritySignature, primitives.AuthorityID]
	if strings.TrimSpace(body) != "" {
		for _, op := range strings.Split(body, ";") {
			f := strings.Fields(op)
			blk, num, auth, kind := c19U(f[0]), N(c19U(f[1])), c19U(f[2]), f[3]
			pc := grandpa.Precommit[hash.H256, N]{TargetHash: blockHash(blk), TargetNumber: num}
			signed, sr, ss, signer := pc, round, setID, c19Pair(auth)
			switch kind {
			case "wr":
				sr++
			case "ws":
				ss++
			case "wk":
				signer = c19Pair(auth + 100)
			case "wn":
				signed.TargetNumber++
			}
			if strings.HasPrefix(kind, "cn") { // the signer's honest signature over (this hash, number X)
				signed.TargetNumber = N(c19U(kind[2:]))
			}
			payload := primitives.NewLocalizedPayload(primitives.RoundNumber(sr), primitives.SetID(ss), grandpa.NewMessage(signed))
			sig := signer.Sign(payload)
			if kind == "bad" {
				sig[0] ^= 1
			}
			pcs = append(pcs, grandpa.SignedPrecommit[hash.H256, N, primitives.AuthoritySignature, primitives.AuthorityID]{
				Precommit: pc, Signature: sig, ID: c19Pub(auth),
			})
		}
	}

	tc := strings.Split(kv["c"], ":")
	ft := strings.Split(kv["ft"], ":")
	just := primitives.GrandpaJustification[hash.H256, N]{
		Round: round,
		Commit: primitives.Commit[hash.H256, N]{
			TargetHash:   blockHash(c19U(tc[0])),
			TargetNumber: N(c19U(tc[1])),
			Precommits:   pcs,
		},
		VoteAncestries: []runtime.Header[N, hash.H256]{},
	}
	for _, b := range c19List(kv["h"]) {
		just.VoteAncestries = append(just.VoteAncestries, headers[b])
	}
	enc, err := scale.Marshal(just)
	if err != nil {
		return "err-encode"
	}

	res1 := "novoters"
	if vs := grandpa.NewVoterSet(ws); vs != nil {
		_, err := DecodeGrandpaJustificationVerifyFinalizes[hash.H256, N, runtime.BlakeTwo256](
			enc, HashNumber[hash.H256, N]{Hash: blockHash(c19U(ft[0])), Number: N(c19U(ft[1]))}, setID, *vs)
		res1 = c19Err(err)
	}
	dec, err := DecodeJustification[hash.H256, N, runtime.BlakeTwo256](enc)
	if err != nil {
		return res1 + "/err-decode"
	}
	res2 := c19Err(dec.Verify(setID, auths))
	if kv["fz"] == "1" { // forged-number lines: only the verdict (see Driver/C19.lean `coarse`)
		res1, res2 = c19Coarse(res1), c19Coarse(res2)
	}
	return res1 + "/" + res2
}

func c19Coarse(x string) string {
	switch x {
	case "ok", "novoters", "err-auth":
		return x
	}
	return "rej"
}

func c19RunJ(line string) string {
	hdr, body, _ := strings.Cut(line, "|")
	f := strings.Fields(hdr)
	if len(f) == 0 || (f[0] != "just" && f[0] != "justl") {
		return "bad-op"
	}
	kv := c19KV(hdr)
	out := c19RunJ2(kv, body)
	if f[0] == "justl" && out != "panic" && out != "timeout" && out != "bad-op" {
		return "returns"
	}
	return out
}

func c19RunJ2(kv map[string]string, body string) string {
	return vhWithTimeout(30000, func() string {
		switch kv["w"] {
		case "32":
			return c19RunJust[uint32](kv, body)
		case "64":
			return c19RunJust[uint64](kv, body)
		}
		return "bad-op"
	})
}
