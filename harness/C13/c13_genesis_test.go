//go:build verif

package genesis

import (
	"math/big"
	"sort"
	"strings"
	"testing"

	"github.com/ChainSafe/gossamer/pkg/scale"
)

// c13GenesisRun drives the genesis balances builder (lib/genesis/helpers.go), the third file the
// property concerns: `gbal <address bytes hex> <decimal balance>` builds the System.Account entry of
// one account from its *big.Int balance; observable = the storage key and value it produces and the
// balance as the caller still sees it afterwards.
func c13GenesisRun(line string) string {
	f := strings.Fields(line)
	if len(f) == 2 && f[0] == "gsv" {
		// generateStorageValue on a runtime-struct field of type *scale.Uint128 (staking.canceledPayout):
		// the raw genesis storage bytes of the number, and its JSON form for comparison
		n, ok := new(big.Int).SetString(f[1], 10)
		if !ok {
			return "bad-op"
		}
		u, err := scale.NewUint128(n)
		if err != nil {
			return "err"
		}
		holder := struct {
			Other uint32
			V     *scale.Uint128
		}{7, u}
		enc, err := generateStorageValue(&holder, 1)
		if err != nil {
			return "err"
		}
		js, err := u.MarshalJSON()
		if err != nil {
			return "err"
		}
		return vhHex(enc) + " json=" + string(js)
	}
	if len(f) != 3 || f[0] != "gbal" {
		return "bad-op"
	}
	n, ok := new(big.Int).SetString(f[2], 10)
	if !ok {
		return "bad-op"
	}
	res := map[string]string{}
	kv := &keyValue{iVal: []interface{}{vhUnhex(f[1]), n}}
	if err := buildBalances(kv, res); err != nil {
		return "err"
	}
	keys := make([]string, 0, len(res))
	for k := range res {
		keys = append(keys, k)
	}
	sort.Strings(keys)
	var sb strings.Builder
	for _, k := range keys {
		sb.WriteString(strings.TrimPrefix(k, "0x") + "=" + strings.TrimPrefix(res[k], "0x") + " ")
	}
	return sb.String() + "src=" + n.String()
}

func c13GenesisGen(r *vhRng) string {
	addr := r.Bytes(32)
	nb := r.Intn(17)
	b := make([]byte, nb)
	switch r.Intn(5) {
	case 0:
		for i := range b {
			b[i] = 0xff
		}
	case 1:
		if nb > 0 {
			b[0] = 1
		}
	case 2:
		if nb > 0 {
			b[0] = 1
			b[nb-1] |= 1
		}
	default:
		copy(b, r.Bytes(nb))
	}
	if r.Chance(1, 3) {
		return "gsv " + new(big.Int).SetBytes(b).String()
	}
	return "gbal " + vhHex(addr) + " " + new(big.Int).SetBytes(b).String()
}

func TestVerifC13Genesis(t *testing.T) { vhMain(t, c13GenesisGen, c13GenesisRun) }
