//go:build verif

package scale

import (
	"encoding/binary"
	"encoding/json"
	"fmt"
	"math/big"
	"strings"
	"testing"
)

// c13Show prints every view of a Uint128 that property C13 relates.
func c13Show(u *Uint128) string {
	js, err := json.Marshal(u)
	if err != nil {
		return "err-marshal"
	}
	if string(js) != u.String() {
		return "json!=string " + string(js) + " " + u.String()
	}
	var back Uint128
	rt := json.Unmarshal(js, &back) == nil && back == *u
	return fmt.Sprintf("%d %d %s %s %s rt=%v", u.Upper, u.Lower, vhHex(u.Bytes()),
		vhHex(u.Bytes(binary.BigEndian)), u.String(), rt)
}

func c13Run(line string) string {
	f := strings.Fields(line)
	switch f[0] {
	case "le":
		u, err := NewUint128(vhUnhex(f[1]))
		if err != nil {
			return "err"
		}
		return c13Show(u)
	case "les", "bes":
		// the bytes are a sub-slice of a larger buffer (spare capacity holding other data, like a
		// field cut out of a storage record): the value must not depend on what follows the
		// slice, and the constructor must leave the rest of the caller's buffer alone
		if len(f) != 3 {
			return "bad-op"
		}
		data, tail := vhUnhex(f[1]), vhUnhex(f[2])
		buf := append(append(make([]byte, 0, len(data)+len(tail)), data...), tail...)
		var u *Uint128
		var err error
		if f[0] == "les" {
			u, err = NewUint128(buf[:len(data):len(buf)])
		} else {
			u, err = NewUint128(buf[:len(data):len(buf)], binary.BigEndian)
		}
		if err != nil {
			return "err"
		}
		return c13Show(u) + " data=" + vhHex(buf[:len(data)]) + " tail=" + vhHex(buf[len(data):])
	case "be":
		u, err := NewUint128(vhUnhex(f[1]), binary.BigEndian)
		if err != nil {
			return "err"
		}
		return c13Show(u)
	case "big":
		n, ok := new(big.Int).SetString(f[1], 10)
		if !ok {
			return "bad-op"
		}
		u, err := NewUint128(n)
		if err != nil {
			return "err"
		}
		// the conversion must leave the caller's big.Int alone (a second conversion of the same
		// number gives the same value)
		out := c13Show(u) + " src=" + n.String()
		if u2, err2 := NewUint128(n); err2 != nil || *u2 != *u {
			out += " second-differs"
		}
		return out
	case "json":
		var u Uint128
		if err := json.Unmarshal([]byte(f[1]), &u); err != nil {
			return "err"
		}
		// decoding must not depend on what the receiver held before: direct call on dirty
		// receivers, and encoding/json re-using a non-nil pointer field
		for _, dirty := range []Uint128{{Upper: ^uint64(0), Lower: ^uint64(0)}, {Upper: 1, Lower: 0}, {Upper: 0, Lower: 7}} {
			d := dirty
			if err := d.UnmarshalJSON([]byte(f[1])); err != nil || d != u {
				return fmt.Sprintf("receiver-dependent fresh=%d/%d dirty=%d/%d", u.Upper, u.Lower, d.Upper, d.Lower)
			}
		}
		type holder struct{ V *Uint128 }
		h := holder{V: &Uint128{Upper: 9, Lower: 9}}
		if err := json.Unmarshal([]byte(`{"V":`+f[1]+`}`), &h); err != nil || h.V == nil || *h.V != u {
			return "receiver-dependent holder"
		}
		return c13Show(&u)
	case "scale":
		u, err := NewUint128(vhUnhex(f[1]))
		if err != nil {
			return "err"
		}
		enc, err := Marshal(u)
		if err != nil {
			return "err"
		}
		var back *Uint128
		rt := Unmarshal(enc, &back) == nil && back != nil && *back == *u
		return fmt.Sprintf("%s rt=%v", vhHex(enc), rt)
	case "cmp":
		a, _ := NewUint128(vhUnhex(f[1]))
		b, _ := NewUint128(vhUnhex(f[2]))
		return fmt.Sprint(a.Compare(b))
	}
	return "bad-op"
}

// c13Val draws 0..16 bytes concentrated at byte boundaries: single non-zero bytes, 2^8k±1,
// all-ones, non-palindromic patterns, random.
func c13Val(r *vhRng) []byte {
	n := r.Intn(17)
	b := make([]byte, n)
	switch r.Intn(6) {
	case 0: // one non-zero byte
		if n > 0 {
			b[r.Intn(n)] = byte(1 + r.Intn(255))
		}
	case 1: // 2^(8k) - 1
		for i := range b {
			b[i] = 0xff
		}
	case 2: // 2^(8k)+1 style
		if n > 0 {
			b[0] = 1
			b[n-1] |= 1
		}
	case 3: // ascending pattern
		for i := range b {
			b[i] = byte(i + 1)
		}
	default:
		copy(b, r.Bytes(n))
	}
	return b
}

func c13Gen(r *vhRng) string {
	switch r.Intn(12) {
	case 10, 11:
		return "scale " + vhHex(c13Val(r))
	case 0, 1, 2:
		if r.Chance(1, 3) {
			op := "les "
			if r.Chance(1, 3) {
				op = "bes "
			}
			tail := r.Bytes(1 + r.Intn(24))
			if r.Chance(1, 4) {
				for i := range tail {
					tail[i] = 0xff
				}
			}
			return op + vhHex(c13Val(r)) + " " + vhHex(tail)
		}
		return "le " + vhHex(c13Val(r))
	case 3, 4:
		return "be " + vhHex(c13Val(r))
	case 5, 6:
		return "big " + new(big.Int).SetBytes(c13Val(r)).String()
	case 7, 8:
		return "json " + new(big.Int).SetBytes(c13Val(r)).String()
	default:
		a := c13Val(r)
		b := c13Val(r)
		if r.Chance(1, 3) {
			b = append([]byte{}, a...)
			if len(b) > 0 && r.Bool() {
				b[r.Intn(len(b))] ^= 1 << uint(r.Intn(8))
			}
		}
		return "cmp " + vhHex(a) + " " + vhHex(b)
	}
}

func TestVerifC13(t *testing.T) { vhMain(t, c13Gen, c13Run) }
