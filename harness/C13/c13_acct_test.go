//go:build verif

package types

import (
	"fmt"
	"math/big"
	"reflect"
	"strings"
	"testing"

	"github.com/ChainSafe/gossamer/pkg/scale"
)

// acct nonce consumers producers sufficients free reserved misc frozen  (decimal)
//   -> SCALE encoding of types.AccountInfo, and whether decoding gives the same value back
func c13AcctRun(line string) string {
	f := strings.Fields(line)
	if len(f) != 9 || f[0] != "acct" {
		return "bad-op"
	}
	var u32 [4]uint32
	for i := 0; i < 4; i++ {
		var v uint64
		if _, err := fmt.Sscan(f[1+i], &v); err != nil || v > 0xffffffff {
			return "bad-op"
		}
		u32[i] = uint32(v)
	}
	var bal [4]*scale.Uint128
	for i := 0; i < 4; i++ {
		n, ok := new(big.Int).SetString(f[5+i], 10)
		if !ok {
			return "bad-op"
		}
		bal[i] = scale.MustNewUint128(n)
	}
	ai := AccountInfo{Nonce: u32[0], Consumers: u32[1], Producers: u32[2], Sufficients: u32[3],
		Data: AccountData{Free: bal[0], Reserved: bal[1], MiscFrozen: bal[2], FreeFrozen: bal[3]}}
	enc, err := scale.Marshal(ai)
	if err != nil {
		return "err"
	}
	var back AccountInfo
	rt := scale.Unmarshal(enc, &back) == nil && reflect.DeepEqual(ai, back)
	return fmt.Sprintf("%s rt=%v", vhHex(enc), rt)
}

func c13Bal(r *vhRng) string {
	n := r.Intn(17)
	b := make([]byte, n)
	switch r.Intn(4) {
	case 0:
		if n > 0 {
			b[r.Intn(n)] = byte(1 + r.Intn(255))
		}
	case 1:
		for i := range b {
			b[i] = 0xff
		}
	default:
		copy(b, r.Bytes(n))
	}
	return new(big.Int).SetBytes(b).String()
}

func c13AcctGen(r *vhRng) string {
	u := func() uint32 { return uint32(r.Pick(0, 1, 255, 256, 65535, 1<<31, 0xffffffff, int(r.U64()&0xffffffff))) }
	return fmt.Sprintf("acct %d %d %d %d %s %s %s %s", u(), u(), u(), u(), c13Bal(r), c13Bal(r), c13Bal(r), c13Bal(r))
}

func TestVerifC13Acct(t *testing.T) { vhMain(t, c13AcctGen, c13AcctRun) }
