//go:build verif

package modules

import (
	"fmt"
	"strings"
	"testing"
)

// ---------------------------------------------------------------- generator
// Key pools as in the trie harness (C02): small byte alphabets so that keys share nibble prefixes,
// diverge inside a byte, end in a zero low nibble and are prefixes of one another.

var c38Alphabets = [][]byte{
	{0x00, 0x01, 0x10},
	{0x10, 0x11, 0x1f},
	{0x00, 0x0f, 0xf0, 0xff},
	{0x12, 0x13, 0x30, 0x3f},
	{0x00, 0x01},
	{0x10, 0x15, 0x1f, 0x50},
	{0x00, 0x10, 0x20, 0x02},
	{0xab, 0xa0, 0x0a, 0xb0},
	{0x09, 0x0a, 0x9f, 0xa0}, // digit/letter boundary of the hex text order
	{0x99, 0x9a, 0xa9, 0xaa},
}

type c38Pool struct {
	alpha   []byte
	keys    [][]byte
	last    string
	hasLast bool
}

func c38Key(r *vhRng, alpha []byte, maxLen int) []byte {
	n := r.Intn(maxLen + 1)
	k := make([]byte, n)
	for i := range k {
		k[i] = alpha[r.Intn(len(alpha))]
	}
	return k
}

func c38NewPool(r *vhRng) *c38Pool {
	p := &c38Pool{}
	if r.Chance(1, 8) {
		p.alpha = r.Bytes(3)
	} else {
		p.alpha = c38Alphabets[r.Intn(len(c38Alphabets))]
	}
	maxLen := 2 + r.Intn(3)
	n := 1 + r.Intn(9)
	if r.Chance(1, 12) {
		n = 10 + r.Intn(12)
	}
	for i := 0; i < n; i++ {
		var k []byte
		switch {
		case len(p.keys) > 0 && r.Chance(1, 3):
			base := p.keys[r.Intn(len(p.keys))]
			k = append(append([]byte{}, base...), c38Key(r, p.alpha, 2)...)
		case len(p.keys) > 0 && r.Chance(1, 5):
			base := p.keys[r.Intn(len(p.keys))]
			k = append([]byte{}, base[:r.Intn(len(base)+1)]...)
		default:
			k = c38Key(r, p.alpha, maxLen)
		}
		p.keys = append(p.keys, k)
	}
	return p
}

func (p *c38Pool) key(r *vhRng) []byte {
	if r.Chance(1, 10) {
		return c38Key(r, p.alpha, 3)
	}
	return p.keys[r.Intn(len(p.keys))]
}

// prefix bytes: a byte prefix of a pool key; the last byte sometimes gets a zero low nibble, is
// swapped for a sibling, or the prefix is extended beyond every key; sometimes empty.
func (p *c38Pool) prefix(r *vhRng) []byte {
	k := p.key(r)
	pre := append([]byte{}, k[:r.Intn(len(k)+1)]...)
	if r.Chance(1, 10) {
		pre = append(append([]byte{}, k...), c38Key(r, p.alpha, 2)...)
		if r.Chance(1, 2) {
			pre = append(pre, 0x00)
		}
	}
	if len(pre) > 0 {
		switch r.Intn(6) {
		case 0, 3:
			pre[len(pre)-1] &= 0xf0
		case 1:
			pre[len(pre)-1] = p.alpha[r.Intn(len(p.alpha))]
		case 2:
			pre[len(pre)-1] &= 0x0f
		}
	}
	if r.Chance(1, 8) {
		pre = nil
	}
	return pre
}

func c38Tok(s string) string {
	if s == "" {
		return "-"
	}
	return s
}

func c38Upper(r *vhRng, s string) string {
	b := []byte(s)
	for i := 2; i < len(b); i++ {
		if b[i] >= 'a' && b[i] <= 'f' && r.Bool() {
			b[i] -= 32
		}
	}
	return string(b)
}

// prefix request string: mostly "0x"+hex, plus the malformed / unusual spellings; one time in
// three the prefix of the previous query again (the same listing asked twice, possibly of a
// state that changed in between)
func (p *c38Pool) prefixStr(r *vhRng) string {
	if p.hasLast && r.Chance(1, 3) {
		return p.last
	}
	p.last = p.prefixStr1(r)
	p.hasLast = true
	return p.last
}

func (p *c38Pool) prefixStr1(r *vhRng) string {
	pre := p.prefix(r)
	s := fmt.Sprintf("0x%x", pre)
	switch r.Intn(24) {
	case 0:
		if len(pre) == 0 {
			return ""
		}
		return c38Upper(r, s)
	case 1:
		return s[2:] // no 0x
	case 2:
		return s + "0" // odd length
	case 3:
		return s + "zz" // not hex
	case 4:
		return "0X" + s[2:]
	case 5:
		return c38Upper(r, s)
	}
	return s
}

// afterKey request string for a single page call
func (p *c38Pool) afterStr(r *vhRng) string {
	k := p.key(r)
	s := fmt.Sprintf("0x%x", k)
	switch r.Intn(16) {
	case 0:
		return ""
	case 1:
		return c38Upper(r, s)
	case 2:
		return s[2:]
	case 3:
		return s + "0"
	case 4:
		return s + "zz"
	case 5:
		if len(s) > 2 {
			return s[:len(s)-1]
		}
		return "0x"
	case 6:
		return "0x"
	case 7:
		return "0y" + s[2:]
	case 8:
		return s + "00"
	case 9:
		return "1x" + s[2:]
	}
	return s
}

func c38Value(r *vhRng) []byte {
	switch r.Intn(10) {
	case 0:
		return []byte{}
	case 1:
		return r.Bytes(2)
	case 2:
		return r.Bytes(r.Pick(31, 32, 33, 40, 70))
	default:
		return []byte{byte(1 + r.Intn(250))}
	}
}

func c38Qty(r *vhRng, n int) int {
	switch r.Intn(12) {
	case 0:
		return 0
	case 1:
		return 4294967295
	case 2, 3:
		return n
	case 4:
		return n + 1
	case 5:
		if n > 1 {
			return n - 1
		}
		return 1
	case 6, 7:
		return 2
	case 8:
		return 3
	}
	return 1
}

func (p *c38Pool) query(r *vhRng, n int) string {
	switch r.Intn(10) {
	case 0, 1, 2, 3:
		return fmt.Sprintf("loop %s %d", c38Tok(p.prefixStr(r)), c38Qty(r, n))
	case 4, 5, 6:
		return fmt.Sprintf("page %s %d %s", c38Tok(p.prefixStr(r)), c38Qty(r, n), c38Tok(p.afterStr(r)))
	default:
		if r.Chance(1, 6) {
			return "pairs nil"
		}
		return "pairs " + c38Tok(p.prefixStr(r))
	}
}

func c38Gen(r *vhRng) string {
	p := c38NewPool(r)
	ver := r.Pick(0, 1)
	mode := "mem"
	if r.Chance(2, 5) {
		mode = "db"
	}
	addr := "nil"
	switch r.Intn(12) {
	case 0:
		addr = "blk"
	case 1, 2, 3:
		addr = "root"
	}
	stored := map[string]bool{}
	var ops []string
	put := func(k []byte) {
		ops = append(ops, "put "+vhHex(k)+" "+vhHex(c38Value(r)))
		stored[string(k)] = true
	}
	burst := r.Intn(len(p.keys) + 1)
	for i := 0; i < burst; i++ {
		put(p.keys[i])
	}
	nq := 1 + r.Intn(6)
	commits := 1 // the genesis state
	dirty := burst > 0
	for q := 0; q < nq; q++ {
		// now and then change the state between two queries
		for r.Chance(1, 3) {
			k := p.key(r)
			if stored[string(k)] && r.Chance(1, 2) {
				ops = append(ops, "del "+vhHex(k))
				delete(stored, string(k))
			} else {
				put(k)
			}
			dirty = true
		}
		if r.Chance(1, 6) {
			// an earlier (or, rarely, a not yet existing) state by its index
			ix := r.Intn(commits)
			if r.Chance(1, 10) {
				ix = commits + r.Intn(2)
			}
			ops = append(ops, fmt.Sprintf("at %d %s", ix, p.query(r, len(stored))))
			continue
		}
		ops = append(ops, p.query(r, len(stored)))
		if dirty {
			commits++
			dirty = false
		}
	}
	return fmt.Sprintf("%d %s %s|%s", ver, mode, addr, strings.Join(ops, ";"))
}

func TestVerifC38(t *testing.T) { vhMain(t, c38Gen, c38Run) }
