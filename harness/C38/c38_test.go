//go:build verif

package modules

import (
	"encoding/json"
	"fmt"
	"sort"
	"strconv"
	"strings"
	"sync"

	"github.com/ChainSafe/gossamer/dot/state"
	"github.com/ChainSafe/gossamer/dot/types"
	"github.com/ChainSafe/gossamer/internal/database"
	"github.com/ChainSafe/gossamer/internal/log"
	"github.com/ChainSafe/gossamer/lib/common"
	"github.com/ChainSafe/gossamer/lib/runtime/storage"
	"github.com/ChainSafe/gossamer/pkg/trie"
	"github.com/ChainSafe/gossamer/pkg/trie/inmemory"
)

// One case = `<ver> <mode> <addr>|op;op;...`
//   ver  : 0 | 1                 state trie version
//   mode : mem | db              mem: requests are served by the storage state that stored the tries
//                                     (they are cached in its Tries map);
//                                db : requests are served by a second InmemoryStorageState over the same
//                                     database and block state, which must load every trie (LoadFromDB)
//   addr : nil | root | blk      what the request's block field holds: nothing (best block), the
//                                state root of the best block, or the hash of the best block
// One case = one database, one real BlockState (from a genesis with the empty state), one serving
// storage state.  A query that follows state changes first commits them: the full state is stored
// (StoreTrie) and a block with that state root is added on top of the best block (new best).
// ops (tokens: hex bytes with `-` = empty; request strings verbatim with `-` = ""):
//   put k v | del k              change the state (`del` of a key that is not stored is a no-op)
//   page P Q A                   one StateModule.GetKeysPaged{Prefix:P, Qty:Q, AfterKey:A}
//   loop P Q                     the client loop: page after the last key returned, until an empty page
//   pairs P                      StateModule.GetPairs{Prefix:&P} (`nil` = no prefix pointer)
//   at I page|loop|pairs …       the same request against the I-th committed state (0 = genesis),
//                                addressed by its state root (GetKeysPaged) / block hash (GetPairs);
//                                does not commit; `bad-ix` when there is no such state yet
// observables (joined by `;`):
//   put/del : ok
//   page    : err | none | key,key,...
//   loop    : err | none | page/page/... (+ `/nonterm` when the cap of calls is reached)
//   pairs   : err | none | key=value,...   (sorted by key when the listing came from the Entries map)

var c38Quiet sync.Once

type c38Tel struct{}

func (c38Tel) SendMessage(json.Marshaler) {}

type c38KV struct {
	del  bool
	k, v []byte
}

type c38Case struct {
	ver    trie.TrieLayout
	mode   string
	addr   string
	hist   []c38KV
	stored map[string]bool
	dirty  bool
	db     database.Database
	bs     *state.BlockState
	writer *state.InmemoryStorageState
	sm     *StateModule
	roots  []common.Hash // state root of every committed state; 0 = genesis
	blocks []common.Hash // hash of the block that carries it
}

func (c *c38Case) close() {
	if c.db != nil {
		c.db.Close()
		c.db = nil
	}
}

// open creates the database, the block state and the storage state(s) of the case.
func (c *c38Case) open() error {
	db, err := database.NewPebble("", true)
	if err != nil {
		return err
	}
	c.db = db
	tries := state.NewTries()
	genesis := &types.Header{Number: 0, StateRoot: trie.EmptyHash, Digest: types.NewDigest()}
	c.bs, err = state.NewBlockStateFromGenesis(db, tries, genesis, c38Tel{})
	if err != nil {
		return err
	}
	c.writer, err = state.NewStorageState(db, c.bs, tries)
	if err != nil {
		return err
	}
	serve := c.writer
	if c.mode == "db" {
		// a storage state that is never handed a trie: it loads each one from the database
		serve, err = state.NewStorageState(db, c.bs, state.NewTries())
		if err != nil {
			return err
		}
	}
	c.sm = NewStateModule(nil, serve, nil, nil)
	c.roots = []common.Hash{trie.EmptyHash}
	c.blocks = []common.Hash{genesis.Hash()}
	return nil
}

// commit replays the history into a fresh trie, stores it and adds a block with that state.
func (c *c38Case) commit() error {
	tr := inmemory.NewEmptyTrie()
	tr.SetVersion(c.ver)
	for _, h := range c.hist {
		if h.del {
			if err := tr.Delete(h.k); err != nil {
				return err
			}
		} else if err := tr.Put(h.k, h.v); err != nil {
			return err
		}
	}
	root := tr.MustHash()
	if err := c.writer.StoreTrie(storage.NewTrieState(tr), nil); err != nil {
		return err
	}
	prd, err := types.NewBabeSecondaryPlainPreDigest(0, uint64(len(c.blocks))).ToPreRuntimeDigest()
	if err != nil {
		return err
	}
	digest := types.NewDigest()
	if err := digest.Add(*prd); err != nil {
		return err
	}
	block := &types.Block{
		Header: types.Header{
			ParentHash: c.blocks[len(c.blocks)-1],
			Number:     uint(len(c.blocks)),
			StateRoot:  root,
			Digest:     digest,
		},
		Body: *types.NewBody([]types.Extrinsic{}),
	}
	if err := c.bs.AddBlock(block); err != nil {
		return err
	}
	if c.bs.BestBlockHash() != block.Header.Hash() {
		return fmt.Errorf("new block is not the best block")
	}
	c.roots = append(c.roots, root)
	c.blocks = append(c.blocks, block.Header.Hash())
	c.dirty = false
	return nil
}

func c38Str(tok string) string {
	if tok == "-" {
		return ""
	}
	return tok
}

func c38Join(ks []string) string {
	if len(ks) == 0 {
		return "none"
	}
	return strings.Join(ks, ",")
}

// c38Query is a parsed request.
type c38Query struct {
	kind   string // page | loop | pairs
	prefix string
	nilPfx bool
	qty    uint32
	after  string
}

func c38ParseQuery(f []string) (q c38Query, ok bool) {
	switch {
	case len(f) == 4 && f[0] == "page":
		n, err := strconv.ParseUint(f[2], 10, 32)
		if err != nil {
			return q, false
		}
		return c38Query{kind: "page", prefix: c38Str(f[1]), qty: uint32(n), after: c38Str(f[3])}, true
	case len(f) == 3 && f[0] == "loop":
		n, err := strconv.ParseUint(f[2], 10, 32)
		if err != nil {
			return q, false
		}
		return c38Query{kind: "loop", prefix: c38Str(f[1]), qty: uint32(n)}, true
	case len(f) == 2 && f[0] == "pairs":
		if f[1] == "nil" {
			return c38Query{kind: "pairs", nilPfx: true}, true
		}
		return c38Query{kind: "pairs", prefix: c38Str(f[1])}, true
	}
	return q, false
}

// query runs one request; `paged` / `pairs` are the block fields for GetKeysPaged / GetPairs.
func (c *c38Case) query(q c38Query, paged, pairs *common.Hash) string {
	switch q.kind {
	case "page":
		var res StateStorageKeysResponse
		req := &StateStorageKeyRequest{Prefix: q.prefix, Qty: q.qty, AfterKey: q.after, Block: paged}
		if err := c.sm.GetKeysPaged(nil, req, &res); err != nil {
			return "err"
		}
		return c38Join(res)
	case "loop":
		// every key was put by an earlier op of this line: more calls than that (+2) is a loop
		limit := 2
		for _, h := range c.hist {
			if !h.del {
				limit++
			}
		}
		after := ""
		var pages []string
		for i := 0; ; i++ {
			if i >= limit {
				pages = append(pages, "nonterm")
				break
			}
			var res StateStorageKeysResponse
			req := &StateStorageKeyRequest{Prefix: q.prefix, Qty: q.qty, AfterKey: after, Block: paged}
			if err := c.sm.GetKeysPaged(nil, req, &res); err != nil {
				pages = append(pages, "err")
				break
			}
			if len(res) == 0 {
				break
			}
			pages = append(pages, strings.Join(res, ","))
			after = res[len(res)-1]
		}
		if len(pages) == 0 {
			return "none"
		}
		return strings.Join(pages, "/")
	case "pairs":
		var pfx *string
		if !q.nilPfx {
			s := q.prefix
			pfx = &s
		}
		fromMap := pfx == nil || *pfx == "" || *pfx == "0x"
		var res StatePairResponse
		req := &StatePairRequest{Prefix: pfx, Bhash: pairs}
		if err := c.sm.GetPairs(nil, req, &res); err != nil {
			return "err"
		}
		kvs := make([][]string, len(res))
		for i, it := range res {
			kv, ok := it.([]string)
			if !ok || len(kv) != 2 {
				return "bad-item"
			}
			kvs[i] = kv
		}
		if fromMap {
			// Go map order: sort by the key text (lower-case hex: the byte order of the keys)
			sort.SliceStable(kvs, func(a, b int) bool { return kvs[a][0] < kvs[b][0] })
		}
		items := make([]string, len(kvs))
		for i, kv := range kvs {
			items[i] = kv[0] + "=" + kv[1]
		}
		return c38Join(items)
	}
	return "bad-op"
}

func (c *c38Case) op(op string) string {
	f := strings.Fields(op)
	if len(f) == 0 {
		return "bad-op"
	}
	switch {
	case f[0] == "put" && len(f) == 3:
		k, v := vhUnhex(f[1]), vhUnhex(f[2])
		c.hist = append(c.hist, c38KV{k: k, v: v})
		c.stored[string(k)] = true
		c.dirty = true
		return "ok"
	case f[0] == "del" && len(f) == 2:
		k := vhUnhex(f[1])
		if c.stored[string(k)] {
			c.hist = append(c.hist, c38KV{del: true, k: k})
			delete(c.stored, string(k))
			c.dirty = true
		}
		return "ok"
	case f[0] == "at" && len(f) >= 3:
		ix, err := strconv.ParseUint(f[1], 10, 31)
		if err != nil {
			return "bad-op"
		}
		q, ok := c38ParseQuery(f[2:])
		if !ok {
			return "bad-op"
		}
		if int(ix) >= len(c.roots) {
			return "bad-ix"
		}
		root, blk := c.roots[ix], c.blocks[ix]
		return c.query(q, &root, &blk)
	}
	q, ok := c38ParseQuery(f)
	if !ok {
		return "bad-op"
	}
	if c.dirty {
		if err := c.commit(); err != nil {
			return "err-commit " + err.Error()
		}
	}
	var blk *common.Hash
	switch c.addr {
	case "root":
		h := c.roots[len(c.roots)-1]
		blk = &h
	case "blk":
		h := c.blocks[len(c.blocks)-1]
		blk = &h
	}
	return c.query(q, blk, blk)
}

func c38Run(line string) string {
	i := strings.IndexByte(line, '|')
	if i < 0 {
		return "bad-op"
	}
	h := strings.Fields(line[:i])
	if len(h) != 3 {
		return "bad-op"
	}
	c := &c38Case{mode: h[1], addr: h[2], stored: map[string]bool{}}
	defer c.close()
	switch h[0] {
	case "0":
		c.ver = trie.V0
	case "1":
		c.ver = trie.V1
	default:
		return "bad-op"
	}
	if (c.mode != "mem" && c.mode != "db") || (c.addr != "nil" && c.addr != "root" && c.addr != "blk") {
		return "bad-op"
	}
	// the block state logs every finalisation / import at info level
	c38Quiet.Do(func() { log.Patch(log.SetLevel(log.Critical)) })
	if err := c.open(); err != nil {
		return "err-open " + err.Error()
	}
	ops := strings.Split(line[i+1:], ";")
	outs := make([]string, len(ops))
	for j, op := range ops {
		op := op
		outs[j] = vhCatch(func() string { return c.op(op) })
		if outs[j] == "panic" || strings.HasPrefix(outs[j], "panic ") {
			outs = outs[:j+1]
			break
		}
	}
	return strings.Join(outs, ";")
}
