//go:build verif

package modules

import (
	"fmt"
	"sort"
	"strconv"
	"strings"

	"github.com/ChainSafe/gossamer/dot/state"
	"github.com/ChainSafe/gossamer/internal/database"
	"github.com/ChainSafe/gossamer/lib/common"
	"github.com/ChainSafe/gossamer/lib/runtime/storage"
	"github.com/ChainSafe/gossamer/pkg/trie"
	"github.com/ChainSafe/gossamer/pkg/trie/inmemory"
)

// One case = `<ver> <mode> <addr>|op;op;...`
//   ver  : 0 | 1                 state trie version
//   mode : mem | db              mem: the trie is cached in the storage state's Tries map;
//                                db : the trie was written with StoreTrie and is served by a fresh
//                                     InmemoryStorageState over the same database (LoadFromDB)
//   addr : nil | root | blk      what the request's block field holds: nothing (best block), the
//                                state root, or the hash of the block whose state this is
// ops (tokens: hex bytes with `-` = empty; request strings verbatim with `-` = ""):
//   put k v | del k              build the state (`del` of a key that is not stored is a no-op)
//   page P Q A                   one StateModule.GetKeysPaged{Prefix:P, Qty:Q, AfterKey:A}
//   loop P Q                     the client loop: page after the last key returned, until an empty page
//   pairs P                      StateModule.GetPairs{Prefix:&P} (`nil` = no prefix pointer)
// observables (joined by `;`):
//   put/del : ok
//   page    : err | none | key,key,...
//   loop    : err | none | page/page/... (+ `/nonterm` when the cap of calls is reached)
//   pairs   : err | none | key=value,...   (sorted by key when the listing came from the Entries map)

// c38Store is the real InmemoryStorageState; only the resolution of "best block" and of a block
// hash to a state root (the BlockState, which cannot be built offline) is supplied here.
type c38Store struct {
	*state.InmemoryStorageState
	best common.Hash // state root of the best block
	blk  common.Hash // hash of the (only) block
}

func (s *c38Store) GetStorage(root *common.Hash, key []byte) ([]byte, error) {
	if root == nil {
		root = &s.best
	}
	return s.InmemoryStorageState.GetStorage(root, key)
}

func (s *c38Store) Entries(root *common.Hash) (map[string][]byte, error) {
	if root == nil {
		root = &s.best
	}
	return s.InmemoryStorageState.Entries(root)
}

func (s *c38Store) GetKeysWithPrefix(root *common.Hash, prefix []byte) ([][]byte, error) {
	if root == nil {
		root = &s.best
	}
	return s.InmemoryStorageState.GetKeysWithPrefix(root, prefix)
}

func (s *c38Store) GetStateRootFromBlock(bhash *common.Hash) (*common.Hash, error) {
	if bhash == nil || *bhash == s.blk {
		r := s.best
		return &r, nil
	}
	return nil, fmt.Errorf("block %s not found", bhash)
}

type c38KV struct {
	del  bool
	k, v []byte
}

type c38Case struct {
	ver    trie.TrieLayout
	mode   string
	addr   string
	hist   []c38KV
	stored map[string]bool
	sm     *StateModule // nil when the state changed since the last query
	st     *c38Store
	db     database.Database
}

func (c *c38Case) close() {
	if c.db != nil {
		c.db.Close()
		c.db = nil
	}
}

// build replays the history into a fresh trie, stores it in a fresh storage state.
func (c *c38Case) build() error {
	c.close()
	tr := inmemory.NewEmptyTrie()
	tr.SetVersion(c.ver)
	for _, h := range c.hist {
		if h.del {
			if err := tr.Delete(h.k); err != nil {
				return err
			}
		} else if err := tr.Put(h.k, h.v); err != nil {
			return err
		}
	}
	db, err := database.NewPebble("", true)
	if err != nil {
		return err
	}
	c.db = db
	ss, err := state.NewStorageState(db, nil, state.NewTries())
	if err != nil {
		return err
	}
	if err := ss.StoreTrie(storage.NewTrieState(tr), nil); err != nil {
		return err
	}
	root := tr.MustHash()
	if c.mode == "db" {
		// a storage state that has never seen the trie: every access loads it from the database
		ss, err = state.NewStorageState(db, nil, state.NewTries())
		if err != nil {
			return err
		}
	}
	c.st = &c38Store{InmemoryStorageState: ss, best: root, blk: common.MustBlake2bHash(append([]byte("blk"), root[:]...))}
	c.sm = NewStateModule(nil, c.st, nil, nil)
	return nil
}

func (c *c38Case) block() *common.Hash {
	switch c.addr {
	case "root":
		h := c.st.best
		return &h
	case "blk":
		h := c.st.blk
		return &h
	}
	return nil
}

func c38Str(tok string) string {
	if tok == "-" {
		return ""
	}
	return tok
}

func c38Join(ks []string) string {
	if len(ks) == 0 {
		return "none"
	}
	return strings.Join(ks, ",")
}

func (c *c38Case) op(op string) string {
	f := strings.Fields(op)
	if len(f) == 0 {
		return "bad-op"
	}
	switch {
	case f[0] == "put" && len(f) == 3:
		k, v := vhUnhex(f[1]), vhUnhex(f[2])
		c.hist = append(c.hist, c38KV{k: k, v: v})
		c.stored[string(k)] = true
		c.sm = nil
		return "ok"
	case f[0] == "del" && len(f) == 2:
		k := vhUnhex(f[1])
		if c.stored[string(k)] {
			c.hist = append(c.hist, c38KV{del: true, k: k})
			delete(c.stored, string(k))
			c.sm = nil
		}
		return "ok"
	}
	if f[0] != "page" && f[0] != "loop" && f[0] != "pairs" {
		return "bad-op"
	}
	if c.sm == nil {
		if err := c.build(); err != nil {
			return "err-build"
		}
	}
	switch {
	case f[0] == "page" && len(f) == 4:
		q, err := strconv.ParseUint(f[2], 10, 32)
		if err != nil {
			return "bad-op"
		}
		var res StateStorageKeysResponse
		req := &StateStorageKeyRequest{Prefix: c38Str(f[1]), Qty: uint32(q), AfterKey: c38Str(f[3]), Block: c.block()}
		if err := c.sm.GetKeysPaged(nil, req, &res); err != nil {
			return "err"
		}
		return c38Join(res)
	case f[0] == "loop" && len(f) == 3:
		q, err := strconv.ParseUint(f[2], 10, 32)
		if err != nil {
			return "bad-op"
		}
		// every key was put by an earlier op of this line: more calls than that (+2) is a loop
		limit := 2
		for _, h := range c.hist {
			if !h.del {
				limit++
			}
		}
		after := ""
		var pages []string
		for i := 0; ; i++ {
			if i >= limit {
				pages = append(pages, "nonterm")
				break
			}
			var res StateStorageKeysResponse
			req := &StateStorageKeyRequest{Prefix: c38Str(f[1]), Qty: uint32(q), AfterKey: after, Block: c.block()}
			if err := c.sm.GetKeysPaged(nil, req, &res); err != nil {
				pages = append(pages, "err")
				break
			}
			if len(res) == 0 {
				break
			}
			pages = append(pages, strings.Join(res, ","))
			after = res[len(res)-1]
		}
		if len(pages) == 0 {
			return "none"
		}
		return strings.Join(pages, "/")
	case f[0] == "pairs" && len(f) == 2:
		var pfx *string
		if f[1] != "nil" {
			s := c38Str(f[1])
			pfx = &s
		}
		fromMap := pfx == nil || *pfx == "" || *pfx == "0x"
		var res StatePairResponse
		req := &StatePairRequest{Prefix: pfx, Bhash: c.block()}
		if err := c.sm.GetPairs(nil, req, &res); err != nil {
			return "err"
		}
		kvs := make([][]string, len(res))
		for i, it := range res {
			kv, ok := it.([]string)
			if !ok || len(kv) != 2 {
				return "bad-item"
			}
			kvs[i] = kv
		}
		if fromMap {
			// Go map order: sort by the key text (lower-case hex: the byte order of the keys)
			sort.SliceStable(kvs, func(a, b int) bool { return kvs[a][0] < kvs[b][0] })
		}
		items := make([]string, len(kvs))
		for i, kv := range kvs {
			items[i] = kv[0] + "=" + kv[1]
		}
		return c38Join(items)
	}
	return "bad-op"
}

func c38Run(line string) string {
	i := strings.IndexByte(line, '|')
	if i < 0 {
		return "bad-op"
	}
	h := strings.Fields(line[:i])
	if len(h) != 3 {
		return "bad-op"
	}
	c := &c38Case{mode: h[1], addr: h[2], stored: map[string]bool{}}
	defer c.close()
	switch h[0] {
	case "0":
		c.ver = trie.V0
	case "1":
		c.ver = trie.V1
	default:
		return "bad-op"
	}
	if (c.mode != "mem" && c.mode != "db") || (c.addr != "nil" && c.addr != "root" && c.addr != "blk") {
		return "bad-op"
	}
	ops := strings.Split(line[i+1:], ";")
	outs := make([]string, len(ops))
	for j, op := range ops {
		op := op
		outs[j] = vhCatch(func() string { return c.op(op) })
		if outs[j] == "panic" || strings.HasPrefix(outs[j], "panic ") {
			outs = outs[:j+1]
			break
		}
	}
	return strings.Join(outs, ";")
}
