//go:build verif

package grandpa

import (
	"fmt"
	"sort"
	"strconv"
	"strings"
)

// c20Dump prints the compressed vote graph of the round: every entry (block index, number relative to the
// base, ancestor hashes, descendant hashes in stored order, set bit positions of the cumulative vote)
// ordered by block index, then the heads.
func c20Dump(c *c20Case, round *Round[uint32, string, uint32, int]) string {
	idx := func(h string) string {
		for i, n := range c.names {
			if n == h {
				return strconv.Itoa(i)
			}
		}
		return "?" + h
	}
	list := func(hs []string) string {
		if len(hs) == 0 {
			return "-"
		}
		s := make([]string, len(hs))
		for i, h := range hs {
			s[i] = idx(h)
		}
		return strings.Join(s, ".")
	}
	type row struct {
		i int
		s string
	}
	var rows []row
	round.graph.entries.Scan(func(h string, e voteGraphEntry[string, uint32, *voteNode[uint32], vote[uint32]]) bool {
		var bits []string
		for wi, w := range e.cumulativeVote.bits.bits {
			for j := 0; j < 64; j++ {
				if w&(uint64(1)<<uint(63-j)) != 0 {
					bits = append(bits, strconv.Itoa(wi*64+j))
				}
			}
		}
		bs := "-"
		if len(bits) > 0 {
			bs = strings.Join(bits, ".")
		}
		i := -1
		for k, n := range c.names {
			if n == h {
				i = k
			}
		}
		rows = append(rows, row{i, fmt.Sprintf("%s:%d:%s:%s:%s", idx(h), int64(e.number)-int64(c.baseNum),
			list(e.ancestors), list(e.descendants), bs)})
		return true
	})
	sort.Slice(rows, func(a, b int) bool { return rows[a].i < rows[b].i })
	out := make([]string, len(rows))
	for i, r := range rows {
		out[i] = r.s
	}
	var heads []int
	for _, h := range round.graph.heads.Keys() {
		for k, n := range c.names {
			if n == h {
				heads = append(heads, k)
			}
		}
	}
	sort.Ints(heads)
	hs := "-"
	if len(heads) > 0 {
		hs = c20Join(heads)
		hs = strings.ReplaceAll(hs, ",", ".")
	}
	return strings.Join(out, "/") + "^" + hs
}
