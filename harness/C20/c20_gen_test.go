//go:build verif

package grandpa

import (
	"fmt"
	"os"
	"strconv"
	"strings"
)

// ---- exhaustive small scopes -------------------------------------------------------------------
//
// A scope = (number of blocks k, weight vector). It enumerates every block tree on k blocks
// (parent[i] < i) and, per voter and phase, every option of: no vote | one vote for a block |
// a double vote for two different blocks. The import order is a random shuffle (a different one
// for every seed). Scopes are taken in the listed order while they fit in the budget.

type c20Scope struct {
	k  int
	ws []int
}

var c20Scopes = []c20Scope{
	{1, []int{1}}, {2, []int{1}}, {1, []int{1, 1}}, {3, []int{1}}, {2, []int{1, 1}}, {2, []int{1, 3}},
	{1, []int{1, 1, 1, 1}}, {3, []int{1, 3}}, {3, []int{1, 1}}, {2, []int{1, 1, 2}}, {2, []int{1, 1, 1}},
	{2, []int{1, 1, 3}}, {4, []int{1}}, {5, []int{1}},
	{2, []int{1, 1, 1, 1}}, {2, []int{1, 1, 1, 2}},
	{4, []int{1, 3}}, {4, []int{1, 1}},
	{3, []int{1, 1, 2}}, {3, []int{1, 1, 3}}, {3, []int{1, 1, 1}}, {3, []int{1, 2, 4}},
	{5, []int{1, 3}},
}

func c20Trees(k int) int {
	n := 1
	for i := 2; i < k; i++ {
		n *= i
	}
	return n
}

func c20Opts(k int) int { return 1 + k + k*(k-1)/2 }

func (s c20Scope) count() int {
	n := c20Trees(s.k)
	o := c20Opts(s.k)
	for i := 0; i < 2*len(s.ws); i++ {
		n *= o
		if n > 1<<40 {
			return 1 << 40
		}
	}
	return n
}

// decode option index into the vote targets of one voter in one phase
func c20Opt(k, o int) []int {
	if o == 0 {
		return nil
	}
	o--
	if o < k {
		return []int{o}
	}
	o -= k
	for a := 0; a < k; a++ {
		for b := a + 1; b < k; b++ {
			if o == 0 {
				return []int{a, b}
			}
			o--
		}
	}
	return nil
}

func c20Join(xs []int) string {
	s := make([]string, len(xs))
	for i, x := range xs {
		s[i] = strconv.Itoa(x)
	}
	return strings.Join(s, ",")
}

func c20Names(r *vhRng, k int) string {
	letters := []byte("abcdefghijklmnopqrstuvwxyz")
	// a random k-subset in random order: hash order is unrelated to the tree shape
	for i := 0; i < k; i++ {
		j := i + r.Intn(len(letters)-i)
		letters[i], letters[j] = letters[j], letters[i]
	}
	return string(letters[:k])
}

func c20Shuffle(r *vhRng, ops []string) {
	for i := len(ops) - 1; i > 0; i-- {
		j := r.Intn(i + 1)
		ops[i], ops[j] = ops[j], ops[i]
	}
}

func c20Header(r *vhRng, par, ws []int) string {
	return fmt.Sprintf("t=%s w=%s h=%s b=%d|", c20Join(par), c20Join(ws), c20Names(r, len(par)), r.Pick(0, 1, 1, 7))
}

func c20Exhaustive(r *vhRng, s c20Scope, j int) string {
	k := s.k
	par := make([]int, k)
	for i := 2; i < k; i++ {
		par[i] = j % i
		j /= i
	}
	o := c20Opts(k)
	var ops []string
	for v := range s.ws {
		for ph := 0; ph < 2; ph++ {
			targets := c20Opt(k, j%o)
			j /= o
			if len(targets) == 2 && r.Bool() {
				targets[0], targets[1] = targets[1], targets[0]
			}
			for _, b := range targets {
				ops = append(ops, fmt.Sprintf("%s %d %d 0", []string{"pv", "pc"}[ph], v, b))
			}
		}
	}
	// order: fully shuffled, or all prevotes first (the usual order of a round), keeping each voter's own order
	switch r.Intn(3) {
	case 0:
		var pv, pc []string
		for _, op := range ops {
			if op[1] == 'v' {
				pv = append(pv, op)
			} else {
				pc = append(pc, op)
			}
		}
		c20Shuffle(r, pv)
		c20Shuffle(r, pc)
		ops = append(pv, pc...)
	default:
		c20Shuffle(r, ops)
	}
	return c20Header(r, par, s.ws) + strings.Join(ops, ";")
}

// ---- random larger cases -----------------------------------------------------------------------

func c20RandomTree(r *vhRng, k int) []int {
	par := make([]int, k)
	mode := r.Intn(4)
	for i := 2; i < k; i++ {
		switch mode {
		case 0: // mostly a chain with a few forks
			if r.Chance(3, 4) {
				par[i] = i - 1
			} else {
				par[i] = r.Intn(i)
			}
		case 1: // bushy near the base
			par[i] = r.Intn(1 + i/2)
		default:
			par[i] = r.Intn(i)
		}
	}
	return par
}

func c20RandomWeights(r *vhRng) []int {
	if r.Chance(1, 12) {
		// many voters: bit positions beyond the first 64-bit word of the bitfields; four heavy voters
		// at random positions (often around the word boundary) carry a supermajority between them
		m := r.Pick(31, 32, 33, 34, 40, 63, 64, 65, 70)
		ws := make([]int, m)
		for i := range ws {
			ws[i] = 1
		}
		for i := 0; i < 4; i++ {
			pos := r.Intn(m)
			if r.Bool() {
				pos = (30 + r.Intn(5)) % m
			}
			ws[pos] = 25 + r.Intn(10)
		}
		return ws
	}
	m := 1 + r.Intn(7)
	ws := make([]int, m)
	mode := r.Intn(5)
	for i := range ws {
		switch mode {
		case 0, 1:
			ws[i] = 1
		case 2:
			ws[i] = 1 + r.Intn(3)
		case 3:
			ws[i] = r.Pick(1, 1, 2, 5, 10)
		default:
			ws[i] = 1 + r.Intn(100)
		}
	}
	return ws
}

func c20Random(r *vhRng) string {
	k := 1 + r.Intn(8)
	if r.Chance(1, 10) {
		k = 9 + r.Intn(6)
	}
	par := c20RandomTree(r, k)
	ws := c20RandomWeights(r)
	m := len(ws)
	// ancestors-or-self of a favourite leaf-ward block: votes concentrate there so that supermajorities form
	fav := r.Intn(k)
	onFav := []int{}
	for b := fav; ; b = par[b] {
		onFav = append(onFav, b)
		if b == 0 {
			break
		}
	}
	below := []int{} // descendants of fav
	for b := 0; b < k; b++ {
		for a := b; ; a = par[a] {
			if a == fav {
				below = append(below, b)
				break
			}
			if a == 0 {
				break
			}
		}
	}
	target := func() int {
		switch r.Intn(10) {
		case 0, 1, 2:
			return onFav[r.Intn(len(onFav))]
		case 3, 4, 5, 6:
			return below[r.Intn(len(below))]
		default:
			return r.Intn(k)
		}
	}
	pEquiv := r.Pick(0, 0, 1, 2, 4) // in 10
	pVote := r.Pick(5, 8, 9, 10)    // in 10
	var ops []string
	for v := 0; v < m; v++ {
		for ph := 0; ph < 2; ph++ {
			if m > 20 && ws[v] == 1 && !r.Chance(1, 6) {
				continue
			}
			if !r.Chance(pVote, 10) {
				continue
			}
			n := 1
			if r.Chance(pEquiv, 10) {
				n = 2 + r.Intn(2)
			}
			first := target()
			for i := 0; i < n; i++ {
				b := first
				sg := 0
				if i > 0 {
					switch r.Intn(8) {
					case 0:
						sg = 1 // the same block signed differently
					case 1: // a block on the same chain
						b = onFav[r.Intn(len(onFav))]
					default:
						b = target()
					}
				}
				ops = append(ops, fmt.Sprintf("%s %d %d %d", []string{"pv", "pc"}[ph], v, b, sg))
			}
		}
	}
	// duplicates
	for i, n := 0, len(ops); i < n; i++ {
		if r.Chance(1, 8) {
			ops = append(ops, ops[i])
		}
	}
	// votes of ids outside the voter set
	if r.Chance(1, 6) {
		ops = append(ops, fmt.Sprintf("%s %d %d 0", r.PickStr("pv", "pc"), m+r.Intn(2), target()))
	}
	// a target outside the chain (the tracker counts the voter, the graph does not)
	if r.Chance(1, 25) {
		ops = append(ops, fmt.Sprintf("%s %d %d 0", r.PickStr("pv", "pc"), r.Intn(m), k))
	}
	for i := r.Intn(3); i > 0; i-- {
		ops = append(ops, "g")
	}
	if r.Chance(1, 3) {
		var pv, rest []string
		for _, op := range ops {
			if strings.HasPrefix(op, "pv") {
				pv = append(pv, op)
			} else {
				rest = append(rest, op)
			}
		}
		c20Shuffle(r, pv)
		c20Shuffle(r, rest)
		ops = append(pv, rest...)
	} else {
		c20Shuffle(r, ops)
	}
	return c20Header(r, par, ws) + strings.Join(ops, ";")
}

func (r *vhRng) PickStr(xs ...string) string { return xs[r.Intn(len(xs))] }

// ---- the generator -----------------------------------------------------------------------------

var c20Calls int

func c20Gen(r *vhRng) string {
	i := c20Calls
	c20Calls++
	shards := vhEnvInt("C20_SHARDS", 4)
	shard := vhEnvInt("VERIF_SEED", 1) % 1000 % shards
	budget := vhEnvInt("VERIF_N", 0) * shards * 7 / 10
	j := i*shards + shard
	if os.Getenv("C20_NO_EXHAUSTIVE") == "" {
		used := 0
		for _, s := range c20Scopes {
			n := s.count()
			if used+n > budget {
				break
			}
			if j < used+n {
				return c20Exhaustive(r, s, j-used)
			}
			used += n
		}
	}
	if r.Chance(1, 400) {
		return fmt.Sprintf("const threshold %d", r.Pick(1, 2, 3, 4, 5, 6, 7, 10, 100, 1+r.Intn(1000)))
	}
	if r.Chance(1, 25) {
		return c20GenBF(r)
	}
	return c20Random(r)
}
