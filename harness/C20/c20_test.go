//go:build verif

package grandpa

import (
	"fmt"
	"strconv"
	"strings"
	"testing"
)

// Harness of property C20: drives the real Round (round.go) over the real compressed VoteGraph
// (vote_graph.go), bitfield.go and context.go with a block tree, a weighted voter set and a list of
// prevotes / precommits (duplicates, double votes, votes of non-voters, targets outside the chain) in
// a given order, and prints the import result and Round.State() after every import, PrecommitGHOST()
// at every `g` op and at the end, and the participation / equivocation weights.
//
// line:  t=<parent indices> w=<weights> h=<one letter per block = its hash> b=<base number>|op;op;…
//        op = pv <voter> <block> <sig> | pc <voter> <block> <sig> | g
//        voter ≥ len(w): an id that is not in the voter set; block = len(t): a hash outside the chain.

// c20Chain is a Chain over an explicit parent table (the round base is the root).
type c20Chain struct {
	parent map[string]string
}

func (c *c20Chain) Ancestry(base, block string) ([]string, error) {
	anc := make([]string, 0)
	for {
		p, ok := c.parent[block]
		if !ok {
			return nil, fmt.Errorf("block not descendent of base")
		}
		block = p
		if block == "" {
			return nil, fmt.Errorf("block not descendent of base")
		}
		if block == base {
			return anc, nil
		}
		anc = append(anc, block)
	}
}

func (c *c20Chain) IsEqualOrDescendantOf(base, block string) bool {
	if base == block {
		return true
	}
	_, err := c.Ancestry(base, block)
	return err == nil
}

type c20Case struct {
	par     []int
	ws      []uint64
	names   []string
	nums    []uint32
	baseNum uint32
	ops     []string
}

func c20Ints(s string) ([]int, bool) {
	var out []int
	for _, x := range strings.Split(s, ",") {
		n, err := strconv.Atoi(x)
		if err != nil || n < 0 {
			return nil, false
		}
		out = append(out, n)
	}
	return out, true
}

func c20Parse(line string) (*c20Case, bool) {
	parts := strings.Split(line, "|")
	if len(parts) != 2 {
		return nil, false
	}
	c := &c20Case{}
	for _, f := range strings.Fields(parts[0]) {
		switch {
		case strings.HasPrefix(f, "t="):
			p, ok := c20Ints(f[2:])
			if !ok {
				return nil, false
			}
			c.par = p
		case strings.HasPrefix(f, "w="):
			p, ok := c20Ints(f[2:])
			if !ok {
				return nil, false
			}
			for _, x := range p {
				if x == 0 {
					return nil, false
				}
				c.ws = append(c.ws, uint64(x))
			}
		case strings.HasPrefix(f, "h="):
			for _, ch := range f[2:] {
				c.names = append(c.names, string(ch))
			}
		case strings.HasPrefix(f, "b="):
			n, err := strconv.Atoi(f[2:])
			if err != nil || n < 0 {
				return nil, false
			}
			c.baseNum = uint32(n)
		}
	}
	if len(c.par) == 0 || len(c.ws) == 0 || len(c.names) != len(c.par) || c.par[0] != 0 {
		return nil, false
	}
	c.nums = make([]uint32, len(c.par))
	c.nums[0] = c.baseNum
	for i := 1; i < len(c.par); i++ {
		if c.par[i] >= i {
			return nil, false
		}
		c.nums[i] = c.nums[c.par[i]] + 1
	}
	for _, o := range strings.Split(parts[1], ";") {
		if strings.TrimSpace(o) != "" {
			c.ops = append(c.ops, o)
		}
	}
	return c, true
}

func c20VoterID(c *c20Case, v int) uint32 {
	if v < len(c.ws) {
		return uint32(10 * (v + 1))
	}
	return uint32(10*(v+1) + 5) // not in the set; falls between / after the real ids
}

func (c *c20Case) show(hn *HashNumber[string, uint32]) string {
	if hn == nil {
		return "-"
	}
	for i, n := range c.names {
		if n == hn.Hash {
			if c.nums[i] != hn.Number {
				return fmt.Sprintf("%d#%d!", i, hn.Number)
			}
			return strconv.Itoa(i)
		}
	}
	return "?" + hn.Hash
}

func c20Run(line string) string {
	f := strings.Fields(line)
	if len(f) == 3 && f[0] == "const" && f[1] == "threshold" {
		n, err := strconv.ParseUint(f[2], 10, 64)
		if err != nil || n == 0 {
			return "bad-op"
		}
		return strconv.FormatUint(uint64(threshold(VoterWeight(n))), 10)
	}
	if len(f) == 3 && f[0] == "bf" {
		return c20BF(f[1], f[2])
	}
	c, ok := c20Parse(line)
	if !ok {
		return "bad-op"
	}
	chain := &c20Chain{parent: map[string]string{}}
	for i, n := range c.names {
		if i == 0 {
			chain.parent[n] = ""
		} else {
			chain.parent[n] = c.names[c.par[i]]
		}
	}
	idw := make([]IDWeight[uint32], len(c.ws))
	for i, w := range c.ws {
		idw[i] = IDWeight[uint32]{ID: c20VoterID(c, i), Weight: w}
	}
	vs := NewVoterSet(idw)
	if vs == nil {
		return "bad-op"
	}
	round := NewRound[uint32, string, uint32, int](RoundParams[uint32, string, uint32]{
		RoundNumber: 1,
		Voters:      *vs,
		Base:        HashNumber[string, uint32]{c.names[0], c.baseNum},
	})
	tolerated := uint64(vs.TotalWeight()) - uint64(vs.Threshold())

	// which voters cast two different signed votes in a phase (computed from the line only)
	type key struct{ ph, v int }
	seen := map[key]map[string]bool{}
	eqW := [2]uint64{}
	note := func(ph, v int, vote string) {
		if v >= len(c.ws) {
			return
		}
		k := key{ph, v}
		if seen[k] == nil {
			seen[k] = map[string]bool{}
		}
		if !seen[k][vote] {
			seen[k][vote] = true
			if len(seen[k]) == 2 {
				eqW[ph] += c.ws[v]
			}
		}
	}

	var out []string
	for _, o := range c.ops {
		w := strings.Fields(o)
		if len(w) == 1 && w[0] == "g" {
			g := round.PrecommitGHOST()
			if eqW[1] > tolerated {
				out = append(out, "G~")
			} else {
				out = append(out, "G"+c.show(g))
			}
			continue
		}
		if len(w) != 4 || (w[0] != "pv" && w[0] != "pc") {
			return "bad-op"
		}
		v, e1 := strconv.Atoi(w[1])
		b, e2 := strconv.Atoi(w[2])
		sg, e3 := strconv.Atoi(w[3])
		if e1 != nil || e2 != nil || e3 != nil || v < 0 || b < 0 || b > len(c.par) {
			return "bad-op"
		}
		hash, num := "#", uint32(99)
		if b < len(c.par) {
			hash, num = c.names[b], c.nums[b]
		}
		blockOf := func(h string) string {
			for i, n := range c.names {
				if n == h {
					return strconv.Itoa(i)
				}
			}
			return strconv.Itoa(len(c.par))
		}
		var res string
		if w[0] == "pv" {
			note(0, v, w[2]+"."+w[3])
			ir, err := round.importPrevote(chain, Prevote[string, uint32]{hash, num}, c20VoterID(c, v), sg)
			switch {
			case err != nil:
				res = "x"
			case !ir.ValidVoter:
				res = "n"
			case ir.Duplicated:
				res = "d"
			case ir.Equivocation != nil:
				e := ir.Equivocation
				res = fmt.Sprintf("e%s.%d-%s.%d", blockOf(e.First.Vote.TargetHash), e.First.Signature,
					blockOf(e.Second.Vote.TargetHash), e.Second.Signature)
				if e.Identity != c20VoterID(c, v) || e.RoundNumber != 1 {
					res += "!"
				}
			default:
				res = "v"
			}
		} else {
			note(1, v, w[2]+"."+w[3])
			ir, err := round.importPrecommit(chain, Precommit[string, uint32]{hash, num}, c20VoterID(c, v), sg)
			switch {
			case err != nil:
				res = "x"
			case !ir.ValidVoter:
				res = "n"
			case ir.Duplicated:
				res = "d"
			case ir.Equivocation != nil:
				e := ir.Equivocation
				res = fmt.Sprintf("e%s.%d-%s.%d", blockOf(e.First.Vote.TargetHash), e.First.Signature,
					blockOf(e.Second.Vote.TargetHash), e.Second.Signature)
				if e.Identity != c20VoterID(c, v) || e.RoundNumber != 1 {
					res += "!"
				}
			default:
				res = "v"
			}
		}
		dump := "@" + c20Dump(c, round)
		if eqW[0] > tolerated {
			out = append(out, res+":~"+dump)
		} else {
			st := round.State()
			cp := "F"
			if st.Completable {
				cp = "T"
			}
			s := fmt.Sprintf("%s:%s,%s,%s,%s", res, c.show(st.PrevoteGHOST), c.show(st.Finalized),
				c.show(st.Estimate), cp)
			// the accessor methods must agree with State()
			if round.Completable() != st.Completable || c.show(round.Estimate()) != c.show(st.Estimate) ||
				c.show(round.Finalized()) != c.show(st.Finalized) {
				s += "!acc"
			}
			out = append(out, s+dump)
		}
	}
	pvW, _ := round.PrevoteParticipation()
	pcW, _ := round.PrecommitParticipation()
	tail := fmt.Sprintf(" w=%d,%d,%d,%d t=%d ", pvW, round.context.EquivocationWeight(PrevotePhase),
		pcW, round.context.EquivocationWeight(PrecommitPhase), round.Threshold())
	g := round.PrecommitGHOST()
	if eqW[1] > tolerated {
		tail += "G~"
	} else {
		tail += "G" + c.show(g)
	}
	return strings.Join(out, ";") + tail
}

func TestVerifC20(t *testing.T) { vhMain(t, c20Gen, c20Run) }
