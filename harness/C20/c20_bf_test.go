//go:build verif

package grandpa

import (
	"fmt"
	"strconv"
	"strings"
)

// bitfield.go cases: bf a=<positions> b=<positions>
// SetBit the positions into two fresh bitfields, print the words of a, its even / odd 1s, the merged
// iterators with b, the words after a.Merge(b), and IsBlank of both.

func c20Positions(s string) ([]uint, bool) {
	if s == "-" {
		return nil, true
	}
	xs, ok := c20Ints(s)
	if !ok {
		return nil, false
	}
	out := make([]uint, len(xs))
	for i, x := range xs {
		out[i] = uint(x)
	}
	return out, true
}

func c20Words(b bitfield) string {
	if len(b.bits) == 0 {
		return "-"
	}
	s := make([]string, len(b.bits))
	for i, w := range b.bits {
		s[i] = fmt.Sprintf("%016x", w)
	}
	return strings.Join(s, ".")
}

func c20Bits(bs []bit1) string {
	if len(bs) == 0 {
		return "-"
	}
	s := make([]string, len(bs))
	for i, b := range bs {
		s[i] = strconv.FormatUint(uint64(b.position), 10)
	}
	return strings.Join(s, ",")
}

func c20BF(fa, fb string) string {
	if !strings.HasPrefix(fa, "a=") || !strings.HasPrefix(fb, "b=") {
		return "bad-op"
	}
	pa, ok1 := c20Positions(fa[2:])
	pb, ok2 := c20Positions(fb[2:])
	if !ok1 || !ok2 {
		return "bad-op"
	}
	a, b := newBitfield(), newBitfield()
	for _, p := range pa {
		a.SetBit(p)
	}
	for _, p := range pb {
		b.SetBit(p)
	}
	out := fmt.Sprintf("A=%s E=%s O=%s ME=%s MO=%s", c20Words(a), c20Bits(a.Iter1sEven()), c20Bits(a.Iter1sOdd()),
		c20Bits(a.Iter1sMergedEven(b)), c20Bits(a.Iter1sMergedOdd(b)))
	blankA, blankB := a.IsBlank(), b.IsBlank()
	a.Merge(b)
	return out + fmt.Sprintf(" M=%s blank=%v%v", c20Words(a), blankA, blankB)
}

func c20GenBF(r *vhRng) string {
	side := func() string {
		n := r.Pick(0, 1, 2, 3, 5, 8)
		if n == 0 {
			return "-"
		}
		xs := make([]int, n)
		for i := range xs {
			switch r.Intn(3) {
			case 0:
				xs[i] = r.Pick(0, 1, 62, 63, 64, 65, 126, 127, 128, 129, 191, 192)
			case 1:
				xs[i] = r.Intn(70)
			default:
				xs[i] = r.Intn(200)
			}
		}
		return c20Join(xs)
	}
	return "bf a=" + side() + " b=" + side()
}
