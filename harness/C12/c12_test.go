//go:build verif

package scale

import (
	"strings"
	"testing"
)

// case line:  d <type> <input-hex>
// output:     ok <re-encoding of the decoded value> <bytes consumed> | ok-huge | err | panic   [+ " big"]
//             [+ " <reader>=<outcome>" for every other way of feeding the same bytes (Unmarshal,
//             NewDecoder over bytes.Reader / iotest.HalfReader / OneByteReader / DataErrReader)
//             whose outcome differs]   (see c11Decode, c11DecodeAll).  Inputs: canonical encodings, every strict prefix of them, bit flips, random
// tails, and "evil" encodings written by c12Evil: non-canonical compact integers, inflated or huge
// declared lengths with a short body, bad bool / option / result / variant tags.
func c12Run(line string) string {
	f := strings.Fields(line)
	if len(f) > 0 && f[0] == "mdec" {
		return c11MapRun(f)
	}
	if len(f) != 3 || f[0] != "d" {
		return "bad-op"
	}
	t := c11ParseTy(f[1])
	return c11DecodeAll(t, vhUnhex(f[2]))
}

type c12State struct{ queue []string }

var c12Q c12State

// c12StartsByteString reports whether decoding t begins by reading a byte-string length.
func c12StartsByteString(t *c11Ty) bool {
	switch t.kind {
	case "bytes", "str":
		return true
	case "st":
		for i, s := range t.sub {
			if t.tags[i] != "-" {
				return c12StartsByteString(s)
			}
		}
	case "arr":
		return t.n > 0 && c12StartsByteString(t.sub[0])
	}
	return false
}

func c12Gen(r *vhRng) string {
	q := &c12Q
	if len(q.queue) == 0 && r.Chance(1, 6) { // a Go map destination (nil, made or dirty)
		for {
			line := c11MapGen(r, 2)
			f := strings.Fields(line)
			if !c12TooCostly(c11MapTy(c11ParseTy(f[1]), c11ParseTy(f[2])), vhUnhex(f[3])) {
				return line
			}
		}
	}
	if len(q.queue) == 0 {
		t := c11GenTopTy(r, false)
		ts := t.String()
		add := func(b []byte) {
			if c12TooCostly(t, b) {
				return
			}
			q.queue = append(q.queue, "d "+ts+" "+vhHex(b))
		}
		if r.Chance(1, 12) { // unrelated random input
			for _, n := range []int{r.Intn(12), r.Intn(40)} {
				b := r.Bytes(n)
				// a random byte-string length is 2^29 on average and is really allocated and cleared (a second
				// or more each, minutes on a loaded machine): avoid; the corpus and the evil lengths cover it
				if n > 0 && c12StartsByteString(t) {
					b[0] &^= 2
				}
				add(b)
			}
		}
		v := c11BuildValue(t, c11GenVal(r, t))
		ref := &c12Evil{r: r, p: 1 << 30}
		honest := ref.enc(t, v)
		isSite := map[int]bool{}
		for _, s := range ref.sites {
			isSite[s] = true
		}
		add(honest)
		// every strict prefix (encodings above 160 bytes: the first 24, the last 8 and 8 random ones)
		for i := 0; i < len(honest); i++ {
			if len(honest) <= 160 || i < 24 || i >= len(honest)-8 || r.Chance(8, len(honest)) {
				add(honest[:i])
			}
		}
		// bit flips (the mode bit of a byte-string length that turns it into a random 30-bit
		// length never: such lengths are really allocated)
		for k := 0; k < 6 && len(honest) > 0; k++ {
			b := append([]byte{}, honest...)
			pos, bit := r.Intn(len(b)), uint(r.Intn(8))
			if isSite[pos] && bit == 1 {
				bit = 2 + uint(r.Intn(6))
			}
			b[pos] ^= 1 << bit
			add(b)
		}
		// random tail, random byte
		add(append(append([]byte{}, honest...), r.Bytes(1+r.Intn(6))...))
		if len(honest) > 0 {
			b := append([]byte{}, honest...)
			pos := r.Intn(len(b))
			nb := byte(r.U64())
			if isSite[pos] {
				nb &^= 2
			}
			b[pos] = nb
			add(b)
		}
		// evil encodings of the same value, some truncated
		for k := 0; k < 6; k++ {
			b := (&c12Evil{r: r, p: 2 + r.Intn(6)}).enc(t, v)
			if r.Chance(1, 3) && len(b) > 0 {
				b = b[:r.Intn(len(b)+1)]
			}
			add(b)
		}
	}
	if len(q.queue) == 0 { // everything was filtered out
		return c12Gen(r)
	}
	line := q.queue[0]
	q.queue = q.queue[1:]
	return line
}

func TestVerifC12(t *testing.T) { vhMain(t, c12Gen, c12Run) }
