//go:build verif

package messages

import (
	"fmt"
	"strconv"
	"strings"
	"testing"
)

// line:   `plan <a> <b> <fields>` | `const MaxBlocksInResponse`
// output: `<k> <start>:<max>,<start>:<max>,...` (k requests; just `0` when none); a request that is not
// by-number / not ascending / has other fields / a nil Max is marked with a `!`-suffix.
// a planner that never returns is the observable `timeout` of that one case
func c31PlanRun(line string) string {
	return vhWithTimeout(5000, func() string { return c31PlanRun1(line) })
}

func c31PlanRun1(line string) string {
	f := strings.Fields(line)
	if len(f) == 0 {
		return "bad-op"
	}
	switch f[0] {
	case "const":
		if len(f) == 2 && f[1] == "MaxBlocksInResponse" {
			return fmt.Sprint(MaxBlocksInResponse)
		}
		return "bad-op"
	case "plan":
		if len(f) != 4 {
			return "bad-op"
		}
		a, e1 := strconv.ParseUint(f[1], 10, 64)
		b, e2 := strconv.ParseUint(f[2], 10, 64)
		m, e3 := strconv.ParseUint(f[3], 10, 8)
		if e1 != nil || e2 != nil || e3 != nil {
			return "bad-op"
		}
		// refuse cases that would make the real code allocate millions of requests
		// (diff is computed with the same wrap-around as the code)
		if diff := uint(b) - (uint(a) - 1); a <= b && diff > 1<<22 {
			return "bad-op"
		}
		reqs := NewAscendingBlockRequests(uint(a), uint(b), byte(m))
		if len(reqs) == 0 {
			return "0"
		}
		var sb strings.Builder
		fmt.Fprintf(&sb, "%d ", len(reqs))
		for i, r := range reqs {
			if i > 0 {
				sb.WriteByte(',')
			}
			if r == nil {
				sb.WriteString("nil!")
				continue
			}
			n, isNum := r.StartingBlock.RawValue().(uint)
			if !isNum {
				sb.WriteString("hash!")
				continue
			}
			if r.Max == nil {
				fmt.Fprintf(&sb, "%d:nil!", n)
				continue
			}
			fmt.Fprintf(&sb, "%d:%d", n, *r.Max)
			if r.Direction != Ascending {
				fmt.Fprintf(&sb, "!dir%d", r.Direction)
			}
			if r.RequestedData != byte(m) {
				fmt.Fprintf(&sb, "!f%d", r.RequestedData)
			}
		}
		return sb.String()
	}
	return "bad-op"
}

// c31PlanNum draws a height concentrated at 0, 1 and the multiples of 128 (±2).
func c31PlanNum(r *vhRng) uint64 {
	switch r.Intn(8) {
	case 0:
		return uint64(r.Intn(4))
	case 1, 2, 3:
		v := 128*r.Intn(7) + r.Intn(5) - 2
		if v < 0 {
			v = 0
		}
		return uint64(v)
	case 4:
		return uint64(r.Intn(1200))
	case 5:
		return uint64(r.Intn(70000))
	case 6: // close to the top of uint
		return ^uint64(0) - uint64(r.Intn(600))
	default:
		return uint64(128 * r.Intn(12))
	}
}

func c31PlanGen(r *vhRng) string {
	if r.Chance(1, 200) {
		return "const MaxBlocksInResponse"
	}
	a := c31PlanNum(r)
	var b uint64
	switch r.Intn(6) {
	case 0: // a > b sometimes
		b = c31PlanNum(r)
	case 1, 2: // exact multiples of 128 long (±1)
		b = a + uint64(128*r.Intn(8)) + uint64(r.Intn(3)) - 2
	case 3:
		b = a + uint64(r.Intn(5))
	default:
		b = a + uint64(r.Intn(1500))
	}
	if a > ^uint64(0)-2000 && b < 4000 { // wrapped: keep it a plain a > b case or clamp
		if r.Bool() {
			b = ^uint64(0) - uint64(r.Intn(3))
		}
	}
	return fmt.Sprintf("plan %d %d %d", a, b, r.Intn(32))
}

func TestVerifC31Plan(t *testing.T) { vhMain(t, c31PlanGen, c31PlanRun) }
