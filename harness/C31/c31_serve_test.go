//go:build verif

package sync

import (
	"encoding/binary"
	"encoding/json"
	"errors"
	"fmt"
	"strconv"
	"strings"
	"testing"
	"time"

	"github.com/ChainSafe/gossamer/dot/network"
	"github.com/ChainSafe/gossamer/dot/network/messages"
	"github.com/ChainSafe/gossamer/dot/peerset"
	"github.com/ChainSafe/gossamer/dot/state"
	"github.com/ChainSafe/gossamer/dot/types"
	"github.com/ChainSafe/gossamer/internal/database"
	"github.com/ChainSafe/gossamer/lib/common"
	"github.com/ChainSafe/gossamer/pkg/trie"
	"github.com/libp2p/go-libp2p/core/peer"
)

// Serving side of C31: the REAL SyncService.CreateBlockResponse over the REAL
// state.BlockState (in-memory pebble + block tree) holding a generated tree with forks.
//
// line:   `srv <tree> <fin> <from> <dir> <max> <mask>`            one request to a fresh service
//         `seq <tree> <fin>|<peer> <from> <dir> <max> <mask>;...` requests to ONE service (limiter)
//   tree  `p:k,p:k,...`  segments: k blocks chained below the block with id p. Ids are given in
//         insertion order, genesis = 0, so `0:5,2:3` is a main chain 1..5 and a fork 6,7,8 on block 2
//   fin   number of the block of the best chain that is finalised (SetFinalisedHash) after the tree is
//         built; 0 = none. Blocks up to `fin` then live in the database only, forks that do not
//         contain that block are pruned, and the stored body of every finalised block with
//         id%7 == 3 is deleted from the database. `bad-tree` if fin > best number
//   from  `n<number>` or `h<id>` (an id that is not in the tree is an unknown hash)
//   dir   `a` ascending, `d` descending, `x` invalid (3)
//   max   `nil` or a uint32
//   mask  RequestedData byte
//   peer  0..9
// output: `ok <n> <id>/<present>,...`  present = bit mask of the non-nil fields (1 header, 2 body,
//         4 receipt, 8 message queue, 16 justification), `!` appended when a field's content is not
//         that block's; or an error class. `seq`: per request `same` (refused and the peer reported
//         once with SameBlockSyncRequest) or the short form `ok <n> <first>..<last>` / error class,
//         joined by `;`.

type c31NoTelemetry struct{}

func (c31NoTelemetry) SendMessage(json.Marshaler) {}

type c31Env struct {
	bs     *state.BlockState
	hashes []common.Hash // by id
	nums   []uint
	parent []int
	ids    map[common.Hash]int
}

// c31Net records the peer reports of the limiter.
type c31Net struct {
	reports []string
}

func (n *c31Net) AllConnectedPeersIDs() []peer.ID { return nil }
func (n *c31Net) ReportPeer(change peerset.ReputationChange, p peer.ID) {
	ok := change.Value == peerset.SameBlockSyncRequest && change.Reason == peerset.SameBlockSyncRequestReason
	n.reports = append(n.reports, fmt.Sprintf("%s/%v", string(p), ok))
}
func (n *c31Net) BlockAnnounceHandshake(*types.Header) error { return nil }
func (n *c31Net) GetRequestResponseProtocol(string, time.Duration, uint64) *network.RequestResponseProtocol {
	return nil
}
func (n *c31Net) GossipMessageExcluding(network.NotificationsMessage, peer.ID) {}

var c31Cache = map[string]*c31Env{}

func c31IDBytes(tag byte, id int) []byte {
	b := make([]byte, 5)
	b[0] = tag
	binary.LittleEndian.PutUint32(b[1:], uint32(id))
	return b
}

func c31HasReceipt(id int) bool { return id%3 != 0 }
func c31HasMQ(id int) bool      { return id%4 != 1 }
func c31HasJust(id int) bool    { return id%5 != 2 }

func c31ParseTree(s string) (segs [][2]int, ok bool) {
	if s == "-" {
		return nil, true
	}
	for _, part := range strings.Split(s, ",") {
		pk := strings.Split(part, ":")
		if len(pk) != 2 {
			return nil, false
		}
		p, e1 := strconv.Atoi(pk[0])
		k, e2 := strconv.Atoi(pk[1])
		if e1 != nil || e2 != nil || p < 0 || k < 1 || k > 2000 {
			return nil, false
		}
		segs = append(segs, [2]int{p, k})
	}
	return segs, true
}

// c31Build returns the block state holding the tree (cached: serving only reads it), or the
// reason why there is none.
func c31Build(tree string, fin int) (*c31Env, string) {
	segs, ok := c31ParseTree(tree)
	if !ok {
		return nil, "bad-op"
	}
	key := tree + "|" + strconv.Itoa(fin)
	if e, ok := c31Cache[key]; ok {
		return e, ""
	}
	db, err := database.NewPebble("", true)
	if err != nil {
		return nil, "setup-err"
	}
	genesis := types.NewHeader(common.Hash{}, trie.EmptyHash, trie.EmptyHash, 0, types.NewDigest())
	bs, err := state.NewBlockStateFromGenesis(db, state.NewTries(), genesis, c31NoTelemetry{})
	if err != nil {
		return nil, "setup-err"
	}
	digest := types.NewDigest()
	prd, err := types.NewBabeSecondaryPlainPreDigest(0, 1).ToPreRuntimeDigest()
	if err != nil {
		return nil, "setup-err"
	}
	if err = digest.Add(*prd); err != nil {
		return nil, "setup-err"
	}
	env := &c31Env{bs: bs, ids: map[common.Hash]int{}}
	add := func(h common.Hash, n uint, parent int) {
		env.ids[h] = len(env.hashes)
		env.hashes = append(env.hashes, h)
		env.nums = append(env.nums, n)
		env.parent = append(env.parent, parent)
	}
	add(genesis.Hash(), 0, 0)
	base := time.Unix(1_700_000_000, 0)
	for _, sg := range segs {
		p, k := sg[0], sg[1]
		if p >= len(env.hashes) {
			return nil, "bad-tree"
		}
		for i := 0; i < k; i++ {
			id := len(env.hashes)
			var root common.Hash
			copy(root[:], c31IDBytes(0xee, id))
			hdr := types.NewHeader(env.hashes[p], trie.EmptyHash, root, env.nums[p]+1, digest)
			blk := &types.Block{Header: *hdr, Body: types.Body{types.Extrinsic(c31IDBytes(0xb0, id))}}
			if err := bs.AddBlockWithArrivalTime(blk, base.Add(time.Duration(id)*time.Second)); err != nil {
				return nil, "setup-err"
			}
			h := hdr.Hash()
			add(h, hdr.Number, p)
			p = id
		}
	}
	for id, h := range env.hashes {
		if c31HasReceipt(id) {
			if bs.SetReceipt(h, c31IDBytes(0xc0, id)) != nil {
				return nil, "setup-err"
			}
		}
		if c31HasMQ(id) {
			if bs.SetMessageQueue(h, c31IDBytes(0xd0, id)) != nil {
				return nil, "setup-err"
			}
		}
		if c31HasJust(id) {
			if bs.SetJustification(h, c31IDBytes(0xe0, id)) != nil {
				return nil, "setup-err"
			}
		}
	}
	// the best leaf must be unique by depth (ties are fork choice, property C16)
	deepest, cnt := uint(0), 0
	for _, n := range env.nums {
		if n > deepest {
			deepest, cnt = n, 1
		} else if n == deepest {
			cnt++
		}
	}
	if cnt != 1 || uint(fin) > deepest {
		return nil, "bad-tree"
	}
	if fin > 0 {
		h, err := bs.GetHashByNumber(uint(fin))
		if err != nil {
			return nil, "setup-err"
		}
		if err := bs.SetFinalisedHash(h, 1, 1); err != nil {
			return nil, "setup-err"
		}
		// a finalised block whose body is missing from the database
		for id := env.ids[h]; id != 0; id = env.parent[id] {
			if id%7 != 3 {
				continue
			}
			key := append([]byte("blockblb"), env.hashes[id].ToBytes()...)
			if err := db.Del(key); err != nil {
				return nil, "setup-err"
			}
			if _, err := bs.GetBlockBody(env.hashes[id]); err == nil {
				return nil, "setup-err" // the key layout of dot/state changed
			}
		}
	}
	if len(c31Cache) >= 6 {
		c31Cache = map[string]*c31Env{}
	}
	c31Cache[key] = env
	return env, ""
}

func c31ErrClass(err error) string {
	switch {
	case errors.Is(err, errRequestStartTooHigh):
		return "err-toohigh"
	case errors.Is(err, errFailedToGetDescendant):
		return "err-nodesc"
	case errors.Is(err, errStartAndEndNotOnChain):
		return "err-notonchain"
	case errors.Is(err, errInvalidRequestDirection):
		return "err-dir"
	case errors.Is(err, ErrInvalidBlockRequest):
		return "err-invalid"
	case errors.Is(err, errMaxNumberOfSameRequest):
		return "err-same"
	}
	msg := err.Error()
	switch {
	case strings.HasPrefix(msg, "failed to get start block"):
		return "err-nostart"
	case strings.HasPrefix(msg, "getting end block"):
		return "err-noend"
	case strings.HasPrefix(msg, "retrieving range"):
		return "err-range"
	}
	return "err"
}

// c31ParseReq parses `<from> <dir> <max> <mask>`; a by-hash start is returned as an id.
func c31ParseReq(f []string) (req *messages.BlockRequestMessage, hashID int, ok bool) {
	if len(f) != 4 || len(f[0]) < 2 {
		return nil, 0, false
	}
	mask, err := strconv.ParseUint(f[3], 10, 8)
	if err != nil {
		return nil, 0, false
	}
	req = &messages.BlockRequestMessage{RequestedData: byte(mask)}
	hashID = -1
	switch f[0][0] {
	case 'n':
		n, err := strconv.ParseUint(f[0][1:], 10, 64)
		if err != nil {
			return nil, 0, false
		}
		req.StartingBlock = *messages.NewFromBlock(uint(n))
	case 'h':
		id, err := strconv.Atoi(f[0][1:])
		if err != nil || id < 0 {
			return nil, 0, false
		}
		hashID = id
	default:
		return nil, 0, false
	}
	switch f[1] {
	case "a":
		req.Direction = messages.Ascending
	case "d":
		req.Direction = messages.Descending
	case "x":
		req.Direction = messages.SyncDirection(3)
	default:
		return nil, 0, false
	}
	if f[2] != "nil" {
		m, err := strconv.ParseUint(f[2], 10, 32)
		if err != nil {
			return nil, 0, false
		}
		m32 := uint32(m)
		req.Max = &m32
	}
	return req, hashID, true
}

func (env *c31Env) setHash(req *messages.BlockRequestMessage, hashID int) {
	if hashID < 0 {
		return
	}
	var h common.Hash
	if hashID < len(env.hashes) {
		h = env.hashes[hashID]
	} else {
		copy(h[:], c31IDBytes(0x77, hashID))
	}
	req.StartingBlock = *messages.NewFromBlock(h)
}

// show prints a response; short = first and last entry only.
func (env *c31Env) show(resp *messages.BlockResponseMessage, err error, short bool) string {
	if err != nil {
		return c31ErrClass(err)
	}
	if resp == nil {
		return "nil-resp"
	}
	if len(resp.BlockData) == 0 {
		return "ok 0"
	}
	entries := make([]string, len(resp.BlockData))
	anyWrong := false
	for i, bd := range resp.BlockData {
		if bd == nil {
			entries[i] = "nil"
			continue
		}
		id, known := env.ids[bd.Hash]
		if !known {
			entries[i] = "?"
			continue
		}
		present, wrong := 0, false
		if bd.Header != nil {
			present |= 1
			wrong = wrong || bd.Header.Hash() != bd.Hash || bd.Header.Number != env.nums[id]
		}
		if bd.Body != nil {
			present |= 2
			want := c31IDBytes(0xb0, id)
			if id == 0 {
				wrong = wrong || len(*bd.Body) != 0
			} else {
				wrong = wrong || len(*bd.Body) != 1 || string((*bd.Body)[0]) != string(want)
			}
		}
		if bd.Receipt != nil {
			present |= 4
			wrong = wrong || string(*bd.Receipt) != string(c31IDBytes(0xc0, id))
		}
		if bd.MessageQueue != nil {
			present |= 8
			wrong = wrong || string(*bd.MessageQueue) != string(c31IDBytes(0xd0, id))
		}
		if bd.Justification != nil {
			present |= 16
			wrong = wrong || string(*bd.Justification) != string(c31IDBytes(0xe0, id))
		}
		entries[i] = fmt.Sprintf("%d/%d", id, present)
		if wrong {
			entries[i] += "!"
			anyWrong = true
		}
	}
	n := len(entries)
	if short {
		out := fmt.Sprintf("ok %d %s", n, entries[0])
		if n > 1 {
			out += ".." + entries[n-1]
		}
		if anyWrong {
			out += "!"
		}
		return out
	}
	return fmt.Sprintf("ok %d %s", n, strings.Join(entries, ","))
}

func c31Run(line string) string {
	if strings.HasPrefix(line, "seq ") {
		return c31RunSeq(line)
	}
	f := strings.Fields(line)
	if len(f) == 2 && f[0] == "const" {
		switch f[1] {
		case "MaxBlocksInResponse":
			return fmt.Sprint(messages.MaxBlocksInResponse)
		case "maxNumberOfSameRequestPerPeer":
			return fmt.Sprint(maxNumberOfSameRequestPerPeer)
		}
		return "bad-op"
	}
	if len(f) != 7 || f[0] != "srv" {
		return "bad-op"
	}
	fin, e1 := strconv.Atoi(f[2])
	req, hashID, ok := c31ParseReq(f[3:])
	if e1 != nil || fin < 0 || !ok {
		return "bad-op"
	}
	env, bad := c31Build(f[1], fin)
	if env == nil {
		return bad
	}
	env.setHash(req, hashID)
	svc := NewSyncService(WithBlockState(env.bs))
	svc.network = &c31Net{}
	resp, err := svc.CreateBlockResponse(peer.ID("alice"), req)
	return env.show(resp, err, false)
}

// c31RunSeq sends every request of the line to one service.
func c31RunSeq(line string) string {
	bar := strings.IndexByte(line, '|')
	if bar < 0 {
		return "bad-op"
	}
	hf := strings.Fields(line[:bar])
	if len(hf) != 3 {
		return "bad-op"
	}
	fin, e1 := strconv.Atoi(hf[2])
	if e1 != nil || fin < 0 {
		return "bad-op"
	}
	type op struct {
		peer   int
		req    *messages.BlockRequestMessage
		hashID int
	}
	var ops []op
	if strings.TrimSpace(line[bar+1:]) != "" {
		for _, o := range strings.Split(line[bar+1:], ";") {
			f := strings.Fields(o)
			if len(f) != 5 {
				return "bad-op"
			}
			p, err := strconv.Atoi(f[0])
			req, hashID, ok := c31ParseReq(f[1:])
			if err != nil || p < 0 || p > 9 || !ok {
				return "bad-op"
			}
			ops = append(ops, op{p, req, hashID})
		}
	}
	env, bad := c31Build(hf[1], fin)
	if env == nil {
		return bad
	}
	net := &c31Net{}
	svc := NewSyncService(WithBlockState(env.bs))
	svc.network = net
	if len(ops) == 0 {
		return "-"
	}
	outs := make([]string, len(ops))
	for i, o := range ops {
		env.setHash(o.req, o.hashID)
		pid := peer.ID(fmt.Sprintf("peer%d", o.peer))
		net.reports = net.reports[:0]
		resp, err := svc.CreateBlockResponse(pid, o.req)
		if err != nil && errors.Is(err, errMaxNumberOfSameRequest) {
			outs[i] = "same"
			if len(net.reports) != 1 || net.reports[0] != string(pid)+"/true" {
				outs[i] = "same!" + strings.Join(net.reports, ",")
			}
			continue
		}
		outs[i] = env.show(resp, err, true)
		if len(net.reports) != 0 {
			outs[i] += "!reported"
		}
	}
	return strings.Join(outs, ";")
}

// ---- generator -------------------------------------------------------------------------------

// c31Shape is the generator's view of a tree: number and parent of every id.
type c31Shape struct {
	line   string
	fin    int
	chain  []int  // id of the best chain's block at every number
	alive  []bool // not pruned by the finalisation
	dead   []int
	nums   []int
	parent []int
	tips   []int // last id of every segment
	roots  []int // fork points
}

func (s *c31Shape) deepest() (d, cnt int) {
	for _, n := range s.nums {
		if n > d {
			d, cnt = n, 1
		} else if n == d {
			cnt++
		}
	}
	return
}

func c31GenTree(r *vhRng) *c31Shape {
	s := &c31Shape{nums: []int{0}, parent: []int{0}}
	var segs []string
	addSeg := func(p, k int) {
		segs = append(segs, fmt.Sprintf("%d:%d", p, k))
		for i := 0; i < k; i++ {
			s.nums = append(s.nums, s.nums[p]+1)
			s.parent = append(s.parent, p)
			p = len(s.nums) - 1
		}
		s.tips = append(s.tips, p)
	}
	L := r.Pick(0, 1, 2, 3, 5, 9, 20, 60, 126, 127, 128, 129, 130, 131, 200, 255, 256, 257, 258, 300)
	if L > 0 {
		addSeg(0, L)
	}
	nforks := r.Pick(0, 0, 1, 1, 2, 3, 4)
	if L == 0 {
		nforks = 0
	}
	for f := 0; f < nforks; f++ {
		n := len(s.nums)
		var p int
		switch r.Intn(6) {
		case 0:
			p = r.Intn(3) // genesis or the first blocks
		case 1:
			p = n - 1 - r.Intn(4) // near the newest block
		case 2: // 128±2 below the main tip
			p = L - 128 + r.Intn(5) - 2
		default:
			p = r.Intn(n)
		}
		if p < 0 {
			p = 0
		}
		if p >= n {
			p = n - 1
		}
		var k int
		switch r.Intn(6) {
		case 0:
			k = 1
		case 1:
			k = 1 + r.Intn(5)
		case 2:
			k = 126 + r.Intn(6)
		case 3: // up to (or just beyond) the current best number
			d, _ := s.deepest()
			k = d - s.nums[p] + r.Intn(4) - 2
		default:
			k = 1 + r.Intn(40)
		}
		if k < 1 {
			k = 1
		}
		if len(s.nums)+k > 700 {
			k = 1
		}
		// keep the deepest block unique
		d, _ := s.deepest()
		if s.nums[p]+k == d {
			k++
		}
		s.roots = append(s.roots, p)
		addSeg(p, k)
	}
	if len(segs) == 0 {
		s.line = "-"
	} else {
		s.line = strings.Join(segs, ",")
	}
	if _, cnt := s.deepest(); cnt != 1 && len(s.nums) > 1 {
		// cannot happen by construction; fall back to a plain chain
		s = &c31Shape{line: "0:7", nums: []int{0, 1, 2, 3, 4, 5, 6, 7}, parent: []int{0, 0, 1, 2, 3, 4, 5, 6}, tips: []int{7}}
	}
	// the chain of the best (deepest) block
	tip := 0
	for id, n := range s.nums {
		if n > s.nums[tip] {
			tip = id
		}
	}
	s.chain = make([]int, s.nums[tip]+1)
	for id := tip; ; id = s.parent[id] {
		s.chain[s.nums[id]] = id
		if id == 0 {
			break
		}
	}
	// finalised head: none, below the first fork (nothing pruned), at/around a fork point of the
	// best chain (forks pruned), near the tip
	if len(s.nums) > 1 && r.Chance(1, 2) {
		d := s.nums[tip]
		per := make([]int, d+1)
		for _, n := range s.nums {
			per[n]++
		}
		lim := 0
		for lim+1 <= d && per[lim+1] == 1 {
			lim++
		}
		switch r.Intn(8) {
		case 0:
			s.fin = lim - r.Intn(3)
		case 1:
			s.fin = 1 + r.Intn(3)
		case 2, 3: // around a fork point
			if len(s.roots) > 0 {
				s.fin = s.nums[s.roots[r.Intn(len(s.roots))]] + r.Intn(4) - 1
			} else {
				s.fin = r.Intn(d + 1)
			}
		case 4:
			s.fin = d - r.Intn(3)
		case 5:
			s.fin = r.Pick(126, 127, 128, 129, 130)
		default:
			s.fin = r.Intn(d + 1)
		}
		if s.fin < 0 {
			s.fin = 0
		}
		if s.fin > d {
			s.fin = d
		}
	}
	// which blocks survive the finalisation
	s.alive = make([]bool, len(s.nums))
	for id := range s.nums {
		x := id
		for s.nums[x] > s.fin {
			x = s.parent[x]
		}
		s.alive[id] = s.chain[s.nums[x]] == x && (s.nums[id] >= s.fin || s.chain[s.nums[id]] == id)
		if !s.alive[id] {
			s.dead = append(s.dead, id)
		}
	}
	return s
}

var (
	c31CurShape *c31Shape
	c31CurLeft  int
)

// c31GenSeq draws a request sequence for one service: the same request repeated around the limit
// (one or several peers, requests whose encodings collide), and runs of distinct filler requests
// around the capacity of the seen-requests LRU between two repetitions.
func c31GenSeq(r *vhRng) string {
	tree := []string{"0:3", "0:5,2:2", "-", "0:6,1:3", "0:4,0:2"}[r.Intn(5)]
	fin := r.Pick(0, 0, 0, 1, 2)
	if tree == "-" {
		fin = 0
	}
	reqs := []string{"n1 a nil 1", "n1 a 0 1", "n1 a 2 1", "n1 d nil 1", "n1 a nil 3", "h1 a nil 1", "h2 d 2 19",
		"n2 a nil 1", "n0 a nil 1", "n9 a nil 1", "h99 a nil 1", "n1 x nil 1", "n1 a nil 0",
		"n4294967295 a nil 1", "n4294967296 a nil 1", "n4294967294 a nil 1", "h0 a 1 31", "h6 d nil 1"}
	var ops []string
	add := func(p int, q string) { ops = append(ops, fmt.Sprintf("%d %s", p, q)) }
	filler := 0
	fill := func(p, k int) {
		for i := 0; i < k; i++ {
			filler++
			add(p, fmt.Sprintf("n%d a nil 1", 1000+filler))
		}
	}
	switch r.Intn(5) {
	case 0, 1: // few requests, few peers, many repetitions
		nr, np := 1+r.Intn(4), 1+r.Intn(3)
		base := r.Intn(len(reqs))
		for i, n := 0, 6+r.Intn(30); i < n; i++ {
			add(r.Intn(np), reqs[(base+r.Intn(nr))%len(reqs)])
		}
	case 2, 3: // eviction: X served a times, k distinct requests, X again (b times)
		x := reqs[r.Intn(len(reqs))]
		p := r.Intn(3)
		for i, a := 0, r.Pick(1, 2, 2, 3); i < a; i++ {
			add(p, x)
		}
		fill(r.Intn(3), r.Pick(97, 98, 99, 99, 100, 100, 101, 102))
		for i, b := 0, r.Pick(1, 2, 3, 4); i < b; i++ {
			add(p, x)
		}
		if r.Bool() { // and once more: touched entries are the most recent ones
			fill(r.Intn(3), r.Pick(98, 99, 100))
			add(p, x)
		}
	default: // refreshed by use: X, some fillers, X (refused or served: moved to the front), fillers, X
		x := reqs[r.Intn(len(reqs))]
		p := r.Intn(3)
		for i, a := 0, r.Pick(1, 2, 3); i < a; i++ {
			add(p, x)
		}
		fill(p, r.Pick(40, 60, 99))
		add(p, x)
		fill(p, r.Pick(40, 60, 99, 100))
		add(p, x)
		add(p, x)
	}
	return fmt.Sprintf("seq %s %d|%s", tree, fin, strings.Join(ops, ";"))
}

func c31Gen(r *vhRng) string {
	if r.Chance(1, 500) {
		return "const " + []string{"MaxBlocksInResponse", "maxNumberOfSameRequestPerPeer"}[r.Intn(2)]
	}
	if r.Chance(1, 25) {
		return c31GenSeq(r)
	}
	if c31CurShape == nil || c31CurLeft <= 0 {
		c31CurShape = c31GenTree(r)
		c31CurLeft = 30 + r.Intn(60)
		if len(c31CurShape.nums) < 4 {
			c31CurLeft = 8 + r.Intn(10)
		}
	}
	c31CurLeft--
	s := c31CurShape
	best, _ := s.deepest()
	n := len(s.nums)

	maxS := "nil"
	maxV := 128
	switch r.Intn(12) {
	case 0, 1, 2:
	case 3:
		maxS, maxV = "0", 0
	case 4:
		maxS, maxV = "1", 1
	case 5:
		maxS, maxV = "127", 127
	case 6:
		maxS, maxV = "128", 128
	case 7:
		maxS, maxV = "129", 128
	case 8:
		v := r.Pick(1000, 4294967295, 130, 256)
		maxS, maxV = strconv.Itoa(v), 128
	default:
		v := 2 + r.Intn(12)
		maxS, maxV = strconv.Itoa(v), v
	}

	// a block number concentrated where the arithmetic changes
	num := func() int {
		switch r.Intn(8) {
		case 0:
			return r.Intn(3)
		case 1:
			return best + r.Intn(4) - 1
		case 2:
			return maxV + r.Intn(4) - 1
		case 3:
			return best - maxV + r.Intn(4) - 1
		case 4:
			if s.fin > 0 && r.Bool() {
				return s.fin + r.Pick(-1, 0, 1, maxV-1, maxV, maxV+1, -maxV, 1-maxV)
			}
			return r.Pick(126, 127, 128, 129, 130, 255, 256, 257)
		default:
			return r.Intn(best + 2)
		}
	}
	var from string
	if r.Chance(2, 5) {
		v := num()
		if v < 0 {
			v = 0
		}
		from = "n" + strconv.Itoa(v)
		if r.Chance(1, 60) {
			from = "n" + []string{"4294967295", "4294967296", "18446744073709551615", "18446744073709551488"}[r.Intn(4)]
		}
	} else {
		var id int
		switch r.Intn(12) {
		case 9: // a pruned block
			if len(s.dead) > 0 {
				id = s.dead[r.Intn(len(s.dead))]
			} else {
				id = r.Intn(n)
			}
		case 10, 11: // a block of the best chain around the finalised head / a window away from it
			v := s.fin + r.Pick(-1, 0, 1, 2, maxV-1, maxV, maxV+1, -maxV, 1-maxV, -1-maxV, -2)
			if v < 0 {
				v = 0
			}
			if v >= len(s.chain) {
				v = len(s.chain) - 1
			}
			id = s.chain[v]
		case 0:
			id = 0
		case 1:
			id = n + r.Intn(3) // unknown hash
		case 2, 3:
			if len(s.tips) > 0 {
				id = s.tips[r.Intn(len(s.tips))]
				// walk up a few blocks, or max-1 .. max+1 blocks
				up := r.Pick(0, 0, 1, 2, maxV-1, maxV, maxV+1)
				for ; up > 0 && id != 0; up-- {
					id = s.parent[id]
				}
			}
		case 4:
			if len(s.roots) > 0 {
				id = s.roots[r.Intn(len(s.roots))] + r.Intn(3) - 1
			} else {
				id = r.Intn(n)
			}
		case 5: // a block with a number near max / best-max
			want := num()
			id = r.Intn(n)
			for tries := 0; tries < 50 && s.nums[id] != want; tries++ {
				id = r.Intn(n)
			}
		default:
			id = r.Intn(n)
		}
		if id < 0 {
			id = 0
		}
		from = "h" + strconv.Itoa(id)
	}
	dir := "a"
	switch r.Intn(40) {
	case 0:
		dir = "x"
	default:
		if r.Bool() {
			dir = "d"
		}
	}
	mask := 1 + r.Intn(31)
	switch r.Intn(20) {
	case 0:
		mask = 0
	case 1:
		mask = r.Pick(32, 33, 64, 128, 255, 224)
	case 2, 3:
		mask = r.Pick(1, 2, 4, 8, 16, 19, 31)
	}
	return fmt.Sprintf("srv %s %d %s %s %s %d", s.line, s.fin, from, dir, maxS, mask)
}

func TestVerifC31(t *testing.T) { vhMain(t, c31Gen, c31Run) }
