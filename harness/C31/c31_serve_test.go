//go:build verif

package sync

import (
	"encoding/binary"
	"encoding/json"
	"errors"
	"fmt"
	"strconv"
	"strings"
	"testing"
	"time"

	"github.com/ChainSafe/gossamer/dot/network/messages"
	"github.com/ChainSafe/gossamer/dot/state"
	"github.com/ChainSafe/gossamer/dot/types"
	"github.com/ChainSafe/gossamer/internal/database"
	"github.com/ChainSafe/gossamer/lib/common"
	"github.com/ChainSafe/gossamer/pkg/trie"
	"github.com/libp2p/go-libp2p/core/peer"
)

// Serving side of C31: the REAL SyncService.CreateBlockResponse over the REAL
// state.BlockState (in-memory pebble + block tree) holding a generated tree with forks.
//
// line:   `srv <tree> <fin> <from> <dir> <max> <mask>`
//   tree  `p:k,p:k,...`  segments: k blocks chained below the block with id p. Ids are given in
//         insertion order, genesis = 0, so `0:5,2:3` is a main chain 1..5 and a fork 6,7,8 on block 2
//   fin   number of the block of the best chain that is finalised after the tree is built (0 = none:
//         everything stays in the in-memory block tree). Blocks up to `fin` then live in the database
//         only. `bad-tree` unless fin <= best number and no other block has a number <= fin (so
//         finalisation prunes nothing; pruning is the business of C15/C17)
//   from  `n<number>` or `h<id>` (an id that is not in the tree is an unknown hash)
//   dir   `a` ascending, `d` descending, `x` invalid (3)
//   max   `nil` or a uint32
//   mask  RequestedData byte
// output: `ok <n> <id>/<present>,...`  present = bit mask of the non-nil fields (1 header, 2 body,
//         4 receipt, 8 message queue, 16 justification), `!` appended when a field's content is not
//         that block's; or an error class.

type c31NoTelemetry struct{}

func (c31NoTelemetry) SendMessage(json.Marshaler) {}

type c31Env struct {
	bs     *state.BlockState
	hashes []common.Hash // by id
	nums   []uint
	ids    map[common.Hash]int
}

var c31Cache = map[string]*c31Env{}

func c31IDBytes(tag byte, id int) []byte {
	b := make([]byte, 5)
	b[0] = tag
	binary.LittleEndian.PutUint32(b[1:], uint32(id))
	return b
}

func c31HasReceipt(id int) bool { return id%3 != 0 }
func c31HasMQ(id int) bool      { return id%4 != 1 }
func c31HasJust(id int) bool    { return id%5 != 2 }

func c31ParseTree(s string) (segs [][2]int, ok bool) {
	if s == "-" {
		return nil, true
	}
	for _, part := range strings.Split(s, ",") {
		pk := strings.Split(part, ":")
		if len(pk) != 2 {
			return nil, false
		}
		p, e1 := strconv.Atoi(pk[0])
		k, e2 := strconv.Atoi(pk[1])
		if e1 != nil || e2 != nil || p < 0 || k < 1 || k > 2000 {
			return nil, false
		}
		segs = append(segs, [2]int{p, k})
	}
	return segs, true
}

// c31Build returns the block state holding the tree (cached: serving only reads it), or the
// reason why there is none.
func c31Build(tree string, fin int) (*c31Env, string) {
	segs, ok := c31ParseTree(tree)
	if !ok {
		return nil, "bad-op"
	}
	key := tree + "|" + strconv.Itoa(fin)
	if e, ok := c31Cache[key]; ok {
		return e, ""
	}
	db, err := database.NewPebble("", true)
	if err != nil {
		return nil, "setup-err"
	}
	genesis := types.NewHeader(common.Hash{}, trie.EmptyHash, trie.EmptyHash, 0, types.NewDigest())
	bs, err := state.NewBlockStateFromGenesis(db, state.NewTries(), genesis, c31NoTelemetry{})
	if err != nil {
		return nil, "setup-err"
	}
	digest := types.NewDigest()
	prd, err := types.NewBabeSecondaryPlainPreDigest(0, 1).ToPreRuntimeDigest()
	if err != nil {
		return nil, "setup-err"
	}
	if err = digest.Add(*prd); err != nil {
		return nil, "setup-err"
	}
	env := &c31Env{bs: bs, ids: map[common.Hash]int{}}
	add := func(h common.Hash, n uint) {
		env.ids[h] = len(env.hashes)
		env.hashes = append(env.hashes, h)
		env.nums = append(env.nums, n)
	}
	add(genesis.Hash(), 0)
	base := time.Unix(1_700_000_000, 0)
	for _, sg := range segs {
		p, k := sg[0], sg[1]
		if p >= len(env.hashes) {
			return nil, "bad-tree"
		}
		for i := 0; i < k; i++ {
			id := len(env.hashes)
			var root common.Hash
			copy(root[:], c31IDBytes(0xee, id))
			hdr := types.NewHeader(env.hashes[p], trie.EmptyHash, root, env.nums[p]+1, digest)
			blk := &types.Block{Header: *hdr, Body: types.Body{types.Extrinsic(c31IDBytes(0xb0, id))}}
			if err := bs.AddBlockWithArrivalTime(blk, base.Add(time.Duration(id)*time.Second)); err != nil {
				return nil, "setup-err"
			}
			h := hdr.Hash()
			add(h, hdr.Number)
			p = id
		}
	}
	for id, h := range env.hashes {
		if c31HasReceipt(id) {
			if bs.SetReceipt(h, c31IDBytes(0xc0, id)) != nil {
				return nil, "setup-err"
			}
		}
		if c31HasMQ(id) {
			if bs.SetMessageQueue(h, c31IDBytes(0xd0, id)) != nil {
				return nil, "setup-err"
			}
		}
		if c31HasJust(id) {
			if bs.SetJustification(h, c31IDBytes(0xe0, id)) != nil {
				return nil, "setup-err"
			}
		}
	}
	// the best leaf must be unique by depth (ties are fork choice, property C16)
	deepest, cnt := uint(0), 0
	for _, n := range env.nums {
		if n > deepest {
			deepest, cnt = n, 1
		} else if n == deepest {
			cnt++
		}
	}
	if cnt != 1 || uint(fin) > deepest {
		return nil, "bad-tree"
	}
	if fin > 0 {
		perNumber := make([]int, deepest+1)
		for _, n := range env.nums {
			perNumber[n]++
		}
		for k := 0; k <= fin; k++ {
			if perNumber[k] != 1 {
				return nil, "bad-tree"
			}
		}
		h, err := bs.GetHashByNumber(uint(fin))
		if err != nil {
			return nil, "setup-err"
		}
		if err := bs.SetFinalisedHash(h, 1, 1); err != nil {
			return nil, "setup-err"
		}
	}
	if len(c31Cache) >= 6 {
		c31Cache = map[string]*c31Env{}
	}
	c31Cache[key] = env
	return env, ""
}

func c31ErrClass(err error) string {
	switch {
	case errors.Is(err, errRequestStartTooHigh):
		return "err-toohigh"
	case errors.Is(err, errFailedToGetDescendant):
		return "err-nodesc"
	case errors.Is(err, errStartAndEndNotOnChain):
		return "err-notonchain"
	case errors.Is(err, errInvalidRequestDirection):
		return "err-dir"
	case errors.Is(err, ErrInvalidBlockRequest):
		return "err-invalid"
	case errors.Is(err, errMaxNumberOfSameRequest):
		return "err-same"
	}
	msg := err.Error()
	switch {
	case strings.HasPrefix(msg, "failed to get start block"):
		return "err-nostart"
	case strings.HasPrefix(msg, "getting end block"):
		return "err-noend"
	case strings.HasPrefix(msg, "retrieving range"):
		return "err-range"
	}
	return "err"
}

func c31Run(line string) string {
	f := strings.Fields(line)
	if len(f) == 2 && f[0] == "const" && f[1] == "MaxBlocksInResponse" {
		return fmt.Sprint(messages.MaxBlocksInResponse)
	}
	if len(f) != 7 || f[0] != "srv" {
		return "bad-op"
	}
	fin, e1 := strconv.Atoi(f[2])
	mask, e2 := strconv.ParseUint(f[6], 10, 8)
	if e1 != nil || e2 != nil || fin < 0 || len(f[3]) < 2 {
		return "bad-op"
	}
	req := &messages.BlockRequestMessage{RequestedData: byte(mask)}
	hashID := -1
	switch f[3][0] {
	case 'n':
		n, err := strconv.ParseUint(f[3][1:], 10, 64)
		if err != nil {
			return "bad-op"
		}
		req.StartingBlock = *messages.NewFromBlock(uint(n))
	case 'h':
		id, err := strconv.Atoi(f[3][1:])
		if err != nil || id < 0 {
			return "bad-op"
		}
		hashID = id
	default:
		return "bad-op"
	}
	switch f[4] {
	case "a":
		req.Direction = messages.Ascending
	case "d":
		req.Direction = messages.Descending
	case "x":
		req.Direction = messages.SyncDirection(3)
	default:
		return "bad-op"
	}
	if f[5] != "nil" {
		m, err := strconv.ParseUint(f[5], 10, 32)
		if err != nil {
			return "bad-op"
		}
		m32 := uint32(m)
		req.Max = &m32
	}
	env, bad := c31Build(f[1], fin)
	if env == nil {
		return bad
	}
	if hashID >= 0 {
		var h common.Hash
		if hashID < len(env.hashes) {
			h = env.hashes[hashID]
		} else {
			copy(h[:], c31IDBytes(0x77, hashID))
		}
		req.StartingBlock = *messages.NewFromBlock(h)
	}
	svc := NewSyncService(WithBlockState(env.bs))
	resp, err := svc.CreateBlockResponse(peer.ID("alice"), req)
	if err != nil {
		return c31ErrClass(err)
	}
	if resp == nil {
		return "nil-resp"
	}
	if len(resp.BlockData) == 0 {
		return "ok 0"
	}
	var sb strings.Builder
	fmt.Fprintf(&sb, "ok %d ", len(resp.BlockData))
	for i, bd := range resp.BlockData {
		if i > 0 {
			sb.WriteByte(',')
		}
		if bd == nil {
			sb.WriteString("nil")
			continue
		}
		id, known := env.ids[bd.Hash]
		if !known {
			sb.WriteString("?")
			continue
		}
		present, wrong := 0, false
		if bd.Header != nil {
			present |= 1
			wrong = wrong || bd.Header.Hash() != bd.Hash || bd.Header.Number != env.nums[id]
		}
		if bd.Body != nil {
			present |= 2
			want := c31IDBytes(0xb0, id)
			if id == 0 {
				wrong = wrong || len(*bd.Body) != 0
			} else {
				wrong = wrong || len(*bd.Body) != 1 || string((*bd.Body)[0]) != string(want)
			}
		}
		if bd.Receipt != nil {
			present |= 4
			wrong = wrong || string(*bd.Receipt) != string(c31IDBytes(0xc0, id))
		}
		if bd.MessageQueue != nil {
			present |= 8
			wrong = wrong || string(*bd.MessageQueue) != string(c31IDBytes(0xd0, id))
		}
		if bd.Justification != nil {
			present |= 16
			wrong = wrong || string(*bd.Justification) != string(c31IDBytes(0xe0, id))
		}
		fmt.Fprintf(&sb, "%d/%d", id, present)
		if wrong {
			sb.WriteByte('!')
		}
	}
	return sb.String()
}

// ---- generator -------------------------------------------------------------------------------

// c31Shape is the generator's view of a tree: number and parent of every id.
type c31Shape struct {
	line   string
	fin    int
	nums   []int
	parent []int
	tips   []int // last id of every segment
	roots  []int // fork points
}

func (s *c31Shape) deepest() (d, cnt int) {
	for _, n := range s.nums {
		if n > d {
			d, cnt = n, 1
		} else if n == d {
			cnt++
		}
	}
	return
}

func c31GenTree(r *vhRng) *c31Shape {
	s := &c31Shape{nums: []int{0}, parent: []int{0}}
	var segs []string
	addSeg := func(p, k int) {
		segs = append(segs, fmt.Sprintf("%d:%d", p, k))
		for i := 0; i < k; i++ {
			s.nums = append(s.nums, s.nums[p]+1)
			s.parent = append(s.parent, p)
			p = len(s.nums) - 1
		}
		s.tips = append(s.tips, p)
	}
	L := r.Pick(0, 1, 2, 3, 5, 9, 20, 60, 126, 127, 128, 129, 130, 131, 200, 255, 256, 257, 258, 300)
	if L > 0 {
		addSeg(0, L)
	}
	nforks := r.Pick(0, 0, 1, 1, 2, 3, 4)
	if L == 0 {
		nforks = 0
	}
	for f := 0; f < nforks; f++ {
		n := len(s.nums)
		var p int
		switch r.Intn(6) {
		case 0:
			p = r.Intn(3) // genesis or the first blocks
		case 1:
			p = n - 1 - r.Intn(4) // near the newest block
		case 2: // 128±2 below the main tip
			p = L - 128 + r.Intn(5) - 2
		default:
			p = r.Intn(n)
		}
		if p < 0 {
			p = 0
		}
		if p >= n {
			p = n - 1
		}
		var k int
		switch r.Intn(6) {
		case 0:
			k = 1
		case 1:
			k = 1 + r.Intn(5)
		case 2:
			k = 126 + r.Intn(6)
		case 3: // up to (or just beyond) the current best number
			d, _ := s.deepest()
			k = d - s.nums[p] + r.Intn(4) - 2
		default:
			k = 1 + r.Intn(40)
		}
		if k < 1 {
			k = 1
		}
		if len(s.nums)+k > 700 {
			k = 1
		}
		// keep the deepest block unique
		d, _ := s.deepest()
		if s.nums[p]+k == d {
			k++
		}
		s.roots = append(s.roots, p)
		addSeg(p, k)
	}
	if len(segs) == 0 {
		s.line = "-"
	} else {
		s.line = strings.Join(segs, ",")
	}
	if _, cnt := s.deepest(); cnt != 1 && len(s.nums) > 1 {
		// cannot happen by construction; fall back to a plain chain
		return &c31Shape{line: "0:7", nums: []int{0, 1, 2, 3, 4, 5, 6, 7}, parent: []int{0, 0, 1, 2, 3, 4, 5, 6}, tips: []int{7}}
	}
	// finalised prefix: up to the first number that two blocks share (nothing is pruned then)
	if r.Chance(2, 5) {
		d, _ := s.deepest()
		per := make([]int, d+1)
		for _, n := range s.nums {
			per[n]++
		}
		lim := 0
		for lim+1 <= d && per[lim+1] == 1 {
			lim++
		}
		switch r.Intn(4) {
		case 0:
			s.fin = lim
		case 1:
			s.fin = lim - r.Intn(3)
		case 2:
			s.fin = 1 + r.Intn(3)
		default:
			s.fin = r.Intn(lim + 1)
		}
		if s.fin < 0 || s.fin > lim {
			s.fin = lim
		}
	}
	return s
}

var (
	c31CurShape *c31Shape
	c31CurLeft  int
)

func c31Gen(r *vhRng) string {
	if r.Chance(1, 500) {
		return "const MaxBlocksInResponse"
	}
	if c31CurShape == nil || c31CurLeft <= 0 {
		c31CurShape = c31GenTree(r)
		c31CurLeft = 30 + r.Intn(60)
		if len(c31CurShape.nums) < 4 {
			c31CurLeft = 8 + r.Intn(10)
		}
	}
	c31CurLeft--
	s := c31CurShape
	best, _ := s.deepest()
	n := len(s.nums)

	maxS := "nil"
	maxV := 128
	switch r.Intn(12) {
	case 0, 1, 2:
	case 3:
		maxS, maxV = "0", 0
	case 4:
		maxS, maxV = "1", 1
	case 5:
		maxS, maxV = "127", 127
	case 6:
		maxS, maxV = "128", 128
	case 7:
		maxS, maxV = "129", 128
	case 8:
		v := r.Pick(1000, 4294967295, 130, 256)
		maxS, maxV = strconv.Itoa(v), 128
	default:
		v := 2 + r.Intn(12)
		maxS, maxV = strconv.Itoa(v), v
	}

	// a block number concentrated where the arithmetic changes
	num := func() int {
		switch r.Intn(8) {
		case 0:
			return r.Intn(3)
		case 1:
			return best + r.Intn(4) - 1
		case 2:
			return maxV + r.Intn(4) - 1
		case 3:
			return best - maxV + r.Intn(4) - 1
		case 4:
			if s.fin > 0 && r.Bool() {
				return s.fin + r.Pick(-1, 0, 1, maxV-1, maxV, maxV+1, -maxV, 1-maxV)
			}
			return r.Pick(126, 127, 128, 129, 130, 255, 256, 257)
		default:
			return r.Intn(best + 2)
		}
	}
	var from string
	if r.Chance(2, 5) {
		v := num()
		if v < 0 {
			v = 0
		}
		from = "n" + strconv.Itoa(v)
		if r.Chance(1, 60) {
			from = "n" + []string{"4294967295", "4294967296", "18446744073709551615", "18446744073709551488"}[r.Intn(4)]
		}
	} else {
		var id int
		switch r.Intn(9) {
		case 0:
			id = 0
		case 1:
			id = n + r.Intn(3) // unknown hash
		case 2, 3:
			if len(s.tips) > 0 {
				id = s.tips[r.Intn(len(s.tips))]
				// walk up a few blocks, or max-1 .. max+1 blocks
				up := r.Pick(0, 0, 1, 2, maxV-1, maxV, maxV+1)
				for ; up > 0 && id != 0; up-- {
					id = s.parent[id]
				}
			}
		case 4:
			if len(s.roots) > 0 {
				id = s.roots[r.Intn(len(s.roots))] + r.Intn(3) - 1
			} else {
				id = r.Intn(n)
			}
		case 5: // a block with a number near max / best-max
			want := num()
			id = r.Intn(n)
			for tries := 0; tries < 50 && s.nums[id] != want; tries++ {
				id = r.Intn(n)
			}
		default:
			id = r.Intn(n)
		}
		if id < 0 {
			id = 0
		}
		from = "h" + strconv.Itoa(id)
	}
	dir := "a"
	switch r.Intn(40) {
	case 0:
		dir = "x"
	default:
		if r.Bool() {
			dir = "d"
		}
	}
	mask := 1 + r.Intn(31)
	switch r.Intn(20) {
	case 0:
		mask = 0
	case 1:
		mask = r.Pick(32, 33, 64, 128, 255, 224)
	case 2, 3:
		mask = r.Pick(1, 2, 4, 8, 16, 19, 31)
	}
	return fmt.Sprintf("srv %s %d %s %s %s %d", s.line, s.fin, from, dir, maxS, mask)
}

func TestVerifC31(t *testing.T) { vhMain(t, c31Gen, c31Run) }
