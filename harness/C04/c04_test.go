//go:build verif

package inmemory

import (
	"errors"
	"fmt"
	"sort"
	"strconv"
	"strings"
	"testing"

	"github.com/ChainSafe/gossamer/internal/database"
	"github.com/ChainSafe/gossamer/pkg/trie"
)

// One case = `op;op;...` on ONE database and a growing list of tries: h0 = NewTrie(nil, db), every
// `snap hI` appends hI.Snapshot().  Ops and their observables:
//   put h k v | del h k | clr h p | ver h 0|1          -> ok
//   putc h c k v   (PutIntoChild(c, k, v))             -> ok
//   snap h                                             -> h<new index>
//   hash h                                             -> root hash
//   wd h           (WriteDirty(db); MustHash())        -> root hash
//   load h         (NewTrie(nil, db).Load(db, hash h)) -> `ok <view of the loaded trie>` | err
//   lput h k v     (Load as above, SetVersion(h's), Put(k, v)) -> `ok <root hash> <entries>` | err
//   gfd h k        (GetFromDB(db, hash h, k))          -> value hex | nil | err
// view = `<root hash> <sorted entries> [c<keyToChild>:<entries of that child>|...]`
// A Go panic inside an op is the observable `panic` and ends the case.

var errC04NotFound = errors.New("not found")

// c04DB: map-backed database; Get of a missing key is an error (as Pebble's ErrNotFound).
type c04DB struct{ m map[string][]byte }

type c04Batch struct {
	db  *c04DB
	buf [][2][]byte
}

func newC04DB() *c04DB { return &c04DB{m: map[string][]byte{}} }
func (d *c04DB) Get(key []byte) ([]byte, error) {
	v, ok := d.m[string(key)]
	if !ok {
		return nil, errC04NotFound
	}
	return append([]byte{}, v...), nil
}
func (d *c04DB) Put(key, value []byte) error {
	d.m[string(key)] = append([]byte{}, value...)
	return nil
}
func (d *c04DB) NewBatch() database.Batch { return &c04Batch{db: d} }
func (b *c04Batch) Put(key, value []byte) error {
	b.buf = append(b.buf, [2][]byte{append([]byte{}, key...), append([]byte{}, value...)})
	return nil
}
func (b *c04Batch) Del(key []byte) error { return nil }
func (b *c04Batch) Close() error         { return nil }
func (b *c04Batch) ValueSize() int       { return len(b.buf) }
func (b *c04Batch) Reset()               { b.buf = nil }
func (b *c04Batch) Flush() error {
	for _, kv := range b.buf {
		b.db.m[string(kv[0])] = kv[1]
	}
	b.buf = nil
	return nil
}

func c04Entries(m map[string][]byte) string {
	if len(m) == 0 {
		return "empty"
	}
	ks := make([]string, 0, len(m))
	for k := range m {
		ks = append(ks, k)
	}
	sort.Strings(ks)
	parts := make([]string, len(ks))
	for i, k := range ks {
		v := m[k]
		vs := "nil"
		if v != nil {
			vs = vhHex(v)
		}
		parts[i] = vhHex([]byte(k)) + "=" + vs
	}
	return strings.Join(parts, ",")
}

func c04View(t *InMemoryTrie) string {
	h := t.MustHash()
	kids := []string{}
	for _, key := range t.GetKeysWithPrefix(ChildStorageKeyPrefix) {
		keyToChild := key[len(ChildStorageKeyPrefix):]
		child, _ := t.getInternalChildTrie(keyToChild)
		if child == nil {
			kids = append(kids, "c"+vhHex(keyToChild)+":missing")
			continue
		}
		kids = append(kids, "c"+vhHex(keyToChild)+":"+c04Entries(child.Entries()))
	}
	return vhHex(h[:]) + " " + c04Entries(t.Entries()) + " [" + strings.Join(kids, "|") + "]"
}

type c04State struct {
	hs []*InMemoryTrie
	db *c04DB
}

func (s *c04State) op(op string) string {
	f := strings.Fields(op)
	if len(f) < 2 || len(f[1]) < 2 || f[1][0] != 'h' {
		return "bad-op"
	}
	i, err := strconv.Atoi(f[1][1:])
	if err != nil || i < 0 || i >= len(s.hs) {
		return "bad-op"
	}
	t := s.hs[i]
	switch {
	case f[0] == "put" && len(f) == 4:
		if err := t.Put(vhUnhex(f[2]), vhUnhex(f[3])); err != nil {
			return "err"
		}
		return "ok"
	case f[0] == "del" && len(f) == 3:
		if err := t.Delete(vhUnhex(f[2])); err != nil {
			return "err"
		}
		return "ok"
	case f[0] == "clr" && len(f) == 3:
		if err := t.ClearPrefix(vhUnhex(f[2])); err != nil {
			return "err"
		}
		return "ok"
	case f[0] == "putc" && len(f) == 5:
		if err := t.PutIntoChild(vhUnhex(f[2]), vhUnhex(f[3]), vhUnhex(f[4])); err != nil {
			return "err"
		}
		return "ok"
	case f[0] == "snap" && len(f) == 2:
		s.hs = append(s.hs, t.Snapshot())
		return fmt.Sprintf("h%d", len(s.hs)-1)
	case f[0] == "ver" && len(f) == 3:
		switch f[2] {
		case "0":
			t.SetVersion(trie.V0)
		case "1":
			t.SetVersion(trie.V1)
		default:
			return "bad-op"
		}
		return "ok"
	case f[0] == "hash" && len(f) == 2:
		h := t.MustHash()
		return vhHex(h[:])
	case f[0] == "wd" && len(f) == 2:
		if err := t.WriteDirty(s.db); err != nil {
			return "err"
		}
		h := t.MustHash()
		return vhHex(h[:])
	case f[0] == "load" && len(f) == 2:
		root := t.MustHash()
		lt := NewTrie(nil, s.db)
		if err := lt.Load(s.db, root); err != nil {
			return "err"
		}
		return "ok " + c04View(lt)
	case f[0] == "lput" && len(f) == 4:
		root := t.MustHash()
		lt := NewTrie(nil, s.db)
		if err := lt.Load(s.db, root); err != nil {
			return "err"
		}
		lt.SetVersion(t.version)
		if err := lt.Put(vhUnhex(f[2]), vhUnhex(f[3])); err != nil {
			return "err"
		}
		h := lt.MustHash()
		return "ok " + vhHex(h[:]) + " " + c04Entries(lt.Entries())
	case f[0] == "gfd" && len(f) == 3:
		root := t.MustHash()
		v, err := GetFromDB(s.db, root, vhUnhex(f[2]))
		if err != nil {
			return "err"
		}
		if v == nil {
			return "nil"
		}
		return vhHex(v)
	}
	return "bad-op"
}

func c04Run(line string) string {
	db := newC04DB()
	s := &c04State{hs: []*InMemoryTrie{NewTrie(nil, db)}, db: db}
	ops := strings.Split(line, ";")
	outs := make([]string, 0, len(ops))
	for _, op := range ops {
		op := op
		res := vhCatch(func() string { return s.op(op) })
		outs = append(outs, res)
		if res == "panic" || strings.HasPrefix(res, "panic ") {
			break
		}
	}
	return strings.Join(outs, ";")
}

// ---------------------------------------------------------------- generator

var c04Alphabets = [][]byte{
	{0x00, 0x01, 0x10},
	{0x10, 0x11, 0x1f},
	{0x00, 0x0f, 0xf0, 0xff},
	{0x12, 0x13, 0x30, 0x3f},
	{0x10, 0x15, 0x1f, 0x50},
	{0xab, 0xa0, 0x0a, 0xb0},
}

type c04Gen struct {
	r     *vhRng
	alpha []byte
	keys  [][]byte
	ckeys [][]byte
	pool  [][]byte
}

func (g *c04Gen) rndKey(maxLen int) []byte {
	n := g.r.Intn(maxLen + 1)
	k := make([]byte, n)
	for i := range k {
		k[i] = g.alpha[g.r.Intn(len(g.alpha))]
	}
	return k
}

func (g *c04Gen) key() []byte {
	if g.r.Chance(1, 12) {
		return g.rndKey(3)
	}
	return g.keys[g.r.Intn(len(g.keys))]
}

// a key near the pool: a pool key, a truncation, an extension, or a pool key with one nibble changed
func (g *c04Gen) probe() []byte {
	k := append([]byte{}, g.key()...)
	switch g.r.Intn(6) {
	case 0:
		return k[:g.r.Intn(len(k)+1)]
	case 1:
		return append(k, g.alpha[g.r.Intn(len(g.alpha))])
	case 2:
		if len(k) > 0 {
			i := g.r.Intn(len(k))
			if g.r.Bool() {
				k[i] ^= byte(1 + g.r.Intn(15))
			} else {
				k[i] ^= byte(1+g.r.Intn(15)) << 4
			}
		}
		return k
	}
	return k
}

// values come mostly from a small pool that is re-used across main-trie keys, child-trie keys and
// snapshot steps (equal large values at different keys: their database rows differ by partial key)
func (g *c04Gen) val() []byte {
	if len(g.pool) > 0 && g.r.Chance(7, 10) {
		return g.pool[g.r.Intn(len(g.pool))]
	}
	switch g.r.Intn(10) {
	case 0:
		return []byte{}
	case 1:
		return g.r.Bytes(g.r.Pick(31, 32, 33))
	case 2:
		return g.r.Bytes(g.r.Pick(33, 40, 100))
	case 3:
		return g.r.Bytes(g.r.Pick(8, 20))
	default:
		return []byte{byte(1 + g.r.Intn(250))}
	}
}

func (g *c04Gen) mutate(ops []string, h int, n int) []string {
	for i := 0; i < n; i++ {
		switch c := g.r.Intn(20); {
		case c < 11:
			ops = append(ops, fmt.Sprintf("put h%d %s %s", h, vhHex(g.key()), vhHex(g.val())))
		case c < 14:
			ops = append(ops, fmt.Sprintf("del h%d %s", h, vhHex(g.key())))
		case c < 15:
			k := g.key()
			ops = append(ops, fmt.Sprintf("clr h%d %s", h, vhHex(k[:g.r.Intn(len(k)+1)])))
		case c < 18 && len(g.ckeys) > 0:
			ck := g.ckeys[g.r.Intn(len(g.ckeys))]
			ops = append(ops, fmt.Sprintf("putc h%d %s %s %s", h, vhHex(ck), vhHex(g.key()), vhHex(g.val())))
		default:
			ops = append(ops, fmt.Sprintf("put h%d %s %s", h, vhHex(g.key()), vhHex(g.val())))
		}
	}
	return ops
}

func (g *c04Gen) reads(ops []string, h int) []string {
	ops = append(ops, fmt.Sprintf("load h%d", h))
	if g.r.Chance(1, 2) {
		// modify the reloaded state: its nodes must hash as the in-memory ones do
		ops = append(ops, fmt.Sprintf("lput h%d %s %s", h, vhHex(g.probe()), vhHex(g.val())))
	}
	seen := map[string]bool{}
	add := func(k []byte) {
		if !seen[string(k)] {
			seen[string(k)] = true
			ops = append(ops, fmt.Sprintf("gfd h%d %s", h, vhHex(k)))
		}
	}
	for _, k := range g.keys {
		add(k)
	}
	n := 2 + g.r.Intn(6)
	for i := 0; i < n; i++ {
		add(g.probe())
	}
	if len(g.ckeys) > 0 && g.r.Chance(1, 2) {
		add(append(append([]byte{}, ChildStorageKeyPrefix...), g.ckeys[0]...))
	}
	return ops
}

func c04GenLine(r *vhRng) string {
	g := &c04Gen{r: r}
	if r.Chance(1, 8) {
		g.alpha = r.Bytes(3)
	} else {
		g.alpha = c04Alphabets[r.Intn(len(c04Alphabets))]
	}
	maxLen := 1 + r.Intn(3)
	nk := 2 + r.Intn(7)
	for i := 0; i < nk; i++ {
		if len(g.keys) > 0 && r.Chance(1, 3) {
			base := g.keys[r.Intn(len(g.keys))]
			g.keys = append(g.keys, append(append([]byte{}, base...), g.rndKey(2)...))
		} else {
			g.keys = append(g.keys, g.rndKey(maxLen))
		}
	}
	if r.Chance(1, 3) {
		nc := 1 + r.Intn(2)
		for i := 0; i < nc; i++ {
			g.ckeys = append(g.ckeys, []byte{byte(0xc0 + i)})
		}
	}
	np := 1 + r.Intn(4)
	g.pool = append(g.pool, r.Bytes(r.Pick(33, 40, 64, 80)))
	for i := 1; i < np; i++ {
		switch r.Intn(4) {
		case 0:
			g.pool = append(g.pool, r.Bytes(r.Pick(33, 64, 100)))
		case 1:
			g.pool = append(g.pool, r.Bytes(r.Pick(31, 32)))
		default:
			g.pool = append(g.pool, []byte{byte(1 + r.Intn(250))})
		}
	}
	ops := []string{}
	if r.Chance(2, 3) {
		ops = append(ops, "ver h0 1")
	}
	ops = g.mutate(ops, 0, 1+r.Intn(10))
	cur := 0
	nh := 1
	chain := 1 + r.Intn(5)
	for c := 0; c < chain; c++ {
		if r.Chance(1, 12) {
			// reads of a root that was not persisted (no demand; exercises the error paths)
			ops = append(ops, fmt.Sprintf("gfd h%d %s", cur, vhHex(g.key())))
		}
		ops = append(ops, fmt.Sprintf("wd h%d", cur))
		ops = g.reads(ops, cur)
		if c+1 < chain && r.Chance(1, 4) {
			// a fork: two snapshots of one persisted parent (child-less or not), child tries created
			// AFTER the fork, equal contents on both sides, each side persisted and read back
			if len(g.ckeys) == 0 {
				g.ckeys = [][]byte{{0xc0}, {0xc1}}
			}
			ops = append(ops, fmt.Sprintf("snap h%d", cur), fmt.Sprintf("snap h%d", cur))
			a, b := nh, nh+1
			nh += 2
			ck := g.ckeys[r.Intn(len(g.ckeys))]
			ck2 := ck
			if r.Bool() {
				ck2 = g.ckeys[r.Intn(len(g.ckeys))]
			}
			k, v := g.key(), g.val()
			ops = append(ops, fmt.Sprintf("putc h%d %s %s %s", a, vhHex(ck), vhHex(k), vhHex(v)))
			ops = append(ops, fmt.Sprintf("putc h%d %s %s %s", b, vhHex(ck2), vhHex(k), vhHex(v)))
			if r.Chance(2, 3) {
				ops = append(ops, fmt.Sprintf("putc h%d %s %s %s", a, vhHex(ck), vhHex(g.key()), vhHex(g.val())))
			}
			ops = g.mutate(ops, a, r.Intn(3))
			ops = g.mutate(ops, b, r.Intn(3))
			ops = append(ops, fmt.Sprintf("wd h%d", a))
			ops = g.reads(ops, a)
			ops = append(ops, fmt.Sprintf("wd h%d", b))
			ops = g.reads(ops, b)
			if r.Bool() {
				ops = append(ops, fmt.Sprintf("putc h%d %s %s %s", b, vhHex(ck2), vhHex(g.key()), vhHex(g.val())))
				ops = append(ops, fmt.Sprintf("wd h%d", b))
				ops = g.reads(ops, b)
				ops = append(ops, fmt.Sprintf("load h%d", a))
			}
			cur = a
			if r.Bool() {
				cur = b
			}
			ops = g.mutate(ops, cur, r.Intn(4))
			continue
		}
		if c+1 < chain {
			ops = append(ops, fmt.Sprintf("snap h%d", cur))
			cur = nh
			nh++
			if r.Chance(1, 6) {
				ops = append(ops, fmt.Sprintf("ver h%d 1", cur))
			}
			ops = g.mutate(ops, cur, r.Intn(6))
		}
	}
	if r.Chance(1, 4) {
		// an older state must still read back
		old := r.Intn(nh)
		ops = g.reads(ops, old)
	}
	return strings.Join(ops, ";")
}

func TestVerifC04(t *testing.T) { vhMain(t, c04GenLine, c04Run) }
