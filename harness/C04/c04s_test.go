//go:build verif

package state

import (
	"fmt"
	"sort"
	"strconv"
	"strings"
	"testing"

	"github.com/ChainSafe/gossamer/internal/database"
	"github.com/ChainSafe/gossamer/lib/runtime/storage"
	"github.com/ChainSafe/gossamer/pkg/trie"
	inmemory_trie "github.com/ChainSafe/gossamer/pkg/trie/inmemory"
)

// Property C04, second run: dot/state InmemoryStorageState on a fresh in-memory Pebble database and
// a fresh cache of tries (`Tries`).  One case = `op;op;...` on a growing list of trie states:
// h0 = NewTrieState(NewEmptyTrie()); `tstate hI` appends StorageState.TrieState(&root(hI)).
//   put h k v | del h k | ver h 0|1   (on the trie of the state)        -> ok
//   store h     (StoreTrie(ts, nil): cache + WriteDirty)                -> root hash
//   evict h     (drop root(h) from the cache: the next read goes to the database)  -> ok
//   tstate h    (TrieState(&root(h)): cached trie or LoadFromDB, then Snapshot)    -> h<new> | err | panic
//   gs h k      (GetStorage(&root(h), k): cached Get or GetFromDB)      -> value hex | nil | err
//   ents h      (Entries(&root(h)): cached trie or LoadFromDB)          -> sorted entries | err
//   hash h                                                              -> root hash

type c04sState struct {
	ss *InmemoryStorageState
	hs []*storage.TrieState
}

func c04sTrie(ts *storage.TrieState) *inmemory_trie.InMemoryTrie {
	return ts.Trie().(*inmemory_trie.InMemoryTrie)
}

func c04sEntries(m map[string][]byte) string {
	if len(m) == 0 {
		return "empty"
	}
	ks := make([]string, 0, len(m))
	for k := range m {
		ks = append(ks, k)
	}
	sort.Strings(ks)
	parts := make([]string, len(ks))
	for i, k := range ks {
		v := m[k]
		vs := "nil"
		if v != nil {
			vs = vhHex(v)
		}
		parts[i] = vhHex([]byte(k)) + "=" + vs
	}
	return strings.Join(parts, ",")
}

func (s *c04sState) op(op string) string {
	f := strings.Fields(op)
	if len(f) < 2 || len(f[1]) < 2 || f[1][0] != 'h' {
		return "bad-op"
	}
	i, err := strconv.Atoi(f[1][1:])
	if err != nil || i < 0 || i >= len(s.hs) {
		return "bad-op"
	}
	ts := s.hs[i]
	t := c04sTrie(ts)
	switch {
	case f[0] == "put" && len(f) == 4:
		if err := t.Put(vhUnhex(f[2]), vhUnhex(f[3])); err != nil {
			return "err"
		}
		return "ok"
	case f[0] == "del" && len(f) == 3:
		if err := t.Delete(vhUnhex(f[2])); err != nil {
			return "err"
		}
		return "ok"
	case f[0] == "ver" && len(f) == 3:
		switch f[2] {
		case "0":
			t.SetVersion(trie.V0)
		case "1":
			t.SetVersion(trie.V1)
		default:
			return "bad-op"
		}
		return "ok"
	case f[0] == "hash" && len(f) == 2:
		h := t.MustHash()
		return vhHex(h[:])
	case f[0] == "store" && len(f) == 2:
		if err := s.ss.StoreTrie(ts, nil); err != nil {
			return "err"
		}
		h := t.MustHash()
		return vhHex(h[:])
	case f[0] == "evict" && len(f) == 2:
		s.ss.tries.delete(t.MustHash())
		return "ok"
	case f[0] == "tstate" && len(f) == 2:
		root := t.MustHash()
		next, err := s.ss.TrieState(&root)
		if err != nil {
			return "err"
		}
		s.hs = append(s.hs, next)
		return fmt.Sprintf("h%d", len(s.hs)-1)
	case f[0] == "gs" && len(f) == 3:
		root := t.MustHash()
		v, err := s.ss.GetStorage(&root, vhUnhex(f[2]))
		if err != nil {
			return "err"
		}
		if v == nil {
			return "nil"
		}
		return vhHex(v)
	case f[0] == "ents" && len(f) == 2:
		root := t.MustHash()
		m, err := s.ss.Entries(&root)
		if err != nil {
			return "err"
		}
		return c04sEntries(m)
	}
	return "bad-op"
}

func c04sRun(line string) string {
	db, err := database.NewPebble("", true)
	if err != nil {
		return "err-db"
	}
	defer db.Close()
	ss, err := NewStorageState(db, nil, NewTries())
	if err != nil {
		return "err-db"
	}
	s := &c04sState{ss: ss, hs: []*storage.TrieState{storage.NewTrieState(inmemory_trie.NewEmptyTrie())}}
	ops := strings.Split(line, ";")
	outs := make([]string, 0, len(ops))
	for _, op := range ops {
		op := op
		res := vhCatch(func() string { return s.op(op) })
		outs = append(outs, res)
		if res == "panic" || strings.HasPrefix(res, "panic ") {
			break
		}
	}
	return strings.Join(outs, ";")
}

// ---------------------------------------------------------------- generator

var c04sAlphabets = [][]byte{
	{0x00, 0x01, 0x10},
	{0x10, 0x11, 0x1f},
	{0x12, 0x13, 0x30, 0x3f},
	{0xab, 0xa0, 0x0a, 0xb0},
}

func c04sGenLine(r *vhRng) string {
	alpha := c04sAlphabets[r.Intn(len(c04sAlphabets))]
	rnd := func(maxLen int) []byte {
		n := r.Intn(maxLen + 1)
		k := make([]byte, n)
		for i := range k {
			k[i] = alpha[r.Intn(len(alpha))]
		}
		return k
	}
	keys := [][]byte{}
	nk := 2 + r.Intn(6)
	for i := 0; i < nk; i++ {
		if len(keys) > 0 && r.Chance(1, 3) {
			keys = append(keys, append(append([]byte{}, keys[r.Intn(len(keys))]...), rnd(2)...))
		} else {
			keys = append(keys, rnd(1+r.Intn(3)))
		}
	}
	key := func() []byte { return keys[r.Intn(len(keys))] }
	pool := [][]byte{r.Bytes(r.Pick(33, 40, 64, 80))}
	for i := r.Intn(3); i > 0; i-- {
		if r.Bool() {
			pool = append(pool, r.Bytes(r.Pick(33, 64)))
		} else {
			pool = append(pool, []byte{byte(1 + r.Intn(250))})
		}
	}
	val := func() []byte {
		if r.Chance(2, 3) {
			return pool[r.Intn(len(pool))]
		}
		switch r.Intn(8) {
		case 0:
			return r.Bytes(r.Pick(31, 32, 33, 40))
		case 1:
			return r.Bytes(r.Pick(8, 20, 100))
		case 2:
			return []byte{}
		default:
			return []byte{byte(1 + r.Intn(250))}
		}
	}
	probe := func() []byte {
		k := append([]byte{}, key()...)
		switch r.Intn(5) {
		case 0:
			return k[:r.Intn(len(k)+1)]
		case 1:
			return append(k, alpha[r.Intn(len(alpha))])
		case 2:
			if len(k) > 0 {
				k[r.Intn(len(k))] ^= byte(1 + r.Intn(15))
			}
		}
		return k
	}
	ops := []string{}
	mutate := func(h, n int) {
		for i := 0; i < n; i++ {
			if r.Chance(1, 4) {
				ops = append(ops, fmt.Sprintf("del h%d %s", h, vhHex(key())))
			} else {
				ops = append(ops, fmt.Sprintf("put h%d %s %s", h, vhHex(key()), vhHex(val())))
			}
		}
	}
	reads := func(h int) {
		if r.Chance(1, 2) {
			ops = append(ops, fmt.Sprintf("ents h%d", h))
		}
		for _, k := range keys {
			if r.Chance(2, 3) {
				ops = append(ops, fmt.Sprintf("gs h%d %s", h, vhHex(k)))
			}
		}
		for i := r.Intn(3); i > 0; i-- {
			ops = append(ops, fmt.Sprintf("gs h%d %s", h, vhHex(probe())))
		}
	}
	if r.Chance(2, 3) {
		ops = append(ops, "ver h0 1")
	}
	mutate(0, 1+r.Intn(8))
	cur, nh := 0, 1
	blocks := 1 + r.Intn(4)
	for b := 0; b < blocks; b++ {
		ops = append(ops, fmt.Sprintf("store h%d", cur))
		if r.Chance(1, 2) {
			reads(cur) // served from the cache
		}
		if r.Chance(2, 3) {
			ops = append(ops, fmt.Sprintf("evict h%d", cur))
			reads(cur) // served from the database
		}
		if r.Chance(1, 12) {
			// the stored trie is written again by its holder: TrieState checks the cached root
			mutate(cur, 1)
		}
		ops = append(ops, fmt.Sprintf("tstate h%d", cur))
		cur = nh
		nh++
		if r.Chance(1, 8) {
			ops = append(ops, fmt.Sprintf("ver h%d 1", cur))
		}
		mutate(cur, r.Intn(5))
	}
	ops = append(ops, fmt.Sprintf("store h%d", cur))
	ops = append(ops, fmt.Sprintf("evict h%d", cur))
	reads(cur)
	if nh > 1 && r.Chance(1, 3) {
		reads(r.Intn(nh - 1))
	}
	return strings.Join(ops, ";")
}

func TestVerifC04S(t *testing.T) { vhMain(t, c04sGenLine, c04sRun) }
