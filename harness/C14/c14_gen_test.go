//go:build verif

package grandpa

// Generators of the C14 harness: random value TEXT for a Go type, by reflection over the real
// declarations (field order and names, array lengths, integer widths, variant indices and names all
// come from the gossamer code; the Lean side has its own spec-derived descriptors).

import (
	"encoding/hex"
	"fmt"
	"reflect"
	"strconv"
	"strings"

	"github.com/ChainSafe/gossamer/pkg/scale"
)

// c14Num draws an integer of the given bit width, concentrated at the ends and at powers of two.
func c14Num(r *vhRng, bits int) uint64 {
	max := ^uint64(0)
	if bits < 64 {
		max = uint64(1)<<uint(bits) - 1
	}
	switch r.Intn(9) {
	case 0:
		return 0
	case 1:
		return 1
	case 2:
		return max
	case 3:
		return max - 1
	case 4:
		return uint64(1) << uint(r.Intn(bits))
	case 5:
		return uint64(1)<<uint(r.Intn(bits)) - 1
	case 6:
		return uint64(r.Intn(300)) & max
	case 7: // one non-zero byte: exposes byte order
		return (uint64(1+r.Intn(255)) << uint(8*r.Intn((bits+7)/8))) & max
	}
	return r.U64() & max
}

var c14CompactBounds = []uint64{0, 1, 2, 63, 64, 65, 255, 256, 16383, 16384, 16385, 65535, 65536,
	1<<30 - 1, 1 << 30, 1<<30 + 1, 1<<31 - 1, 1 << 31, 1<<32 - 2, 1<<32 - 1}

// c14Compact draws a Go `uint` that is written as a SCALE compact integer (block numbers):
// every mode boundary; values of 2^32 and more (not valid Polkadot block numbers, and subject to
// the known pkg/scale finding uint-5to7) are rare.
func c14Compact(r *vhRng) uint64 {
	switch r.Intn(12) {
	case 0, 1, 2, 3, 4, 5:
		return c14CompactBounds[r.Intn(len(c14CompactBounds))]
	case 6, 7:
		return r.U64() % (1 << 32)
	case 8:
		return r.U64() % (1 << 30)
	case 9:
		return uint64(r.Intn(70000))
	case 10:
		return uint64(r.Intn(200))
	}
	if !r.Chance(1, 3) {
		return r.U64() % (1 << 32)
	}
	big := []uint64{1 << 32, 1<<32 + 1, 1 << 40, 1<<56 - 1, 1 << 56, 1<<64 - 1, 1 << 63, r.U64()}
	return big[r.Intn(len(big))]
}

// c14BytesLen: lengths of opaque byte strings around the compact length-prefix boundaries.
func c14BytesLen(r *vhRng) int {
	switch r.Intn(12) {
	case 0, 1:
		return 0
	case 2:
		return 1
	case 3:
		return r.Pick(62, 63, 64, 65)
	case 4:
		if r.Chance(1, 40) {
			return r.Pick(16383, 16384, 16385)
		}
		return r.Pick(31, 32, 33)
	}
	return r.Intn(40)
}

func c14RandBytes(r *vhRng, n int) []byte {
	b := make([]byte, n)
	switch r.Intn(6) {
	case 0: // all zero (e.g. the zero hash: Header.Hash cache sentinel, H256 quirk)
	case 1:
		for i := range b {
			b[i] = 0xff
		}
	case 2: // ascending pattern: exposes reordering
		for i := range b {
			b[i] = byte(i + 1)
		}
	default:
		copy(b, r.Bytes(n))
	}
	return b
}

// c14ListLen: number of elements of a slice of structured items.
func c14ListLen(r *vhRng, depth int) int {
	if depth > 3 {
		return r.Intn(2)
	}
	switch r.Intn(16) {
	case 0, 1, 2:
		return 0
	case 3, 4, 5:
		return 1
	case 6:
		if depth <= 1 && r.Chance(1, 6) {
			return r.Pick(63, 64, 65)
		}
		return 4
	}
	return 1 + r.Intn(4)
}

// c14VDTIndices lists the indices a varying data type accepts (ValueAt succeeds), 0..31.
func c14VDTIndices(vdt scale.VaryingDataType) (idx []uint, zero []any) {
	for i := uint(0); i < 32; i++ {
		z, err := vdt.ValueAt(i)
		if err == nil {
			idx = append(idx, i)
			zero = append(zero, z)
		}
	}
	return
}

func c14Gen(r *vhRng, t reflect.Type, depth int) string {
	if h, ok := c14Hooks[t]; ok && h.genText != nil {
		return h.genText(r, depth)
	}
	if t.Kind() == reflect.Struct {
		if vdt, ok := reflect.New(t).Interface().(scale.VaryingDataType); ok {
			idx, zero := c14VDTIndices(vdt)
			if len(idx) == 0 {
				return "V?"
			}
			k := r.Intn(len(idx))
			zt := reflect.TypeOf(zero[k])
			return fmt.Sprintf("V%d#%s:%s", idx[k], c14TypeName(zt), c14Gen(r, zt, depth+1))
		}
	}
	switch t.Kind() {
	case reflect.Bool:
		if r.Bool() {
			return "t"
		}
		return "f"
	case reflect.Uint8:
		return strconv.FormatUint(c14Num(r, 8), 10)
	case reflect.Uint16:
		return strconv.FormatUint(c14Num(r, 16), 10)
	case reflect.Uint32:
		return strconv.FormatUint(c14Num(r, 32), 10)
	case reflect.Uint64:
		return strconv.FormatUint(c14Num(r, 64), 10)
	case reflect.Uint:
		return strconv.FormatUint(c14Compact(r), 10)
	case reflect.String:
		return "x" + hex.EncodeToString(c14RandBytes(r, 32))
	case reflect.Array:
		if c14IsBytes(t) {
			return "x" + hex.EncodeToString(c14RandBytes(r, t.Len()))
		}
		parts := make([]string, t.Len())
		for i := range parts {
			parts[i] = c14Gen(r, t.Elem(), depth+1)
		}
		return "[" + strings.Join(parts, ",") + "]"
	case reflect.Slice:
		if c14IsBytes(t) {
			return "x" + hex.EncodeToString(c14RandBytes(r, c14BytesLen(r)))
		}
		parts := make([]string, c14ListLen(r, depth))
		for i := range parts {
			parts[i] = c14Gen(r, t.Elem(), depth+1)
		}
		return "[" + strings.Join(parts, ",") + "]"
	case reflect.Ptr:
		if r.Chance(1, 3) {
			return "N"
		}
		return "S" + c14Gen(r, t.Elem(), depth+1)
	case reflect.Struct:
		var parts []string
		for i := 0; i < t.NumField(); i++ {
			if !t.Field(i).IsExported() {
				continue
			}
			parts = append(parts, t.Field(i).Name+":"+c14Gen(r, t.Field(i).Type, depth+1))
		}
		return "(" + strings.Join(parts, ",") + ")"
	}
	return "?" + t.String()
}
