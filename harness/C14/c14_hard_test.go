//go:build verif

package grandpa

// Hardening checks of the C14 harness, run after every successful decode:
//   !mut     encoding or decoding changed the value that was encoded / the input bytes
//   !alias   the decoded value changes when the input buffer is overwritten afterwards, or one of
//            its byte slices lies inside the input buffer
//   !shared  two byte slices / pointers of the decoded value share memory (e.g. two digest items
//            or two precommits backed by one scratch object)
//   !into    decoding into a receiver PRE-FILLED with another valid value of the type (a Header
//            with a populated hash cache, a longer Digest, a Justification with other precommits …)
//            gives a different value, a different re-encoding or a different Hash() than decoding
//            into a fresh value
// All pass = the token `hard=ok`.

import (
	"bytes"
	"hash/fnv"
	"reflect"
	"unsafe"

	"github.com/ChainSafe/gossamer/dot/types"
	"github.com/ChainSafe/gossamer/pkg/scale"
)

type c14Span struct{ lo, hi uintptr }

// c14Collect gathers the memory of every non-empty byte slice and every non-nil pointer reachable
// from v (through varying data types too).
func c14Collect(v reflect.Value, acc *[]c14Span) {
	t := v.Type()
	switch t.Kind() {
	case reflect.Slice:
		if v.Len() == 0 {
			return
		}
		if t.Elem().Kind() == reflect.Uint8 {
			lo := v.Pointer()
			*acc = append(*acc, c14Span{lo, lo + uintptr(v.Len())})
			return
		}
		lo := v.Pointer()
		*acc = append(*acc, c14Span{lo, lo + uintptr(v.Len())*t.Elem().Size()})
		for i := 0; i < v.Len(); i++ {
			c14Collect(v.Index(i), acc)
		}
	case reflect.Array:
		if t.Elem().Kind() == reflect.Uint8 {
			return
		}
		for i := 0; i < v.Len(); i++ {
			c14Collect(v.Index(i), acc)
		}
	case reflect.Ptr:
		if v.IsNil() {
			return
		}
		lo := v.Pointer()
		*acc = append(*acc, c14Span{lo, lo + maxUintptr(1, t.Elem().Size())})
		c14Collect(v.Elem(), acc)
	case reflect.Struct:
		if ev, ok := v.Interface().(scale.EncodeVaryingDataType); ok {
			if _, val, err := ev.IndexValue(); err == nil && val != nil {
				c14Collect(reflect.ValueOf(val), acc)
			}
			return
		}
		for i := 0; i < t.NumField(); i++ {
			if t.Field(i).IsExported() {
				c14Collect(v.Field(i), acc)
			}
		}
	case reflect.Interface:
		if !v.IsNil() {
			c14Collect(v.Elem(), acc)
		}
	}
}

func maxUintptr(a, b uintptr) uintptr {
	if a > b {
		return a
	}
	return b
}

func c14Overlap(a, b c14Span) bool { return a.lo < b.hi && b.lo < a.hi }

// c14Prefill builds another valid value of the kind's type, derived from the case line only:
// the longest of three candidates that differs from the case's own text.
func c14Prefill(k *c14Kind, line, text string) (reflect.Value, bool) {
	h := fnv.New64a()
	h.Write([]byte(line))
	r := vhNewRng(h.Sum64())
	saved := c14AllowOther
	c14AllowOther = false
	defer func() { c14AllowOther = saved }()
	best := ""
	for i := 0; i < 3; i++ {
		c := c14Gen(r, k.typ, 0)
		if c != text && len(c) > len(best) {
			best = c
		}
	}
	if best == "" {
		return reflect.Value{}, false
	}
	savedOthers := c14Others
	pv, err := c14Parse(best, k.typ)
	c14Others = savedOthers
	if err != nil {
		return reflect.Value{}, false
	}
	return pv, true
}

// c14Hard runs the hardening checks; p = the encoded value, enc = its encoding, d = fresh decode.
func c14Hard(k *c14Kind, line, text string, p reflect.Value, enc []byte, d reflect.Value) string {
	out := ""
	want := c14Dump(d.Elem())
	// input mutation: the encoded value and the input bytes are as before
	if c14Dump(p.Elem()) != text {
		out += " !mut:value"
	}
	// decode a private copy so that the buffer can be scribbled on afterwards
	buf := append([]byte{}, enc...)
	d2, err := k.dec(buf)
	if err != nil {
		return " !into:second-decode-failed"
	}
	if !bytes.Equal(buf, enc) {
		out += " !mut:input"
	}
	var spans []c14Span
	c14Collect(d2.Elem(), &spans)
	if len(buf) > 0 {
		lo := uintptr(unsafe.Pointer(&buf[0]))
		in := c14Span{lo, lo + uintptr(len(buf))}
		for _, s := range spans {
			if c14Overlap(s, in) {
				out += " !alias:points-into-input"
				break
			}
		}
	}
	for i := range buf {
		buf[i] ^= 0xa5
	}
	if c14Dump(d2.Elem()) != want {
		out += " !alias:changed-with-input"
	}
sharedLoop:
	for i := range spans {
		for j := i + 1; j < len(spans); j++ {
			if c14Overlap(spans[i], spans[j]) && !c14Nested(spans[i], spans[j]) {
				out += " !shared"
				break sharedLoop
			}
		}
	}
	// stale receiver
	if k.decInto != nil {
		if pre, ok := c14Prefill(k, line, text); ok {
			if hd, isHdr := pre.Interface().(*types.Header); isHdr {
				hd.Hash() // populate the hash cache of the receiver
			}
			if err := k.decInto(append([]byte{}, enc...), pre); err != nil {
				out += " !into:err"
			} else {
				if c14Dump(pre.Elem()) != want {
					out += " !into:value"
				}
				if re, err := k.enc(pre); err != nil || !bytes.Equal(re, enc) {
					out += " !into:reencode"
				}
				if hd, isHdr := pre.Interface().(*types.Header); isHdr {
					if hd.Hash() != d.Interface().(*types.Header).Hash() {
						out += " !into:hash"
					}
				}
			}
		}
	}
	if out == "" {
		return " hard=ok"
	}
	return out
}

// c14Nested: a slice's backing array legitimately contains the memory of … nothing we collect
// separately except pointers INTO it; element byte slices live elsewhere.  Two spans where one is a
// container (slice of structs) and the other a pointer to one of its elements do not occur in these
// types, so nesting is never excused.
func c14Nested(a, b c14Span) bool { return false }
