//go:build verif

package grandpa

// C14: chain data structures encode as the specification defines.
//
// case line:  `<kind> <value text>`   (value syntax: c14_lib_test.go)
// output:     `enc=<hex> rt=ok|rt=err|dec=<text of the decoded value> [hash=<hex>]`
// The value is built with the real gossamer types (by reflection, fields by NAME), encoded with the
// repository's code, decoded again with the repository's decoder and dumped.  The Lean driver
// builds the same abstract value from the same text and encodes it with the spec-derived
// reference encoder (lean/Gossamer/Lib/ChainTypes.lean).
//
// This one run lives in lib/grandpa because that package imports all the anchored ones
// (dot/types, dot/network/messages, internal/…/consensus/grandpa) and has the unexported
// `grandpaMessage` varying data type.

import (
	"bytes"
	"encoding/hex"
	"fmt"
	"reflect"
	"sort"
	"strings"
	"testing"

	"github.com/ChainSafe/gossamer/dot/network/messages"
	"github.com/ChainSafe/gossamer/dot/types"
	client "github.com/ChainSafe/gossamer/internal/client/consensus/grandpa"
	primitives "github.com/ChainSafe/gossamer/internal/primitives/consensus/grandpa"
	"github.com/ChainSafe/gossamer/internal/primitives/core/hash"
	"github.com/ChainSafe/gossamer/internal/primitives/runtime"
	"github.com/ChainSafe/gossamer/internal/primitives/runtime/generic"
	"github.com/ChainSafe/gossamer/lib/common"
	fg "github.com/ChainSafe/gossamer/pkg/finality-grandpa"
	"github.com/ChainSafe/gossamer/pkg/scale"
)

type c14Kind struct {
	name   string
	typ    reflect.Type
	weight int
	enc    func(p reflect.Value) ([]byte, error) // p: pointer to the built value
	dec    func(b []byte) (reflect.Value, error) // pointer to the decoded value
	extra  func(p, d reflect.Value, derr error) string
	// decode into an existing receiver (nil: the package's API only returns new values)
	decInto func(b []byte, p reflect.Value) error
	other   bool // the generator may emit `Other` digest items (spec-valid, not representable)
	// special answers for values the real Go type cannot hold (ok=false: use the normal path)
	special func(k *c14Kind, p reflect.Value) (out string, ok bool)
}

func c14ScaleEnc(p reflect.Value) ([]byte, error) { return scale.Marshal(p.Elem().Interface()) }

func c14ScaleDec(t reflect.Type) func(b []byte) (reflect.Value, error) {
	return func(b []byte) (reflect.Value, error) {
		d := reflect.New(t)
		err := scale.Unmarshal(b, d.Interface())
		return d, err
	}
}

func c14T[T any]() reflect.Type { return reflect.TypeOf((*T)(nil)).Elem() }

// c14Localized is the argument triple of primitives.NewLocalizedPayload (the signed vote payload).
type c14Localized struct {
	Message fg.Message[hash.H256, uint32]
	Round   uint64
	SetID   uint64
}

var c14Kinds []*c14Kind
var c14KindByName = map[string]*c14Kind{}

func c14Add(k *c14Kind) {
	if k.enc == nil {
		k.enc = c14ScaleEnc
	}
	c14Kinds = append(c14Kinds, k)
	c14KindByName[k.name] = k
}

func c14AddScale[T any](name string, weight int) *c14Kind {
	k := &c14Kind{name: name, typ: c14T[T](), weight: weight, dec: c14ScaleDec(c14T[T]()),
		decInto: func(b []byte, p reflect.Value) error { return scale.Unmarshal(b, p.Interface()) }}
	c14Add(k)
	return k
}

// Other digest items met while building the current case: position in the digest and payload.
type c14OtherItem struct {
	pos  int
	data []byte
}

var (
	c14Others     []c14OtherItem
	c14AllowOther bool
)

func c14HeaderHash(p, d reflect.Value, derr error) string {
	h := p.Interface().(*types.Header)
	out := " hash=" + vhHex(h.Hash().ToBytes())
	if derr == nil {
		dh := d.Interface().(*types.Header)
		if dh.Hash() != h.Hash() {
			out += " dhash=" + vhHex(dh.Hash().ToBytes())
		}
	}
	return out
}

// c14Just is the text-level shape of primitives.GrandpaJustification[hash.H256, N]: the ancestry
// headers are written as dot/types headers (same wire format by the specification), because the
// real element type, generic.Header, cannot hold digest items.
type c14Just[N runtime.Number] struct {
	Round          uint64
	Commit         primitives.Commit[hash.H256, N]
	VoteAncestries []types.Header
}

func c14ToReal[N runtime.Number](j *c14Just[N]) (*primitives.GrandpaJustification[hash.H256, N], string) {
	real := &primitives.GrandpaJustification[hash.H256, N]{Round: j.Round, Commit: j.Commit,
		VoteAncestries: make([]runtime.Header[N, hash.H256], len(j.VoteAncestries))}
	for _, h := range j.VoteAncestries {
		if uint64(N(h.Number)) != uint64(h.Number) {
			return nil, "unrep" // not a value of this instantiation at all
		}
	}
	for i, h := range j.VoteAncestries {
		if len(h.Digest) != 0 {
			return nil, "digest"
		}
		real.VoteAncestries[i] = generic.NewHeader[N, hash.H256, runtime.BlakeTwo256](N(h.Number),
			hash.H256(h.ExtrinsicsRoot[:]), hash.H256(h.StateRoot[:]), hash.H256(h.ParentHash[:]), runtime.Digest{})
	}
	return real, ""
}

func c14DecJust[N runtime.Number](b []byte) (reflect.Value, error) {
	j, err := client.DecodeJustification[hash.H256, N, runtime.BlakeTwo256](b)
	if err != nil {
		return reflect.Value{}, err
	}
	out := &c14Just[N]{Round: j.Justification.Round, Commit: j.Justification.Commit,
		VoteAncestries: make([]types.Header, len(j.Justification.VoteAncestries))}
	for i, h := range j.Justification.VoteAncestries {
		out.VoteAncestries[i] = types.Header{
			ParentHash:     common.BytesToHash(h.ParentHash().Bytes()),
			Number:         uint(h.Number()),
			StateRoot:      common.BytesToHash(h.StateRoot().Bytes()),
			ExtrinsicsRoot: common.BytesToHash(h.ExtrinsicsRoot().Bytes()),
			Digest:         types.NewDigest(),
		}
		if len(h.Digest().Logs) != 0 {
			return reflect.Value{}, fmt.Errorf("decoded digest items")
		}
	}
	return reflect.ValueOf(out), nil
}

func c14AddJust[N runtime.Number](name string, weight int) {
	c14Add(&c14Kind{name: name, typ: c14T[c14Just[N]](), weight: weight,
		enc: func(p reflect.Value) ([]byte, error) {
			real, why := c14ToReal(p.Interface().(*c14Just[N]))
			if real == nil {
				return nil, fmt.Errorf(why)
			}
			return scale.Marshal(*real)
		},
		dec: c14DecJust[N],
		special: func(k *c14Kind, p reflect.Value) (string, bool) {
			j := p.Interface().(*c14Just[N])
			_, why := c14ToReal(j)
			switch why {
			case "unrep":
				return "unrep", true
			case "digest":
				// the wire bytes of the spec-valid value: the same struct with dot/types headers
				asm := scale.MustMarshal(*j)
				res := vhCatch(func() string {
					if _, err := k.dec(asm); err != nil {
						return "err"
					}
					return "ok"
				})
				return "unrep asm=" + vhHex(asm) + " dec=" + res, true
			}
			return "", false
		}})
}

func init() {
	c14InitHooks()
	// dot/types
	h := c14AddScale[types.Header]("header", 14)
	h.extra = c14HeaderHash
	h.other = true
	h.special = c14RunOther
	dg := c14AddScale[types.Digest]("digest", 6)
	dg.other = true
	dg.special = c14RunOther
	bp := c14AddScale[types.BabeDigest]("babepre", 6)
	bp.decInto = nil
	bp.dec = func(b []byte) (reflect.Value, error) {
		v, err := types.DecodeBabePreDigest(b)
		d := types.NewBabeDigest()
		if err == nil {
			err = d.SetValue(v)
		}
		return reflect.ValueOf(&d), err
	}
	c14AddScale[types.BabeConsensusDigest]("babecons", 6)
	c14AddScale[types.GrandpaConsensusDigest]("gpcons", 6)
	body := c14AddScale[types.Body]("body", 5)
	body.decInto = nil
	body.dec = func(b []byte) (reflect.Value, error) {
		d, err := types.NewBodyFromBytes(b)
		return reflect.ValueOf(d), err
	}
	c14AddScale[types.GrandpaVote]("vote", 2)
	c14AddScale[types.GrandpaSignedVote]("signedvote", 2)
	c14AddScale[types.GrandpaEquivocationProof]("equivproof", 2)
	c14AddScale[types.GrandpaAuthoritiesRaw]("gpauth", 1)
	c14AddScale[types.AuthorityRaw]("babeauth", 1)
	// lib/grandpa
	c14AddScale[FullVote]("fullvote", 4)
	c14AddScale[SignedMessage]("signedmsg", 2)
	c14AddScale[VoteMessage]("votemsg", 3)
	c14AddScale[CommitMessage]("commitmsg", 4)
	c14AddScale[VersionedNeighbourPacket]("neighbour", 2)
	c14AddScale[CatchUpRequest]("catchupreq", 1)
	c14AddScale[CatchUpResponse]("catchupresp", 3)
	c14AddScale[grandpaMessage]("gmsg", 6)
	c14AddScale[Commit]("commit", 3)
	c14AddScale[Justification]("justification", 4)
	// dot/network/messages (protobuf)
	c14Add(&c14Kind{name: "breq", typ: c14T[messages.BlockRequestMessage](), weight: 8,
		enc: func(p reflect.Value) ([]byte, error) { return p.Interface().(*messages.BlockRequestMessage).Encode() },
		dec: func(b []byte) (reflect.Value, error) {
			d := &messages.BlockRequestMessage{}
			err := d.Decode(b)
			return reflect.ValueOf(d), err
		},
		decInto: func(b []byte, p reflect.Value) error { return p.Interface().(*messages.BlockRequestMessage).Decode(b) }})
	c14Add(&c14Kind{name: "bresp", typ: c14T[messages.BlockResponseMessage](), weight: 8,
		enc: func(p reflect.Value) ([]byte, error) { return p.Interface().(*messages.BlockResponseMessage).Encode() },
		dec: func(b []byte) (reflect.Value, error) {
			d := &messages.BlockResponseMessage{}
			err := d.Decode(b)
			return reflect.ValueOf(d), err
		},
		decInto: func(b []byte, p reflect.Value) error { return p.Interface().(*messages.BlockResponseMessage).Decode(b) }})
	// internal/primitives/consensus/grandpa (finality-grandpa types), block number u32 and u64
	c14AddScale[primitives.Commit[hash.H256, uint32]]("fgcommit32", 2)
	c14AddScale[primitives.Commit[hash.H256, uint64]]("fgcommit64", 1)
	c14AddScale[primitives.SignedMessage[hash.H256, uint32]]("fgsigned32", 2)
	c14AddScale[fg.Message[hash.H256, uint32]]("fgmsg32", 1)
	c14AddJust[uint32]("fgjust32", 4)
	c14AddJust[uint64]("fgjust64", 2)
	c14AddScale[primitives.ScheduledChange[uint32]]("fgsched32", 1)
	c14Add(&c14Kind{name: "localized", typ: c14T[c14Localized](), weight: 3,
		enc: func(p reflect.Value) ([]byte, error) {
			l := p.Interface().(*c14Localized)
			return primitives.NewLocalizedPayload(primitives.RoundNumber(l.Round), primitives.SetID(l.SetID), l.Message), nil
		}})
}

// ---------------------------------------------------------------------------- hooks

func c14InitHooks() {
	// messages.FromBlock: `value any` holding a uint or a hash
	c14Hooks[c14T[messages.FromBlock]()] = &c14Hook{
		dump: func(v reflect.Value) string {
			fb := v.Interface().(messages.FromBlock)
			switch x := fb.RawValue().(type) {
			case uint:
				return fmt.Sprintf("V0#uint:%d", x)
			case common.Hash:
				return "V1#Hash:x" + common.BytesToHex(x[:])[2:]
			}
			return "V?"
		},
		build: func(p *c14P, v reflect.Value) error {
			switch {
			case strings.HasPrefix(p.s[p.i:], "V0#uint:"):
				p.i += len("V0#uint:")
				n, err := p.number()
				if err != nil {
					return err
				}
				v.Set(reflect.ValueOf(*messages.NewFromBlock(uint(n))))
			case strings.HasPrefix(p.s[p.i:], "V1#Hash:"):
				p.i += len("V1#Hash:")
				b, err := p.hexBytes()
				if err != nil {
					return err
				}
				if len(b) != 32 {
					return errC14Unrep
				}
				v.Set(reflect.ValueOf(*messages.NewFromBlock(common.BytesToHash(b))))
			default:
				return errC14Syn
			}
			return nil
		},
		genText: func(r *vhRng, depth int) string {
			if r.Bool() {
				return "V1#Hash:" + c14Gen(r, c14T[common.Hash](), depth)
			}
			// block numbers: u32 on the wire; values above are clamped by the code (rare here)
			n := c14Num(r, 32)
			if r.Chance(1, 12) {
				n = c14Compact(r)
			}
			return fmt.Sprintf("V0#uint:%d", n)
		},
	}
	// types.Digest: the spec-valid `Other` item (index 0) has no Go representation: it is
	// remembered aside so that the harness can still assemble the wire bytes.
	digestT := c14T[types.Digest]()
	itemT := c14T[types.DigestItem]()
	c14Hooks[digestT] = &c14Hook{
		dump: func(v reflect.Value) string {
			parts := make([]string, v.Len())
			for i := range parts {
				parts[i] = c14Dump(v.Index(i))
			}
			return "[" + strings.Join(parts, ",") + "]"
		},
		build: func(p *c14P, v reflect.Value) error {
			if !p.eat('[') {
				return errC14Syn
			}
			nv := reflect.MakeSlice(digestT, 0, 4)
			pos := 0
			for !p.eat(']') {
				if pos > 0 && !p.eat(',') {
					return errC14Syn
				}
				if strings.HasPrefix(p.s[p.i:], "V0#Other:") {
					p.i += len("V0#Other:")
					b, err := p.hexBytes()
					if err != nil {
						return err
					}
					c14Others = append(c14Others, c14OtherItem{pos, b})
				} else {
					e := reflect.New(itemT).Elem()
					if err := c14Build(p, e); err != nil {
						return err
					}
					nv = reflect.Append(nv, e)
				}
				pos++
			}
			v.Set(nv)
			return nil
		},
		genText: func(r *vhRng, depth int) string {
			n := c14ListLen(r, depth)
			if r.Chance(1, 4) {
				n = 5 + r.Intn(4) // all kinds likely present
			}
			parts := make([]string, n)
			for i := range parts {
				if c14AllowOther && r.Chance(1, 10) {
					parts[i] = "V0#Other:" + c14Gen(r, c14T[[]byte](), depth+1)
				} else {
					parts[i] = c14Gen(r, itemT, depth+1)
				}
			}
			return "[" + strings.Join(parts, ",") + "]"
		},
	}
	// block bodies: extrinsic counts at the compact length-prefix boundaries (64, 16384), also
	// inside a BlockResponse (NewBodyFromEncodedBytes writes the count itself)
	c14Hooks[c14T[types.Body]()] = &c14Hook{
		genText: func(r *vhRng, depth int) string {
			n := 0
			switch k := r.Intn(200); {
			case k == 0:
				n = r.Pick(16383, 16384, 16385)
			case k < 30:
				n = r.Pick(62, 63, 64, 65)
			case k < 130:
				n = r.Intn(4)
			default:
				n = 4 + r.Intn(5)
			}
			parts := make([]string, n)
			for i := range parts {
				if n > 8 {
					parts[i] = "x" + hex.EncodeToString(r.Bytes(r.Intn(3)))
				} else {
					parts[i] = c14Gen(r, c14T[types.Extrinsic](), depth+1)
				}
			}
			return "[" + strings.Join(parts, ",") + "]"
		},
	}
	// a BlockResponse never holds nil block data (Encode would dereference it)
	c14Hooks[c14T[[]*types.BlockData]()] = &c14Hook{
		genText: func(r *vhRng, depth int) string {
			n := r.Pick(0, 1, 1, 1, 2, 2, 3)
			parts := make([]string, n)
			for i := range parts {
				parts[i] = "S" + c14Gen(r, c14T[types.BlockData](), depth+1)
			}
			return "[" + strings.Join(parts, ",") + "]"
		},
	}
}

// ---------------------------------------------------------------------------- run

// c14AsmDigest assembles the wire bytes of a digest some of whose items are `Other` (index 0,
// payload = opaque bytes): compact item count, then the items in order.
func c14AsmDigest(d types.Digest) []byte {
	out := scale.MustMarshal(uint(len(d) + len(c14Others)))
	gi, oi := 0, 0
	for pos := 0; pos < len(d)+len(c14Others); pos++ {
		if oi < len(c14Others) && c14Others[oi].pos == pos {
			out = append(out, 0)
			out = append(out, scale.MustMarshal(c14Others[oi].data)...)
			oi++
		} else {
			out = append(out, scale.MustMarshal(d[gi])...)
			gi++
		}
	}
	return out
}

func c14RunOther(k *c14Kind, p reflect.Value) (string, bool) {
	if len(c14Others) == 0 {
		return "", false
	}
	var asm []byte
	switch v := p.Interface().(type) {
	case *types.Header:
		asm = append(asm, v.ParentHash[:]...)
		asm = append(asm, scale.MustMarshal(v.Number)...)
		asm = append(asm, v.StateRoot[:]...)
		asm = append(asm, v.ExtrinsicsRoot[:]...)
		asm = append(asm, c14AsmDigest(v.Digest)...)
	case *types.Digest:
		asm = c14AsmDigest(*v)
	default:
		return "unrep", true
	}
	_, err := k.dec(asm)
	if err != nil {
		return "unrep asm=" + vhHex(asm) + " dec=err", true
	}
	return "unrep asm=" + vhHex(asm) + " dec=ok", true
}

func c14VDTTable(t reflect.Type) string {
	vdt, ok := reflect.New(t).Interface().(scale.VaryingDataType)
	if !ok {
		return "not-a-vdt"
	}
	idx, zero := c14VDTIndices(vdt)
	parts := make([]string, len(idx))
	for i := range idx {
		parts[i] = fmt.Sprintf("%d:%s", idx[i], c14TypeName(reflect.TypeOf(zero[i])))
	}
	return strings.Join(parts, ",")
}

var c14VDTs = map[string]reflect.Type{
	"DigestItem":               c14T[types.DigestItem](),
	"BabeDigest":               c14T[types.BabeDigest](),
	"BabeConsensusDigest":      c14T[types.BabeConsensusDigest](),
	"VersionedNextConfigData":  c14T[types.VersionedNextConfigData](),
	"GrandpaConsensusDigest":   c14T[types.GrandpaConsensusDigest](),
	"GrandpaEquivocationEnum":  c14T[types.GrandpaEquivocationEnum](),
	"grandpaMessage":           c14T[grandpaMessage](),
	"VersionedNeighbourPacket": c14T[VersionedNeighbourPacket](),
	"Message":                  c14T[fg.Message[hash.H256, uint32]](),
}

var c14Consts = map[string]func() string{
	"BabeEngineID":               func() string { return vhHex(types.BabeEngineID[:]) },
	"GrandpaEngineID":            func() string { return vhHex(types.GrandpaEngineID[:]) },
	"PrimitivesGrandpaEngineID":  func() string { return vhHex(primitives.GrandpaEngineID[:]) },
	"MaxBlocksInResponse":        func() string { return fmt.Sprint(messages.MaxBlocksInResponse) },
	"RequestedDataHeader":        func() string { return fmt.Sprint(messages.RequestedDataHeader) },
	"RequestedDataBody":          func() string { return fmt.Sprint(messages.RequestedDataBody) },
	"RequestedDataReceipt":       func() string { return fmt.Sprint(messages.RequestedDataReceipt) },
	"RequestedDataMessageQueue":  func() string { return fmt.Sprint(messages.RequestedDataMessageQueue) },
	"RequestedDataJustification": func() string { return fmt.Sprint(messages.RequestedDataJustification) },
	"BootstrapRequestData":       func() string { return fmt.Sprint(messages.BootstrapRequestData) },
	"Ascending":                  func() string { return fmt.Sprint(byte(messages.Ascending)) },
	"Descending":                 func() string { return fmt.Sprint(byte(messages.Descending)) },
	"FromBlockNumber":            func() string { return fmt.Sprint(byte(messages.FromBlockNumber)) },
	"FromBlockHash":              func() string { return fmt.Sprint(byte(messages.FromBlockHash)) },
	"prevote":                    func() string { return fmt.Sprint(byte(prevote)) },
	"precommit":                  func() string { return fmt.Sprint(byte(precommit)) },
	"primaryProposal":            func() string { return fmt.Sprint(byte(primaryProposal)) },
}

func c14Run(line string) string {
	sp := strings.IndexByte(line, ' ')
	if sp < 0 {
		return "bad-op"
	}
	kind, text := line[:sp], line[sp+1:]
	switch kind {
	case "const":
		if f, ok := c14Consts[text]; ok {
			return f()
		}
		return "bad-op"
	case "idx":
		if t, ok := c14VDTs[text]; ok {
			return c14VDTTable(t)
		}
		return "bad-op"
	case "prert": // BabeDigest value -> its PreRuntimeDigest wrapping
		c14Others = nil
		p, err := c14Parse(text, c14T[types.BabeDigest]())
		if err != nil {
			return err.Error()
		}
		val, err := p.Interface().(*types.BabeDigest).Value()
		if err != nil {
			return "err"
		}
		var pre *types.PreRuntimeDigest
		switch d := val.(type) {
		case types.BabePrimaryPreDigest:
			pre, err = d.ToPreRuntimeDigest()
		case types.BabeSecondaryPlainPreDigest:
			pre, err = d.ToPreRuntimeDigest()
		case types.BabeSecondaryVRFPreDigest:
			pre, err = d.ToPreRuntimeDigest()
		}
		if err != nil || pre == nil {
			return "err"
		}
		return "pre=" + c14Dump(reflect.ValueOf(pre).Elem())
	case "hcache": // `<header>;<new number>`: Hash(), mutate Number, Hash(), hash of a deep copy
		parts := strings.Split(text, ";")
		if len(parts) != 2 {
			return "bad-op"
		}
		c14Others = nil
		p, err := c14Parse(parts[0], c14T[types.Header]())
		if err != nil || len(c14Others) > 0 {
			return "bad-op"
		}
		var n uint
		if _, err := fmt.Sscan(parts[1], &n); err != nil {
			return "bad-op"
		}
		h := p.Interface().(*types.Header)
		h1 := h.Hash()
		h.Number = n
		h2 := h.Hash()
		cp, _ := h.DeepCopy()
		h3 := cp.Hash()
		return vhHex(h1[:]) + " " + vhHex(h2[:]) + " " + vhHex(h3[:])
	}
	k, ok := c14KindByName[kind]
	if !ok {
		return "bad-op"
	}
	c14Others = nil
	p, err := c14Parse(text, k.typ)
	if err != nil {
		return err.Error()
	}
	if k.special != nil {
		if out, ok := k.special(k, p); ok {
			return out
		}
	}
	if len(c14Others) > 0 {
		return "unrep"
	}
	enc, err := k.enc(p)
	if err != nil {
		return "enc-err"
	}
	out := "enc=" + vhHex(enc)
	var d reflect.Value
	var derr error
	if k.dec != nil {
		orig := append([]byte{}, enc...) // snapshot: the decoder must not write to its input
		d, derr = k.dec(enc)
		if !bytes.Equal(orig, enc) {
			out += " !mut:input"
			enc = orig
		}
		if derr != nil {
			out += " rt=err"
		} else {
			if dt := c14Dump(d.Elem()); dt == text {
				out += " rt=ok"
			} else {
				out += " dec=" + dt
			}
			out += c14Hard(k, line, text, p, enc, d)
		}
	}
	if k.extra != nil {
		out += k.extra(p, d, derr)
	}
	return out
}

// ---------------------------------------------------------------------------- gen

var c14TotalWeight int

func c14Gen1(r *vhRng) string {
	if c14TotalWeight == 0 {
		for _, k := range c14Kinds {
			c14TotalWeight += k.weight
		}
	}
	switch r.Intn(100) {
	case 0:
		names := make([]string, 0, len(c14Consts))
		for n := range c14Consts {
			names = append(names, n)
		}
		sort.Strings(names)
		return "const " + names[r.Intn(len(names))]
	case 1:
		names := make([]string, 0, len(c14VDTs))
		for n := range c14VDTs {
			names = append(names, n)
		}
		sort.Strings(names)
		return "idx " + names[r.Intn(len(names))]
	case 2, 3, 4:
		return "prert " + c14Gen(r, c14T[types.BabeDigest](), 0)
	case 5, 6:
		c14AllowOther = false
		return "hcache " + c14Gen(r, c14T[types.Header](), 0) + ";" + fmt.Sprint(c14Compact(r))
	}
	w := r.Intn(c14TotalWeight)
	for _, k := range c14Kinds {
		if w < k.weight {
			c14AllowOther = k.other
			s := k.name + " " + c14Gen(r, k.typ, 0)
			c14AllowOther = false
			return s
		}
		w -= k.weight
	}
	return "const BabeEngineID"
}

func TestVerifC14(t *testing.T) { vhMain(t, c14Gen1, c14Run) }
