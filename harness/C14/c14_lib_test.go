//go:build verif

package grandpa

// Text <-> Go value machinery of the C14 harness (reflection over the REAL gossamer types).
//
// value syntax (no blanks, self describing; the Lean driver parses the same text directed by its
// own spec-derived type descriptors, which carry the field / variant names used here):
//   123                      unsigned integer (decimal)
//   t | f                    bool
//   x<hex>                   byte slice / byte array / 32-byte hash string ("x" alone = empty)
//   [v,v,...]                slice or array of non-bytes
//   (Name:v,Name:v,...)      struct: exported fields in Go declaration order, by name
//   N | S<v>                 nil pointer | pointer to v
//   V<idx>#<TypeName>:<v>    varying data type holding <v> of Go type <TypeName> at index <idx>

import (
	"encoding/hex"
	"errors"
	"fmt"
	"reflect"
	"strconv"
	"strings"

	"github.com/ChainSafe/gossamer/pkg/scale"
)

var (
	errC14Unrep = errors.New("unrep")    // the Go type cannot hold the value (e.g. missing variant)
	errC14Name  = errors.New("bad-name") // field / variant name differs from the Go declaration
	errC14Syn   = errors.New("bad-op")   // malformed text
)

type c14P struct {
	s string
	i int
}

func (p *c14P) peek() byte {
	if p.i < len(p.s) {
		return p.s[p.i]
	}
	return 0
}

func (p *c14P) eat(c byte) bool {
	if p.peek() == c && p.i < len(p.s) {
		p.i++
		return true
	}
	return false
}

func (p *c14P) ident() string {
	j := p.i
	for j < len(p.s) {
		c := p.s[j]
		if c >= 'a' && c <= 'z' || c >= 'A' && c <= 'Z' || c >= '0' && c <= '9' || c == '_' {
			j++
		} else {
			break
		}
	}
	id := p.s[p.i:j]
	p.i = j
	return id
}

func (p *c14P) number() (uint64, error) {
	j := p.i
	for j < len(p.s) && p.s[j] >= '0' && p.s[j] <= '9' {
		j++
	}
	if j == p.i {
		return 0, errC14Syn
	}
	n, err := strconv.ParseUint(p.s[p.i:j], 10, 64)
	if err != nil {
		return 0, errC14Syn
	}
	p.i = j
	return n, nil
}

func (p *c14P) hexBytes() ([]byte, error) {
	if !p.eat('x') {
		return nil, errC14Syn
	}
	j := p.i
	for j < len(p.s) && (p.s[j] >= '0' && p.s[j] <= '9' || p.s[j] >= 'a' && p.s[j] <= 'f') {
		j++
	}
	b, err := hex.DecodeString(p.s[p.i:j])
	if err != nil {
		return nil, errC14Syn
	}
	p.i = j
	return b, nil
}

// c14Hook customises types reflection cannot handle (interfaces, `any` payloads, private fields).
type c14Hook struct {
	dump    func(v reflect.Value) string
	build   func(p *c14P, v reflect.Value) error
	genText func(r *vhRng, depth int) string
}

var c14Hooks = map[reflect.Type]*c14Hook{}

func c14TypeName(t reflect.Type) string {
	n := t.Name()
	if k := strings.IndexByte(n, '['); k >= 0 {
		n = n[:k]
	}
	return n
}

func c14IsBytes(t reflect.Type) bool {
	return (t.Kind() == reflect.Slice || t.Kind() == reflect.Array) && t.Elem().Kind() == reflect.Uint8
}

// c14AsVDT returns the varying-data-type view of an addressable value, if it has one.
func c14AsVDT(v reflect.Value) (scale.VaryingDataType, bool) {
	if v.Kind() != reflect.Struct || !v.CanAddr() {
		return nil, false
	}
	vdt, ok := v.Addr().Interface().(scale.VaryingDataType)
	return vdt, ok
}

// ---------------------------------------------------------------------------- dump

func c14Dump(v reflect.Value) string {
	t := v.Type()
	if h, ok := c14Hooks[t]; ok && h.dump != nil {
		return h.dump(v)
	}
	switch t.Kind() {
	case reflect.Bool:
		if v.Bool() {
			return "t"
		}
		return "f"
	case reflect.Uint8, reflect.Uint16, reflect.Uint32, reflect.Uint64, reflect.Uint:
		return strconv.FormatUint(v.Uint(), 10)
	case reflect.String: // hash.H256: shorter strings are zero padded by its MarshalSCALE
		b := make([]byte, 32)
		copy(b, v.String())
		return "x" + hex.EncodeToString(b)
	case reflect.Slice, reflect.Array:
		if c14IsBytes(t) {
			b := make([]byte, v.Len())
			for i := range b {
				b[i] = byte(v.Index(i).Uint())
			}
			return "x" + hex.EncodeToString(b)
		}
		parts := make([]string, v.Len())
		for i := range parts {
			parts[i] = c14Dump(v.Index(i))
		}
		return "[" + strings.Join(parts, ",") + "]"
	case reflect.Ptr:
		if v.IsNil() {
			return "N"
		}
		return "S" + c14Dump(v.Elem())
	case reflect.Struct:
		if ev, ok := v.Interface().(scale.EncodeVaryingDataType); ok {
			idx, val, err := ev.IndexValue()
			if err != nil {
				return "V?"
			}
			// copy into an addressable value so that nested varying data types can be seen
			nv := reflect.New(reflect.TypeOf(val)).Elem()
			nv.Set(reflect.ValueOf(val))
			return fmt.Sprintf("V%d#%s:%s", idx, c14TypeName(nv.Type()), c14Dump(nv))
		}
		var parts []string
		for i := 0; i < t.NumField(); i++ {
			if !t.Field(i).IsExported() {
				continue
			}
			parts = append(parts, t.Field(i).Name+":"+c14Dump(v.Field(i)))
		}
		return "(" + strings.Join(parts, ",") + ")"
	}
	return "?" + t.String()
}

// ---------------------------------------------------------------------------- build

func c14UintMax(k reflect.Kind) uint64 {
	switch k {
	case reflect.Uint8:
		return 1<<8 - 1
	case reflect.Uint16:
		return 1<<16 - 1
	case reflect.Uint32:
		return 1<<32 - 1
	}
	return 1<<64 - 1
}

func c14Build(p *c14P, v reflect.Value) error {
	t := v.Type()
	if h, ok := c14Hooks[t]; ok && h.build != nil {
		return h.build(p, v)
	}
	if vdt, ok := c14AsVDT(v); ok {
		return c14BuildVDT(p, vdt)
	}
	switch t.Kind() {
	case reflect.Bool:
		switch {
		case p.eat('t'):
			v.SetBool(true)
		case p.eat('f'):
			v.SetBool(false)
		default:
			return errC14Syn
		}
		return nil
	case reflect.Uint8, reflect.Uint16, reflect.Uint32, reflect.Uint64, reflect.Uint:
		n, err := p.number()
		if err != nil {
			return err
		}
		if n > c14UintMax(t.Kind()) {
			return errC14Unrep
		}
		v.SetUint(n)
		return nil
	case reflect.String:
		b, err := p.hexBytes()
		if err != nil {
			return err
		}
		v.SetString(string(b))
		return nil
	case reflect.Array:
		if c14IsBytes(t) {
			b, err := p.hexBytes()
			if err != nil {
				return err
			}
			if len(b) != t.Len() {
				return errC14Unrep
			}
			for i := range b {
				v.Index(i).SetUint(uint64(b[i]))
			}
			return nil
		}
		if !p.eat('[') {
			return errC14Syn
		}
		for i := 0; i < t.Len(); i++ {
			if i > 0 && !p.eat(',') {
				return errC14Syn
			}
			if err := c14Build(p, v.Index(i)); err != nil {
				return err
			}
		}
		if !p.eat(']') {
			return errC14Syn
		}
		return nil
	case reflect.Slice:
		if c14IsBytes(t) {
			b, err := p.hexBytes()
			if err != nil {
				return err
			}
			nv := reflect.MakeSlice(t, len(b), len(b))
			for i := range b {
				nv.Index(i).SetUint(uint64(b[i]))
			}
			v.Set(nv)
			return nil
		}
		if !p.eat('[') {
			return errC14Syn
		}
		nv := reflect.MakeSlice(t, 0, 4)
		for !p.eat(']') {
			if nv.Len() > 0 && !p.eat(',') {
				return errC14Syn
			}
			e := reflect.New(t.Elem()).Elem()
			if err := c14Build(p, e); err != nil {
				return err
			}
			nv = reflect.Append(nv, e)
		}
		v.Set(nv)
		return nil
	case reflect.Ptr:
		if p.eat('N') {
			v.Set(reflect.Zero(t))
			return nil
		}
		if !p.eat('S') {
			return errC14Syn
		}
		e := reflect.New(t.Elem())
		if err := c14Build(p, e.Elem()); err != nil {
			return err
		}
		v.Set(e)
		return nil
	case reflect.Struct:
		if !p.eat('(') {
			return errC14Syn
		}
		first := true
		for i := 0; i < t.NumField(); i++ {
			if !t.Field(i).IsExported() {
				continue
			}
			if !first && !p.eat(',') {
				return errC14Syn
			}
			first = false
			if p.ident() != t.Field(i).Name {
				return errC14Name
			}
			if !p.eat(':') {
				return errC14Syn
			}
			if err := c14Build(p, v.Field(i)); err != nil {
				return err
			}
		}
		if !p.eat(')') {
			return errC14Syn
		}
		return nil
	}
	return errC14Syn
}

func c14BuildVDT(p *c14P, vdt scale.VaryingDataType) error {
	if !p.eat('V') {
		return errC14Syn
	}
	idx, err := p.number()
	if err != nil {
		return err
	}
	if !p.eat('#') {
		return errC14Syn
	}
	name := p.ident()
	if !p.eat(':') {
		return errC14Syn
	}
	zero, err := vdt.ValueAt(uint(idx))
	if err != nil {
		return errC14Unrep
	}
	if c14TypeName(reflect.TypeOf(zero)) != name {
		return errC14Name
	}
	nv := reflect.New(reflect.TypeOf(zero)).Elem()
	if err := c14Build(p, nv); err != nil {
		return err
	}
	if err := vdt.SetValue(nv.Interface()); err != nil {
		return errC14Unrep
	}
	return nil
}

// c14Parse builds a fresh *T from text; the whole text must be consumed.
func c14Parse(text string, t reflect.Type) (reflect.Value, error) {
	p := &c14P{s: text}
	v := reflect.New(t)
	if err := c14Build(p, v.Elem()); err != nil {
		return v, err
	}
	if p.i != len(p.s) {
		return v, errC14Syn
	}
	return v, nil
}
