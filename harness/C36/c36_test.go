//go:build verif

package state

// Harness of property C36 (chain state survives a crash at any write).
//
// One case = a scripted scenario (block imports with state tries, finalisations, scheduled and forced
// GRANDPA authority changes, BABE next-epoch data/config announcements and their finalisation, justifications,
// prevotes/precommits, latest-round updates) run on the REAL dot/state code over a real in-memory
// Pebble database that is wrapped by a recorder.  Observables:
//   (i)  the result of every operation and the ordered write log (key classes, batches bracketed);
//   (ii) for EVERY prefix k of the write log: a fresh Pebble database is rebuilt from genesis + the first
//        k log entries, the real restart path (Service.Start and the reads lib/grandpa.NewService /
//        initiateRound make) is run on it and its outcome is printed.

import (
	"bytes"
	"encoding/binary"
	"errors"
	"fmt"
	"sort"
	"strconv"
	"strings"
	"sync"
	"testing"

	"github.com/ChainSafe/gossamer/dot/telemetry"
	"github.com/ChainSafe/gossamer/dot/types"
	"github.com/ChainSafe/gossamer/internal/database"
	"github.com/ChainSafe/gossamer/internal/log"
	"github.com/ChainSafe/gossamer/lib/blocktree"
	"github.com/ChainSafe/gossamer/lib/common"
	"github.com/ChainSafe/gossamer/lib/crypto/ed25519"
	"github.com/ChainSafe/gossamer/lib/keystore"
	"github.com/ChainSafe/gossamer/pkg/scale"
	"github.com/ChainSafe/gossamer/pkg/trie"
	inmemory_trie "github.com/ChainSafe/gossamer/pkg/trie/inmemory"
)

const (
	c36MaxID   = 9 // block ids 1..9, 0 = genesis
	c36Keys    = 3 // storage keys that blocks modify
	c36MaxOps  = 14
	c36ValSize = 40
	c36EpochLen = 2 // slots per epoch; the slot of a block is 1000 + its number
	c36MaxEpoch = 6
)

// ---------------------------------------------------------------------------------------------
// recorder: a database.Database that logs every successful write in order

type c36Write struct {
	del bool
	key []byte
	val []byte
}

type c36Entry struct {
	batch  bool
	writes []c36Write
}

type c36Rec struct {
	database.Database
	mu  sync.Mutex
	log []c36Entry
}

func (r *c36Rec) add(e c36Entry) {
	r.mu.Lock()
	r.log = append(r.log, e)
	r.mu.Unlock()
}

func (r *c36Rec) Put(key, value []byte) error {
	err := r.Database.Put(key, value)
	if err == nil {
		r.add(c36Entry{writes: []c36Write{{key: bytes.Clone(key), val: bytes.Clone(value)}}})
	}
	return err
}

func (r *c36Rec) Del(key []byte) error {
	err := r.Database.Del(key)
	if err == nil {
		r.add(c36Entry{writes: []c36Write{{del: true, key: bytes.Clone(key)}}})
	}
	return err
}

func (r *c36Rec) NewBatch() database.Batch {
	return &c36Batch{Batch: r.Database.NewBatch(), rec: r}
}

type c36Batch struct {
	database.Batch
	rec *c36Rec
	buf []c36Write
}

func (b *c36Batch) Put(key, value []byte) error {
	err := b.Batch.Put(key, value)
	if err == nil {
		b.buf = append(b.buf, c36Write{key: bytes.Clone(key), val: bytes.Clone(value)})
	}
	return err
}

func (b *c36Batch) Del(key []byte) error {
	err := b.Batch.Del(key)
	if err == nil {
		b.buf = append(b.buf, c36Write{del: true, key: bytes.Clone(key)})
	}
	return err
}

func (b *c36Batch) Flush() error {
	err := b.Batch.Flush()
	if err == nil {
		b.rec.add(c36Entry{batch: true, writes: b.buf})
		b.buf = nil
	}
	return err
}

func (b *c36Batch) Reset() {
	b.Batch.Reset()
	b.buf = nil
}

// c36Apply replays log entries on a database through the real Put/Del/NewBatch/Flush.
func c36Apply(db database.Database, entries []c36Entry) error {
	for _, e := range entries {
		if e.batch {
			b := db.NewBatch()
			for _, w := range e.writes {
				var err error
				if w.del {
					err = b.Del(w.key)
				} else {
					err = b.Put(w.key, w.val)
				}
				if err != nil {
					return err
				}
			}
			if err := b.Flush(); err != nil {
				return err
			}
			continue
		}
		for _, w := range e.writes {
			var err error
			if w.del {
				err = db.Del(w.key)
			} else {
				err = db.Put(w.key, w.val)
			}
			if err != nil {
				return err
			}
		}
	}
	return nil
}

// ---------------------------------------------------------------------------------------------
// fixed material

var (
	c36Once    sync.Once
	c36Keyring *keystore.Ed25519Keyring
	c36BabeCfg = &types.BabeConfiguration{
		SlotDuration: 1000, EpochLength: c36EpochLen, C1: 1, C2: 4, SecondarySlots: 1,
	}
)

func c36Init() {
	c36Once.Do(func() {
		logger.Patch(log.SetLevel(log.Critical))
		kr, err := keystore.NewEd25519Keyring()
		if err != nil {
			panic(err)
		}
		c36Keyring = kr
	})
}

// the storage value of key k when its abstract value is v
func c36Val(k, v int) []byte {
	b := bytes.Repeat([]byte{byte(0x40 + 16*k + v)}, c36ValSize)
	b[0], b[1] = byte(k), byte(v)
	return b
}

func c36Key(k int) []byte {
	// distinct first nibbles so that the keys hang off one root branch
	return []byte{byte(0x10 * (k + 1)), 0xc3, 0x60 + byte(k), 0x36}
}

type c36State [c36Keys]int

func (s c36State) String() string {
	var sb strings.Builder
	for _, v := range s {
		sb.WriteString(strconv.Itoa(v))
	}
	return sb.String()
}

// c36FreshTrie builds the trie of an abstract state from scratch (used for the genesis trie and to learn
// the state root of every state without touching the node under test).
func c36FreshTrie(s c36State) *inmemory_trie.InMemoryTrie {
	t := inmemory_trie.NewEmptyTrie()
	must := func(err error) {
		if err != nil {
			panic(err)
		}
	}
	must(t.Put([]byte(":code"), bytes.Repeat([]byte{0xc0}, 64)))
	must(t.Put([]byte{0x77, 0x01}, bytes.Repeat([]byte{0x01}, 33)))
	must(t.Put([]byte{0x77, 0x02}, []byte{0x02}))
	for k := 0; k < c36Keys; k++ {
		must(t.Put(c36Key(k), c36Val(k, s[k])))
	}
	return t
}

// one GRANDPA authority whose weight carries the tag (Alice's key is a valid ed25519 point)
func c36AuthRaw(tag int) []types.GrandpaAuthoritiesRaw {
	return []types.GrandpaAuthoritiesRaw{{Key: [32]byte(c36Keyring.Alice().Public().(*ed25519.PublicKey).AsBytes()), ID: uint64(tag)}}
}

func c36Voters(tag int) []types.GrandpaVoter {
	v, err := types.NewGrandpaVotersFromAuthoritiesRaw(c36AuthRaw(tag))
	if err != nil {
		panic(err)
	}
	return v
}

// ---------------------------------------------------------------------------------------------
// the node under test

type c36Blk struct {
	id, parent int
	state      c36State
	header     *types.Header
	body       *types.Body
}

type c36Node struct {
	rec     *c36Rec
	genLen  int // number of log entries written by genesis initialisation
	block   *BlockState
	storage *InmemoryStorageState
	grandpa *GrandpaState
	epoch   *EpochState
	nondet  bool // the write order of this scenario depends on Go's map iteration order
	blks    map[int]*c36Blk
	byHash  map[common.Hash]int
	byRoot  map[common.Hash]string
}

func c36NewNode() (*c36Node, error) {
	c36Init()
	inner, err := database.NewPebble("verif-c36", true)
	if err != nil {
		return nil, err
	}
	rec := &c36Rec{Database: inner}
	n := &c36Node{rec: rec, blks: map[int]*c36Blk{}, byHash: map[common.Hash]int{}, byRoot: map[common.Hash]string{}}

	// genesis, as Service.Initialise does it minus the runtime instantiation (no Wasm offline)
	gt := c36FreshTrie(c36State{})
	root := trie.V0.MustHash(gt)
	header := types.NewHeader(common.NewHash([]byte{0}), root, trie.EmptyHash, 0, types.NewDigest())
	if err := gt.WriteDirty(database.NewTable(rec, storagePrefix)); err != nil {
		return nil, err
	}
	tries := NewTries()
	tries.SetTrie(gt)
	tele := telemetry.NewNoopMailer()
	n.block, err = NewBlockStateFromGenesis(rec, tries, header, tele)
	if err != nil {
		return nil, err
	}
	n.storage, err = NewStorageState(rec, n.block, tries)
	if err != nil {
		return nil, err
	}
	if n.epoch, err = NewEpochStateFromGenesis(rec, n.block, c36BabeCfg); err != nil {
		return nil, err
	}
	n.grandpa, err = NewGrandpaStateFromGenesis(rec, n.block, c36Voters(0), tele)
	if err != nil {
		return nil, err
	}
	n.genLen = len(rec.log)
	g := &c36Blk{id: 0, parent: -1, header: header, body: types.NewBody([]types.Extrinsic{})}
	n.blks[0] = g
	n.byHash[header.Hash()] = 0
	n.byRoot[root] = c36State{}.String()
	return n, nil
}

func (n *c36Node) close() { _ = n.rec.Database.Close() }

// define builds (once) the header of block id on top of parent with storage key k set to v
func (n *c36Node) define(id, parent, k, v int) *c36Blk {
	if b, ok := n.blks[id]; ok {
		return b
	}
	p := n.blks[parent]
	st := p.state
	st[k] = v
	root := trie.V0.MustHash(c36FreshTrie(st))
	// the slot is a function of the block number (so the epoch of a block is too); the seal carries the id so
	// that sibling blocks with equal state have different hashes
	pre, err := types.NewBabePrimaryPreDigest(0, uint64(1000+p.header.Number+1), [32]byte{}, [64]byte{}).ToPreRuntimeDigest()
	if err != nil {
		panic(err)
	}
	digest := types.NewDigest()
	if err := digest.Add(*pre); err != nil {
		panic(err)
	}
	if err := digest.Add(types.SealDigest{ConsensusEngineID: types.BabeEngineID, Data: []byte{0x5e, byte(id)}}); err != nil {
		panic(err)
	}
	h := types.NewHeader(p.header.Hash(), root, trie.EmptyHash, p.header.Number+1, digest)
	b := &c36Blk{id: id, parent: parent, state: st, header: h,
		body: types.NewBody([]types.Extrinsic{{byte(id)}, {0xee, byte(id)}})}
	n.blks[id] = b
	n.byHash[h.Hash()] = id
	n.byRoot[root] = st.String()
	return b
}

// imp re-enacts dot/core Service.handleBlock: StoreTrie, AddBlock, digest handler, ApplyForcedChanges.
func (n *c36Node) imp(b *c36Blk, k, v int, change []string, ne, nc bool) string {
	parentRoot := n.blks[b.parent].header.StateRoot
	ts, err := n.storage.TrieState(&parentRoot)
	if err != nil {
		return "e-state"
	}
	if err := ts.Put(c36Key(k), c36Val(k, v)); err != nil {
		return "e-put"
	}
	if err := n.storage.StoreTrie(ts, b.header); err != nil {
		return "e-store"
	}
	blk := &types.Block{Header: *b.header, Body: *b.body}
	if err := n.block.AddBlock(blk); err != nil {
		if errors.Is(err, blocktree.ErrParentNotFound) {
			return "e-parent"
		} else if !errors.Is(err, blocktree.ErrBlockExists) {
			return "e-add"
		}
	}
	if len(change) > 0 {
		d := types.NewGrandpaConsensusDigest()
		switch change[0] {
		case "sc":
			delay, _ := strconv.Atoi(change[1])
			tag, _ := strconv.Atoi(change[2])
			err = d.SetValue(types.GrandpaScheduledChange{Auths: c36AuthRaw(tag), Delay: uint32(delay)})
		case "fc":
			delay, _ := strconv.Atoi(change[1])
			best, _ := strconv.Atoi(change[2])
			tag, _ := strconv.Atoi(change[3])
			err = d.SetValue(types.GrandpaForcedChange{Auths: c36AuthRaw(tag), Delay: uint32(delay),
				BestFinalizedBlock: uint32(best)})
		}
		if err != nil {
			return "e-digest-build"
		}
		if err := n.grandpa.HandleGRANDPADigest(b.header, d); err != nil {
			return "e-digest"
		}
	}
	// BABE consensus digests (dot/digest BlockImportHandler → EpochState.HandleBABEDigest)
	if ne {
		d := types.NewBabeConsensusDigest()
		if err := d.SetValue(types.NextEpochData{Authorities: []types.AuthorityRaw{{Key: [32]byte{1, byte(b.id)}, Weight: 1}},
			Randomness: [32]byte{2, byte(b.id)}}); err != nil {
			return "e-digest-build"
		}
		if err := n.epoch.HandleBABEDigest(b.header, d); err != nil {
			return "e-babe"
		}
	}
	if nc {
		v := types.NewVersionedNextConfigData()
		if err := v.SetValue(types.NextConfigDataV1{C1: 1, C2: uint64(4 + b.id), SecondarySlots: 1}); err != nil {
			return "e-digest-build"
		}
		d := types.NewBabeConsensusDigest()
		if err := d.SetValue(v); err != nil {
			return "e-digest-build"
		}
		if err := n.epoch.HandleBABEDigest(b.header, d); err != nil {
			return "e-babe"
		}
	}
	if err := n.grandpa.ApplyForcedChanges(b.header); err != nil {
		return "e-forced"
	}
	return "ok"
}

// pendingEpochs counts the epochs <= nextEpoch that have announcements in a next-epoch map: with two or more
// of them the finalisation handler deletes them in Go map order.
func c36Pending[T types.NextEpochData | types.NextConfigDataV1](m nextEpochMap[T], nextEpoch uint64) int {
	c := 0
	for e := range m {
		if e <= nextEpoch {
			c++
		}
	}
	return c
}

// fin re-enacts a finalisation: SetFinalisedHash, then (as dot/digest does on the finalisation
// notification, which is only sent for round > 0) ApplyScheduledChanges.
func (n *c36Node) fin(id int, round, setID uint64) string {
	var hash common.Hash
	var hdr *types.Header
	if b, ok := n.blks[id]; ok {
		hash, hdr = b.header.Hash(), b.header
	} else {
		hash = common.Hash{0xff, byte(id)}
	}
	if err := n.block.SetFinalisedHash(hash, round, setID); err != nil {
		return "e-fin"
	}
	res := "ok"
	if round > 0 && hdr != nil {
		// dot/digest Handler.handleBlockFinalisation: errors are logged, the next step still runs
		if hdr.Number != 0 {
			if ep, err := n.epoch.GetEpochForBlock(hdr); err == nil {
				if c36Pending(n.epoch.nextEpochData, ep+1) > 1 || c36Pending(n.epoch.nextConfigData, ep+1) > 1 {
					n.nondet = true
				}
			}
		}
		if err := n.epoch.FinalizeBABENextEpochData(hdr); err != nil {
			res += "+e-ned"
		}
		if err := n.epoch.FinalizeBABENextConfigData(hdr); err != nil {
			res += "+e-ncd"
		}
		if err := n.grandpa.ApplyScheduledChanges(hdr); err != nil {
			res += "+e-sched"
		}
	}
	return res
}

// gfin re-enacts lib/grandpa Service.finalise for an own round: justification, prevotes, precommits,
// GetHeader, SetFinalisedHash (+ the finalisation handlers), SetLatestRound.
func (n *c36Node) gfin(id int, round, setID uint64) string {
	var hash common.Hash
	if b, ok := n.blks[id]; ok {
		hash = b.header.Hash()
	} else {
		hash = common.Hash{0xff, byte(id)}
	}
	if err := n.block.SetJustification(hash, []byte{0x1a, byte(id), byte(round)}); err != nil {
		return "e-just"
	}
	if err := n.grandpa.SetPrevotes(round, setID, []types.GrandpaSignedVote{}); err != nil {
		return "e-pv"
	}
	if err := n.grandpa.SetPrecommits(round, setID, []types.GrandpaSignedVote{}); err != nil {
		return "e-pc"
	}
	if _, err := n.block.GetHeader(hash); err != nil {
		return "e-hdr"
	}
	res := n.fin(id, round, setID)
	if !strings.HasPrefix(res, "ok") {
		return res
	}
	if err := n.grandpa.SetLatestRound(round); err != nil {
		return res + "+e-lr"
	}
	return res
}

// ---------------------------------------------------------------------------------------------
// canonical names of the writes

func (n *c36Node) hashName(h []byte) string {
	if len(h) != 32 {
		return "?"
	}
	if id, ok := n.byHash[common.NewHash(h)]; ok {
		return strconv.Itoa(id)
	}
	if h[0] == 0xff && h[1] <= c36MaxID && bytes.Equal(h[2:], make([]byte, 30)) {
		return strconv.Itoa(int(h[1])) // the stand-in hash of a block id the scenario never defined
	}
	return "?"
}

// "<epoch>:<0x hash>" → "<epoch>:<id>"
func (n *c36Node) epochKeyName(part string) string {
	f := strings.SplitN(part, ":", 2)
	if len(f) != 2 {
		return "?"
	}
	h, err := common.HexToBytes(f[1])
	if err != nil {
		return f[0] + ":?"
	}
	return f[0] + ":" + n.hashName(h)
}

func c36U64LE(b []byte) string {
	if len(b) != 8 {
		return "?"
	}
	return strconv.FormatUint(binary.LittleEndian.Uint64(b), 10)
}

func (n *c36Node) writeName(w c36Write) string {
	name := n.putName(w)
	if w.del {
		return "del:" + name
	}
	return name
}

func (n *c36Node) putName(w c36Write) string {
	key, val := w.key, w.val
	switch {
	case bytes.HasPrefix(key, []byte(blockPrefix)):
		k := key[len(blockPrefix):]
		switch {
		case bytes.HasPrefix(k, headerPrefix) && len(k) == 35:
			id := n.hashName(k[3:])
			if !w.del {
				hd := types.NewEmptyHeader()
				if err := scale.Unmarshal(val, hd); err != nil || id == "?" || hd.Hash() != n.blks[n.byHash[common.NewHash(k[3:])]].header.Hash() {
					return "h" + id + "!"
				}
			}
			return "h" + id
		case bytes.HasPrefix(k, blockBodyPrefix) && len(k) == 35:
			return "b" + n.hashName(k[3:])
		case bytes.HasPrefix(k, arrivalTimePrefix) && len(k) == 35:
			return "a" + n.hashName(k[3:])
		case bytes.HasPrefix(k, headerHashPrefix) && len(k) == 11:
			return "n" + strconv.FormatUint(binary.BigEndian.Uint64(k[3:]), 10) + "=" + n.hashName(val)
		case bytes.Equal(k, firstSlotNumberKey):
			return "fsn"
		case bytes.HasPrefix(k, common.FinalizedBlockHashKey) && len(k) == len(common.FinalizedBlockHashKey)+16:
			rs := k[len(common.FinalizedBlockHashKey):]
			return "f" + c36U64LE(rs[:8]) + "." + c36U64LE(rs[8:]) + "=" + n.hashName(val)
		case bytes.HasPrefix(k, justificationPrefix) && len(k) == 35:
			return "j" + n.hashName(k[3:])
		case bytes.Equal(k, highestRoundAndSetIDKey):
			if len(val) != 16 {
				return "hrs=?"
			}
			return "hrs=" + c36U64LE(val[:8]) + "." + c36U64LE(val[8:])
		}
	case bytes.HasPrefix(key, []byte(grandpaPrefix)):
		k := key[len(grandpaPrefix):]
		switch {
		case bytes.Equal(k, currentSetIDKey):
			return "set=" + c36U64LE(val)
		case bytes.HasPrefix(k, authoritiesPrefix) && len(k) == len(authoritiesPrefix)+8:
			tag := "?"
			if v, err := types.DecodeGrandpaVoters(val); err == nil && len(v) == 1 {
				tag = strconv.FormatUint(v[0].ID, 10)
			}
			return "au" + c36U64LE(k[len(authoritiesPrefix):]) + "=" + tag
		case bytes.HasPrefix(k, setIDChangePrefix) && len(k) == len(setIDChangePrefix)+8:
			return "ch" + c36U64LE(k[len(setIDChangePrefix):]) + "=" + strconv.FormatUint(uint64(common.BytesToUint(val)), 10)
		case bytes.Equal(k, common.LatestFinalizedRoundKey):
			return "lr=" + c36U64LE(val)
		case bytes.HasPrefix(k, []byte("pv")) && len(k) == 18:
			return "pv" + c36U64LE(k[2:10]) + "." + c36U64LE(k[10:])
		case bytes.HasPrefix(k, []byte("pc")) && len(k) == 18:
			return "pc" + c36U64LE(k[2:10]) + "." + c36U64LE(k[10:])
		}
	case bytes.HasPrefix(key, []byte(epochPrefix)):
		k := key[len(epochPrefix):]
		switch {
		case bytes.Equal(k, currentEpochKey):
			return "epoch"
		case bytes.HasPrefix(k, nextEpochDataPrefix):
			return "ned" + n.epochKeyName(string(k[len(nextEpochDataPrefix):]))
		case bytes.HasPrefix(k, nextConfigDataPrefix):
			return "ncd" + n.epochKeyName(string(k[len(nextConfigDataPrefix):]))
		case bytes.HasPrefix(k, epochDataPrefix) && len(k) == len(epochDataPrefix)+8:
			return "ei" + c36U64LE(k[len(epochDataPrefix):])
		case bytes.HasPrefix(k, configDataPrefix) && len(k) == len(configDataPrefix)+8:
			return "ci" + c36U64LE(k[len(configDataPrefix):])
		}
	case bytes.HasPrefix(key, []byte(storagePrefix)):
		k := key[len(storagePrefix):]
		if len(k) == 32 {
			if st, ok := n.byRoot[common.NewHash(k)]; ok {
				return "T" + st
			}
		}
		return "t"
	}
	if string(key) == "skipto" {
		return "skipto"
	}
	return "other:" + vhHex(key)
}

// entryName: single writes by name; a batch as [names]; the nodes of a storage batch that are not the root
// of a known state are summarised away (their number is a property of the trie, not of this property).
func (n *c36Node) entryName(e c36Entry) string {
	if !e.batch {
		return n.writeName(e.writes[0])
	}
	var names []string
	for _, w := range e.writes {
		nm := n.writeName(w)
		if nm == "t" {
			continue
		}
		names = append(names, nm)
	}
	if len(names) > 0 && strings.HasPrefix(names[0], "del:") {
		sort.Strings(names) // keys of a deletion batch come from an iterator in hash order
	}
	return "[" + strings.Join(names, ",") + "]"
}

func (n *c36Node) logNames(entries []c36Entry) string {
	if len(entries) == 0 {
		return "-"
	}
	names := make([]string, len(entries))
	for i, e := range entries {
		names[i] = n.entryName(e)
	}
	return strings.Join(names, " ")
}

// ---------------------------------------------------------------------------------------------
// restart on a crash-truncated database

func (n *c36Node) restart(entries []c36Entry) string {
	db, err := database.NewPebble("verif-c36-restart", true)
	if err != nil {
		return "e-open"
	}
	defer db.Close()
	if err := c36Apply(db, entries); err != nil {
		return "e-replay"
	}
	svc := NewService(Config{LogLevel: log.Critical, Telemetry: telemetry.NewNoopMailer(), GenesisBABEConfig: c36BabeCfg})
	svc.UseMemDB()
	svc.db = db
	if err := svc.Start(); err != nil {
		msg := err.Error()
		switch {
		case strings.HasPrefix(msg, "failed to create block state"):
			return "E-block"
		case strings.HasPrefix(msg, "failed to get best block hash"):
			return "E-best"
		case strings.HasPrefix(msg, "failed to load storage trie"):
			return "E-trie"
		case strings.HasPrefix(msg, "failed to create epoch state"):
			return "E-epoch"
		}
		return "E-start"
	}
	round, setID, err := svc.Block.GetHighestRoundAndSetID()
	if err != nil {
		return "E-hrs"
	}
	hdr, err := svc.Block.GetHighestFinalisedHeader()
	if err != nil {
		return "E-head"
	}
	var sb strings.Builder
	fmt.Fprintf(&sb, "ok b%s#%d r%d.%d", n.hashName(hdr.Hash().ToBytes()), hdr.Number, round, setID)
	// state: the trie Start loaded must be the head's state
	st := "?"
	if ts, err := svc.Storage.TrieState(&hdr.StateRoot); err == nil {
		var s c36State
		okAll := true
		for k := 0; k < c36Keys; k++ {
			val := ts.Get(c36Key(k))
			if len(val) != c36ValSize || int(val[0]) != k || !bytes.Equal(val, c36Val(k, int(val[1]))) {
				okAll = false
				break
			}
			s[k] = int(val[1])
		}
		if okAll {
			st = s.String()
		}
	}
	sb.WriteString(" st=" + st)
	// body
	if body, err := svc.Block.GetBlockBody(hdr.Hash()); err != nil {
		sb.WriteString(" body=missing")
	} else if id, ok := n.byHash[hdr.Hash()]; ok && fmt.Sprint(*body) == fmt.Sprint(*n.blks[id].body) {
		sb.WriteString(" body=ok")
	} else {
		sb.WriteString(" body=wrong")
	}
	// justification of the head, prevotes / precommits of the head's round
	has := func(ok bool, err error) string {
		if err == nil && ok {
			return "1"
		}
		return "0"
	}
	okJ, errJ := svc.Block.HasJustification(hdr.Hash())
	_, errPv := svc.Grandpa.GetPrevotes(round, setID)
	_, errPc := svc.Grandpa.GetPrecommits(round, setID)
	fmt.Fprintf(&sb, " j=%s pv=%s pc=%s", has(okJ, errJ), has(true, errPv), has(true, errPc))
	// what NewEpochState restored from disk, and the persisted epoch definitions
	sb.WriteString(" ne=" + c36MapNames(n, svc.Epoch.nextEpochData) + " nc=" + c36MapNames(n, svc.Epoch.nextConfigData))
	var ei, ci []string
	for e := uint64(0); e <= c36MaxEpoch; e++ {
		if ok, err := svc.Epoch.db.Has(epochDataKey(e)); err == nil && ok {
			ei = append(ei, strconv.FormatUint(e, 10))
		}
		if ok, err := svc.Epoch.db.Has(configDataKey(e)); err == nil && ok {
			ci = append(ci, strconv.FormatUint(e, 10))
		}
	}
	dash := func(l []string) string {
		if len(l) == 0 {
			return "-"
		}
		return strings.Join(l, ",")
	}
	sb.WriteString(" ei=" + dash(ei) + " ci=" + dash(ci))
	// what lib/grandpa NewService reads
	if _, err := svc.Block.GetFinalisedHeader(0, 0); err != nil {
		sb.WriteString(" f00=missing")
	}
	cur, err := svc.Grandpa.GetCurrentSetID()
	if err != nil {
		sb.WriteString(" set=missing")
		return sb.String()
	}
	fmt.Fprintf(&sb, " set=%d", cur)
	if v, err := svc.Grandpa.GetAuthorities(cur); err != nil {
		sb.WriteString(" au=missing")
	} else if len(v) == 1 {
		fmt.Fprintf(&sb, " au=%d", v[0].ID)
	} else {
		sb.WriteString(" au=?")
	}
	if num, err := svc.Grandpa.GetSetIDChange(cur); err != nil {
		sb.WriteString(" ch=missing")
	} else {
		fmt.Fprintf(&sb, " ch=%d", num)
	}
	if r, err := svc.Grandpa.GetLatestRound(); err != nil {
		sb.WriteString(" lr=missing")
	} else {
		fmt.Fprintf(&sb, " lr=%d", r)
	}
	return sb.String()
}

func c36MapNames[T types.NextEpochData | types.NextConfigDataV1](n *c36Node, m nextEpochMap[T]) string {
	type eh struct {
		e  uint64
		id int
	}
	var l []eh
	for e, hashes := range m {
		for h := range hashes {
			id, ok := n.byHash[h]
			if !ok {
				id = 99
			}
			l = append(l, eh{e, id})
		}
	}
	if len(l) == 0 {
		return "-"
	}
	sort.Slice(l, func(i, j int) bool { return l[i].e < l[j].e || (l[i].e == l[j].e && l[i].id < l[j].id) })
	parts := make([]string, len(l))
	for i, x := range l {
		parts[i] = fmt.Sprintf("%d:%d", x.e, x.id)
	}
	return strings.Join(parts, ",")
}

// ---------------------------------------------------------------------------------------------
// running one case

func c36Atoi(s string, lo, hi int) (int, bool) {
	v, err := strconv.Atoi(s)
	if err != nil || v < lo || v > hi {
		return 0, false
	}
	return v, true
}

func c36Run(line string) string {
	if line == "genesis" {
		n, err := c36NewNode()
		if err != nil {
			return "e-genesis"
		}
		defer n.close()
		return n.logNames(n.rec.log) + "|" + n.restart(n.rec.log)
	}
	ops := strings.Split(line, ";")
	if len(ops) > 40 {
		return "bad-op"
	}
	n, err := c36NewNode()
	if err != nil {
		return "e-genesis"
	}
	defer n.close()
	var results []string
	for _, op := range ops {
		f := strings.Fields(op)
		if len(f) == 0 {
			return "bad-op"
		}
		switch f[0] {
		case "imp":
			ne, nc := false, false
			if len(f) > 5 && f[len(f)-1] == "nc" {
				nc, f = true, f[:len(f)-1]
			}
			if len(f) > 5 && f[len(f)-1] == "ne" {
				ne, f = true, f[:len(f)-1]
			}
			if len(f) != 5 && !(len(f) == 8 && f[5] == "sc") && !(len(f) == 9 && f[5] == "fc") {
				return "bad-op"
			}
			id, ok1 := c36Atoi(f[1], 1, c36MaxID)
			parent, ok2 := c36Atoi(f[2], 0, c36MaxID)
			k, ok3 := c36Atoi(f[3], 0, c36Keys-1)
			v, ok4 := c36Atoi(f[4], 0, 9)
			if !(ok1 && ok2 && ok3 && ok4) {
				return "bad-op"
			}
			for _, a := range f[min(6, len(f)):] {
				if _, ok := c36Atoi(a, 0, 99); !ok {
					return "bad-op"
				}
			}
			if _, known := n.blks[parent]; !known {
				return "bad-op"
			}
			if b, known := n.blks[id]; known && (b.parent != parent || b.state[k] != v || id == 0) {
				return "bad-op" // an id names one block
			}
			b := n.define(id, parent, k, v)
			if b.state != func() c36State { s := n.blks[parent].state; s[k] = v; return s }() {
				return "bad-op"
			}
			results = append(results, n.imp(b, k, v, f[5:], ne, nc))
		case "fin":
			if len(f) != 4 {
				return "bad-op"
			}
			id, ok1 := c36Atoi(f[1], 0, c36MaxID)
			round, ok2 := c36Atoi(f[2], 0, 99)
			setID, ok3 := c36Atoi(f[3], 0, 99)
			if !(ok1 && ok2 && ok3) {
				return "bad-op"
			}
			results = append(results, n.fin(id, uint64(round), uint64(setID)))
		case "gfin":
			if len(f) != 4 {
				return "bad-op"
			}
			id, ok1 := c36Atoi(f[1], 0, c36MaxID)
			round, ok2 := c36Atoi(f[2], 0, 99)
			setID, ok3 := c36Atoi(f[3], 0, 99)
			if !(ok1 && ok2 && ok3) {
				return "bad-op"
			}
			results = append(results, n.gfin(id, uint64(round), uint64(setID)))
		case "just":
			if len(f) != 2 {
				return "bad-op"
			}
			id, ok := c36Atoi(f[1], 0, c36MaxID)
			if !ok {
				return "bad-op"
			}
			hash := common.Hash{0xff, byte(id)}
			if b, known := n.blks[id]; known {
				hash = b.header.Hash()
			}
			if err := n.block.SetJustification(hash, []byte{0x1a, byte(id)}); err != nil {
				results = append(results, "e-just")
			} else {
				results = append(results, "ok")
			}
		case "pv", "pc":
			if len(f) != 3 {
				return "bad-op"
			}
			round, ok1 := c36Atoi(f[1], 0, 99)
			setID, ok2 := c36Atoi(f[2], 0, 99)
			if !(ok1 && ok2) {
				return "bad-op"
			}
			var err error
			if f[0] == "pv" {
				err = n.grandpa.SetPrevotes(uint64(round), uint64(setID), []types.GrandpaSignedVote{})
			} else {
				err = n.grandpa.SetPrecommits(uint64(round), uint64(setID), []types.GrandpaSignedVote{})
			}
			if err != nil {
				results = append(results, "e-votes")
			} else {
				results = append(results, "ok")
			}
		case "lr":
			if len(f) != 2 {
				return "bad-op"
			}
			round, ok := c36Atoi(f[1], 0, 99)
			if !ok {
				return "bad-op"
			}
			if err := n.grandpa.SetLatestRound(uint64(round)); err != nil {
				results = append(results, "e-lr")
			} else {
				results = append(results, "ok")
			}
		default:
			return "bad-op"
		}
	}
	if n.nondet {
		return "nondet"
	}
	logEntries := n.rec.log
	var recs []string
	for k := n.genLen; k <= len(logEntries); k++ {
		recs = append(recs, n.restart(logEntries[:k]))
	}
	return strings.Join(results, ";") + "|" + n.logNames(logEntries[n.genLen:]) + "|" + strings.Join(recs, ";")
}

// ---------------------------------------------------------------------------------------------
// generator

func c36Gen(r *vhRng) string {
	if r.Chance(1, 200) {
		return "genesis"
	}
	type blk struct{ id, parent, num int }
	blks := []blk{{0, -1, 0}}
	nextID := 1
	round, setID := 0, 0
	var ops []string
	nops := 3 + r.Intn(c36MaxOps-2)
	for i := 0; i < nops; i++ {
		switch c := r.Intn(10); {
		case c < 5 && nextID <= c36MaxID: // import on a recent block (forks with probability)
			p := blks[len(blks)-1]
			if r.Chance(1, 3) {
				p = blks[r.Intn(len(blks))]
			}
			op := fmt.Sprintf("imp %d %d %d %d", nextID, p.id, r.Intn(c36Keys), 1+r.Intn(3))
			switch r.Intn(6) {
			case 0, 1:
				op += fmt.Sprintf(" sc %d %d", r.Intn(3), 1+r.Intn(9))
			case 2:
				op += fmt.Sprintf(" fc %d %d %d", r.Intn(3), r.Intn(3), 1+r.Intn(9))
			}
			if r.Chance(1, 3) {
				op += " ne"
			}
			if r.Chance(1, 4) {
				op += " nc"
			}
			ops = append(ops, op)
			blks = append(blks, blk{nextID, p.id, p.num + 1})
			nextID++
		case c < 8: // finalise
			b := blks[r.Intn(len(blks))]
			if r.Chance(2, 3) {
				round++
			} else if r.Chance(1, 4) {
				setID++
				round = 1
			} else if r.Chance(1, 4) && round > 0 {
				round--
			}
			s := setID
			if r.Chance(1, 12) && s > 0 {
				s--
			}
			rr := round
			if r.Chance(1, 10) {
				rr = 0
			}
			kind := "fin"
			if r.Chance(1, 3) {
				kind = "gfin"
			}
			ops = append(ops, fmt.Sprintf("%s %d %d %d", kind, b.id, rr, s))
		case c < 9:
			switch r.Intn(4) {
			case 0:
				ops = append(ops, fmt.Sprintf("just %d", blks[r.Intn(len(blks))].id))
			case 1:
				ops = append(ops, fmt.Sprintf("%s %d %d", []string{"pv", "pc"}[r.Intn(2)], round, setID))
			default:
				ops = append(ops, fmt.Sprintf("lr %d", round))
			}
		default: // re-import of an existing block or junk finalise
			if r.Bool() || len(blks) < 2 {
				ops = append(ops, fmt.Sprintf("fin %d %d %d", r.Intn(c36MaxID+1), round+1, setID))
			} else {
				ops = append(ops, fmt.Sprintf("lr %d", r.Intn(5)))
			}
		}
	}
	return strings.Join(ops, ";")
}

func TestVerifC36(t *testing.T) { vhMain(t, c36Gen, c36Run) }
