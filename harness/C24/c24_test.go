//go:build verif

package babe

import (
	"errors"
	"fmt"
	"math/big"
	"strconv"
	"strings"
	"testing"
	"time"

	"github.com/ChainSafe/gossamer/dot/types"
	"github.com/ChainSafe/gossamer/lib/common"
	"github.com/ChainSafe/gossamer/lib/crypto/sr25519"
	"github.com/ChainSafe/gossamer/pkg/scale"
)

// Case lines (property C24):
//
//	v <ss> <c1> <c2> <n> <rb> <epoch> <slot> <kind> <idx> <vsigner> <vrfT> <sealer> <sealT> <shape> <eng> <dup> o=<attach><below><vrf><seal>
//	    one header checked by verifier.verifyAuthorshipRight; the verifier is made by
//	    VerificationManager.getVerifierInfo from EpochDataRaw{n authorities, randomness rb*32} and
//	    ConfigData{c1,c2,SecondarySlots ss}.  kind 1/2/3 = primary / secondary plain / secondary VRF pre-digest,
//	    0 = undecodable pre-digest, 4 = unknown variant.  idx = claimed authority index; vsigner/sealer = which
//	    key made the VRF output+proof / the seal (7 = a key outside the set); vrfT/sealT = tampering; shape = layout
//	    of the digest; eng = engine id of the items; dup = authority 1 has the same key as authority 0.
//	    o= the truth about the crypto, established with the sr25519 package directly: attach (output decodes),
//	    below (output under threshold for key idx), vrf (0 false,1 true,2 error), seal (0 false,1 true,2 error).
//	own <ss> <c1> <c2> <n> <rb> <epoch> <me> <slot0> <belowbits>
//	    the node's own lottery (claimSlot) over len(belowbits) slots from slot0 as authority <me>; every claimed
//	    slot is built into a sealed header and verified.  belowbits[i] = VRF output of <me> at slot0+i under threshold.
//	    output: `<slot>:<kind>:<verdict>` joined by `,` (or `none`).

const c24Outsider = 7

var c24Keys [8]*sr25519.Keypair

func c24Key(i int) *sr25519.Keypair {
	if c24Keys[i] == nil {
		seed := make([]byte, 32)
		seed[0] = byte(i + 1)
		seed[31] = 0x24
		kp, err := sr25519.NewKeypairFromSeed(seed)
		if err != nil {
			panic(err)
		}
		c24Keys[i] = kp
	}
	return c24Keys[i]
}

// c24AuthKey: which key authority i holds.
func c24AuthKey(i int, dup int, koff int) *sr25519.Keypair {
	if dup == 1 && i == 1 {
		return c24Key(koff % 8)
	}
	return c24Key((koff + i) % 8)
}

type c24Epoch struct {
	EpochState
	data *types.EpochDataRaw
	cfg  *types.ConfigData
}

func (e *c24Epoch) GetEpochDataRaw(uint64, *types.Header) (*types.EpochDataRaw, error) {
	return e.data, nil
}
func (e *c24Epoch) GetConfigData(uint64, *types.Header) (*types.ConfigData, error) {
	return e.cfg, nil
}

type c24Block struct{ BlockState }

func (c24Block) GenesisHash() common.Hash { return common.Hash{} }

// c24Slot: the equivocation check belongs to C27; here the slot state never reports one.
type c24Slot struct{}

func (c24Slot) CheckEquivocation(uint64, uint64, *types.Header, types.AuthorityID) (
	*types.BabeEquivocationProof, error) {
	return nil, nil
}

type c24Case struct {
	ss                           byte
	c1, c2                       uint64
	n                            int
	rb                           byte
	epoch, slot                  uint64
	kind                         int
	idx                          uint32
	vsigner, vrfT, sealer, sealT int
	shape, eng, dup              int
	// manager cases: authority i holds key (koff+i)%8; the header hangs under a given parent
	koff int
	// layout cases (c24_layout_test.go)
	layout                       string
	preSel                       int
	hasParent                    bool
	parent                       common.Hash
	number                       uint
	oAttach, oBelow, oVrf, oSeal int
}

func (c *c24Case) line() string {
	return fmt.Sprintf("v %d %d %d %d %d %d %d %d %d %d %d %d %d %d %d %d o=%d%d%d%d",
		c.ss, c.c1, c.c2, c.n, c.rb, c.epoch, c.slot, c.kind, c.idx, c.vsigner, c.vrfT, c.sealer, c.sealT,
		c.shape, c.eng, c.dup, c.oAttach, c.oBelow, c.oVrf, c.oSeal)
}

func c24Parse(f []string) (*c24Case, bool) {
	if len(f) != 18 {
		return nil, false
	}
	v := make([]uint64, 17)
	for i := 1; i <= 16; i++ {
		x, err := strconv.ParseUint(f[i], 10, 64)
		if err != nil {
			return nil, false
		}
		v[i] = x
	}
	c := &c24Case{ss: byte(v[1]), c1: v[2], c2: v[3], n: int(v[4]), rb: byte(v[5]), epoch: v[6], slot: v[7],
		kind: int(v[8]), idx: uint32(v[9]), vsigner: int(v[10]) % 8, vrfT: int(v[11]), sealer: int(v[12]) % 8,
		sealT: int(v[13]), shape: int(v[14]), eng: int(v[15]), dup: int(v[16])}
	if c.n > 7 {
		return nil, false
	}
	return c, true
}

func c24Randomness(rb byte) Randomness {
	var r Randomness
	for i := range r {
		r[i] = rb
	}
	return r
}

func (c *c24Case) authorities() []types.AuthorityRaw {
	auths := make([]types.AuthorityRaw, c.n)
	for i := range auths {
		auths[i] = *types.NewAuthority(c24AuthKey(i, c.dup, c.koff).Public(), 1).ToRaw()
	}
	return auths
}

func (c *c24Case) verifier() (*verifier, error) {
	vm := &VerificationManager{epochState: &c24Epoch{
		data: &types.EpochDataRaw{Authorities: c.authorities(), Randomness: c24Randomness(c.rb)},
		cfg:  &types.ConfigData{C1: c.c1, C2: c.c2, SecondarySlots: c.ss},
	}}
	info, err := vm.getVerifierInfo(c.epoch, types.NewEmptyHeader())
	if err != nil {
		return nil, err
	}
	return newVerifier(c24Block{}, c24Slot{}, c.epoch, info, time.Second), nil
}

// vrf makes the VRF output and proof the pre-digest will carry.
func (c *c24Case) vrf() (out [sr25519.VRFOutputLength]byte, proof [sr25519.VRFProofLength]byte) {
	rb, slot, epoch := c.rb, c.slot, c.epoch
	switch c.vrfT {
	case 1:
		slot++
	case 4:
		epoch++
	case 5:
		rb++
	}
	out, proof, err := c24Key(c.vsigner).VrfSign(makeTranscript(c24Randomness(rb), slot, epoch))
	if err != nil {
		panic(err)
	}
	switch c.vrfT {
	case 2:
		proof[1] ^= 0x10
	case 3:
		out[1] ^= 0x10
	}
	return out, proof
}

func (c *c24Case) preDigestData() []byte {
	out, proof := c.vrf()
	var v any
	switch c.kind {
	case 1:
		v = types.BabePrimaryPreDigest{AuthorityIndex: c.idx, SlotNumber: c.slot, VRFOutput: out, VRFProof: proof}
	case 2:
		v = types.BabeSecondaryPlainPreDigest{AuthorityIndex: c.idx, SlotNumber: c.slot}
	case 3:
		v = types.BabeSecondaryVRFPreDigest{AuthorityIndex: c.idx, SlotNumber: c.slot, VrfOutput: out, VrfProof: proof}
	case 4: // unknown variant index
		return append([]byte{9}, make([]byte, 12)...)
	default: // truncated primary pre-digest
		return []byte{1, 0, 0}
	}
	d := types.NewBabeDigest()
	if err := d.SetValue(v); err != nil {
		panic(err)
	}
	enc, err := scale.Marshal(d)
	if err != nil {
		panic(err)
	}
	return enc
}

// header builds the sealed header of the case.
func (c *c24Case) header() *types.Header {
	h := types.NewEmptyHeader()
	h.Number = uint(c.slot%1000) + 1
	h.ParentHash = common.Hash{c.rb, byte(c.slot), 1}
	if c.hasParent {
		h.Number, h.ParentHash = c.number, c.parent
	}
	h.StateRoot = common.Hash{2, byte(c.idx)}
	h.ExtrinsicsRoot = common.Hash{3}
	if c.layout != "" {
		return c.layoutHeader(h)
	}
	preEng, sealEng := types.BabeEngineID, types.BabeEngineID
	if c.eng == 1 {
		preEng = types.ConsensusEngineID{'a', 'u', 'r', 'a'}
	} else if c.eng == 2 {
		sealEng = types.ConsensusEngineID{'F', 'R', 'N', 'K'}
	}
	pre := types.PreRuntimeDigest{ConsensusEngineID: preEng, Data: c.preDigestData()}
	cons := types.ConsensusDigest{ConsensusEngineID: types.BabeEngineID, Data: []byte{1, 2, 3}}
	otherSeal := types.SealDigest{ConsensusEngineID: types.BabeEngineID, Data: make([]byte, 64)}
	var items []any
	sealed := true
	switch c.shape {
	case 0:
		items = []any{pre}
	case 1:
		items = []any{pre, cons}
	case 2:
		items, sealed = []any{pre}, false
	case 3:
		items = []any{otherSeal}
	case 4:
		items, sealed = nil, false
	case 5:
		items = []any{cons, pre}
	case 6:
		items, sealed = []any{pre, otherSeal, cons}, false
	default:
		items, sealed = []any{pre, pre}, false
	}
	for _, it := range items {
		if err := h.Digest.Add(it); err != nil {
			panic(err)
		}
	}
	if !sealed {
		return h
	}
	msgHeader := *h
	if c.sealT == 1 {
		msgHeader.Number += 7
	}
	enc, err := scale.Marshal(msgHeader)
	if err != nil {
		panic(err)
	}
	hash, err := common.Blake2bHash(enc)
	if err != nil {
		panic(err)
	}
	sig, err := c24Key(c.sealer).Sign(hash[:])
	if err != nil {
		panic(err)
	}
	switch c.sealT {
	case 2:
		sig[40] ^= 4
	case 3:
		sig = sig[:63]
	case 4:
		sig = make([]byte, 64)
	}
	if err := h.Digest.Add(types.SealDigest{ConsensusEngineID: sealEng, Data: sig}); err != nil {
		panic(err)
	}
	return h
}

func c24Tri(ok bool, err error) int {
	if err != nil {
		return 2
	}
	if ok {
		return 1
	}
	return 0
}

// oracles establishes the truth about the crypto of the case with the sr25519 package directly
// (nothing of lib/babe's verification is used; the threshold comes from CalculateThreshold, C25).
func (c *c24Case) oracles() {
	c.oAttach, c.oBelow, c.oVrf, c.oSeal = 0, 0, 0, 0
	if int(c.idx) >= c.n || c.c1 == 0 || c.c2 == 0 || c.c1 > c.c2 {
		return
	}
	pk := c24AuthKey(int(c.idx), c.dup, c.koff).Public().(*sr25519.PublicKey)
	if c.kind == 1 || c.kind == 3 {
		out, proof := c.vrf()
		rnd := c24Randomness(c.rb)
		inout, err := sr25519.AttachInput(out, pk, makeTranscript(rnd, c.slot, c.epoch))
		if err == nil {
			c.oAttach = 1
			res, err := inout.MakeBytes(16, babeVRFPrefix)
			if err != nil {
				panic(err)
			}
			le := make([]byte, 16)
			for i := range res {
				le[15-i] = res[i]
			}
			thr, err := CalculateThreshold(c.c1, c.c2, c.n)
			if err != nil {
				panic(err)
			}
			t := new(big.Int).Lsh(new(big.Int).SetUint64(thr.Upper), 64)
			t.Add(t, new(big.Int).SetUint64(thr.Lower))
			if new(big.Int).SetBytes(le).Cmp(t) < 0 {
				c.oBelow = 1
			}
		}
		// the proof is randomised, but its validity is determined by how it was made
		c.oVrf = c24Tri(pk.VrfVerify(makeTranscript(rnd, c.slot, c.epoch), out, proof))
	}
	h := c.header()
	if len(h.Digest) >= 2 {
		last, _ := h.Digest[len(h.Digest)-1].Value()
		if seal, ok := last.(types.SealDigest); ok {
			msg := *h
			msg.Digest = types.NewDigest()
			for _, it := range h.Digest[:len(h.Digest)-1] {
				v, _ := it.Value()
				if err := msg.Digest.Add(v); err != nil {
					panic(err)
				}
			}
			enc, err := scale.Marshal(msg)
			if err != nil {
				panic(err)
			}
			hash, _ := common.Blake2bHash(enc)
			c.oSeal = c24Tri(pk.Verify(hash[:], seal.Data))
		}
	}
}

func c24Verdict(err error) string {
	switch {
	case err == nil:
		return "ok"
	case errors.Is(err, errMissingDigestItems):
		return "err-missing-digest"
	case errors.Is(err, types.ErrNoFirstPreDigest):
		return "err-first-not-pre"
	case errors.Is(err, errLastDigestItemNotSeal):
		return "err-last-not-seal"
	case errors.Is(err, ErrInvalidBlockProducerIndex):
		return "err-index"
	case errors.Is(err, ErrVRFOutputOverThreshold):
		return "err-over-threshold"
	case errors.Is(err, ErrBadSecondarySlotClaim):
		return "err-bad-secondary-claim"
	case errors.Is(err, ErrBadSlotClaim):
		return "err-bad-slot-claim"
	case errors.Is(err, ErrBadSignature):
		return "err-bad-signature"
	case errors.Is(err, ErrProducerEquivocated):
		return "err-equivocated"
	case strings.HasPrefix(err.Error(), "failed to verify pre-runtime digest"):
		return "err-claim-other"
	}
	return "err-seal-other"
}

func c24Run(line string) string {
	f := strings.Fields(line)
	if len(f) == 0 {
		return "bad-op"
	}
	switch f[0] {
	case "mgr":
		return c24RunMgr(line)
	case "v":
		c, ok := c24Parse(f)
		if !ok {
			return "bad-op"
		}
		v, err := c.verifier()
		if err != nil {
			return "err-verifier-info"
		}
		h := c.header()
		before := len(h.Digest)
		out := c24Verdict(v.verifyAuthorshipRight(h))
		if len(h.Digest) != before {
			out += " digest-len-changed"
		}
		return out
	case "own":
		return c24Own(f)
	case "d":
		return c24RunD(f)
	case "t":
		return c24RunT(f)
	}
	return "bad-op"
}

func c24Own(f []string) string {
	if len(f) != 10 {
		return "bad-op"
	}
	v := make([]uint64, 9)
	for i := 1; i <= 8; i++ {
		x, err := strconv.ParseUint(f[i], 10, 64)
		if err != nil {
			return "bad-op"
		}
		v[i] = x
	}
	c := &c24Case{ss: byte(v[1]), c1: v[2], c2: v[3], n: int(v[4]), rb: byte(v[5]), epoch: v[6]}
	me := int(v[7])
	slot0 := v[8]
	if c.n > 7 || me >= c.n {
		return "bad-op"
	}
	thr, err := CalculateThreshold(c.c1, c.c2, c.n)
	if err != nil {
		return "err-verifier-info"
	}
	ed := &epochData{randomness: c24Randomness(c.rb), authorityIndex: uint32(me), authorities: c.authorities(),
		threshold: thr, allowedSlots: types.AllowedSlots(c.ss)}
	ver, err := c.verifier()
	if err != nil {
		return "err-verifier-info"
	}
	var outs []string
	for i := range f[9] {
		slot := slot0 + uint64(i)
		prd, err := claimSlot(c.epoch, slot, ed, c24Key(me))
		if err != nil {
			continue
		}
		h := types.NewEmptyHeader()
		h.Number = uint(i) + 1
		h.ParentHash = common.Hash{byte(i), 9}
		if err := h.Digest.Add(*prd); err != nil {
			panic(err)
		}
		enc, err := scale.Marshal(*h)
		if err != nil {
			panic(err)
		}
		hash, _ := common.Blake2bHash(enc)
		sig, err := c24Key(me).Sign(hash[:])
		if err != nil {
			panic(err)
		}
		if err := h.Digest.Add(types.SealDigest{ConsensusEngineID: types.BabeEngineID, Data: sig}); err != nil {
			panic(err)
		}
		kind := 0
		if len(prd.Data) > 0 {
			kind = int(prd.Data[0])
		}
		outs = append(outs, fmt.Sprintf("%d:%d:%s", slot, kind, c24Verdict(ver.verifyAuthorshipRight(h))))
	}
	if len(outs) == 0 {
		return "none"
	}
	return strings.Join(outs, ",")
}

func c24Cfg(r *vhRng, c *c24Case) {
	c.ss = byte(r.Pick(0, 1, 1, 2, 2, 3, 255))
	switch r.Intn(8) {
	case 0:
		c.c1, c.c2 = 1, 1
	case 1:
		c.c1, c.c2 = 1, 2
	case 2:
		c.c1, c.c2 = 3, 4
	case 3: // threshold so small that nothing is below it
		c.c1, c.c2 = 1, 1<<62
	default:
		c.c1, c.c2 = 1, 4
	}
	c.n = 1 + r.Intn(6)
	if r.Chance(1, 4) {
		c.n = r.Pick(1, 2, 3)
	}
	c.rb = byte(r.Intn(3))
	c.epoch = uint64(r.Intn(3))
	if c.n >= 2 && r.Chance(1, 10) {
		c.dup = 1
	}
}

func c24Gen(r *vhRng) string {
	if r.Chance(1, 8) {
		return c24GenOwn(r)
	}
	if r.Chance(1, 5) {
		return c24GenMgr(r)
	}
	if r.Chance(1, 4) {
		return c24GenD(r)
	}
	if r.Chance(1, 8) {
		return c24GenT(r)
	}
	c := &c24Case{}
	c24Cfg(r, c)
	c.slot = uint64(r.Intn(40))
	// the kind of claim: mostly what the configuration allows, often the other secondary kind
	switch r.Intn(10) {
	case 0, 1, 2:
		c.kind = 1
	case 3, 4:
		c.kind = 2
	case 5, 6:
		c.kind = 3
	default:
		c.kind = []int{1, 2, 3}[int(c.ss)%3]
		if c.ss == 0 || c.ss > 2 {
			c.kind = 1 + r.Intn(3)
		}
	}
	rnd := c24Randomness(c.rb)
	// an honest claimant for that kind
	author, _ := getSecondarySlotAuthor(c.slot, c.n, rnd)
	if c.kind == 1 {
		c.idx = uint32(r.Intn(c.n))
	} else {
		c.idx = author
	}
	c.vsigner, c.sealer = int(c.idx), int(c.idx)
	if c.dup == 1 && c.idx == 1 {
		c.vsigner, c.sealer = 0, 0
	}
	if c.kind == 1 && r.Chance(3, 4) {
		// look for a slot the claimant really wins
		for k := 0; k < 12; k++ {
			c.oracles()
			if c.oBelow == 1 {
				break
			}
			c.slot++
		}
	}
	// mutations
	if r.Chance(1, 2) {
		switch r.Intn(12) {
		case 0: // wrong index
			c.idx = uint32(r.Pick(int(c.idx)+1, int(c.idx)+c.n-1, c.n, c.n+1, 1<<32-1))
			if r.Bool() && c.n > 0 {
				c.idx %= uint32(c.n)
			}
		case 1: // somebody else's VRF
			c.vsigner = r.Pick((int(c.idx)+1)%c.n, c24Outsider)
		case 2:
			c.vrfT = 1 + r.Intn(5)
		case 3: // somebody else's seal
			c.sealer = r.Pick((int(c.idx)+1)%c.n, c24Outsider)
		case 4:
			c.sealT = 1 + r.Intn(4)
		case 5:
			c.shape = 1 + r.Intn(7)
		case 6:
			c.kind = r.Pick(0, 4)
		case 7:
			c.eng = 1 + r.Intn(2)
		case 8: // another slot (secondary author changes)
			c.slot += uint64(1 + r.Intn(3))
		case 9:
			c.n = r.Pick(0, 1, 7)
			if r.Bool() {
				c.idx = uint32(c.n)
			}
		case 10: // invalid configuration
			switch r.Intn(3) {
			case 0:
				c.c1 = 0
			case 1:
				c.c2 = 0
			default:
				c.c1, c.c2 = 5, 4
			}
		default: // two things at once
			c.sealT = r.Intn(3)
			c.vrfT = r.Intn(3)
			c.shape = r.Pick(0, 0, 1, 5)
		}
	}
	if c.vsigner >= c.n && c.vsigner != c24Outsider {
		c.vsigner = 0
	}
	if c.sealer >= c.n && c.sealer != c24Outsider {
		c.sealer = 0
	}
	c.oracles()
	return c.line()
}

func c24GenOwn(r *vhRng) string {
	c := &c24Case{}
	c24Cfg(r, c)
	me := r.Intn(c.n)
	if c.dup == 1 && me == 1 {
		c.dup = 0
	}
	slot0 := uint64(r.Intn(1000))
	if r.Chance(1, 10) {
		slot0 = 1<<32 - 3
	}
	k := 6 + r.Intn(6)
	thr, err := CalculateThreshold(c.c1, c.c2, c.n)
	if err != nil {
		panic(err)
	}
	t := new(big.Int).Lsh(new(big.Int).SetUint64(thr.Upper), 64)
	t.Add(t, new(big.Int).SetUint64(thr.Lower))
	bits := make([]byte, k)
	for i := 0; i < k; i++ {
		_, res := c24ResKey(c24Key(me), c24Randomness(c.rb), slot0+uint64(i), c.epoch)
		le := make([]byte, 16)
		for j := range res {
			le[15-j] = res[j]
		}
		bits[i] = '0'
		if new(big.Int).SetBytes(le).Cmp(t) < 0 {
			bits[i] = '1'
		}
	}
	return fmt.Sprintf("own %d %d %d %d %d %d %d %d %s", c.ss, c.c1, c.c2, c.n, c.rb, c.epoch, me, slot0, bits)
}

// c24ResKey: the 16 threshold bytes of the VRF output of kp on the BABE transcript.
func c24ResKey(kp *sr25519.Keypair, rand Randomness, slot, epoch uint64) (out [sr25519.VRFOutputLength]byte,
	res []byte) {
	out, _, err := kp.VrfSign(makeTranscript(rand, slot, epoch))
	if err != nil {
		panic(err)
	}
	inout, err := sr25519.AttachInput(out, kp.Public().(*sr25519.PublicKey), makeTranscript(rand, slot, epoch))
	if err != nil {
		panic(err)
	}
	res, err = inout.MakeBytes(16, babeVRFPrefix)
	if err != nil {
		panic(err)
	}
	return out, res
}

func TestVerifC24(t *testing.T) { vhMain(t, c24Gen, c24Run) }
