//go:build verif

package babe

import (
	"errors"
	"fmt"
	"strconv"
	"strings"
	"time"

	"github.com/ChainSafe/gossamer/dot/types"
	"github.com/ChainSafe/gossamer/lib/common"
)

// Manager cases (property C24): ONE VerificationManager, a sequence of calls, one line.
//
//	mgr G=<n>,<koff>,<rb>,<c1>,<c2>,<ss> A=<...> B=<...>|<op>;<op>;...
//
// The block tree is fixed: genesis g; branch A: A1 (epoch 0) <- A2 (epoch 1) <- A3 (epoch 1); branch B alike,
// both under g.  The stub EpochState resolves epoch data and configuration BY THE BRANCH OF THE HEADER it is
// asked about (as dot/state does, C26): epoch 0 = descriptor G on both branches; epoch e >= 1 on branch X =
// descriptor X with key offset koff+e-1 and randomness byte rb+e-1, i.e. the two branches announce different
// authority sets / randomness / c1,c2 / SecondarySlots for the same epoch NUMBER.
// Authority i of a descriptor holds key (koff+i) mod 8.
//
//	vb <X> <par> <epoch> <slot> <kind> <idx> <vsigner> <vrfT> <sealer> <sealT> <shape> o=<attach><below><vrf><seal>
//	    VerifyBlock of a new header on branch X under parent par (g, 1, 2, 3 = X1..X3, x = unknown hash) whose
//	    epoch (GetEpochForBlock) is <epoch>; the remaining fields are those of a `v` case; vsigner/sealer are key
//	    numbers.  o= is the truth about the crypto for the descriptor of the header's OWN branch.
//	dis <X> <k> <idx>      SetOnDisabled(idx, header of X<k>)
//
// Output: the verdicts joined by `;`.

type c24Desc struct {
	n, koff int
	rb      byte
	c1, c2  uint64
	ss      byte
}

func (d c24Desc) String() string {
	return fmt.Sprintf("%d,%d,%d,%d,%d,%d", d.n, d.koff, d.rb, d.c1, d.c2, d.ss)
}

func c24ParseDesc(s string) (c24Desc, bool) {
	p := strings.Split(s, ",")
	if len(p) != 6 {
		return c24Desc{}, false
	}
	v := make([]uint64, 6)
	for i := range p {
		x, err := strconv.ParseUint(p[i], 10, 64)
		if err != nil {
			return c24Desc{}, false
		}
		v[i] = x
	}
	if v[0] > 7 {
		return c24Desc{}, false
	}
	return c24Desc{n: int(v[0]), koff: int(v[1] % 8), rb: byte(v[2]), c1: v[3], c2: v[4], ss: byte(v[5])}, true
}

type c24Env struct {
	g, a, b c24Desc
}

// at: the descriptor in force on branch X for epoch e.
func (e *c24Env) at(branch byte, epoch uint64) c24Desc {
	if epoch == 0 {
		return e.g
	}
	d := e.a
	if branch == 'B' {
		d = e.b
	}
	d.koff = (d.koff + int((epoch-1)%8)) % 8
	d.rb += byte(epoch - 1)
	return d
}

func c24EpochOfK(k int) uint64 {
	if k <= 1 {
		return 0
	}
	return 1
}

type c24BlkInfo struct {
	branch byte // 'A', 'B', 0 for genesis
	k      int
	epoch  uint64
	hdr    *types.Header
}

// c24World: the stub block state + epoch state of one manager case.
type c24World struct {
	BlockState
	EpochState
	env     *c24Env
	genesis common.Hash
	byHash  map[common.Hash]*c24BlkInfo // tree blocks and headers under verification
	tree    map[string]*types.Header    // "g", "A1".."B3"
}

func c24NewWorld(env *c24Env) *c24World {
	w := &c24World{env: env, byHash: map[common.Hash]*c24BlkInfo{}, tree: map[string]*types.Header{}}
	g := types.NewEmptyHeader()
	g.StateRoot = common.Hash{0x67}
	w.genesis = g.Hash()
	w.tree["g"] = g
	w.byHash[w.genesis] = &c24BlkInfo{hdr: g}
	for _, br := range []byte{'A', 'B'} {
		parent := g
		for k := 1; k <= 3; k++ {
			h := types.NewEmptyHeader()
			h.Number = uint(k)
			h.ParentHash = parent.Hash()
			h.StateRoot = common.Hash{br, byte(k)}
			w.tree[fmt.Sprintf("%c%d", br, k)] = h
			w.byHash[h.Hash()] = &c24BlkInfo{branch: br, k: k, epoch: c24EpochOfK(k), hdr: h}
			parent = h
		}
	}
	return w
}

func (w *c24World) GenesisHash() common.Hash { return w.genesis }

func (w *c24World) GetHeader(h common.Hash) (*types.Header, error) {
	if b, ok := w.byHash[h]; ok && (b.k > 0 || h == w.genesis) && w.isTree(h) {
		return b.hdr, nil
	}
	return nil, errors.New("header not found")
}

func (w *c24World) isTree(h common.Hash) bool {
	for _, t := range w.tree {
		if t.Hash() == h {
			return true
		}
	}
	return false
}

// IsDescendantOf: ancestor-or-self along the fixed tree.
func (w *c24World) IsDescendantOf(parent, child common.Hash) (bool, error) {
	p, ok1 := w.byHash[parent]
	c, ok2 := w.byHash[child]
	if !ok1 || !ok2 {
		return false, errors.New("unknown block")
	}
	if p.branch == 0 {
		return true, nil
	}
	return p.branch == c.branch && p.k <= c.k, nil
}

func (w *c24World) GetSlotDuration() (time.Duration, error) { return time.Second, nil }

func (w *c24World) GetEpochForBlock(h *types.Header) (uint64, error) {
	if b, ok := w.byHash[h.Hash()]; ok {
		return b.epoch, nil
	}
	return 0, errors.New("epoch of unknown block")
}

func (w *c24World) descFor(epoch uint64, h *types.Header) (c24Desc, error) {
	b, ok := w.byHash[h.Hash()]
	if !ok {
		return c24Desc{}, errors.New("epoch data for unknown block")
	}
	return w.env.at(b.branch, epoch), nil
}

func (w *c24World) GetEpochDataRaw(epoch uint64, h *types.Header) (*types.EpochDataRaw, error) {
	d, err := w.descFor(epoch, h)
	if err != nil {
		return nil, err
	}
	c := &c24Case{n: d.n, koff: d.koff}
	return &types.EpochDataRaw{Authorities: c.authorities(), Randomness: c24Randomness(d.rb)}, nil
}

func (w *c24World) GetConfigData(epoch uint64, h *types.Header) (*types.ConfigData, error) {
	d, err := w.descFor(epoch, h)
	if err != nil {
		return nil, err
	}
	return &types.ConfigData{C1: d.c1, C2: d.c2, SecondarySlots: d.ss}, nil
}

type c24VbOp struct {
	branch byte
	par    string // g 1 2 3 x
	epoch  uint64
	c      c24Case // slot kind idx vsigner vrfT sealer sealT shape + oracles
}

func (o *c24VbOp) String() string {
	c := &o.c
	return fmt.Sprintf("vb %c %s %d %d %d %d %d %d %d %d %d o=%d%d%d%d", o.branch, o.par, o.epoch, c.slot, c.kind,
		c.idx, c.vsigner, c.vrfT, c.sealer, c.sealT, c.shape, c.oAttach, c.oBelow, c.oVrf, c.oSeal)
}

// where: the epoch whose descriptor VerifyBlock is to use (ok=false: no verifier is built).
func (o *c24VbOp) where() (uint64, bool) {
	switch o.par {
	case "g":
		return o.epoch, true
	case "x":
		return o.epoch, false
	}
	k, _ := strconv.Atoi(o.par)
	pe := c24EpochOfK(k)
	if pe > o.epoch {
		return o.epoch, false
	}
	if o.epoch > pe+1 {
		return pe + 1, true
	}
	return o.epoch, true
}

// fill completes the c24Case of the op from the descriptor of the header's own branch.
func (o *c24VbOp) fill(w *c24World) {
	we, _ := o.where()
	d := w.env.at(o.branch, we)
	c := &o.c
	c.ss, c.c1, c.c2, c.n, c.rb, c.koff = d.ss, d.c1, d.c2, d.n, d.rb, d.koff
	c.epoch = o.epoch
	c.hasParent = true
	switch o.par {
	case "g":
		c.parent, c.number = w.genesis, 1
	case "x":
		c.parent, c.number = common.Hash{0xee, 0xee}, 9
	default:
		k, _ := strconv.Atoi(o.par)
		c.parent, c.number = w.tree[fmt.Sprintf("%c%d", o.branch, k)].Hash(), uint(k)+1
	}
}

func c24ParseVb(f []string) (*c24VbOp, bool) {
	if len(f) != 13 || len(f[1]) != 1 || (f[1] != "A" && f[1] != "B") {
		return nil, false
	}
	switch f[2] {
	case "g", "1", "2", "3", "x":
	default:
		return nil, false
	}
	v := make([]uint64, 12)
	for i := 3; i <= 11; i++ {
		x, err := strconv.ParseUint(f[i], 10, 64)
		if err != nil {
			return nil, false
		}
		v[i] = x
	}
	o := &c24VbOp{branch: f[1][0], par: f[2], epoch: v[3]}
	o.c = c24Case{slot: v[4], kind: int(v[5]), idx: uint32(v[6]), vsigner: int(v[7] % 8), vrfT: int(v[8]),
		sealer: int(v[9] % 8), sealT: int(v[10]), shape: int(v[11])}
	return o, true
}

func c24VbVerdict(err error) string {
	switch {
	case err == nil:
		return "ok"
	case errors.Is(err, errEpochLowerThanExpected):
		return "err-epoch-lower"
	case strings.HasPrefix(err.Error(), "getting header"):
		return "err-parent"
	case strings.HasPrefix(err.Error(), "getting verifier info"):
		return "err-verifier-info"
	}
	return c24Verdict(err)
}

func c24ParseEnv(hdr string) (*c24Env, bool) {
	f := strings.Fields(hdr)
	if len(f) != 4 || f[0] != "mgr" {
		return nil, false
	}
	env := &c24Env{}
	for i, pre := range []string{"G=", "A=", "B="} {
		if !strings.HasPrefix(f[i+1], pre) {
			return nil, false
		}
		d, ok := c24ParseDesc(f[i+1][2:])
		if !ok {
			return nil, false
		}
		switch i {
		case 0:
			env.g = d
		case 1:
			env.a = d
		default:
			env.b = d
		}
	}
	return env, true
}

func c24RunMgr(line string) string {
	parts := strings.SplitN(line, "|", 2)
	if len(parts) != 2 {
		return "bad-op"
	}
	env, ok := c24ParseEnv(parts[0])
	if !ok {
		return "bad-op"
	}
	w := c24NewWorld(env)
	vm := NewVerificationManager(w, c24Slot{}, w)
	var outs []string
	for _, op := range strings.Split(parts[1], ";") {
		f := strings.Fields(op)
		if len(f) == 0 {
			outs = append(outs, "bad-op")
			continue
		}
		switch f[0] {
		case "vb":
			o, ok := c24ParseVb(f)
			if !ok {
				outs = append(outs, "bad-op")
				continue
			}
			o.fill(w)
			h := o.c.header()
			w.byHash[h.Hash()] = &c24BlkInfo{branch: o.branch, epoch: o.epoch, hdr: h}
			outs = append(outs, vhCatch(func() string { return c24VbVerdict(vm.VerifyBlock(h)) }))
		case "dis":
			if len(f) != 4 || (f[1] != "A" && f[1] != "B") {
				outs = append(outs, "bad-op")
				continue
			}
			k, err1 := strconv.Atoi(f[2])
			idx, err2 := strconv.ParseUint(f[3], 10, 32)
			if err1 != nil || err2 != nil || k < 1 || k > 3 {
				outs = append(outs, "bad-op")
				continue
			}
			h := w.tree[f[1]+f[2]]
			outs = append(outs, vhCatch(func() string {
				err := vm.SetOnDisabled(uint32(idx), h)
				switch {
				case err == nil:
					return "ok"
				case errors.Is(err, ErrInvalidBlockProducerIndex):
					return "err-index"
				case errors.Is(err, ErrAuthorityAlreadyDisabled):
					return "err-already-disabled"
				}
				return "err-verifier-info"
			}))
		default:
			outs = append(outs, "bad-op")
		}
	}
	return strings.Join(outs, ";")
}

func c24GenDesc(r *vhRng) c24Desc {
	d := c24Desc{n: 1 + r.Intn(3), koff: r.Intn(8), rb: byte(r.Intn(4)), ss: byte(r.Pick(0, 1, 2, 2, 1, 3))}
	switch r.Intn(6) {
	case 0:
		d.c1, d.c2 = 1, 1
	case 1:
		d.c1, d.c2 = 1, 2
	case 2:
		d.c1, d.c2 = 1, 1<<62
	default:
		d.c1, d.c2 = 1, 4
	}
	return d
}

// c24HonestClaim runs the node's own lottery (claimSlot) as authority me of descriptor d over some slots.
func c24HonestClaim(r *vhRng, d c24Desc, epoch uint64, me int) (slot uint64, kind int, ok bool) {
	thr, err := CalculateThreshold(d.c1, d.c2, d.n)
	if err != nil {
		return 0, 0, false
	}
	c := &c24Case{n: d.n, koff: d.koff}
	ed := &epochData{randomness: c24Randomness(d.rb), authorityIndex: uint32(me), authorities: c.authorities(),
		threshold: thr, allowedSlots: types.AllowedSlots(d.ss)}
	slot0 := uint64(r.Intn(60))
	for i := uint64(0); i < 10; i++ {
		prd, err := claimSlot(epoch, slot0+i, ed, c24AuthKey(me, 0, d.koff))
		if err == nil && len(prd.Data) > 0 {
			return slot0 + i, int(prd.Data[0]), true
		}
	}
	return 0, 0, false
}

func c24GenMgr(r *vhRng) string {
	env := &c24Env{g: c24GenDesc(r), a: c24GenDesc(r), b: c24GenDesc(r)}
	switch r.Intn(6) {
	case 0: // the branches differ in one respect only
		env.b = env.a
		switch r.Intn(4) {
		case 0:
			env.b.koff = (env.a.koff + 1 + r.Intn(7)) % 8
		case 1:
			env.b.rb++
		case 2:
			env.b.ss = byte((int(env.a.ss) + 1) % 3)
		default:
			env.b.n = 1 + (env.a.n % 3)
		}
	case 1: // same keys, B has one authority more / fewer
		env.b.koff = env.a.koff
	case 2:
		if r.Chance(1, 3) { // one branch announces an invalid configuration
			env.b.c1, env.b.c2 = 5, 4
		}
	}
	w := c24NewWorld(env)
	focus := uint64(1)
	if r.Chance(1, 5) {
		focus = uint64(r.Pick(0, 2, 3))
	}
	nops := 2 + r.Intn(5)
	var ops []string
	last := byte('A')
	var lastDis []int
	for i := 0; i < nops; i++ {
		br := byte('A' + r.Intn(2))
		if i > 0 && r.Chance(2, 3) { // alternate branches: this is what a per-epoch cache gets wrong
			br = 'A' + 'B' - last
		}
		last = br
		if r.Chance(1, 5) || (lastDis != nil && r.Chance(1, 2)) {
			k := 1 + r.Intn(3)
			d := env.at(br, c24EpochOfK(k))
			idx := r.Intn(d.n + 1)
			if r.Chance(1, 4) {
				idx = r.Intn(4)
			}
			if lastDis != nil && r.Chance(2, 3) { // the same producer again, on the same or the other branch
				idx = lastDis[2]
				k = r.Pick(lastDis[1], lastDis[1], 2, 3)
				if r.Chance(2, 3) {
					br = byte(lastDis[0])
				}
			}
			lastDis = []int{int(br), k, idx}
			last = br
			ops = append(ops, fmt.Sprintf("dis %c %d %d", br, k, idx))
			continue
		}
		lastDis = nil
		o := &c24VbOp{branch: br, epoch: focus}
		if r.Chance(1, 4) {
			o.epoch = uint64(r.Intn(4))
		}
		switch {
		case o.epoch == 0:
			o.par = []string{"g", "g", "1", "2"}[r.Intn(4)]
		case o.epoch == 1:
			o.par = []string{"1", "2", "3", "g"}[r.Intn(4)]
		default:
			o.par = []string{"1", "2", "3", "3"}[r.Intn(4)]
		}
		if r.Chance(1, 25) {
			o.par = "x"
		}
		we, _ := o.where()
		own := env.at(br, we)
		other := env.at('A'+'B'-br, we)
		// whose lottery the claim comes from: normally the header's own branch; an impostor runs the
		// lottery of the OTHER branch's descriptor and puts the block on this branch
		src := own
		if r.Chance(1, 4) {
			src = other
		}
		me := r.Intn(src.n)
		slot, kind, ok := c24HonestClaim(r, src, o.epoch, me)
		if !ok {
			slot, kind = uint64(r.Intn(60)), 1+r.Intn(3)
		}
		key := (src.koff + me) % 8
		o.c = c24Case{slot: slot, kind: kind, idx: uint32(me), vsigner: key, sealer: key}
		if r.Chance(1, 6) {
			switch r.Intn(5) {
			case 0:
				o.c.sealer = r.Intn(8)
			case 1:
				o.c.vsigner = r.Intn(8)
			case 2:
				o.c.sealT = 1 + r.Intn(4)
			case 3:
				o.c.vrfT = 1 + r.Intn(5)
			default:
				o.c.idx = uint32(r.Intn(4))
			}
		}
		o.fill(w)
		o.c.oracles()
		ops = append(ops, o.String())
	}
	return fmt.Sprintf("mgr G=%s A=%s B=%s|%s", env.g, env.a, env.b, strings.Join(ops, ";"))
}
