//go:build verif

package babe

import (
	"fmt"
	"math/big"
	"strconv"

	"github.com/ChainSafe/gossamer/dot/types"
	"github.com/ChainSafe/gossamer/pkg/scale"
)

// Threshold-boundary cases (property C24):
//
//	t <mode> <ss> <n> <rb> <epoch> <slot> <idx> <thr-hex32> <res-hex32>
//
// Authority <idx> makes its honest VRF output for (randomness rb*32, slot, epoch).  <res> = the 16 bytes
// `MakeBytes(16, "substrate-babe-vrf")` of its VRF in-out (computed with the sr25519 package; little endian they
// are the number v the threshold is compared with); <thr> = the epoch threshold, big-endian hex, drawn from
// {v-1, v, v+1, 0, max, halves tweaked, random}.
//
//	mode v: an honestly made and sealed PRIMARY block of that authority is checked by verifyAuthorshipRight on a
//	        verifier (getVerifierInfo + newVerifier) whose threshold field is <thr>.   output: `<verdict> <res>`
//	mode c: the node's own lottery claimSlot with epochData.threshold = <thr>.        output: `<kind|none> <res>`
//
// The model's verdict uses `v < threshold`, strictly.

func c24U128(b []byte) *scale.Uint128 {
	return &scale.Uint128{Upper: new(big.Int).SetBytes(b[:8]).Uint64(), Lower: new(big.Int).SetBytes(b[8:]).Uint64()}
}

func c24RunT(f []string) string {
	if len(f) != 10 || (f[1] != "v" && f[1] != "c") {
		return "bad-op"
	}
	v := make([]uint64, 8)
	for i := 2; i <= 7; i++ {
		x, err := strconv.ParseUint(f[i], 10, 64)
		if err != nil {
			return "bad-op"
		}
		v[i] = x
	}
	tb := vhUnhex(f[8])
	if len(tb) != 16 || v[3] < 1 || v[3] > 7 || v[7] >= v[3] {
		return "bad-op"
	}
	thr := c24U128(tb)
	c := &c24Case{ss: byte(v[2]), c1: 1, c2: 1, n: int(v[3]), rb: byte(v[4]), epoch: v[5], slot: v[6], kind: 1,
		idx: uint32(v[7]), vsigner: int(v[7]), sealer: int(v[7])}
	_, res := c24ResKey(c24Key(int(c.idx)), c24Randomness(c.rb), c.slot, c.epoch)
	if f[1] == "v" {
		ver, err := c.verifier()
		if err != nil {
			return "err-verifier-info"
		}
		ver.threshold = thr
		return c24Verdict(ver.verifyAuthorshipRight(c.header())) + " " + vhHex(res)
	}
	ed := &epochData{randomness: c24Randomness(c.rb), authorityIndex: c.idx, authorities: c.authorities(),
		threshold: thr, allowedSlots: types.AllowedSlots(c.ss)}
	prd, err := claimSlot(c.epoch, c.slot, ed, c24Key(int(c.idx)))
	if err != nil || len(prd.Data) == 0 {
		return "none " + vhHex(res)
	}
	return fmt.Sprintf("%d %s", prd.Data[0], vhHex(res))
}

func c24GenT(r *vhRng) string {
	n := 1 + r.Intn(4)
	idx := r.Intn(n)
	rb := byte(r.Intn(3))
	epoch := uint64(r.Intn(3))
	slot := uint64(r.Intn(50))
	ss := r.Pick(0, 1, 2, 3)
	_, res := c24ResKey(c24Key(idx), c24Randomness(rb), slot, epoch)
	be := make([]byte, 16)
	for i := range res {
		be[15-i] = res[i]
	}
	v := new(big.Int).SetBytes(be)
	max := new(big.Int).Sub(new(big.Int).Lsh(big.NewInt(1), 128), big.NewInt(1))
	t := new(big.Int)
	switch r.Intn(10) {
	case 0, 1, 2:
		t.Set(v)
	case 3:
		t.Add(v, big.NewInt(1))
	case 4:
		t.Sub(v, big.NewInt(1))
	case 5: // same upper half, other lower half
		t.Xor(v, new(big.Int).SetUint64(r.U64()))
	case 6: // same lower half, upper half +-1
		d := new(big.Int).Lsh(big.NewInt(1), 64)
		if r.Bool() {
			t.Add(v, d)
		} else {
			t.Sub(v, d)
		}
	case 7:
		t.Set(max)
	case 8:
		t.SetInt64(0)
	default:
		t.SetBytes(r.Bytes(16))
	}
	if t.Sign() < 0 {
		t.SetInt64(0)
	}
	if t.Cmp(max) > 0 {
		t.Set(max)
	}
	mode := "v"
	if r.Chance(2, 5) {
		mode = "c"
	}
	return fmt.Sprintf("t %s %d %d %d %d %d %d %s %s", mode, ss, n, rb, epoch, slot, idx,
		vhHex(t.FillBytes(make([]byte, 16))), vhHex(res))
}
