//go:build verif

package babe

import (
	"bytes"
	"fmt"
	"strconv"
	"strings"

	"github.com/ChainSafe/gossamer/dot/types"
	"github.com/ChainSafe/gossamer/lib/common"
	"github.com/ChainSafe/gossamer/pkg/scale"
)

// Digest-layout cases (property C24):
//
//	d <ss> <c1> <c2> <n> <rb> <epoch> <slot> <kind> <idx> <vsigner> <vrfT> <sealer> <layout> <pre> o=<attach><below><vrf><seal>
//
// <layout> is the digest, one letter per item (0..6 items, `-` = empty):
//
//	P  the BABE pre-runtime digest of the claim (kind/idx/slot)     p  the same claim under a foreign engine id
//	q  an undecodable pre-runtime digest                             c  a consensus digest    r  RuntimeEnvironmentUpdated
//	S  a seal signed by key <sealer>      o  a seal signed by a key outside the set     j  a well-formed seal over junk
//
// A signed seal (S, o) that is NOT the last item signs the header made of the items before it (an honest seal of a
// shorter header).  A signed seal in LAST position signs the pre-image selected by <pre>:
//
//	0 header without the last item (the only correct one)   1 header without ANY seal item
//	2 header without the first seal item                    3 header with the full digest (a zero seal in its own place)
//	4 header without the pre-runtime items
//
// The seal oracle on the line is the truth of "signature of authority idx valid over the header with exactly the
// last digest item removed" (established by c24Case.oracles with the sr25519 package).

func c24HashHeader(h types.Header, items []any) []byte {
	h.Digest = types.NewDigest()
	for _, it := range items {
		if err := h.Digest.Add(it); err != nil {
			panic(err)
		}
	}
	enc, err := scale.Marshal(h)
	if err != nil {
		panic(err)
	}
	hash, err := common.Blake2bHash(enc)
	if err != nil {
		panic(err)
	}
	return hash[:]
}

func c24IsSeal(it any) bool { _, ok := it.(types.SealDigest); return ok }
func c24IsPre(it any) bool  { _, ok := it.(types.PreRuntimeDigest); return ok }

func c24SignSeal(key int, msg []byte) types.SealDigest {
	sig, err := c24Key(key).Sign(msg)
	if err != nil {
		panic(err)
	}
	return types.SealDigest{ConsensusEngineID: types.BabeEngineID, Data: sig}
}

// layoutHeader builds the header of a `d` case.
func (c *c24Case) layoutHeader(h *types.Header) *types.Header {
	base := *h
	var items []any
	lay := c.layout
	if lay == "-" {
		lay = ""
	}
	for i, ch := range lay {
		last := i == len(lay)-1
		switch ch {
		case 'P':
			items = append(items, types.PreRuntimeDigest{ConsensusEngineID: types.BabeEngineID, Data: c.preDigestData()})
		case 'p':
			items = append(items, types.PreRuntimeDigest{ConsensusEngineID: types.ConsensusEngineID{'a', 'u', 'r', 'a'},
				Data: c.preDigestData()})
		case 'q':
			items = append(items, types.PreRuntimeDigest{ConsensusEngineID: types.BabeEngineID, Data: []byte{1, 0, 0}})
		case 'c':
			items = append(items, types.ConsensusDigest{ConsensusEngineID: types.BabeEngineID, Data: []byte{1, 2, 3}})
		case 'r':
			items = append(items, types.RuntimeEnvironmentUpdated{})
		case 'j':
			items = append(items, c24SignSeal(c24Outsider, []byte{byte(i), 'j', 'u', 'n', 'k'}))
		case 'S', 'o':
			key := c.sealer
			if ch == 'o' {
				key = c24Outsider
			}
			rest := append([]any{}, items...)
			pre := rest
			if last {
				switch c.preSel {
				case 1:
					pre = nil
					for _, it := range rest {
						if !c24IsSeal(it) {
							pre = append(pre, it)
						}
					}
				case 2:
					pre = nil
					dropped := false
					for _, it := range rest {
						if !dropped && c24IsSeal(it) {
							dropped = true
							continue
						}
						pre = append(pre, it)
					}
				case 3:
					pre = append(append([]any{}, rest...),
						types.SealDigest{ConsensusEngineID: types.BabeEngineID, Data: make([]byte, 64)})
				case 4:
					pre = nil
					for _, it := range rest {
						if !c24IsPre(it) {
							pre = append(pre, it)
						}
					}
				}
			}
			items = append(items, c24SignSeal(key, c24HashHeader(base, pre)))
		default:
			panic("bad layout letter")
		}
	}
	for _, it := range items {
		if err := h.Digest.Add(it); err != nil {
			panic(err)
		}
	}
	return h
}

func c24ParseD(f []string) (*c24Case, bool) {
	if len(f) != 16 {
		return nil, false
	}
	v := make([]uint64, 13)
	for i := 1; i <= 12; i++ {
		x, err := strconv.ParseUint(f[i], 10, 64)
		if err != nil {
			return nil, false
		}
		v[i] = x
	}
	ps, err := strconv.Atoi(f[14])
	if err != nil || len(f[13]) > 6 || len(f[13]) == 0 {
		return nil, false
	}
	if f[13] != "-" && strings.Trim(f[13], "PpqcrSoj") != "" {
		return nil, false
	}
	c := &c24Case{ss: byte(v[1]), c1: v[2], c2: v[3], n: int(v[4]), rb: byte(v[5]), epoch: v[6], slot: v[7],
		kind: int(v[8]), idx: uint32(v[9]), vsigner: int(v[10]) % 8, vrfT: int(v[11]), sealer: int(v[12]) % 8,
		layout: f[13], preSel: ps}
	if c.n > 7 {
		return nil, false
	}
	return c, true
}

func (c *c24Case) dLine() string {
	return fmt.Sprintf("d %d %d %d %d %d %d %d %d %d %d %d %d %s %d o=%d%d%d%d",
		c.ss, c.c1, c.c2, c.n, c.rb, c.epoch, c.slot, c.kind, c.idx, c.vsigner, c.vrfT, c.sealer, c.layout, c.preSel,
		c.oAttach, c.oBelow, c.oVrf, c.oSeal)
}

func c24RunD(f []string) string {
	c, ok := c24ParseD(f)
	if !ok {
		return "bad-op"
	}
	v, err := c.verifier()
	if err != nil {
		return "err-verifier-info"
	}
	h := c.header()
	before, err := scale.Marshal(h.Digest)
	if err != nil {
		panic(err)
	}
	out := c24Verdict(v.verifyAuthorshipRight(h))
	after, err := scale.Marshal(h.Digest)
	if err != nil {
		panic(err)
	}
	if !bytes.Equal(before, after) {
		out += " digest-changed"
	}
	return out
}

func c24GenLayout(r *vhRng) string {
	n := 2 + r.Intn(5)
	if r.Chance(1, 12) {
		n = r.Intn(2)
	}
	b := make([]byte, n)
	const mid = "PpqcrSojSjcS"
	for i := range b {
		b[i] = mid[r.Intn(len(mid))]
	}
	if n > 0 && r.Chance(4, 5) {
		b[0] = "PPPPPpq"[r.Intn(7)]
	}
	if n > 1 && r.Chance(4, 5) {
		b[n-1] = "SSSSSoj"[r.Intn(7)]
	}
	if n >= 3 && r.Chance(1, 3) { // an extra seal-typed item right before the final seal
		b[n-2] = "jSo"[r.Intn(3)]
	}
	if n == 0 {
		return "-"
	}
	return string(b)
}

func c24GenD(r *vhRng) string {
	c := &c24Case{}
	c24Cfg(r, c)
	c.dup = 0
	if r.Chance(2, 3) { // configurations under which an honest claim is accepted, so that the seal decides
		c.c1, c.c2 = 1, 1
	}
	c.slot = uint64(r.Intn(40))
	c.kind = []int{1, 2, 3}[int(c.ss)%3]
	if c.ss == 0 || c.ss > 2 || r.Chance(1, 3) {
		c.kind = 1
	}
	author, _ := getSecondarySlotAuthor(c.slot, c.n, c24Randomness(c.rb))
	if c.kind == 1 {
		c.idx = uint32(r.Intn(c.n))
	} else {
		c.idx = author
	}
	c.vsigner, c.sealer = int(c.idx), int(c.idx)
	if r.Chance(1, 10) {
		c.sealer = r.Intn(8)
	}
	c.layout = c24GenLayout(r)
	c.preSel = r.Pick(0, 0, 0, 1, 1, 2, 3, 4)
	if len(c.layout) >= 3 && strings.ContainsAny(c.layout[1:len(c.layout)-1], "Sjo") {
		// a seal-typed item among the non-last items: the pre-images really differ
		c.preSel = r.Pick(0, 1, 1, 1, 2, 2, 3)
	}
	c.oracles()
	return c.dLine()
}
