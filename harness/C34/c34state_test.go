//go:build verif

package state

import (
	"encoding/json"
	"fmt"
	"sort"
	"strconv"
	"strings"
	"testing"

	"github.com/ChainSafe/gossamer/dot/types"
	"github.com/ChainSafe/gossamer/lib/transaction"
)

type c34NoTelemetry struct{}

func (c34NoTelemetry) SendMessage(json.Marshaler) {}

func c34sExt(h int) types.Extrinsic { return types.Extrinsic{byte(h)} }

func c34sTx(h int, prio uint64) *transaction.ValidTransaction {
	return transaction.NewValidTransaction(c34sExt(h), &transaction.Validity{Priority: prio})
}

func c34sID(vt *transaction.ValidTransaction) string {
	if vt == nil {
		return "nil"
	}
	return "t" + strconv.Itoa(int(vt.Extrinsic[0]))
}

func c34sList(ids []string) string { return "[" + strings.Join(ids, ",") + "]" }

func c34sPool(ts *TransactionState, withPrio bool) []string {
	vts := ts.PendingInPool()
	sort.Slice(vts, func(i, j int) bool { return vts[i].Extrinsic[0] < vts[j].Extrinsic[0] })
	var out []string
	for _, vt := range vts {
		if withPrio {
			out = append(out, fmt.Sprintf("%d/%d", vt.Extrinsic[0], vt.Validity.Priority))
		} else {
			out = append(out, strconv.Itoa(int(vt.Extrinsic[0])))
		}
	}
	return out
}

// c34sRun: `ts op;op;…` on a fresh TransactionState (the real object, no-op telemetry).
func c34sRun(line string) string {
	if !strings.HasPrefix(line, "ts ") {
		return "bad-op"
	}
	ts := NewTransactionState(c34NoTelemetry{})
	var outs []string
	for _, op := range strings.Split(strings.TrimPrefix(line, "ts "), ";") {
		g := strings.Fields(op)
		if len(g) == 0 {
			return "bad-op"
		}
		arg := func(i int) (int, bool) {
			if len(g) <= i {
				return 0, false
			}
			n, err := strconv.Atoi(g[i])
			return n, err == nil && n >= 0 && n <= 255
		}
		var res string
		switch g[0] {
		case "pool":
			h, ok1 := arg(1)
			p, ok2 := arg(2)
			if !ok1 || !ok2 || len(g) != 3 {
				return "bad-op"
			}
			ts.AddToPool(c34sTx(h, uint64(p)))
			res = "ok"
		case "unpool":
			h, ok := arg(1)
			if !ok || len(g) != 2 {
				return "bad-op"
			}
			ts.RemoveExtrinsicFromPool(c34sExt(h))
			res = "ok"
		case "rm":
			h, ok := arg(1)
			if !ok || len(g) != 2 {
				return "bad-op"
			}
			ts.RemoveExtrinsic(c34sExt(h))
			res = "ok"
		case "push":
			h, ok1 := arg(1)
			p, ok2 := arg(2)
			if !ok1 || !ok2 || len(g) != 3 {
				return "bad-op"
			}
			_, err := ts.Push(c34sTx(h, uint64(p)))
			switch err {
			case nil:
				res = "ok"
			case transaction.ErrTransactionExists:
				res = "dup"
			default:
				res = "err"
			}
		case "pop":
			res = c34sID(ts.Pop())
		case "peek":
			res = c34sID(ts.Peek())
		case "exists":
			h, ok := arg(1)
			if !ok || len(g) != 2 {
				return "bad-op"
			}
			if ts.Exists(c34sExt(h)) {
				res = "T"
			} else {
				res = "F"
			}
		case "pending":
			// queue part in slice order, then the pool part (a Go map) sorted by hash
			all := ts.Pending()
			nq := len(all) - len(ts.PendingInPool())
			if nq < 0 {
				return "inconsistent"
			}
			var ids []string
			for _, vt := range all[:nq] {
				ids = append(ids, strconv.Itoa(int(vt.Extrinsic[0])))
			}
			rest := all[nq:]
			sort.Slice(rest, func(i, j int) bool { return rest[i].Extrinsic[0] < rest[j].Extrinsic[0] })
			for _, vt := range rest {
				ids = append(ids, strconv.Itoa(int(vt.Extrinsic[0])))
			}
			res = c34sList(ids)
		case "pendingpool":
			res = c34sList(c34sPool(ts, false))
		default:
			return "bad-op"
		}
		outs = append(outs, res)
	}
	var q []string
	for _, vt := range ts.queue.Pending() {
		q = append(q, strconv.Itoa(int(vt.Extrinsic[0])))
	}
	qs, ps := strings.Join(q, ","), strings.Join(c34sPool(ts, true), ",")
	if qs == "" {
		qs = "-"
	}
	if ps == "" {
		ps = "-"
	}
	return fmt.Sprintf("%s|q=%s|pool=%s", strings.Join(outs, ";"), qs, ps)
}

func c34sGen(r *vhRng) string {
	nh := 2 + r.Intn(5)
	np := 1 + r.Intn(3)
	nops := 2 + r.Intn(30)
	var ops []string
	for i := 0; i < nops; i++ {
		h := r.Intn(nh)
		switch x := r.Intn(100); {
		case x < 18:
			ops = append(ops, fmt.Sprintf("pool %d %d", h, r.Intn(np)))
		case x < 36:
			ops = append(ops, fmt.Sprintf("push %d %d", h, r.Intn(np)))
		case x < 42: // promotion: in the pool, then ready, pool entry dropped later (or never)
			p := r.Intn(np)
			ops = append(ops, fmt.Sprintf("pool %d %d", h, p), fmt.Sprintf("push %d %d", h, p))
			if r.Bool() {
				ops = append(ops, fmt.Sprintf("rm %d", h))
			}
			if r.Bool() {
				ops = append(ops, fmt.Sprintf("unpool %d", h))
			}
		case x < 54:
			ops = append(ops, fmt.Sprintf("rm %d", h))
		case x < 60:
			ops = append(ops, fmt.Sprintf("unpool %d", h))
		case x < 72:
			ops = append(ops, "pop")
		case x < 78:
			ops = append(ops, "peek")
		case x < 88:
			ops = append(ops, fmt.Sprintf("exists %d", h))
		case x < 95:
			ops = append(ops, "pending")
		default:
			ops = append(ops, "pendingpool")
		}
	}
	return "ts " + strings.Join(ops, ";")
}

func TestVerifC34State(t *testing.T) { vhMain(t, c34sGen, c34sRun) }
