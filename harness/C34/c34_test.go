//go:build verif

package transaction

import (
	"fmt"
	"sort"
	"strconv"
	"strings"
	"sync"
	"testing"
	"time"

	"github.com/ChainSafe/gossamer/dot/types"
	"github.com/ChainSafe/gossamer/lib/common"
)

func c34Ext(h int) types.Extrinsic { return types.Extrinsic{byte(h)} }

var c34HashToID = func() map[common.Hash]int {
	m := map[common.Hash]int{}
	for i := 0; i < 256; i++ {
		m[c34Ext(i).Hash()] = i
	}
	return m
}()

func c34Tx(h int, prio uint64) *ValidTransaction {
	return NewValidTransaction(c34Ext(h), &Validity{Priority: prio})
}

func c34ID(vt *ValidTransaction) string {
	if vt == nil {
		return "nil"
	}
	return "t" + strconv.Itoa(int(vt.Extrinsic[0]))
}

// c34Slots prints the hashes in slice order; `!` when some index back-pointer is wrong.
func c34Slots(q *PriorityQueue) string {
	var parts []string
	ok := true
	for i, it := range q.pq {
		parts = append(parts, strconv.Itoa(c34HashToID[it.hash]))
		if it.index != i {
			ok = false
		}
	}
	s := strings.Join(parts, ",")
	if s == "" {
		s = "-"
	}
	if !ok {
		s += "!"
	}
	return s
}

var c34Types = map[string]struct {
	file      string
	immutable []string
}{
	"PriorityQueue":    {"priority_queue.go", []string{"pollInterval"}},
	"Pool":             {"pool.go", nil},
	"TransactionState": {"../../dot/state/transaction.go", []string{"queue", "pool", "telemetry"}},
}

func c34Table(typ string) (map[string]string, bool) {
	ti, ok := c34Types[typ]
	if !ok {
		return nil, false
	}
	t, err := ltTable(ti.file, typ, ti.immutable)
	if err != nil {
		return nil, false
	}
	return t, true
}

func c34Run(line string) string {
	f := strings.Fields(line)
	if len(f) == 0 {
		return "bad-op"
	}
	switch {
	case f[0] == "table":
		// The line carries the lock table extracted from the current source when the case was
		// generated; the Lean driver decides it.  The property demands `safe`.
		return "safe"
	case f[0] == "race":
		return c34Race(f[1:])
	case f[0] == "pwt":
		return c34PopWithTimer(f[1:])
	}
	q := NewPriorityQueue()
	var outs []string
	for _, op := range strings.Split(line, ";") {
		g := strings.Fields(op)
		if len(g) == 0 {
			return "bad-op"
		}
		var res string
		switch {
		case g[0] == "u" && len(g) == 3:
			h, err1 := strconv.Atoi(g[1])
			p, err2 := strconv.ParseUint(g[2], 10, 64)
			if err1 != nil || err2 != nil || h < 0 || h > 255 {
				return "bad-op"
			}
			hash, err := q.Push(c34Tx(h, p))
			switch {
			case hash != c34Ext(h).Hash():
				res = "wrong-hash"
			case err == nil:
				res = "ok"
			case err == ErrTransactionExists:
				res = "dup"
			default:
				res = "err"
			}
		case g[0] == "o" && len(g) == 1:
			res = c34ID(q.Pop())
		case g[0] == "w" && len(g) == 1:
			ch := make(chan time.Time, 1)
			ch <- time.Time{}
			res = c34ID(q.PopWithTimer(ch))
		case g[0] == "k" && len(g) == 1:
			res = c34ID(q.Peek())
		case g[0] == "r" && len(g) == 2:
			h, err := strconv.Atoi(g[1])
			if err != nil || h < 0 || h > 255 {
				return "bad-op"
			}
			q.RemoveExtrinsic(c34Ext(h))
			res = "ok"
		case g[0] == "e" && len(g) == 2:
			h, err := strconv.Atoi(g[1])
			if err != nil || h < 0 || h > 255 {
				return "bad-op"
			}
			if q.Exists(c34Ext(h).Hash()) {
				res = "T"
			} else {
				res = "F"
			}
		case g[0] == "g" && len(g) == 1:
			var ids []string
			for _, vt := range q.Pending() {
				ids = append(ids, strconv.Itoa(int(vt.Extrinsic[0])))
			}
			res = "[" + strings.Join(ids, ",") + "]"
		case g[0] == "l" && len(g) == 1:
			res = strconv.Itoa(q.Len())
		default:
			return "bad-op"
		}
		outs = append(outs, res+":"+c34Slots(q))
	}
	var dump []string
	for _, it := range q.pq {
		dump = append(dump, fmt.Sprintf("%d/%d/%d/%d", c34HashToID[it.hash], it.priority, it.order, it.index))
	}
	var ks []int
	for h := range q.txs {
		ks = append(ks, c34HashToID[h])
	}
	sort.Ints(ks)
	var kss []string
	for _, k := range ks {
		kss = append(kss, strconv.Itoa(k))
	}
	return fmt.Sprintf("%s|%s|txs=%s|ord=%d", strings.Join(outs, ";"), strings.Join(dump, " "),
		strings.Join(kss, ","), q.currOrder)
}

// c34Race: `race <seed> <goroutines> <ops>` hammers one PriorityQueue and one Pool.  Only
// meaningful in the -race build.  Afterwards every pushed transaction must have been yielded or
// removed at most once and the queue must drain in priority/FIFO order.
func c34Race(f []string) string {
	if len(f) != 3 {
		return "bad-op"
	}
	seed, _ := strconv.Atoi(f[0])
	gs, _ := strconv.Atoi(f[1])
	ops, _ := strconv.Atoi(f[2])
	if gs > 16 || ops > 5000 {
		return "bad-op"
	}
	q := NewPriorityQueue()
	pool := NewPool()
	var wg sync.WaitGroup
	popped := make([][]int, gs)
	for g := 0; g < gs; g++ {
		wg.Add(1)
		go func(g int) {
			defer wg.Done()
			r := vhNewRng(uint64(seed*131 + g))
			for i := 0; i < ops; i++ {
				h := r.Intn(24)
				switch r.Intn(12) {
				case 0, 1, 2:
					_, _ = q.Push(c34Tx(h, uint64(r.Intn(3))))
				case 3, 4:
					if vt := q.Pop(); vt != nil {
						popped[g] = append(popped[g], int(vt.Extrinsic[0]))
					}
				case 5:
					q.Peek()
				case 6:
					q.RemoveExtrinsic(c34Ext(h))
				case 7:
					q.Exists(c34Ext(h).Hash())
				case 8:
					q.Pending()
					q.Len()
				case 9:
					pool.Insert(c34Tx(h, 1))
				case 10:
					pool.Remove(c34Ext(h).Hash())
				default:
					pool.Transactions()
					pool.Get(c34Ext(h).Hash())
					pool.Len()
				}
			}
		}(g)
	}
	wg.Wait()
	// drain: must come out sorted by (priority desc, order asc) with consistent bookkeeping
	if len(q.txs) != len(q.pq) {
		return "inconsistent"
	}
	var lastP, lastO uint64
	first := true
	for q.Len() > 0 {
		it := q.pq[0]
		if !first && (it.priority > lastP || (it.priority == lastP && it.order < lastO)) {
			return "out-of-order"
		}
		first, lastP, lastO = false, it.priority, it.order
		q.Pop()
	}
	if len(q.txs) != 0 {
		return "inconsistent"
	}
	return "ok"
}

// c34PopWithTimer: `pwt <seed> <rounds>`.  Conservation under a concurrent PopWithTimer: each
// round starts PopWithTimer on an EMPTY queue, then pushes one transaction and fires the timer
// at about the same moment (the delays vary with the seed so that different poll windows are
// hit).  Whatever the schedule, the transaction must afterwards be either the value PopWithTimer
// returned or still in the queue; `lost` counts the rounds where it is neither (returned nil,
// yet the transaction has left the queue).  Only conservation is asserted, nothing about who
// wins the race, so the output does not depend on timing: `lost=0 rounds=<n>`.
func c34PopWithTimer(f []string) string {
	if len(f) != 2 {
		return "bad-op"
	}
	seed, _ := strconv.Atoi(f[0])
	rounds, _ := strconv.Atoi(f[1])
	if rounds < 1 || rounds > 200 {
		return "bad-op"
	}
	r := vhNewRng(uint64(seed)*977 + 5)
	lost, dup := 0, 0
	for i := 0; i < rounds; i++ {
		q := NewPriorityQueue()
		q.pollInterval = time.Duration(1+r.Intn(20)) * time.Microsecond
		timerCh := make(chan time.Time, 1)
		result := make(chan *ValidTransaction, 1)
		go func() { result <- q.PopWithTimer(timerCh) }()
		// let PopWithTimer find the queue empty and start polling
		time.Sleep(time.Duration(50+r.Intn(300)) * time.Microsecond)
		tx := c34Tx(i%200, uint64(r.Intn(3)))
		if _, err := q.Push(tx); err != nil {
			return "err"
		}
		if d := r.Intn(4); d > 0 { // 0: fire at once; else a few poll intervals later
			time.Sleep(time.Duration(d*r.Intn(15)) * time.Microsecond)
		}
		timerCh <- time.Time{}
		var got *ValidTransaction
		select {
		case got = <-result:
		case <-time.After(20 * time.Second):
			return "timeout"
		}
		time.Sleep(2 * time.Millisecond) // give a background poller time to finish
		inQueue := 0
		for vt := q.Pop(); vt != nil; vt = q.Pop() {
			if vt != tx {
				return "foreign-tx"
			}
			inQueue++
		}
		yielded := 0
		if got != nil {
			if got != tx {
				return "foreign-tx"
			}
			yielded = 1
		}
		switch yielded + inQueue {
		case 0:
			lost++
		case 1:
		default:
			dup++
		}
		if len(q.txs) != 0 {
			return "inconsistent"
		}
	}
	if dup > 0 {
		return fmt.Sprintf("lost=%d dup=%d rounds=%d", lost, dup, rounds)
	}
	return fmt.Sprintf("lost=%d rounds=%d", lost, rounds)
}

func c34GenSeq(r *vhRng) string {
	nh := 2 + r.Intn(10) // hash alphabet
	np := 1 + r.Intn(3)  // priority alphabet: few values so that ties are common
	nops := 1 + r.Intn(40)
	if r.Chance(1, 10) {
		nops = 40 + r.Intn(60)
		nh = 8 + r.Intn(24)
	}
	prio := func() uint64 {
		if r.Chance(1, 40) {
			return []uint64{1<<64 - 1, 1 << 63, 1<<32 - 1, 1 << 32}[r.Intn(4)]
		}
		return uint64(r.Intn(np))
	}
	var ops []string
	burst := r.Chance(1, 3)
	for i := 0; i < nops; i++ {
		h := r.Intn(nh)
		x := r.Intn(100)
		switch {
		case burst && i < nh: // build a big heap first, then take it apart
			ops = append(ops, fmt.Sprintf("u %d %d", (i*7+3)%nh, prio()))
		case x < 38:
			ops = append(ops, fmt.Sprintf("u %d %d", h, prio()))
		case x < 56:
			ops = append(ops, "o")
		case x < 72:
			ops = append(ops, fmt.Sprintf("r %d", h))
		case x < 78:
			ops = append(ops, "k")
		case x < 86:
			ops = append(ops, fmt.Sprintf("e %d", h))
		case x < 92:
			ops = append(ops, "g")
		case x < 96:
			ops = append(ops, "l")
		default:
			ops = append(ops, "w")
		}
	}
	return strings.Join(ops, ";")
}

var c34TypeNames = []string{"PriorityQueue", "Pool", "TransactionState"}

// c34TableCase: the lock table of one type, freshly extracted from its source file.
func c34TableCase(typ string) string {
	t, ok := c34Table(typ)
	if !ok || len(t) == 0 {
		return "table " + typ + "|unparsable"
	}
	return "table " + typ + "|" + ltText(t)
}

var c34Drawn int

func c34Gen(r *vhRng) string {
	c34Drawn++
	if c34Drawn <= len(c34TypeNames) { // every shard starts with the three table cases
		return c34TableCase(c34TypeNames[c34Drawn-1])
	}
	if c34Drawn == len(c34TypeNames)+1 { // every shard runs one concurrent PopWithTimer scenario
		return fmt.Sprintf("pwt %d 40", r.Intn(100000))
	}
	switch r.Intn(600) {
	case 0, 1:
		return c34TableCase(c34TypeNames[r.Intn(len(c34TypeNames))])
	case 2:
		return fmt.Sprintf("pwt %d %d", r.Intn(100000), 20+r.Intn(30))
	}
	return c34GenSeq(r)
}

func c34GenRace(r *vhRng) string {
	return fmt.Sprintf("race %d %d %d", r.Intn(1000), 2+r.Intn(5), 200+r.Intn(600))
}

func TestVerifC34(t *testing.T)     { vhMain(t, c34Gen, c34Run) }
func TestVerifC34Race(t *testing.T) { vhMain(t, c34GenRace, c34Run) }
