//go:build verif

package wazero_runtime

import (
	"context"
	"errors"
	"fmt"
	"strconv"
	"strings"
	"sync"
	"testing"

	"github.com/ChainSafe/gossamer/internal/log"
	"github.com/ChainSafe/gossamer/lib/runtime"
	"github.com/ChainSafe/gossamer/lib/runtime/allocator"
	"github.com/tetratelabs/wazero"
	"github.com/tetratelabs/wazero/api"
)

// Second run of C28: the allocator behind the host functions ext_allocator_malloc_version_1 /
// ext_allocator_free_version_1, on the REAL wazero linear memory of an instantiated module.
// Case line: `w,heapBase,pages,maxPages|alloc n;free k d;poke k d v;grow d` (same ops as the first run).
// The module is hand-assembled: one memory {min pages, max maxPages} exported as "memory", no code.
// An allocator error makes the host function panic: observable `p-<class>`.

func c28wLeb(v uint32) []byte {
	var out []byte
	for {
		b := byte(v & 0x7f)
		v >>= 7
		if v != 0 {
			out = append(out, b|0x80)
		} else {
			return append(out, b)
		}
	}
}

func c28wWasm(pages, maxPages uint32) []byte {
	lim := append([]byte{0x01, 0x01}, c28wLeb(pages)...) // 1 memory, flag 1 = has max
	lim = append(lim, c28wLeb(maxPages)...)
	m := []byte{0x00, 0x61, 0x73, 0x6d, 0x01, 0x00, 0x00, 0x00}
	m = append(m, 0x05, byte(len(lim)))
	m = append(m, lim...)
	m = append(m, 0x07, 0x0a, 0x01, 0x06, 'm', 'e', 'm', 'o', 'r', 'y', 0x02, 0x00)
	return m
}

var (
	c28wOnce sync.Once
	c28wRt   wazero.Runtime
	c28wMods = map[[2]uint32]wazero.CompiledModule{}
	c28wSeq  int
)

func c28wErr(err error) string {
	switch {
	case errors.Is(err, allocator.ErrAllocatorPoisoned):
		return "p-poisoned"
	case errors.Is(err, allocator.ErrMemoryShrunk):
		return "p-shrunk"
	case errors.Is(err, allocator.ErrRequestedAllocationTooLarge):
		return "p-toolarge"
	case errors.Is(err, allocator.ErrInvalidHeaderPointerDetected):
		return "p-badhead"
	case errors.Is(err, allocator.ErrCannotReadHeader):
		return "p-cannotread"
	case errors.Is(err, allocator.ErrInvalidOrder):
		return "p-invalidorder"
	case errors.Is(err, allocator.ErrAllocatorOutOfSpace):
		return "p-outofspace"
	case errors.Is(err, allocator.ErrCannotGrowLinearMemory):
		return "p-cannotgrow"
	case errors.Is(err, allocator.ErrCannotWriteHeader):
		return "p-cannotwrite"
	case errors.Is(err, allocator.ErrInvalidPointerForDealocation):
		return "p-badptr"
	case errors.Is(err, allocator.ErrEmptyHeader):
		return "p-emptyheader"
	case strings.Contains(err.Error(), "points to a occupied header"):
		return "p-headoccupied"
	case strings.Contains(err.Error(), "underflow"):
		return "p-underflow"
	}
	return "p-other"
}

// c28wCall runs one host call; a panic carrying an error becomes `p-<class>`.
func c28wCall(f func() string) (out string) {
	defer func() {
		if r := recover(); r != nil {
			if e, ok := r.(error); ok {
				out = c28wErr(e)
			} else {
				out = "panic-nonerror"
			}
		}
	}()
	return f()
}

type c28wEnt struct {
	k   int
	ptr uint32
	blk uint32
}

func c28wPat(k int, off uint32) uint64 {
	return uint64(k+1)*0x9E3779B97F4A7C15 + uint64(off)*0xC2B2AE3D27D4EB4F + 0x0123456789ABCDEF
}

func c28wMarkOffs(blk uint32) []uint32 {
	l := []uint32{0, blk - 8}
	for j := 4; j < 26; j++ {
		if uint32(1)<<j < blk {
			l = append(l, uint32(1)<<j-8, uint32(1)<<j)
		}
	}
	return l
}

func c28wBlockOf(n uint32) uint32 {
	b := uint64(8)
	for b < uint64(n) {
		b *= 2
	}
	return uint32(b)
}

func c28wRun(line string) string {
	parts := strings.Split(line, "|")
	if len(parts) != 2 {
		return "bad-op"
	}
	hf := strings.Split(parts[0], ",")
	if len(hf) != 4 || hf[0] != "w" {
		return "bad-op"
	}
	var hv [3]uint32
	for i, s := range hf[1:] {
		v, err := strconv.ParseUint(s, 10, 64)
		if err != nil {
			return "bad-op"
		}
		hv[i] = uint32(v)
	}
	if hv[1] > hv[2] || hv[2] > 4096 { // keep real memories below 256 MiB
		return "bad-op"
	}
	bg := context.Background()
	c28wOnce.Do(func() {
		logger.Patch(log.SetLevel(log.Critical))
		c28wRt = wazero.NewRuntimeWithConfig(bg, wazero.NewRuntimeConfigInterpreter())
	})
	key := [2]uint32{hv[1], hv[2]}
	compiled, ok := c28wMods[key]
	if !ok {
		var err error
		compiled, err = c28wRt.CompileModule(bg, c28wWasm(hv[1], hv[2]))
		if err != nil {
			return "err-wasm " + err.Error()
		}
		c28wMods[key] = compiled
	}
	c28wSeq++
	mod, err := c28wRt.InstantiateModule(bg, compiled, wazero.NewModuleConfig().WithName(fmt.Sprintf("c28w-%d", c28wSeq)))
	if err != nil {
		return "err-wasm " + err.Error()
	}
	defer mod.Close(bg)
	var m api.Module = mod
	mem := mod.Memory()
	rtCtx := &runtime.Context{Allocator: allocator.NewFreeingBumpHeapAllocator(hv[0])}
	ctx := context.WithValue(bg, runtimeContextKey, rtCtx)

	var allocs []uint32
	var live []c28wEnt
	var outs []string
	verdict := func() string {
		var x, o, a, b, mm string
		for i, e := range live {
			for _, off := range c28wMarkOffs(e.blk) {
				v, ok := mem.ReadUint64Le(e.ptr + off)
				if !ok || v != c28wPat(e.k, off) {
					x = "X"
				}
			}
			for _, f := range live[i+1:] {
				if e.ptr < 8 || f.ptr < 8 ||
					uint64(e.ptr)-8 < uint64(f.ptr)+uint64(f.blk) && uint64(f.ptr)-8 < uint64(e.ptr)+uint64(e.blk) {
					o = "O"
				}
			}
			if e.ptr%8 != 0 {
				a = "A"
			}
			if uint64(e.ptr) < uint64(hv[0])+8 {
				b = "B"
			}
			if uint64(e.ptr)+uint64(e.blk) > uint64(mem.Size()) {
				mm = "M"
			}
		}
		if s := x + o + a + b + mm; s != "" {
			return s
		}
		return "+"
	}
	emit := func(res string) { outs = append(outs, res+","+verdict()) }
	num := func(s string) (uint64, bool) {
		v, err := strconv.ParseUint(s, 10, 64)
		return v, err == nil
	}
	addrOf := func(k string, off uint64) (uint32, bool) {
		if k == "-" {
			return uint32(off), true
		}
		i, ok := num(k)
		if !ok {
			return 0, false
		}
		var base uint32
		if i < uint64(len(allocs)) {
			base = allocs[i]
		}
		return base + uint32(off), true
	}

	for _, op := range strings.Split(parts[1], ";") {
		f := strings.Fields(op)
		if len(f) == 0 {
			continue
		}
		switch {
		case f[0] == "alloc" && len(f) == 2:
			n, ok := num(f[1])
			if !ok {
				emit("bad-op")
				continue
			}
			var p uint32
			res := c28wCall(func() string {
				p = ext_allocator_malloc_version_1(ctx, m, uint32(n))
				return ""
			})
			if res != "" {
				emit(res)
				continue
			}
			k := len(allocs)
			blk := c28wBlockOf(uint32(n))
			for _, off := range c28wMarkOffs(blk) {
				mem.WriteUint64Le(p+off, c28wPat(k, off))
			}
			allocs = append(allocs, p)
			live = append(live, c28wEnt{k, p, blk})
			emit(strconv.FormatUint(uint64(p), 10))
		case f[0] == "free" && len(f) == 3:
			off, ok1 := num(f[2])
			p, ok2 := addrOf(f[1], off)
			if !ok1 || !ok2 {
				emit("bad-op")
				continue
			}
			res := c28wCall(func() string {
				ext_allocator_free_version_1(ctx, m, p)
				return ""
			})
			if res != "" {
				emit(res)
				continue
			}
			for i := len(live) - 1; i >= 0; i-- {
				if live[i].ptr == p {
					live = append(live[:i:i], live[i+1:]...)
					break
				}
			}
			emit("ok")
		case f[0] == "poke" && len(f) == 4:
			off, ok1 := num(f[2])
			a, ok2 := addrOf(f[1], off)
			v, ok3 := num(f[3])
			if !ok1 || !ok2 || !ok3 {
				emit("bad-op")
				continue
			}
			if mem.WriteUint64Le(a, v) {
				emit("w1")
			} else {
				emit("w0")
			}
		case f[0] == "grow" && len(f) == 2:
			d, ok := num(f[1])
			if !ok {
				emit("bad-op")
				continue
			}
			if _, ok := mem.Grow(uint32(d)); ok {
				emit("g1")
			} else {
				emit("g0")
			}
		default:
			emit("bad-op")
		}
	}
	return strings.Join(outs, ";") + fmt.Sprintf("|pages=%d", mem.Size()/65536)
}

// ---- generator ----

func c28wSize(r *vhRng) uint32 {
	switch r.Intn(60) {
	case 0, 1:
		return 0
	case 2, 3:
		return uint32(r.Intn(9))
	case 4:
		return 33554432 + uint32(r.Pick(1, 8, 1<<20))
	}
	k := r.Intn(10)
	if r.Chance(1, 6) {
		k = 10 + r.Intn(13) // up to 32 MiB: real memory growth
	}
	s := uint32(8) << k
	switch r.Intn(5) {
	case 0:
		return s - 1
	case 1:
		return s + 1
	case 2:
		return s/2 + 1 + uint32(r.Intn(int(s/2)))
	}
	return s
}

func c28wGen(r *vhRng) string {
	pages := uint32(r.Pick(1, 1, 1, 2, 3, 17))
	maxp := uint32(r.Pick(int(pages), int(pages)+1, int(pages)+2, 16, 64, 64, 600, 1100))
	if maxp < pages {
		maxp = pages
	}
	var hb uint32
	switch r.Intn(5) {
	case 0:
		hb = uint32(r.Intn(4097))
	case 1:
		hb = pages*65536 - uint32(r.Pick(16, 24, 32, 40, 48, 64, 128, 1024)) - uint32(r.Intn(9))
	case 2:
		hb = maxp*65536 - uint32(r.Pick(16, 24, 32, 40, 48, 64, 128, 1024)) - uint32(r.Intn(9))
	default:
		hb = uint32(r.Intn(200))
	}
	nops := 1 + r.Intn(30)
	dirty := r.Chance(2, 5)
	dirtyFrom := r.Intn(nops)
	var ops []string
	var sizes []uint32
	var liveIdx, freedIdx []int
	few := r.Chance(1, 2)
	classA, classB := r.Intn(12), r.Intn(5)
	for i := 0; i < nops; i++ {
		c := r.Intn(100)
		bad := dirty && i >= dirtyFrom && r.Chance(1, 5)
		nAlloc := len(sizes)
		switch {
		case bad:
			switch r.Intn(7) {
			case 0:
				if len(freedIdx) > 0 {
					ops = append(ops, fmt.Sprintf("free %d 0", freedIdx[r.Intn(len(freedIdx))]))
				} else {
					ops = append(ops, "free - 0")
				}
			case 1:
				ops = append(ops, fmt.Sprintf("free %d %d", r.Intn(nAlloc+1), r.Pick(8, 16, 4, 1, 4294967288, 24)))
			case 2:
				ops = append(ops, fmt.Sprintf("free - %d", r.Pick(0, 7, 8, 16, 4096, 65536, 65544, 4294967295, int(pages*65536), int(pages*65536+8))))
			case 3:
				k := r.Intn(nAlloc + 1)
				o := r.Pick(0, 0, 1, 2, 22, 23, 4294967295)
				ops = append(ops, fmt.Sprintf("poke %d 8 %d", k, uint64(1)<<32|uint64(uint32(o))), fmt.Sprintf("free %d 16", k))
			case 4:
				k := r.Intn(nAlloc + 1)
				v := []uint64{0, 0xffffffff, 1 << 32, 1<<32 | 5, 1<<32 | 23, 8, 0xffffffffffffffff, r.U64()}[r.Intn(8)]
				ops = append(ops, fmt.Sprintf("poke %d 4294967288 %d", k, v))
			case 5:
				k := r.Intn(nAlloc + 1)
				end := int(pages * 65536)
				tgt := r.Pick(0, 8, 16, end-8, end-16, end-24, end, 4294967280)
				ops = append(ops, fmt.Sprintf("free %d 0", k), fmt.Sprintf("poke %d 4294967288 %d", k, uint32(tgt)))
				if k < len(sizes) {
					ops = append(ops, fmt.Sprintf("alloc %d", sizes[k]), fmt.Sprintf("alloc %d", sizes[k]))
				}
			case 6:
				ops = append(ops, fmt.Sprintf("poke %d %d %d", r.Intn(nAlloc+1), r.Pick(0, 8, 16), r.U64()))
			}
		case c < 55 || len(liveIdx) == 0 && c < 90:
			var n uint32
			if few && r.Chance(3, 4) {
				k := classA
				if r.Bool() {
					k = classB
				}
				n = uint32(8)<<k - uint32(r.Intn(3))
			} else {
				n = c28wSize(r)
			}
			ops = append(ops, fmt.Sprintf("alloc %d", n))
			if n <= 33554432 {
				liveIdx = append(liveIdx, len(sizes))
				sizes = append(sizes, n)
			}
		case c < 92 && len(liveIdx) > 0:
			j := r.Intn(len(liveIdx))
			if r.Bool() {
				j = len(liveIdx) - 1
			}
			ops = append(ops, fmt.Sprintf("free %d 0", liveIdx[j]))
			freedIdx = append(freedIdx, liveIdx[j])
			liveIdx = append(liveIdx[:j], liveIdx[j+1:]...)
		case c < 97:
			ops = append(ops, fmt.Sprintf("grow %d", r.Pick(0, 1, 1, 2, 16, 2147483648, 4294967295)))
		default:
			ops = append(ops, fmt.Sprintf("poke - %d %d", r.Intn(int(hb)+1), r.U64()))
		}
	}
	return fmt.Sprintf("w,%d,%d,%d|%s", hb, pages, maxp, strings.Join(ops, ";"))
}

func TestVerifC28W(t *testing.T) { vhMain(t, c28wGen, c28wRun) }
