//go:build verif

package allocator

import (
	"encoding/binary"
	"errors"
	"fmt"
	"strconv"
	"strings"
	"testing"
)

// c28Mem is a sparse growable linear memory implementing runtime.Memory: `pages` pages of 64 KiB,
// Grow fails beyond maxPages, accesses outside [0, Size()) fail (as wazero does).
type c28Mem struct {
	pages    uint32
	maxPages uint32
	data     map[uint32]byte
}

func (m *c28Mem) Size() uint64 { return uint64(m.pages) * PageSize }

func (m *c28Mem) Grow(d uint32) (uint32, bool) {
	if uint64(m.pages)+uint64(d) > uint64(m.maxPages) {
		return 0, false
	}
	prev := m.pages
	m.pages += d
	return prev, true
}

func (m *c28Mem) in(off uint32, n uint64) bool { return uint64(off)+n <= m.Size() }

//nolint:govet
func (m *c28Mem) ReadByte(off uint32) (byte, bool) {
	if !m.in(off, 1) {
		return 0, false
	}
	return m.data[off], true
}

func (m *c28Mem) ReadUint64Le(off uint32) (uint64, bool) {
	if !m.in(off, 8) {
		return 0, false
	}
	var b [8]byte
	for i := uint32(0); i < 8; i++ {
		b[i] = m.data[off+i]
	}
	return binary.LittleEndian.Uint64(b[:]), true
}

func (m *c28Mem) WriteUint64Le(off uint32, v uint64) bool {
	if !m.in(off, 8) {
		return false
	}
	var b [8]byte
	binary.LittleEndian.PutUint64(b[:], v)
	for i := uint32(0); i < 8; i++ {
		m.data[off+i] = b[i]
	}
	return true
}

func (m *c28Mem) Read(off uint32, n uint64) ([]byte, bool) {
	if !m.in(off, n) {
		return nil, false
	}
	out := make([]byte, n)
	for i := range out {
		out[i] = m.data[off+uint32(i)]
	}
	return out, true
}

//nolint:govet
func (m *c28Mem) WriteByte(off uint32, v byte) bool {
	if !m.in(off, 1) {
		return false
	}
	m.data[off] = v
	return true
}

func (m *c28Mem) Write(off uint32, v []byte) bool {
	if !m.in(off, uint64(len(v))) {
		return false
	}
	for i, b := range v {
		m.data[off+uint32(i)] = b
	}
	return true
}

func c28Err(err error) string {
	switch {
	case errors.Is(err, ErrAllocatorPoisoned):
		return "e-poisoned"
	case errors.Is(err, ErrMemoryShrunk):
		return "e-shrunk"
	case errors.Is(err, ErrRequestedAllocationTooLarge):
		return "e-toolarge"
	case errors.Is(err, ErrInvalidHeaderPointerDetected):
		return "e-badhead"
	case errors.Is(err, ErrCannotReadHeader):
		return "e-cannotread"
	case errors.Is(err, ErrInvalidOrder):
		return "e-invalidorder"
	case errors.Is(err, ErrAllocatorOutOfSpace):
		return "e-outofspace"
	case errors.Is(err, ErrCannotGrowLinearMemory):
		return "e-cannotgrow"
	case errors.Is(err, ErrCannotWriteHeader):
		return "e-cannotwrite"
	case errors.Is(err, ErrInvalidPointerForDealocation):
		return "e-badptr"
	case errors.Is(err, ErrEmptyHeader):
		return "e-emptyheader"
	case strings.Contains(err.Error(), "points to a occupied header"):
		return "e-headoccupied"
	case strings.Contains(err.Error(), "underflow"):
		return "e-underflow"
	}
	return "e-other"
}

type c28Ent struct {
	k   int
	ptr uint32
	blk uint32
}

func c28Pat(k int, off uint32) uint64 {
	return uint64(k+1)*0x9E3779B97F4A7C15 + uint64(off)*0xC2B2AE3D27D4EB4F + 0x0123456789ABCDEF
}

// c28MarkOffs: offsets (multiples of 8) inside a block of blk bytes at which the guest keeps a marker word.
func c28MarkOffs(blk uint32) []uint32 {
	l := []uint32{0, blk - 8}
	for j := 4; j < 26; j++ {
		if uint32(1)<<j < blk {
			l = append(l, uint32(1)<<j-8, uint32(1)<<j)
		}
	}
	return l
}

func c28BlockOf(n uint32) uint32 {
	b := uint64(8)
	for b < uint64(n) {
		b *= 2
	}
	return uint32(b)
}

// c28NewMem is replaced by the wazero-backed variant in the second run.
var c28NewMem = func(pages, maxPages uint32) c28Memory {
	return &c28Mem{pages: pages, maxPages: maxPages, data: map[uint32]byte{}}
}

type c28Memory interface {
	Size() uint64
	Grow(uint32) (uint32, bool)
	ReadByte(uint32) (byte, bool)
	ReadUint64Le(uint32) (uint64, bool)
	WriteUint64Le(uint32, uint64) bool
	Read(uint32, uint64) ([]byte, bool)
	WriteByte(uint32, byte) bool
	Write(uint32, []byte) bool
}

func c28Run(line string) string {
	parts := strings.Split(line, "|")
	if len(parts) != 2 {
		return "bad-op"
	}
	hf := strings.Split(parts[0], ",")
	if len(hf) != 3 {
		return "bad-op"
	}
	var hv [3]uint32
	for i, s := range hf {
		v, err := strconv.ParseUint(s, 10, 64)
		if err != nil {
			return "bad-op"
		}
		hv[i] = uint32(v)
	}
	mem := c28NewMem(hv[1], hv[2])
	heap := NewFreeingBumpHeapAllocator(hv[0])
	var allocs []uint32
	var live []c28Ent
	var outs []string

	// verdict: "+" when every marker of every live allocation is intact and the live blocks are pairwise
	// disjoint, 8-aligned, not below the heap base and inside the memory; else the failing checks.
	verdict := func() string {
		var x, o, a, b, m string
		for i, e := range live {
			for _, off := range c28MarkOffs(e.blk) {
				v, ok := mem.ReadUint64Le(e.ptr + off)
				if !ok || v != c28Pat(e.k, off) {
					x = "X"
				}
			}
			for _, f := range live[i+1:] {
				if e.ptr < 8 || f.ptr < 8 ||
					uint64(e.ptr)-8 < uint64(f.ptr)+uint64(f.blk) && uint64(f.ptr)-8 < uint64(e.ptr)+uint64(e.blk) {
					o = "O"
				}
			}
			if e.ptr%8 != 0 {
				a = "A"
			}
			if uint64(e.ptr) < uint64(hv[0])+8 {
				b = "B"
			}
			if uint64(e.ptr)+uint64(e.blk) > mem.Size() {
				m = "M"
			}
		}
		if s := x + o + a + b + m; s != "" {
			return s
		}
		return "+"
	}
	emit := func(res string) { outs = append(outs, res+","+verdict()) }
	num := func(s string) (uint64, bool) {
		v, err := strconv.ParseUint(s, 10, 64)
		return v, err == nil
	}
	addrOf := func(k string, off uint64) (uint32, bool) {
		if k == "-" {
			return uint32(off), true
		}
		i, ok := num(k)
		if !ok {
			return 0, false
		}
		var base uint32
		if i < uint64(len(allocs)) {
			base = allocs[i]
		}
		return base + uint32(off), true
	}

	for _, op := range strings.Split(parts[1], ";") {
		f := strings.Fields(op)
		if len(f) == 0 {
			continue
		}
		switch {
		case f[0] == "alloc" && len(f) == 2:
			n, ok := num(f[1])
			if !ok {
				emit("bad-op")
				continue
			}
			if n > 0xffffffff {
				n &= 0xffffffff
			}
			p, err := heap.Allocate(mem, uint32(n))
			if err != nil {
				emit(c28Err(err))
				continue
			}
			k := len(allocs)
			blk := c28BlockOf(uint32(n))
			for _, off := range c28MarkOffs(blk) {
				mem.WriteUint64Le(p+off, c28Pat(k, off))
			}
			allocs = append(allocs, p)
			live = append(live, c28Ent{k, p, blk})
			emit(strconv.FormatUint(uint64(p), 10))
		case f[0] == "free" && len(f) == 3:
			off, ok1 := num(f[2])
			p, ok2 := addrOf(f[1], off)
			if !ok1 || !ok2 {
				emit("bad-op")
				continue
			}
			err := heap.Deallocate(mem, p)
			if err != nil {
				emit(c28Err(err))
				continue
			}
			for i := len(live) - 1; i >= 0; i-- {
				if live[i].ptr == p {
					live = append(live[:i:i], live[i+1:]...)
					break
				}
			}
			emit("ok")
		case f[0] == "poke" && len(f) == 4:
			off, ok1 := num(f[2])
			a, ok2 := addrOf(f[1], off)
			v, ok3 := num(f[3])
			if !ok1 || !ok2 || !ok3 {
				emit("bad-op")
				continue
			}
			if mem.WriteUint64Le(a, v) {
				emit("w1")
			} else {
				emit("w0")
			}
		case f[0] == "grow" && len(f) == 2:
			d, ok := num(f[1])
			if !ok {
				emit("bad-op")
				continue
			}
			if _, ok := mem.Grow(uint32(d)); ok {
				emit("g1")
			} else {
				emit("g0")
			}
		case f[0] == "setpages" && len(f) == 2:
			n, ok := num(f[1])
			sm, isFake := mem.(*c28Mem)
			if !ok || !isFake {
				emit("bad-op")
				continue
			}
			sm.pages = uint32(n)
			emit("s")
		case f[0] == "const" && len(f) == 1:
			emit(fmt.Sprintf("%d %d %d %d %d %d %d", NumOrders, MinPossibleAllocations, MaxPossibleAllocations,
				PageSize, MaxWasmPages, uint32(NilMarker), HeaderSize))
		default:
			emit("bad-op")
		}
	}

	var hs []string
	for o, l := range heap.freeLists.heads {
		if p, ok := l.(Ptr); ok {
			hs = append(hs, fmt.Sprintf("%d:%d", o, p.headerPtr))
		}
	}
	return strings.Join(outs, ";") + fmt.Sprintf("|base=%d bumper=%d poisoned=%v last=%d ba=%d peak=%d sum=%s asu=%d pages=%d heads=%s",
		heap.originalHeapBase, heap.bumper, heap.poisoned, heap.lastObservedMemorySize, heap.stats.bytesAllocated,
		heap.stats.bytesAllocatedPeak, heap.stats.bytesAllocatedSum.String(), heap.stats.addressSpaceUsed,
		mem.Size()/PageSize, strings.Join(hs, ","))
}

// ---- generator ----

func c28Size(r *vhRng) uint32 {
	switch r.Intn(80) {
	case 0, 1, 2:
		return 0
	case 3, 4, 5, 6:
		return uint32(r.Intn(9))
	case 7:
		return MaxPossibleAllocations + uint32(r.Pick(1, 2, 8, 1<<20, 1<<25))
	case 8:
		return uint32(r.U64()) // random 32-bit, mostly too large
	}
	// size class k: 2^(k+3); small classes are more likely
	k := r.Intn(23)
	if r.Chance(2, 3) {
		k = r.Intn(8)
	}
	s := uint32(8) << k
	switch r.Intn(5) {
	case 0:
		return s - 1
	case 1:
		return s + 1
	case 2:
		return s/2 + 1 + uint32(r.Intn(int(s/2)))
	}
	return s
}

func c28Header(r *vhRng) (hb, pages, maxp uint32) {
	switch r.Intn(10) {
	case 0, 1, 2, 3:
		hb = uint32(r.Intn(4097))
	case 4:
		hb = uint32(r.Pick(0, 1, 7, 8, 9, 15, 16, 4095, 4096))
	case 5:
		hb = uint32(65536*r.Pick(1, 2, 16)) - uint32(r.Intn(64))
	case 6:
		// just below 4 GiB
		hb = uint32(0x100000000 - uint64(r.Pick(1, 8, 16, 24, 32, 40, 48, 64, 128, 1024, 65536, 65536+16, 1<<25+8, 1<<25+16, 1<<26)) - uint64(r.Intn(9)))
	default:
		hb = uint32(r.Intn(200))
	}
	pages = uint32(r.Pick(0, 1, 1, 1, 2, 3, 17, 512, 513, 1024, 65535, 65536))
	switch r.Intn(12) {
	case 0:
		maxp = pages
	case 1, 2:
		maxp = pages + uint32(r.Pick(1, 2, 3, 16, 512, 513))
	case 3, 4:
		maxp = uint32(r.Pick(4, 16, 1024, 1025, 2048))
	case 5, 6:
		maxp = 70000
	default:
		maxp = 65536
	}
	if maxp < pages {
		maxp = pages
	}
	return hb, pages, maxp
}

// c28ExactFill: a clean sequence whose last allocation ends exactly at, 8 before or 8 after the end of the
// initial memory (or of 4 GiB), so that the grow / out-of-space boundary of bump is hit from both sides.
func c28ExactFill(r *vhRng) string {
	pages := uint32(r.Pick(1, 1, 2, 3, 16, 65536))
	maxp := uint32(r.Pick(int(pages), int(pages)+1, 65536, 65536))
	if maxp < pages {
		maxp = pages
	}
	n := 1 + r.Intn(4)
	var ops []string
	total := uint64(0)
	for i := 0; i < n; i++ {
		k := r.Intn(10)
		if r.Chance(1, 8) {
			k = r.Intn(23)
		}
		sz := uint32(8) << k
		total += uint64(sz) + 8
		ops = append(ops, fmt.Sprintf("alloc %d", sz-uint32(r.Intn(2))))
	}
	end := uint64(pages) * PageSize
	delta := uint64(r.Pick(0, 0, 8, 16)) // 0: ends exactly at the end; 8: 8 bytes short; 16: overshoots by 8
	if total+16 > end {
		return fmt.Sprintf("0,%d,%d|%s", pages, maxp, strings.Join(ops, ";"))
	}
	var hb uint64
	if delta == 0 {
		hb = end - total
	} else if delta == 8 {
		hb = end - total - 8
	} else {
		hb = end - total + 8
	}
	hb -= uint64(r.Intn(2)) * uint64(r.Intn(8)) // sometimes unaligned (rounds up to the same base)
	ops = append(ops, fmt.Sprintf("alloc %d", 8<<r.Intn(3)), "free 0 0", fmt.Sprintf("alloc %d", 8<<r.Intn(3)))
	return fmt.Sprintf("%d,%d,%d|%s", uint32(hb), pages, maxp, strings.Join(ops, ";"))
}

// c28Gen draws a sequence. `nAlloc` counts alloc ops issued so far (an upper bound of the successful ones), so that
// `free k` mostly refers to an existing allocation. 60% of the sequences are clean (valid frees only).
func c28Gen(r *vhRng) string {
	if r.Chance(1, 10) {
		return c28ExactFill(r)
	}
	hb0, pages0, maxp0 := c28Header(r)
	hdr := fmt.Sprintf("%d,%d,%d", hb0, pages0, maxp0)
	nops := 1 + r.Intn(40)
	if r.Chance(1, 5) {
		nops = 30 + r.Intn(31)
	}
	dirty := r.Chance(2, 5)
	// position after which invalid operations may appear
	dirtyFrom := r.Intn(nops)
	var ops []string
	nAlloc := 0
	var liveIdx []int // indices believed live
	var sizes []uint32
	var freedIdx []int
	fewClasses := r.Chance(1, 2)
	classA, classB := r.Intn(23), r.Intn(6)
	for i := 0; i < nops; i++ {
		c := r.Intn(100)
		bad := dirty && i >= dirtyFrom && r.Chance(1, 6)
		switch {
		case bad:
			switch r.Intn(9) {
			case 0: // double free
				if len(freedIdx) > 0 {
					ops = append(ops, fmt.Sprintf("free %d 0", freedIdx[r.Intn(len(freedIdx))]))
					continue
				}
				ops = append(ops, "free - 0")
			case 1: // pointer + delta
				ops = append(ops, fmt.Sprintf("free %d %d", r.Intn(nAlloc+1), r.Pick(8, 16, 4, 1, 4294967288, 24, 32)))
			case 2: // heap base / raw
				ops = append(ops, fmt.Sprintf("free - %d", r.Pick(0, 7, 8, 16, 24, 4096, 65536, 65544, 4294967295, 4294967288)))
			case 3: // random raw
				ops = append(ops, fmt.Sprintf("free - %d", uint32(r.U64())))
			case 4: // forge an occupied header inside a live payload, then free behind it
				k := r.Intn(nAlloc + 1)
				o := r.Pick(0, 0, 1, 2, 3, 22, 23, 4294967295)
				ops = append(ops, fmt.Sprintf("poke %d %d %d", k, 8, uint64(1)<<32|uint64(uint32(o))))
				ops = append(ops, fmt.Sprintf("free %d 16", k))
			case 5: // corrupt the header of an allocation (live or free)
				k := r.Intn(nAlloc + 1)
				v := []uint64{0, 0xffffffff, 1 << 32, 1<<32 | 5, 1<<32 | 23, 1<<33 | 1, 8, 4294967288, 0xffffffffffffffff, 1<<32 | 22, r.U64()}[r.Intn(11)]
				ops = append(ops, fmt.Sprintf("poke %d 4294967288 %d", k, v))
			case 6: // free-list link corruption: free, then rewrite its header to point at something else, then pop twice
				k := r.Intn(nAlloc + 1)
				end := int(uint32(uint64(pages0) * PageSize))
				tgt := r.Pick(0, 8, 16, end-8, end-16, end-24, end-40, end, 4294967280)
				ops = append(ops, fmt.Sprintf("free %d 0", k), fmt.Sprintf("poke %d 4294967288 %d", k, uint32(tgt)))
				if k < len(sizes) {
					ops = append(ops, fmt.Sprintf("alloc %d", sizes[k]), fmt.Sprintf("alloc %d", sizes[k]))
				}
			case 7:
				ops = append(ops, fmt.Sprintf("setpages %d", r.Pick(0, 1, 2, 16, 65536)))
			case 8: // clobber a payload marker
				ops = append(ops, fmt.Sprintf("poke %d %d %d", r.Intn(nAlloc+1), r.Pick(0, 8, 16), r.U64()))
			}
		case c < 55 || len(liveIdx) == 0 && c < 90:
			var n uint32
			if fewClasses && r.Chance(3, 4) {
				k := classA
				if r.Bool() {
					k = classB
				}
				n = uint32(8)<<k - uint32(r.Intn(3))
			} else {
				n = c28Size(r)
			}
			ops = append(ops, fmt.Sprintf("alloc %d", n))
			if n <= MaxPossibleAllocations {
				liveIdx = append(liveIdx, nAlloc)
				sizes = append(sizes, n)
				nAlloc++
			}
		case c < 92 && len(liveIdx) > 0:
			j := r.Intn(len(liveIdx))
			if r.Chance(1, 2) {
				j = len(liveIdx) - 1
			}
			ops = append(ops, fmt.Sprintf("free %d 0", liveIdx[j]))
			freedIdx = append(freedIdx, liveIdx[j])
			liveIdx = append(liveIdx[:j], liveIdx[j+1:]...)
		case c < 96:
			ops = append(ops, fmt.Sprintf("grow %d", r.Pick(0, 1, 1, 2, 16, 511, 512, 65535)))
		default:
			// guest writes inside one of its live payloads at a non-marker offset (legal) or below the heap
			big := -1
			if len(liveIdx) > 0 {
				if k := liveIdx[r.Intn(len(liveIdx))]; sizes[k] > 32 {
					big = k
				}
			}
			if big >= 0 && r.Bool() {
				ops = append(ops, fmt.Sprintf("poke %d 40 %d", big, r.U64()))
			} else {
				ops = append(ops, fmt.Sprintf("poke - %d %d", r.Intn(4096), r.U64()))
			}
		}
	}
	if r.Chance(1, 50) {
		ops = append(ops, "const")
	}
	return hdr + "|" + strings.Join(ops, ";")
}

func TestVerifC28(t *testing.T) { vhMain(t, c28Gen, c28Run) }
