//go:build verif

package proof

import (
	"encoding/hex"
	"errors"
	"fmt"
	"strconv"
	"strings"
	"testing"

	"github.com/ChainSafe/gossamer/internal/database"
	"github.com/ChainSafe/gossamer/lib/common"
	"github.com/ChainSafe/gossamer/pkg/scale"
	"github.com/ChainSafe/gossamer/pkg/trie"
	"github.com/ChainSafe/gossamer/pkg/trie/inmemory"
)

// One case = `<ver><mode>|op;op;...` (ver 0|1; mode = behaviour of short reads of byte-slice data
// inside pkg/scale: z zero-fill, s strict, a either).  Ops (hex tokens, `-` = empty):
//   put k v      Put on the current trie                                      -> `-`
//   gen ks       P := Generate(root(trie), ks, db); R := root(trie)            -> ok:<n>:<digest> | notfound | err
//   genx ks      P := P ++ Generate(root(trie), ks, db)   (R unchanged)        -> same
//   drop i | dup i j | flip i j x | raw h | rawf h | rot n                     -> `-`   (edits of P)
//   rootx i      R := blake2b(P[i])                                            -> `-`
//   ver k v      Verify(P, R, k, v)                                            -> ok | notfound | mismatch | emptyproof | noroot | decode | childempty | err
// ks = comma separated keys, `_` = none.  Indices are modulo len(P).

// c05DB is the node database of a case: a map behind the interfaces WriteDirty and Load need.
type c05DB struct{ m map[string][]byte }

type c05Batch struct {
	db  *c05DB
	ops [][2][]byte
}

func (d *c05DB) Get(key []byte) ([]byte, error) {
	v, ok := d.m[string(key)]
	if !ok {
		return nil, errors.New("c05: key not found in database")
	}
	return v, nil
}
func (d *c05DB) NewBatch() database.Batch { return &c05Batch{db: d} }
func (b *c05Batch) Put(k, v []byte) error {
	b.ops = append(b.ops, [2][]byte{append([]byte{}, k...), append([]byte{}, v...)})
	return nil
}
func (b *c05Batch) Del(k []byte) error { b.ops = append(b.ops, [2][]byte{append([]byte{}, k...), nil}); return nil }
func (b *c05Batch) Flush() error {
	for _, o := range b.ops {
		if o[1] == nil {
			delete(b.db.m, string(o[0]))
		} else {
			b.db.m[string(o[0])] = o[1]
		}
	}
	b.ops = nil
	return nil
}
func (b *c05Batch) Close() error   { return nil }
func (b *c05Batch) ValueSize() int { return len(b.ops) }
func (b *c05Batch) Reset()         { b.ops = nil }

func c05ScaleMode() string {
	var b []byte
	if err := scale.Unmarshal([]byte{0x08, 0x01}, &b); err != nil {
		return "s"
	}
	return "z"
}

func c05Keys(s string) ([][]byte, bool) {
	if s == "_" {
		return nil, true
	}
	var ks [][]byte
	for _, p := range strings.Split(s, ",") {
		if p != "-" {
			if _, err := hex.DecodeString(p); err != nil {
				return nil, false
			}
		}
		ks = append(ks, vhUnhex(p))
	}
	return ks, true
}

func c05Digest(p [][]byte) string {
	var buf []byte
	for _, e := range p {
		n := len(e)
		buf = append(buf, byte(n), byte(n>>8), byte(n>>16), byte(n>>24))
		buf = append(buf, e...)
	}
	h := common.MustBlake2bHash(buf)
	return hex.EncodeToString(h[:4])
}

type c05State struct {
	ver   trie.TrieLayout
	tr    *inmemory.InMemoryTrie
	db    *c05DB
	proof [][]byte
	root  []byte
}

func (s *c05State) generate(keys [][]byte) (out string, p [][]byte, root []byte) {
	h, err := s.ver.Hash(s.tr)
	if err != nil {
		return "err", nil, nil
	}
	if err := s.tr.WriteDirty(s.db); err != nil {
		return "err", nil, h[:]
	}
	p, err = Generate(h[:], keys, s.db)
	switch {
	case err == nil:
		return fmt.Sprintf("ok:%d:%s", len(p), c05Digest(p)), p, h[:]
	case errors.Is(err, ErrKeyNotFound):
		return "notfound", nil, h[:]
	default:
		return "err", nil, h[:]
	}
}

func c05Verify(p [][]byte, root, k, v []byte) string {
	err := Verify(p, root, k, v)
	switch {
	case err == nil:
		return "ok"
	case errors.Is(err, ErrKeyNotFoundInProofTrie):
		return "notfound"
	case errors.Is(err, ErrValueMismatchProofTrie):
		return "mismatch"
	case errors.Is(err, ErrEmptyProof):
		return "emptyproof"
	case errors.Is(err, ErrRootNodeNotFound):
		return "noroot"
	case errors.Is(err, ErrChildNodeEmpty):
		return "childempty"
	case strings.Contains(err.Error(), "decoding"):
		return "decode"
	default:
		return "err"
	}
}

func c05Op(s *c05State, op string) string {
	f := strings.Fields(op)
	if len(f) == 0 {
		return "bad-op"
	}
	n := len(s.proof)
	atoi := func(x string) (int, bool) {
		v, err := strconv.ParseUint(x, 10, 31)
		return int(v), err == nil
	}
	switch {
	case f[0] == "put" && len(f) == 3:
		if err := s.tr.Put(vhUnhex(f[1]), vhUnhex(f[2])); err != nil {
			return "err"
		}
		return "-"
	case (f[0] == "gen" || f[0] == "genx") && len(f) == 2:
		keys, ok := c05Keys(f[1])
		if !ok {
			return "bad-op"
		}
		out, p, root := s.generate(keys)
		if f[0] == "gen" {
			s.proof, s.root = p, root
		} else {
			s.proof = append(append([][]byte{}, s.proof...), p...)
		}
		return out
	case f[0] == "drop" && len(f) == 2:
		i, ok := atoi(f[1])
		if !ok {
			return "bad-op"
		}
		if n > 0 {
			i %= n
			s.proof = append(append([][]byte{}, s.proof[:i]...), s.proof[i+1:]...)
		}
		return "-"
	case f[0] == "dup" && len(f) == 3:
		i, ok1 := atoi(f[1])
		j, ok2 := atoi(f[2])
		if !ok1 || !ok2 {
			return "bad-op"
		}
		if n > 0 {
			e := s.proof[i%n]
			j %= n + 1
			np := append([][]byte{}, s.proof[:j]...)
			np = append(np, e)
			s.proof = append(np, s.proof[j:]...)
		}
		return "-"
	case f[0] == "flip" && len(f) == 4:
		i, ok1 := atoi(f[1])
		j, ok2 := atoi(f[2])
		x := vhUnhex(f[3])
		if !ok1 || !ok2 || len(x) != 1 {
			return "bad-op"
		}
		if n > 0 {
			i %= n
			e := append([]byte{}, s.proof[i]...)
			if len(e) > 0 {
				e[j%len(e)] ^= x[0]
			}
			np := append([][]byte{}, s.proof...)
			np[i] = e
			s.proof = np
		}
		return "-"
	case f[0] == "raw" && len(f) == 2:
		s.proof = append(append([][]byte{}, s.proof...), vhUnhex(f[1]))
		return "-"
	case f[0] == "rawf" && len(f) == 2:
		s.proof = append([][]byte{vhUnhex(f[1])}, s.proof...)
		return "-"
	case f[0] == "rot" && len(f) == 2:
		i, ok := atoi(f[1])
		if !ok {
			return "bad-op"
		}
		if n > 0 {
			i %= n
			s.proof = append(append([][]byte{}, s.proof[i:]...), s.proof[:i]...)
		}
		return "-"
	case f[0] == "rootx" && len(f) == 2:
		i, ok := atoi(f[1])
		if !ok {
			return "bad-op"
		}
		if n > 0 {
			h := common.MustBlake2bHash(s.proof[i%n])
			s.root = h[:]
		}
		return "-"
	case f[0] == "ver" && len(f) == 3:
		// Verify may keep references into the proof slices: give it its own copies
		p := make([][]byte, len(s.proof))
		for i := range s.proof {
			p[i] = append([]byte{}, s.proof[i]...)
		}
		root := append([]byte{}, s.root...)
		return c05Verify(p, root, vhUnhex(f[1]), vhUnhex(f[2]))
	}
	return "bad-op"
}

func c05Run(line string) string {
	i := strings.IndexByte(line, '|')
	if i != 2 {
		return "bad-op"
	}
	s := &c05State{tr: inmemory.NewEmptyTrie(), db: &c05DB{m: map[string][]byte{}}}
	switch line[0] {
	case '0':
		s.ver = trie.V0
	case '1':
		s.ver = trie.V1
	default:
		return "bad-op"
	}
	s.tr.SetVersion(s.ver)
	if m := line[1:2]; m != "a" && m != c05ScaleMode() {
		return "scale-mode-mismatch"
	}
	ops := strings.Split(line[i+1:], ";")
	outs := make([]string, len(ops))
	for j, op := range ops {
		op := op
		outs[j] = vhCatch(func() string { return c05Op(s, op) })
		if outs[j] == "panic" || strings.HasPrefix(outs[j], "panic ") {
			outs = outs[:j+1]
			break
		}
	}
	return strings.Join(outs, ";")
}
