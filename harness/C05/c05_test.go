//go:build verif

package proof

import (
	"encoding/hex"
	"errors"
	"fmt"
	"strconv"
	"strings"
	"testing"

	"github.com/ChainSafe/gossamer/internal/database"
	"github.com/ChainSafe/gossamer/lib/common"
	"github.com/ChainSafe/gossamer/pkg/scale"
	"github.com/ChainSafe/gossamer/pkg/trie"
	"github.com/ChainSafe/gossamer/pkg/trie/inmemory"
)

// One case = `<ver><mode>|op;op;...` (ver 0|1; mode = behaviour of short reads of byte-slice data
// inside pkg/scale: z zero-fill, s strict, a either).  Ops (hex tokens, `-` = empty):
//   put k v      Put on the current trie                                      -> `-`
//   gen ks       P := Generate(root(trie), ks, db); R := root(trie)            -> ok:<n>:<digest> | notfound | err
//   genx ks      P := P ++ Generate(root(trie), ks, db)   (R unchanged)        -> same
//   drop i | dup i j | flip i j x | raw h | rawf h | rot n                     -> `-`   (edits of P)
//   rootx i      R := blake2b(P[i])                                            -> `-`
//   ver k v      Verify(P, R, k, v)                                            -> ok | notfound | mismatch | emptyproof | noroot | decode | childempty | err
// ks = comma separated keys, `_` = none.  Indices are modulo len(P).

// c05DB is the node database of a case: a map behind the interfaces WriteDirty and Load need.
type c05DB struct{ m map[string][]byte }

type c05Batch struct {
	db  *c05DB
	ops [][2][]byte
}

func (d *c05DB) Get(key []byte) ([]byte, error) {
	v, ok := d.m[string(key)]
	if !ok {
		return nil, errors.New("c05: key not found in database")
	}
	return v, nil
}
func (d *c05DB) NewBatch() database.Batch { return &c05Batch{db: d} }
func (b *c05Batch) Put(k, v []byte) error {
	b.ops = append(b.ops, [2][]byte{append([]byte{}, k...), append([]byte{}, v...)})
	return nil
}
func (b *c05Batch) Del(k []byte) error {
	b.ops = append(b.ops, [2][]byte{append([]byte{}, k...), nil})
	return nil
}
func (b *c05Batch) Flush() error {
	for _, o := range b.ops {
		if o[1] == nil {
			delete(b.db.m, string(o[0]))
		} else {
			b.db.m[string(o[0])] = o[1]
		}
	}
	b.ops = nil
	return nil
}
func (b *c05Batch) Close() error   { return nil }
func (b *c05Batch) ValueSize() int { return len(b.ops) }
func (b *c05Batch) Reset()         { b.ops = nil }

func c05ScaleMode() string {
	var b []byte
	if err := scale.Unmarshal([]byte{0x08, 0x01}, &b); err != nil {
		return "s"
	}
	return "z"
}

func c05Keys(s string) ([][]byte, bool) {
	if s == "_" {
		return nil, true
	}
	var ks [][]byte
	for _, p := range strings.Split(s, ",") {
		if p != "-" {
			if _, err := hex.DecodeString(p); err != nil {
				return nil, false
			}
		}
		ks = append(ks, vhUnhex(p))
	}
	return ks, true
}

func c05Digest(p [][]byte) string {
	var buf []byte
	for _, e := range p {
		n := len(e)
		buf = append(buf, byte(n), byte(n>>8), byte(n>>16), byte(n>>24))
		buf = append(buf, e...)
	}
	h := common.MustBlake2bHash(buf)
	return hex.EncodeToString(h[:4])
}

type c05State struct {
	ver   trie.TrieLayout
	tr    *inmemory.InMemoryTrie
	db    *c05DB
	proof [][]byte
	root  []byte
}

func (s *c05State) generate(keys [][]byte) (out string, p [][]byte, root []byte) {
	h, err := s.ver.Hash(s.tr)
	if err != nil {
		return "err", nil, nil
	}
	if err := s.tr.WriteDirty(s.db); err != nil {
		return "err", nil, h[:]
	}
	p, err = Generate(h[:], keys, s.db)
	switch {
	case err == nil:
		return fmt.Sprintf("ok:%d:%s", len(p), c05Digest(p)), p, h[:]
	case errors.Is(err, ErrKeyNotFound):
		return "notfound", nil, h[:]
	default:
		return "err", nil, h[:]
	}
}

func c05Verify(p [][]byte, root, k, v []byte) string {
	err := Verify(p, root, k, v)
	switch {
	case err == nil:
		return "ok"
	case errors.Is(err, ErrKeyNotFoundInProofTrie):
		return "notfound"
	case errors.Is(err, ErrValueMismatchProofTrie):
		return "mismatch"
	case errors.Is(err, ErrEmptyProof):
		return "emptyproof"
	case errors.Is(err, ErrRootNodeNotFound):
		return "noroot"
	case errors.Is(err, ErrChildNodeEmpty):
		return "childempty"
	case strings.Contains(err.Error(), "decoding"):
		return "decode"
	default:
		return "err"
	}
}

func c05Op(s *c05State, op string) string {
	f := strings.Fields(op)
	if len(f) == 0 {
		return "bad-op"
	}
	n := len(s.proof)
	atoi := func(x string) (int, bool) {
		v, err := strconv.ParseUint(x, 10, 31)
		return int(v), err == nil
	}
	switch {
	case f[0] == "put" && len(f) == 3:
		if err := s.tr.Put(vhUnhex(f[1]), vhUnhex(f[2])); err != nil {
			return "err"
		}
		return "-"
	case (f[0] == "gen" || f[0] == "genx") && len(f) == 2:
		keys, ok := c05Keys(f[1])
		if !ok {
			return "bad-op"
		}
		out, p, root := s.generate(keys)
		if f[0] == "gen" {
			s.proof, s.root = p, root
		} else {
			s.proof = append(append([][]byte{}, s.proof...), p...)
		}
		return out
	case f[0] == "drop" && len(f) == 2:
		i, ok := atoi(f[1])
		if !ok {
			return "bad-op"
		}
		if n > 0 {
			i %= n
			s.proof = append(append([][]byte{}, s.proof[:i]...), s.proof[i+1:]...)
		}
		return "-"
	case f[0] == "dup" && len(f) == 3:
		i, ok1 := atoi(f[1])
		j, ok2 := atoi(f[2])
		if !ok1 || !ok2 {
			return "bad-op"
		}
		if n > 0 {
			e := s.proof[i%n]
			j %= n + 1
			np := append([][]byte{}, s.proof[:j]...)
			np = append(np, e)
			s.proof = append(np, s.proof[j:]...)
		}
		return "-"
	case f[0] == "flip" && len(f) == 4:
		i, ok1 := atoi(f[1])
		j, ok2 := atoi(f[2])
		x := vhUnhex(f[3])
		if !ok1 || !ok2 || len(x) != 1 {
			return "bad-op"
		}
		if n > 0 {
			i %= n
			e := append([]byte{}, s.proof[i]...)
			if len(e) > 0 {
				e[j%len(e)] ^= x[0]
			}
			np := append([][]byte{}, s.proof...)
			np[i] = e
			s.proof = np
		}
		return "-"
	case f[0] == "raw" && len(f) == 2:
		s.proof = append(append([][]byte{}, s.proof...), vhUnhex(f[1]))
		return "-"
	case f[0] == "rawf" && len(f) == 2:
		s.proof = append([][]byte{vhUnhex(f[1])}, s.proof...)
		return "-"
	case f[0] == "rot" && len(f) == 2:
		i, ok := atoi(f[1])
		if !ok {
			return "bad-op"
		}
		if n > 0 {
			i %= n
			s.proof = append(append([][]byte{}, s.proof[i:]...), s.proof[:i]...)
		}
		return "-"
	case f[0] == "rootx" && len(f) == 2:
		i, ok := atoi(f[1])
		if !ok {
			return "bad-op"
		}
		if n > 0 {
			h := common.MustBlake2bHash(s.proof[i%n])
			s.root = h[:]
		}
		return "-"
	case f[0] == "ver" && len(f) == 3:
		// Verify may keep references into the proof slices: give it its own copies
		p := make([][]byte, len(s.proof))
		for i := range s.proof {
			p[i] = append([]byte{}, s.proof[i]...)
		}
		root := append([]byte{}, s.root...)
		return c05Verify(p, root, vhUnhex(f[1]), vhUnhex(f[2]))
	}
	return "bad-op"
}

func c05Run(line string) string {
	i := strings.IndexByte(line, '|')
	if i != 2 {
		return "bad-op"
	}
	s := &c05State{tr: inmemory.NewEmptyTrie(), db: &c05DB{m: map[string][]byte{}}}
	switch line[0] {
	case '0':
		s.ver = trie.V0
	case '1':
		s.ver = trie.V1
	default:
		return "bad-op"
	}
	s.tr.SetVersion(s.ver)
	if m := line[1:2]; m != "a" && m != c05ScaleMode() {
		return "scale-mode-mismatch"
	}
	ops := strings.Split(line[i+1:], ";")
	outs := make([]string, len(ops))
	for j, op := range ops {
		op := op
		outs[j] = vhCatch(func() string { return c05Op(s, op) })
		if outs[j] == "panic" || strings.HasPrefix(outs[j], "panic ") {
			outs = outs[:j+1]
			break
		}
	}
	return strings.Join(outs, ";")
}

// ---------------------------------------------------------------- generator

var c05Alphabets = [][]byte{
	{0x00, 0x01, 0x10},
	{0x10, 0x11, 0x1f},
	{0x00, 0x0f, 0xf0, 0xff},
	{0x12, 0x13, 0x30, 0x3f},
	{0x00, 0x01},
	{0xab, 0xa0, 0x0a, 0xb0},
}

// value sizes around the inline-node threshold (encoding < 32 bytes) and the V1 hashing threshold
var c05ValueSizes = []int{0, 0, 1, 1, 2, 8, 24, 26, 27, 28, 29, 30, 31, 32, 33, 33, 40, 64}

func c05Value(r *vhRng) []byte {
	n := c05ValueSizes[r.Intn(len(c05ValueSizes))]
	v := make([]byte, n)
	b := byte(r.Intn(256))
	for i := range v {
		v[i] = b + byte(i)
	}
	return v
}

func c05Key(r *vhRng, alpha []byte, maxLen int) []byte {
	n := r.Intn(maxLen + 1)
	k := make([]byte, n)
	for i := range k {
		k[i] = alpha[r.Intn(len(alpha))]
	}
	return k
}

type c05Gen struct {
	r     *vhRng
	alpha []byte
	pool  [][]byte
	state map[string][]byte // content of the current trie
	keys  []string          // keys of state in insertion order
	ref   map[string][]byte // content at the last `gen`
	ops   []string
	vals  [][]byte // small pool of values re-used across keys (byte-identical values and leaves)
	want  [][]byte // keys the next key set has to contain (both keys of a planted pair)
	// wild: the proof may hold an item that is not a node encoding (flipped node, raw value, value
	// held by hash): such an item is never made the root (decoding arbitrary bytes can ask for a
	// byte slice of up to 4 GiB, which pkg/scale allocates)
	wild bool
}

func (g *c05Gen) poolKey() []byte { return g.pool[g.r.Intn(len(g.pool))] }

// value: half of the time one of the few pool values, so that several keys hold the same bytes
func (g *c05Gen) value() []byte {
	if len(g.vals) > 0 && g.r.Bool() {
		return g.vals[g.r.Intn(len(g.vals))]
	}
	return c05Value(g.r)
}

// twin: a present key and a copy differing in ONE high nibble get the same value of >= 33 bytes:
// two identical leaves (same partial key, same value, encoding >= 32 bytes) below different
// branches, and under V1 two keys holding the same hashed value
func (g *c05Gen) twin() {
	k, ok := g.presentKey()
	if !ok || len(k) == 0 {
		return
	}
	t := append([]byte{}, k...)
	t[g.r.Intn(len(t))] ^= byte(0x10 << uint(g.r.Intn(4)))
	v := g.state[string(k)]
	if len(v) < 33 {
		v = g.vals[0]
		g.put(k, v)
	}
	g.put(t, v)
}

// quad plants, below a base key and below a copy of it differing in one high nibble, a leaf with
// the SAME partial key and the SAME value of >= 33 bytes (encoding >= 32 bytes) next to a sibling:
//
//	base+55 -> V, base+aa -> x        copy+55 -> V, copy+aa -> y
//
// x != y: identical leaves below two different branches; x == y: identical subtrees.
// Both keys holding V are put in the next key set.
func (g *c05Gen) quad() {
	r := g.r
	base := append([]byte{}, g.poolKey()...)
	if len(base) == 0 {
		base = []byte{g.alpha[0]}
	}
	cp := append([]byte{}, base...)
	cp[r.Intn(len(cp))] ^= byte(0x10 << uint(r.Intn(4)))
	tails := [][2]byte{{0x55, 0xaa}, {0x50, 0x5f}, {0x05, 0xf5}}[r.Intn(3)]
	v := g.vals[0]
	x, y := c05Value(r), c05Value(r)
	if r.Chance(1, 3) {
		y = x
	}
	g.put(append(append([]byte{}, base...), tails[0]), v)
	g.put(append(append([]byte{}, base...), tails[1]), x)
	g.put(append(append([]byte{}, cp...), tails[0]), v)
	g.put(append(append([]byte{}, cp...), tails[1]), y)
	g.want = [][]byte{append(append([]byte{}, base...), tails[0]), append(append([]byte{}, cp...), tails[0])}
	if r.Bool() {
		g.want = append(g.want, append(append([]byte{}, cp...), tails[1]))
	}
}

// verifyAll: every key of the last key set against the one proof, with its true value
func (g *c05Gen) verifyAll(genKeys []string) {
	if genKeys[0] == "_" {
		return
	}
	for _, ks := range genKeys {
		k := vhUnhex(ks)
		v, ok := g.ref[string(k)]
		if !ok {
			v = []byte{1}
		}
		g.ops = append(g.ops, "ver "+ks+" "+vhHex(v))
	}
}

func (g *c05Gen) presentKey() ([]byte, bool) {
	if len(g.keys) == 0 {
		return nil, false
	}
	return []byte(g.keys[g.r.Intn(len(g.keys))]), true
}

// a key to ask about: mostly present; otherwise a pool key, a prefix or an extension of a present
// key, or a sibling (last byte / last nibble changed)
func (g *c05Gen) queryKey() []byte {
	r := g.r
	k, ok := g.presentKey()
	if r.Chance(1, 14) {
		// the empty key: ends on arrival at the root (len(key) == 0 short cuts)
		return []byte{}
	}
	if !ok || r.Chance(1, 10) {
		return g.poolKey()
	}
	switch r.Intn(12) {
	case 0:
		return append([]byte{}, k[:r.Intn(len(k)+1)]...)
	case 1:
		return append(append([]byte{}, k...), c05Key(r, g.alpha, 2)...)
	case 2:
		if len(k) > 0 {
			s := append([]byte{}, k...)
			s[len(s)-1] ^= byte(1 + r.Intn(15))
			return s
		}
	case 3:
		if len(k) > 0 {
			s := append([]byte{}, k...)
			s[r.Intn(len(s))] ^= byte(0x10 << uint(r.Intn(4)))
			return s
		}
	}
	return k
}

func (g *c05Gen) put(k, v []byte) {
	if _, ok := g.state[string(k)]; !ok {
		g.keys = append(g.keys, string(k))
	}
	g.state[string(k)] = v
	if len(v) > 32 {
		g.wild = true
	}
	g.ops = append(g.ops, "put "+vhHex(k)+" "+vhHex(v))
}

// keyList: n keys for Generate; presentOnly = only keys of the current state
func (g *c05Gen) keyList(n int, presentOnly bool) (list string, allPresent bool) {
	if n == 0 {
		return "_", true
	}
	allPresent = true
	parts := make([]string, n)
	for i := range parts {
		k, ok := g.presentKey()
		if !ok || (!presentOnly && g.r.Chance(1, 12)) {
			k = g.queryKey()
		}
		if _, in := g.state[string(k)]; !in {
			allPresent = false
		}
		parts[i] = vhHex(k)
	}
	// the planted pair, then a random order
	for _, k := range g.want {
		if _, in := g.state[string(k)]; in {
			parts = append(parts, vhHex(k))
		}
	}
	g.want = nil
	for i := len(parts) - 1; i > 0; i-- {
		j := g.r.Intn(i + 1)
		parts[i], parts[j] = parts[j], parts[i]
	}
	return strings.Join(parts, ","), allPresent
}

// a value to claim for k under the reference state
func (g *c05Gen) claim(k []byte) []byte {
	r := g.r
	tv, present := g.ref[string(k)]
	switch r.Intn(16) {
	case 0:
		return []byte{}
	case 1:
		return c05Value(r)
	case 2:
		if present {
			h := common.MustBlake2bHash(tv)
			return h[:]
		}
	case 3:
		if present && len(tv) > 0 {
			w := append([]byte{}, tv...)
			w[r.Intn(len(w))] ^= 1
			return w
		}
	case 4:
		if o, ok := g.presentKey(); ok {
			return g.state[string(o)]
		}
	case 5:
		if present {
			return append(append([]byte{}, tv...), 0)
		}
	}
	if present {
		return tv
	}
	if cur, ok := g.state[string(k)]; ok {
		return cur
	}
	return []byte{1}
}

func (g *c05Gen) edit() {
	r := g.r
	switch r.Intn(12) {
	case 0, 1, 2:
		g.ops = append(g.ops, fmt.Sprintf("drop %d", r.Intn(8)))
	case 3:
		g.ops = append(g.ops, fmt.Sprintf("dup %d %d", r.Intn(8), r.Intn(9)))
	case 4, 5:
		g.wild = true
		g.ops = append(g.ops, fmt.Sprintf("flip %d %d %02x", r.Intn(8), r.Intn(80), 1<<uint(r.Intn(8))))
	case 6:
		g.ops = append(g.ops, fmt.Sprintf("rot %d", 1+r.Intn(5)))
	case 7:
		raws := []string{"00", "-", "01", "4000", "41000400", "8000", "c10000" + "04ff", "03", "41", "800100", "c0000000"}
		op := "raw "
		if r.Bool() {
			op = "rawf "
		}
		g.ops = append(g.ops, op+raws[r.Intn(len(raws))])
	case 8:
		// a proof item that is the value of some key (what a hashed value needs)
		if k, ok := g.presentKey(); ok {
			g.wild = true
			g.ops = append(g.ops, "raw "+vhHex(g.state[k2s(k)]))
		}
	case 9:
		// a root chosen by the prover whose child reference resolves to a crafted item:
		// branch (no partial key, child 0 or 5 by hash) over `item`
		items := []string{"00", "03", "41", "4000", "410004" + "07", "4200" + "00", "8000", "800100"}
		item := vhUnhex(items[r.Intn(len(items))])
		h := common.MustBlake2bHash(item)
		bitmap := []byte{0x01, 0x00}
		if r.Bool() {
			bitmap = []byte{0x20, 0x00}
		}
		parent := append(append([]byte{0x80}, bitmap...), 0x80)
		parent = append(parent, h[:]...)
		g.ops = append(g.ops, "raw "+vhHex(item), "rawf "+vhHex(parent), "rootx 0")
		for i := 0; i < 2; i++ {
			k := [][]byte{{}, {0x00}, {0x07}, {0x50}, {0x57}, {0x00, 0x00}}[r.Intn(6)]
			g.ops = append(g.ops, "ver "+vhHex(k)+" "+vhHex([][]byte{{}, {0x07}, {0x01}}[r.Intn(3)]))
		}
	default:
		// nodes of a different trie: change the state, generate again and splice
		for i := 0; i < 1+r.Intn(2); i++ {
			k := g.poolKey()
			if o, ok := g.presentKey(); ok && r.Bool() {
				k = o
			}
			g.put(k, g.value())
		}
		kl, _ := g.keyList(1+r.Intn(2), false)
		g.ops = append(g.ops, "genx "+kl)
	}
}

func k2s(k []byte) string { return string(k) }

func c05GenCase(r *vhRng) string {
	g := &c05Gen{r: r, state: map[string][]byte{}, ref: map[string][]byte{}}
	if r.Chance(1, 8) {
		g.alpha = r.Bytes(3)
	} else {
		g.alpha = c05Alphabets[r.Intn(len(c05Alphabets))]
	}
	// pool: short keys sharing nibble prefixes, sometimes on a long common stem (long partial keys)
	var stem []byte
	if r.Chance(1, 5) {
		stem = c05Key(r, g.alpha, 0)
		for i := r.Pick(7, 8, 15, 16, 31, 33); i > 0; i-- {
			stem = append(stem, g.alpha[r.Intn(len(g.alpha))])
		}
	}
	np := 3 + r.Intn(7)
	for i := 0; i < np; i++ {
		var k []byte
		switch {
		case len(g.pool) > 0 && r.Chance(1, 3):
			k = append(append([]byte{}, g.poolKey()...), c05Key(r, g.alpha, 2)...)
		case len(g.pool) > 0 && r.Chance(1, 6):
			b := g.poolKey()
			k = append([]byte{}, b[:r.Intn(len(b)+1)]...)
		default:
			k = append(append([]byte{}, stem...), c05Key(r, g.alpha, 3)...)
		}
		g.pool = append(g.pool, k)
	}
	// value pool: the first value is always held by hash under V1 and makes a leaf encoding >= 32 bytes
	g.vals = [][]byte{c05Value(r)}
	for len(g.vals[0]) < 33 {
		g.vals[0] = append(g.vals[0], byte(0x40+len(g.vals[0])))
	}
	for i := r.Intn(3); i > 0; i-- {
		g.vals = append(g.vals, c05Value(r))
	}
	nput := 1 + r.Intn(8)
	if r.Chance(1, 25) {
		nput = 0
	}
	for i := 0; i < nput; i++ {
		g.put(g.poolKey(), g.value())
	}
	for i := r.Pick(0, 0, 1, 1, 2); i > 0 && nput > 0; i-- {
		g.twin()
	}
	if r.Chance(1, 4) {
		g.quad()
	}
	// the honest proof: often for a SET of keys
	kl, allPresent := g.keyList(r.Pick(1, 1, 2, 2, 3, 3, 4, 5, 6, 0), false)
	g.ops = append(g.ops, "gen "+kl)
	for k, v := range g.state {
		g.ref[k] = v
	}
	genKeys := strings.Split(kl, ",")
	verify := func(n int) {
		for i := 0; i < n; i++ {
			var k []byte
			if genKeys[0] != "_" && !r.Chance(1, 5) {
				k = vhUnhex(genKeys[r.Intn(len(genKeys))])
			} else {
				k = g.queryKey()
			}
			g.ops = append(g.ops, "ver "+vhHex(k)+" "+vhHex(g.claim(k)))
		}
	}
	if allPresent && (len(genKeys) > 1 || r.Bool()) {
		g.verifyAll(genKeys)
	}
	verify(1 + r.Intn(2))
	if !allPresent && len(g.keys) > 0 {
		// Generate has (most probably) failed on the absent key: go on with a proof of present keys
		kl, _ = g.keyList(r.Pick(1, 2, 3, 4, 6), true)
		g.ops = append(g.ops, "gen "+kl)
		genKeys = strings.Split(kl, ",")
		g.verifyAll(genKeys)
		verify(r.Intn(2))
	}
	// adversarial edits, each followed by verifications
	for e := r.Pick(0, 1, 1, 2, 3); e > 0; e-- {
		g.edit()
		if !g.wild && r.Chance(1, 8) {
			g.ops = append(g.ops, fmt.Sprintf("rootx %d", r.Intn(8)))
		}
		verify(1 + r.Intn(2))
	}
	ver := "0"
	if r.Chance(3, 5) {
		ver = "1"
	}
	return ver + c05ScaleMode() + "|" + strings.Join(g.ops, ";")
}

func TestVerifC05(t *testing.T) { vhMain(t, c05GenCase, c05Run) }
