//go:build verif

package node

// C07 harness, run 0: pkg/trie/node (header, key, Decode, Encode).
//
// case lines (m = assumed behaviour of short reads inside pkg/scale: z zero-fill, s strict, a either):
//   const <name>
//   nhb <byte>                 decodeHeaderByte
//   nh <hex>                   decodeHeader
//   neh <L|LH|B|BV|BH> <len>   encodeHeader
//   nk <pkl> <hex>             decodeKey
//   nd <m> <hex>               Decode
//   ne <m> <node expr>         Encode, then Decode of the encoding
// node expr (prefix): E | S <mv> | L <pk> <val> <h> | B <pk> <val> <h> <bitmap LE hex4> <present children...>
//   pk = nibble bytes in hex | N<count>.<seed> ; val = nil | hex | Z<count>.<seed>

import (
	"bytes"
	"errors"
	"fmt"
	"io"
	"runtime"
	"strconv"
	"strings"
	"testing"

	"github.com/ChainSafe/gossamer/pkg/scale"
)

func c07ScaleMode() string {
	var b []byte
	if err := scale.Unmarshal([]byte{0x08, 0x01}, &b); err != nil {
		return "s"
	}
	return "z"
}

func c07Err(err error) string {
	switch {
	case errors.Is(err, ErrVariantUnknown):
		return "err-variant"
	case errors.Is(err, ErrPartialKeyTooBig):
		return "err-keybig"
	case errors.Is(err, ErrReaderMismatchCount):
		return "err-mismatch"
	case errors.Is(err, ErrDecodeHashedValueTooShort):
		return "err-hashshort"
	case errors.Is(err, ErrReadChildrenBitmap):
		return "err-bitmap"
	case errors.Is(err, ErrDecodeChildHash):
		return "err-child"
	case errors.Is(err, ErrDecodeStorageValue):
		return "err-value"
	case errors.Is(err, ErrVariantNotSupported):
		return "err-unsupported"
	case errors.Is(err, ErrInlinedChildEmpty):
		return "err-emptychild"
	case errors.Is(err, io.EOF):
		return "err-eof"
	}
	return "err-other"
}

func c07Expand(tok string) []byte {
	if len(tok) > 1 && (tok[0] == 'N' || tok[0] == 'Z') {
		parts := strings.SplitN(tok[1:], ".", 2)
		cnt, _ := strconv.Atoi(parts[0])
		seed, _ := strconv.Atoi(parts[1])
		b := make([]byte, cnt)
		for i := range b {
			if tok[0] == 'N' {
				b[i] = byte((seed + i + i/16) % 16)
			} else {
				b[i] = byte((seed + i*31 + i/256) % 256)
			}
		}
		return b
	}
	return vhUnhex(tok)
}

func c07Val(tok string) []byte {
	if tok == "nil" {
		return nil
	}
	return c07Expand(tok)
}

// c07Parse builds a *Node from the prefix expression.
func c07Parse(toks []string, pos *int) *Node {
	if *pos >= len(toks) {
		panic("c07Parse: short expression")
	}
	t := toks[*pos]
	*pos++
	switch t {
	case "E":
		return nil
	case "S":
		mv := vhUnhex(toks[*pos])
		*pos++
		return &Node{MerkleValue: mv}
	case "L":
		n := &Node{PartialKey: c07Expand(toks[*pos]), StorageValue: c07Val(toks[*pos+1]),
			MustBeHashed: toks[*pos+2] == "1"}
		*pos += 3
		return n
	case "B":
		n := &Node{PartialKey: c07Expand(toks[*pos]), StorageValue: c07Val(toks[*pos+1]),
			MustBeHashed: toks[*pos+2] == "1", Children: make([]*Node, ChildrenCapacity)}
		bm := vhUnhex(toks[*pos+3])
		*pos += 4
		for i := 0; i < ChildrenCapacity; i++ {
			if (bm[i/8]>>(i%8))&1 == 1 {
				n.Children[i] = c07Parse(toks, pos)
			}
		}
		return n
	}
	panic("c07Parse: bad token " + t)
}

func c07OptHex(b []byte) string {
	if b == nil {
		return "nil"
	}
	return vhHex(b)
}

func c07Bool(b bool) string {
	if b {
		return "1"
	}
	return "0"
}

// c07Dump prints exactly the fields of a decoded node that the codec determines.
func c07Dump(n *Node) string {
	if n == nil {
		return "E"
	}
	if n.MerkleValue != nil {
		if len(n.PartialKey) != 0 || n.StorageValue != nil || n.Children != nil || n.IsHashedValue || n.Descendants != 0 {
			return "S!" + vhHex(n.MerkleValue)
		}
		return "S" + vhHex(n.MerkleValue)
	}
	if n.Children == nil {
		return "L:" + vhHex(n.PartialKey) + ":" + c07OptHex(n.StorageValue) + ":" + c07Bool(n.IsHashedValue)
	}
	var sb strings.Builder
	fmt.Fprintf(&sb, "B:%s:%s:%s:%d:(", vhHex(n.PartialKey), c07OptHex(n.StorageValue), c07Bool(n.IsHashedValue), n.Descendants)
	for i, c := range n.Children {
		if i > 0 {
			sb.WriteString(",")
		}
		sb.WriteString(c07Dump(c))
	}
	sb.WriteString(")")
	return sb.String()
}

func c07Decode(b []byte) string {
	n, err := Decode(bytes.NewReader(b))
	if err != nil {
		return c07Err(err)
	}
	return c07Dump(n)
}

func c07Kind(k string, pkLen int) (*Node, bool) {
	n := &Node{PartialKey: make([]byte, pkLen)}
	switch k {
	case "L":
		n.StorageValue = []byte{1}
		return n, false
	case "LH":
		n.StorageValue = []byte{1}
		return n, true
	case "B":
		n.Children = make([]*Node, ChildrenCapacity)
		return n, false
	case "BV":
		n.Children = make([]*Node, ChildrenCapacity)
		n.StorageValue = []byte{1}
		return n, false
	case "BH":
		n.Children = make([]*Node, ChildrenCapacity)
		n.StorageValue = []byte{1}
		return n, true
	}
	panic("bad kind")
}

func c07ModeOK(m string) bool { return m == "a" || m == c07ScaleMode() }

func c07Run(line string) string {
	f := strings.Fields(line)
	switch f[0] {
	case "const":
		switch f[1] {
		case "variants":
			var sb strings.Builder
			for _, v := range variantsOrderedByBitMask {
				fmt.Fprintf(&sb, "%02x/%02x ", v.bits, v.mask)
			}
			return strings.TrimSpace(sb.String())
		case "maxPartialKeyLength":
			return fmt.Sprint(maxPartialKeyLength)
		case "hashLength":
			return fmt.Sprint(hashLength)
		case "ChildrenCapacity":
			return fmt.Sprint(ChildrenCapacity)
		}
		return "bad-op"
	case "nhb":
		b := vhUnhex(f[1])
		v, h, err := decodeHeaderByte(b[0])
		if err != nil {
			return c07Err(err)
		}
		return fmt.Sprintf("ok %02x/%02x %02x", v.bits, v.mask, h)
	case "nh":
		r := bytes.NewReader(vhUnhex(f[1]))
		v, l, err := decodeHeader(r)
		if err != nil {
			return c07Err(err)
		}
		return fmt.Sprintf("ok %02x/%02x %d %d", v.bits, v.mask, l, r.Len())
	case "neh":
		l, _ := strconv.Atoi(f[2])
		n, hashed := c07Kind(f[1], l)
		buf := bytes.NewBuffer(nil)
		if err := encodeHeader(n, hashed, buf); err != nil {
			return "err-other"
		}
		return vhHex(buf.Bytes())
	case "nk":
		l, _ := strconv.Atoi(f[1])
		r := bytes.NewReader(vhUnhex(f[2]))
		k, err := decodeKey(r, uint16(l))
		if err != nil {
			return c07Err(err)
		}
		return fmt.Sprintf("ok %s %d", vhHex(k), r.Len())
	case "nd":
		if !c07ModeOK(f[1]) {
			return "scale-mode-mismatch"
		}
		return c07Decode(vhUnhex(f[2]))
	case "ne":
		if !c07ModeOK(f[1]) {
			return "scale-mode-mismatch"
		}
		pos := 2
		n := c07Parse(f, &pos)
		buf := bytes.NewBuffer(nil)
		if err := n.Encode(buf); err != nil {
			return "err-other"
		}
		return vhHex(buf.Bytes()) + " " + c07Decode(buf.Bytes())
	}
	return "bad-op"
}

// ---------------------------------------------------------------------------- input pre-filter
// c07W walks an encoding the way the decoders do (zero-fill semantics, no range checks) only to
// find the SCALE length prefixes that would be reached, so that the generator can drop inputs that
// make pkg/scale allocate huge buffers (a 5-byte prefix can ask for 4 GiB).  It is a generator
// aid, not an oracle: a mistake here only lets a slow case through or drops a harmless one.
type c07W struct {
	b   []byte
	i   int
	big bool
}

const c07Cap = 40000

func (w *c07W) byte() (byte, bool) {
	if w.i >= len(w.b) {
		return 0, false
	}
	w.i++
	return w.b[w.i-1], true
}

func (w *c07W) fill(n int) ([]byte, bool) {
	if w.i >= len(w.b) {
		return nil, false
	}
	out := make([]byte, n)
	w.i += copy(out, w.b[w.i:])
	return out, true
}

func (w *c07W) bytes() ([]byte, bool) {
	p, ok := w.byte()
	if !ok {
		return nil, false
	}
	var l uint64
	switch p % 4 {
	case 0:
		l = uint64(p >> 2)
	case 1:
		b, ok := w.byte()
		if !ok {
			return nil, false
		}
		l = (uint64(p) | uint64(b)<<8) >> 2
	case 2:
		buf, ok := w.fill(3)
		if !ok {
			return nil, false
		}
		l = (uint64(p) | uint64(buf[0])<<8 | uint64(buf[1])<<16 | uint64(buf[2])<<24) >> 2
	default:
		n := int(p>>2) + 4
		buf, ok := w.fill(n)
		if !ok || (n != 4 && n != 8) {
			return nil, false
		}
		for k := n - 1; k >= 0; k-- {
			l = l<<8 | uint64(buf[k])
		}
	}
	if l > c07Cap {
		w.big = true
		return nil, false
	}
	if l == 0 {
		return []byte{}, true
	}
	return w.fill(int(l))
}

// c07Big reports whether decoding b would reach a length prefix above c07Cap.
func c07Big(b []byte, recurse bool, depth int) bool {
	w := &c07W{b: b}
	h, ok := w.byte()
	if !ok || depth > 40 {
		return false
	}
	var mask byte
	switch {
	case h&0xc0 != 0:
		mask = 0x3f
	case h&0xe0 == 0x20:
		mask = 0x1f
	case h&0xf0 == 0x10:
		mask = 0x0f
	default:
		return false
	}
	pkl := int(h & mask)
	if h&mask == mask {
		for {
			x, ok := w.byte()
			if !ok {
				return false
			}
			pkl += int(x)
			if pkl > 65535 {
				return false
			}
			if x < 255 {
				break
			}
		}
	}
	if n := pkl/2 + pkl%2; n > 0 {
		if len(w.b)-w.i < n {
			return false // EOF or mismatch error in the real decoder
		}
		w.i += n
	}
	isLeaf := h&0xc0 == 0x40 || h&0xe0 == 0x20
	value := func(hashed bool) bool {
		if hashed {
			_, ok := w.fill(32)
			return ok
		}
		_, ok := w.bytes()
		return ok
	}
	if isLeaf {
		value(h&0xc0 != 0x40)
		return w.big
	}
	bm, ok := w.fill(2)
	if !ok {
		return false
	}
	if h&0xc0 == 0xc0 {
		if !value(false) {
			return w.big
		}
	} else if h&0xc0 == 0 {
		if !value(true) {
			return w.big
		}
	}
	for i := 0; i < 16; i++ {
		if (bm[i/8]>>(uint(i)%8))&1 != 1 {
			continue
		}
		c, ok := w.bytes()
		if !ok {
			return w.big
		}
		if recurse && len(c) < 32 && c07Big(c, true, depth+1) {
			return true
		}
	}
	return w.big
}

// ---------------------------------------------------------------------------- generators

var c07PkLens = []int{0, 1, 2, 3, 14, 15, 16, 30, 31, 32, 62, 63, 64, 65}

func c07PkTok(r *vhRng, mask int, small bool) string {
	var l int
	switch {
	case small:
		l = r.Intn(3)
	case r.Chance(1, 120):
		l = r.Pick(65534, 65535, mask+255*r.Intn(257), mask+255*(1+r.Intn(256))-1, mask+255*(1+r.Intn(256))+1)
		if l > 65535 {
			l = 65535
		}
	case r.Chance(1, 5):
		l = r.Pick(mask-1, mask, mask+1, mask+253, mask+254, mask+255, mask+256, mask+509, mask+510, mask+511)
	case r.Chance(1, 3):
		l = c07PkLens[r.Intn(len(c07PkLens))]
	default:
		l = r.Intn(8)
	}
	if l > 12 {
		return fmt.Sprintf("N%d.%d", l, r.Intn(16))
	}
	b := make([]byte, l)
	for i := range b {
		b[i] = byte(r.Intn(16))
	}
	return vhHex(b)
}

func c07ValTok(r *vhRng, small bool) string {
	if small {
		return vhHex(r.Bytes(r.Intn(3)))
	}
	switch r.Intn(12) {
	case 0:
		return "-"
	case 1, 2:
		return fmt.Sprintf("Z%d.%d", r.Pick(31, 32, 33, 40, 62, 63, 64, 65, 100), r.Intn(256))
	case 3:
		if r.Chance(1, 8) {
			return fmt.Sprintf("Z%d.%d", r.Pick(16382, 16383, 16384, 16385, 19000), r.Intn(256))
		}
		return vhHex(make([]byte, 1+r.Intn(4)))
	default:
		return vhHex(r.Bytes(1 + r.Intn(6)))
	}
}

// c07GenExpr draws a node expression. depth bounds nesting; small makes nodes that inline.
func c07GenExpr(r *vhRng, depth int, small bool, root bool) string {
	if !root && r.Chance(1, 6) {
		n := 32
		if r.Chance(1, 6) {
			n = r.Pick(0, 1, 5, 31, 33, 40)
		}
		return "S " + vhHex(r.Bytes(n))
	}
	hashed := r.Chance(1, 4)
	h := c07Bool(hashed)
	if depth == 0 || r.Chance(2, 5) {
		mask := 63
		if hashed {
			mask = 31
		}
		val := c07ValTok(r, small)
		if r.Chance(1, 30) {
			val = "nil"
		}
		return "L " + c07PkTok(r, mask, small) + " " + val + " " + h
	}
	val := "nil"
	mask := 63
	if r.Chance(1, 2) {
		val = c07ValTok(r, small)
		if hashed {
			mask = 15
		}
	}
	nk := r.Pick(0, 1, 1, 2, 2, 3, 16)
	if small {
		nk = r.Pick(0, 1, 1, 2)
	}
	var bm uint16
	for i := 0; i < nk; i++ {
		bm |= 1 << uint(r.Intn(16))
	}
	if nk == 16 {
		bm = 0xffff
	}
	s := "B " + c07PkTok(r, mask, small) + " " + val + " " + h + " " + vhHex([]byte{byte(bm), byte(bm >> 8)})
	for i := 0; i < 16; i++ {
		if (bm>>uint(i))&1 == 1 {
			s += " " + c07GenExpr(r, depth-1, small || r.Chance(2, 3), false)
		}
	}
	return s
}

// c07Chain makes a deeply nested chain of tiny inlined branches.
func c07Chain(r *vhRng, levels int) string {
	s := "L " + vhHex([]byte{byte(r.Intn(16))}) + " " + vhHex(r.Bytes(r.Intn(2))) + " 0"
	for i := 0; i < levels; i++ {
		bm := uint16(1) << uint(r.Intn(16))
		s = "B - nil 0 " + vhHex([]byte{byte(bm), byte(bm >> 8)}) + " " + s
	}
	return s
}

func c07EncodeExpr(expr string) []byte {
	var out []byte
	vhCatch(func() string {
		pos := 0
		n := c07Parse(strings.Fields(expr), &pos)
		buf := bytes.NewBuffer(nil)
		if n.Encode(buf) == nil {
			out = buf.Bytes()
		}
		return ""
	})
	return out
}

var c07Prefixes = [][]byte{{0x00}, {0x01}, {0x04}, {0x08}, {0x7c}, {0x80}, {0x84}, {0xfc}, {0x01, 0x01}, {0xfd, 0x00}, {0x05, 0x01},
	{0x02, 0x00, 0x01, 0x00}, {0x02, 0x00, 0x00, 0x00}, {0x03, 0x00, 0x00, 0x00, 0x40}, {0x03, 0x00, 0x00, 0x01, 0x00},
	{0x07, 0x01}, {0x13, 0x00, 0x00, 0x00, 0x00, 0x00, 0x00, 0x00, 0x01}, {0x0b}, {0x41, 0x01}, {0x81, 0x00}}

// c07Mutate applies one mutation to an encoding.
func c07Mutate(r *vhRng, b []byte) []byte {
	b = append([]byte{}, b...)
	if len(b) == 0 {
		return r.Bytes(r.Intn(4))
	}
	switch r.Intn(8) {
	case 0, 1: // truncate
		return b[:r.Intn(len(b)+1)]
	case 2, 3: // bit flip
		b[r.Intn(len(b))] ^= 1 << uint(r.Intn(8))
		return b
	case 4: // splice a length prefix / small token at a position
		p := r.Intn(len(b) + 1)
		ins := c07Prefixes[r.Intn(len(c07Prefixes))]
		del := r.Intn(3)
		if p+del > len(b) {
			del = len(b) - p
		}
		return append(append(append([]byte{}, b[:p]...), ins...), b[p+del:]...)
	case 5: // overwrite a byte with an interesting value
		b[r.Intn(len(b))] = byte(r.Pick(0, 1, 4, 0x3f, 0x40, 0x41, 0x7f, 0x80, 0xbf, 0xc0, 0xff, 0xfe, 0x10, 0x1f, 0x20, 0x3f, 0x7c, 0x80, 0x84))
		return b
	case 6: // append junk
		return append(b, r.Bytes(1+r.Intn(4))...)
	default: // drop a byte
		p := r.Intn(len(b))
		return append(b[:p], b[p+1:]...)
	}
}

func c07HeaderBytes(r *vhRng) []byte {
	first := byte(r.Pick(0x7f, 0xbf, 0xff, 0x3f, 0x1f, 0x7e, 0x40, 0x80, 0xc0, 0x20, 0x10, 0x00, 0x01, 0x02, 0x0f, 0x3e, 0x1e))
	if r.Chance(1, 4) {
		first = byte(r.Intn(256))
	}
	b := []byte{first}
	runs := r.Pick(0, 0, 1, 2, 3, 255, 256, 257, 258)
	if r.Chance(1, 3) {
		runs = r.Intn(260)
	}
	for i := 0; i < runs; i++ {
		b = append(b, 0xff)
	}
	switch r.Intn(4) {
	case 0:
	case 1:
		b = append(b, byte(r.Pick(0, 1, 0xfe, 190, 191, 192, 193, 194, 222, 223, 224, 225, 238, 239, 240, 241, 242)))
	default:
		b = append(b, byte(r.Intn(255)))
	}
	if r.Chance(1, 3) {
		b = append(b, r.Bytes(r.Intn(3))...)
	}
	return b
}

func c07GenRaw(r *vhRng) string {
	m := c07ScaleMode()
	switch r.Intn(20) {
	case 0:
		return "nhb " + vhHex([]byte{byte(r.Intn(256))})
	case 1, 2:
		return "nh " + vhHex(c07HeaderBytes(r))
	case 3:
		k := []string{"L", "LH", "B", "BV", "BH"}[r.Intn(5)]
		mask := map[string]int{"L": 63, "LH": 31, "B": 63, "BV": 63, "BH": 15}[k]
		l := r.Pick(0, 1, mask-1, mask, mask+1, mask+254, mask+255, mask+256, mask+509, mask+510, mask+511, 65534, 65535, 65536, 70000,
			mask+255*r.Intn(257), r.Intn(65536))
		if l < 0 {
			l = 0
		}
		return fmt.Sprintf("neh %s %d", k, l)
	case 4:
		l := r.Pick(0, 1, 2, 3, 4, 5, 62, 63, 64, 65535, 65534, r.Intn(40))
		n := l/2 + l%2
		d := n + r.Pick(0, 0, 0, 1, 2, -1, -2, -n)
		if d < 0 {
			d = 0
		}
		data := r.Bytes(d)
		if r.Chance(1, 4) {
			data = make([]byte, d)
		}
		return fmt.Sprintf("nk %d %s", l, vhHex(data))
	case 5, 6, 7, 8, 9:
		for {
			e := c07GenExpr(r, 3, r.Chance(1, 3), true)
			if enc := c07EncodeExpr(e); !c07Big(enc, true, 0) {
				return "ne " + m + " " + e
			}
		}
	case 10:
		return "ne " + m + " " + c07Chain(r, r.Intn(9))
	case 11:
		for {
			b := r.Bytes(r.Intn(12))
			if !c07Big(b, true, 0) {
				return "nd " + m + " " + vhHex(b)
			}
		}
	default:
		var enc []byte
		if r.Chance(1, 4) {
			enc = c07EncodeExpr(c07Chain(r, r.Intn(9)))
		} else {
			enc = c07EncodeExpr(c07GenExpr(r, 3, r.Chance(1, 2), true))
		}
		if len(enc) > 600 {
			enc = enc[:600]
		}
		for try := 0; try < 8; try++ {
			mut := enc
			k := r.Pick(1, 1, 1, 2, 3)
			for i := 0; i < k; i++ {
				mut = c07Mutate(r, mut)
			}
			if !c07Big(mut, true, 0) {
				return "nd " + m + " " + vhHex(mut)
			}
		}
		return "nd " + m + " " + vhHex(enc)
	}
}

// c07Gen keeps case lines and their outputs below 400 kB.
func c07Gen(r *vhRng) string {
	for {
		l := c07GenRaw(r)
		if len(l) > 300000 {
			continue
		}
		// a nested (inlined-child) SCALE length prefix can still ask pkg/scale for up to 4 GiB:
		// drop cases whose run allocates more than 2 MiB in total
		var m0, m1 runtime.MemStats
		runtime.ReadMemStats(&m0)
		out := vhCatch(func() string { return c07Run(l) })
		runtime.ReadMemStats(&m1)
		if len(out) > 400000 || m1.TotalAlloc-m0.TotalAlloc > 2<<20 {
			continue
		}
		return l
	}
}

func TestVerifC07(t *testing.T) { vhMain(t, c07Gen, c07Run) }
