//go:build verif

package codec

// C07 harness, run 1: pkg/trie/triedb/codec (header, key, Decode, EncodeHeader).
//
// case lines (m = assumed behaviour of short reads inside pkg/scale: z zero-fill, s strict, a either):
//   const <name>
//   thb <byte>                       decodeHeaderByte
//   th <hex>                         decodeHeader
//   teh <L|LH|B|BV|BH> <len> <key>   EncodeHeader
//   tk <pkl> <hex>                   decodeKey
//   td <m> <hex>                     Decode[hash.H256]

import (
	"bytes"
	"errors"
	"fmt"
	"io"
	"reflect"
	"runtime"
	"strconv"
	"strings"
	"testing"

	"github.com/ChainSafe/gossamer/internal/primitives/core/hash"
	"github.com/ChainSafe/gossamer/pkg/scale"
	"github.com/ChainSafe/gossamer/pkg/trie/triedb/nibbles"
)

func c07ScaleMode() string {
	var b []byte
	if err := scale.Unmarshal([]byte{0x08, 0x01}, &b); err != nil {
		return "s"
	}
	return "z"
}

func c07Err(err error) string {
	switch {
	case errors.Is(err, ErrVariantUnknown):
		return "err-variant"
	case errors.Is(err, ErrPartialKeyTooBig):
		return "err-keybig"
	case errors.Is(err, ErrReaderMismatchCount):
		return "err-mismatch"
	case errors.Is(err, ErrDecodeHashedValueTooShort):
		return "err-hashshort"
	case errors.Is(err, ErrReadChildrenBitmap):
		return "err-bitmap"
	case errors.Is(err, ErrDecodeChildHash):
		return "err-child"
	case errors.Is(err, ErrDecodeStorageValue):
		return "err-value"
	case errors.Is(err, ErrVariantNotSupported):
		return "err-unsupported"
	case errors.Is(err, io.EOF):
		return "err-eof"
	}
	return "err-other"
}

// c07Nib prints the two private fields of nibbles.Nibbles as <data hex>/<offset>.
func c07Nib(n nibbles.Nibbles) string {
	v := reflect.ValueOf(n)
	d := v.Field(0)
	b := make([]byte, d.Len())
	for i := range b {
		b[i] = byte(d.Index(i).Uint())
	}
	return fmt.Sprintf("%s/%d", vhHex(b), v.Field(1).Uint())
}

func c07Value(v EncodedValue) string {
	switch v := v.(type) {
	case nil:
		return "nil"
	case InlineValue:
		return "I" + vhHex(v)
	case HashedValue[hash.H256]:
		return "H" + vhHex(v.Hash.Bytes())
	}
	return "?"
}

func c07Dump(n EncodedNode) string {
	switch n := n.(type) {
	case Empty:
		return "E"
	case Leaf:
		return "L:" + c07Nib(n.PartialKey) + ":" + c07Value(n.Value)
	case Branch:
		var sb strings.Builder
		sb.WriteString("B:" + c07Nib(n.PartialKey) + ":" + c07Value(n.Value) + ":(")
		for i, c := range n.Children {
			if i > 0 {
				sb.WriteString(",")
			}
			switch c := c.(type) {
			case nil:
				sb.WriteString("_")
			case InlineNode:
				sb.WriteString("I" + vhHex(c))
			case HashedNode[hash.H256]:
				sb.WriteString("H" + vhHex(c.Hash.Bytes()))
			default:
				sb.WriteString("?")
			}
		}
		sb.WriteString(")")
		return sb.String()
	}
	return "?"
}

func c07Decode(b []byte) string {
	n, err := Decode[hash.H256](bytes.NewReader(b))
	if err != nil {
		return c07Err(err)
	}
	return c07Dump(n)
}

func c07Kind(k string) NodeKind {
	switch k {
	case "L":
		return LeafNode
	case "LH":
		return LeafWithHashedValue
	case "B":
		return BranchWithoutValue
	case "BV":
		return BranchWithValue
	case "BH":
		return BranchWithHashedValue
	}
	panic("bad kind")
}

func c07ModeOK(m string) bool { return m == "a" || m == c07ScaleMode() }

func c07Run(line string) string {
	f := strings.Fields(line)
	switch f[0] {
	case "const":
		switch f[1] {
		case "variants":
			var sb strings.Builder
			for _, v := range variantsOrderedByBitMask {
				fmt.Fprintf(&sb, "%02x/%02x ", v.bits, v.mask)
			}
			return strings.TrimSpace(sb.String())
		case "maxPartialKeyLength":
			return fmt.Sprint(maxPartialKeyLength)
		case "hashLength":
			return fmt.Sprint(hash.H256("").Length())
		case "ChildrenCapacity":
			return fmt.Sprint(ChildrenCapacity)
		}
		return "bad-op"
	case "thb":
		b := vhUnhex(f[1])
		v, h, err := decodeHeaderByte(b[0])
		if err != nil {
			return c07Err(err)
		}
		return fmt.Sprintf("ok %02x/%02x %02x", v.bits, v.mask, h)
	case "th":
		r := bytes.NewReader(vhUnhex(f[1]))
		v, l, err := decodeHeader(r)
		if err != nil {
			return c07Err(err)
		}
		return fmt.Sprintf("ok %02x/%02x %d %d", v.bits, v.mask, l, r.Len())
	case "teh":
		l, _ := strconv.Atoi(f[2])
		buf := bytes.NewBuffer(nil)
		if err := EncodeHeader(vhUnhex(f[3]), uint(l), c07Kind(f[1]), buf); err != nil {
			return "err-other"
		}
		return vhHex(buf.Bytes())
	case "tk":
		l, _ := strconv.Atoi(f[1])
		r := bytes.NewReader(vhUnhex(f[2]))
		k, err := decodeKey(r, uint16(l))
		if err != nil {
			return c07Err(err)
		}
		return fmt.Sprintf("ok %s %d", c07Nib(k), r.Len())
	case "td":
		if !c07ModeOK(f[1]) {
			return "scale-mode-mismatch"
		}
		return c07Decode(vhUnhex(f[2]))
	}
	return "bad-op"
}

// ---------------------------------------------------------------------------- input pre-filter
// c07W walks an encoding the way the decoders do (zero-fill semantics, no range checks) only to
// find the SCALE length prefixes that would be reached, so that the generator can drop inputs that
// make pkg/scale allocate huge buffers (a 5-byte prefix can ask for 4 GiB).  It is a generator
// aid, not an oracle: a mistake here only lets a slow case through or drops a harmless one.
type c07W struct {
	b   []byte
	i   int
	big bool
}

const c07Cap = 40000

func (w *c07W) byte() (byte, bool) {
	if w.i >= len(w.b) {
		return 0, false
	}
	w.i++
	return w.b[w.i-1], true
}

func (w *c07W) fill(n int) ([]byte, bool) {
	if w.i >= len(w.b) {
		return nil, false
	}
	out := make([]byte, n)
	w.i += copy(out, w.b[w.i:])
	return out, true
}

func (w *c07W) bytes() ([]byte, bool) {
	p, ok := w.byte()
	if !ok {
		return nil, false
	}
	var l uint64
	switch p % 4 {
	case 0:
		l = uint64(p >> 2)
	case 1:
		b, ok := w.byte()
		if !ok {
			return nil, false
		}
		l = (uint64(p) | uint64(b)<<8) >> 2
	case 2:
		buf, ok := w.fill(3)
		if !ok {
			return nil, false
		}
		l = (uint64(p) | uint64(buf[0])<<8 | uint64(buf[1])<<16 | uint64(buf[2])<<24) >> 2
	default:
		n := int(p>>2) + 4
		buf, ok := w.fill(n)
		if !ok || (n != 4 && n != 8) {
			return nil, false
		}
		for k := n - 1; k >= 0; k-- {
			l = l<<8 | uint64(buf[k])
		}
	}
	if l > c07Cap {
		w.big = true
		return nil, false
	}
	if l == 0 {
		return []byte{}, true
	}
	return w.fill(int(l))
}

// c07Big reports whether decoding b would reach a length prefix above c07Cap.
func c07Big(b []byte, recurse bool, depth int) bool {
	w := &c07W{b: b}
	h, ok := w.byte()
	if !ok || depth > 40 {
		return false
	}
	var mask byte
	switch {
	case h&0xc0 != 0:
		mask = 0x3f
	case h&0xe0 == 0x20:
		mask = 0x1f
	case h&0xf0 == 0x10:
		mask = 0x0f
	default:
		return false
	}
	pkl := int(h & mask)
	if h&mask == mask {
		for {
			x, ok := w.byte()
			if !ok {
				return false
			}
			pkl += int(x)
			if pkl > 65535 {
				return false
			}
			if x < 255 {
				break
			}
		}
	}
	if n := pkl/2 + pkl%2; n > 0 {
		if len(w.b)-w.i < n {
			return false // EOF or mismatch error in the real decoder
		}
		w.i += n
	}
	isLeaf := h&0xc0 == 0x40 || h&0xe0 == 0x20
	value := func(hashed bool) bool {
		if hashed {
			_, ok := w.fill(32)
			return ok
		}
		_, ok := w.bytes()
		return ok
	}
	if isLeaf {
		value(h&0xc0 != 0x40)
		return w.big
	}
	bm, ok := w.fill(2)
	if !ok {
		return false
	}
	if h&0xc0 == 0xc0 {
		if !value(false) {
			return w.big
		}
	} else if h&0xc0 == 0 {
		if !value(true) {
			return w.big
		}
	}
	for i := 0; i < 16; i++ {
		if (bm[i/8]>>(uint(i)%8))&1 != 1 {
			continue
		}
		c, ok := w.bytes()
		if !ok {
			return w.big
		}
		if recurse && len(c) < 32 && c07Big(c, true, depth+1) {
			return true
		}
	}
	return w.big
}

// ---------------------------------------------------------------------------- generators

func c07Compact(n int) []byte {
	switch {
	case n < 1<<6:
		return []byte{byte(n << 2)}
	case n < 1<<14:
		v := uint16(n<<2) + 1
		return []byte{byte(v), byte(v >> 8)}
	default:
		v := uint32(n<<2) + 2
		return []byte{byte(v), byte(v >> 8), byte(v >> 16), byte(v >> 24)}
	}
}

func c07PkLen(r *vhRng, mask int) int {
	switch {
	case r.Chance(1, 120):
		l := r.Pick(65534, 65535, mask+255*r.Intn(257), mask+255*(1+r.Intn(256))-1, mask+255*(1+r.Intn(256))+1)
		if l > 65535 {
			l = 65535
		}
		return l
	case r.Chance(1, 4):
		return r.Pick(mask-1, mask, mask+1, mask+253, mask+254, mask+255, mask+256, mask+509, mask+510, mask+511)
	case r.Chance(1, 3):
		return r.Pick(0, 1, 2, 3, 14, 15, 16, 30, 31, 32, 62, 63, 64, 65)
	}
	return r.Intn(8)
}

func c07HashBytes(r *vhRng) []byte {
	switch r.Intn(40) {
	case 0:
		return make([]byte, 32)
	case 1:
		b := make([]byte, 32)
		b[r.Intn(32)] = byte(1 + r.Intn(255))
		return b
	}
	return r.Bytes(32)
}

// c07GenNode hand-assembles a (mostly) valid node encoding; it is only an input generator.
func c07GenNode(r *vhRng) []byte {
	kind := r.Pick(0, 0, 1, 2, 3, 4)
	var mask int
	var hdr byte
	switch kind {
	case 0:
		mask, hdr = 63, 0x40
	case 1:
		mask, hdr = 31, 0x20
	case 2:
		mask, hdr = 63, 0x80
	case 3:
		mask, hdr = 63, 0xc0
	default:
		mask, hdr = 15, 0x10
	}
	_ = hdr
	l := c07PkLen(r, mask)
	key := r.Bytes(l/2 + l%2)
	if l%2 == 1 && r.Chance(2, 3) {
		key[0] &= 0x0f
	}
	buf := bytes.NewBuffer(nil)
	_ = EncodeHeader(key, uint(l), []NodeKind{LeafNode, LeafWithHashedValue, BranchWithoutValue, BranchWithValue, BranchWithHashedValue}[kind], buf)
	val := func() {
		n := r.Pick(0, 1, 2, 5, 31, 32, 33, 63, 64, 65, 100)
		if r.Chance(1, 40) {
			n = r.Pick(16383, 16384, 16385)
		}
		buf.Write(c07Compact(n))
		buf.Write(r.Bytes(n))
	}
	switch kind {
	case 0:
		val()
	case 1:
		buf.Write(c07HashBytes(r))
	default:
		var bm uint16
		nk := r.Pick(0, 1, 1, 2, 3, 16)
		for i := 0; i < nk; i++ {
			bm |= 1 << uint(r.Intn(16))
		}
		if nk == 16 {
			bm = 0xffff
		}
		buf.Write([]byte{byte(bm), byte(bm >> 8)})
		if kind == 3 {
			val()
		} else if kind == 4 {
			buf.Write(c07HashBytes(r))
		}
		for i := 0; i < 16; i++ {
			if (bm>>uint(i))&1 == 1 {
				switch r.Intn(6) {
				case 0:
					n := r.Pick(0, 1, 2, 5, 30, 31)
					buf.Write(c07Compact(n))
					buf.Write(r.Bytes(n))
				case 1:
					n := r.Pick(33, 34, 40, 64, 100)
					buf.Write(c07Compact(n))
					if r.Bool() {
						buf.Write(make([]byte, n))
					} else {
						buf.Write(r.Bytes(n))
					}
				default:
					buf.Write(c07Compact(32))
					buf.Write(c07HashBytes(r))
				}
			}
		}
	}
	return buf.Bytes()
}

var c07Prefixes = [][]byte{{0x00}, {0x01}, {0x04}, {0x08}, {0x7c}, {0x80}, {0x84}, {0xfc}, {0x01, 0x01}, {0xfd, 0x00}, {0x05, 0x01},
	{0x02, 0x00, 0x01, 0x00}, {0x02, 0x00, 0x00, 0x00}, {0x03, 0x00, 0x00, 0x00, 0x40}, {0x03, 0x00, 0x00, 0x01, 0x00},
	{0x07, 0x01}, {0x13, 0x00, 0x00, 0x00, 0x00, 0x00, 0x00, 0x00, 0x01}, {0x0b}, {0x41, 0x01}, {0x81, 0x00}}

func c07Mutate(r *vhRng, b []byte) []byte {
	b = append([]byte{}, b...)
	if len(b) == 0 {
		return r.Bytes(r.Intn(4))
	}
	switch r.Intn(8) {
	case 0, 1:
		return b[:r.Intn(len(b)+1)]
	case 2, 3:
		b[r.Intn(len(b))] ^= 1 << uint(r.Intn(8))
		return b
	case 4:
		p := r.Intn(len(b) + 1)
		ins := c07Prefixes[r.Intn(len(c07Prefixes))]
		del := r.Intn(3)
		if p+del > len(b) {
			del = len(b) - p
		}
		return append(append(append([]byte{}, b[:p]...), ins...), b[p+del:]...)
	case 5:
		b[r.Intn(len(b))] = byte(r.Pick(0, 1, 4, 0x3f, 0x40, 0x41, 0x7f, 0x80, 0xbf, 0xc0, 0xff, 0xfe, 0x10, 0x1f, 0x20, 0x3f, 0x7c, 0x80, 0x84))
		return b
	case 6:
		return append(b, r.Bytes(1+r.Intn(4))...)
	default:
		p := r.Intn(len(b))
		return append(b[:p], b[p+1:]...)
	}
}

func c07HeaderBytes(r *vhRng) []byte {
	first := byte(r.Pick(0x7f, 0xbf, 0xff, 0x3f, 0x1f, 0x7e, 0x40, 0x80, 0xc0, 0x20, 0x10, 0x00, 0x01, 0x02, 0x0f, 0x3e, 0x1e))
	if r.Chance(1, 4) {
		first = byte(r.Intn(256))
	}
	b := []byte{first}
	runs := r.Pick(0, 0, 1, 2, 3, 255, 256, 257, 258)
	if r.Chance(1, 3) {
		runs = r.Intn(260)
	}
	for i := 0; i < runs; i++ {
		b = append(b, 0xff)
	}
	switch r.Intn(4) {
	case 0:
	case 1:
		b = append(b, byte(r.Pick(0, 1, 0xfe, 190, 191, 192, 193, 194, 222, 223, 224, 225, 238, 239, 240, 241, 242)))
	default:
		b = append(b, byte(r.Intn(255)))
	}
	if r.Chance(1, 3) {
		b = append(b, r.Bytes(r.Intn(3))...)
	}
	return b
}

func c07GenRaw(r *vhRng) string {
	m := c07ScaleMode()
	switch r.Intn(20) {
	case 0:
		return "thb " + vhHex([]byte{byte(r.Intn(256))})
	case 1, 2:
		return "th " + vhHex(c07HeaderBytes(r))
	case 3:
		k := []string{"L", "LH", "B", "BV", "BH"}[r.Intn(5)]
		mask := map[string]int{"L": 63, "LH": 31, "B": 63, "BV": 63, "BH": 15}[k]
		l := r.Pick(0, 1, mask-1, mask, mask+1, mask+254, mask+255, mask+256, mask+509, mask+510, mask+511, 65534, 65535, 65536, 70000,
			mask+255*r.Intn(257), r.Intn(65536))
		return fmt.Sprintf("teh %s %d %s", k, l, vhHex(r.Bytes(r.Intn(4))))
	case 4:
		l := r.Pick(0, 1, 2, 3, 4, 5, 62, 63, 64, 65535, 65534, r.Intn(40))
		n := l/2 + l%2
		d := n + r.Pick(0, 0, 0, 1, 2, -1, -2, -n)
		if d < 0 {
			d = 0
		}
		return fmt.Sprintf("tk %d %s", l, vhHex(r.Bytes(d)))
	case 5, 6, 7, 8:
		return "td " + m + " " + vhHex(c07GenNode(r))
	case 9:
		for {
			b := r.Bytes(r.Intn(12))
			if !c07Big(b, false, 0) {
				return "td " + m + " " + vhHex(b)
			}
		}
	default:
		enc := c07GenNode(r)
		if len(enc) > 600 {
			enc = enc[:600]
		}
		for try := 0; try < 20; try++ {
			mut := enc
			k := r.Pick(1, 1, 1, 2, 3)
			for i := 0; i < k; i++ {
				mut = c07Mutate(r, mut)
			}
			if !c07Big(mut, false, 0) {
				return "td " + m + " " + vhHex(mut)
			}
		}
		return "td " + m + " " + vhHex(enc)
	}
}

// c07Gen keeps case lines and outputs small and drops inputs whose SCALE length prefix makes
// pkg/scale allocate more than 2 MiB (up to 4 GiB is possible), which the model cannot materialise.
func c07Gen(r *vhRng) string {
	for {
		l := c07GenRaw(r)
		if len(l) > 300000 {
			continue
		}
		var m0, m1 runtime.MemStats
		runtime.ReadMemStats(&m0)
		out := vhCatch(func() string { return c07Run(l) })
		runtime.ReadMemStats(&m1)
		if len(out) > 400000 || m1.TotalAlloc-m0.TotalAlloc > 2<<20 {
			continue
		}
		return l
	}
}

func TestVerifC07(t *testing.T) { vhMain(t, c07Gen, c07Run) }
