//go:build verif

package triedb

// C07 harness, run 2: pkg/trie/triedb (NewEncodedLeaf / NewEncodedBranch, then codec.Decode of the bytes).
//
// case lines (m = assumed behaviour of short reads inside pkg/scale: z zero-fill, s strict, a either):
//   te <m> L <key hex> <nibbles> <I<hex>|H<hex>>
//   te <m> B <key hex> <nibbles> <nil|I<hex>|H<hex>> <16 × (_|I<hex>|H<hex>)>
// output: <encoding hex> <dump of codec.Decode[hash.H256](encoding)>

import (
	"bytes"
	"errors"
	"fmt"
	"io"
	"reflect"
	"strconv"
	"strings"
	"testing"

	"github.com/ChainSafe/gossamer/internal/primitives/core/hash"
	"github.com/ChainSafe/gossamer/pkg/scale"
	"github.com/ChainSafe/gossamer/pkg/trie/triedb/codec"
	"github.com/ChainSafe/gossamer/pkg/trie/triedb/nibbles"
)

func c07ScaleMode() string {
	var b []byte
	if err := scale.Unmarshal([]byte{0x08, 0x01}, &b); err != nil {
		return "s"
	}
	return "z"
}

func c07Err(err error) string {
	switch {
	case errors.Is(err, codec.ErrVariantUnknown):
		return "err-variant"
	case errors.Is(err, codec.ErrPartialKeyTooBig):
		return "err-keybig"
	case errors.Is(err, codec.ErrReaderMismatchCount):
		return "err-mismatch"
	case errors.Is(err, codec.ErrDecodeHashedValueTooShort):
		return "err-hashshort"
	case errors.Is(err, codec.ErrReadChildrenBitmap):
		return "err-bitmap"
	case errors.Is(err, codec.ErrDecodeChildHash):
		return "err-child"
	case errors.Is(err, codec.ErrDecodeStorageValue):
		return "err-value"
	case errors.Is(err, codec.ErrVariantNotSupported):
		return "err-unsupported"
	case errors.Is(err, io.EOF):
		return "err-eof"
	}
	return "err-other"
}

func c07Nib(n nibbles.Nibbles) string {
	v := reflect.ValueOf(n)
	d := v.Field(0)
	b := make([]byte, d.Len())
	for i := range b {
		b[i] = byte(d.Index(i).Uint())
	}
	return fmt.Sprintf("%s/%d", vhHex(b), v.Field(1).Uint())
}

func c07Value(v codec.EncodedValue) string {
	switch v := v.(type) {
	case nil:
		return "nil"
	case codec.InlineValue:
		return "I" + vhHex(v)
	case codec.HashedValue[hash.H256]:
		return "H" + vhHex(v.Hash.Bytes())
	}
	return "?"
}

func c07Dump(n codec.EncodedNode) string {
	switch n := n.(type) {
	case codec.Empty:
		return "E"
	case codec.Leaf:
		return "L:" + c07Nib(n.PartialKey) + ":" + c07Value(n.Value)
	case codec.Branch:
		var sb strings.Builder
		sb.WriteString("B:" + c07Nib(n.PartialKey) + ":" + c07Value(n.Value) + ":(")
		for i, c := range n.Children {
			if i > 0 {
				sb.WriteString(",")
			}
			switch c := c.(type) {
			case nil:
				sb.WriteString("_")
			case codec.InlineNode:
				sb.WriteString("I" + vhHex(c))
			case codec.HashedNode[hash.H256]:
				sb.WriteString("H" + vhHex(c.Hash.Bytes()))
			default:
				sb.WriteString("?")
			}
		}
		sb.WriteString(")")
		return sb.String()
	}
	return "?"
}

func c07Decode(b []byte) string {
	n, err := codec.Decode[hash.H256](bytes.NewReader(b))
	if err != nil {
		return c07Err(err)
	}
	return c07Dump(n)
}

func c07ParseValue(s string) codec.EncodedValue {
	switch {
	case s == "nil":
		return nil
	case s[0] == 'I':
		return codec.InlineValue(vhUnhex(s[1:]))
	case s[0] == 'H':
		return codec.HashedValue[hash.H256]{Hash: hash.H256(vhUnhex(s[1:]))}
	}
	panic("bad value " + s)
}

func c07Run(line string) string {
	f := strings.Fields(line)
	if f[0] != "te" {
		return "bad-op"
	}
	if f[1] != "a" && f[1] != c07ScaleMode() {
		return "scale-mode-mismatch"
	}
	key := vhUnhex(f[3])
	n, _ := strconv.Atoi(f[4])
	buf := bytes.NewBuffer(nil)
	switch f[2] {
	case "L":
		if err := NewEncodedLeaf(key, uint(n), c07ParseValue(f[5]), buf); err != nil {
			return "err-other"
		}
	case "B":
		var children [codec.ChildrenCapacity]ChildReference
		for i := 0; i < codec.ChildrenCapacity; i++ {
			s := f[6+i]
			switch {
			case s == "_":
			case s[0] == 'I':
				children[i] = InlineChildReference(vhUnhex(s[1:]))
			case s[0] == 'H':
				children[i] = HashChildReference[hash.H256]{Hash: hash.H256(vhUnhex(s[1:]))}
			}
		}
		if err := NewEncodedBranch(key, uint(n), children, c07ParseValue(f[5]), buf); err != nil {
			return "err-other"
		}
	default:
		return "bad-op"
	}
	return vhHex(buf.Bytes()) + " " + c07Decode(buf.Bytes())
}

// ---------------------------------------------------------------------------- generators

func c07PkLen(r *vhRng, mask int) int {
	switch {
	case r.Chance(1, 120):
		l := r.Pick(65534, 65535, mask+255*r.Intn(257), mask+255*(1+r.Intn(256))-1, mask+255*(1+r.Intn(256))+1)
		if l > 65535 {
			l = 65535
		}
		return l
	case r.Chance(1, 4):
		return r.Pick(mask-1, mask, mask+1, mask+253, mask+254, mask+255, mask+256, mask+509, mask+510, mask+511)
	case r.Chance(1, 3):
		return r.Pick(0, 1, 2, 3, 14, 15, 16, 30, 31, 32, 62, 63, 64, 65)
	}
	return r.Intn(8)
}

func c07Hash(r *vhRng) []byte {
	switch r.Intn(60) {
	case 0:
		return make([]byte, 32)
	case 1:
		b := make([]byte, 32)
		b[r.Intn(32)] = byte(1 + r.Intn(255))
		return b
	}
	return r.Bytes(32)
}

func c07ValTok(r *vhRng, hashed bool) string {
	if hashed {
		return "H" + vhHex(c07Hash(r))
	}
	n := r.Pick(0, 1, 2, 5, 31, 32, 33, 63, 64, 65, 100)
	if r.Chance(1, 40) {
		n = r.Pick(16383, 16384, 16385)
	}
	return "I" + vhHex(r.Bytes(n))
}

func c07Gen(r *vhRng) string {
	m := c07ScaleMode()
	hashed := r.Chance(1, 3)
	if r.Chance(2, 5) {
		mask := 63
		if hashed {
			mask = 31
		}
		l := c07PkLen(r, mask)
		key := r.Bytes(l/2 + l%2)
		if l%2 == 1 {
			key[0] &= 0x0f
		}
		if r.Chance(1, 30) {
			l = r.Pick(65536, 70000)
		}
		return fmt.Sprintf("te %s L %s %d %s", m, vhHex(key), l, c07ValTok(r, hashed))
	}
	val := "nil"
	mask := 63
	if r.Chance(1, 2) {
		val = c07ValTok(r, hashed)
		if hashed {
			mask = 15
		}
	}
	l := c07PkLen(r, mask)
	key := r.Bytes(l/2 + l%2)
	if l%2 == 1 {
		key[0] &= 0x0f
	}
	var sb strings.Builder
	fmt.Fprintf(&sb, "te %s B %s %d %s", m, vhHex(key), l, val)
	nk := r.Pick(0, 1, 1, 2, 3, 16)
	var bm uint16
	for i := 0; i < nk; i++ {
		bm |= 1 << uint(r.Intn(16))
	}
	if nk == 16 {
		bm = 0xffff
	}
	for i := 0; i < 16; i++ {
		switch {
		case (bm>>uint(i))&1 == 0:
			sb.WriteString(" _")
		case r.Chance(1, 3):
			sb.WriteString(" I" + vhHex(r.Bytes(r.Pick(1, 2, 5, 30, 31))))
		default:
			sb.WriteString(" H" + vhHex(c07Hash(r)))
		}
	}
	return sb.String()
}

func TestVerifC07(t *testing.T) { vhMain(t, c07Gen, c07Run) }
