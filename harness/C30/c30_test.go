//go:build verif

package peerset

import (
	"fmt"
	"io"
	"math"
	"sort"
	"strconv"
	"strings"
	"sync"
	"testing"
	"time"

	"github.com/ChainSafe/gossamer/internal/log"
	"github.com/libp2p/go-libp2p/core/peer"
)

// Harness of property C30.  A case is `<maxIn> <maxOut> <ro>|op;op;...` over peers 0..4; every op is
// applied to a real PeerSet through the synchronous method the actor of handler.go calls, the
// result channel is drained after each op.
//
// Time: `adv k mask` lets k more seconds pass before the next updateTime (latestTimeUpdate is
// moved back) and fixes the outcome of the seconds-of-the-minute forget comparison for the nodes
// that exist when an operation starts (their lastConnected is rewritten relative to the clock).
//
// Go map order: the messages an op emits depend on map iteration order.  The generator runs the
// real code and records the emitted messages in the line as the op's hint (`>C1D2`); run() redoes
// an op from a snapshot until the real code emits the hinted messages again (`badhint` when it
// never does), so that the output is a function of the line.

const c30NP = 5

var c30IDs = [c30NP]peer.ID{"p0", "p1", "p2", "p3", "p4"}

var c30Once sync.Once

// c30Shuffle only permutes map insertion order when an op is retried; it never influences which
// output a line has, only how fast the hinted map order is found.
var c30Shuffle = vhNewRng(12345)

type c30Sys struct {
	ps      *PeerSet
	pending int
	mask    [c30NP]bool
	prev    [c30NP]string
}

func c30New(maxIn, maxOut uint32, ro bool) *c30Sys {
	c30Once.Do(func() { logger.Patch(log.SetWriter(io.Discard), log.SetLevel(log.Critical)) })
	ps, err := newPeerSet(NewConfigSet(maxIn, maxOut, ro, time.Hour))
	if err != nil {
		panic(err)
	}
	ps.resultMsgCh = make(chan Message, 4096)
	y := &c30Sys{ps: ps}
	for i := range y.prev {
		y.prev[i] = "x"
	}
	return y
}

func c30Idx(p peer.ID) int {
	for i, q := range c30IDs {
		if p == q {
			return i
		}
	}
	return 9
}

func c30Peers(s string) []peer.ID {
	if s == "-" {
		return nil
	}
	out := make([]peer.ID, 0, len(s))
	for _, c := range s {
		i := int(c - '0')
		if i < 0 || i >= c30NP {
			panic("bad peer")
		}
		out = append(out, c30IDs[i])
	}
	return out
}

type c30NodeSnap struct {
	has   bool
	state MembershipState
	rep   Reputation
}

type c30Snap struct {
	nodes    [c30NP]c30NodeSnap
	numIn    uint32
	numOut   uint32
	noSlot   [c30NP]bool
	reserved [c30NP]bool
	pending  int
}

func (y *c30Sys) snapshot() c30Snap {
	var sn c30Snap
	st := y.ps.peerState
	for i, id := range c30IDs {
		if n, ok := st.nodes[id]; ok {
			sn.nodes[i] = c30NodeSnap{true, n.state[0], n.reputation}
		}
		_, sn.noSlot[i] = st.sets[0].noSlotNodes[id]
		_, sn.reserved[i] = y.ps.reservedNode[id]
	}
	sn.numIn, sn.numOut = st.sets[0].numIn, st.sets[0].numOut
	sn.pending = y.pending
	return sn
}

func (y *c30Sys) restore(sn c30Snap) {
	st := y.ps.peerState
	st.nodes = make(map[peer.ID]*node)
	st.sets[0].noSlotNodes = make(map[peer.ID]struct{})
	y.ps.reservedNode = make(map[peer.ID]struct{})
	now := time.Now()
	// A fresh random bucket layout for the two maps the code iterates over (insertion order of the
	// keys plus up to five holes left by deleted dummy keys, which later insertions of the op fill
	// first): together with Go's random iteration start every iteration order that some history
	// of the maps could produce is reachable by retrying.
	layout := func(present int) []int {
		seq := []int{0, 1, 2, 3, 4}
		holes := 8 - present // the maps must stay within one bucket of eight slots
		if holes > 5 {
			holes = 5
		}
		for k := c30Shuffle.Intn(holes + 1); k > 0; k-- {
			seq = append(seq, -k)
		}
		for i := len(seq) - 1; i > 0; i-- {
			j := c30Shuffle.Intn(i + 1)
			seq[i], seq[j] = seq[j], seq[i]
		}
		return seq
	}
	dummy := func(k int) peer.ID { return peer.ID("dummy" + strconv.Itoa(-k)) }
	nNodes, nRes := 0, 0
	for i := range c30IDs {
		if sn.nodes[i].has {
			nNodes++
		}
		if sn.reserved[i] {
			nRes++
		}
	}
	for _, i := range layout(nNodes) {
		if i < 0 {
			st.nodes[dummy(i)] = nil
			continue
		}
		if sn.nodes[i].has {
			st.nodes[c30IDs[i]] = &node{
				state:         []MembershipState{sn.nodes[i].state},
				lastConnected: []time.Time{now},
				reputation:    sn.nodes[i].rep,
			}
		}
	}
	for _, i := range layout(nRes) {
		if i < 0 {
			y.ps.reservedNode[dummy(i)] = struct{}{}
			continue
		}
		if sn.reserved[i] {
			y.ps.reservedNode[c30IDs[i]] = struct{}{}
		}
	}
	for k := 1; k <= 5; k++ {
		delete(st.nodes, dummy(-k))
		delete(y.ps.reservedNode, dummy(-k))
	}
	for i, id := range c30IDs {
		if sn.noSlot[i] {
			st.sets[0].noSlotNodes[id] = struct{}{}
		}
	}
	st.sets[0].numIn, st.sets[0].numOut = sn.numIn, sn.numOut
	y.pending = sn.pending
	for len(y.ps.resultMsgCh) > 0 {
		<-y.ps.resultMsgCh
	}
}

func (y *c30Sys) drain() string {
	var b strings.Builder
	for {
		select {
		case m := <-y.ps.resultMsgCh:
			switch m.Status {
			case Connect:
				b.WriteByte('C')
			case Drop:
				b.WriteByte('D')
			case Accept:
				b.WriteByte('A')
			case Reject:
				b.WriteByte('R')
			default:
				b.WriteByte('?')
			}
			b.WriteString(strconv.Itoa(c30Idx(m.PeerID)))
			if m.setID != 0 {
				b.WriteString("#set")
			}
		default:
			return b.String()
		}
	}
}

// c30Do applies one op (tokens without the hint) once and returns the emitted messages
// ("-" for none) followed by "!" when the method returned an error.
func (y *c30Sys) do(tok []string) (res string) {
	ps := y.ps
	if tok[0] == "adv" {
		k, err := strconv.Atoi(tok[1])
		if err != nil || k < 0 {
			panic("bad adv")
		}
		y.pending += k
		y.mask = [c30NP]bool{}
		for _, id := range c30Peers(tok[2]) {
			y.mask[c30Idx(id)] = true
		}
		return "-"
	}
	for attempt := 0; ; attempt++ {
		var sn c30Snap
		if y.pending > 0 {
			sn = y.snapshot()
		}
		// the clock: the second of the minute must not wrap while the op runs
		now := time.Now()
		if y.pending > 0 {
			for now.Second() < 1 || now.Second() > 57 {
				time.Sleep(100 * time.Millisecond)
				now = time.Now()
			}
			for i, id := range c30IDs {
				if n, ok := ps.peerState.nodes[id]; ok {
					if y.mask[i] {
						n.lastConnected[0] = now.Add(-time.Second)
					} else {
						n.lastConnected[0] = now.Add(time.Second)
					}
				}
			}
		}
		mark := now.Add(-time.Duration(y.pending)*time.Second - 300*time.Millisecond)
		ps.created = mark
		ps.latestTimeUpdate = mark
		var err error
		switch tok[0] {
		case "ar":
			err = ps.addReservedPeers(0, c30Peers(tok[1])...)
		case "rr":
			err = ps.removeReservedPeers(0, c30Peers(tok[1])...)
		case "ap":
			err = ps.addPeer(0, c30Peers(tok[1]))
		case "rp":
			err = ps.removePeer(0, c30Peers(tok[1])...)
		case "in":
			err = ps.incoming(0, c30Peers(tok[1])...)
		case "dc":
			err = ps.disconnect(0, UnknownDrop, c30Peers(tok[1])...)
		case "rep":
			v, e := strconv.ParseInt(tok[1], 10, 32)
			if e != nil {
				panic("bad rep")
			}
			err = ps.reportPeer(ReputationChange{Value: Reputation(v), Reason: "verif"}, c30Peers(tok[2])...)
		case "tk":
			err = ps.allocSlots(0)
		default:
			panic("bad op")
		}
		end := time.Now()
		if y.pending > 0 && (end.Second() != now.Second() || end.Sub(now) > 500*time.Millisecond) && attempt < 20 {
			// the wall clock moved to another second (or the process stalled): redo
			y.restore(sn)
			continue
		}
		if !ps.latestTimeUpdate.Equal(mark) {
			y.pending = 0
		}
		res = y.drain()
		if res == "" {
			res = "-"
		}
		if err != nil {
			res += "!"
		}
		return res
	}
}

func (y *c30Sys) desc(i int) string {
	n, ok := y.ps.peerState.nodes[c30IDs[i]]
	if !ok {
		return "x"
	}
	c := "?"
	switch n.state[0] {
	case notMember:
		c = "m"
	case ingoing:
		c = "i"
	case outgoing:
		c = "o"
	case notConnected:
		c = "n"
	}
	return c + strconv.FormatInt(int64(n.reputation), 10)
}

// record prints the observable state after an op: counters, reserved / no-slot sets, the nodes
// that changed, and the property's invariants evaluated on the real state.
func (y *c30Sys) record(msgs string) string {
	st := y.ps.peerState
	info := st.sets[0]
	var rs, ns, delta []string
	cin, cout := uint32(0), uint32(0)
	nonResBanned, resBanned := false, false
	for i, id := range c30IDs {
		_, res := y.ps.reservedNode[id]
		_, nos := info.noSlotNodes[id]
		if res {
			rs = append(rs, strconv.Itoa(i))
		}
		if nos {
			ns = append(ns, strconv.Itoa(i))
		}
		d := y.desc(i)
		if d != y.prev[i] {
			delta = append(delta, strconv.Itoa(i)+d)
			y.prev[i] = d
		}
		if n, ok := st.nodes[id]; ok {
			if n.state[0] == ingoing && !nos {
				cin++
			}
			if n.state[0] == outgoing && !nos {
				cout++
			}
			if (n.state[0] == ingoing || n.state[0] == outgoing) && n.reputation < BannedThresholdValue {
				if res {
					resBanned = true
				} else {
					nonResBanned = true
				}
			}
		}
	}
	fl := ""
	if info.numIn > info.maxIn {
		fl += "a"
	}
	if info.numOut > info.maxOut {
		fl += "b"
	}
	if info.numIn != cin {
		fl += "c"
	}
	if info.numOut != cout {
		fl += "d"
	}
	if nonResBanned {
		fl += "e"
	}
	if resBanned {
		fl += "f"
	}
	if fl == "" {
		fl = "ok"
	}
	dl := "="
	if len(delta) > 0 {
		dl = strings.Join(delta, ",")
	}
	return fmt.Sprintf("%s %d,%d r%s n%s %s %s", msgs, info.numIn, info.numOut,
		strings.Join(rs, ""), strings.Join(ns, ""), dl, fl)
}

func (y *c30Sys) full() string {
	var parts []string
	for i := range c30IDs {
		parts = append(parts, y.desc(i))
	}
	// nodes outside the population would be a harness error
	var extra []string
	for id := range y.ps.peerState.nodes {
		if c30Idx(id) == 9 {
			extra = append(extra, string(id))
		}
	}
	sort.Strings(extra)
	return strings.Join(append(parts, extra...), ",")
}

func c30Header(h string) *c30Sys {
	f := strings.Fields(h)
	if len(f) != 3 {
		panic("bad header")
	}
	a, _ := strconv.Atoi(f[0])
	b, _ := strconv.Atoi(f[1])
	return c30New(uint32(a), uint32(b), f[2] != "0")
}

// c30Retries bounds the search for the map order that reproduces a hint.
var c30Retries = vhEnvInt("VERIF_C30_RETRIES", 20000)

func c30RunSeq(hdr, body string) string {
	y := c30Header(hdr)
	annotate := vhEnvInt("VERIF_C30_ANNOTATE", 0) != 0
	var outs []string
	var annotated []string
	for _, opS := range strings.Split(body, ";") {
		tok := strings.Fields(opS)
		if len(tok) == 0 {
			continue
		}
		hint := ""
		if last := tok[len(tok)-1]; strings.HasPrefix(last, ">") {
			hint = last[1:]
			tok = tok[:len(tok)-1]
		}
		if tok[0] == "adv" {
			outs = append(outs, y.record(y.do(tok)))
			annotated = append(annotated, strings.Join(tok, " "))
			continue
		}
		want := hint
		if want == "" {
			want = "-"
		}
		sn := y.snapshot()
		got := ""
		ok := false
		first, varied := "", false
		for try := 0; try < c30Retries; try++ {
			if try == 400 && !varied {
				break // the op is deterministic here and does not emit the hinted messages
			}
			if try > 0 {
				y.restore(sn)
			}
			panicked := false
			func() {
				defer func() {
					if r := recover(); r != nil {
						panicked = true
					}
				}()
				got = y.do(tok)
			}()
			if panicked {
				outs = append(outs, "panic")
				return strings.Join(outs, ";")
			}
			if annotate || strings.TrimSuffix(got, "!") == want {
				ok = true
				break
			}
			if try == 0 {
				first = got
			} else if got != first {
				varied = true
			}
		}
		if !ok {
			outs = append(outs, "badhint")
			return strings.Join(outs, ";")
		}
		annotated = append(annotated, strings.Join(tok, " ")+" >"+strings.TrimSuffix(strings.TrimSuffix(got, "!"), "-"))
		outs = append(outs, y.record(got))
	}
	if annotate {
		return hdr + "|" + strings.Join(annotated, ";")
	}
	return strings.Join(outs, ";") + "|" + y.full()
}

func c30Run(line string) string {
	if i := strings.IndexByte(line, '|'); i >= 0 {
		return vhWithTimeout(20000, func() string { return c30RunSeq(line[:i], line[i+1:]) })
	}
	f := strings.Fields(line)
	p32 := func(s string) Reputation {
		v, err := strconv.ParseInt(s, 10, 32)
		if err != nil {
			panic("bad int")
		}
		return Reputation(v)
	}
	switch f[0] {
	case "add":
		return strconv.FormatInt(int64(p32(f[1]).add(p32(f[2]))), 10)
	case "sub":
		return strconv.FormatInt(int64(p32(f[1]).sub(p32(f[2]))), 10)
	case "tickrep":
		return strconv.FormatInt(int64(reputationTick(p32(f[1]))), 10)
	case "const":
		switch f[1] {
		case "BannedThresholdValue":
			return strconv.FormatInt(int64(BannedThresholdValue), 10)
		case "disconnectReputationChange":
			return strconv.FormatInt(int64(disconnectReputationChange), 10)
		case "MinInt32":
			return strconv.FormatInt(math.MinInt32, 10)
		case "MaxInt32":
			return strconv.FormatInt(math.MaxInt32, 10)
		}
	}
	return "bad-op"
}

// ---------------------------------------------------------------------------------- generator

var c30RepVals = []int64{
	1, -1, 16, -4, 128, -256, -1024, -4096, -(1 << 16), -(1 << 20), 1 << 20, 1 << 30, -(1 << 30),
	math.MaxInt32, math.MinInt32, math.MinInt32 + 1, math.MaxInt32 - 1,
	int64(BannedThresholdValue), int64(BannedThresholdValue) - 1, int64(BannedThresholdValue) + 1,
	int64(BannedThresholdValue) + 256, int64(BannedThresholdValue) + 255, -int64(BannedThresholdValue),
	49, 50, 51, -49, -50, -51, 99, 100, 2, 3,
}

func c30Int32(r *vhRng) int64 {
	switch r.Intn(6) {
	case 0:
		return int64(int32(r.U64()))
	case 1:
		return int64(r.Intn(201) - 100)
	case 2:
		b := []int64{math.MinInt32, math.MaxInt32, 0, int64(BannedThresholdValue)}[r.Intn(4)]
		v := b + int64(r.Intn(5)-2)
		if v < math.MinInt32 {
			v = math.MinInt32
		}
		if v > math.MaxInt32 {
			v = math.MaxInt32
		}
		return v
	default:
		return c30RepVals[r.Intn(len(c30RepVals))]
	}
}

func c30PeerList(r *vhRng, y *c30Sys, want func(i int) bool) string {
	n := 1
	switch r.Intn(10) {
	case 0, 1:
		n = 2
	case 2:
		n = 3
	case 3:
		n = r.Intn(5)
	}
	if n == 0 {
		return "-"
	}
	var b strings.Builder
	for k := 0; k < n; k++ {
		i := r.Intn(c30NP)
		if want != nil && r.Chance(2, 3) {
			// prefer a peer in the wanted state
			var c []int
			for j := 0; j < c30NP; j++ {
				if want(j) {
					c = append(c, j)
				}
			}
			if len(c) > 0 {
				i = c[r.Intn(len(c))]
			}
		}
		b.WriteString(strconv.Itoa(i))
	}
	return b.String()
}

func c30GenSeq(r *vhRng) string {
	maxIn, maxOut := r.Intn(4), r.Intn(4)
	ro := 0
	if r.Chance(1, 4) {
		ro = 1
	}
	hdr := fmt.Sprintf("%d %d %d", maxIn, maxOut, ro)
	nops := 1 + r.Intn(12)
	if r.Chance(1, 2) {
		nops = 8 + r.Intn(40)
	}
	var mu sync.Mutex
	var ops []string
	vhWithTimeout(20000, func() string {
		y := c30Header(hdr)
		st := y.ps.peerState
		connected := func(i int) bool {
			n, ok := st.nodes[c30IDs[i]]
			return ok && (n.state[0] == ingoing || n.state[0] == outgoing)
		}
		notConn := func(i int) bool {
			n, ok := st.nodes[c30IDs[i]]
			return ok && n.state[0] == notConnected
		}
		reserved := func(i int) bool { _, ok := y.ps.reservedNode[c30IDs[i]]; return ok }
		for k := 0; k < nops; k++ {
			var tok []string
			switch w := r.Intn(100); {
			case w < 18:
				tok = []string{"ap", c30PeerList(r, y, nil)}
			case w < 32:
				tok = []string{"in", c30PeerList(r, y, notConn)}
			case w < 44:
				tok = []string{"dc", c30PeerList(r, y, connected)}
			case w < 62:
				tok = []string{"rep", strconv.FormatInt(c30Int32(r), 10), c30PeerList(r, y, nil)}
			case w < 70:
				tok = []string{"ar", c30PeerList(r, y, nil)}
			case w < 78:
				tok = []string{"rr", c30PeerList(r, y, reserved)}
			case w < 85:
				tok = []string{"rp", c30PeerList(r, y, nil)}
			case w < 90:
				tok = []string{"tk"}
			default:
				k := r.Pick(1, 1, 1, 2, 3, 5, 10, 40, 200, 1200)
				m := ""
				for i := 0; i < c30NP; i++ {
					if r.Bool() {
						m += strconv.Itoa(i)
					}
				}
				if m == "" {
					m = "-"
				}
				tok = []string{"adv", strconv.Itoa(k), m}
			}
			line := strings.Join(tok, " ")
			mu.Lock()
			ops = append(ops, line) // recorded before the call: a hang or panic leaves the op without a hint
			mu.Unlock()
			if tok[0] == "adv" {
				y.do(tok)
				continue
			}
			got := strings.TrimSuffix(y.do(tok), "!")
			if got == "-" {
				got = ""
			}
			mu.Lock()
			ops[len(ops)-1] = line + " >" + got
			mu.Unlock()
		}
		return ""
	})
	mu.Lock()
	defer mu.Unlock()
	return hdr + "|" + strings.Join(ops, ";")
}

func c30Gen(r *vhRng) string {
	switch w := r.Intn(100); {
	case w < 4:
		return fmt.Sprintf("add %d %d", c30Int32(r), c30Int32(r))
	case w < 8:
		return fmt.Sprintf("sub %d %d", c30Int32(r), c30Int32(r))
	case w < 11:
		return fmt.Sprintf("tickrep %d", c30Int32(r))
	case w < 12:
		return "const " + []string{"BannedThresholdValue", "disconnectReputationChange", "MinInt32", "MaxInt32"}[r.Intn(4)]
	}
	return c30GenSeq(r)
}

func TestVerifC30(t *testing.T) { vhMain(t, c30Gen, c30Run) }
