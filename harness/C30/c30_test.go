//go:build verif

package peerset

import (
	"context"
	"errors"
	"fmt"
	"io"
	"math"
	"sort"
	"strconv"
	"strings"
	"sync"
	"testing"
	"time"

	"github.com/ChainSafe/gossamer/internal/log"
	"github.com/libp2p/go-libp2p/core/peer"
)

// Harness of property C30.  A case is `<maxIn> <maxOut> <ro>|op;op;...` over peers 0..4; every op is
// applied to a real PeerSet through the synchronous method the actor of handler.go calls, the
// result channel is drained after each op.
//
// Time: `adv k mask` lets k more seconds pass before the next updateTime (latestTimeUpdate is
// moved back) and fixes the outcome of the seconds-of-the-minute forget comparison for the nodes
// that exist when an operation starts (their lastConnected is rewritten relative to the clock).
//
// Go map order: the messages an op emits depend on map iteration order.  The generator runs the
// real code and records the emitted messages in the line as the op's hint (`>C1D2`); run() redoes
// an op from a snapshot until the real code emits the hinted messages again (`badhint` when it
// never does), so that the output is a function of the line.

const c30NP = 5

var c30IDs = [c30NP]peer.ID{"p0", "p1", "p2", "p3", "p4"}

var c30Once sync.Once

// c30Shuffle only permutes map insertion order when an op is retried; it never influences which
// output a line has, only how fast the hinted map order is found.
var c30Shuffle = vhNewRng(12345)

type c30Sys struct {
	ps      *PeerSet
	h       *Handler // non-nil: the ops go through the public Handler API and the actor goroutine
	pending int
	mask    [c30NP]bool
	prev    [c30NP]string
}

func c30New(maxIn, maxOut uint32, ro bool, via bool) *c30Sys {
	c30Once.Do(func() { logger.Patch(log.SetWriter(io.Discard), log.SetLevel(log.Critical)) })
	y := &c30Sys{}
	if via {
		// the ticker of the actor never fires: the periodic allocSlots is the explicit op `tk`
		h, err := NewPeerSetHandler(&ConfigSet{Set: []*config{{maxInPeers: maxIn, maxOutPeers: maxOut,
			reservedOnly: ro, periodicAllocTime: 100000 * time.Hour}}})
		if err != nil {
			panic(err)
		}
		h.Start(context.Background())
		y.h = h
		y.ps = h.peerSet
	} else {
		ps, err := newPeerSet(NewConfigSet(maxIn, maxOut, ro, time.Hour))
		if err != nil {
			panic(err)
		}
		ps.resultMsgCh = make(chan Message, 4096)
		y.ps = ps
	}
	for i := range y.prev {
		y.prev[i] = "x"
	}
	return y
}

// close stops the actor goroutine of a Handler-driven system.
func (y *c30Sys) close() {
	if y.h != nil {
		y.h.Stop()
	}
}

// barrier returns when the actor has served every action sent before: the actor serves the queue
// in order and answers a sortedPeers action on an unbuffered channel.
func (y *c30Sys) barrier() peer.IDSlice { return <-y.h.SortedPeers(0) }

// sorted prints a sortedPeers result; peers of equal reputation (whose order Go leaves to the map
// order) are put in ascending peer order, nothing else is reordered.
func (y *c30Sys) sorted(ids peer.IDSlice) string {
	idx := make([]int, len(ids))
	rep := make([]Reputation, len(ids))
	for i, id := range ids {
		idx[i] = c30Idx(id)
		if n, ok := y.ps.peerState.nodes[id]; ok {
			rep[i] = n.reputation
		}
	}
	for a := 0; a < len(idx); {
		b := a
		for b < len(idx) && rep[b] == rep[a] {
			b++
		}
		sort.Ints(idx[a:b])
		a = b
	}
	out := "S"
	for _, i := range idx {
		out += strconv.Itoa(i)
	}
	if len(idx) == 0 {
		out += "-"
	}
	return out
}

// call performs the op once: through the synchronous method, or (Handler-driven) through the
// public API followed by the barrier.  `tk` and `dcr` have no API: they are called directly
// while the actor is idle.
func (y *c30Sys) call(tok []string) (err error, reply string) {
	ps := y.ps
	rep := func() ReputationChange {
		v, e := strconv.ParseInt(tok[1], 10, 32)
		if e != nil {
			panic("bad rep")
		}
		return ReputationChange{Value: Reputation(v), Reason: "verif"}
	}
	switch tok[0] {
	case "tk":
		return ps.allocSlots(0), ""
	case "dcr":
		return ps.disconnect(0, RefusedDrop, c30Peers(tok[1])...), ""
	}
	if y.h != nil {
		switch tok[0] {
		case "ar":
			y.h.AddReservedPeer(0, c30Peers(tok[1])...)
		case "rr":
			y.h.RemoveReservedPeer(0, c30Peers(tok[1])...)
		case "sr":
			y.h.SetReservedPeer(0, c30Peers(tok[1])...)
		case "ap":
			y.h.AddPeer(0, c30Peers(tok[1])...)
		case "rp":
			y.h.RemovePeer(0, c30Peers(tok[1])...)
		case "in":
			y.h.Incoming(0, c30Peers(tok[1])...)
		case "dc":
			y.h.DisconnectPeer(0, c30Peers(tok[1])...)
		case "rep":
			y.h.ReportPeer(rep(), c30Peers(tok[2])...)
		case "so":
			y.h.actionQueue <- action{actionCall: setReservedOnly} // no public method sends this action
		case "sp":
			return nil, y.sorted(y.barrier())
		default:
			panic("bad op")
		}
		y.barrier()
		return nil, ""
	}
	switch tok[0] {
	case "ar":
		err = ps.addReservedPeers(0, c30Peers(tok[1])...)
	case "rr":
		err = ps.removeReservedPeers(0, c30Peers(tok[1])...)
	case "sr":
		err = ps.setReservedPeer(0, c30Peers(tok[1])...)
	case "ap":
		err = ps.addPeer(0, c30Peers(tok[1]))
	case "rp":
		err = ps.removePeer(0, c30Peers(tok[1])...)
	case "in":
		err = ps.incoming(0, c30Peers(tok[1])...)
	case "dc":
		err = ps.disconnect(0, UnknownDrop, c30Peers(tok[1])...)
	case "rep":
		err = ps.reportPeer(rep(), c30Peers(tok[2])...)
	case "sp":
		return nil, y.sorted(ps.peerState.sortedPeers(0))
	case "so":
		err = errors.New("not implemented yet") // what the actor answers; there is no method
	default:
		panic("bad op")
	}
	return err, ""
}

func c30Idx(p peer.ID) int {
	for i, q := range c30IDs {
		if p == q {
			return i
		}
	}
	return 9
}

func c30Peers(s string) []peer.ID {
	if s == "-" {
		return nil
	}
	out := make([]peer.ID, 0, len(s))
	for _, c := range s {
		i := int(c - '0')
		if i < 0 || i >= c30NP {
			panic("bad peer")
		}
		out = append(out, c30IDs[i])
	}
	return out
}

type c30NodeSnap struct {
	has   bool
	state MembershipState
	rep   Reputation
}

type c30Snap struct {
	nodes    [c30NP]c30NodeSnap
	numIn    uint32
	numOut   uint32
	noSlot   [c30NP]bool
	reserved [c30NP]bool
	pending  int
}

func (y *c30Sys) snapshot() c30Snap {
	var sn c30Snap
	st := y.ps.peerState
	for i, id := range c30IDs {
		if n, ok := st.nodes[id]; ok {
			sn.nodes[i] = c30NodeSnap{true, n.state[0], n.reputation}
		}
		_, sn.noSlot[i] = st.sets[0].noSlotNodes[id]
		_, sn.reserved[i] = y.ps.reservedNode[id]
	}
	sn.numIn, sn.numOut = st.sets[0].numIn, st.sets[0].numOut
	sn.pending = y.pending
	return sn
}

func (y *c30Sys) restore(sn c30Snap) {
	st := y.ps.peerState
	st.nodes = make(map[peer.ID]*node)
	st.sets[0].noSlotNodes = make(map[peer.ID]struct{})
	y.ps.reservedNode = make(map[peer.ID]struct{})
	now := time.Now()
	// A fresh random bucket layout for the two maps the code iterates over (insertion order of the
	// keys plus up to five holes left by deleted dummy keys, which later insertions of the op fill
	// first): together with Go's random iteration start every iteration order that some history
	// of the maps could produce is reachable by retrying.
	layout := func(present int) []int {
		seq := []int{0, 1, 2, 3, 4}
		holes := 8 - present // the maps must stay within one bucket of eight slots
		if holes > 5 {
			holes = 5
		}
		for k := c30Shuffle.Intn(holes + 1); k > 0; k-- {
			seq = append(seq, -k)
		}
		for i := len(seq) - 1; i > 0; i-- {
			j := c30Shuffle.Intn(i + 1)
			seq[i], seq[j] = seq[j], seq[i]
		}
		return seq
	}
	dummy := func(k int) peer.ID { return peer.ID("dummy" + strconv.Itoa(-k)) }
	nNodes, nRes := 0, 0
	for i := range c30IDs {
		if sn.nodes[i].has {
			nNodes++
		}
		if sn.reserved[i] {
			nRes++
		}
	}
	for _, i := range layout(nNodes) {
		if i < 0 {
			st.nodes[dummy(i)] = nil
			continue
		}
		if sn.nodes[i].has {
			st.nodes[c30IDs[i]] = &node{
				state:         []MembershipState{sn.nodes[i].state},
				lastConnected: []time.Time{now},
				reputation:    sn.nodes[i].rep,
			}
		}
	}
	for _, i := range layout(nRes) {
		if i < 0 {
			y.ps.reservedNode[dummy(i)] = struct{}{}
			continue
		}
		if sn.reserved[i] {
			y.ps.reservedNode[c30IDs[i]] = struct{}{}
		}
	}
	for k := 1; k <= 5; k++ {
		delete(st.nodes, dummy(-k))
		delete(y.ps.reservedNode, dummy(-k))
	}
	for i, id := range c30IDs {
		if sn.noSlot[i] {
			st.sets[0].noSlotNodes[id] = struct{}{}
		}
	}
	st.sets[0].numIn, st.sets[0].numOut = sn.numIn, sn.numOut
	y.pending = sn.pending
	for len(y.ps.resultMsgCh) > 0 {
		<-y.ps.resultMsgCh
	}
}

func (y *c30Sys) drain() string {
	var b strings.Builder
	for {
		select {
		case m := <-y.ps.resultMsgCh:
			switch m.Status {
			case Connect:
				b.WriteByte('C')
			case Drop:
				b.WriteByte('D')
			case Accept:
				b.WriteByte('A')
			case Reject:
				b.WriteByte('R')
			default:
				b.WriteByte('?')
			}
			b.WriteString(strconv.Itoa(c30Idx(m.PeerID)))
			if m.setID != 0 {
				b.WriteString("#set")
			}
		default:
			return b.String()
		}
	}
}

// c30Do applies one op (tokens without the hint) once and returns the emitted messages
// ("-" for none) followed by "!" when the method returned an error.
func (y *c30Sys) do(tok []string) (res string) {
	ps := y.ps
	if tok[0] == "adv" {
		k, err := strconv.Atoi(tok[1])
		if err != nil || k < 0 {
			panic("bad adv")
		}
		y.pending += k
		y.mask = [c30NP]bool{}
		for _, id := range c30Peers(tok[2]) {
			y.mask[c30Idx(id)] = true
		}
		return "-"
	}
	for attempt := 0; ; attempt++ {
		var sn c30Snap
		if y.pending > 0 {
			sn = y.snapshot()
		}
		// the clock: the second of the minute must not wrap while the op runs
		now := time.Now()
		if y.pending > 0 {
			for now.Second() < 1 || now.Second() > 57 {
				time.Sleep(100 * time.Millisecond)
				now = time.Now()
			}
			for i, id := range c30IDs {
				if n, ok := ps.peerState.nodes[id]; ok {
					if y.mask[i] {
						n.lastConnected[0] = now.Add(-time.Second)
					} else {
						n.lastConnected[0] = now.Add(time.Second)
					}
				}
			}
		}
		mark := now.Add(-time.Duration(y.pending)*time.Second - 300*time.Millisecond)
		ps.created = mark
		ps.latestTimeUpdate = mark
		err, reply := y.call(tok)
		end := time.Now()
		if y.pending > 0 && (end.Second() != now.Second() || end.Sub(now) > 500*time.Millisecond) && attempt < 20 {
			// the wall clock moved to another second (or the process stalled): redo
			y.restore(sn)
			continue
		}
		if !ps.latestTimeUpdate.Equal(mark) {
			y.pending = 0
		}
		res = reply + y.drain()
		if res == "" {
			res = "-"
		}
		if err != nil && y.h == nil {
			res += "!" // through the Handler the error is only logged
		}
		return res
	}
}

func (y *c30Sys) desc(i int) string {
	n, ok := y.ps.peerState.nodes[c30IDs[i]]
	if !ok {
		return "x"
	}
	c := "?"
	switch n.state[0] {
	case notMember:
		c = "m"
	case ingoing:
		c = "i"
	case outgoing:
		c = "o"
	case notConnected:
		c = "n"
	}
	return c + strconv.FormatInt(int64(n.reputation), 10)
}

// record prints the observable state after an op: counters, reserved / no-slot sets, the nodes
// that changed, and the property's invariants evaluated on the real state.
func (y *c30Sys) record(msgs string) string {
	st := y.ps.peerState
	info := st.sets[0]
	var rs, ns, delta []string
	cin, cout := uint32(0), uint32(0)
	nonResBanned, resBanned := false, false
	for i, id := range c30IDs {
		_, res := y.ps.reservedNode[id]
		_, nos := info.noSlotNodes[id]
		if res {
			rs = append(rs, strconv.Itoa(i))
		}
		if nos {
			ns = append(ns, strconv.Itoa(i))
		}
		d := y.desc(i)
		if d != y.prev[i] {
			delta = append(delta, strconv.Itoa(i)+d)
			y.prev[i] = d
		}
		if n, ok := st.nodes[id]; ok {
			if n.state[0] == ingoing && !nos {
				cin++
			}
			if n.state[0] == outgoing && !nos {
				cout++
			}
			if (n.state[0] == ingoing || n.state[0] == outgoing) && n.reputation < BannedThresholdValue {
				if res {
					resBanned = true
				} else {
					nonResBanned = true
				}
			}
		}
	}
	fl := ""
	if info.numIn > info.maxIn {
		fl += "a"
	}
	if info.numOut > info.maxOut {
		fl += "b"
	}
	if info.numIn != cin {
		fl += "c"
	}
	if info.numOut != cout {
		fl += "d"
	}
	if nonResBanned {
		fl += "e"
	}
	if resBanned {
		fl += "f"
	}
	if fl == "" {
		fl = "ok"
	}
	dl := "="
	if len(delta) > 0 {
		dl = strings.Join(delta, ",")
	}
	return fmt.Sprintf("%s %d,%d r%s n%s %s %s", msgs, info.numIn, info.numOut,
		strings.Join(rs, ""), strings.Join(ns, ""), dl, fl)
}

func (y *c30Sys) full() string {
	var parts []string
	for i := range c30IDs {
		parts = append(parts, y.desc(i))
	}
	// nodes outside the population would be a harness error
	var extra []string
	for id := range y.ps.peerState.nodes {
		if c30Idx(id) == 9 {
			extra = append(extra, string(id))
		}
	}
	sort.Strings(extra)
	return strings.Join(append(parts, extra...), ",")
}

func c30Header(h string) *c30Sys {
	f := strings.Fields(h)
	via := len(f) == 4 && f[3] == "h"
	if len(f) != 3 && !via {
		panic("bad header")
	}
	a, _ := strconv.Atoi(f[0])
	b, _ := strconv.Atoi(f[1])
	return c30New(uint32(a), uint32(b), f[2] != "0", via)
}

func (y *c30Sys) reservedSet() (r [c30NP]bool) {
	for i, id := range c30IDs {
		_, r[i] = y.ps.reservedNode[id]
	}
	return r
}

// unreserved lists (ascending) the peers that were reserved before and are not any more.
func (y *c30Sys) unreserved(before [c30NP]bool) string {
	after := y.reservedSet()
	out := ""
	for i := range before {
		if before[i] && !after[i] {
			out += strconv.Itoa(i)
		}
	}
	return out
}

// srOrd reconstructs, after a setReservedPeer, an order of the unreserved peers that explains what
// happened: peers dropped later come later (their Drop messages are in processing order), a peer
// whose node is missing made removeReservedPeers return and is last; the others are first.
func (y *c30Sys) srOrd(before [c30NP]bool, msgs string) string {
	removed := y.unreserved(before)
	var firstPart, dropped, last string
	for i := 0; i+1 < len(msgs); i += 2 {
		if msgs[i] == 'D' && strings.IndexByte(removed, msgs[i+1]) >= 0 {
			dropped += string(msgs[i+1])
		}
	}
	for _, c := range removed {
		if strings.ContainsRune(dropped, c) {
			continue
		}
		if _, ok := y.ps.peerState.nodes[c30IDs[int(c-'0')]]; ok {
			firstPart += string(c)
		} else {
			last += string(c)
		}
	}
	if out := firstPart + dropped + last; out != "" {
		return out
	}
	return "-"
}

func c30SortDigits(s string) string {
	if s == "-" {
		return ""
	}
	b := []byte(s)
	sort.Slice(b, func(i, j int) bool { return b[i] < b[j] })
	out := b[:0]
	for i, c := range b {
		if i == 0 || c != b[i-1] {
			out = append(out, c)
		}
	}
	return string(out)
}

// c30Retries bounds the search for the map order that reproduces a hint.
var c30Retries = vhEnvInt("VERIF_C30_RETRIES", 20000)

func c30RunSeq(hdr, body string) string {
	y := c30Header(hdr)
	defer y.close()
	annotate := vhEnvInt("VERIF_C30_ANNOTATE", 0) != 0
	var outs []string
	var annotated []string
	for _, opS := range strings.Split(body, ";") {
		tok := strings.Fields(opS)
		if len(tok) == 0 {
			continue
		}
		hint := ""
		if last := tok[len(tok)-1]; strings.HasPrefix(last, ">") {
			hint = last[1:]
			tok = tok[:len(tok)-1]
		}
		if tok[0] == "adv" || tok[0] == "sp" || tok[0] == "so" {
			// no map-order dependence: applied once
			outs = append(outs, y.record(y.do(tok)))
			annotated = append(annotated, strings.Join(tok, " "))
			continue
		}
		want := hint
		if want == "" {
			want = "-"
		}
		wantGone := ""
		if tok[0] == "sr" {
			if len(tok) == 2 && annotate {
				tok = append(tok, "-")
			}
			if len(tok) != 3 {
				panic("bad sr")
			}
			wantGone = c30SortDigits(tok[2])
		}
		sn := y.snapshot()
		before := y.reservedSet()
		got := ""
		ok := false
		first, varied := "", false
		for try := 0; try < c30Retries; try++ {
			if try == 400 && !varied {
				break // the op is deterministic here and does not do what the line says
			}
			if try > 0 {
				y.restore(sn)
			}
			panicked := false
			func() {
				defer func() {
					if r := recover(); r != nil {
						panicked = true
					}
				}()
				got = y.do(tok)
			}()
			if panicked {
				outs = append(outs, "panic")
				return strings.Join(outs, ";")
			}
			gone := ""
			if tok[0] == "sr" {
				gone = y.unreserved(before)
			}
			if annotate || (strings.TrimSuffix(got, "!") == want && gone == wantGone) {
				ok = true
				break
			}
			if try == 0 {
				first = got + "/" + gone
			} else if got+"/"+gone != first {
				varied = true
			}
		}
		if !ok {
			outs = append(outs, "badhint")
			return strings.Join(outs, ";")
		}
		msgs := strings.TrimSuffix(strings.TrimSuffix(got, "!"), "-")
		if tok[0] == "sr" {
			tok[2] = y.srOrd(before, msgs)
		}
		annotated = append(annotated, strings.Join(tok, " ")+" >"+msgs)
		outs = append(outs, y.record(got))
	}
	if annotate {
		return hdr + "|" + strings.Join(annotated, ";")
	}
	return strings.Join(outs, ";") + "|" + y.full()
}

func c30Run(line string) string {
	if i := strings.IndexByte(line, '|'); i >= 0 {
		return vhWithTimeout(20000, func() string { return c30RunSeq(line[:i], line[i+1:]) })
	}
	f := strings.Fields(line)
	p32 := func(s string) Reputation {
		v, err := strconv.ParseInt(s, 10, 32)
		if err != nil {
			panic("bad int")
		}
		return Reputation(v)
	}
	switch f[0] {
	case "add":
		return strconv.FormatInt(int64(p32(f[1]).add(p32(f[2]))), 10)
	case "sub":
		return strconv.FormatInt(int64(p32(f[1]).sub(p32(f[2]))), 10)
	case "tickrep":
		return strconv.FormatInt(int64(reputationTick(p32(f[1]))), 10)
	case "const":
		switch f[1] {
		case "BannedThresholdValue":
			return strconv.FormatInt(int64(BannedThresholdValue), 10)
		case "disconnectReputationChange":
			return strconv.FormatInt(int64(disconnectReputationChange), 10)
		case "MinInt32":
			return strconv.FormatInt(math.MinInt32, 10)
		case "MaxInt32":
			return strconv.FormatInt(math.MaxInt32, 10)
		}
	}
	return "bad-op"
}

// ---------------------------------------------------------------------------------- generator

var c30RepVals = []int64{
	1, -1, 16, -4, 128, -256, -1024, -4096, -(1 << 16), -(1 << 20), 1 << 20, 1 << 30, -(1 << 30),
	math.MaxInt32, math.MinInt32, math.MinInt32 + 1, math.MaxInt32 - 1,
	int64(BannedThresholdValue), int64(BannedThresholdValue) - 1, int64(BannedThresholdValue) + 1,
	int64(BannedThresholdValue) + 256, int64(BannedThresholdValue) + 255, -int64(BannedThresholdValue),
	49, 50, 51, -49, -50, -51, 99, 100, 2, 3,
}

func c30Int32(r *vhRng) int64 {
	switch r.Intn(6) {
	case 0:
		return int64(int32(r.U64()))
	case 1:
		return int64(r.Intn(201) - 100)
	case 2:
		b := []int64{math.MinInt32, math.MaxInt32, 0, int64(BannedThresholdValue)}[r.Intn(4)]
		v := b + int64(r.Intn(5)-2)
		if v < math.MinInt32 {
			v = math.MinInt32
		}
		if v > math.MaxInt32 {
			v = math.MaxInt32
		}
		return v
	default:
		return c30RepVals[r.Intn(len(c30RepVals))]
	}
}

func c30PeerList(r *vhRng, y *c30Sys, want func(i int) bool) string {
	n := 1
	switch r.Intn(10) {
	case 0, 1:
		n = 2
	case 2:
		n = 3
	case 3:
		n = r.Intn(5)
	}
	if n == 0 {
		return "-"
	}
	var b strings.Builder
	for k := 0; k < n; k++ {
		i := r.Intn(c30NP)
		if want != nil && r.Chance(2, 3) {
			// prefer a peer in the wanted state
			var c []int
			for j := 0; j < c30NP; j++ {
				if want(j) {
					c = append(c, j)
				}
			}
			if len(c) > 0 {
				i = c[r.Intn(len(c))]
			}
		}
		b.WriteString(strconv.Itoa(i))
	}
	return b.String()
}

func c30GenSeq(r *vhRng, via bool) string {
	maxIn, maxOut := r.Intn(4), r.Intn(4)
	ro := 0
	if r.Chance(1, 4) {
		ro = 1
	}
	hdr := fmt.Sprintf("%d %d %d", maxIn, maxOut, ro)
	if via {
		hdr += " h"
	}
	nops := 1 + r.Intn(12)
	if r.Chance(1, 2) {
		nops = 8 + r.Intn(40)
	}
	var mu sync.Mutex
	var ops []string
	vhWithTimeout(20000, func() string {
		y := c30Header(hdr)
		defer y.close()
		st := y.ps.peerState
		connected := func(i int) bool {
			n, ok := st.nodes[c30IDs[i]]
			return ok && (n.state[0] == ingoing || n.state[0] == outgoing)
		}
		notConn := func(i int) bool {
			n, ok := st.nodes[c30IDs[i]]
			return ok && n.state[0] == notConnected
		}
		reserved := func(i int) bool { _, ok := y.ps.reservedNode[c30IDs[i]]; return ok }
		for k := 0; k < nops; k++ {
			var tok []string
			switch w := r.Intn(100); {
			case w < 16:
				tok = []string{"ap", c30PeerList(r, y, nil)}
			case w < 29:
				tok = []string{"in", c30PeerList(r, y, notConn)}
			case w < 40:
				tok = []string{"dc", c30PeerList(r, y, connected)}
			case w < 43:
				tok = []string{"dcr", c30PeerList(r, y, connected)}
			case w < 59:
				tok = []string{"rep", strconv.FormatInt(c30Int32(r), 10), c30PeerList(r, y, nil)}
			case w < 66:
				tok = []string{"ar", c30PeerList(r, y, nil)}
			case w < 72:
				tok = []string{"rr", c30PeerList(r, y, reserved)}
			case w < 78:
				// setReservedPeer: any subset, sometimes with repetitions
				m := ""
				for i := 0; i < c30NP; i++ {
					if r.Chance(2, 5) {
						m += strconv.Itoa(i)
					}
				}
				if r.Chance(1, 6) {
					m += strconv.Itoa(r.Intn(c30NP))
				}
				if m == "" {
					m = "-"
				}
				tok = []string{"sr", m, "-"}
			case w < 84:
				tok = []string{"rp", c30PeerList(r, y, nil)}
			case w < 87:
				tok = []string{"sp"}
			case w < 88:
				if via {
					tok = []string{"so"}
				} else {
					tok = []string{"sp"}
				}
			case w < 92:
				tok = []string{"tk"}
			default:
				k := r.Pick(1, 1, 1, 2, 3, 5, 10, 40, 200, 1200)
				m := ""
				for i := 0; i < c30NP; i++ {
					if r.Bool() {
						m += strconv.Itoa(i)
					}
				}
				if m == "" {
					m = "-"
				}
				tok = []string{"adv", strconv.Itoa(k), m}
			}
			line := strings.Join(tok, " ")
			mu.Lock()
			ops = append(ops, line) // recorded before the call: a hang or panic leaves the op without a hint
			mu.Unlock()
			if tok[0] == "adv" || tok[0] == "sp" || tok[0] == "so" {
				y.do(tok)
				continue
			}
			before := y.reservedSet()
			got := strings.TrimSuffix(y.do(tok), "!")
			if got == "-" {
				got = ""
			}
			if tok[0] == "sr" {
				tok[2] = y.srOrd(before, got)
				line = strings.Join(tok, " ")
			}
			mu.Lock()
			ops[len(ops)-1] = line + " >" + got
			mu.Unlock()
		}
		return ""
	})
	mu.Lock()
	defer mu.Unlock()
	return hdr + "|" + strings.Join(ops, ";")
}

func c30Gen(r *vhRng) string {
	switch w := r.Intn(100); {
	case w < 4:
		return fmt.Sprintf("add %d %d", c30Int32(r), c30Int32(r))
	case w < 8:
		return fmt.Sprintf("sub %d %d", c30Int32(r), c30Int32(r))
	case w < 11:
		return fmt.Sprintf("tickrep %d", c30Int32(r))
	case w < 12:
		return "const " + []string{"BannedThresholdValue", "disconnectReputationChange", "MinInt32", "MaxInt32"}[r.Intn(4)]
	}
	return c30GenSeq(r, false)
}

func TestVerifC30(t *testing.T) { vhMain(t, c30Gen, c30Run) }

// TestVerifC30H drives the real Handler (actor goroutine, action queue, result channel) through its
// public API; the model is the same: the actor applies the calls in order (theorem C30_actor_fifo).
func TestVerifC30H(t *testing.T) {
	vhMain(t, func(r *vhRng) string { return c30GenSeq(r, true) }, c30Run)
}
