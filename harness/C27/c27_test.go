//go:build verif

package state

import (
	"bytes"
	"encoding/binary"
	"fmt"
	"sort"
	"strconv"
	"strings"
	"sync"
	"testing"

	"github.com/ChainSafe/gossamer/dot/types"
	"github.com/ChainSafe/gossamer/internal/database"
	"github.com/ChainSafe/gossamer/lib/common"
	"github.com/ChainSafe/gossamer/pkg/scale"
)

// Property C27: SlotState.CheckEquivocation.
//
// case line = `op;op;...` over ONE fresh in-memory database:
//   check <slotNow> <slot> <hid> <sid>   -> none | proof <sid> <slot> <hidFirst> <hidSecond> | err
//   dump                                 -> start=<n|-> <slot>:<hid>/<sid>,... (slots ascending)
//   const maxSlotCapacity|pruningBound|keys|headers
// hid indexes a fixed table of real types.Header values with pairwise different hashes,
// sid indexes three authority ids.

const c27NumHeaders = 6
const c27NumSigners = 3

var (
	c27Once    sync.Once
	c27Headers []*types.Header
	c27Hashes  map[common.Hash]int
	c27Signers []types.AuthorityID
)

func c27Init() {
	c27Once.Do(func() {
		c27Hashes = map[common.Hash]int{}
		for i := 0; i < c27NumHeaders; i++ {
			h := types.NewEmptyHeader()
			h.Number = uint(1 + i/2) // headers 2k and 2k+1 share a block number
			h.ParentHash = common.MustBlake2bHash([]byte{byte(i), 'p'})
			h.StateRoot = common.MustBlake2bHash([]byte{byte(i / 3), 's'})
			h.ExtrinsicsRoot = common.MustBlake2bHash([]byte{'x'})
			h.Digest = types.NewDigest()
			switch i % 4 {
			case 1:
				pre := types.NewBABEPreRuntimeDigest([]byte{2, byte(i), 0, 0, 0, 7, 0, 0, 0, 0, 0, 0, 0})
				if err := h.Digest.Add(*pre); err != nil {
					panic(err)
				}
			case 2:
				pre := types.NewBABEPreRuntimeDigest([]byte{2, 0, 0, 0, 0, byte(i), 0, 0, 0, 0, 0, 0, 0})
				seal := types.SealDigest{ConsensusEngineID: types.BabeEngineID, Data: bytes.Repeat([]byte{byte(i)}, 64)}
				if err := h.Digest.Add(*pre, seal); err != nil {
					panic(err)
				}
			case 3:
				cons := types.ConsensusDigest{ConsensusEngineID: types.GrandpaEngineID, Data: []byte{1, 2, 3, byte(i)}}
				if err := h.Digest.Add(cons); err != nil {
					panic(err)
				}
			}
			c27Headers = append(c27Headers, h)
			c27Hashes[c27FreshHash(h)] = i
		}
		for i := 0; i < c27NumSigners; i++ {
			var id types.AuthorityID
			for j := range id {
				id[j] = 0xa0
			}
			id[31] = byte(i) // the ids differ in their last byte only
			c27Signers = append(c27Signers, id)
		}
	})
}

// c27FreshHash hashes the SCALE encoding, ignoring the cached hash field.
func c27FreshHash(h *types.Header) common.Hash {
	enc, err := scale.Marshal(*h)
	if err != nil {
		panic(err)
	}
	return common.MustBlake2bHash(enc)
}

// c27Header returns a fresh copy (no cached hash) of table header i.
func c27Header(i int) *types.Header {
	src := c27Headers[i]
	h := types.NewEmptyHeader()
	h.Number = src.Number
	h.ParentHash = src.ParentHash
	h.StateRoot = src.StateRoot
	h.ExtrinsicsRoot = src.ExtrinsicsRoot
	h.Digest = append(types.NewDigest(), src.Digest...)
	return h
}

func c27Hid(h *types.Header) string {
	if i, ok := c27Hashes[c27FreshHash(h)]; ok {
		return strconv.Itoa(i)
	}
	return "?"
}

func c27Sid(id types.AuthorityID) string {
	for i, s := range c27Signers {
		if s == id {
			return strconv.Itoa(i)
		}
	}
	return "?"
}

// c27Dump lists everything in the underlying database, decoded like CheckEquivocation does.
func c27Dump(db database.Database) string {
	it, err := db.NewIterator()
	if err != nil {
		return "err-iter"
	}
	defer it.Release()
	start := "-"
	type ent struct {
		slot uint64
		s    string
	}
	var ents []ent
	var odd []string
	mapPrefix := append([]byte(slotTablePrefix), slotHeaderMapKey...)
	startKey := append([]byte(slotTablePrefix), slotHeaderStartKey...)
	for ok := it.First(); ok; ok = it.Next() {
		k := append([]byte{}, it.Key()...)
		v := append([]byte{}, it.Value()...)
		switch {
		case bytes.Equal(k, startKey):
			if len(v) != 8 {
				start = "bad" + vhHex(v)
			} else {
				start = strconv.FormatUint(binary.LittleEndian.Uint64(v), 10)
			}
		case bytes.HasPrefix(k, mapPrefix) && len(k) == len(mapPrefix)+8:
			slot := binary.LittleEndian.Uint64(k[len(mapPrefix):])
			var encs [][]byte
			if err := scale.Unmarshal(v, &encs); err != nil {
				odd = append(odd, "?val"+vhHex(k))
				continue
			}
			parts := []string{}
			for _, e := range encs {
				hs := headerAndSigner{Header: types.NewEmptyHeader()}
				if err := scale.Unmarshal(e, &hs); err != nil {
					parts = append(parts, "?")
					continue
				}
				parts = append(parts, c27Hid(hs.Header)+"/"+c27Sid(hs.Signer))
			}
			ents = append(ents, ent{slot, strconv.FormatUint(slot, 10) + ":" + strings.Join(parts, ",")})
		default:
			odd = append(odd, "?key"+vhHex(k))
		}
	}
	sort.Slice(ents, func(i, j int) bool { return ents[i].slot < ents[j].slot })
	out := []string{"start=" + start}
	for _, e := range ents {
		out = append(out, e.s)
	}
	sort.Strings(odd)
	out = append(out, odd...)
	return strings.Join(out, " ")
}

func c27Run(line string) string {
	c27Init()
	// a fresh in-memory Pebble per case (~6 ms): reusing one instance is slower, the tombstones of the
	// pruning ranges pile up in the memtable and every dump has to step over them
	db, err := database.NewPebble("verif-c27", true)
	if err != nil {
		return "err-db"
	}
	defer db.Close()
	ss := NewSlotState(db)
	var outs []string
	for _, op := range strings.Split(line, ";") {
		outs = append(outs, vhCatch(func() string { return c27Op(db, ss, op) }))
	}
	return strings.Join(outs, ";")
}

func c27Op(db database.Database, ss *SlotState, op string) string {
	f := strings.Fields(op)
	if len(f) == 0 {
		return "bad-op"
	}
	switch f[0] {
	case "const":
		if len(f) != 2 {
			return "bad-op"
		}
		switch f[1] {
		case "maxSlotCapacity":
			return strconv.FormatUint(maxSlotCapacity, 10)
		case "pruningBound":
			return strconv.FormatUint(pruningBound, 10)
		case "keys":
			// full database keys (table prefix included) of slot 0x0102030405060708 and of the start marker
			enc := make([]byte, 8)
			binary.LittleEndian.PutUint64(enc, 0x0102030405060708)
			return vhHex(append(append([]byte(slotTablePrefix), slotHeaderMapKey...), enc...)) + " " +
				vhHex(append([]byte(slotTablePrefix), slotHeaderStartKey...))
		case "headers":
			// the table headers have pairwise different hashes, and a header read back from its
			// SCALE encoding (as CheckEquivocation stores it) has the same hash
			if len(c27Hashes) != c27NumHeaders {
				return "hash-collision"
			}
			for i := range c27Headers {
				enc, err := scale.Marshal(headerAndSigner{Header: c27Header(i), Signer: c27Signers[i%c27NumSigners]})
				if err != nil {
					return "err"
				}
				back := headerAndSigner{Header: types.NewEmptyHeader()}
				if err := scale.Unmarshal(enc, &back); err != nil {
					return "err"
				}
				if back.Header.Hash() != c27Header(i).Hash() || back.Signer != c27Signers[i%c27NumSigners] {
					return fmt.Sprintf("roundtrip-changes-%d", i)
				}
			}
			return fmt.Sprintf("distinct=%d roundtrip=ok", c27NumHeaders)
		}
		return "bad-op"
	case "dump":
		if len(f) != 1 {
			return "bad-op"
		}
		return c27Dump(db)
	case "check":
		if len(f) != 5 {
			return "bad-op"
		}
		slotNow, e1 := strconv.ParseUint(f[1], 10, 64)
		slot, e2 := strconv.ParseUint(f[2], 10, 64)
		hid, e3 := strconv.ParseUint(f[3], 10, 64)
		sid, e4 := strconv.ParseUint(f[4], 10, 64)
		if e1 != nil || e2 != nil || e3 != nil || e4 != nil || hid >= c27NumHeaders || sid >= c27NumSigners {
			return "bad-op"
		}
		hdr := c27Header(int(hid))
		proof, err := ss.CheckEquivocation(slotNow, slot, hdr, c27Signers[sid])
		if err != nil {
			return "err"
		}
		if proof == nil {
			return "none"
		}
		return fmt.Sprintf("proof %s %d %s %s", c27Sid(proof.Offender), proof.Slot,
			c27Hid(&proof.FirstHeader), c27Hid(&proof.SecondHeader))
	}
	return "bad-op"
}

// ---------------------------------------------------------------------------- generator

var c27Bases = []uint64{0, 0, 1, 7, 1000, 1001, 2000, 5000, 1 << 32, 1 << 63, ^uint64(0) - 9000}

// offsets concentrated at the retention (1000) and pruning (2000) bounds
var c27Deltas = []uint64{0, 0, 0, 1, 1, 2, 3, 500, 998, 999, 1000, 1001, 1002, 1998, 1999, 2000, 2001, 2002, 2999, 3000, 3001}
var c27Back = []uint64{0, 0, 0, 1, 1, 2, 999, 1000, 1001}

func c27Gen(r *vhRng) string {
	if r.Chance(1, 200) {
		return "const " + []string{"maxSlotCapacity", "pruningBound", "keys", "headers"}[r.Intn(4)]
	}
	if r.Chance(1, 100) { // malformed stream
		return []string{"check 1 2 3", "check x 1 0 0", "check 1 1 9 0", "check 1 1 0 3",
			"check 18446744073709551616 1 0 0", "dmp", "", "check 1 1 0 0;;dump"}[r.Intn(8)]
	}
	base := c27Bases[r.Intn(len(c27Bases))]
	n := 1 + r.Intn(30)
	if r.Chance(1, 4) {
		n = 1 + r.Intn(6)
	}
	now := base + uint64(r.Pick(0, 0, 1, 2, 1000, 1001))
	var slots []uint64 // slots used so far (to collide with)
	var nows []uint64
	nh := 2 + r.Intn(c27NumHeaders-1)
	ops := []string{}
	add := func(a, b uint64) uint64 { // saturating
		if a+b < a {
			return ^uint64(0)
		}
		return a + b
	}
	sub := func(a, b uint64) uint64 {
		if a < b {
			return 0
		}
		return a - b
	}
	for i := 0; i < n; i++ {
		// move the clock
		switch r.Intn(10) {
		case 0, 1, 2, 3:
		case 4, 5, 6, 7:
			now = add(now, c27Deltas[r.Intn(len(c27Deltas))])
		case 8:
			now = sub(now, c27Back[r.Intn(len(c27Back))])
		default:
			if len(slots) > 0 { // exactly at a bound relative to a used slot
				now = add(slots[r.Intn(len(slots))], uint64(r.Pick(999, 1000, 1001, 1999, 2000, 2001, 0)))
			}
		}
		if sub(now, base) > 7000 { // keep the pruning loops short
			now = base + 7000
		}
		var slot uint64
		switch k := r.Intn(10); {
		case k < 5 && len(slots) > 0:
			slot = slots[r.Intn(len(slots))]
		case k < 7:
			slot = now
		case k < 9:
			slot = sub(now, c27Back[r.Intn(len(c27Back))])
		default:
			slot = add(now, uint64(r.Pick(1, 2, 1000, 1001)))
		}
		if r.Chance(1, 12) && len(nows) > 0 { // slot == an earlier slotNow, or off by the bounds from it
			slot = sub(nows[r.Intn(len(nows))], uint64(r.Pick(0, 1000, 1001, 999)))
		}
		slots = append(slots, slot)
		nows = append(nows, now)
		ops = append(ops, fmt.Sprintf("check %d %d %d %d", now, slot, r.Intn(nh), r.Intn(c27NumSigners)))
		if r.Chance(1, 10) {
			ops = append(ops, "dump")
		}
	}
	ops = append(ops, "dump")
	return strings.Join(ops, ";")
}

func TestVerifC27(t *testing.T) { vhMain(t, c27Gen, c27Run) }
