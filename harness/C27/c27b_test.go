//go:build verif

package babe

import (
	"bytes"
	"encoding/binary"
	"errors"
	"fmt"
	"sort"
	"strconv"
	"strings"
	"testing"
	"time"

	"github.com/ChainSafe/gossamer/dot/state"
	"github.com/ChainSafe/gossamer/dot/types"
	"github.com/ChainSafe/gossamer/internal/database"
	"github.com/ChainSafe/gossamer/lib/common"
	"github.com/ChainSafe/gossamer/lib/crypto/sr25519"
	"github.com/ChainSafe/gossamer/lib/runtime"
	"github.com/ChainSafe/gossamer/pkg/scale"
)

// Property C27, second run: the CALL SITE of SlotState.CheckEquivocation in lib/babe/verify.go.
//
// case line = `b|op;op;...` over ONE verifier whose slot state is the REAL dot/state.SlotState on a
// fresh in-memory Pebble database (wrapped only to record the arguments of each call):
//
//	vb <now> <slot> <kind> <idx> <var> <sealer> <tamper> <e>
//	    a block header for <slot> claimed by authority <idx> (3 authorities; 5 = index out of range),
//	    kind 1 = primary (threshold = max), 2 = secondary plain; <var> selects the block body (state root);
//	    sealed by key <sealer> (3 = a key outside the set), tamper 1 = the seal signs another message;
//	    <e> = the secondary author of the slot (oracle computed by the generator).  The header is given to
//	    verifier.verifyAuthorshipRight while the wall-clock slot is <now> (slotDuration := now_ns / now).
//	    output: <verdict>[ c=<slotNow>/<slot>/<signer>][ r=<slot>/<offender>/<hdrA>/<hdrB>]
//	      verdict ok | equiv | badsig | badclaim | badidx | err;  c= the CheckEquivocation call that was
//	      made, r= the equivocation report handed to the runtime; header ids are kind*16+idx*4+var.
//	dump   -> like the dot/state run: start=<n|-> <slot>:<hdr>/<signer>,...

var c27bKeys [4]*sr25519.Keypair

func c27bKey(i int) *sr25519.Keypair {
	if c27bKeys[i] == nil {
		seed := make([]byte, 32)
		seed[0], seed[31] = byte(i+1), 0x27
		kp, err := sr25519.NewKeypairFromSeed(seed)
		if err != nil {
			panic(err)
		}
		c27bKeys[i] = kp
	}
	return c27bKeys[i]
}

func c27bRandomness() Randomness {
	var r Randomness
	for i := range r {
		r[i] = 0x5a
	}
	return r
}

func c27bSid(id types.AuthorityID) string {
	for i := 0; i < 4; i++ {
		if types.AuthorityID(c27bKey(i).Public().(*sr25519.PublicKey).AsBytes()) == id {
			return strconv.Itoa(i)
		}
	}
	return "?"
}

// hash of the header without its seal, computed from the encoding (not the cached field)
func c27bBodyHash(h *types.Header) common.Hash {
	cp := types.NewEmptyHeader()
	cp.ParentHash, cp.Number, cp.StateRoot, cp.ExtrinsicsRoot = h.ParentHash, h.Number, h.StateRoot, h.ExtrinsicsRoot
	cp.Digest = types.NewDigest()
	for _, it := range h.Digest {
		v, err := it.Value()
		if err != nil {
			panic(err)
		}
		if _, isSeal := v.(types.SealDigest); isSeal {
			continue
		}
		if err := cp.Digest.Add(v); err != nil {
			panic(err)
		}
	}
	enc, err := scale.Marshal(*cp)
	if err != nil {
		panic(err)
	}
	return common.MustBlake2bHash(enc)
}

type c27bEnv struct {
	db      *database.PebbleDB
	inner   *state.SlotState
	calls   []string
	reports []string
	ids     map[common.Hash]string // body hash -> header id
	built   map[string]*types.Header
	pre     map[string][]byte
}

func (e *c27bEnv) hid(h *types.Header) string {
	if s, ok := e.ids[c27bBodyHash(h)]; ok {
		return s
	}
	return "?"
}

// SlotState: the real one, recording the arguments
func (e *c27bEnv) CheckEquivocation(slotNow, slot uint64, header *types.Header, signer types.AuthorityID) (
	*types.BabeEquivocationProof, error) {
	e.calls = append(e.calls, fmt.Sprintf("c=%d/%d/%s", slotNow, slot, c27bSid(signer)))
	return e.inner.CheckEquivocation(slotNow, slot, header, signer)
}

type c27bBlock struct {
	BlockState
	env *c27bEnv
}

func (c27bBlock) GenesisHash() common.Hash   { return common.Hash{} }
func (c27bBlock) BestBlockHash() common.Hash { return common.Hash{1} }
func (b c27bBlock) GetRuntime(common.Hash) (runtime.Instance, error) {
	return c27bRuntime{env: b.env}, nil
}

type c27bRuntime struct {
	runtime.Instance
	env *c27bEnv
}

func (c27bRuntime) BabeGenerateKeyOwnershipProof(slot uint64, authorityID [32]byte) (
	types.OpaqueKeyOwnershipProof, error) {
	return types.OpaqueKeyOwnershipProof{1}, nil
}

func (r c27bRuntime) BabeSubmitReportEquivocationUnsignedExtrinsic(p types.BabeEquivocationProof,
	_ types.OpaqueKeyOwnershipProof) error {
	r.env.reports = append(r.env.reports, fmt.Sprintf("r=%d/%s/%s/%s", p.Slot, c27bSid(p.Offender),
		r.env.hid(&p.FirstHeader), r.env.hid(&p.SecondHeader)))
	return nil
}

// the VRF proof and the sr25519 signature are randomised: the pre-digest and the seal of a block are
// made once per case and reused, so that "the same block again" really is the same block
func (e *c27bEnv) header(slot uint64, kind int, idx uint32, variant int, sealer int, tamper int) *types.Header {
	key := fmt.Sprint(slot, kind, idx, variant, sealer, tamper)
	src, ok := e.built[key]
	if !ok {
		src = c27bHeader(e, slot, kind, idx, variant, sealer, tamper)
		e.built[key] = src
	}
	h := types.NewEmptyHeader() // fresh object: no cached hash, own digest slice
	h.ParentHash, h.Number, h.StateRoot, h.ExtrinsicsRoot = src.ParentHash, src.Number, src.StateRoot, src.ExtrinsicsRoot
	h.Digest = append(types.NewDigest(), src.Digest...)
	return h
}

func c27bHeader(e *c27bEnv, slot uint64, kind int, idx uint32, variant int, sealer int, tamper int) *types.Header {
	h := types.NewEmptyHeader()
	h.Number = uint(slot%1000) + 1
	h.ParentHash = common.Hash{7, byte(slot)}
	h.StateRoot = common.Hash{2, byte(variant)}
	h.ExtrinsicsRoot = common.Hash{3}
	var v any
	if kind == 1 {
		signer := int(idx)
		if signer > 3 {
			signer = 3
		}
		out, proof, err := c27bKey(signer).VrfSign(makeTranscript(c27bRandomness(), slot, 1))
		if err != nil {
			panic(err)
		}
		v = types.BabePrimaryPreDigest{AuthorityIndex: idx, SlotNumber: slot, VRFOutput: out, VRFProof: proof}
	} else {
		v = types.BabeSecondaryPlainPreDigest{AuthorityIndex: idx, SlotNumber: slot}
	}
	pkey := fmt.Sprint("pre", slot, kind, idx)
	enc, ok := e.pre[pkey]
	if !ok {
		d := types.NewBabeDigest()
		if err := d.SetValue(v); err != nil {
			panic(err)
		}
		var err error
		enc, err = scale.Marshal(d)
		if err != nil {
			panic(err)
		}
		e.pre[pkey] = enc
	}
	if err := h.Digest.Add(types.PreRuntimeDigest{ConsensusEngineID: types.BabeEngineID, Data: enc}); err != nil {
		panic(err)
	}
	msg := *h
	if tamper == 1 {
		msg.Number += 7
	}
	encH, err := scale.Marshal(msg)
	if err != nil {
		panic(err)
	}
	hash := common.MustBlake2bHash(encH)
	sig, err := c27bKey(sealer).Sign(hash[:])
	if err != nil {
		panic(err)
	}
	if err := h.Digest.Add(types.SealDigest{ConsensusEngineID: types.BabeEngineID, Data: sig}); err != nil {
		panic(err)
	}
	return h
}

func c27bDump(e *c27bEnv) string {
	it, err := e.db.NewIterator()
	if err != nil {
		return "err-iter"
	}
	defer it.Release()
	start := "-"
	type ent struct {
		slot uint64
		s    string
	}
	var ents []ent
	var odd []string
	mapPrefix := []byte("slotslot_header_map")
	startKey := []byte("slotslot_header_start")
	for ok := it.First(); ok; ok = it.Next() {
		k := append([]byte{}, it.Key()...)
		v := append([]byte{}, it.Value()...)
		switch {
		case bytes.Equal(k, startKey):
			if len(v) != 8 {
				start = "bad" + vhHex(v)
			} else {
				start = strconv.FormatUint(binary.LittleEndian.Uint64(v), 10)
			}
		case bytes.HasPrefix(k, mapPrefix) && len(k) == len(mapPrefix)+8:
			slot := binary.LittleEndian.Uint64(k[len(mapPrefix):])
			var encs [][]byte
			if err := scale.Unmarshal(v, &encs); err != nil {
				odd = append(odd, "?val"+vhHex(k))
				continue
			}
			parts := []string{}
			for _, en := range encs {
				hs := struct {
					Header *types.Header
					Signer types.AuthorityID
				}{Header: types.NewEmptyHeader()}
				if err := scale.Unmarshal(en, &hs); err != nil {
					parts = append(parts, "?")
					continue
				}
				parts = append(parts, e.hid(hs.Header)+"/"+c27bSid(hs.Signer))
			}
			ents = append(ents, ent{slot, strconv.FormatUint(slot, 10) + ":" + strings.Join(parts, ",")})
		default:
			odd = append(odd, "?key"+vhHex(k))
		}
	}
	sort.Slice(ents, func(i, j int) bool { return ents[i].slot < ents[j].slot })
	out := []string{"start=" + start}
	for _, x := range ents {
		out = append(out, x.s)
	}
	sort.Strings(odd)
	return strings.Join(append(out, odd...), " ")
}

func c27bRun(line string) string {
	body := strings.TrimPrefix(line, "b|")
	if body == line {
		return "bad-op"
	}
	db, err := database.NewPebble("verif-c27b", true)
	if err != nil {
		return "err-db"
	}
	defer db.Close()
	env := &c27bEnv{db: db, inner: state.NewSlotState(db), ids: map[common.Hash]string{},
		built: map[string]*types.Header{}, pre: map[string][]byte{}}
	auths := make([]types.AuthorityRaw, 3)
	for i := range auths {
		auths[i] = *types.NewAuthority(c27bKey(i).Public(), 1).ToRaw()
	}
	info := &verifierInfo{authorities: auths, randomness: c27bRandomness(), threshold: scale.MaxUint128,
		secondarySlots: true}
	v := newVerifier(c27bBlock{env: env}, env, 1, info, time.Second)
	var outs []string
	for _, op := range strings.Split(body, ";") {
		outs = append(outs, vhCatch(func() string { return c27bOp(env, v, op) }))
	}
	return strings.Join(outs, ";")
}

func c27bOp(env *c27bEnv, v *verifier, op string) string {
	f := strings.Fields(op)
	if len(f) == 1 && f[0] == "dump" {
		return c27bDump(env)
	}
	if len(f) != 9 || f[0] != "vb" {
		return "bad-op"
	}
	x := make([]uint64, 9)
	for i := 1; i <= 8; i++ {
		n, err := strconv.ParseUint(f[i], 10, 64)
		if err != nil {
			return "bad-op"
		}
		x[i] = n
	}
	now, slot, kind, idx, variant, sealer, tamper := x[1], x[2], x[3], x[4], x[5], x[6], x[7]
	if now < 1 || now > 1000000 || kind < 1 || kind > 2 || (idx > 2 && idx != 5) || variant > 3 || sealer > 3 || tamper > 1 ||
		x[8] > 2 {
		return "bad-op"
	}
	h := env.header(slot, int(kind), uint32(idx), int(variant), int(sealer), int(tamper))
	env.ids[c27bBodyHash(h)] = strconv.FormatUint(kind*16+idx*4+variant, 10)
	// wall-clock slot := now   (getCurrentSlot = UnixNano / slotDuration; now*now << UnixNano)
	v.slotDuration = time.Duration(uint64(time.Now().UnixNano()) / now)
	env.calls, env.reports = nil, nil
	err := v.verifyAuthorshipRight(h)
	var verdict string
	switch {
	case err == nil:
		verdict = "ok"
	case errors.Is(err, ErrProducerEquivocated):
		verdict = "equiv"
	case errors.Is(err, ErrBadSignature):
		verdict = "badsig"
	case errors.Is(err, ErrBadSlotClaim), errors.Is(err, ErrBadSecondarySlotClaim):
		verdict = "badclaim"
	case errors.Is(err, ErrInvalidBlockProducerIndex):
		verdict = "badidx"
	default:
		verdict = "err"
		if vhEnvInt("VERIF_C27B_ERR", 0) == 1 {
			verdict = "err " + strings.ReplaceAll(err.Error(), ";", ",")
		}
	}
	return strings.Join(append(append([]string{verdict}, env.calls...), env.reports...), " ")
}

// ---------------------------------------------------------------------------- generator

func c27bGen(r *vhRng) string {
	base := uint64(r.Pick(1, 1, 2, 1000, 1001, 3000))
	now := base + uint64(r.Pick(0, 0, 1, 1000))
	n := 1 + r.Intn(10)
	var slots []uint64
	ops := []string{}
	for i := 0; i < n; i++ {
		switch r.Intn(8) {
		case 0, 1:
			now += uint64(r.Pick(1, 2, 999, 1000, 1001, 1999, 2000, 2001))
		case 2:
			if now > 2 {
				now -= uint64(r.Pick(1, 2))
			}
		case 3:
			if len(slots) > 0 {
				now = slots[r.Intn(len(slots))] + uint64(r.Pick(999, 1000, 1001, 2000, 0))
			}
		}
		if now > 9000 {
			now = 9000
		}
		var slot uint64
		switch k := r.Intn(10); {
		case k < 6 && len(slots) > 0:
			slot = slots[r.Intn(len(slots))]
		case k < 8:
			slot = now
		case k < 9 && now > 1001:
			slot = now - uint64(r.Pick(1, 999, 1000, 1001))
		default:
			slot = now + uint64(r.Pick(1, 2))
		}
		slots = append(slots, slot)
		e, err := getSecondarySlotAuthor(slot, 3, c27bRandomness())
		if err != nil {
			panic(err)
		}
		kind := r.Pick(1, 1, 2, 2, 2)
		idx := uint64(r.Intn(3))
		if kind == 2 && r.Chance(3, 4) {
			idx = uint64(e)
		}
		if r.Chance(1, 40) {
			idx = 5
		}
		sealer := idx
		if sealer > 3 {
			sealer = 3
		}
		tamper := 0
		if r.Chance(1, 6) { // forged: sealed by somebody else, or the seal signs another message
			if r.Bool() {
				sealer = uint64(r.Intn(4))
			} else {
				tamper = 1
			}
		}
		ops = append(ops, fmt.Sprintf("vb %d %d %d %d %d %d %d %d", now, slot, kind, idx, r.Intn(3), sealer, tamper, e))
		if r.Chance(1, 8) {
			ops = append(ops, "dump")
		}
	}
	ops = append(ops, "dump")
	return "b|" + strings.Join(ops, ";")
}

func TestVerifC27B(t *testing.T) { vhMain(t, c27bGen, c27bRun) }
