//go:build verif

package babe

import (
	"errors"
	"fmt"
	"math"
	"math/big"
	"strconv"
	"strings"
	"testing"

	"github.com/ChainSafe/gossamer/lib/crypto/sr25519"
	"github.com/ChainSafe/gossamer/pkg/scale"
)

// Case lines (property C25):
//   thr <c1> <c2> <n> <pbits>        CalculateThreshold(c1,c2,n); pbits = hex of math.Float64bits of the
//                                     float64 p = 1-(1-c1/c2)^(1/n) (the harness evaluates the same float
//                                     expression; the Lean side checks p against the real formula by enclosure
//                                     and derives the threshold from p exactly)
//   mono <c1> <c2> <n>               thr(c1,c2,n) <= thr(c1+1,c2,n) and thr(c1,c2+1,n) <= thr(c1,c2,n)
//   chk <seed32> <rand32> <slot> <epoch> <thr32hex> <res16hex>
//                                     checkPrimaryThreshold on the VRF output made by key(seed) for the
//                                     transcript; res = the 16 bytes MakeBytes gives (recomputed in run)
//   auth <rand32> <slot> <n>         getSecondarySlotAuthor
//   const max                        scale.MaxUint128

func c25U128Hex(u *scale.Uint128) string { return fmt.Sprintf("%016x%016x", u.Upper, u.Lower) }

func c25ThrOut(u *scale.Uint128, err error) string {
	if err != nil {
		switch {
		case errors.Is(err, ErrThresholdOneIsZero):
			return "err-zero"
		case strings.Contains(err.Error(), "greater than 1"):
			return "err-gt1"
		case strings.Contains(err.Error(), "16 bytes"):
			return "err-16bytes"
		}
		return "err"
	}
	return "ok " + c25U128Hex(u)
}

// c25P evaluates the float expression of CalculateThreshold (and of Substrate's calculate_primary_threshold).
func c25P(c1, c2 uint64, n int) float64 {
	c := float64(c1) / float64(c2)
	theta := float64(1) / float64(n)
	return 1 - math.Pow(1-c, theta)
}

func c25Key(seed []byte) *sr25519.Keypair {
	kp, err := sr25519.NewKeypairFromSeed(seed)
	if err != nil {
		panic(err)
	}
	return kp
}

// c25Res computes the VRF output of key(seed) on the BABE transcript and the 16 bytes that are compared
// with the threshold, using the sr25519 package directly.
func c25Res(seed []byte, rand Randomness, slot, epoch uint64) (out [sr25519.VRFOutputLength]byte, res []byte) {
	kp := c25Key(seed)
	out, _, err := kp.VrfSign(makeTranscript(rand, slot, epoch))
	if err != nil {
		panic(err)
	}
	inout, err := sr25519.AttachInput(out, kp.Public().(*sr25519.PublicKey), makeTranscript(rand, slot, epoch))
	if err != nil {
		panic(err)
	}
	res, err = inout.MakeBytes(16, babeVRFPrefix)
	if err != nil {
		panic(err)
	}
	return out, res
}

func c25Rand(b []byte) Randomness {
	var r Randomness
	copy(r[:], b)
	return r
}

func c25Run(line string) string {
	f := strings.Fields(line)
	if len(f) == 0 {
		return "bad-op"
	}
	pu := func(s string) uint64 { v, _ := strconv.ParseUint(s, 10, 64); return v }
	switch f[0] {
	case "thr":
		if len(f) != 5 {
			return "bad-op"
		}
		n, _ := strconv.ParseInt(f[3], 10, 64)
		return c25ThrOut(CalculateThreshold(pu(f[1]), pu(f[2]), int(n)))
	case "mono":
		if len(f) != 4 {
			return "bad-op"
		}
		c1, c2 := pu(f[1]), pu(f[2])
		n, _ := strconv.ParseInt(f[3], 10, 64)
		a, e1 := CalculateThreshold(c1, c2, int(n))
		b, e2 := CalculateThreshold(c1+1, c2, int(n))
		c, e3 := CalculateThreshold(c1, c2+1, int(n))
		if e1 != nil || e2 != nil || e3 != nil {
			return "err"
		}
		if a.Compare(b) <= 0 && c.Compare(a) <= 0 {
			return "le"
		}
		return "gt " + c25U128Hex(c) + " " + c25U128Hex(a) + " " + c25U128Hex(b)
	case "chk":
		if len(f) != 7 {
			return "bad-op"
		}
		seed, rand := vhUnhex(f[1]), c25Rand(vhUnhex(f[2]))
		slot, epoch := pu(f[3]), pu(f[4])
		tb := vhUnhex(f[5])
		thr := &scale.Uint128{Upper: new(big.Int).SetBytes(tb[:8]).Uint64(), Lower: new(big.Int).SetBytes(tb[8:]).Uint64()}
		out, res := c25Res(seed, rand, slot, epoch)
		ok, err := checkPrimaryThreshold(rand, slot, epoch, out, thr, c25Key(seed).Public().(*sr25519.PublicKey))
		if err != nil {
			return "err"
		}
		return fmt.Sprintf("%v %s", ok, vhHex(res))
	case "auth":
		if len(f) != 4 {
			return "bad-op"
		}
		n, _ := strconv.ParseInt(f[3], 10, 64)
		idx, err := getSecondarySlotAuthor(pu(f[2]), int(n), c25Rand(vhUnhex(f[1])))
		if err != nil {
			return "err"
		}
		return fmt.Sprint(idx)
	case "const":
		if len(f) == 2 && f[1] == "max" {
			return c25U128Hex(scale.MaxUint128)
		}
	}
	return "bad-op"
}

// c25Pow2ish draws a value near a power of two (or small, or random).
func c25Big(r *vhRng) uint64 {
	switch r.Intn(5) {
	case 0:
		return uint64(1 + r.Intn(16))
	case 1:
		return uint64(1 + r.Intn(1000))
	case 2:
		k := uint(r.Intn(64))
		return (uint64(1) << k) + uint64(r.Intn(5)) - 2
	case 3:
		return r.U64() >> uint(r.Intn(64))
	default:
		return uint64(1 + r.Intn(1<<20))
	}
}

func c25N(r *vhRng) int {
	switch r.Intn(8) {
	case 0:
		return 1
	case 1:
		return r.Pick(2, 3, 4, 5, 6)
	case 2:
		return r.Pick(100, 297, 1000)
	case 3:
		return 1 + r.Intn(1000)
	case 4:
		return 1 + r.Intn(1<<20)
	case 5:
		return 1 << uint(r.Intn(31))
	default:
		return 1 + r.Intn(32)
	}
}

func c25Pair(r *vhRng) (uint64, uint64) {
	switch r.Intn(12) {
	case 0: // c = 1
		c := c25Big(r)
		if c == 0 {
			c = 1
		}
		return c, c
	case 1: // zeros
		if r.Bool() {
			return 0, c25Big(r)
		}
		return c25Big(r), 0
	case 2: // c1 > c2 by a little (also above 2^53 where float64 conversion rounds)
		c2 := c25Big(r)
		return c2 + uint64(1+r.Intn(3)), c2
	case 3: // c1 > c2 clearly
		c2 := c25Big(r)
		return c2 + c25Big(r), c2
	case 4: // just below 1
		c2 := c25Big(r)
		if c2 < 2 {
			c2 = 2
		}
		return c2 - 1, c2
	case 5: // tiny c
		return uint64(1 + r.Intn(3)), c25Big(r) | 1<<uint(20+r.Intn(44))
	case 6: // the usual configurations
		return 1, uint64(r.Pick(1, 2, 3, 4, 5, 8, 10, 100))
	default:
		c2 := c25Big(r)
		if c2 == 0 {
			c2 = 1
		}
		return 1 + r.U64()%c2, c2
	}
}

func c25Gen(r *vhRng) string {
	switch k := r.Intn(20); {
	case k < 9:
		c1, c2 := c25Pair(r)
		n := c25N(r)
		if r.Chance(1, 60) {
			n = 0
		}
		return fmt.Sprintf("thr %d %d %d %016x", c1, c2, n, math.Float64bits(c25P(c1, c2, n)))
	case k < 12:
		c1, c2 := c25Pair(r)
		if c1 == 0 {
			c1 = 1
		}
		if c2 <= c1 {
			c2 = c1 + 1 + uint64(r.Intn(4))
		}
		if c2 < c1 { // wrapped
			c1, c2 = 1, 4
		}
		if c2 == math.MaxUint64 {
			c2--
			if c1 >= c2 {
				c1 = c2 - 1
			}
		}
		return fmt.Sprintf("mono %d %d %d", c1, c2, c25N(r))
	case k < 15:
		seed := make([]byte, 32)
		seed[0] = byte(1 + r.Intn(4))
		var rnd [32]byte
		rnd[0] = byte(r.Intn(4))
		slot := uint64(r.Intn(64))
		epoch := uint64(r.Intn(3))
		_, res := c25Res(seed, rnd, slot, epoch)
		// res as a little-endian number
		le := make([]byte, 16)
		for i := range res {
			le[15-i] = res[i]
		}
		v := new(big.Int).SetBytes(le)
		max := new(big.Int).Sub(new(big.Int).Lsh(big.NewInt(1), 128), big.NewInt(1))
		t := new(big.Int)
		switch r.Intn(8) {
		case 0:
			t.Set(v)
		case 1:
			t.Add(v, big.NewInt(1))
		case 2:
			t.Sub(v, big.NewInt(1))
		case 3: // same upper half, lower half differs
			t.Xor(v, new(big.Int).SetUint64(r.U64()))
		case 4: // byte-reversed value: catches an endianness slip
			t.SetBytes(res)
		case 5:
			t.Set(max)
		case 6:
			t.SetInt64(0)
		default:
			t.SetBytes(r.Bytes(16))
		}
		if t.Sign() < 0 {
			t.SetInt64(0)
		}
		if t.Cmp(max) > 0 {
			t.Set(max)
		}
		tb := t.FillBytes(make([]byte, 16))
		return fmt.Sprintf("chk %s %s %d %d %s %s", vhHex(seed), vhHex(rnd[:]), slot, epoch, vhHex(tb), vhHex(res))
	case k < 19:
		var rnd []byte
		switch r.Intn(4) {
		case 0:
			rnd = make([]byte, 32)
		case 1:
			rnd = make([]byte, 32)
			rnd[r.Intn(32)] = byte(1 + r.Intn(255))
		default:
			rnd = r.Bytes(32)
		}
		var slot uint64
		switch r.Intn(6) {
		case 0:
			slot = 0
		case 1:
			slot = 1 << 32
		case 2:
			slot = math.MaxUint64
		case 3:
			slot = uint64(r.Intn(1000))
		case 4:
			slot = uint64(1)<<uint(r.Intn(64)) + uint64(r.Intn(3)) - 1
		default:
			slot = r.U64()
		}
		var n int64
		switch r.Intn(10) {
		case 0:
			n = 1
		case 1:
			n = int64(r.Pick(2, 3, 255, 256, 257, 65536))
		case 2:
			n = int64(1)<<32 + int64(r.Intn(5)) - 2
		case 3:
			n = int64(r.U64() >> uint(1+r.Intn(40)))
			if n == 0 {
				n = 1
			}
		case 4:
			n = 0
			if r.Bool() {
				n = math.MaxInt64
			}
		default:
			n = int64(1 + r.Intn(1000))
		}
		return fmt.Sprintf("auth %s %d %d", vhHex(rnd), slot, n)
	default:
		return "const max"
	}
}

func TestVerifC25(t *testing.T) { vhMain(t, c25Gen, c25Run) }
