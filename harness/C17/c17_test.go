//go:build verif

package state

// Harness of property C17 (finality is monotone and fully discards abandoned forks).
//
// One case = `op;op;…` run on a REAL BlockState (real block tree, unfinalisedBlocks map, Tries map) over an
// in-memory Pebble database.  Block ids: 0 = genesis, 1..12 defined by the line.
//   add i p s     define block i (parent p, state-root id s) unless already defined, BlockState.AddBlock, and
//                 on success tries.softSet(state root) as dot/core does with the block's trie
//   fin i r s     SetFinalisedHash(hash of i, round r, set id s); an undefined i is an unknown hash
//   obs           observables only
// After `fin` and `obs` the observables are printed: highest finalised hash, bs.lastFinalised, tries.len(), for
// every defined block HasHeader / GetHeader / header in DB / member of unfinalisedBlocks / its state root in
// tries / member of the block tree, and GetHashByNumber for every number up to the finalised head.

import (
	"errors"
	"fmt"
	"sort"
	"strconv"
	"strings"
	"testing"

	"github.com/ChainSafe/gossamer/dot/telemetry"
	"github.com/ChainSafe/gossamer/dot/types"
	"github.com/ChainSafe/gossamer/internal/database"
	"github.com/ChainSafe/gossamer/lib/blocktree"
	"github.com/ChainSafe/gossamer/lib/common"
	inmemory_trie "github.com/ChainSafe/gossamer/pkg/trie/inmemory"
)

const c17MaxID = 12

type c17Node struct {
	db     database.Database
	bs     *BlockState
	hdrs   map[int]*types.Header
	byHash map[common.Hash]int
}

func c17Root(s int) common.Hash { return common.Hash{0xAA, byte(s), byte(s >> 8)} }

func c17NewNode() (*c17Node, error) {
	db, err := database.NewPebble("verif-c17", true)
	if err != nil {
		return nil, err
	}
	n := &c17Node{db: db, hdrs: map[int]*types.Header{}, byHash: map[common.Hash]int{}}
	gen := types.NewHeader(common.Hash{}, c17Root(0), common.Hash{}, 0, types.NewDigest())
	n.bs, err = NewBlockStateFromGenesis(db, NewTries(), gen, telemetry.NewNoopMailer())
	if err != nil {
		return nil, err
	}
	n.bs.tries.softSet(gen.StateRoot, inmemory_trie.NewEmptyTrie())
	n.hdrs[0] = gen
	n.byHash[gen.Hash()] = 0
	return n, nil
}

func (n *c17Node) define(id, parent, sroot int) bool {
	if _, ok := n.hdrs[id]; ok {
		return true
	}
	p, ok := n.hdrs[parent]
	if !ok || id < 1 || id > c17MaxID {
		return false
	}
	pre, err := types.NewBabeSecondaryPlainPreDigest(0, uint64(100+id)).ToPreRuntimeDigest()
	if err != nil {
		panic(err)
	}
	d := types.NewDigest()
	if err := d.Add(*pre); err != nil {
		panic(err)
	}
	h := types.NewHeader(p.Hash(), c17Root(sroot), common.Hash{byte(id)}, p.Number+1, d)
	n.hdrs[id] = h
	n.byHash[h.Hash()] = id
	return true
}

func (n *c17Node) id(h common.Hash) string {
	if v, ok := n.byHash[h]; ok {
		return strconv.Itoa(v)
	}
	return "?"
}

func c17FinErr(err error) string {
	msg := err.Error()
	switch {
	case strings.Contains(msg, "cannot finalise unknown block"):
		return "err-unknown"
	case errors.Is(err, errSetIDLowerThanHighest):
		return "err-setid"
	case errors.Is(err, blocktree.ErrEndNodeNotFound):
		return "err-range-end"
	case errors.Is(err, blocktree.ErrStartNodeNotFound):
		return "err-range-start"
	case errors.Is(err, blocktree.ErrStartGreaterThanEnd):
		return "err-range-greater"
	case errors.Is(err, blocktree.ErrStartNotAncestorOfEnd):
		return "err-range-notanc"
	case errors.Is(err, blocktree.ErrNilBlockInRange):
		return "err-range-nil"
	case strings.Contains(msg, "failed to find block in unfinalised block map"):
		return "err-missing"
	case strings.Contains(msg, "failed to get finalised header"):
		return "err-header"
	}
	return "err"
}

func (n *c17Node) observe() string {
	var sb strings.Builder
	hf, err := n.bs.GetHighestFinalisedHash()
	if err != nil {
		sb.WriteString("F=err")
	} else {
		sb.WriteString("F=" + n.id(hf))
	}
	sb.WriteString(" L=" + n.id(n.bs.lastFinalised))
	fmt.Fprintf(&sb, " T=%d B[", n.bs.tries.len())
	inTree := map[common.Hash]bool{}
	for _, h := range n.bs.bt.GetAllBlocks() {
		inTree[h] = true
	}
	var ids []int
	for id := range n.hdrs {
		ids = append(ids, id)
	}
	sort.Ints(ids)
	flag := func(b bool, c string) string {
		if b {
			return c
		}
		return "-"
	}
	for k, id := range ids {
		h := n.hdrs[id]
		hash := h.Hash()
		has, err1 := n.bs.HasHeader(hash)
		got, err2 := n.bs.GetHeader(hash)
		indb, err3 := n.bs.HasHeaderInDatabase(hash)
		if k > 0 {
			sb.WriteString(" ")
		}
		fmt.Fprintf(&sb, "%d:%s%s%s%s%s%s", id,
			flag(err1 == nil && has, "H"),
			flag(err2 == nil && got != nil && got.Hash() == hash, "h"),
			flag(err3 == nil && indb, "D"),
			flag(n.bs.unfinalisedBlocks.getBlock(hash) != nil, "U"),
			flag(n.bs.tries.get(h.StateRoot) != nil, "T"),
			flag(inTree[hash], "X"))
	}
	sb.WriteString("] N[")
	head, err := n.bs.GetHighestFinalisedHeader()
	if err != nil {
		sb.WriteString("err")
	} else {
		for num := uint(0); num <= head.Number; num++ {
			if num > 0 {
				sb.WriteString(" ")
			}
			h, err := n.bs.GetHashByNumber(num)
			if err != nil {
				sb.WriteString("err")
			} else {
				sb.WriteString(n.id(h))
			}
		}
	}
	sb.WriteString("]")
	return sb.String()
}

func (n *c17Node) op(f []string) string {
	arg := func(i int) int {
		if i >= len(f) {
			return -1
		}
		v, err := strconv.Atoi(f[i])
		if err != nil || v < 0 {
			return -1
		}
		return v
	}
	switch f[0] {
	case "add":
		if len(f) != 4 || arg(1) < 0 || arg(2) < 0 || arg(3) < 0 || arg(3) > 60000 || !n.define(arg(1), arg(2), arg(3)) {
			return "bad-op"
		}
		h := n.hdrs[arg(1)]
		err := n.bs.AddBlock(&types.Block{Header: *h, Body: types.Body{}})
		switch {
		case err == nil:
			n.bs.tries.softSet(h.StateRoot, inmemory_trie.NewEmptyTrie())
			return "ok"
		case errors.Is(err, blocktree.ErrParentNotFound):
			return "err-parent"
		case errors.Is(err, blocktree.ErrBlockExists):
			return "err-exists"
		}
		return "err"
	case "fin":
		if len(f) != 4 || arg(1) < 0 || arg(2) < 0 || arg(3) < 0 {
			return "bad-op"
		}
		hash := common.Hash{0xEE, byte(arg(1)), byte(arg(1) >> 8)}
		if h, ok := n.hdrs[arg(1)]; ok {
			hash = h.Hash()
		}
		res := "ok"
		if err := n.bs.SetFinalisedHash(hash, uint64(arg(2)), uint64(arg(3))); err != nil {
			res = c17FinErr(err)
		}
		return res + " " + n.observe()
	case "obs":
		if len(f) != 1 {
			return "bad-op"
		}
		return n.observe()
	}
	return "bad-op"
}

func c17Run(line string) string {
	if strings.Contains(line, "|") {
		return "bad-op"
	}
	n, err := c17NewNode()
	if err != nil {
		return "harness-error " + err.Error()
	}
	defer n.db.Close()
	var outs []string
	for _, o := range strings.Split(line, ";") {
		f := strings.Fields(o)
		if len(f) == 0 {
			continue
		}
		outs = append(outs, vhCatch(func() string { return n.op(f) }))
	}
	return strings.Join(outs, ";")
}

// ---------------------------------------------------------------------------------------------
// generator: random trees, finalisation requests of every kind, more blocks on top, and so on

func c17Gen(r *vhRng) string {
	type blk struct {
		parent, number int
	}
	blks := map[int]*blk{0: {parent: -1}}
	ids := []int{0}
	var ops []string
	nextID := 1
	round, setID := 0, 0
	fin := 0 // generator's idea of the finalised head (only to aim requests)
	shared := r.Chance(1, 3)
	isDesc := func(a, d int) bool { // a ancestor-or-self of d
		for d >= 0 {
			if d == a {
				return true
			}
			d = blks[d].parent
		}
		return false
	}
	addSome := func(k int) {
		for i := 0; i < k && nextID <= c17MaxID; i++ {
			// parents: mostly blocks under the finalised head, sometimes anything (stale / pruned parents)
			var cands []int
			for _, id := range ids {
				if isDesc(fin, id) {
					cands = append(cands, id)
				}
			}
			p := cands[r.Intn(len(cands))]
			if r.Chance(1, 2) {
				p = cands[len(cands)-1-r.Intn((len(cands)+1)/2)] // recent: longer chains
			}
			if r.Chance(1, 12) {
				p = ids[r.Intn(len(ids))]
			}
			s := 100 + nextID
			if shared && r.Chance(1, 2) {
				s = r.Intn(4)
			}
			blks[nextID] = &blk{parent: p, number: blks[p].number + 1}
			ids = append(ids, nextID)
			ops = append(ops, fmt.Sprintf("add %d %d %d", nextID, p, s))
			nextID++
			if r.Chance(1, 25) {
				ops = append(ops, fmt.Sprintf("add %d %d %d", nextID-1, p, s)) // again
			}
		}
	}
	addSome(2 + r.Intn(6))
	nFin := 1 + r.Intn(5)
	for k := 0; k < nFin; k++ {
		var target int
		switch c := r.Intn(10); {
		case c < 5: // a descendant of the head
			var cands []int
			for _, id := range ids {
				if id != fin && isDesc(fin, id) {
					cands = append(cands, id)
				}
			}
			if len(cands) == 0 {
				target = fin
			} else {
				target = cands[r.Intn(len(cands))]
			}
		case c < 6: // same again
			target = fin
		case c < 7: // stale ancestor
			target = fin
			for j := r.Intn(3); j >= 0 && blks[target].parent >= 0; j-- {
				target = blks[target].parent
			}
		case c < 9: // any block: siblings, abandoned forks, blocks never imported
			target = ids[r.Intn(len(ids))]
		default: // unknown hash
			target = 50 + r.Intn(3)
		}
		switch r.Intn(8) {
		case 0:
			setID++
			round = r.Intn(3)
		case 1:
			if r.Bool() && round > 0 {
				round--
			}
		default:
			round++
		}
		s := setID
		if r.Chance(1, 10) && setID > 0 {
			s = setID - 1 // stale set id
		}
		ops = append(ops, fmt.Sprintf("fin %d %d %d", target, round, s))
		if _, ok := blks[target]; ok && isDesc(fin, target) && s == setID {
			fin = target
		}
		if r.Chance(1, 2) {
			addSome(1 + r.Intn(4))
		}
		if r.Chance(1, 6) {
			ops = append(ops, "obs")
		}
	}
	ops = append(ops, "obs")
	return strings.Join(ops, ";")
}

func TestVerifC17(t *testing.T) { vhMain(t, c17Gen, c17Run) }
