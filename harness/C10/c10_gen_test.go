//go:build verif

package wazero_runtime

import (
	"fmt"
)

// ---------------------------------------------------------------- generator
// Entry lists are encoded by the harness's own SCALE writer (compact length + bytes), then
// sometimes damaged: truncated (also inside the last byte string: the decoder's short-read
// region), extended with trailing bytes, a length prefix made non-canonical, the entry count
// raised, or replaced by random bytes.  Declared byte-string lengths stay below 1 MiB so that
// neither side allocates gigabytes (C12 finding `bytes-alloc` is not this property's subject).

func c10Compact(n uint64) []byte {
	switch {
	case n < 1<<6:
		return []byte{byte(n << 2)}
	case n < 1<<14:
		v := uint16(n<<2) | 1
		return []byte{byte(v), byte(v >> 8)}
	case n < 1<<30:
		v := uint32(n<<2) | 2
		return []byte{byte(v), byte(v >> 8), byte(v >> 16), byte(v >> 24)}
	}
	var le []byte
	for x := n; x > 0; x >>= 8 {
		le = append(le, byte(x))
	}
	return append([]byte{byte((len(le)-4)<<2) | 3}, le...)
}

func c10Bytes(b []byte) []byte { return append(c10Compact(uint64(len(b))), b...) }

var c10Alphabets = [][]byte{
	{0x00, 0x01, 0x10},
	{0x10, 0x11, 0x1f},
	{0x00, 0x0f, 0xf0, 0xff},
	{0x12, 0x13, 0x30, 0x3f},
	{0x00, 0x04, 0x08, 0xfc}, // bytes that are compact encodings of small indices
	{0x01, 0x05, 0x41, 0x00},
}

func c10Key(r *vhRng, alpha []byte) []byte {
	n := r.Intn(4)
	if r.Chance(1, 12) {
		n = 30 + r.Intn(8) // long partial keys (header length crossing 63 nibbles)
	}
	k := make([]byte, n)
	for i := range k {
		k[i] = alpha[r.Intn(len(alpha))]
	}
	return k
}

func c10Value(r *vhRng) []byte {
	switch r.Intn(12) {
	case 0, 1:
		return []byte{}
	case 2:
		return r.Bytes(r.Pick(31, 32, 33))
	case 3:
		return r.Bytes(r.Pick(2, 40, 64, 100))
	default:
		return []byte{byte(r.Intn(256))}
	}
}

func c10Count(r *vhRng) int {
	switch r.Intn(16) {
	case 0:
		return 0
	case 1, 2:
		return 1
	case 3:
		return r.Pick(63, 64, 65)
	case 4:
		if r.Chance(1, 4) {
			return 300
		}
		return 66 + r.Intn(40)
	default:
		return 2 + r.Intn(9)
	}
}

func c10Version(r *vhRng) uint32 {
	switch r.Intn(12) {
	case 0, 1, 2, 3:
		return 0
	case 4, 5, 6, 7:
		return 1
	case 8:
		return 2
	case 9:
		return uint32(r.Pick(255, 254, 3, 128, 10, 11, 100, 101))
	case 10:
		return uint32(2 + r.Intn(254))
	default:
		// beyond uint8: the host function truncates the i32 argument
		return uint32(r.Pick(256, 257, 258, 511, 65536, 65537, 4294967295, 4294967040))
	}
}

// c10Safe walks the input as the decoder would and reports whether every declared byte-string
// length is below 1 MiB (generator filter only).
func c10Safe(data []byte, ordered bool) bool {
	pos := 0
	readLen := func() (uint64, bool) {
		if pos >= len(data) {
			return 0, false
		}
		b := data[pos]
		switch b & 3 {
		case 0:
			pos++
			return uint64(b >> 2), true
		case 1:
			if pos+2 > len(data) {
				return 0, false
			}
			v := (uint64(b) | uint64(data[pos+1])<<8) >> 2
			pos += 2
			return v, true
		case 2:
			if pos+4 > len(data) {
				return 0, false
			}
			v := (uint64(b) | uint64(data[pos+1])<<8 | uint64(data[pos+2])<<16 | uint64(data[pos+3])<<24) >> 2
			pos += 4
			return v, true
		}
		n := int(b>>2) + 4
		if pos+1+n > len(data) || n > 8 {
			return 0, false
		}
		var v uint64
		for i := n - 1; i >= 0; i-- {
			v = v<<8 | uint64(data[pos+1+i])
		}
		pos += 1 + n
		return v, true
	}
	count, ok := readLen()
	if !ok {
		return true
	}
	per := 2
	if ordered {
		per = 1
	}
	for i := uint64(0); i < count; i++ {
		for j := 0; j < per; j++ {
			l, ok := readLen()
			if !ok {
				return true
			}
			if l >= 1<<20 {
				return false
			}
			if uint64(len(data)-pos) < l {
				return true // short read or EOF ends the decode
			}
			pos += int(l)
		}
	}
	return true
}

func c10Damage(r *vhRng, enc []byte, lastStringStart int) []byte {
	switch r.Intn(9) {
	case 0: // truncate anywhere
		return enc[:r.Intn(len(enc)+1)]
	case 1: // truncate inside the last byte string (or right after its length prefix)
		if lastStringStart < len(enc) {
			return enc[:lastStringStart+r.Intn(len(enc)-lastStringStart+1)]
		}
		return enc[:r.Intn(len(enc)+1)]
	case 2: // trailing bytes
		return append(append([]byte{}, enc...), r.Bytes(1+r.Intn(4))...)
	case 3: // raise the count (first byte, single-byte mode only)
		out := append([]byte{}, enc...)
		if len(out) > 0 && out[0]&3 == 0 && out[0] < 0xf0 {
			out[0] += 4 * byte(1+r.Intn(3))
		}
		return out
	case 4: // lower the count
		out := append([]byte{}, enc...)
		if len(out) > 0 && out[0]&3 == 0 && out[0] >= 4 {
			out[0] -= 4
		}
		return out
	case 5: // non-canonical count: two-byte mode for a small number
		if len(enc) > 0 && enc[0]&3 == 0 {
			v := uint16(enc[0]>>2)<<2 | 1
			return append([]byte{byte(v), byte(v >> 8)}, enc[1:]...)
		}
		return enc
	case 6: // flip one byte
		out := append([]byte{}, enc...)
		if len(out) > 0 {
			out[r.Intn(len(out))] ^= byte(1 << uint(r.Intn(8)))
		}
		return out
	case 7: // random bytes
		return r.Bytes(r.Intn(12))
	default: // drop the last byte
		if len(enc) > 0 {
			return enc[:len(enc)-1]
		}
		return enc
	}
}

func c10Gen(r *vhRng) string {
	for {
		ordered := r.Chance(2, 5)
		n := c10Count(r)
		alpha := c10Alphabets[r.Intn(len(c10Alphabets))]
		enc := c10Compact(uint64(n))
		last := len(enc)
		for i := 0; i < n; i++ {
			if !ordered {
				last = len(enc)
				enc = append(enc, c10Bytes(c10Key(r, alpha))...)
			}
			last = len(enc)
			enc = append(enc, c10Bytes(c10Value(r))...)
		}
		if r.Chance(1, 4) {
			enc = c10Damage(r, enc, last)
		}
		if !c10Safe(enc, ordered) {
			continue
		}
		fn := "root"
		if ordered {
			fn = "oroot"
		}
		if r.Chance(1, 6) {
			return fmt.Sprintf("%s1 %d %s", fn, c10Version(r), vhHex(enc))
		}
		return fmt.Sprintf("%s2 %d %s", fn, c10Version(r), vhHex(enc))
	}
}
