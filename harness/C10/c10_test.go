//go:build verif

package wazero_runtime

import (
	"context"
	"fmt"
	"strconv"
	"strings"
	"sync"
	"testing"

	"github.com/ChainSafe/gossamer/internal/log"
	"github.com/ChainSafe/gossamer/lib/runtime"
	"github.com/ChainSafe/gossamer/lib/runtime/allocator"
	"github.com/tetratelabs/wazero"
	"github.com/tetratelabs/wazero/api"
)

// One case = `<fn> <version> <data>`
//   fn      : root1 | root2 | oroot1 | oroot2   the four host functions
//             ext_trie_blake2_256_root_version_1/2, ext_trie_blake2_256_ordered_root_version_1/2
//   version : the i32 `version` argument of the _2 functions (ignored by the _1 functions), decimal
//   data    : the SCALE bytes placed in guest memory, hex (`-` = empty)
// observable: `ok <32-byte root hex>` when a non-zero pointer came back (the 32 bytes read back from
// guest memory at that pointer), `fail` for the 0 pointer, `overlap` if the returned block overlaps
// the input span, `panic` for a Go panic.

// A 25-byte Wasm module: one memory of `pages` pages (< 128), exported as "memory".  No code.
func c10Wasm(pages byte) []byte {
	return []byte{
		0x00, 0x61, 0x73, 0x6d, 0x01, 0x00, 0x00, 0x00, // \0asm, version 1
		0x05, 0x03, 0x01, 0x00, pages, // memory section: 1 memory, no max, min `pages` pages
		0x07, 0x0a, 0x01, 0x06, 'm', 'e', 'm', 'o', 'r', 'y', 0x02, 0x00, // export "memory" = memory 0
	}
}

var (
	c10Once     sync.Once
	c10Rt       wazero.Runtime
	c10Compiled wazero.CompiledModule // 2 pages: inputs up to 64 KiB
	c10Big      wazero.CompiledModule // 64 pages
	c10Err      error
	c10Seq      int
)

func c10Setup() {
	// the host functions log every failure at error level: keep the test output small
	logger.Patch(log.SetLevel(log.Critical))
	ctx := context.Background()
	c10Rt = wazero.NewRuntimeWithConfig(ctx, wazero.NewRuntimeConfigInterpreter())
	c10Compiled, c10Err = c10Rt.CompileModule(ctx, c10Wasm(2))
	if c10Err == nil {
		c10Big, c10Err = c10Rt.CompileModule(ctx, c10Wasm(64))
	}
}

const c10DataPtr = 64

func c10Run(line string) string {
	f := strings.Fields(line)
	if len(f) != 3 {
		return "bad-op"
	}
	ver, err := strconv.ParseUint(f[1], 10, 32)
	if err != nil {
		return "bad-op"
	}
	data := vhUnhex(f[2])
	c10Once.Do(c10Setup)
	if c10Err != nil {
		return "err-wasm " + c10Err.Error()
	}
	bg := context.Background()
	c10Seq++
	compiled := c10Compiled
	if len(data) > 60000 {
		compiled = c10Big
	}
	mod, err := c10Rt.InstantiateModule(bg, compiled, wazero.NewModuleConfig().WithName(fmt.Sprintf("c10-%d", c10Seq)))
	if err != nil {
		return "err-wasm " + err.Error()
	}
	defer mod.Close(bg)
	if !mod.Memory().Write(c10DataPtr, data) {
		return "err-mem"
	}
	// heap starts after the input, 8-aligned, as a runtime's __heap_base would
	heapBase := (uint32(c10DataPtr+len(data)) + 15) &^ 7
	rtCtx := &runtime.Context{Allocator: allocator.NewFreeingBumpHeapAllocator(heapBase)}
	ctx := context.WithValue(bg, runtimeContextKey, rtCtx)
	span := newPointerSize(c10DataPtr, uint32(len(data)))
	var m api.Module = mod
	var ptr uint32
	switch f[0] {
	case "root1":
		ptr = ext_trie_blake2_256_root_version_1(ctx, m, span)
	case "root2":
		ptr = ext_trie_blake2_256_root_version_2(ctx, m, span, uint32(ver))
	case "oroot1":
		ptr = ext_trie_blake2_256_ordered_root_version_1(ctx, m, span)
	case "oroot2":
		ptr = ext_trie_blake2_256_ordered_root_version_2(ctx, m, span, uint32(ver))
	default:
		return "bad-op"
	}
	if ptr == 0 {
		return "fail"
	}
	if uint64(ptr) < uint64(c10DataPtr)+uint64(len(data)) && uint64(ptr)+32 > c10DataPtr {
		return "overlap"
	}
	out, ok := mod.Memory().Read(ptr, 32)
	if !ok {
		return "err-read"
	}
	// the input must still be intact
	back, ok := mod.Memory().Read(c10DataPtr, uint64(len(data)))
	if !ok || string(back) != string(data) {
		return "input-clobbered"
	}
	return "ok " + vhHex(out)
}

func TestVerifC10(t *testing.T) { vhMain(t, c10Gen, c10Run) }
