//go:build verif

package inmemory

import (
	"bytes"
	"fmt"
	"sort"
	"strconv"
	"strings"
	"testing"

	"github.com/ChainSafe/gossamer/pkg/trie"
)

// One case = `ver|op;op;...` with ops
//   put k v | del k | clr p | clrl p n | get k | next k | keys p | entries
// (keys/values/prefixes in hex, `-` = empty).  The observable of a case is the
// `;`-joined list of the per-op observables:
//   put/del/clr : `ok` (or `err`) followed by ` ` and the sorted Entries() listing
//   clrl        : `<deleted> <allDeleted>` followed by ` ` and the sorted Entries() listing
//   get         : value hex | `nil`
//   next        : key hex | `nil`
//   keys        : keys in the order returned, `,`-joined | `none`
//   entries     : the sorted Entries() listing  (`k=v,k=v` | `empty`)

func c02Entries(t *InMemoryTrie) string {
	m := t.Entries()
	if len(m) == 0 {
		return "empty"
	}
	ks := make([]string, 0, len(m))
	for k := range m {
		ks = append(ks, k)
	}
	sort.Strings(ks)
	parts := make([]string, len(ks))
	for i, k := range ks {
		v := m[k]
		vs := "nil"
		if v != nil {
			vs = vhHex(v)
		}
		parts[i] = vhHex([]byte(k)) + "=" + vs
	}
	return strings.Join(parts, ",")
}

func c02OptHex(b []byte) string {
	if b == nil {
		return "nil"
	}
	return vhHex(b)
}

// c02Scribble flips every byte of b in place.
func c02Scribble(b []byte) {
	for i := range b {
		b[i] ^= 0xff
	}
}

// c02Mut reports whether a callee wrote into a caller-owned argument slice.
func c02Mut(before, after []byte) string {
	if !bytes.Equal(before, after) {
		return " !mut"
	}
	return ""
}

func c02Op(t *InMemoryTrie, op string) string {
	f := strings.Fields(op)
	if len(f) == 0 {
		return "bad-op"
	}
	// caller-owned argument buffers and their snapshots
	var a1, a2, s1, s2 []byte
	if len(f) >= 2 {
		a1 = vhUnhex(f[1])
		s1 = append([]byte{}, a1...)
	}
	if f[0] == "put" && len(f) == 3 {
		a2 = vhUnhex(f[2])
		s2 = append([]byte{}, a2...)
	}
	switch {
	case f[0] == "put" && len(f) == 3:
		err := t.Put(a1, a2)
		mut := c02Mut(s1, a1) + c02Mut(s2, a2)
		out := c02Entries(t)
		// the caller re-uses its key buffer: the stored state must not follow it
		c02Scribble(a1)
		if c02Entries(t) != out {
			mut += " !alias-key"
		}
		c02Scribble(a1)
		if err != nil {
			return "err " + out + mut
		}
		return "ok " + out + mut
	case f[0] == "del" && len(f) == 2:
		err := t.Delete(a1)
		mut := c02Mut(s1, a1)
		if err != nil {
			return "err " + c02Entries(t) + mut
		}
		return "ok " + c02Entries(t) + mut
	case f[0] == "clr" && len(f) == 2:
		err := t.ClearPrefix(a1)
		mut := c02Mut(s1, a1)
		if err != nil {
			return "err " + c02Entries(t) + mut
		}
		return "ok " + c02Entries(t) + mut
	case f[0] == "clrl" && len(f) == 3:
		n, err := strconv.ParseUint(f[2], 10, 32)
		if err != nil {
			return "bad-op"
		}
		deleted, all, err := t.ClearPrefixLimit(a1, uint32(n))
		mut := c02Mut(s1, a1)
		if err != nil {
			return "err " + c02Entries(t) + mut
		}
		return fmt.Sprintf("%d %v %s", deleted, all, c02Entries(t)) + mut
	case f[0] == "get" && len(f) == 2:
		v := t.Get(a1)
		return c02OptHex(v) + c02Mut(s1, a1)
	case f[0] == "next" && len(f) == 2:
		before := c02Entries(t)
		k := t.NextKey(a1)
		out := c02OptHex(k)
		// the returned key is the caller's: writing into it must not touch the trie
		c02Scribble(k)
		if c02Entries(t) != before {
			out += " !alias-ret"
		}
		return out + c02Mut(s1, a1)
	case f[0] == "keys" && len(f) == 2:
		before := c02Entries(t)
		ks := t.GetKeysWithPrefix(a1)
		out := "none"
		if len(ks) > 0 {
			parts := make([]string, len(ks))
			for i, k := range ks {
				parts[i] = vhHex(k)
			}
			out = strings.Join(parts, ",")
		}
		for _, k := range ks {
			c02Scribble(k)
		}
		if c02Entries(t) != before {
			out += " !alias-ret"
		}
		return out + c02Mut(s1, a1)
	case f[0] == "entries" && len(f) == 1:
		return c02Entries(t)
	}
	return "bad-op"
}

// c02Probe pins facts about slice ownership of the API (`probe <name>` lines of the corpus).
func c02Probe(name string) string {
	t := NewEmptyTrie()
	k1, k2 := []byte{0x12, 0x34}, []byte{0x12, 0x56}
	switch name {
	case "put-retains-value":
		// after Put(k, v) a write into v is visible through Get(k)
		v := []byte{1, 2, 3}
		_ = t.Put(k1, v)
		v[0] = 9
		return fmt.Sprint(t.Get(k1)[0] == 9)
	case "put-retains-key":
		k := []byte{0x12, 0x34}
		_ = t.Put(k, []byte{1})
		_ = t.Put(k2, []byte{2})
		k[1] = 0x99
		return fmt.Sprint(t.Get(k1) == nil)
	case "get-returns-internal":
		// a write into the slice returned by Get changes the stored value
		_ = t.Put(k1, []byte{1, 2, 3})
		t.Get(k1)[0] = 9
		return fmt.Sprint(t.Get(k1)[0] == 9)
	case "get-write-stale-hash":
		// ... and Hash() keeps returning the cached root of the old value
		_ = t.Put(k1, []byte{1, 2, 3})
		_ = t.Put(k2, []byte{4})
		h0 := t.MustHash()
		t.Get(k1)[0] = 9
		h1 := t.MustHash()
		fresh := NewEmptyTrie()
		for k, v := range t.Entries() {
			_ = fresh.Put([]byte(k), append([]byte{}, v...))
		}
		return fmt.Sprintf("cached=%v fresh-differs=%v", h0 == h1, fresh.MustHash() != h1)
	case "entries-returns-internal":
		_ = t.Put(k1, []byte{1, 2, 3})
		t.Entries()[string(k1)][0] = 9
		return fmt.Sprint(t.Get(k1)[0] == 9)
	}
	return "bad-op"
}

func c02Run(line string) string {
	if strings.HasPrefix(line, "probe ") {
		return c02Probe(strings.TrimPrefix(line, "probe "))
	}
	i := strings.IndexByte(line, '|')
	if i < 0 {
		return "bad-op"
	}
	t := NewEmptyTrie()
	switch line[:i] {
	case "0":
		t.SetVersion(trie.V0)
	case "1":
		t.SetVersion(trie.V1)
	default:
		return "bad-op"
	}
	ops := strings.Split(line[i+1:], ";")
	outs := make([]string, len(ops))
	for j, op := range ops {
		op := op
		// a panic inside one op is the observable of that op; the sequence stops there
		outs[j] = vhCatch(func() string { return c02Op(t, op) })
		if outs[j] == "panic" || strings.HasPrefix(outs[j], "panic ") {
			outs = outs[:j+1]
			break
		}
	}
	return strings.Join(outs, ";")
}

// ---------------------------------------------------------------- generator

// c02Alphabets: byte alphabets chosen so that keys share nibble prefixes, diverge inside a
// byte, end in a zero low nibble, and are prefixes of one another.
var c02Alphabets = [][]byte{
	{0x00, 0x01, 0x10},
	{0x10, 0x11, 0x1f},
	{0x00, 0x0f, 0xf0, 0xff},
	{0x12, 0x13, 0x30, 0x3f},
	{0x00, 0x01},
	{0x10, 0x15, 0x1f, 0x50},
	{0x00, 0x10, 0x20, 0x02},
	{0xab, 0xa0, 0x0a, 0xb0},
}

type c02Pool struct {
	alpha []byte
	keys  [][]byte
}

func c02Key(r *vhRng, alpha []byte, maxLen int) []byte {
	n := r.Intn(maxLen + 1)
	k := make([]byte, n)
	for i := range k {
		k[i] = alpha[r.Intn(len(alpha))]
	}
	return k
}

func c02NewPool(r *vhRng) *c02Pool {
	p := &c02Pool{}
	if r.Chance(1, 8) {
		p.alpha = r.Bytes(3)
	} else {
		p.alpha = c02Alphabets[r.Intn(len(c02Alphabets))]
	}
	maxLen := 2 + r.Intn(3)
	n := 3 + r.Intn(6)
	for i := 0; i < n; i++ {
		var k []byte
		switch {
		case len(p.keys) > 0 && r.Chance(1, 3):
			// extend an existing key: keys that are prefixes of keys
			base := p.keys[r.Intn(len(p.keys))]
			k = append(append([]byte{}, base...), c02Key(r, p.alpha, 2)...)
		case len(p.keys) > 0 && r.Chance(1, 5):
			// truncate an existing key
			base := p.keys[r.Intn(len(p.keys))]
			k = append([]byte{}, base[:r.Intn(len(base)+1)]...)
		default:
			k = c02Key(r, p.alpha, maxLen)
		}
		p.keys = append(p.keys, k)
	}
	return p
}

func (p *c02Pool) key(r *vhRng) []byte {
	if r.Chance(1, 10) {
		return c02Key(r, p.alpha, 3)
	}
	return p.keys[r.Intn(len(p.keys))]
}

// prefix: a byte prefix of a pool key, sometimes with the last byte's low nibble zeroed,
// sometimes a sibling (last byte changed), sometimes empty.
func (p *c02Pool) prefix(r *vhRng) []byte {
	k := p.key(r)
	pre := append([]byte{}, k[:r.Intn(len(k)+1)]...)
	if len(pre) > 0 {
		switch r.Intn(6) {
		case 0:
			pre[len(pre)-1] &= 0xf0
		case 1:
			pre[len(pre)-1] = p.alpha[r.Intn(len(p.alpha))]
		case 2:
			pre[len(pre)-1] &= 0x0f
		}
	}
	return pre
}

func c02Value(r *vhRng) []byte {
	switch r.Intn(8) {
	case 0:
		return []byte{}
	case 1:
		return r.Bytes(2)
	default:
		return []byte{byte(1 + r.Intn(250))}
	}
}

func c02GenOps(r *vhRng, p *c02Pool, nops int, val func(*vhRng) []byte) []string {
	ops := make([]string, 0, nops)
	// first a burst of puts so that the trie is not empty most of the time
	burst := 1 + r.Intn(len(p.keys))
	for i := 0; i < burst && len(ops) < nops; i++ {
		ops = append(ops, "put "+vhHex(p.keys[i%len(p.keys)])+" "+vhHex(val(r)))
	}
	for len(ops) < nops {
		switch r.Intn(16) {
		case 0, 1, 2, 3:
			ops = append(ops, "put "+vhHex(p.key(r))+" "+vhHex(val(r)))
		case 4, 5, 6:
			ops = append(ops, "del "+vhHex(p.key(r)))
		case 7:
			ops = append(ops, "clr "+vhHex(p.prefix(r)))
		case 8, 9:
			lim := r.Intn(7)
			if r.Chance(1, 12) {
				lim = r.Pick(100, 4294967295)
			}
			ops = append(ops, fmt.Sprintf("clrl %s %d", vhHex(p.prefix(r)), lim))
		case 10, 11:
			ops = append(ops, "get "+vhHex(p.key(r)))
		case 12, 13:
			ops = append(ops, "next "+vhHex(p.key(r)))
		case 14:
			ops = append(ops, "keys "+vhHex(p.prefix(r)))
		default:
			if r.Chance(1, 3) {
				ops = append(ops, "entries")
			} else {
				ops = append(ops, "get "+vhHex(p.prefix(r)))
			}
		}
	}
	return ops
}

// c02GenNested: a key that is a strict prefix of other keys holds the EMPTY value (present, not
// absent); its neighbours are deleted / cleared so that the branch becomes a leaf or is merged.
func c02GenNested(r *vhRng) string {
	alpha := c02Alphabets[r.Intn(len(c02Alphabets))]
	base := c02Key(r, alpha, 2)
	var kids [][]byte
	for i := 0; i < 2+r.Intn(3); i++ {
		k := append(append([]byte{}, base...), alpha[r.Intn(len(alpha))])
		kids = append(kids, append(k, c02Key(r, alpha, 1)...))
	}
	ops := []string{}
	for _, k := range kids {
		ops = append(ops, "put "+vhHex(k)+" "+vhHex(c02Value(r)))
	}
	ops = append(ops, "put "+vhHex(base)+" -")
	for i := 0; i < 3+r.Intn(6); i++ {
		k := kids[r.Intn(len(kids))]
		switch r.Intn(8) {
		case 0, 1, 2:
			ops = append(ops, "del "+vhHex(k))
		case 3:
			ops = append(ops, "get "+vhHex(base))
		case 4:
			ops = append(ops, "next "+vhHex(base), "keys "+vhHex(k[:len(base)+1]))
		case 5:
			ops = append(ops, fmt.Sprintf("clrl %s %d", vhHex(k), 1+r.Intn(2)))
		case 6:
			ops = append(ops, "put "+vhHex(base)+" -", "put "+vhHex(k)+" -")
		default:
			ops = append(ops, "clr "+vhHex(k))
		}
	}
	ops = append(ops, "get "+vhHex(base), "entries")
	return "0|" + strings.Join(ops, ";")
}

func c02Gen(r *vhRng) string {
	if r.Chance(1, 8) {
		return c02GenNested(r)
	}
	p := c02NewPool(r)
	nops := 2 + r.Intn(14)
	if r.Chance(1, 6) {
		nops = 15 + r.Intn(25)
	}
	ver := "0"
	if r.Bool() {
		ver = "1"
	}
	return ver + "|" + strings.Join(c02GenOps(r, p, nops, c02Value), ";")
}

func TestVerifC02(t *testing.T) { vhMain(t, c02Gen, c02Run) }
