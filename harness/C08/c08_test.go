//go:build verif

package storage

import (
	"encoding/binary"
	"errors"
	"fmt"
	"go/ast"
	"go/parser"
	"go/token"
	"sort"
	"strconv"
	"strings"

	"github.com/ChainSafe/gossamer/pkg/trie"
	inmemory_trie "github.com/ChainSafe/gossamer/pkg/trie/inmemory"
)

// One case = `hdr|op;op;...`.  `hdr` (0..3) selects the probe universe used by `snap`: bit 0 = key
// symbols (0: 0x61,0x71 — distinct high nibbles; 1: 0x61,0x62 — shared high nibble), bit 1 = child-trie
// keys carry the extra first byte 0x4b (so that they differ from every main key).
// Ops (keys / prefixes / values in hex, `-` = empty, value `nil` = Go nil):
//   put k v | get k | del k | clr p | clrl p n | next k | ents
//   cput c k v | cget c k | cdel c k | cclr c p | cclrl c p n | cnext c k | ckeys c p
//   kill c | killl c n|none | croot c
//   start | commit | rollback | snap | const
// Observable of a case: per-op observables joined by `;`.
//   writes: ok | err | panic ; limit ops: `<deleted> <allDeleted>`
//   reads: value hex | nil ; key lists sorted, `,`-joined | none
//   ErrChildTrieDoesNotExist is what the host functions turn into "none"/logged: reads print
//   nil / none, writes print ok, limit ops print the returned numbers.
//   snap: every read over the probe universe + dump of the base trie (entries, child tries by
//   root hash, root hash).

const c08ChildPrefix = ":child_storage:default:"

func c08Opt(b []byte) string {
	if b == nil {
		return "nil"
	}
	return vhHex(b)
}

func c08Val(s string) []byte {
	if s == "nil" {
		return nil
	}
	return vhUnhex(s)
}

func c08Map(m map[string][]byte) string {
	if len(m) == 0 {
		return "empty"
	}
	ks := make([]string, 0, len(m))
	for k := range m {
		ks = append(ks, k)
	}
	sort.Strings(ks)
	parts := make([]string, len(ks))
	for i, k := range ks {
		parts[i] = vhHex([]byte(k)) + "=" + c08Opt(m[k])
	}
	return strings.Join(parts, ",")
}

func c08Keys(ks [][]byte) string {
	if len(ks) == 0 {
		return "none"
	}
	ss := make([]string, len(ks))
	for i, k := range ks {
		ss[i] = string(k)
	}
	sort.Strings(ss)
	for i := range ss {
		ss[i] = vhHex([]byte(ss[i]))
	}
	return strings.Join(ss, ",")
}

func c08WErr(err error) string {
	if err == nil || errors.Is(err, trie.ErrChildTrieDoesNotExist) {
		return "ok"
	}
	return "err"
}

// c08Base dumps the committed trie: entries, the child trie reachable from every child-root entry
// of the main trie (`!` = no object under the stored hash, `?` = GetChild fails), root hash.
func c08Base(ts *TrieState) string {
	tr := ts.Trie().(*inmemory_trie.InMemoryTrie)
	var sb strings.Builder
	ents := tr.Entries()
	sb.WriteString("E=" + c08Map(ents))
	ks := make([]string, 0)
	for k := range ents {
		if strings.HasPrefix(k, c08ChildPrefix) {
			ks = append(ks, k)
		}
	}
	sort.Strings(ks)
	for _, k := range ks {
		ck := []byte(k[len(c08ChildPrefix):])
		sb.WriteString(" C" + vhHex(ck) + "=")
		child, err := tr.GetChild(ck)
		switch {
		case err != nil:
			sb.WriteString("?")
		case child == nil:
			sb.WriteString("!")
		default:
			sb.WriteString(c08Map(child.Entries()))
		}
	}
	rh, err := tr.Hash()
	if err != nil {
		sb.WriteString(" R=err")
	} else {
		sb.WriteString(" R=" + vhHex(rh[:]))
	}
	return sb.String()
}

func c08Universe(alpha string) (x, y byte, sep bool) {
	n, _ := strconv.Atoi(alpha)
	x, y = 0x61, 0x71
	if n&1 == 1 {
		y = 0x62
	}
	return x, y, n&2 == 2
}

func c08Snap(ts *TrieState, alpha string) string {
	x, y, sep := c08Universe(alpha)
	px := append([]byte(c08ChildPrefix), x)
	py := append([]byte(c08ChildPrefix), y)
	mainKeys := [][]byte{{}, {x}, {x, y}, {y}, {y, x}, px, py}
	kids := [][]byte{{x}, {x, y}, {y}}
	if sep {
		kids = [][]byte{{0x4b, x}, {0x4b, x, y}, {0x4b, y}}
	}
	inKeys := [][]byte{{}, {x}, {x, y}, {y}}
	var parts []string
	for _, k := range mainKeys {
		if len(k) > 0 { // Get of the empty key is explicit only (trie quirk at the root)
			parts = append(parts, c08One(ts, "get "+vhHex(k)))
		}
		parts = append(parts, c08One(ts, "next "+vhHex(k)))
	}
	parts = append(parts, c08One(ts, "ents"))
	for _, c := range kids {
		parts = append(parts, c08One(ts, "ckeys "+vhHex(c)+" -"))
		for _, k := range inKeys {
			if len(k) > 0 {
				parts = append(parts, c08One(ts, "cget "+vhHex(c)+" "+vhHex(k)))
			}
			parts = append(parts, c08One(ts, "cnext "+vhHex(c)+" "+vhHex(k)))
		}
	}
	parts = append(parts, vhCatch(func() string { return c08Base(ts) }))
	return strings.Join(parts, "/")
}

func c08One(ts *TrieState, op string) string {
	return vhCatch(func() string { return c08Op(ts, "", op) })
}

func c08Op(ts *TrieState, alpha, op string) string {
	f := strings.Fields(op)
	if len(f) == 0 {
		return "bad-op"
	}
	n := len(f)
	switch {
	case f[0] == "put" && n == 3:
		return c08WErr(ts.Put(vhUnhex(f[1]), c08Val(f[2])))
	case f[0] == "get" && n == 2:
		return c08Opt(ts.Get(vhUnhex(f[1])))
	case f[0] == "del" && n == 2:
		return c08WErr(ts.Delete(vhUnhex(f[1])))
	case f[0] == "clr" && n == 2:
		return c08WErr(ts.ClearPrefix(vhUnhex(f[1])))
	case f[0] == "clrl" && n == 3:
		lim, err := strconv.ParseUint(f[2], 10, 32)
		if err != nil {
			return "bad-op"
		}
		d, all, err := ts.ClearPrefixLimit(vhUnhex(f[1]), uint32(lim))
		if err != nil {
			return "err"
		}
		return fmt.Sprintf("%d %v", d, all)
	case f[0] == "next" && n == 2:
		return c08Opt(ts.NextKey(vhUnhex(f[1])))
	case f[0] == "ents" && n == 1:
		return c08Map(ts.TrieEntries())
	case f[0] == "cput" && n == 4:
		return c08WErr(ts.SetChildStorage(vhUnhex(f[1]), vhUnhex(f[2]), c08Val(f[3])))
	case f[0] == "cget" && n == 3:
		v, err := ts.GetChildStorage(vhUnhex(f[1]), vhUnhex(f[2]))
		if err != nil {
			if errors.Is(err, trie.ErrChildTrieDoesNotExist) {
				return "nil"
			}
			return "err"
		}
		return c08Opt(v)
	case f[0] == "cdel" && n == 3:
		return c08WErr(ts.ClearChildStorage(vhUnhex(f[1]), vhUnhex(f[2])))
	case f[0] == "cclr" && n == 3:
		return c08WErr(ts.ClearPrefixInChild(vhUnhex(f[1]), vhUnhex(f[2])))
	case f[0] == "cclrl" && n == 4:
		lim, err := strconv.ParseUint(f[3], 10, 32)
		if err != nil {
			return "bad-op"
		}
		d, all, err := ts.ClearPrefixInChildWithLimit(vhUnhex(f[1]), vhUnhex(f[2]), uint32(lim))
		if err != nil && !errors.Is(err, trie.ErrChildTrieDoesNotExist) {
			return "err"
		}
		return fmt.Sprintf("%d %v", d, all)
	case f[0] == "cnext" && n == 3:
		k, err := ts.GetChildNextKey(vhUnhex(f[1]), vhUnhex(f[2]))
		if err != nil {
			if errors.Is(err, trie.ErrChildTrieDoesNotExist) {
				return "nil"
			}
			return "err"
		}
		return c08Opt(k)
	case f[0] == "ckeys" && n == 3:
		ks, err := ts.GetKeysWithPrefixFromChild(vhUnhex(f[1]), vhUnhex(f[2]))
		if err != nil {
			if errors.Is(err, trie.ErrChildTrieDoesNotExist) {
				return "none"
			}
			return "err"
		}
		return c08Keys(ks)
	case f[0] == "kill" && n == 2:
		return c08WErr(ts.DeleteChild(vhUnhex(f[1])))
	case f[0] == "killl" && n == 3:
		var lim *[]byte
		if f[2] != "none" {
			v, err := strconv.ParseUint(f[2], 10, 32)
			if err != nil {
				return "bad-op"
			}
			b := make([]byte, 4)
			binary.LittleEndian.PutUint32(b, uint32(v))
			lim = &b
		}
		d, all, err := ts.DeleteChildLimit(vhUnhex(f[1]), lim)
		if err != nil && !errors.Is(err, trie.ErrChildTrieDoesNotExist) {
			return "err"
		}
		return fmt.Sprintf("%d %v", d, all)
	case f[0] == "croot" && n == 2:
		h, err := ts.GetChildRoot(vhUnhex(f[1]))
		if err != nil {
			if errors.Is(err, trie.ErrChildTrieDoesNotExist) {
				return "nil"
			}
			return "err"
		}
		return vhHex(h[:])
	case f[0] == "start" && n == 1:
		ts.StartTransaction()
		return "ok"
	case f[0] == "commit" && n == 1:
		ts.CommitTransaction()
		return "ok"
	case f[0] == "rollback" && n == 1:
		ts.RollbackTransaction()
		return "ok"
	case f[0] == "snap" && n == 1:
		return c08Snap(ts, alpha)
	case f[0] == "const" && n == 1:
		return vhHex(inmemory_trie.ChildStorageKeyPrefix)
	}
	return "bad-op"
}

// c08Ast checks, on the current source of lib/runtime/wazero/instance.go, that the exported
// method `name` calls Storage.StartTransaction() before it calls Exec (block execution and block
// initialisation always run inside a transaction).
func c08Ast(name string) string {
	fset := token.NewFileSet()
	f, err := parser.ParseFile(fset, "../wazero/instance.go", nil, 0)
	if err != nil {
		return "no-source"
	}
	for _, d := range f.Decls {
		fd, ok := d.(*ast.FuncDecl)
		if !ok || fd.Recv == nil || fd.Name.Name != name || fd.Body == nil {
			continue
		}
		start, exec := token.NoPos, token.NoPos
		ast.Inspect(fd.Body, func(n ast.Node) bool {
			call, ok := n.(*ast.CallExpr)
			if !ok {
				return true
			}
			sel, ok := call.Fun.(*ast.SelectorExpr)
			if !ok {
				return true
			}
			switch sel.Sel.Name {
			case "StartTransaction":
				if inner, ok := sel.X.(*ast.SelectorExpr); ok && inner.Sel.Name == "Storage" && start == token.NoPos {
					start = call.Pos()
				}
			case "Exec":
				if exec == token.NoPos {
					exec = call.Pos()
				}
			}
			return true
		})
		switch {
		case start == token.NoPos:
			return "no-start"
		case exec == token.NoPos:
			return "no-exec"
		case start < exec:
			return "start<exec"
		default:
			return "exec<start"
		}
	}
	return "no-method"
}

func c08Run(line string) string {
	if strings.HasPrefix(line, "ast ") {
		return c08Ast(strings.TrimPrefix(line, "ast "))
	}
	hb := strings.SplitN(line, "|", 2)
	if len(hb) != 2 || len(hb[0]) != 1 || hb[0][0] < '0' || hb[0][0] > '3' {
		return "bad-op"
	}
	ts := NewTrieState(inmemory_trie.NewEmptyTrie())
	ops := strings.Split(hb[1], ";")
	outs := make([]string, len(ops))
	for i, op := range ops {
		op := op
		outs[i] = vhCatch(func() string { return c08Op(ts, hb[0], op) })
	}
	return strings.Join(outs, ";")
}
