//go:build verif

package storage

import (
	"strconv"
	"strings"
	"testing"
)

// Generator of C08 cases.  Header digit: bit 0 = symbol pair (0: 0x61,0x71; 1: 0x61,0x62 — the
// second pair shares the high nibble, which reaches the known quirks of the in-memory trie),
// bit 1 = child-trie keys are the same strings as the main keys (0) or prefixed by 0x4b (1).
// Streams: general (nested transactions, every op), alias (no transaction, equal values in
// different child tries), region (no transaction, keys and prefixes at and below
// `:child_storage:default:`).  Wherever the result of applyToTrie depends on Go's map iteration
// order the implementation is not deterministic and no model can follow it; the generator keeps
// transactions away from those regions: the shared-high-nibble alphabet and empty keys in writes
// (trie quirk: Delete of a key that ends on arrival at a node deletes that node), equal contents
// in two child tries (the trie keys child tries by root hash) and writes to child-root keys.

type c08G struct {
	r       *vhRng
	x, y    byte
	sep     bool
	region  bool
	alias   bool
	depth   int
	maxDeep int
	live    [][]byte // child tries written so far
}

// noTx = the case never opens a transaction
func (g *c08G) noTx() bool { return g.maxDeep == 0 }

func (g *c08G) mainKey() []byte {
	x, y := g.x, g.y
	if g.region && g.r.Chance(1, 3) {
		switch g.r.Intn(3) {
		case 0:
			return append([]byte(c08ChildPrefix), x)
		case 1:
			return append([]byte(c08ChildPrefix), y)
		default:
			return append([]byte(c08ChildPrefix), x, y)
		}
	}
	switch g.r.Intn(16) {
	case 0, 1, 2, 3:
		return []byte{x}
	case 4, 5, 6:
		return []byte{x, y}
	case 7, 8, 9:
		return []byte{y}
	case 10, 11:
		return []byte{y, x}
	case 12:
		return []byte{x, x}
	case 13:
		return []byte{x, y, x}
	case 14:
		if g.noTx() && g.r.Chance(1, 3) {
			return []byte{}
		}
		return []byte{y, y}
	default:
		return []byte{x, y, y}
	}
}

func (g *c08G) prefix() []byte {
	x, y := g.x, g.y
	if g.region && g.r.Chance(1, 2) {
		switch g.r.Intn(4) {
		case 0:
			return []byte(":")
		case 1:
			return []byte(":child_storage:")
		case 2:
			return []byte(c08ChildPrefix)
		default:
			return append([]byte(c08ChildPrefix), x)
		}
	}
	switch g.r.Intn(10) {
	case 0, 1, 2, 3:
		return []byte{x}
	case 4, 5:
		return []byte{x, y}
	case 6, 7:
		return []byte{y}
	case 8:
		// the empty prefix covers the child-root keys: only without transactions
		if g.noTx() && g.r.Chance(1, 2) {
			return []byte{}
		}
		return []byte{x, y, x}
	default:
		return []byte{y, x}
	}
}

// childKey returns the key of a child trie and a value tag that differs per child, so that two
// child tries never have the same content (except in the alias stream).  With fresh = false a
// child that was written before is preferred.
func (g *c08G) childKey(fresh bool) ([]byte, byte) {
	x, y := g.x, g.y
	var k []byte
	if !fresh && len(g.live) > 0 && g.r.Chance(5, 6) {
		k = g.live[g.r.Intn(len(g.live))]
	} else {
		switch g.r.Intn(6) {
		case 0, 1, 2:
			k = []byte{x}
		case 3, 4:
			k = []byte{x, y}
		default:
			k = []byte{y}
		}
		if g.sep {
			k = append([]byte{0x4b}, k...)
		}
	}
	tag := byte(0xa0)
	if !g.alias {
		switch {
		case len(k) > 0 && k[len(k)-1] == y && len(k) > 1 && k[len(k)-2] == x:
			tag = 0xb0
		case len(k) > 0 && k[len(k)-1] == y:
			tag = 0xc0
		}
	}
	if fresh {
		g.live = append(g.live, k)
	}
	return k, tag
}

func (g *c08G) inKey() []byte {
	x, y := g.x, g.y
	switch g.r.Intn(12) {
	case 0, 1, 2, 3:
		return []byte{x}
	case 4, 5, 6:
		return []byte{x, y}
	case 7, 8:
		return []byte{y}
	case 9:
		return []byte{y, x}
	case 10:
		return []byte{x, y, x}
	default:
		if g.noTx() && g.r.Chance(1, 3) {
			return []byte{}
		}
		return []byte{x, x}
	}
}

func (g *c08G) val(tag byte) string {
	if tag == 0 || g.noTx() {
		switch g.r.Intn(40) {
		case 0:
			return "nil"
		case 1, 2:
			return "-"
		}
	}
	return vhHex([]byte{tag + byte(1+g.r.Intn(3))})
}

func (g *c08G) limit() string {
	switch g.r.Intn(20) {
	case 0:
		return "0"
	case 1:
		return "4294967295"
	case 2, 3, 4, 5, 6, 7, 8, 9:
		return "1"
	case 10, 11, 12, 13, 14, 15:
		return "2"
	default:
		return strconv.Itoa(3 + g.r.Intn(2))
	}
}

func (g *c08G) op() string {
	r := g.r
	for {
		switch w := r.Intn(100); {
		case w < 9:
			if g.depth >= g.maxDeep {
				continue
			}
			g.depth++
			return "start"
		case w < 16:
			if g.depth == 0 && !r.Chance(1, 30) {
				continue
			}
			if g.depth > 0 {
				g.depth--
			}
			return "commit"
		case w < 20:
			if g.depth == 0 && !r.Chance(1, 30) {
				continue
			}
			if g.depth > 0 {
				g.depth--
			}
			return "rollback"
		case w < 31:
			return "put " + vhHex(g.mainKey()) + " " + g.val(0)
		case w < 36:
			return "del " + vhHex(g.mainKey())
		case w < 39:
			return "clr " + vhHex(g.prefix())
		case w < 43:
			return "clrl " + vhHex(g.prefix()) + " " + g.limit()
		case w < 45:
			return "get " + vhHex(g.mainKey())
		case w < 47:
			return "next " + vhHex(g.mainKey())
		case w < 48:
			return "ents"
		case w < 60:
			c, tag := g.childKey(r.Chance(1, 2))
			return "cput " + vhHex(c) + " " + vhHex(g.inKey()) + " " + g.val(tag)
		case w < 64:
			if len(g.live) == 0 && !r.Chance(1, 6) {
				continue
			}
			c, _ := g.childKey(false)
			return "cdel " + vhHex(c) + " " + vhHex(g.inKey())
		case w < 67:
			if (g.depth == 0 && !r.Chance(1, 3)) || (len(g.live) == 0 && !r.Chance(1, 6)) {
				continue
			}
			c, _ := g.childKey(false)
			return "cclr " + vhHex(c) + " " + vhHex(g.prefix())
		case w < 71:
			if (g.depth == 0 && !r.Chance(1, 3)) || (len(g.live) == 0 && !r.Chance(1, 6)) {
				continue
			}
			c, _ := g.childKey(false)
			return "cclrl " + vhHex(c) + " " + vhHex(g.prefix()) + " " + g.limit()
		case w < 73:
			c, _ := g.childKey(false)
			return "cget " + vhHex(c) + " " + vhHex(g.inKey())
		case w < 75:
			c, _ := g.childKey(false)
			return "cnext " + vhHex(c) + " " + vhHex(g.inKey())
		case w < 78:
			c, _ := g.childKey(false)
			return "ckeys " + vhHex(c) + " " + vhHex(g.prefix())
		case w < 81:
			if len(g.live) == 0 && !r.Chance(1, 6) {
				continue
			}
			c, _ := g.childKey(false)
			return "kill " + vhHex(c)
		case w < 85:
			if len(g.live) == 0 && !r.Chance(1, 6) {
				continue
			}
			c, _ := g.childKey(false)
			if r.Chance(1, 3) {
				return "killl " + vhHex(c) + " none"
			}
			if g.depth == 0 && !r.Chance(1, 3) {
				continue
			}
			return "killl " + vhHex(c) + " " + g.limit()
		case w < 86:
			c, _ := g.childKey(false)
			return "croot " + vhHex(c)
		default:
			return "snap"
		}
	}
}

func c08Gen(r *vhRng) string {
	if r.Chance(1, 1000) {
		switch r.Intn(3) {
		case 0:
			return "0|const"
		case 1:
			return "ast ExecuteBlock"
		default:
			return "ast InitializeBlock"
		}
	}
	g := &c08G{r: r, x: 0x61, y: 0x71}
	hdr := 0
	if r.Chance(3, 20) {
		g.y = 0x62
		hdr |= 1
	}
	if r.Chance(1, 2) {
		g.sep = true
		hdr |= 2
	}
	switch r.Intn(10) {
	case 0:
		g.alias = true
	case 1:
		g.region = true
	}
	g.maxDeep = 4
	if r.Chance(1, 5) {
		g.maxDeep = 8
	}
	if g.alias || g.region || hdr&1 == 1 {
		g.maxDeep = 0
	}
	n := 2 + r.Intn(12)
	if r.Chance(1, 3) {
		n = 10 + r.Intn(31)
	}
	ops := make([]string, 0, n+10)
	for i := 0; i < n; i++ {
		ops = append(ops, g.op())
	}
	if r.Chance(1, 2) {
		ops = append(ops, "snap")
		for g.depth > 0 {
			g.depth--
			if r.Chance(1, 5) {
				ops = append(ops, "rollback")
			} else {
				ops = append(ops, "commit")
			}
		}
	}
	ops = append(ops, "snap")
	return strconv.Itoa(hdr) + "|" + strings.Join(ops, ";")
}

func TestVerifC08(t *testing.T) { vhMain(t, c08Gen, c08Run) }
