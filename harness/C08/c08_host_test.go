//go:build verif

package wazero_runtime

import (
	"bytes"
	"context"
	"encoding/binary"
	"errors"
	"fmt"
	"sort"
	"strconv"
	"strings"
	"sync"
	"testing"

	"github.com/ChainSafe/gossamer/internal/log"
	"github.com/ChainSafe/gossamer/lib/runtime"
	"github.com/ChainSafe/gossamer/lib/runtime/allocator"
	"github.com/ChainSafe/gossamer/lib/runtime/storage"
	"github.com/ChainSafe/gossamer/pkg/trie"
	inmemory_trie "github.com/ChainSafe/gossamer/pkg/trie/inmemory"
	"github.com/tetratelabs/wazero"
	"github.com/tetratelabs/wazero/api"
)

// C08, host level: one case = `h<hdr>|op;op;...` executed THROUGH the storage host functions of
// imports.go on a real guest memory (a Wasm module that only exports a memory), a runtime.Context
// with the real allocator and a real storage.TrieState over an in-memory trie.
//   put k v | get k | has k | read k off n | del k | clr p | clrl p n|none | next k | root
//   cput c k v | cget c k | chas c k | cdel c k | cclr c p | cclrl c p n|none | cnext c k | croot c
//   kill c | killl2 c n|none | killl c n|none (storage_kill_version_3) | start | commit | rollback
//   snap   (direct inspection of the TrieState, not through the host functions)
// Arguments are written to fixed slots of guest memory; after EVERY call the harness checks that the
// host function left its argument slots untouched, then overwrites all slots with garbage and
// re-uses the same addresses for the next call: a key / value / prefix slice retained by
// TrieState, storageDiff or the trie would change under it and show up in a later result or snap.
// Observable per op: the bytes the host function left in guest memory at the returned
// pointer-size (hex), `u32:<n>`, `void`, `ptr0`, `panic`; read: `<result>,<first 8 bytes of out>`.

func c08hWasm(pages byte) []byte {
	return []byte{
		0x00, 0x61, 0x73, 0x6d, 0x01, 0x00, 0x00, 0x00,
		0x05, 0x03, 0x01, 0x00, pages,
		0x07, 0x0a, 0x01, 0x06, 'm', 'e', 'm', 'o', 'r', 'y', 0x02, 0x00,
	}
}

var (
	c08hOnce     sync.Once
	c08hRt       wazero.Runtime
	c08hCompiled wazero.CompiledModule
	c08hErr      error
	c08hSeq      int
)

const (
	c08hSlotA   = 64
	c08hSlotB   = 192
	c08hSlotC   = 320
	c08hSlotOut = 448
	c08hSlotCap = 96
	c08hHeap    = 1024
	c08hPrefix  = ":child_storage:default:"
)

type c08hEnv struct {
	mod     api.Module
	ctx     context.Context
	ts      *storage.TrieState
	written map[uint32][]byte
	n       int
}

func (e *c08hEnv) arg(slot uint32, b []byte) uint64 {
	if len(b) > c08hSlotCap {
		panic("slot overflow")
	}
	if !e.mod.Memory().Write(slot, b) {
		panic("mem write")
	}
	e.written[slot] = append([]byte{}, b...)
	return newPointerSize(slot, uint32(len(b)))
}

// result copies the bytes at a returned pointer-size out of guest memory.
func (e *c08hEnv) result(ps uint64) string {
	if ps == 0 {
		return "ptr0"
	}
	ptr, size := splitPointerSize(ps)
	b, ok := e.mod.Memory().Read(ptr, size)
	if !ok {
		return "bad-span"
	}
	if ptr < c08hHeap {
		return "result-in-args"
	}
	return vhHex(append([]byte{}, b...))
}

// after checks the argument slots and then scribbles over them.
func (e *c08hEnv) after() string {
	bad := ""
	for slot, want := range e.written {
		got, ok := e.mod.Memory().Read(slot, uint64(len(want)))
		if !ok || !bytes.Equal(got, want) {
			bad = "!input-clobbered"
		}
	}
	e.written = map[uint32][]byte{}
	e.n++
	fill := make([]byte, c08hHeap-c08hSlotA)
	for i := range fill {
		fill[i] = byte(0xa5 ^ (e.n * 37) ^ i)
	}
	e.mod.Memory().Write(c08hSlotA, fill)
	return bad
}

func c08hLimU32(s string) ([]byte, bool) { // SCALE Option<u32>
	if s == "none" {
		return []byte{0}, true
	}
	v, err := strconv.ParseUint(s, 10, 32)
	if err != nil {
		return nil, false
	}
	b := make([]byte, 5)
	b[0] = 1
	binary.LittleEndian.PutUint32(b[1:], uint32(v))
	return b, true
}

// the child functions decode the limit as (Option of) a 4-byte Vec<u8>
func c08hLimVec(s string, opt bool) ([]byte, bool) {
	if s == "none" {
		return []byte{0}, true
	}
	v, err := strconv.ParseUint(s, 10, 32)
	if err != nil {
		return nil, false
	}
	b := []byte{0x10, 0, 0, 0, 0}
	binary.LittleEndian.PutUint32(b[1:], uint32(v))
	if opt {
		b = append([]byte{1}, b...)
	}
	return b, true
}

func c08hOpt(b []byte) string {
	if b == nil {
		return "nil"
	}
	return vhHex(b)
}

func c08hMap(m map[string][]byte) string {
	if len(m) == 0 {
		return "empty"
	}
	ks := make([]string, 0, len(m))
	for k := range m {
		ks = append(ks, k)
	}
	sort.Strings(ks)
	parts := make([]string, len(ks))
	for i, k := range ks {
		parts[i] = vhHex([]byte(k)) + "=" + c08hOpt(m[k])
	}
	return strings.Join(parts, ",")
}

func c08hNoChild(err error) bool { return errors.Is(err, trie.ErrChildTrieDoesNotExist) }

// c08hSnap = the snap of the TrieState-level harness (c08_test.go), on the same probe universe.
func c08hSnap(ts *storage.TrieState, hdr string) string {
	n, _ := strconv.Atoi(hdr)
	x, y := byte(0x61), byte(0x71)
	if n&1 == 1 {
		y = 0x62
	}
	px := append([]byte(c08hPrefix), x)
	py := append([]byte(c08hPrefix), y)
	mainKeys := [][]byte{{}, {x}, {x, y}, {y}, {y, x}, px, py}
	kids := [][]byte{{x}, {x, y}, {y}}
	if n&2 == 2 {
		kids = [][]byte{{0x4b, x}, {0x4b, x, y}, {0x4b, y}}
	}
	inKeys := [][]byte{{}, {x}, {x, y}, {y}}
	one := func(f func() string) string { return vhCatch(f) }
	var parts []string
	for _, k := range mainKeys {
		k := k
		if len(k) > 0 {
			parts = append(parts, one(func() string { return c08hOpt(ts.Get(k)) }))
		}
		parts = append(parts, one(func() string { return c08hOpt(ts.NextKey(k)) }))
	}
	parts = append(parts, one(func() string { return c08hMap(ts.TrieEntries()) }))
	for _, c := range kids {
		c := c
		parts = append(parts, one(func() string {
			ks, err := ts.GetKeysWithPrefixFromChild(c, []byte{})
			if err != nil {
				if c08hNoChild(err) {
					return "none"
				}
				return "err"
			}
			if len(ks) == 0 {
				return "none"
			}
			ss := make([]string, len(ks))
			for i, k := range ks {
				ss[i] = string(k)
			}
			sort.Strings(ss)
			for i := range ss {
				ss[i] = vhHex([]byte(ss[i]))
			}
			return strings.Join(ss, ",")
		}))
		for _, k := range inKeys {
			k := k
			if len(k) > 0 {
				parts = append(parts, one(func() string {
					v, err := ts.GetChildStorage(c, k)
					if err != nil {
						if c08hNoChild(err) {
							return "nil"
						}
						return "err"
					}
					return c08hOpt(v)
				}))
			}
			parts = append(parts, one(func() string {
				v, err := ts.GetChildNextKey(c, k)
				if err != nil {
					if c08hNoChild(err) {
						return "nil"
					}
					return "err"
				}
				return c08hOpt(v)
			}))
		}
	}
	parts = append(parts, one(func() string {
		tr := ts.Trie().(*inmemory_trie.InMemoryTrie)
		var sb strings.Builder
		ents := tr.Entries()
		sb.WriteString("E=" + c08hMap(ents))
		ks := make([]string, 0)
		for k := range ents {
			if strings.HasPrefix(k, c08hPrefix) {
				ks = append(ks, k)
			}
		}
		sort.Strings(ks)
		for _, k := range ks {
			ck := []byte(k[len(c08hPrefix):])
			sb.WriteString(" C" + vhHex(ck) + "=")
			child, err := tr.GetChild(ck)
			switch {
			case err != nil:
				sb.WriteString("?")
			case child == nil:
				sb.WriteString("!")
			default:
				sb.WriteString(c08hMap(child.Entries()))
			}
		}
		rh, err := tr.Hash()
		if err != nil {
			sb.WriteString(" R=err")
		} else {
			sb.WriteString(" R=" + vhHex(rh[:]))
		}
		return sb.String()
	}))
	return strings.Join(parts, "/")
}

func c08hOp(e *c08hEnv, hdr, op string) string {
	f := strings.Fields(op)
	if len(f) == 0 {
		return "bad-op"
	}
	n := len(f)
	h := func(i int) []byte { return vhUnhex(f[i]) }
	m, ctx := e.mod, e.ctx
	switch {
	case f[0] == "put" && n == 3:
		ext_storage_set_version_1(ctx, m, e.arg(c08hSlotA, h(1)), e.arg(c08hSlotB, h(2)))
		return "void"
	case f[0] == "get" && n == 2:
		return e.result(ext_storage_get_version_1(ctx, m, e.arg(c08hSlotA, h(1))))
	case f[0] == "has" && n == 2:
		return fmt.Sprintf("u32:%d", ext_storage_exists_version_1(ctx, m, e.arg(c08hSlotA, h(1))))
	case f[0] == "read" && n == 4:
		off, err1 := strconv.ParseUint(f[2], 10, 32)
		sz, err2 := strconv.ParseUint(f[3], 10, 32)
		if err1 != nil || err2 != nil || sz > 8 {
			return "bad-op"
		}
		m.Memory().Write(c08hSlotOut, bytes.Repeat([]byte{0xcc}, 8))
		r := e.result(ext_storage_read_version_1(ctx, m, e.arg(c08hSlotA, h(1)),
			newPointerSize(c08hSlotOut, uint32(sz)), uint32(off)))
		out, _ := m.Memory().Read(c08hSlotOut, 8)
		return r + "," + vhHex(append([]byte{}, out...))
	case f[0] == "del" && n == 2:
		ext_storage_clear_version_1(ctx, m, e.arg(c08hSlotA, h(1)))
		return "void"
	case f[0] == "clr" && n == 2:
		ext_storage_clear_prefix_version_1(ctx, m, e.arg(c08hSlotA, h(1)))
		return "void"
	case f[0] == "clrl" && n == 3:
		lim, ok := c08hLimU32(f[2])
		if !ok {
			return "bad-op"
		}
		return e.result(ext_storage_clear_prefix_version_2(ctx, m, e.arg(c08hSlotA, h(1)), e.arg(c08hSlotB, lim)))
	case f[0] == "next" && n == 2:
		return e.result(ext_storage_next_key_version_1(ctx, m, e.arg(c08hSlotA, h(1))))
	case f[0] == "root" && n == 1:
		return e.result(ext_storage_root_version_1(ctx, m))
	case f[0] == "cput" && n == 4:
		ext_default_child_storage_set_version_1(ctx, m, e.arg(c08hSlotA, h(1)), e.arg(c08hSlotB, h(2)),
			e.arg(c08hSlotC, h(3)))
		return "void"
	case f[0] == "cget" && n == 3:
		return e.result(ext_default_child_storage_get_version_1(ctx, m, e.arg(c08hSlotA, h(1)), e.arg(c08hSlotB, h(2))))
	case f[0] == "chas" && n == 3:
		return fmt.Sprintf("u32:%d", ext_default_child_storage_exists_version_1(ctx, m,
			e.arg(c08hSlotA, h(1)), e.arg(c08hSlotB, h(2))))
	case f[0] == "cdel" && n == 3:
		ext_default_child_storage_clear_version_1(ctx, m, e.arg(c08hSlotA, h(1)), e.arg(c08hSlotB, h(2)))
		return "void"
	case f[0] == "cclr" && n == 3:
		ext_default_child_storage_clear_prefix_version_1(ctx, m, e.arg(c08hSlotA, h(1)), e.arg(c08hSlotB, h(2)))
		return "void"
	case f[0] == "cclrl" && n == 4:
		lim, ok := c08hLimVec(f[3], false)
		if !ok {
			return "bad-op"
		}
		return e.result(ext_default_child_storage_clear_prefix_version_2(ctx, m, e.arg(c08hSlotA, h(1)),
			e.arg(c08hSlotB, h(2)), e.arg(c08hSlotC, lim)))
	case f[0] == "cnext" && n == 3:
		return e.result(ext_default_child_storage_next_key_version_1(ctx, m, e.arg(c08hSlotA, h(1)), e.arg(c08hSlotB, h(2))))
	case f[0] == "croot" && n == 2:
		return e.result(ext_default_child_storage_root_version_1(ctx, m, e.arg(c08hSlotA, h(1))))
	case f[0] == "kill" && n == 2:
		ext_default_child_storage_storage_kill_version_1(ctx, m, e.arg(c08hSlotA, h(1)))
		return "void"
	case f[0] == "killl2" && n == 3:
		lim, ok := c08hLimVec(f[2], true)
		if !ok {
			return "bad-op"
		}
		return fmt.Sprintf("u32:%d", ext_default_child_storage_storage_kill_version_2(ctx, m,
			e.arg(c08hSlotA, h(1)), e.arg(c08hSlotB, lim)))
	case f[0] == "killl" && n == 3:
		lim, ok := c08hLimVec(f[2], true)
		if !ok {
			return "bad-op"
		}
		return e.result(ext_default_child_storage_storage_kill_version_3(ctx, m, e.arg(c08hSlotA, h(1)), e.arg(c08hSlotB, lim)))
	case f[0] == "start" && n == 1:
		ext_storage_start_transaction_version_1(ctx, m)
		return "void"
	case f[0] == "commit" && n == 1:
		ext_storage_commit_transaction_version_1(ctx, m)
		return "void"
	case f[0] == "rollback" && n == 1:
		ext_storage_rollback_transaction_version_1(ctx, m)
		return "void"
	case f[0] == "snap" && n == 1:
		return c08hSnap(e.ts, hdr)
	}
	return "bad-op"
}

func c08hRun(line string) string {
	hb := strings.SplitN(line, "|", 2)
	if len(hb) != 2 || len(hb[0]) != 2 || hb[0][0] != 'h' || hb[0][1] < '0' || hb[0][1] > '3' {
		return "bad-op"
	}
	c08hOnce.Do(func() {
		logger.Patch(log.SetLevel(log.Critical))
		bg := context.Background()
		c08hRt = wazero.NewRuntimeWithConfig(bg, wazero.NewRuntimeConfigInterpreter())
		c08hCompiled, c08hErr = c08hRt.CompileModule(bg, c08hWasm(2))
	})
	if c08hErr != nil {
		return "err-wasm"
	}
	bg := context.Background()
	c08hSeq++
	mod, err := c08hRt.InstantiateModule(bg, c08hCompiled, wazero.NewModuleConfig().WithName(fmt.Sprintf("c08h-%d", c08hSeq)))
	if err != nil {
		return "err-wasm"
	}
	defer mod.Close(bg)
	ts := storage.NewTrieState(inmemory_trie.NewEmptyTrie())
	rtCtx := &runtime.Context{Allocator: allocator.NewFreeingBumpHeapAllocator(c08hHeap), Storage: ts}
	e := &c08hEnv{mod: mod, ctx: context.WithValue(bg, runtimeContextKey, rtCtx), ts: ts, written: map[uint32][]byte{}}
	ops := strings.Split(hb[1], ";")
	outs := make([]string, len(ops))
	for i, op := range ops {
		op := op
		outs[i] = vhCatch(func() string { return c08hOp(e, hb[0][1:], op) })
		outs[i] += e.after()
	}
	return strings.Join(outs, ";")
}

// ---- generator (same shapes as the TrieState-level generator, smaller) ----

func c08hGen(r *vhRng) string {
	x, y := byte(0x61), byte(0x71)
	hdr := 0
	if r.Chance(1, 2) {
		hdr |= 2
	}
	sep := hdr&2 == 2
	mainKey := func() []byte {
		switch r.Intn(8) {
		case 0, 1, 2:
			return []byte{x}
		case 3, 4:
			return []byte{x, y}
		case 5:
			return []byte{y}
		case 6:
			return []byte{y, x}
		default:
			return []byte{x, y, x}
		}
	}
	prefix := func() []byte {
		switch r.Intn(12) {
		case 0, 1, 2, 3, 4:
			return []byte{x}
		case 5, 6, 7:
			return []byte{x, y}
		case 8, 9:
			return []byte{y}
		case 10:
			return []byte(":child_storage:")
		default:
			return []byte{y, x}
		}
	}
	var live [][]byte
	child := func(fresh bool) ([]byte, byte) {
		var k []byte
		if !fresh && len(live) > 0 && r.Chance(5, 6) {
			k = live[r.Intn(len(live))]
		} else {
			switch r.Intn(3) {
			case 0:
				k = []byte{x}
			case 1:
				k = []byte{x, y}
			default:
				k = []byte{y}
			}
			if sep {
				k = append([]byte{0x4b}, k...)
			}
		}
		tag := byte(0xa0)
		switch {
		case len(k) > 1 && k[len(k)-1] == y && k[len(k)-2] == x:
			tag = 0xb0
		case k[len(k)-1] == y:
			tag = 0xc0
		}
		if fresh {
			live = append(live, k)
		}
		return k, tag
	}
	val := func(tag byte) string {
		if r.Chance(1, 20) {
			return "-"
		}
		if r.Chance(1, 6) {
			return vhHex([]byte{tag + 1, tag + 2, tag + 3})
		}
		return vhHex([]byte{tag + byte(1+r.Intn(3))})
	}
	limit := func() string {
		switch r.Intn(10) {
		case 0:
			return "0"
		case 1, 2:
			return "none"
		case 3, 4, 5, 6:
			return "1"
		default:
			return "2"
		}
	}
	depth := 0
	n := 3 + r.Intn(25)
	ops := make([]string, 0, n+4)
	for len(ops) < n {
		switch w := r.Intn(100); {
		case w < 8:
			if depth < 3 {
				depth++
				ops = append(ops, "start")
			}
		case w < 14:
			if depth > 0 {
				depth--
				ops = append(ops, "commit")
			}
		case w < 17:
			if depth > 0 {
				depth--
				ops = append(ops, "rollback")
			}
		case w < 30:
			ops = append(ops, "put "+vhHex(mainKey())+" "+val(0))
		case w < 34:
			ops = append(ops, "del "+vhHex(mainKey()))
		case w < 37:
			ops = append(ops, "clr "+vhHex(prefix()))
		case w < 41:
			ops = append(ops, "clrl "+vhHex(prefix())+" "+limit())
		case w < 45:
			ops = append(ops, "get "+vhHex(mainKey()))
		case w < 47:
			ops = append(ops, "has "+vhHex(mainKey()))
		case w < 50:
			ops = append(ops, fmt.Sprintf("read %s %d %d", vhHex(mainKey()), r.Intn(4), r.Intn(4)))
		case w < 53:
			ops = append(ops, "next "+vhHex(mainKey()))
		case w < 65:
			c, tag := child(r.Chance(1, 2))
			ops = append(ops, "cput "+vhHex(c)+" "+vhHex(mainKey())+" "+val(tag))
		case w < 69:
			c, _ := child(false)
			ops = append(ops, "cdel "+vhHex(c)+" "+vhHex(mainKey()))
		case w < 72:
			c, _ := child(false)
			ops = append(ops, "cclr "+vhHex(c)+" "+vhHex(prefix()))
		case w < 76:
			c, _ := child(false)
			ops = append(ops, "cclrl "+vhHex(c)+" "+vhHex(prefix())+" "+limit())
		case w < 79:
			c, _ := child(false)
			ops = append(ops, "cget "+vhHex(c)+" "+vhHex(mainKey()))
		case w < 81:
			c, _ := child(false)
			ops = append(ops, "chas "+vhHex(c)+" "+vhHex(mainKey()))
		case w < 83:
			c, _ := child(false)
			ops = append(ops, "cnext "+vhHex(c)+" "+vhHex(mainKey()))
		case w < 85:
			c, _ := child(false)
			ops = append(ops, "kill "+vhHex(c))
		case w < 88:
			c, _ := child(false)
			ops = append(ops, "killl "+vhHex(c)+" "+limit())
		case w < 90:
			c, _ := child(false)
			ops = append(ops, "killl2 "+vhHex(c)+" "+limit())
		case w < 91:
			c, _ := child(false)
			ops = append(ops, "croot "+vhHex(c))
		case w < 92:
			if depth == 1 && r.Chance(1, 2) {
				depth = 0
				ops = append(ops, "root")
			}
		default:
			ops = append(ops, "snap")
		}
	}
	ops = append(ops, "snap")
	if depth == 1 && r.Chance(1, 2) {
		ops = append(ops, "root", "snap")
	}
	return "h" + strconv.Itoa(hdr) + "|" + strings.Join(ops, ";")
}

func TestVerifC08Host(t *testing.T) { vhMain(t, c08hGen, c08hRun) }
