//go:build verif

package state

// Harness of property C23 (authority set changes are applied as Substrate applies them).
//
// One case = one line `t=<parents> a=<announcements>|op;op;...`
//   t=p1,p2,...,pn     block i (1..n) has parent p_i < i; block 0 is genesis; number = depth
//   a=<item>,<item>    announcements in digest order: `<blk>s<delay>.<tag>` (scheduled change) or
//                      `<blk>f<delay>.<tag>.<bestFinalized>` (forced change); `a=-` for none
//   ops                `imp b` = dot/core Service.handleBlock on block b: BlockState.AddBlock, the real
//                      digest.BlockImportHandler.HandleDigests on the real header (consensus digests carry the
//                      announcements), GrandpaState.ApplyForcedChanges;
//                      `fin b` = BlockState.SetFinalisedHash(b, round 1) and then, as dot/digest does on the
//                      finalisation notification, GrandpaState.ApplyScheduledChanges.
// Everything runs on the REAL BlockState / GrandpaState over a fresh in-memory Pebble database.
// Observables after every op: result class, current set id, authorities (tag) of every set, change block of
// every set, GetSetIDByBlockNumber for every number, NextGrandpaAuthorityChange for every block in the block
// tree, and (after `#`) the pending forced-change slice and scheduled-change tree in their stored order.

import (
	"errors"
	"fmt"
	"sort"
	"strconv"
	"strings"
	"sync"
	"testing"

	"github.com/ChainSafe/gossamer/dot/digest"
	"github.com/ChainSafe/gossamer/dot/telemetry"
	"github.com/ChainSafe/gossamer/dot/types"
	"github.com/ChainSafe/gossamer/internal/database"
	"github.com/ChainSafe/gossamer/internal/log"
	"github.com/ChainSafe/gossamer/lib/blocktree"
	"github.com/ChainSafe/gossamer/lib/common"
	"github.com/ChainSafe/gossamer/lib/crypto/ed25519"
	"github.com/ChainSafe/gossamer/lib/keystore"
	"github.com/ChainSafe/gossamer/pkg/scale"
	"github.com/ChainSafe/gossamer/pkg/trie"
)

var (
	c23Once sync.Once
	c23Key  [32]byte
)

func c23Init() {
	c23Once.Do(func() {
		logger.Patch(log.SetLevel(log.Critical))
		kr, err := keystore.NewEd25519Keyring()
		if err != nil {
			panic(err)
		}
		c23Key = [32]byte(kr.Alice().Public().(*ed25519.PublicKey).AsBytes())
	})
}

type c23Ann struct {
	blk    int
	forced bool
	delay  int
	tag    int
	best   int
}

type c23Case struct {
	pub     bool  // `v=pub`: print the public observables only
	parents []int // parents[i] = parent of block i+1
	anns    []c23Ann
	ops     [][2]string
}

func c23Parse(line string) (*c23Case, bool) {
	hd, opsS, ok := strings.Cut(line, "|")
	if !ok {
		return nil, false
	}
	c := &c23Case{}
	for _, f := range strings.Fields(hd) {
		switch {
		case strings.HasPrefix(f, "t="):
			if f == "t=-" {
				continue
			}
			for i, s := range strings.Split(f[2:], ",") {
				p, err := strconv.Atoi(s)
				if err != nil || p < 0 || p > i {
					return nil, false
				}
				c.parents = append(c.parents, p)
			}
		case strings.HasPrefix(f, "a="):
			if f == "a=-" {
				continue
			}
			for _, s := range strings.Split(f[2:], ",") {
				var a c23Ann
				k := strings.IndexAny(s, "sf")
				if k <= 0 {
					return nil, false
				}
				b, err := strconv.Atoi(s[:k])
				if err != nil {
					return nil, false
				}
				a.blk, a.forced = b, s[k] == 'f'
				parts := strings.Split(s[k+1:], ".")
				want := 2
				if a.forced {
					want = 3
				}
				if len(parts) != want {
					return nil, false
				}
				nums := make([]int, len(parts))
				for i, p := range parts {
					v, err := strconv.Atoi(p)
					if err != nil || v < 0 {
						return nil, false
					}
					nums[i] = v
				}
				a.delay, a.tag = nums[0], nums[1]
				if a.forced {
					a.best = nums[2]
				}
				if a.blk < 1 || a.blk > len(c.parents) {
					return nil, false
				}
				c.anns = append(c.anns, a)
			}
		case f == "v=pub":
			c.pub = true
		default:
			return nil, false
		}
	}
	if strings.TrimSpace(opsS) != "" {
		for _, o := range strings.Split(opsS, ";") {
			w := strings.Fields(o)
			if len(w) != 2 {
				return nil, false
			}
			c.ops = append(c.ops, [2]string{w[0], w[1]})
		}
	}
	return c, true
}

func c23Auth(tag int) []types.GrandpaAuthoritiesRaw {
	return []types.GrandpaAuthoritiesRaw{{Key: c23Key, ID: uint64(tag)}}
}

type c23Node struct {
	db      database.Database
	block   *BlockState
	grandpa *GrandpaState
	imp     *digest.BlockImportHandler
	hdr     []*types.Header // by block id
	num     []int
	byHash  map[common.Hash]int
	maxNum  int
}

func c23NewNode(c *c23Case) (*c23Node, error) {
	c23Init()
	db, err := database.NewPebble("verif-c23", true)
	if err != nil {
		return nil, err
	}
	n := &c23Node{db: db, byHash: map[common.Hash]int{}}
	gen := types.NewHeader(common.NewHash([]byte{0}), trie.EmptyHash, trie.EmptyHash, 0, types.NewDigest())
	tele := telemetry.NewNoopMailer()
	n.block, err = NewBlockStateFromGenesis(db, NewTries(), gen, tele)
	if err != nil {
		return nil, err
	}
	voters, err := types.NewGrandpaVotersFromAuthoritiesRaw(c23Auth(0))
	if err != nil {
		return nil, err
	}
	n.grandpa, err = NewGrandpaStateFromGenesis(db, n.block, voters, tele)
	if err != nil {
		return nil, err
	}
	n.imp = digest.NewBlockImportHandler(nil, n.grandpa)
	n.hdr = []*types.Header{gen}
	n.num = []int{0}
	n.byHash[gen.Hash()] = 0
	for i, p := range c.parents {
		id := i + 1
		pre, err := types.NewBabePrimaryPreDigest(0, uint64(1000+id), [32]byte{}, [64]byte{}).ToPreRuntimeDigest()
		if err != nil {
			return nil, err
		}
		dg := types.NewDigest()
		if err := dg.Add(*pre); err != nil {
			return nil, err
		}
		for _, a := range c.anns {
			if a.blk != id {
				continue
			}
			d := types.NewGrandpaConsensusDigest()
			if a.forced {
				err = d.SetValue(types.GrandpaForcedChange{Auths: c23Auth(a.tag), Delay: uint32(a.delay),
					BestFinalizedBlock: uint32(a.best)})
			} else {
				err = d.SetValue(types.GrandpaScheduledChange{Auths: c23Auth(a.tag), Delay: uint32(a.delay)})
			}
			if err != nil {
				return nil, err
			}
			enc, err := scale.Marshal(d)
			if err != nil {
				return nil, err
			}
			if err := dg.Add(types.ConsensusDigest{ConsensusEngineID: types.GrandpaEngineID, Data: enc}); err != nil {
				return nil, err
			}
		}
		h := types.NewHeader(n.hdr[p].Hash(), trie.EmptyHash, trie.EmptyHash, uint(n.num[p]+1), dg)
		n.hdr = append(n.hdr, h)
		n.num = append(n.num, n.num[p]+1)
		n.byHash[h.Hash()] = id
		if n.num[id] > n.maxNum {
			n.maxNum = n.num[id]
		}
	}
	return n, nil
}

func c23ErrClass(err error) string {
	switch {
	case errors.Is(err, errDuplicateHashes):
		return "dup"
	case errors.Is(err, errAlreadyHasForcedChange):
		return "already"
	case errors.Is(err, errPendingScheduledChanges):
		return "pending"
	case errors.Is(err, errUnfinalizedAncestor):
		return "unfin"
	default:
		return "anc"
	}
}

// imp re-enacts dot/core Service.handleBlock (the parts that touch the authority set).
func (n *c23Node) importBlock(id int) string {
	h := n.hdr[id]
	blk := &types.Block{Header: *h, Body: *types.NewBody([]types.Extrinsic{{byte(id)}})}
	if err := n.block.AddBlock(blk); err != nil {
		if errors.Is(err, blocktree.ErrParentNotFound) {
			return "e-parent"
		} else if !errors.Is(err, blocktree.ErrBlockExists) {
			return "e-add"
		}
	}
	if err := n.imp.HandleDigests(h); err != nil {
		return "e-digest:" + c23ErrClass(err)
	}
	if err := n.grandpa.ApplyForcedChanges(h); err != nil {
		return "e-forced:" + c23ErrClass(err)
	}
	return "ok"
}

func (n *c23Node) finalise(id int) string {
	h := n.hdr[id]
	if err := n.block.SetFinalisedHash(h.Hash(), 1, 0); err != nil {
		return "e-fin"
	}
	if err := n.grandpa.ApplyScheduledChanges(h); err != nil {
		return "ok+e-sched:" + c23ErrClass(err)
	}
	return "ok"
}

func (n *c23Node) pcString(p *pendingChange, forced bool) string {
	id, ok := n.byHash[p.announcingHeader.Hash()]
	if !ok {
		return "?"
	}
	tag := "?"
	if len(p.nextAuthorities) == 1 {
		tag = strconv.FormatUint(p.nextAuthorities[0].Weight, 10)
	}
	s := fmt.Sprintf("%d.%d.%s", id, p.delay, tag)
	if forced {
		s += fmt.Sprintf(".%d", p.bestFinalizedNumber)
	}
	return s
}

func (n *c23Node) treeString(nodes []*pendingChangeNode) string {
	var sb strings.Builder
	for i, nd := range nodes {
		if i > 0 {
			sb.WriteString(",")
		}
		sb.WriteString(n.pcString(nd.change, false))
		sb.WriteString("{")
		sb.WriteString(n.treeString(nd.nodes))
		sb.WriteString("}")
	}
	return sb.String()
}

func (n *c23Node) observe() string {
	var sb strings.Builder
	cur, err := n.grandpa.GetCurrentSetID()
	if err != nil {
		return "id=err"
	}
	fmt.Fprintf(&sb, "id=%d au=", cur)
	for s := uint64(0); s <= cur; s++ {
		if s > 0 {
			sb.WriteString(",")
		}
		v, err := n.grandpa.GetAuthorities(s)
		switch {
		case err != nil:
			sb.WriteString("err")
		case len(v) != 1:
			sb.WriteString("?")
		default:
			sb.WriteString(strconv.FormatUint(v[0].ID, 10))
		}
	}
	sb.WriteString(" ch=")
	for s := uint64(0); s <= cur+1; s++ {
		if s > 0 {
			sb.WriteString(",")
		}
		v, err := n.grandpa.GetSetIDChange(s)
		switch {
		case errors.Is(err, database.ErrNotFound):
			sb.WriteString("-")
		case err != nil:
			sb.WriteString("err")
		default:
			sb.WriteString(strconv.Itoa(int(v)))
		}
	}
	sb.WriteString(" ids=")
	for k := 0; k <= n.maxNum+4; k++ {
		if k > 0 {
			sb.WriteString(",")
		}
		v, err := n.grandpa.GetSetIDByBlockNumber(uint(k))
		if err != nil {
			sb.WriteString("err")
		} else {
			sb.WriteString(strconv.FormatUint(v, 10))
		}
	}
	sb.WriteString(" nx=")
	var ids []int
	for _, h := range n.block.bt.GetAllBlocks() {
		if id, ok := n.byHash[h]; ok {
			ids = append(ids, id)
		} else {
			ids = append(ids, 999)
		}
	}
	sort.Ints(ids)
	for i, id := range ids {
		if i > 0 {
			sb.WriteString(",")
		}
		if id == 999 {
			sb.WriteString("?")
			continue
		}
		v, err := n.grandpa.NextGrandpaAuthorityChange(n.hdr[id].Hash(), uint(n.num[id]))
		switch {
		case errors.Is(err, ErrNoNextAuthorityChange):
			fmt.Fprintf(&sb, "%d:-", id)
		case err != nil:
			fmt.Fprintf(&sb, "%d:err", id)
		default:
			fmt.Fprintf(&sb, "%d:%d", id, v)
		}
	}
	sb.WriteString(" # fc=")
	for i := range *n.grandpa.forcedChanges {
		if i > 0 {
			sb.WriteString(",")
		}
		sb.WriteString(n.pcString(&(*n.grandpa.forcedChanges)[i], true))
	}
	sb.WriteString(" sc=")
	sb.WriteString(n.treeString(*n.grandpa.scheduledChangeRoots))
	return sb.String()
}

func c23Run(line string) string {
	c, ok := c23Parse(line)
	if !ok {
		return "bad-op"
	}
	n, err := c23NewNode(c)
	if err != nil {
		return "setup-failed"
	}
	defer n.db.Close()
	outs := make([]string, 0, len(c.ops))
	for _, op := range c.ops {
		id, err := strconv.Atoi(op[1])
		if err != nil || id < 1 || id > len(c.parents) {
			outs = append(outs, "bad-op")
			continue
		}
		var res string
		switch op[0] {
		case "imp":
			res = n.importBlock(id)
		case "fin":
			res = n.finalise(id)
		default:
			outs = append(outs, "bad-op")
			continue
		}
		obs := n.observe()
		if c.pub {
			obs, _, _ = strings.Cut(obs, " # ")
		}
		outs = append(outs, res+" "+obs)
	}
	if len(outs) == 0 {
		return "-"
	}
	return strings.Join(outs, ";")
}

// ---------------------------------------------------------------------------------------------
// generator

type c23Shape struct {
	parents []int
	num     []int // by id
}

// c23Tree draws a tree with n blocks and at most maxForks branch points away from the "append to the last
// block" default.
func c23Tree(r *vhRng, n, maxForks int, forkChance [2]int) *c23Shape {
	sh := &c23Shape{parents: make([]int, n), num: make([]int, n+1)}
	forks := 0
	for i := 1; i <= n; i++ {
		p := i - 1
		if i > 1 && forks < maxForks && r.Chance(forkChance[0], forkChance[1]) {
			p = r.Intn(i)
			if p != i-1 {
				forks++
			}
		}
		sh.parents[i-1] = p
		sh.num[i] = sh.num[p] + 1
	}
	return sh
}

func (sh *c23Shape) anc(a, d int) bool {
	for d != a && d != 0 {
		d = sh.parents[d-1]
	}
	return d == a
}

// c23Ops draws an op sequence: imports mostly parent-first and each block once, finalisations mostly of
// imported descendants of the last finalised block.
func c23Ops(r *vhRng, sh *c23Shape, finNum, finDen int, noise bool) []string {
	n := len(sh.parents)
	isImp := map[int]bool{0: true}
	root := 0
	var ops []string
	remaining := n
	budget := 3*n + 4
	for remaining > 0 && budget > 0 {
		budget--
		if r.Chance(finNum, finDen) {
			// finalise
			var cands []int
			for i := 1; i <= n; i++ {
				if isImp[i] && i != root && sh.anc(root, i) {
					cands = append(cands, i)
				}
			}
			b := 1 + r.Intn(n)
			if len(cands) > 0 && !(noise && r.Chance(1, 10)) {
				b = cands[r.Intn(len(cands))]
				if r.Chance(1, 2) { // prefer a small step
					for _, c := range cands {
						if sh.num[c] < sh.num[b] {
							b = c
						}
					}
					// among the lowest candidates choose at random
					var low []int
					for _, c := range cands {
						if sh.num[c] == sh.num[b] {
							low = append(low, c)
						}
					}
					b = low[r.Intn(len(low))]
				}
			} else if len(cands) == 0 && !noise {
				continue
			}
			ops = append(ops, fmt.Sprintf("fin %d", b))
			if isImp[b] && sh.anc(root, b) {
				root = b
			}
			continue
		}
		var cands []int
		for i := 1; i <= n; i++ {
			if !isImp[i] && isImp[sh.parents[i-1]] {
				cands = append(cands, i)
			}
		}
		if len(cands) == 0 {
			break
		}
		b := cands[r.Intn(len(cands))]
		if noise && r.Chance(1, 10) {
			b = 1 + r.Intn(n) // re-import, orphan, ...
		}
		ops = append(ops, fmt.Sprintf("imp %d", b))
		if !isImp[b] && isImp[sh.parents[b-1]] {
			isImp[b] = true
			remaining--
		}
	}
	// a few trailing finalisations
	for k := r.Intn(3); k > 0; k-- {
		var cands []int
		for i := 1; i <= n; i++ {
			if isImp[i] && sh.anc(root, i) {
				cands = append(cands, i)
			}
		}
		if len(cands) == 0 {
			break
		}
		b := cands[r.Intn(len(cands))]
		ops = append(ops, fmt.Sprintf("fin %d", b))
		root = b
	}
	return ops
}

func c23Line(sh *c23Shape, anns, ops []string) string {
	ps := make([]string, len(sh.parents))
	for i, p := range sh.parents {
		ps[i] = strconv.Itoa(p)
	}
	a := "-"
	if len(anns) > 0 {
		a = strings.Join(anns, ",")
	}
	return fmt.Sprintf("t=%s a=%s|%s", strings.Join(ps, ","), a, strings.Join(ops, ";"))
}

func c23Gen(r *vhRng) string {
	switch k := r.Intn(24); {
	case k < 9:
		return c23GenMixed(r, false)
	case k < 11:
		return c23GenMixed(r, true)
	case k < 15:
		return c23GenScheduled(r)
	case k < 20:
		return c23GenForced(r)
	default:
		return c23GenTiny(r)
	}
}

// tiny: every shape of 2..4 blocks is equally likely, announcements are dense, delays reach past the tree:
// the small space is covered (nearly) exhaustively by the thorough tier
func c23GenTiny(r *vhRng) string {
	n := 2 + r.Intn(3)
	sh := &c23Shape{parents: make([]int, n), num: make([]int, n+1)}
	for i := 1; i <= n; i++ {
		p := r.Intn(i)
		sh.parents[i-1] = p
		sh.num[i] = sh.num[p] + 1
	}
	var anns []string
	for i := 1; i <= n; i++ {
		switch r.Intn(4) {
		case 0:
		case 1, 2:
			anns = append(anns, fmt.Sprintf("%ds%d.%d", i, r.Intn(3), i))
		default:
			anns = append(anns, fmt.Sprintf("%df%d.%d.%d", i, r.Intn(3), 10+i, r.Intn(sh.num[i]+1)))
		}
	}
	return c23Line(sh, anns, c23Ops(r, sh, 2, 5, false))
}

// mixed: scheduled and forced announcements anywhere
func c23GenMixed(r *vhRng, noise bool) string {
	n := 2 + r.Intn(7) // 2..8 blocks
	sh := c23Tree(r, n, 2, [2]int{1, 3})
	var anns []string
	tag := 0
	for i := 1; i <= n; i++ {
		if r.Chance(1, 2) {
			tag++
			anns = append(anns, fmt.Sprintf("%ds%d.%d", i, r.Intn(4), tag))
			if noise && r.Chance(1, 12) { // malformed: two scheduled changes in one header
				tag++
				anns = append(anns, fmt.Sprintf("%ds%d.%d", i, r.Intn(4), tag))
			}
		}
		if r.Chance(1, 5) {
			tag++
			anns = append(anns, fmt.Sprintf("%df%d.%d.%d", i, r.Intn(4), tag, r.Intn(sh.num[i]+1)))
			if noise && r.Chance(1, 12) {
				tag++
				anns = append(anns, fmt.Sprintf("%df%d.%d.%d", i, r.Intn(4), tag, r.Intn(sh.num[i]+1)))
			}
		}
	}
	return c23Line(sh, anns, c23Ops(r, sh, 1, 3, noise))
}

// scheduled changes only, many of them, deep chains with forks: nesting, unfinalised ancestors, pruning
func c23GenScheduled(r *vhRng) string {
	n := 3 + r.Intn(6)
	sh := c23Tree(r, n, 3, [2]int{1, 4})
	var anns []string
	for i := 1; i <= n; i++ {
		if r.Chance(2, 3) {
			anns = append(anns, fmt.Sprintf("%ds%d.%d", i, r.Pick(0, 0, 1, 1, 2, 3), i))
		}
	}
	return c23Line(sh, anns, c23Ops(r, sh, 2, 5, false))
}

// several forks that each announce a forced change (the ordered slice holds several entries), some scheduled
// changes below them (dependencies), few finalisations
func c23GenForced(r *vhRng) string {
	n := 4 + r.Intn(5)
	sh := c23Tree(r, n, 4, [2]int{1, 2})
	var anns []string
	for i := 1; i <= n; i++ {
		if r.Chance(1, 4) {
			anns = append(anns, fmt.Sprintf("%ds%d.%d", i, r.Pick(0, 0, 1, 2), i))
		}
		if r.Chance(1, 2) {
			best := r.Intn(sh.num[i] + 1)
			if r.Chance(1, 2) {
				best = 0
			}
			anns = append(anns, fmt.Sprintf("%df%d.%d.%d", i, r.Pick(0, 1, 1, 2, 2, 3), 10+i, best))
		}
	}
	return c23Line(sh, anns, c23Ops(r, sh, 1, 6, false))
}

func TestVerifC23(t *testing.T) { vhMain(t, c23Gen, c23Run) }
