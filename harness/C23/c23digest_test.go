//go:build verif

package digest

// Third run of property C23: the same case language, but finalisations go through the REAL finalisation
// handler of dot/digest (Handler.handleBlockFinalisation fed by the real BlockState notification channel).
// Consecutive `fin` ops form a burst: a fresh Handler is registered, every SetFinalisedHash of the burst is
// issued and its notification awaited in the channel (so that the queue order is the finalisation order), then
// the handler is started and the harness waits until it has handled every queued notification; the state is
// read after the burst.  `imp b` = BlockState.AddBlock, the real BlockImportHandler.HandleDigests,
// GrandpaState.ApplyForcedChanges (handleBlock's order; the real handleBlock is driven by the dot/core run).
// Lines carry `v=burst`.

import (
	"errors"
	"fmt"
	"strconv"
	"strings"
	"sync"
	"sync/atomic"
	"testing"
	"time"

	"github.com/ChainSafe/gossamer/dot/state"
	"github.com/ChainSafe/gossamer/dot/telemetry"
	"github.com/ChainSafe/gossamer/dot/types"
	"github.com/ChainSafe/gossamer/internal/database"
	"github.com/ChainSafe/gossamer/internal/log"
	"github.com/ChainSafe/gossamer/lib/blocktree"
	"github.com/ChainSafe/gossamer/lib/common"
	"github.com/ChainSafe/gossamer/lib/crypto/ed25519"
	"github.com/ChainSafe/gossamer/lib/keystore"
	"github.com/ChainSafe/gossamer/pkg/scale"
	"github.com/ChainSafe/gossamer/pkg/trie"
)

var (
	c23dOnce sync.Once
	c23dKey  [32]byte
)

func c23dInit() {
	c23dOnce.Do(func() {
		logger.Patch(log.SetLevel(log.Critical))
		kr, err := keystore.NewEd25519Keyring()
		if err != nil {
			panic(err)
		}
		c23dKey = [32]byte(kr.Alice().Public().(*ed25519.PublicKey).AsBytes())
	})
}

// the GRANDPA state handed to the finalisation handler: the real one, counting the finalisations handled
type c23dGrandpa struct {
	*state.GrandpaState
	finished atomic.Int64
}

func (g *c23dGrandpa) ApplyScheduledChanges(h *types.Header) error {
	err := g.GrandpaState.ApplyScheduledChanges(h)
	g.finished.Add(1)
	return err
}

// epoch state of the handler: nothing to finalise, counts the notifications taken up
type c23dEpoch struct{ started atomic.Int64 }

func (e *c23dEpoch) GetEpochForBlock(*types.Header) (uint64, error) { return 0, nil }
func (e *c23dEpoch) HandleBABEDigest(*types.Header, types.BabeConsensusDigest) error {
	return nil
}
func (e *c23dEpoch) FinalizeBABENextEpochData(*types.Header) error { e.started.Add(1); return nil }
func (e *c23dEpoch) FinalizeBABENextConfigData(*types.Header) error { return nil }

type c23dAnn struct {
	blk    int
	forced bool
	delay  int
	tag    int
	best   int
}

type c23dCase struct {
	parents []int
	anns    []c23dAnn
	ops     [][2]string
}

func c23dParse(line string) (*c23dCase, bool) {
	hd, opsS, ok := strings.Cut(line, "|")
	if !ok {
		return nil, false
	}
	c := &c23dCase{}
	for _, f := range strings.Fields(hd) {
		switch {
		case strings.HasPrefix(f, "t="):
			if f == "t=-" {
				continue
			}
			for i, s := range strings.Split(f[2:], ",") {
				p, err := strconv.Atoi(s)
				if err != nil || p < 0 || p > i {
					return nil, false
				}
				c.parents = append(c.parents, p)
			}
		case strings.HasPrefix(f, "a="):
			if f == "a=-" {
				continue
			}
			for _, s := range strings.Split(f[2:], ",") {
				var a c23dAnn
				k := strings.IndexAny(s, "sf")
				if k <= 0 {
					return nil, false
				}
				b, err := strconv.Atoi(s[:k])
				if err != nil {
					return nil, false
				}
				a.blk, a.forced = b, s[k] == 'f'
				parts := strings.Split(s[k+1:], ".")
				want := 2
				if a.forced {
					want = 3
				}
				if len(parts) != want {
					return nil, false
				}
				nums := make([]int, len(parts))
				for i, p := range parts {
					v, err := strconv.Atoi(p)
					if err != nil || v < 0 {
						return nil, false
					}
					nums[i] = v
				}
				a.delay, a.tag = nums[0], nums[1]
				if a.forced {
					a.best = nums[2]
				}
				if a.blk < 1 || a.blk > len(c.parents) {
					return nil, false
				}
				c.anns = append(c.anns, a)
			}
		case f == "v=pub" || f == "v=burst":
		default:
			return nil, false
		}
	}
	if strings.TrimSpace(opsS) != "" {
		for _, o := range strings.Split(opsS, ";") {
			w := strings.Fields(o)
			if len(w) != 2 {
				return nil, false
			}
			c.ops = append(c.ops, [2]string{w[0], w[1]})
		}
	}
	return c, true
}

func c23dAuth(tag int) []types.GrandpaAuthoritiesRaw {
	return []types.GrandpaAuthoritiesRaw{{Key: c23dKey, ID: uint64(tag)}}
}

type c23dNode struct {
	db      database.Database
	imp     *BlockImportHandler
	block   *state.BlockState
	grandpa *state.GrandpaState
	hdr     []*types.Header
	num     []int
	maxNum  int
}

func c23dNewNode(c *c23dCase) (*c23dNode, error) {
	c23dInit()
	db, err := database.NewPebble("verif-c23-digest", true)
	if err != nil {
		return nil, err
	}
	n := &c23dNode{db: db}
	gen := types.NewHeader(common.NewHash([]byte{0}), trie.EmptyHash, trie.EmptyHash, 0, types.NewDigest())
	tele := telemetry.NewNoopMailer()
	n.block, err = state.NewBlockStateFromGenesis(db, state.NewTries(), gen, tele)
	if err != nil {
		return nil, err
	}
	voters, err := types.NewGrandpaVotersFromAuthoritiesRaw(c23dAuth(0))
	if err != nil {
		return nil, err
	}
	n.grandpa, err = state.NewGrandpaStateFromGenesis(db, n.block, voters, tele)
	if err != nil {
		return nil, err
	}
	n.imp = NewBlockImportHandler(nil, n.grandpa)
	n.hdr = []*types.Header{gen}
	n.num = []int{0}
	for i, p := range c.parents {
		id := i + 1
		pre, err := types.NewBabePrimaryPreDigest(0, uint64(1000+id), [32]byte{}, [64]byte{}).ToPreRuntimeDigest()
		if err != nil {
			return nil, err
		}
		dg := types.NewDigest()
		if err := dg.Add(*pre); err != nil {
			return nil, err
		}
		for _, a := range c.anns {
			if a.blk != id {
				continue
			}
			d := types.NewGrandpaConsensusDigest()
			if a.forced {
				err = d.SetValue(types.GrandpaForcedChange{Auths: c23dAuth(a.tag), Delay: uint32(a.delay),
					BestFinalizedBlock: uint32(a.best)})
			} else {
				err = d.SetValue(types.GrandpaScheduledChange{Auths: c23dAuth(a.tag), Delay: uint32(a.delay)})
			}
			if err != nil {
				return nil, err
			}
			enc, err := scale.Marshal(d)
			if err != nil {
				return nil, err
			}
			if err := dg.Add(types.ConsensusDigest{ConsensusEngineID: types.GrandpaEngineID, Data: enc}); err != nil {
				return nil, err
			}
		}
		h := types.NewHeader(n.hdr[p].Hash(), trie.EmptyHash, trie.EmptyHash, uint(n.num[p]+1), dg)
		n.hdr = append(n.hdr, h)
		n.num = append(n.num, n.num[p]+1)
		if n.num[id] > n.maxNum {
			n.maxNum = n.num[id]
		}
	}
	return n, nil
}

// the error classes of the dot/state run, recovered from the wrapped messages (the sentinel errors of
// dot/state are unexported)
func c23dErrClass(err error) string {
	msg := err.Error()
	switch {
	case strings.Contains(msg, "duplicated hashes"):
		return "dup"
	case strings.Contains(msg, "already has a forced change"):
		return "already"
	case strings.Contains(msg, "pending scheduled changes needs to be applied"):
		return "pending"
	case strings.Contains(msg, "unfinalized ancestor"):
		return "unfin"
	default:
		return "anc"
	}
}

func (n *c23dNode) importBlock(id int) string {
	h := n.hdr[id]
	blk := &types.Block{Header: *h, Body: *types.NewBody([]types.Extrinsic{{byte(id)}})}
	if err := n.block.AddBlock(blk); err != nil {
		if errors.Is(err, blocktree.ErrParentNotFound) {
			return "e-parent"
		} else if !errors.Is(err, blocktree.ErrBlockExists) {
			return "e-add"
		}
	}
	if err := n.imp.HandleDigests(h); err != nil {
		return "e-digest:" + c23dErrClass(err)
	}
	if err := n.grandpa.ApplyForcedChanges(h); err != nil {
		return "e-forced:" + c23dErrClass(err)
	}
	return "ok"
}

func c23dWait(ms int, cond func() bool) bool {
	deadline := time.Now().Add(time.Duration(ms) * time.Millisecond)
	for !cond() {
		if time.Now().After(deadline) {
			return false
		}
		time.Sleep(200 * time.Microsecond)
	}
	return true
}

// burst finalises the blocks back to back while no handler is running, then lets a fresh handler work the
// queue off; returns the class of every SetFinalisedHash
func (n *c23dNode) burst(ids []int) []string {
	g := &c23dGrandpa{GrandpaState: n.grandpa}
	e := &c23dEpoch{}
	h, err := NewHandler(n.block, e, g)
	if err != nil {
		panic(err)
	}
	defer h.Stop() //nolint:errcheck
	res := make([]string, len(ids))
	queued := 0
	for i, id := range ids {
		if err := n.block.SetFinalisedHash(n.hdr[id].Hash(), 1, 0); err != nil {
			res[i] = "e-fin"
			continue
		}
		res[i] = "fin"
		queued++
		want := queued
		if !c23dWait(5000, func() bool { return len(h.finalised) == want }) {
			res[i] = "fin-not-notified"
		}
	}
	if err := h.Start(); err != nil {
		panic(err)
	}
	// every queued notification handled; on a handler that loses notifications: the queue is empty and
	// nothing is in progress for a while
	idleSince := time.Time{}
	c23dWait(5000, func() bool {
		if g.finished.Load() == int64(queued) {
			return true
		}
		if len(h.finalised) == 0 && e.started.Load() == g.finished.Load() {
			if idleSince.IsZero() {
				idleSince = time.Now()
			}
			return time.Since(idleSince) > 300*time.Millisecond
		}
		idleSince = time.Time{}
		return false
	})
	return res
}

func (n *c23dNode) observe() string {
	var sb strings.Builder
	cur, err := n.grandpa.GetCurrentSetID()
	if err != nil {
		return "id=err"
	}
	fmt.Fprintf(&sb, "id=%d au=", cur)
	for s := uint64(0); s <= cur; s++ {
		if s > 0 {
			sb.WriteString(",")
		}
		v, err := n.grandpa.GetAuthorities(s)
		switch {
		case err != nil:
			sb.WriteString("err")
		case len(v) != 1:
			sb.WriteString("?")
		default:
			sb.WriteString(strconv.FormatUint(v[0].ID, 10))
		}
	}
	sb.WriteString(" ch=")
	for s := uint64(0); s <= cur+1; s++ {
		if s > 0 {
			sb.WriteString(",")
		}
		v, err := n.grandpa.GetSetIDChange(s)
		switch {
		case errors.Is(err, database.ErrNotFound):
			sb.WriteString("-")
		case err != nil:
			sb.WriteString("err")
		default:
			sb.WriteString(strconv.Itoa(int(v)))
		}
	}
	sb.WriteString(" ids=")
	for k := 0; k <= n.maxNum+4; k++ {
		if k > 0 {
			sb.WriteString(",")
		}
		v, err := n.grandpa.GetSetIDByBlockNumber(uint(k))
		if err != nil {
			sb.WriteString("err")
		} else {
			sb.WriteString(strconv.FormatUint(v, 10))
		}
	}
	sb.WriteString(" nx=")
	// the nodes of the block tree: the finalised block and the known blocks that descend from it
	fin, err := n.block.GetHighestFinalisedHash()
	if err != nil {
		return sb.String() + "err"
	}
	first := true
	for id, h := range n.hdr {
		if is, err := n.block.IsDescendantOf(fin, h.Hash()); err != nil || !is {
			continue
		}
		if !first {
			sb.WriteString(",")
		}
		first = false
		v, err := n.grandpa.NextGrandpaAuthorityChange(h.Hash(), uint(n.num[id]))
		switch {
		case errors.Is(err, state.ErrNoNextAuthorityChange):
			fmt.Fprintf(&sb, "%d:-", id)
		case err != nil:
			fmt.Fprintf(&sb, "%d:err", id)
		default:
			fmt.Fprintf(&sb, "%d:%d", id, v)
		}
	}
	return sb.String()
}

func c23dRun(line string) string {
	c, ok := c23dParse(line)
	if !ok {
		return "bad-op"
	}
	n, err := c23dNewNode(c)
	if err != nil {
		return "setup-failed"
	}
	defer n.db.Close()
	outs := make([]string, 0, len(c.ops))
	for k := 0; k < len(c.ops); k++ {
		op := c.ops[k]
		id, err := strconv.Atoi(op[1])
		if err != nil || id < 1 || id > len(c.parents) || (op[0] != "imp" && op[0] != "fin") {
			outs = append(outs, "bad-op")
			continue
		}
		if op[0] == "imp" {
			outs = append(outs, n.importBlock(id)+" "+n.observe())
			continue
		}
		// the maximal run of well-formed `fin` ops starting here
		ids := []int{id}
		for k+1 < len(c.ops) && c.ops[k+1][0] == "fin" {
			id2, err := strconv.Atoi(c.ops[k+1][1])
			if err != nil || id2 < 1 || id2 > len(c.parents) {
				break
			}
			ids = append(ids, id2)
			k++
		}
		res := n.burst(ids)
		for i, r := range res {
			if i+1 < len(res) {
				outs = append(outs, r)
			} else {
				outs = append(outs, r+" "+n.observe())
			}
		}
	}
	if len(outs) == 0 {
		return "-"
	}
	return strings.Join(outs, ";")
}

// ---------------------------------------------------------------------------------------------
// generator: forced changes everywhere (delays 0..2, so that many are effective at their own block or at a
// block that carries an announcement itself), scheduled changes on most blocks, mostly chains

func c23dGen(r *vhRng) string {
	n := 3 + r.Intn(6)
	parents := make([]int, n)
	num := make([]int, n+1)
	forks := 0
	for i := 1; i <= n; i++ {
		p := i - 1
		if i > 1 && forks < 2 && r.Chance(1, 4) {
			p = r.Intn(i)
			if p != i-1 {
				forks++
			}
		}
		parents[i-1] = p
		num[i] = num[p] + 1
	}
	anc := func(a, d int) bool {
		for d != a && d != 0 {
			d = parents[d-1]
		}
		return d == a
	}
	var anns []string
	for i := 1; i <= n; i++ {
		if r.Chance(3, 5) {
			anns = append(anns, fmt.Sprintf("%ds%d.%d", i, r.Pick(0, 0, 1, 2), i))
		}
		if r.Chance(1, 6) {
			best := 0
			if r.Chance(1, 2) {
				best = r.Intn(num[i] + 1)
			}
			anns = append(anns, fmt.Sprintf("%df%d.%d.%d", i, r.Pick(0, 0, 1, 1, 2), 10+i, best))
		}
	}
	isImp := map[int]bool{0: true}
	root := 0
	var ops []string
	remaining := n
	for budget := 3*n + 4; remaining > 0 && budget > 0; budget-- {
		if remaining < n-1 && r.Chance(1, 4) {
			var cands []int
			for i := 1; i <= n; i++ {
				if isImp[i] && i != root && anc(root, i) {
					cands = append(cands, i)
				}
			}
			if len(cands) == 0 {
				continue
			}
			// a burst of 1..3 finalisations, each at or below the previous one's descendants, small steps first
			for k := 1 + r.Intn(3); k > 0 && len(cands) > 0; k-- {
				b := cands[r.Intn(len(cands))]
				if r.Chance(2, 3) {
					for _, c := range cands {
						if num[c] < num[b] {
							b = c
						}
					}
				}
				ops = append(ops, fmt.Sprintf("fin %d", b))
				root = b
				cands = cands[:0]
				for i := 1; i <= n; i++ {
					if isImp[i] && i != root && anc(root, i) {
						cands = append(cands, i)
					}
				}
			}
			continue
		}
		var cands []int
		for i := 1; i <= n; i++ {
			if !isImp[i] && isImp[parents[i-1]] {
				cands = append(cands, i)
			}
		}
		if len(cands) == 0 {
			break
		}
		b := cands[r.Intn(len(cands))]
		ops = append(ops, fmt.Sprintf("imp %d", b))
		isImp[b] = true
		remaining--
	}
	if r.Chance(1, 2) {
		var cands []int
		for i := 1; i <= n; i++ {
			if isImp[i] && anc(root, i) {
				cands = append(cands, i)
			}
		}
		if len(cands) > 0 {
			ops = append(ops, fmt.Sprintf("fin %d", cands[r.Intn(len(cands))]))
		}
	}
	ps := make([]string, n)
	for i, p := range parents {
		ps[i] = strconv.Itoa(p)
	}
	a := "-"
	if len(anns) > 0 {
		a = strings.Join(anns, ",")
	}
	return fmt.Sprintf("t=%s a=%s v=burst|%s", strings.Join(ps, ","), a, strings.Join(ops, ";"))
}

func TestVerifC23Digest(t *testing.T) { vhMain(t, c23dGen, c23dRun) }
