//go:build verif

package core

// Second run of property C23: the same case language as harness/C23/c23_test.go (package dot/state), but every
// `imp b` goes through the REAL dot/core Service.handleBlock (StoreTrie, BlockState.AddBlock, the real
// digest.BlockImportHandler.HandleDigests, GrandpaState.ApplyForcedChanges — in the order handleBlock has them),
// wired to the real state.BlockState / state.GrandpaState over a fresh in-memory Pebble database.
// `fin b` = BlockState.SetFinalisedHash then GrandpaState.ApplyScheduledChanges (what the finalisation handler of
// dot/digest does on the notification).  Lines carry `v=pub`: only the public observables are printed
// (the pending structures are unexported fields of state.GrandpaState).

import (
	"context"
	"errors"
	"fmt"
	"strconv"
	"strings"
	"sync"
	"testing"

	"github.com/ChainSafe/gossamer/dot/digest"
	"github.com/ChainSafe/gossamer/dot/state"
	"github.com/ChainSafe/gossamer/dot/telemetry"
	"github.com/ChainSafe/gossamer/dot/types"
	"github.com/ChainSafe/gossamer/internal/database"
	"github.com/ChainSafe/gossamer/internal/log"
	"github.com/ChainSafe/gossamer/lib/blocktree"
	"github.com/ChainSafe/gossamer/lib/common"
	"github.com/ChainSafe/gossamer/lib/crypto/ed25519"
	"github.com/ChainSafe/gossamer/lib/keystore"
	"github.com/ChainSafe/gossamer/lib/runtime"
	rtstorage "github.com/ChainSafe/gossamer/lib/runtime/storage"
	"github.com/ChainSafe/gossamer/pkg/scale"
	"github.com/ChainSafe/gossamer/pkg/trie"
	inmemory_trie "github.com/ChainSafe/gossamer/pkg/trie/inmemory"
)

var (
	c23cOnce sync.Once
	c23cKey  [32]byte
)

func c23cInit() {
	c23cOnce.Do(func() {
		logger.Patch(log.SetLevel(log.Critical))
		kr, err := keystore.NewEd25519Keyring()
		if err != nil {
			panic(err)
		}
		c23cKey = [32]byte(kr.Alice().Public().(*ed25519.PublicKey).AsBytes())
	})
}

// the real block state, except for the runtime related calls of handleBlock
type c23cBlockState struct {
	*state.BlockState
}

func (b *c23cBlockState) GetRuntime(common.Hash) (runtime.Instance, error) { return nil, nil }
func (b *c23cBlockState) HandleRuntimeChanges(*rtstorage.TrieState, runtime.Instance, common.Hash) error {
	return nil
}

// storage state: handleBlock only stores the trie
type c23cStorage struct{ sync.Mutex }

func (*c23cStorage) TrieState(*common.Hash) (*rtstorage.TrieState, error)        { return nil, errors.New("unused") }
func (*c23cStorage) StoreTrie(*rtstorage.TrieState, *types.Header) error         { return nil }
func (*c23cStorage) GetStateRootFromBlock(*common.Hash) (*common.Hash, error)    { return nil, errors.New("unused") }
func (*c23cStorage) GenerateTrieProof(common.Hash, [][]byte) ([][]byte, error)   { return nil, errors.New("unused") }

type c23cAnn struct {
	blk    int
	forced bool
	delay  int
	tag    int
	best   int
}

type c23cCase struct {
	parents []int
	anns    []c23cAnn
	ops     [][2]string
}

func c23cParse(line string) (*c23cCase, bool) {
	hd, opsS, ok := strings.Cut(line, "|")
	if !ok {
		return nil, false
	}
	c := &c23cCase{}
	for _, f := range strings.Fields(hd) {
		switch {
		case strings.HasPrefix(f, "t="):
			if f == "t=-" {
				continue
			}
			for i, s := range strings.Split(f[2:], ",") {
				p, err := strconv.Atoi(s)
				if err != nil || p < 0 || p > i {
					return nil, false
				}
				c.parents = append(c.parents, p)
			}
		case strings.HasPrefix(f, "a="):
			if f == "a=-" {
				continue
			}
			for _, s := range strings.Split(f[2:], ",") {
				var a c23cAnn
				k := strings.IndexAny(s, "sf")
				if k <= 0 {
					return nil, false
				}
				b, err := strconv.Atoi(s[:k])
				if err != nil {
					return nil, false
				}
				a.blk, a.forced = b, s[k] == 'f'
				parts := strings.Split(s[k+1:], ".")
				want := 2
				if a.forced {
					want = 3
				}
				if len(parts) != want {
					return nil, false
				}
				nums := make([]int, len(parts))
				for i, p := range parts {
					v, err := strconv.Atoi(p)
					if err != nil || v < 0 {
						return nil, false
					}
					nums[i] = v
				}
				a.delay, a.tag = nums[0], nums[1]
				if a.forced {
					a.best = nums[2]
				}
				if a.blk < 1 || a.blk > len(c.parents) {
					return nil, false
				}
				c.anns = append(c.anns, a)
			}
		case f == "v=pub":
		default:
			return nil, false
		}
	}
	if strings.TrimSpace(opsS) != "" {
		for _, o := range strings.Split(opsS, ";") {
			w := strings.Fields(o)
			if len(w) != 2 {
				return nil, false
			}
			c.ops = append(c.ops, [2]string{w[0], w[1]})
		}
	}
	return c, true
}

func c23cAuth(tag int) []types.GrandpaAuthoritiesRaw {
	return []types.GrandpaAuthoritiesRaw{{Key: c23cKey, ID: uint64(tag)}}
}

type c23cNode struct {
	db      database.Database
	service *Service
	block   *state.BlockState
	grandpa *state.GrandpaState
	hdr     []*types.Header
	num     []int
	maxNum  int
}

func c23cNewNode(c *c23cCase) (*c23cNode, error) {
	c23cInit()
	db, err := database.NewPebble("verif-c23-core", true)
	if err != nil {
		return nil, err
	}
	n := &c23cNode{db: db}
	gen := types.NewHeader(common.NewHash([]byte{0}), trie.EmptyHash, trie.EmptyHash, 0, types.NewDigest())
	tele := telemetry.NewNoopMailer()
	n.block, err = state.NewBlockStateFromGenesis(db, state.NewTries(), gen, tele)
	if err != nil {
		return nil, err
	}
	voters, err := types.NewGrandpaVotersFromAuthoritiesRaw(c23cAuth(0))
	if err != nil {
		return nil, err
	}
	n.grandpa, err = state.NewGrandpaStateFromGenesis(db, n.block, voters, tele)
	if err != nil {
		return nil, err
	}
	// a cancelled context: handleBlock does not hand the block to the (not started) service loop
	ctx, cancel := context.WithCancel(context.Background())
	cancel()
	n.service = &Service{
		ctx:           ctx,
		blockState:    &c23cBlockState{BlockState: n.block},
		storageState:  &c23cStorage{},
		grandpaState:  n.grandpa,
		onBlockImport: digest.NewBlockImportHandler(nil, n.grandpa),
	}
	n.hdr = []*types.Header{gen}
	n.num = []int{0}
	for i, p := range c.parents {
		id := i + 1
		pre, err := types.NewBabePrimaryPreDigest(0, uint64(1000+id), [32]byte{}, [64]byte{}).ToPreRuntimeDigest()
		if err != nil {
			return nil, err
		}
		dg := types.NewDigest()
		if err := dg.Add(*pre); err != nil {
			return nil, err
		}
		for _, a := range c.anns {
			if a.blk != id {
				continue
			}
			d := types.NewGrandpaConsensusDigest()
			if a.forced {
				err = d.SetValue(types.GrandpaForcedChange{Auths: c23cAuth(a.tag), Delay: uint32(a.delay),
					BestFinalizedBlock: uint32(a.best)})
			} else {
				err = d.SetValue(types.GrandpaScheduledChange{Auths: c23cAuth(a.tag), Delay: uint32(a.delay)})
			}
			if err != nil {
				return nil, err
			}
			enc, err := scale.Marshal(d)
			if err != nil {
				return nil, err
			}
			if err := dg.Add(types.ConsensusDigest{ConsensusEngineID: types.GrandpaEngineID, Data: enc}); err != nil {
				return nil, err
			}
		}
		h := types.NewHeader(n.hdr[p].Hash(), trie.EmptyHash, trie.EmptyHash, uint(n.num[p]+1), dg)
		n.hdr = append(n.hdr, h)
		n.num = append(n.num, n.num[p]+1)
		if n.num[id] > n.maxNum {
			n.maxNum = n.num[id]
		}
	}
	return n, nil
}

// the error classes of the dot/state run, recovered from the wrapped messages (the sentinel errors of
// dot/state are unexported)
func c23cErrClass(err error) string {
	msg := err.Error()
	switch {
	case strings.Contains(msg, "duplicated hashes"):
		return "dup"
	case strings.Contains(msg, "already has a forced change"):
		return "already"
	case strings.Contains(msg, "pending scheduled changes needs to be applied"):
		return "pending"
	case strings.Contains(msg, "unfinalized ancestor"):
		return "unfin"
	default:
		return "anc"
	}
}

func (n *c23cNode) importBlock(id int) string {
	h := n.hdr[id]
	blk := &types.Block{Header: *h, Body: *types.NewBody([]types.Extrinsic{{byte(id)}})}
	err := n.service.handleBlock(blk, rtstorage.NewTrieState(inmemory_trie.NewEmptyTrie()))
	switch {
	case err == nil:
		return "ok"
	case errors.Is(err, blocktree.ErrParentNotFound):
		return "e-parent"
	case strings.HasPrefix(err.Error(), "on block import handle:"):
		return "e-digest:" + c23cErrClass(err)
	case strings.HasPrefix(err.Error(), "applying forced changes:"):
		return "e-forced:" + c23cErrClass(err)
	default:
		return "e-add"
	}
}

func (n *c23cNode) finalise(id int) string {
	h := n.hdr[id]
	if err := n.block.SetFinalisedHash(h.Hash(), 1, 0); err != nil {
		return "e-fin"
	}
	if err := n.grandpa.ApplyScheduledChanges(h); err != nil {
		return "ok+e-sched:" + c23cErrClass(err)
	}
	return "ok"
}

func (n *c23cNode) observe() string {
	var sb strings.Builder
	cur, err := n.grandpa.GetCurrentSetID()
	if err != nil {
		return "id=err"
	}
	fmt.Fprintf(&sb, "id=%d au=", cur)
	for s := uint64(0); s <= cur; s++ {
		if s > 0 {
			sb.WriteString(",")
		}
		v, err := n.grandpa.GetAuthorities(s)
		switch {
		case err != nil:
			sb.WriteString("err")
		case len(v) != 1:
			sb.WriteString("?")
		default:
			sb.WriteString(strconv.FormatUint(v[0].ID, 10))
		}
	}
	sb.WriteString(" ch=")
	for s := uint64(0); s <= cur+1; s++ {
		if s > 0 {
			sb.WriteString(",")
		}
		v, err := n.grandpa.GetSetIDChange(s)
		switch {
		case errors.Is(err, database.ErrNotFound):
			sb.WriteString("-")
		case err != nil:
			sb.WriteString("err")
		default:
			sb.WriteString(strconv.Itoa(int(v)))
		}
	}
	sb.WriteString(" ids=")
	for k := 0; k <= n.maxNum+4; k++ {
		if k > 0 {
			sb.WriteString(",")
		}
		v, err := n.grandpa.GetSetIDByBlockNumber(uint(k))
		if err != nil {
			sb.WriteString("err")
		} else {
			sb.WriteString(strconv.FormatUint(v, 10))
		}
	}
	sb.WriteString(" nx=")
	// the nodes of the block tree: the finalised block and the known blocks that descend from it
	fin, err := n.block.GetHighestFinalisedHash()
	if err != nil {
		return sb.String() + "err"
	}
	first := true
	for id, h := range n.hdr {
		if is, err := n.block.IsDescendantOf(fin, h.Hash()); err != nil || !is {
			continue
		}
		if !first {
			sb.WriteString(",")
		}
		first = false
		v, err := n.grandpa.NextGrandpaAuthorityChange(h.Hash(), uint(n.num[id]))
		switch {
		case errors.Is(err, state.ErrNoNextAuthorityChange):
			fmt.Fprintf(&sb, "%d:-", id)
		case err != nil:
			fmt.Fprintf(&sb, "%d:err", id)
		default:
			fmt.Fprintf(&sb, "%d:%d", id, v)
		}
	}
	return sb.String()
}

func c23cRun(line string) string {
	c, ok := c23cParse(line)
	if !ok {
		return "bad-op"
	}
	n, err := c23cNewNode(c)
	if err != nil {
		return "setup-failed"
	}
	defer n.db.Close()
	outs := make([]string, 0, len(c.ops))
	for _, op := range c.ops {
		id, err := strconv.Atoi(op[1])
		if err != nil || id < 1 || id > len(c.parents) {
			outs = append(outs, "bad-op")
			continue
		}
		var res string
		switch op[0] {
		case "imp":
			res = n.importBlock(id)
		case "fin":
			res = n.finalise(id)
		default:
			outs = append(outs, "bad-op")
			continue
		}
		outs = append(outs, res+" "+n.observe())
	}
	if len(outs) == 0 {
		return "-"
	}
	return strings.Join(outs, ";")
}

// ---------------------------------------------------------------------------------------------
// generator: forced changes everywhere (delays 0..2, so that many are effective at their own block or at a
// block that carries an announcement itself), scheduled changes on most blocks, mostly chains

func c23cGen(r *vhRng) string {
	n := 2 + r.Intn(6)
	parents := make([]int, n)
	num := make([]int, n+1)
	forks := 0
	for i := 1; i <= n; i++ {
		p := i - 1
		if i > 1 && forks < 2 && r.Chance(1, 4) {
			p = r.Intn(i)
			if p != i-1 {
				forks++
			}
		}
		parents[i-1] = p
		num[i] = num[p] + 1
	}
	anc := func(a, d int) bool {
		for d != a && d != 0 {
			d = parents[d-1]
		}
		return d == a
	}
	var anns []string
	for i := 1; i <= n; i++ {
		if r.Chance(3, 5) {
			anns = append(anns, fmt.Sprintf("%ds%d.%d", i, r.Pick(0, 0, 1, 2), i))
		}
		if r.Chance(2, 5) {
			best := 0
			if r.Chance(1, 2) {
				best = r.Intn(num[i] + 1)
			}
			anns = append(anns, fmt.Sprintf("%df%d.%d.%d", i, r.Pick(0, 0, 1, 1, 2), 10+i, best))
		}
	}
	isImp := map[int]bool{0: true}
	root := 0
	var ops []string
	remaining := n
	for budget := 3*n + 4; remaining > 0 && budget > 0; budget-- {
		if r.Chance(1, 4) {
			var cands []int
			for i := 1; i <= n; i++ {
				if isImp[i] && i != root && anc(root, i) {
					cands = append(cands, i)
				}
			}
			if len(cands) == 0 {
				continue
			}
			b := cands[r.Intn(len(cands))]
			ops = append(ops, fmt.Sprintf("fin %d", b))
			root = b
			continue
		}
		var cands []int
		for i := 1; i <= n; i++ {
			if !isImp[i] && isImp[parents[i-1]] {
				cands = append(cands, i)
			}
		}
		if len(cands) == 0 {
			break
		}
		b := cands[r.Intn(len(cands))]
		ops = append(ops, fmt.Sprintf("imp %d", b))
		isImp[b] = true
		remaining--
	}
	if r.Chance(1, 2) {
		var cands []int
		for i := 1; i <= n; i++ {
			if isImp[i] && anc(root, i) {
				cands = append(cands, i)
			}
		}
		if len(cands) > 0 {
			ops = append(ops, fmt.Sprintf("fin %d", cands[r.Intn(len(cands))]))
		}
	}
	ps := make([]string, n)
	for i, p := range parents {
		ps[i] = strconv.Itoa(p)
	}
	a := "-"
	if len(anns) > 0 {
		a = strings.Join(anns, ",")
	}
	return fmt.Sprintf("t=%s a=%s v=pub|%s", strings.Join(ps, ","), a, strings.Join(ops, ";"))
}

func TestVerifC23Core(t *testing.T) { vhMain(t, c23cGen, c23cRun) }
