//go:build verif

package wazero_runtime

import (
	"context"
	stded "crypto/ed25519"
	"fmt"
	"math/big"
	"strings"
	"sync"
	"testing"
	"time"

	schnorrkel "github.com/ChainSafe/go-schnorrkel"
	"github.com/ChainSafe/gossamer/internal/log"
	"github.com/ChainSafe/gossamer/lib/common"
	"github.com/ChainSafe/gossamer/lib/crypto"
	"github.com/ChainSafe/gossamer/lib/crypto/secp256k1"
	"github.com/ChainSafe/gossamer/lib/runtime"
	"github.com/ChainSafe/gossamer/lib/runtime/allocator"
	"github.com/gtank/merlin"
	"github.com/tetratelabs/wazero"
	"github.com/tetratelabs/wazero/api"
)

// The hashing and crypto host functions of lib/runtime/wazero/imports.go, called directly on a real wazero
// module (25-byte hand-assembled module exporting one memory, recipe of harness/C10) with the real allocator.
//
//   hh <msg>                       → blake2_128 blake2_256 keccak_256 sha2_256 twox_64 twox_128 twox_256
//                                    (ext_hashing_*_version_1; the digests read back from guest memory)
//   hed <pk32> <msg> <sig64>       → 0|1             ext_crypto_ed25519_verify_version_1
//   hsr1|hsr2 <pk32> <msg> <sig64> → 0|1             ext_crypto_sr25519_verify_version_1 / _2
//   hecv <pub33> <msg> <sig65>     → 0|1             ext_crypto_ecdsa_verify_version_2 (reads 64 bytes of sig)
//   hecr1|hecr2 <msg32> <sig65>    → SCALE Result bytes at the returned span   ext_crypto_secp256k1_ecdsa_recover_version_1/2
//   hecc1|hecc2 <msg32> <sig65>    → the same for ext_crypto_secp256k1_ecdsa_recover_compressed_version_1/2
//   a leading `b` (bhed, bhsr1, bhsr2, bhecv): same call between ext_crypto_start_batch_verify_version_1 and
//                                    ext_crypto_finish_batch_verify_version_1  → `<ret> finish=<ret of finish>`
//   a leading `q` (qhed, …): the runtime context's SignatureVerifier is Start()ed by hand (the queueing branch of
//                                    the host functions)  → `<ret> batch=<Finish()>`
// Every output ends in ` mem=clobbered` when the guest's input bytes were modified by the call.

func c29Wasm() []byte {
	return []byte{
		0x00, 0x61, 0x73, 0x6d, 0x01, 0x00, 0x00, 0x00,
		0x05, 0x03, 0x01, 0x00, 0x02,
		0x07, 0x0a, 0x01, 0x06, 'm', 'e', 'm', 'o', 'r', 'y', 0x02, 0x00,
	}
}

var (
	c29Once     sync.Once
	c29Rt       wazero.Runtime
	c29Compiled wazero.CompiledModule
	c29Err      error
	c29Seq      int
)

func c29Setup() {
	logger.Patch(log.SetLevel(log.Critical))
	ctx := context.Background()
	c29Rt = wazero.NewRuntimeWithConfig(ctx, wazero.NewRuntimeConfigInterpreter())
	c29Compiled, c29Err = c29Rt.CompileModule(ctx, c29Wasm())
}

type c29Quiet struct{}

func (c29Quiet) Errorf(string, ...interface{}) {}

const c29Base = 64

func c29HostRun(line string) string {
	f := strings.Fields(line)
	if len(f) < 2 {
		return "bad-op"
	}
	op := f[0]
	mode := byte(0)
	if op[0] == 'b' || op[0] == 'q' {
		mode, op = op[0], op[1:]
	}
	args := make([][]byte, 0, 3)
	for _, x := range f[1:] {
		args = append(args, vhUnhex(x))
	}
	want := map[string][]int{"hh": {-1}, "hed": {32, -1, 64}, "hsr1": {32, -1, 64}, "hsr2": {32, -1, 64},
		"hecv": {33, -1, 65}, "hecr1": {32, 65}, "hecr2": {32, 65}, "hecc1": {32, 65}, "hecc2": {32, 65}}[op]
	if want == nil || len(want) != len(args) {
		return "bad-op"
	}
	for i, n := range want {
		if n >= 0 && len(args[i]) != n {
			return "bad-op"
		}
	}
	if mode != 0 && (op == "hh" || strings.HasPrefix(op, "hecr") || strings.HasPrefix(op, "hecc")) {
		return "bad-op"
	}
	c29Once.Do(c29Setup)
	if c29Err != nil {
		return "err-wasm " + c29Err.Error()
	}
	bg := context.Background()
	c29Seq++
	mod, err := c29Rt.InstantiateModule(bg, c29Compiled, wazero.NewModuleConfig().WithName(fmt.Sprintf("c29-%d", c29Seq)))
	if err != nil {
		return "err-wasm " + err.Error()
	}
	defer mod.Close(bg)
	// the arguments one after the other from c29Base, the heap behind them
	ptrs := make([]uint32, len(args))
	at := uint32(c29Base)
	for i, a := range args {
		ptrs[i] = at
		if !mod.Memory().Write(at, a) {
			return "err-mem"
		}
		at += uint32(len(a)) + 3
	}
	rtCtx := &runtime.Context{
		Allocator:   allocator.NewFreeingBumpHeapAllocator((at + 15) &^ 7),
		SigVerifier: crypto.NewSignatureVerifier(c29Quiet{}),
	}
	ctx := context.WithValue(bg, runtimeContextKey, rtCtx)
	var m api.Module = mod
	span := func(i int) uint64 { return newPointerSize(ptrs[i], uint32(len(args[i]))) }
	intact := func() string {
		for i, a := range args {
			back, ok := mod.Memory().Read(ptrs[i], uint64(len(a)))
			if !ok || string(back) != string(a) {
				return " mem=clobbered"
			}
		}
		return ""
	}
	readOut := func(ptr uint32, n int) string {
		if ptr == 0 {
			return "null"
		}
		if ptr < at {
			return "overlap"
		}
		out, ok := mod.Memory().Read(ptr, uint64(n))
		if !ok {
			return "err-read"
		}
		return vhHex(out)
	}
	switch mode {
	case 'b':
		ext_crypto_start_batch_verify_version_1(ctx, m)
	case 'q':
		rtCtx.SigVerifier.Start()
	}
	var out string
	switch op {
	case "hh":
		sp := span(0)
		out = strings.Join([]string{
			readOut(ext_hashing_blake2_128_version_1(ctx, m, sp), 16),
			readOut(ext_hashing_blake2_256_version_1(ctx, m, sp), 32),
			readOut(ext_hashing_keccak_256_version_1(ctx, m, sp), 32),
			readOut(ext_hashing_sha2_256_version_1(ctx, m, sp), 32),
			readOut(ext_hashing_twox_64_version_1(ctx, m, sp), 8),
			readOut(ext_hashing_twox_128_version_1(ctx, m, sp), 16),
			readOut(ext_hashing_twox_256_version_1(ctx, m, sp), 32)}, " ")
	case "hed":
		out = fmt.Sprint(ext_crypto_ed25519_verify_version_1(ctx, m, ptrs[2], span(1), ptrs[0]))
	case "hsr1":
		out = fmt.Sprint(ext_crypto_sr25519_verify_version_1(ctx, m, ptrs[2], span(1), ptrs[0]))
	case "hsr2":
		out = fmt.Sprint(ext_crypto_sr25519_verify_version_2(ctx, m, ptrs[2], span(1), ptrs[0]))
	case "hecv":
		out = fmt.Sprint(ext_crypto_ecdsa_verify_version_2(ctx, m, ptrs[2], span(1), ptrs[0]))
	case "hecr1", "hecr2", "hecc1", "hecc2":
		var ret uint64
		switch op {
		case "hecr1":
			ret = ext_crypto_secp256k1_ecdsa_recover_version_1(ctx, m, ptrs[1], ptrs[0])
		case "hecr2":
			ret = ext_crypto_secp256k1_ecdsa_recover_version_2(ctx, m, ptrs[1], ptrs[0])
		case "hecc1":
			ret = ext_crypto_secp256k1_ecdsa_recover_compressed_version_1(ctx, m, ptrs[1], ptrs[0])
		default:
			ret = ext_crypto_secp256k1_ecdsa_recover_compressed_version_2(ctx, m, ptrs[1], ptrs[0])
		}
		p, n := splitPointerSize(ret)
		if n > 100 {
			return "err-size"
		}
		out = readOut(p, int(n))
	}
	switch mode {
	case 'b':
		out += fmt.Sprintf(" finish=%d", ext_crypto_finish_batch_verify_version_1(ctx, m))
	case 'q':
		// SignatureVerifier.Finish polls every 100 ms; give the worker time to drain the single queued item
		time.Sleep(2 * time.Millisecond)
		out += fmt.Sprintf(" batch=%v", rtCtx.SigVerifier.Finish())
	}
	return out + intact()
}

// ---------------------------------------------------------------------------------------- generators

var (
	c29HN, _ = new(big.Int).SetString("FFFFFFFFFFFFFFFFFFFFFFFFFFFFFFFEBAAEDCE6AF48A03BBFD25E8CD0364141", 16)
	c29HL, _ = new(big.Int).SetString("7237005577332262213973186563042994240857116359379907606001950938285454250989", 10)
)

func c29HPadBE(n *big.Int) []byte {
	b := n.Bytes()
	out := make([]byte, 32)
	copy(out[32-len(b):], b)
	return out
}

func c29HRev(b []byte) []byte {
	o := make([]byte, len(b))
	for i := range b {
		o[len(b)-1-i] = b[i]
	}
	return o
}

func c29HLE32(n *big.Int) []byte { return c29HRev(c29HPadBE(n)) }

func c29HMsg(r *vhRng) []byte {
	edges := []int{0, 1, 3, 4, 7, 8, 31, 32, 33, 55, 56, 63, 64, 65, 111, 112, 127, 128, 129, 135, 136, 137, 165, 166, 167,
		255, 256, 257, 1023, 1024, 1025}
	switch r.Intn(3) {
	case 0:
		return r.Bytes(r.Intn(300))
	case 1:
		return r.Bytes(r.Intn(3000))
	}
	n := edges[r.Intn(len(edges))]
	b := make([]byte, n)
	switch r.Intn(4) {
	case 0:
	case 1:
		for i := range b {
			b[i] = 0xff
		}
	default:
		copy(b, r.Bytes(n))
	}
	return b
}

var c29HSmallOrder = []string{
	"0100000000000000000000000000000000000000000000000000000000000000",
	"ecffffffffffffffffffffffffffffffffffffffffffffffffffffffffffff7f",
	"0000000000000000000000000000000000000000000000000000000000000000",
	"0000000000000000000000000000000000000000000000000000000000000080",
	"26e8958fc2b227b045c3f489f2ef98f0d5dfac05d3c63339b13802886d53fc05",
	"c7176a703d4dd84fba3c0b760d10670f2a2053fa2c39ccc64ec7fd7792ac037a",
	"0100000000000000000000000000000000000000000000000000000000000080",
	"eeffffffffffffffffffffffffffffffffffffffffffffffffffffffffffff7f",
}

func c29HGenEd(r *vhRng) string {
	edk := stded.NewKeyFromSeed(r.Bytes(32))
	pk := []byte(edk.Public().(stded.PublicKey))
	msg := r.Bytes(r.Pick(0, 1, 32, 111, 112, 128, 200))
	sig := stded.Sign(edk, msg)
	switch r.Intn(8) {
	case 0, 1, 2:
	case 3:
		sig[r.Intn(64)] ^= 1 << uint(r.Intn(8))
	case 4:
		msg = append(msg, 1)
	case 5:
		pk = append([]byte{}, pk...)
		pk[r.Intn(32)] ^= 1 << uint(r.Intn(8))
	case 6: // small-order A and R, s = 0: valid under ZIP-215
		pk = vhUnhex(c29HSmallOrder[r.Intn(len(c29HSmallOrder))])
		sig = append(vhUnhex(c29HSmallOrder[r.Intn(len(c29HSmallOrder))]), make([]byte, 32)...)
	default: // s + L
		s := new(big.Int).SetBytes(c29HRev(sig[32:]))
		s.Add(s, c29HL)
		copy(sig[32:], c29HLE32(s))
	}
	return "hed " + vhHex(pk) + " " + vhHex(msg) + " " + vhHex(sig)
}

// n·B as the public key of the secret scalar n (ristretto255 itself is not importable, see sr_test.go)
func c29HBaseMult(n *big.Int) []byte {
	var b [32]byte
	copy(b[:], c29HLE32(n))
	sk := &schnorrkel.SecretKey{}
	_ = sk.Decode(b)
	pub, err := sk.Public()
	if err != nil {
		panic(err)
	}
	out := pub.Encode()
	return out[:]
}

func c29HSchnorr(x *big.Int, pk []byte, t *merlin.Transcript, lpk, lr, lc string, nonce *big.Int) []byte {
	t.AppendMessage([]byte("proto-name"), []byte("Schnorr-sig"))
	t.AppendMessage([]byte(lpk), pk)
	rb := c29HBaseMult(nonce)
	t.AppendMessage([]byte(lr), rb)
	k := new(big.Int).SetBytes(c29HRev(t.ExtractBytes([]byte(lc), 64)))
	s := new(big.Int).Mul(x, k)
	s.Add(s, nonce)
	s.Mod(s, c29HL)
	sig := append(append([]byte{}, rb...), c29HLE32(s)...)
	sig[63] |= 128
	return sig
}

func c29HGenSr(r *vhRng) string {
	var seed [32]byte
	copy(seed[:], r.Bytes(32))
	msc, err := schnorrkel.NewMiniSecretKeyFromRaw(seed)
	if err != nil {
		panic(err)
	}
	skb := msc.ExpandEd25519().Encode()
	x := new(big.Int).SetBytes(c29HRev(skb[:]))
	pkb := msc.Public().Encode()
	pk := pkb[:]
	msg := r.Bytes(r.Pick(0, 1, 32, 100, 166, 200))
	nonce := func() *big.Int {
		n := new(big.Int).SetBytes(r.Bytes(64))
		return n.Mod(n, c29HL)
	}
	legacy := func() *merlin.Transcript {
		t := merlin.NewTranscript("substrate")
		t.AppendMessage([]byte("sign-bytes"), msg)
		return t
	}
	honest := func() []byte {
		return c29HSchnorr(x, pk, schnorrkel.NewSigningContext([]byte("substrate"), msg), "sign:pk", "sign:R", "sign:c", nonce())
	}
	var sig []byte
	switch r.Intn(14) {
	case 0, 1, 2:
		sig = honest()
	case 3:
		sig = honest()
		sig[63] &= 0x7f
	case 4:
		sig = c29HSchnorr(x, pk, legacy(), "sign:pk", "sign:R", "sign:c", nonce())
		if r.Bool() {
			sig[63] &= 0x7f
		}
	case 5: // genuine schnorrkel 0.1.1 signature
		sig = c29HSchnorr(x, pk, legacy(), "pk", "no", "", nonce())
		if r.Chance(2, 3) {
			sig[63] &= 0x7f
		}
	case 6:
		sig = honest()
		sig[r.Intn(64)] ^= 1 << uint(r.Intn(8))
	case 7:
		sig = honest()
		msg = append(msg, 7)
	case 8:
		sig = honest()
		pk = append([]byte{}, pk...)
		pk[r.Intn(32)] ^= 1 << uint(r.Intn(8))
	case 9, 10: // the all-zero (identity) public key
		pk = make([]byte, 32)
		n := nonce()
		sig = append(c29HBaseMult(n), c29HLE32(n)...)
		switch r.Intn(4) {
		case 0, 1:
			sig[63] |= 0x80
		case 2:
			sig[63] |= 0x80
			sig[32] ^= 1
		default:
			sig = r.Bytes(64)
		}
	case 11: // s + ℓ
		sig = honest()
		s := new(big.Int).SetBytes(c29HRev(sig[32:]))
		s.SetBit(s, 255, 0)
		s.Add(s, c29HL)
		copy(sig[32:], c29HLE32(s))
		sig[63] |= 0x80
	case 12: // invalid public key encodings
		sig = honest()
		pk = vhUnhex([]string{
			"edffffffffffffffffffffffffffffffffffffffffffffffffffffffffffff7f",
			"0100000000000000000000000000000000000000000000000000000000000000",
			"26948d35ca62e643e26a83177332e6b6afeb9d08e4268b650f1f5bbd8d81d371",
			"3eb858e78f5a7254d8c9731174a94f76755fd3941c0ac93735c07ba14579630e",
			"ecffffffffffffffffffffffffffffffffffffffffffffffffffffffffffff7f",
			"0000000000000000000000000000000000000000000000000000000000000080"}[r.Intn(6)])
	default:
		sig = r.Bytes(64)
		sig[63] |= 0x80
	}
	return r.PickS("hsr1", "hsr2", "hsr2") + " " + vhHex(pk) + " " + vhHex(msg) + " " + vhHex(sig)
}

func (r *vhRng) PickS(xs ...string) string { return xs[r.Intn(len(xs))] }

func c29HGenEc(r *vhRng) string {
	privb := r.Bytes(32)
	privb[0] &= 0x7f
	privb[31] |= 1
	priv, err := secp256k1.NewPrivateKey(privb)
	if err != nil {
		panic(err)
	}
	kp, err := secp256k1.NewKeypairFromPrivate(priv)
	if err != nil {
		panic(err)
	}
	pub := kp.Public().Encode()
	verify := r.Intn(3) == 0
	msg := r.Bytes(32)
	digest := msg
	if verify { // ext_crypto_ecdsa_verify hashes the message with BLAKE2b-256 itself
		msg = r.Bytes(r.Pick(0, 1, 32, 100))
		h, _ := common.Blake2bHash(msg)
		digest = h[:]
	}
	sig, err := kp.Sign(digest)
	if err != nil {
		panic(err)
	}
	switch r.Intn(12) {
	case 0, 1, 2:
	case 3:
		sig[r.Intn(64)] ^= 1 << uint(r.Intn(8))
	case 4:
		msg = append([]byte{}, msg...)
		if len(msg) == 0 {
			msg = []byte{1}
		} else {
			msg[r.Intn(len(msg))] ^= 1 << uint(r.Intn(8))
		}
	case 5: // high-s twin with the matching recovery id
		s := new(big.Int).SetBytes(sig[32:64])
		copy(sig[32:64], c29HPadBE(s.Sub(c29HN, s)))
		sig[64] ^= 1
	case 6: // wrong recovery id
		switch r.Intn(3) {
		case 0:
			sig[64] = byte([]int{0, 1, 2, 3, 4, 26, 27, 28, 29, 30, 31, 255}[r.Intn(12)])
		case 1: // the honest id (or any id 0..3) plus a multiple of 27, over the whole byte range
			id := int(sig[64])
			if r.Bool() {
				id = r.Intn(4)
			}
			sig[64] = byte(id + 27*r.Intn(10))
		default:
			sig[64] = byte(r.Intn(256))
		}
	case 7: // r or s: zero, n, or the honest value + n when that fits (overflowing encodings)
		switch r.Intn(5) {
		case 0:
			copy(sig[0:32], c29HPadBE(c29HN))
		case 1:
			copy(sig[32:64], c29HPadBE(c29HN))
		case 2:
			copy(sig[0:32], make([]byte, 32))
		case 3:
			copy(sig[32:64], make([]byte, 32))
		default:
			copy(sig[32:64], []byte{0xff, 0xff, 0xff, 0xff, 0xff, 0xff, 0xff, 0xff, 0xff, 0xff, 0xff, 0xff, 0xff, 0xff, 0xff, 0xff})
		}
	case 8: // +27 convention
		sig[64] += 27
	case 9: // wrong recovery id parity only
		sig[64] ^= 1
	case 10:
		pub = append([]byte{}, pub...)
		pub[r.Intn(33)] ^= 1 << uint(r.Intn(8))
	default:
		sig = r.Bytes(65)
		sig[64] = byte(r.Intn(4))
	}
	if verify {
		return "hecv " + vhHex(pub) + " " + vhHex(msg) + " " + vhHex(sig)
	}
	return r.PickS("hecr1", "hecr2", "hecc1", "hecc2") + " " + vhHex(msg) + " " + vhHex(sig)
}

func c29HostGen(r *vhRng) string {
	var line string
	switch r.Intn(10) {
	case 0, 1, 2:
		return "hh " + vhHex(c29HMsg(r))
	case 3, 4:
		line = c29HGenEd(r)
	case 5, 6, 7:
		line = c29HGenSr(r)
	default:
		line = c29HGenEc(r)
	}
	if strings.HasPrefix(line, "hecr") || strings.HasPrefix(line, "hecc") {
		return line
	}
	switch r.Intn(40) {
	case 0, 1, 2:
		return "b" + line
	case 3: // Finish() sleeps 100 ms: keep this branch rare
		return "q" + line
	}
	return line
}

func TestVerifC29Host(t *testing.T) { vhMain(t, c29HostGen, c29HostRun) }
