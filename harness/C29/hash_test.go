//go:build verif

package common

import (
	"strings"
	"testing"
)

func c29Run(line string) string {
	f := strings.Fields(line)
	if len(f) != 2 || f[0] != "h" {
		return "bad-op"
	}
	m := vhUnhex(f[1])
	b8, err := Blake2b8(m)
	if err != nil {
		return "err"
	}
	b128, err := Blake2b128(m)
	if err != nil {
		return "err"
	}
	b256, err := Blake2bHash(m)
	if err != nil {
		return "err"
	}
	k, err := Keccak256(m)
	if err != nil {
		return "err"
	}
	x64, err := Twox64(m)
	if err != nil {
		return "err"
	}
	x128, err := Twox128Hash(m)
	if err != nil {
		return "err"
	}
	x256, err := Twox256(m)
	if err != nil {
		return "err"
	}
	s := Sha256(m)
	return strings.Join([]string{vhHex(b8[:]), vhHex(b128), vhHex(b256[:]), vhHex(k[:]), vhHex(x64),
		vhHex(x128), vhHex(x256[:]), vhHex(s[:])}, " ")
}

// message lengths around the block sizes of every primitive (xxHash 4/8/32, SHA-256 55/56/64,
// Keccak rate 136, BLAKE2b 128), plus random lengths; contents random, all-zero, all-ones or counting.
func c29Gen(r *vhRng) string {
	edges := []int{0, 1, 3, 4, 5, 7, 8, 9, 31, 32, 33, 55, 56, 57, 63, 64, 65, 111, 112, 119, 120, 127, 128,
		129, 135, 136, 137, 255, 256, 257, 271, 272, 273, 383, 384, 385, 1023, 1024, 1025}
	n := 0
	switch r.Intn(4) {
	case 0:
		n = r.Intn(300)
	case 1:
		n = r.Intn(5000)
	default:
		n = edges[r.Intn(len(edges))]
	}
	b := make([]byte, n)
	switch r.Intn(5) {
	case 0:
	case 1:
		for i := range b {
			b[i] = 0xff
		}
	case 2:
		for i := range b {
			b[i] = byte(i)
		}
	default:
		copy(b, r.Bytes(n))
	}
	return "h " + vhHex(b)
}

func TestVerifC29(t *testing.T) { vhMain(t, c29Gen, c29Run) }
