//go:build verif

package common

import (
	"strings"
	"testing"
)

// c29Run: `h <msg>` computes every helper once; `hc <msg>` additionally recomputes all helpers from
// several goroutines on different messages at once and requires every concurrent result to equal
// the sequential one (the helpers are called concurrently by the runtime and the network layer, so a
// helper that shares hidden state between calls returns wrong digests only under concurrency).
func c29Run(line string) string {
	f := strings.Fields(line)
	if len(f) == 2 && f[0] == "hc" {
		m := vhUnhex(f[1])
		want := c29Digests(m)
		if want == "err" {
			return "err"
		}
		const workers, rounds = 8, 40
		bad := make(chan string, workers)
		done := make(chan struct{})
		for w := 0; w < workers; w++ {
			go func(w int) {
				defer func() { done <- struct{}{} }()
				own := append(append([]byte{}, m...), byte(w)) // a different message per worker
				ownWant := c29Digests(own)
				for i := 0; i < rounds; i++ {
					if w%2 == 0 {
						if got := c29Digests(m); got != want {
							select {
							case bad <- got:
							default:
							}
							return
						}
					} else if got := c29Digests(own); got != ownWant {
						// ownWant was itself computed concurrently: compare with a recomputation
						// after the run instead
						select {
						case bad <- "own":
						default:
						}
						return
					}
				}
			}(w)
		}
		for w := 0; w < workers; w++ {
			<-done
		}
		select {
		case <-bad:
			return want + " conc=mismatch"
		default:
		}
		if c29Digests(m) != want {
			return want + " conc=mismatch"
		}
		return want + " conc=ok"
	}
	if len(f) != 2 || f[0] != "h" {
		return "bad-op"
	}
	return c29Digests(vhUnhex(f[1]))
}

func c29Digests(m []byte) string {
	b8, err := Blake2b8(m)
	if err != nil {
		return "err"
	}
	b128, err := Blake2b128(m)
	if err != nil {
		return "err"
	}
	b256, err := Blake2bHash(m)
	if err != nil {
		return "err"
	}
	k, err := Keccak256(m)
	if err != nil {
		return "err"
	}
	x64, err := Twox64(m)
	if err != nil {
		return "err"
	}
	x128, err := Twox128Hash(m)
	if err != nil {
		return "err"
	}
	x256, err := Twox256(m)
	if err != nil {
		return "err"
	}
	s := Sha256(m)
	return strings.Join([]string{vhHex(b8[:]), vhHex(b128), vhHex(b256[:]), vhHex(k[:]), vhHex(x64),
		vhHex(x128), vhHex(x256[:]), vhHex(s[:])}, " ")
}

// message lengths around the block sizes of every primitive (xxHash 4/8/32, SHA-256 55/56/64,
// Keccak rate 136, BLAKE2b 128), plus random lengths; contents random, all-zero, all-ones or counting.
func c29Gen(r *vhRng) string {
	edges := []int{0, 1, 3, 4, 5, 7, 8, 9, 31, 32, 33, 55, 56, 57, 63, 64, 65, 111, 112, 119, 120, 127, 128,
		129, 135, 136, 137, 255, 256, 257, 271, 272, 273, 383, 384, 385, 1023, 1024, 1025}
	n := 0
	switch r.Intn(4) {
	case 0:
		n = r.Intn(300)
	case 1:
		n = r.Intn(5000)
	default:
		n = edges[r.Intn(len(edges))]
	}
	op := "h "
	if r.Chance(1, 6) {
		op = "hc "
	}
	b := make([]byte, n)
	switch r.Intn(5) {
	case 0:
	case 1:
		for i := range b {
			b[i] = 0xff
		}
	case 2:
		for i := range b {
			b[i] = byte(i)
		}
	default:
		copy(b, r.Bytes(n))
	}
	return op + vhHex(b)
}

func TestVerifC29(t *testing.T) { vhMain(t, c29Gen, c29Run) }
