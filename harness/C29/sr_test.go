//go:build verif

package sr25519

import (
	stded "crypto/ed25519"
	"math/big"
	"strconv"
	"strings"
	"testing"

	schnorrkel "github.com/ChainSafe/go-schnorrkel"
	"github.com/gtank/merlin"
)

// github.com/gtank/ristretto255 is only an indirect requirement of gossamer: importing it here would make
// `go test -mod=mod` rewrite /repo/go.mod.  Scalars are therefore math/big numbers mod ℓ, and n·B is obtained
// through the library as the public key of the secret scalar n.

// Lines of this run (all compared with Lib/SrRef.lean):
//   mt <app> <clabel> <outlen> {<label> <msg>}*  → challenge bytes of a merlin transcript
//   rd <32 bytes>                                → err | canonical re-encoding   (ristretto255 decode∘encode
//                                                  through schnorrkel.NewPublicKey / PublicKey.Encode)
//   rv <k>                                       → published RFC 9496 encoding of k·B ‖ the library's value
//   sr <pk> <msg> <sig>                          → <ok|fail> dep=<ok|fail>
//        first: VerifySignature and PublicKey.Verify (must agree), dep: PublicKey.VerifyDeprecated

var c29SrMultiples = [16]string{
	"0000000000000000000000000000000000000000000000000000000000000000",
	"e2f2ae0a6abc4e71a884a961c500515f58e30b6aa582dd8db6a65945e08d2d76",
	"6a493210f7499cd17fecb510ae0cea23a110e8d5b901f8acadd3095c73a3b919",
	"94741f5d5d52755ece4f23f044ee27d5d1ea1e2bd196b462166b16152a9d0259",
	"da80862773358b466ffadfe0b3293ab3d9fd53c5ea6c955358f568322daf6a57",
	"e882b131016b52c1d3337080187cf768423efccbb517bb495ab812c4160ff44e",
	"f64746d3c92b13050ed8d80236a7f0007c3b3f962f5ba793d19a601ebb1df403",
	"44f53520926ec81fbd5a387845beb7df85a96a24ece18738bdcfa6a7822a176d",
	"903293d8f2287ebe10e2374dc1a53e0bc887e592699f02d077d5263cdd55601c",
	"02622ace8f7303a31cafc63f8fc48fdc16e1c8c8d234b2f0d6685282a9076031",
	"20706fd788b2720a1ed2a5dad4952b01f413bcf0e7564de8cdc816689e2db95f",
	"bce83f8ba5dd2fa572864c24ba1810f9522bc6004afe95877ac73241cafdab42",
	"e4549ee16b9aa03099ca208c67adafcafa4c3f3e4e5303de6026e3ca8ff84460",
	"aa52e000df2e16f55fb1032fc33bc42742dad6bd5a8fc0be0167436c5948501f",
	"46376b80f409b29dc2b5f6f0c52591990896e5716f41477cd30085ab7f10301e",
	"e0c418f7c8d9c4cdd7395b93ea124f3ad99021bb681dfc3302a9d99a2e53e64e",
}

// RFC 9496 A.3 invalid encodings
var c29SrBad = []string{
	"00ffffffffffffffffffffffffffffffffffffffffffffffffffffffffffffff",
	"ffffffffffffffffffffffffffffffffffffffffffffffffffffffffffffff7f",
	"f3ffffffffffffffffffffffffffffffffffffffffffffffffffffffffffff7f",
	"edffffffffffffffffffffffffffffffffffffffffffffffffffffffffffff7f",
	"0100000000000000000000000000000000000000000000000000000000000000",
	"01ffffffffffffffffffffffffffffffffffffffffffffffffffffffffffff7f",
	"ed57ffd8c914fb201471d1c3d245ce3c746fcbe63a3679d51b6a516ebebe0e20",
	"c34c4e1826e5d403b78e246e88aa051c36ccf0aafebffe137d148a2bf9104562",
	"c940e5a4404157cfb1628b108db051a8d439e1a421394ec4ebccb9ec92a8ac78",
	"47cfc5497c53dc8e61c91d17fd626ffb1c49e2bca94eed052281b510b1117a24",
	"f1c6165d33367351b0da8f6e4511010c68174a03b6581212c71c0e1d026c3c72",
	"87260f7a2f12495118360f02c26a470f450dadf34a413d21042b43b9d93e1309",
	"26948d35ca62e643e26a83177332e6b6afeb9d08e4268b650f1f5bbd8d81d371",
	"4eac077a713c57b4f4397629a4145982c661f48044dd3f96427d40b147d9742f",
	"de6a7b00deadc788eb6b6c8d20c0ae96c2f2019078fa604fee5b87d6e989ad7b",
	"bcab477be20861e01e4a0e295284146a510150d9817763caf1a6f4b422d67042",
	"2a292df7e32cababbd9de088d1d1abec9fc0440f637ed2fba145094dc14bea08",
	"f4a9e534fc0d216c44b218fa0c42d99635a0127ee2e53c712f70609649fdff22",
	"8268436f8c4126196cf64b3c7ddbda90746a378625f9813dd9b8457077256731",
	"2810e5cbc2cc4d4eece54f61c6f69758e289aa7ab440b3cbeaa21995c2f4232b",
	"3eb858e78f5a7254d8c9731174a94f76755fd3941c0ac93735c07ba14579630e",
	"a45fdc55c76448c049a1ab33f17023edfb2be3581e9c7aade8a6125215e04220",
	"d483fe813c6ba647ebbfd3ec41adca1c6130c2beeee9d9bf065c8d151c5f396e",
	"8a2e1d30050198c65a54483123960ccc38aef6848e1ec8f5f780e8523769ba32",
	"32888462f8b486c68ad7dd9610be5192bbeaf3b443951ac1a8118419d9fa097b",
	"227142501b9d4355ccba290404bde41575b037693cef1f438c47f8fbf35d1165",
	"5c37cc491da847cfeb9281d407efc41e15144c876e0170b499a96a22ed31e01e",
	"445425117cb8c90edcbc7c1cc0e74f747f2c1efa5630a967c64f287792a48a4b",
	"ecffffffffffffffffffffffffffffffffffffffffffffffffffffffffffff7f",
}

func c29SrVerdict(ok bool) string {
	if ok {
		return "ok"
	}
	return "fail"
}

func c29SrRun(line string) string {
	f := strings.Fields(line)
	if len(f) == 0 {
		return "bad-op"
	}
	switch {
	case f[0] == "mt" && len(f) >= 4 && len(f)%2 == 0:
		n, err := strconv.Atoi(f[3])
		if err != nil || n <= 0 || n > 4096 {
			return "bad-op"
		}
		t := merlin.NewTranscript(string(vhUnhex(f[1])))
		for i := 4; i+1 < len(f); i += 2 {
			t.AppendMessage(vhUnhex(f[i]), vhUnhex(f[i+1]))
		}
		return vhHex(t.ExtractBytes(vhUnhex(f[2]), n))
	case f[0] == "rd" && len(f) == 2:
		b := vhUnhex(f[1])
		if len(b) != 32 {
			return "bad-op"
		}
		var in [32]byte
		copy(in[:], b)
		pk, err := schnorrkel.NewPublicKey(in)
		if err != nil {
			return "err"
		}
		out := pk.Encode()
		return vhHex(out[:])
	case f[0] == "rv" && len(f) == 2:
		k, err := strconv.Atoi(f[1])
		if err != nil || k < 0 || k > 15 {
			return "bad-op"
		}
		return c29SrMultiples[k] + " " + vhHex(c29SrBaseMult(big.NewInt(int64(k))))
	case f[0] == "sr" && len(f) == 4:
		pkb, msg, sig := vhUnhex(f[1]), vhUnhex(f[2]), vhUnhex(f[3])
		a := VerifySignature(pkb, append([]byte{}, sig...), append([]byte{}, msg...)) == nil
		b, dep := false, false
		if pk, err := NewPublicKey(pkb); err == nil {
			ok, err := pk.Verify(append([]byte{}, msg...), append([]byte{}, sig...))
			b = ok && err == nil
			ok, err = pk.VerifyDeprecated(append([]byte{}, msg...), append([]byte{}, sig...))
			dep = ok && err == nil
		}
		if a != b {
			return "paths-disagree fn=" + c29SrVerdict(a) + " method=" + c29SrVerdict(b)
		}
		return c29SrVerdict(a) + " dep=" + c29SrVerdict(dep)
	}
	return "bad-op"
}

// ---------------------------------------------------------------------------------------- generators

var (
	c29SrP, _ = new(big.Int).SetString("7fffffffffffffffffffffffffffffffffffffffffffffffffffffffffffffed", 16)
	c29SrL, _ = new(big.Int).SetString("7237005577332262213973186563042994240857116359379907606001950938285454250989", 10)
)

func c29SrLE32(n *big.Int) []byte {
	b := n.Bytes()
	out := make([]byte, 32)
	for i := range b {
		if i < 32 {
			out[i] = b[len(b)-1-i]
		}
	}
	return out
}

func c29SrFromLE(b []byte) *big.Int {
	r := make([]byte, len(b))
	for i := range b {
		r[len(b)-1-i] = b[i]
	}
	return new(big.Int).SetBytes(r)
}

// a uniform scalar mod ℓ
func c29SrScalar(r *vhRng) *big.Int {
	n := c29SrFromLE(r.Bytes(64))
	return n.Mod(n, c29SrL)
}

// the ristretto255 encoding of n·B (n < ℓ)
func c29SrBaseMult(n *big.Int) []byte {
	var b [32]byte
	copy(b[:], c29SrLE32(n))
	sk := &schnorrkel.SecretKey{}
	if err := sk.Decode(b); err != nil {
		panic(err)
	}
	pub, err := sk.Public()
	if err != nil {
		panic(err)
	}
	out := pub.Encode()
	return out[:]
}

// a Schnorr signature made by hand: nonce, transcript and protocol labels are the caller's
func c29SrSchnorr(x *big.Int, pk []byte, t *merlin.Transcript, lpk, lr, lc string, nonce *big.Int) []byte {
	t.AppendMessage([]byte("proto-name"), []byte("Schnorr-sig"))
	t.AppendMessage([]byte(lpk), pk)
	rb := c29SrBaseMult(nonce)
	t.AppendMessage([]byte(lr), rb)
	k := c29SrFromLE(t.ExtractBytes([]byte(lc), 64))
	k.Mod(k, c29SrL)
	s := new(big.Int).Mul(x, k)
	s.Add(s, nonce)
	s.Mod(s, c29SrL)
	sig := append(append([]byte{}, rb...), c29SrLE32(s)...)
	sig[63] |= 128
	return sig
}

// boundary lengths of merlin messages: the STROBE rate is 166 bytes, every operation adds 2 framing bytes
func c29SrLen(r *vhRng) int {
	switch r.Intn(4) {
	case 0:
		return r.Pick(0, 1, 2, 31, 32, 33, 64)
	case 1:
		return r.Pick(100, 120, 140, 150, 155, 160, 162, 163, 164, 165, 166, 167, 168, 170)
	case 2:
		return r.Pick(320, 328, 329, 330, 331, 332, 333, 334, 335, 496, 497, 498, 499, 500)
	default:
		return r.Intn(700)
	}
}

func c29SrGenMerlin(r *vhRng) string {
	labels := []string{"", "dom-sep", "sign-bytes", "proto-name", "sign:pk", "sign:R", "sign:c", "x"}
	var sb strings.Builder
	sb.WriteString("mt " + vhHex([]byte(r.PickStr("SigningContext", "substrate", "", "test protocol", "a"))))
	sb.WriteString(" " + vhHex([]byte(labels[r.Intn(len(labels))])))
	sb.WriteString(" " + strconv.Itoa(r.Pick(1, 2, 16, 32, 64, 64, 64, 165, 166, 167, 200, 332, 333, 400)))
	for i, n := 0, r.Intn(5); i < n; i++ {
		sb.WriteString(" " + vhHex([]byte(labels[r.Intn(len(labels))])) + " " + vhHex(r.Bytes(c29SrLen(r))))
	}
	return sb.String()
}

func c29SrGenDecode(r *vhRng) string {
	var b []byte
	switch r.Intn(8) {
	case 0: // a valid encoding
		b = c29SrBaseMult(c29SrScalar(r))
	case 1: // small multiples of the base point
		b = c29SrBaseMult(big.NewInt(int64(r.Intn(40))))
	case 2: // RFC 9496 invalid encodings
		b = vhUnhex(c29SrBad[r.Intn(len(c29SrBad))])
	case 3: // p + j: non-canonical field encodings (j < 19), and the values just below p
		b = c29SrLE32(new(big.Int).Add(c29SrP, big.NewInt(int64(r.Intn(19)))))
		if r.Chance(1, 3) {
			b = c29SrLE32(new(big.Int).Sub(c29SrP, big.NewInt(int64(1+r.Intn(20)))))
		}
	case 4: // the negation p − e of a valid encoding (odd), or bit 255 set
		b = c29SrBaseMult(c29SrScalar(r))
		if r.Bool() {
			b = c29SrLE32(new(big.Int).Sub(c29SrP, c29SrFromLE(b)))
		} else {
			b[31] |= 0x80
		}
	case 5: // small values
		b = make([]byte, 32)
		b[0] = byte(r.Intn(256))
		b[1] = byte(r.Pick(0, 0, 0, 1, 255))
	default: // random even field elements: about half of them decode
		b = r.Bytes(32)
		b[0] &= 0xfe
		b[31] &= 0x7f
	}
	return "rd " + vhHex(b)
}

func (r *vhRng) PickStr(xs ...string) string { return xs[r.Intn(len(xs))] }

func c29SrGen(r *vhRng) string {
	switch r.Intn(10) {
	case 0, 1:
		return c29SrGenMerlin(r)
	case 2:
		return c29SrGenDecode(r)
	case 3:
		if r.Chance(1, 4) {
			return "rv " + strconv.Itoa(r.Intn(16))
		}
	}
	return c29SrGenSig(r)
}

func c29SrGenSig(r *vhRng) string {
	kp, err := NewKeypairFromSeed(r.Bytes(32))
	if err != nil {
		panic(err)
	}
	xb := kp.private.key.Encode()
	x := c29SrFromLE(xb[:])
	msg := r.Bytes(r.Pick(0, 1, 32, 64, 100, 150, 166, 200))
	pk := kp.Public().Encode()
	current := func(m []byte) *merlin.Transcript { return schnorrkel.NewSigningContext(SigningContext, m) }
	goLegacy := func(m []byte) *merlin.Transcript {
		t := merlin.NewTranscript(string(SigningContext))
		t.AppendMessage([]byte("sign-bytes"), m)
		return t
	}
	honest := func() []byte {
		return c29SrSchnorr(x, pk, current(msg), "sign:pk", "sign:R", "sign:c", c29SrScalar(r))
	}
	var sig []byte
	switch r.Intn(20) {
	case 0: // the library's own signer (random nonce)
		sig, err = kp.Sign(msg)
		if err != nil {
			panic(err)
		}
	case 1, 2:
		sig = honest()
	case 3: // marker bit cleared on an honest signature
		sig = honest()
		sig[63] &= 0x7f
	case 4: // signed on merlin("substrate")+sign-bytes with the CURRENT labels (what gossamer's
		// VerifyDeprecated tries second); marker set or clear
		sig = c29SrSchnorr(x, pk, goLegacy(msg), "sign:pk", "sign:R", "sign:c", c29SrScalar(r))
		if r.Bool() {
			sig[63] &= 0x7f
		}
	case 5: // a genuine schnorrkel 0.1.1 signature (labels pk / no / ""), unmarked as 0.1.1 produced them, or marked
		sig = c29SrSchnorr(x, pk, goLegacy(msg), "pk", "no", "", c29SrScalar(r))
		if r.Chance(2, 3) {
			sig[63] &= 0x7f
		}
	case 6: // one flipped bit in the signature
		sig = honest()
		sig[r.Intn(64)] ^= 1 << uint(r.Intn(8))
	case 7: // one flipped bit in the message
		sig = honest()
		if len(msg) == 0 {
			msg = []byte{1}
		} else {
			msg[r.Intn(len(msg))] ^= 1 << uint(r.Intn(8))
		}
	case 8: // other key / one flipped bit in the key
		sig = honest()
		if r.Bool() {
			other, _ := NewKeypairFromSeed(r.Bytes(32))
			pk = other.Public().Encode()
		} else {
			pk = append([]byte{}, pk...)
			pk[r.Intn(32)] ^= 1 << uint(r.Intn(8))
		}
	case 9: // s + j·ℓ: same residue, non-canonical scalar (fits below 2^255 for j ≤ 6)
		sig = honest()
		s := c29SrFromLE(sig[32:])
		s.SetBit(s, 255, 0)
		s.Add(s, new(big.Int).Mul(c29SrL, big.NewInt(int64(1+r.Intn(6)))))
		copy(sig[32:], c29SrLE32(s))
		if r.Chance(3, 4) {
			sig[63] |= 0x80
		}
	case 10: // nonce 0: R is the identity (encoding 00…00), a valid signature; then non-canonical / marked R
		sig = c29SrSchnorr(x, pk, current(msg), "sign:pk", "sign:R", "sign:c", big.NewInt(0))
		switch r.Intn(3) {
		case 0:
		case 1:
			copy(sig[:32], c29SrLE32(c29SrP)) // p ≡ 0, non-canonical
		default:
			sig[31] |= 0x80
		}
	case 11: // R replaced by an invalid encoding / by −R / by another valid point
		sig = honest()
		switch r.Intn(3) {
		case 0:
			copy(sig[:32], vhUnhex(c29SrBad[r.Intn(len(c29SrBad))]))
		case 1:
			copy(sig[:32], c29SrLE32(new(big.Int).Sub(c29SrP, c29SrFromLE(sig[:32]))))
		default:
			copy(sig[:32], c29SrBaseMult(c29SrScalar(r)))
		}
	case 12: // public key replaced by an invalid / non-canonical encoding
		sig = honest()
		if r.Bool() {
			pk = vhUnhex(c29SrBad[r.Intn(len(c29SrBad))])
		} else {
			pk = c29SrLE32(new(big.Int).Add(c29SrP, big.NewInt(int64(r.Intn(19)))))
		}
	case 13, 14: // identity public key (00…00): R = s·B satisfies the equation whatever the challenge
		pk = make([]byte, 32)
		n := c29SrScalar(r)
		sig = append(c29SrBaseMult(n), c29SrLE32(n)...)
		switch r.Intn(5) {
		case 0, 1:
			sig[63] |= 0x80
		case 2: // unmarked
		case 3: // wrong s
			sig[63] |= 0x80
			sig[32] ^= 1
		default: // an honest signature of another key
			sig = honest()
		}
	case 15: // wrong length
		sig = honest()
		switch r.Intn(4) {
		case 0:
			sig = sig[:r.Intn(64)]
		case 1:
			sig = append(sig, byte(r.Intn(256)))
		case 2:
			pk = pk[:31]
		default:
			pk = append(append([]byte{}, pk...), 0)
		}
	case 16: // wrong signing context
		ctx := [][]byte{{}, []byte("substratf"), []byte("Substrate"), []byte("substrate "), []byte("substrat")}[r.Intn(5)]
		sig = c29SrSchnorr(x, pk, schnorrkel.NewSigningContext(ctx, msg), "sign:pk", "sign:R", "sign:c", c29SrScalar(r))
	case 17: // random bytes, marked or not
		sig = r.Bytes(64)
		if r.Bool() {
			sig[63] |= 0x80
		}
	case 18: // an ed25519 signature under the same 32 key bytes
		edk := stded.NewKeyFromSeed(r.Bytes(32))
		pk = []byte(edk.Public().(stded.PublicKey))
		sig = stded.Sign(edk, msg)
		if r.Bool() {
			sig[63] |= 0x80
		}
	default: // s = 0 / s = ℓ−1 / s = ℓ with an honest R
		sig = honest()
		s := []*big.Int{big.NewInt(0), new(big.Int).Sub(c29SrL, big.NewInt(1)), c29SrL}[r.Intn(3)]
		copy(sig[32:], c29SrLE32(s))
		sig[63] |= 0x80
	}
	return "sr " + vhHex(pk) + " " + vhHex(msg) + " " + vhHex(sig)
}

func TestVerifC29Sr(t *testing.T) { vhMain(t, c29SrGen, c29SrRun) }
