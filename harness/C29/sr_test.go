//go:build verif

package sr25519

import (
	"strings"
	"testing"
)

// sr <pk> <msg> <sig> <expected-by-construction: honest|tampered>  →  ok | fail
// There is no Lean reference for schnorrkel (merlin/STROBE + ristretto255): the expected verdict is
// known by construction only (honest signature ⇒ ok; single-bit tamper of sig/msg/key ⇒ fail).
func c29SrRun(line string) string {
	f := strings.Fields(line)
	if len(f) != 5 || f[0] != "sr" {
		return "bad-op"
	}
	a := "ok"
	if err := VerifySignature(vhUnhex(f[1]), vhUnhex(f[3]), vhUnhex(f[2])); err != nil {
		a = "fail"
	}
	b := "fail"
	if pk, err := NewPublicKey(vhUnhex(f[1])); err == nil {
		if ok, err := pk.Verify(vhUnhex(f[2]), vhUnhex(f[3])); err == nil && ok {
			b = "ok"
		}
	}
	if a != b {
		return "paths-disagree fn=" + a + " method=" + b
	}
	return a
}

func c29SrGen(r *vhRng) string {
	kp, err := NewKeypairFromSeed(r.Bytes(32))
	if err != nil {
		panic(err)
	}
	msg := r.Bytes(r.Pick(0, 1, 32, 64, 100))
	sig, err := kp.Sign(msg)
	if err != nil {
		panic(err)
	}
	pk := kp.Public().Encode()
	kind := "honest"
	switch r.Intn(6) {
	case 0:
		sig[r.Intn(64)] ^= 1 << uint(r.Intn(8))
		kind = "tampered"
	case 1:
		if len(msg) == 0 {
			msg = []byte{1}
		} else {
			msg[r.Intn(len(msg))] ^= 1 << uint(r.Intn(8))
		}
		kind = "tampered"
	case 2:
		sig = sig[:r.Intn(64)]
		kind = "tampered"
	case 3:
		other, _ := NewKeypairFromSeed(r.Bytes(32))
		pk = other.Public().Encode()
		kind = "tampered"
	}
	return "sr " + vhHex(pk) + " " + vhHex(msg) + " " + vhHex(sig) + " " + kind
}

func TestVerifC29Sr(t *testing.T) { vhMain(t, c29SrGen, c29SrRun) }
