//go:build verif

package ed25519

import (
	"math/big"
	"strings"
	"testing"
)

// ed <pk> <msg> <sig>  →  ok | fail
func c29EdRun(line string) string {
	f := strings.Fields(line)
	if len(f) != 4 || f[0] != "ed" {
		return "bad-op"
	}
	a := "ok"
	if err := VerifySignature(vhUnhex(f[1]), vhUnhex(f[3]), vhUnhex(f[2])); err != nil {
		a = "fail"
	}
	// the exported Verify function and the PublicKey method must agree with it
	b := "fail"
	if pk, err := NewPublicKey(vhUnhex(f[1])); err == nil {
		ok1, err1 := Verify(pk, vhUnhex(f[2]), vhUnhex(f[3]))
		ok2, err2 := pk.Verify(vhUnhex(f[2]), vhUnhex(f[3]))
		if (ok1 && err1 == nil) != (ok2 && err2 == nil) {
			return "paths-disagree"
		}
		if ok1 && err1 == nil {
			b = "ok"
		}
	}
	if a != b {
		return "paths-disagree fn=" + a + " method=" + b
	}
	return a
}

var c29EdL, _ = new(big.Int).SetString("7237005577332262213973186563042994240857116359379907606001950938285454250989", 10)

// encodings of the eight small-order points plus non-canonical encodings of some of them
var c29SmallOrder = []string{
	"0100000000000000000000000000000000000000000000000000000000000000",
	"ecffffffffffffffffffffffffffffffffffffffffffffffffffffffffffff7f",
	"0000000000000000000000000000000000000000000000000000000000000000",
	"0000000000000000000000000000000000000000000000000000000000000080",
	"26e8958fc2b227b045c3f489f2ef98f0d5dfac05d3c63339b13802886d53fc05",
	"26e8958fc2b227b045c3f489f2ef98f0d5dfac05d3c63339b13802886d53fc85",
	"c7176a703d4dd84fba3c0b760d10670f2a2053fa2c39ccc64ec7fd7792ac037a",
	"c7176a703d4dd84fba3c0b760d10670f2a2053fa2c39ccc64ec7fd7792ac03fa",
	// non-canonical
	"0100000000000000000000000000000000000000000000000000000000000080",
	"eeffffffffffffffffffffffffffffffffffffffffffffffffffffffffffff7f",
	"eeffffffffffffffffffffffffffffffffffffffffffffffffffffffffffffff",
	"edffffffffffffffffffffffffffffffffffffffffffffffffffffffffffff7f",
	"edffffffffffffffffffffffffffffffffffffffffffffffffffffffffffffff",
	"ecffffffffffffffffffffffffffffffffffffffffffffffffffffffffffffff",
}

func c29LE32(n *big.Int) []byte {
	b := n.Bytes()
	out := make([]byte, 32)
	for i := 0; i < len(b) && i < 32; i++ {
		out[i] = b[len(b)-1-i]
	}
	return out
}

func c29EdGen(r *vhRng) string {
	seed := r.Bytes(32)
	kp, err := NewKeypairFromSeed(seed)
	if err != nil {
		panic(err)
	}
	lens := []int{0, 1, 31, 32, 33, 63, 64, 65, 111, 112, 113, 127, 128, 129, 200}
	msg := r.Bytes(lens[r.Intn(len(lens))])
	sig, _ := kp.Sign(msg)
	pk := kp.Public().Encode()
	if r.Chance(1, 6) {
		// torsion-only cases: A and R canonical small-order points, s = 0.  s*B = R + h*A holds
		// for about one case in eight (R must be -h*A), so both verdicts occur; half of the cases
		// use the all-zero key (a point of order 4), which a shortcut for "unset" keys would refuse
		pk = vhUnhex(c29SmallOrder[r.Intn(8)])
		if r.Bool() {
			pk = make([]byte, 32)
		}
		sig = append(vhUnhex(c29SmallOrder[r.Intn(8)]), make([]byte, 32)...)
		return "ed " + vhHex(pk) + " " + vhHex(msg) + " " + vhHex(sig)
	}
	switch r.Intn(12) {
	case 0, 1, 2: // honest
	case 3: // flipped bit in signature
		sig[r.Intn(64)] ^= 1 << uint(r.Intn(8))
	case 4: // flipped bit in message
		if len(msg) > 0 {
			msg[r.Intn(len(msg))] ^= 1 << uint(r.Intn(8))
		} else {
			msg = []byte{0}
		}
	case 5: // flipped bit in key
		pk = append([]byte{}, pk...)
		pk[r.Intn(32)] ^= 1 << uint(r.Intn(8))
	case 6: // s + L (non-canonical scalar)
		s := new(big.Int).SetBytes(c29Rev(sig[32:]))
		s.Add(s, c29EdL)
		copy(sig[32:], c29LE32(s))
	case 7: // wrong lengths
		switch r.Intn(3) {
		case 0:
			sig = sig[:63]
		case 1:
			sig = append(sig, 0)
		default:
			pk = pk[:31]
		}
	case 8, 9: // small-order A and R, small s: ZIP-215 accepts what cofactorless verification may not
		pk = vhUnhex(c29SmallOrder[r.Intn(len(c29SmallOrder))])
		rb := vhUnhex(c29SmallOrder[r.Intn(len(c29SmallOrder))])
		s := make([]byte, 32)
		if r.Bool() {
			s[0] = byte(r.Intn(4))
		}
		sig = append(append([]byte{}, rb...), s...)
	case 10: // honest key, small-order R, honest s
		rb := vhUnhex(c29SmallOrder[r.Intn(len(c29SmallOrder))])
		copy(sig[:32], rb)
	default: // random bytes
		pk = r.Bytes(32)
		sig = r.Bytes(64)
	}
	return "ed " + vhHex(pk) + " " + vhHex(msg) + " " + vhHex(sig)
}

func c29Rev(b []byte) []byte {
	o := make([]byte, len(b))
	for i := range b {
		o[len(b)-1-i] = b[i]
	}
	return o
}

func TestVerifC29Ed(t *testing.T) { vhMain(t, c29EdGen, c29EdRun) }
