//go:build verif

package secp256k1

import (
	"math/big"
	"strings"
	"testing"
)

var c29N, _ = new(big.Int).SetString("FFFFFFFFFFFFFFFFFFFFFFFFFFFFFFFEBAAEDCE6AF48A03BBFD25E8CD0364141", 16)

// ecv <pub> <msg> <sig64>      → ok | fail
// ecr <msg> <sig65>            → <64-byte pub hex> | err       (RecoverPublicKey)
// ecrc <msg> <sig65>           → <33-byte pub hex> | err       (RecoverPublicKeyCompressed)
func c29SkRun(line string) string {
	f := strings.Fields(line)
	switch {
	case len(f) == 4 && f[0] == "ecv":
		// both entry points must give the same verdict: the package-level function (used by the batch
		// verifier) and the PublicKey method (used by the host function and the keystore)
		a := "ok"
		if err := VerifySignature(vhUnhex(f[1]), vhUnhex(f[3]), vhUnhex(f[2])); err != nil {
			a = "fail"
		}
		b := "fail"
		pk := new(PublicKey)
		if err := pk.Decode(vhUnhex(f[1])); err == nil {
			if ok, err := pk.Verify(vhUnhex(f[2]), vhUnhex(f[3])); err == nil && ok {
				b = "ok"
			}
		}
		if a != b {
			return "paths-disagree fn=" + a + " method=" + b
		}
		return a
	case len(f) == 3 && f[0] == "ecr":
		pub, err := RecoverPublicKey(vhUnhex(f[1]), vhUnhex(f[2]))
		if err != nil {
			return "err"
		}
		// 65 bytes 0x04‖x‖y
		return vhHex(pub)
	case len(f) == 3 && f[0] == "ecrc":
		pub, err := RecoverPublicKeyCompressed(vhUnhex(f[1]), vhUnhex(f[2]))
		if err != nil {
			return "err"
		}
		return vhHex(pub)
	}
	return "bad-op"
}

func c29Pad32(n *big.Int) []byte {
	b := n.Bytes()
	out := make([]byte, 32)
	copy(out[32-len(b):], b)
	return out
}

func c29SkGen(r *vhRng) string {
	privb := r.Bytes(32)
	privb[0] &= 0x7f
	privb[31] |= 1
	priv, err := NewPrivateKey(privb)
	if err != nil {
		panic(err)
	}
	kp, err := NewKeypairFromPrivate(priv)
	if err != nil {
		panic(err)
	}
	msg := r.Bytes(32)
	sig, err := kp.Sign(msg)
	if err != nil {
		panic(err)
	}
	pub := kp.Public().Encode() // 33 bytes compressed
	mut := r.Intn(14)
	switch mut {
	case 0, 1, 2: // honest
	case 3:
		sig[r.Intn(64)] ^= 1 << uint(r.Intn(8))
	case 4:
		msg[r.Intn(32)] ^= 1 << uint(r.Intn(8))
	case 5: // high-s twin: s' = n - s, v' = v ^ 1  (valid ECDSA, malleable)
		s := new(big.Int).SetBytes(sig[32:64])
		s.Sub(c29N, s)
		copy(sig[32:64], c29Pad32(s))
		sig[64] ^= 1
	case 6: // recovery id variants
		switch r.Intn(3) {
		case 0:
			sig[64] = byte([]int{0, 1, 2, 3, 4, 26, 27, 28, 29, 30, 31, 255}[r.Intn(12)])
		case 1: // the honest id (or any id 0..3) plus a multiple of 27, over the whole byte range
			id := int(sig[64])
			if r.Bool() {
				id = r.Intn(4)
			}
			sig[64] = byte(id + 27*r.Intn(10))
		default:
			sig[64] = byte(r.Intn(256))
		}
	case 7: // r or s out of range / zero
		switch r.Intn(4) {
		case 0:
			copy(sig[0:32], c29Pad32(c29N))
		case 1:
			copy(sig[32:64], c29Pad32(c29N))
		case 2:
			copy(sig[0:32], make([]byte, 32))
		default:
			copy(sig[32:64], make([]byte, 32))
		}
	case 8: // wrong message length
		if r.Bool() {
			msg = msg[:31]
		} else {
			msg = append(msg, 0)
		}
	case 9: // wrong signature length
		switch r.Intn(3) {
		case 0:
			sig = sig[:64]
		case 1:
			sig = sig[:r.Intn(64)]
		default:
			sig = append(sig, 0)
		}
	case 10: // tampered public key
		pub = append([]byte{}, pub...)
		pub[1+r.Intn(32)] ^= 1 << uint(r.Intn(8))
	case 11: // +27 convention
		sig[64] += 27
	default:
		sig = r.Bytes(65)
		sig[64] = byte(r.Intn(4))
	}
	switch r.Intn(4) {
	case 0:
		s64 := sig
		if len(s64) > 64 && mut != 9 {
			s64 = sig[:64]
		}
		return "ecv " + vhHex(pub) + " " + vhHex(msg) + " " + vhHex(s64)
	case 1:
		return "ecrc " + vhHex(msg) + " " + vhHex(sig)
	default:
		return "ecr " + vhHex(msg) + " " + vhHex(sig)
	}
}

func TestVerifC29Sk(t *testing.T) { vhMain(t, c29SkGen, c29SkRun) }
