//go:build verif

package grandpa

// Harness of property C21 (the voter's vote choices and finalisation follow GRANDPA-GHOST).
//
// One case = a Service over a generated block tree (the real lib/blocktree.BlockTree behind an
// in-memory BlockState fake) that receives a sequence of vote messages through
// Service.validateVoteMessage (real ed25519 signatures) and stores its own votes; afterwards the
// tally functions are queried.  Because their results may depend on Go's map iteration order,
// every query is repeated many times and the SET of distinct outcomes is printed (sorted).
//
// line:  n=<voters> me=<key> base=<root number> tree=<p1,p2,..|-> fin=<blk> chg=<-|e|num> R=<round> S=<set>|<op>;<op>;...
//   tree   block 0 is the root; block i (i>=1) has parent p_i < i; header number = base + depth;
//          arrival time = index, so the best chain is the one of the deepest leaf, lowest index first
//   fin    the finalised head (Service.head)
//   chg    answer of NextGrandpaAuthorityChange: none, an error, or a block height
//   op     m <stage> <id> b<k>:<num> <sig> <mround|=> <mset|=>    vote message to validateVoteMessage
//          own <stage> b<k>                                          Service stores its own vote
//          thr <n>                                                   State.threshold() of n voters (alone on a line)
//   stage  pv | pc | pp (primary proposal) | x3 (undefined stage 3)
//   id     v<i> = cached key i (an authority iff i < n), x<j> = cached key 100+j
//   b<k>   block k of the tree; k >= size is a block nobody knows
//   sig    ok | bad<t> | z | r<q> | s<q> | kv<i>/kx<j> | st<stage> | ob<k>:<num>
// output: <class>;<class>;...|pv=.. pc=.. pve=.. pce=.. trk=N|tot=<pv totals>/<pc totals>|pvb={..} dpc={..} bfc={..} dpv={..} fin={..}

import (
	"encoding/json"
	"errors"
	"fmt"
	"sort"
	"strconv"
	"strings"
	"sync"
	"testing"
	"time"

	"github.com/ChainSafe/gossamer/dot/state"
	"github.com/ChainSafe/gossamer/dot/types"
	"github.com/ChainSafe/gossamer/internal/database"
	"github.com/ChainSafe/gossamer/internal/log"
	"github.com/ChainSafe/gossamer/lib/blocktree"
	"github.com/ChainSafe/gossamer/lib/common"
	"github.com/ChainSafe/gossamer/lib/crypto/ed25519"
	"github.com/ChainSafe/gossamer/lib/runtime"
	"github.com/ChainSafe/gossamer/pkg/scale"
	"github.com/libp2p/go-libp2p/core/peer"
)

// ---------------------------------------------------------------- fakes

var (
	c21ErrChg     = errors.New("c21: next authority change failed")
	c21ErrLag     = errors.New("c21: no finalised header for that round")
	c21ErrRuntime = errors.New("c21: no runtime")
	c21ErrSetID   = errors.New("c21: no set id")
)

type c21BlockState struct {
	BlockState // every method that is not overridden panics (nil interface)
	tree       *c21Tree
	finCalls   []string
	init       *c21Op // set while initiateRound runs
}

func (b *c21BlockState) GenesisHash() common.Hash { return b.tree.genesis }

func (b *c21BlockState) HasHeader(h common.Hash) (bool, error) {
	_, ok := b.tree.index[h]
	return ok, nil
}

func (b *c21BlockState) GetHeader(h common.Hash) (*types.Header, error) {
	if i, ok := b.tree.index[h]; ok {
		return b.tree.headers[i], nil
	}
	return nil, fmt.Errorf("c21 header: %w", database.ErrNotFound)
}

func (b *c21BlockState) GetHeaderByNumber(num uint) (*types.Header, error) {
	h, err := b.tree.bt.GetHashByNumber(num)
	if err != nil {
		return nil, err
	}
	return b.GetHeader(h)
}

func (b *c21BlockState) IsDescendantOf(parent, child common.Hash) (bool, error) {
	return b.tree.bt.IsDescendantOf(parent, child)
}

func (b *c21BlockState) LowestCommonAncestor(x, y common.Hash) (common.Hash, error) {
	return b.tree.bt.LowestCommonAncestor(x, y)
}

func (b *c21BlockState) BestBlockHeader() (*types.Header, error) {
	return b.GetHeader(b.tree.bt.BestBlockHash())
}

func (b *c21BlockState) BestBlockHash() common.Hash { return b.tree.bt.BestBlockHash() }

// GetFinalisedHeader answers only while an `init` op runs initiateRound; a lagging vote message gets an error.
func (b *c21BlockState) GetFinalisedHeader(round, setID uint64) (*types.Header, error) {
	if b.init != nil {
		return b.tree.headers[b.init.head], nil
	}
	return nil, c21ErrLag
}

func (b *c21BlockState) GetHighestRoundAndSetID() (uint64, uint64, error) {
	if b.init == nil {
		return 0, 0, c21ErrLag
	}
	return uint64(b.init.hr), uint64(b.init.hs), nil
}

func (b *c21BlockState) GetRuntime(common.Hash) (runtime.Instance, error) { return nil, c21ErrRuntime }

func (b *c21BlockState) SetJustification(common.Hash, []byte) error { return nil }

func (b *c21BlockState) SetFinalisedHash(h common.Hash, round, setID uint64) error {
	b.finCalls = append(b.finCalls, fmt.Sprintf("%s:%d:%d", b.tree.name(h), round, setID))
	return nil
}

type c21GrandpaState struct {
	GrandpaState
	chg  string
	init *c21Op // the answers of the last `init` op
}

func (g *c21GrandpaState) GetAuthorities(setID uint64) ([]types.GrandpaVoter, error) {
	if g.init == nil || setID != uint64(g.init.cur) {
		return nil, c21ErrSetID
	}
	vs := make([]types.GrandpaVoter, len(g.init.auths))
	for i, k := range g.init.auths {
		vs[i] = Voter{Key: *c21Key(k).Public().(*ed25519.PublicKey), ID: uint64(i)}
	}
	return vs, nil
}

func (g *c21GrandpaState) GetLatestRound() (uint64, error) { return 0, c21ErrSetID }

func (g *c21GrandpaState) NextGrandpaAuthorityChange(common.Hash, uint) (uint, error) {
	switch g.chg {
	case "-":
		return 0, fmt.Errorf("c21: %w", state.ErrNoNextAuthorityChange)
	case "e":
		return 0, c21ErrChg
	}
	v, _ := strconv.Atoi(g.chg)
	return uint(v), nil
}

func (g *c21GrandpaState) GetCurrentSetID() (uint64, error) {
	if g.init == nil {
		return 0, c21ErrSetID
	}
	return uint64(g.init.cur), nil
}
func (g *c21GrandpaState) SetPrevotes(_, _ uint64, _ []SignedVote) error   { return nil }
func (g *c21GrandpaState) SetPrecommits(_, _ uint64, _ []SignedVote) error { return nil }
func (g *c21GrandpaState) SetLatestRound(uint64) error                     { return nil }

type c21Telemetry struct{}

func (c21Telemetry) SendMessage(json.Marshaler) {}

// ---------------------------------------------------------------- cached keys and trees

var (
	c21Mu    sync.Mutex
	c21Keys  = map[int]*ed25519.Keypair{}
	c21Trees = map[string]*c21Tree{}
)

func c21Key(i int) *ed25519.Keypair {
	c21Mu.Lock()
	defer c21Mu.Unlock()
	if k, ok := c21Keys[i]; ok {
		return k
	}
	seed := make([]byte, 32)
	copy(seed, fmt.Sprintf("c21-key-%d", i))
	k, err := ed25519.NewKeypairFromSeed(seed)
	if err != nil {
		panic(err)
	}
	c21Keys[i] = k
	return k
}

func c21Pub(i int) ed25519.PublicKeyBytes {
	return c21Key(i).Public().(*ed25519.PublicKey).AsBytes()
}

type c21Tree struct {
	headers []*types.Header
	parents []int
	index   map[common.Hash]int
	bt      *blocktree.BlockTree
	genesis common.Hash
}

func (t *c21Tree) name(h common.Hash) string {
	if i, ok := t.index[h]; ok {
		return "b" + strconv.Itoa(i)
	}
	return "?"
}

func c21UnknownHash(k int) common.Hash {
	h, _ := common.Blake2bHash([]byte(fmt.Sprintf("c21-unknown-block-%d", k)))
	return h
}

func (t *c21Tree) hash(k int) common.Hash {
	if k < len(t.headers) {
		return t.headers[k].Hash()
	}
	return c21UnknownHash(k)
}

// c21BuildTree returns nil when the description is malformed.
func c21BuildTree(desc string, base int) *c21Tree {
	c21Mu.Lock()
	defer c21Mu.Unlock()
	key := desc + "@" + strconv.Itoa(base)
	if t, ok := c21Trees[key]; ok {
		return t
	}
	var parents []int
	if desc != "-" {
		for i, s := range strings.Split(desc, ",") {
			p, err := strconv.Atoi(s)
			if err != nil || p < 0 || p > i || s != strconv.Itoa(p) {
				return nil
			}
			parents = append(parents, p)
		}
	}
	if len(parents) > 15 {
		return nil
	}
	t := &c21Tree{parents: parents, index: map[common.Hash]int{}}
	salt := func(i int) common.Hash {
		h, _ := common.Blake2bHash([]byte(fmt.Sprintf("c21-block-%d", i)))
		return h
	}
	// every block is a BABE secondary-slot block: the fork choice of lib/blocktree then prefers the
	// deepest leaf and, among equally deep ones, the one that arrived first
	digest := func(i int) types.Digest {
		d := types.NewDigest()
		bd := types.NewBabeDigest()
		if err := bd.SetValue(types.BabeSecondaryPlainPreDigest{AuthorityIndex: uint32(i), SlotNumber: uint64(i)}); err != nil {
			panic(err)
		}
		enc, err := scale.Marshal(bd)
		if err != nil {
			panic(err)
		}
		if err := d.Add(types.PreRuntimeDigest{ConsensusEngineID: types.BabeEngineID, Data: enc}); err != nil {
			panic(err)
		}
		return d
	}
	root := types.NewHeader(common.Hash{}, salt(0), common.Hash{}, uint(base), digest(0))
	t.headers = append(t.headers, root)
	for i, p := range parents {
		ph := t.headers[p]
		t.headers = append(t.headers, types.NewHeader(ph.Hash(), salt(i+1), common.Hash{}, ph.Number+1, digest(i+1)))
	}
	t.bt = blocktree.NewBlockTreeFromRoot(root)
	t0 := time.Unix(1_700_000_000, 0)
	for i, h := range t.headers {
		t.index[h.Hash()] = i
		if i > 0 {
			if err := t.bt.AddBlock(h, t0.Add(time.Duration(i)*time.Second)); err != nil {
				panic(err)
			}
		}
	}
	t.genesis = root.Hash()
	if base > 0 {
		t.genesis, _ = common.Blake2bHash([]byte("c21-genesis"))
	}
	if len(c21Trees) < 50000 {
		c21Trees[key] = t
	}
	return t
}

// ---------------------------------------------------------------- parsing

type c21Case struct {
	n, me, base, fin, round, set int
	chg                          string
	tree                         *c21Tree
	ops                          []c21Op
}

type c21Op struct {
	kind        string // m | own
	stage       int
	key         int
	blk, num    int
	sig         string
	mround      int // -1: the Service's current round
	mset        int // -1: the Service's current set id
	cur, hr, hs int // init: GetCurrentSetID, GetHighestRoundAndSetID
	head        int // init: block of GetFinalisedHeader
	auths       []int
}

func c21Num(s string) (int, bool) {
	v, err := strconv.Atoi(s)
	if err != nil || v < 0 || s != strconv.Itoa(v) {
		return 0, false
	}
	return v, true
}

func c21ParseKey(s string) (int, bool) {
	if len(s) < 2 {
		return 0, false
	}
	v, ok := c21Num(s[1:])
	if !ok || v > 99 {
		return 0, false
	}
	switch s[0] {
	case 'v':
		return v, true
	case 'x':
		return 100 + v, true
	}
	return 0, false
}

func c21ParseVote(s string) (blk, num int, ok bool) {
	if !strings.HasPrefix(s, "b") {
		return 0, 0, false
	}
	parts := strings.Split(s[1:], ":")
	if len(parts) != 2 {
		return 0, 0, false
	}
	blk, ok1 := c21Num(parts[0])
	num, ok2 := c21Num(parts[1])
	return blk, num, ok1 && ok2 && blk < 1000 && num < 1000000
}

func c21ParseStage(s string) (int, bool) {
	switch s {
	case "pv":
		return 0, true
	case "pc":
		return 1, true
	case "pp":
		return 2, true
	case "x3":
		return 3, true
	}
	return 0, false
}

func c21SigOK(s string) bool {
	switch {
	case s == "ok" || s == "z":
		return true
	case strings.HasPrefix(s, "bad"):
		v, ok := c21Num(s[3:])
		return ok && v < 8
	case strings.HasPrefix(s, "st"):
		_, ok := c21ParseStage(s[2:])
		return ok
	case strings.HasPrefix(s, "r") || strings.HasPrefix(s, "s"):
		_, ok := c21Num(s[1:])
		return ok
	case strings.HasPrefix(s, "k"):
		_, ok := c21ParseKey(s[1:])
		return ok
	case strings.HasPrefix(s, "o"):
		_, _, ok := c21ParseVote(s[1:])
		return ok
	}
	return false
}

func c21IsAnc(parents []int, a, d int) bool {
	for {
		if a == d {
			return true
		}
		if d == 0 {
			return false
		}
		d = parents[d-1]
	}
}

func c21Parse(line string) (*c21Case, bool) {
	bar := strings.IndexByte(line, '|')
	if bar < 0 {
		return nil, false
	}
	c := &c21Case{}
	seen := map[string]bool{}
	treeDesc := ""
	for _, tok := range strings.Fields(line[:bar]) {
		eq := strings.IndexByte(tok, '=')
		if eq < 0 {
			return nil, false
		}
		k, v := tok[:eq], tok[eq+1:]
		if seen[k] {
			return nil, false
		}
		seen[k] = true
		var ok bool
		switch k {
		case "n":
			c.n, ok = c21Num(v)
			ok = ok && c.n >= 1 && c.n <= 16
		case "me":
			c.me, ok = c21ParseKey(v)
			ok = ok && (c.me < 16 || (c.me >= 100 && c.me < 104))
		case "base":
			c.base, ok = c21Num(v)
			ok = ok && c.base <= 1000
		case "tree":
			treeDesc, ok = v, true
		case "fin":
			c.fin, ok = c21Num(v)
		case "chg":
			c.chg = v
			if v == "-" || v == "e" {
				ok = true
			} else {
				var x int
				x, ok = c21Num(v)
				ok = ok && x <= 2000
			}
		case "R":
			c.round, ok = c21Num(v)
			ok = ok && c.round <= 1000
		case "S":
			c.set, ok = c21Num(v)
			ok = ok && c.set <= 1000
		}
		if !ok {
			return nil, false
		}
	}
	if len(seen) != 8 {
		return nil, false
	}
	c.tree = c21BuildTree(treeDesc, c.base)
	if c.tree == nil || c.fin >= len(c.tree.headers) {
		return nil, false
	}
	body := line[bar+1:]
	if strings.TrimSpace(body) != "" {
		for _, e := range strings.Split(body, ";") {
			f := strings.Fields(e)
			var op c21Op
			var ok bool
			switch {
			case len(f) == 7 && f[0] == "m":
				op.kind = "m"
				if op.stage, ok = c21ParseStage(f[1]); !ok {
					return nil, false
				}
				if op.key, ok = c21ParseKey(f[2]); !ok {
					return nil, false
				}
				if op.blk, op.num, ok = c21ParseVote(f[3]); !ok {
					return nil, false
				}
				op.sig = f[4]
				if !c21SigOK(op.sig) {
					return nil, false
				}
				op.mround, op.mset = -1, -1
				if f[5] != "=" {
					if op.mround, ok = c21Num(f[5]); !ok || op.mround > 1000 {
						return nil, false
					}
				}
				if f[6] != "=" {
					if op.mset, ok = c21Num(f[6]); !ok || op.mset > 1000 {
						return nil, false
					}
				}
			case len(f) == 3 && f[0] == "own":
				op.kind = "own"
				if op.stage, ok = c21ParseStage(f[1]); !ok || op.stage > 1 {
					return nil, false
				}
				var num int
				if op.blk, num, ok = c21ParseVote(f[2] + ":0"); !ok || num != 0 {
					return nil, false
				}
			case len(f) == 6 && f[0] == "init":
				op.kind = "init"
				var ok1, ok2, ok3 bool
				op.cur, ok1 = c21Num(f[1])
				op.hr, ok2 = c21Num(f[3])
				op.hs, ok3 = c21Num(f[4])
				if !ok1 || !ok2 || !ok3 || op.cur > 1000 || op.hr > 1000 || op.hs > 1000 {
					return nil, false
				}
				for _, a := range strings.Split(f[2], ",") {
					k, ok := c21ParseKey(a)
					if !ok || !(k < 16 || (k >= 100 && k < 104)) {
						return nil, false
					}
					op.auths = append(op.auths, k)
				}
				var num int
				if op.head, num, ok = c21ParseVote(f[5] + ":0"); !ok || num != 0 || op.head >= len(c.tree.headers) {
					return nil, false
				}
				if len(op.auths) < 1 || len(op.auths) > 16 {
					return nil, false
				}
			default:
				return nil, false
			}
			c.ops = append(c.ops, op)
		}
	}
	return c, true
}

// c21Sign makes the signature bytes a message descriptor stands for.
func c21Sign(c *c21Case, e c21Op) [64]byte {
	key, stage, blk, num, round, set := e.key, e.stage, e.blk, e.num, e.mround, e.mset
	tamper := -1
	s := e.sig
	switch {
	case s == "ok":
	case s == "z":
		return [64]byte{}
	case strings.HasPrefix(s, "bad"):
		tamper, _ = c21Num(s[3:])
	case strings.HasPrefix(s, "st"):
		stage, _ = c21ParseStage(s[2:])
	case strings.HasPrefix(s, "r"):
		round, _ = c21Num(s[1:])
	case strings.HasPrefix(s, "s"):
		set, _ = c21Num(s[1:])
	case strings.HasPrefix(s, "k"):
		key, _ = c21ParseKey(s[1:])
	case strings.HasPrefix(s, "o"):
		blk, num, _ = c21ParseVote(s[1:])
	}
	msg, err := scale.Marshal(FullVote{
		Stage: Subround(stage),
		Vote:  Vote{Hash: c.tree.hash(blk), Number: uint32(num)},
		Round: uint64(round),
		SetID: uint64(set),
	})
	if err != nil {
		panic(err)
	}
	sig, err := c21Key(key).Sign(msg)
	if err != nil {
		panic(err)
	}
	var out [64]byte
	copy(out[:], sig)
	if tamper >= 0 {
		out[(tamper*9)%64] ^= 1 << uint(tamper%8)
	}
	return out
}

func c21Class(err error) string {
	switch {
	case err == nil:
		return "ok"
	case errors.Is(err, ErrInvalidSignature):
		return "err-sig"
	case errors.Is(err, ErrSetIDMismatch):
		return "err-set"
	case errors.Is(err, errRoundOutOfBounds):
		return "err-oob"
	case errors.Is(err, c21ErrLag):
		return "err-lag"
	case errors.Is(err, errRoundsMismatch):
		return "err-ahead"
	case errors.Is(err, ErrVoterNotFound):
		return "err-voter"
	case errors.Is(err, errVoteFromSelf):
		return "err-self"
	case errors.Is(err, ErrBlockDoesNotExist):
		return "err-noblock"
	case errors.Is(err, errVoteBlockMismatch):
		return "err-notdesc"
	case errors.Is(err, ErrBlockNumbersMismatch), errors.Is(err, ErrBlockHashMismatch):
		return "err-num"
	case errors.Is(err, ErrEquivocation):
		return "err-equiv"
	case errors.Is(err, ErrNoGHOST):
		return "err-noghost"
	case errors.Is(err, errBeforeFinalizedBlock):
		return "err-before"
	case errors.Is(err, c21ErrChg):
		return "err-chg"
	case errors.Is(err, blocktree.ErrNumGreaterThanHighest), errors.Is(err, blocktree.ErrNumLowerThanRoot):
		return "err-bynum"
	case errors.Is(err, blocktree.ErrNodeNotFound), errors.Is(err, blocktree.ErrStartNodeNotFound),
		errors.Is(err, blocktree.ErrEndNodeNotFound):
		return "err-node"
	case errors.Is(err, database.ErrNotFound):
		return "err-hdr"
	}
	return "err-other"
}

func c21Set(m map[string]bool) string {
	keys := make([]string, 0, len(m))
	for k := range m {
		keys = append(keys, k)
	}
	sort.Strings(keys)
	return "{" + strings.Join(keys, ",") + "}"
}

func c21KeyName(k ed25519.PublicKeyBytes, n int) string {
	for i := 0; i < 16; i++ {
		if c21Pub(i) == k {
			return "v" + strconv.Itoa(i)
		}
	}
	for j := 0; j < 4; j++ {
		if c21Pub(100+j) == k {
			return "x" + strconv.Itoa(j)
		}
	}
	return "?"
}

func c21Run(line string) string {
	if f := strings.Fields(line); len(f) == 2 && f[0] == "thr" { // ties State.threshold to the model's `thr`
		n, ok := c21Num(f[1])
		if !ok || n > 100000 {
			return "bad-op"
		}
		return strconv.FormatUint((&State{voters: make([]Voter, n)}).threshold(), 10)
	}
	c, ok := c21Parse(line)
	if !ok {
		return "bad-op"
	}
	t := c.tree
	voters := make([]Voter, c.n)
	for i := range voters {
		voters[i] = Voter{Key: *c21Key(i).Public().(*ed25519.PublicKey), ID: uint64(i)}
	}
	newSvc := func(prev *Service) (*Service, *c21BlockState) {
		bs := &c21BlockState{tree: t}
		svc := &Service{
			blockState:         bs,
			grandpaState:       &c21GrandpaState{chg: c.chg},
			keypair:            c21Key(c.me),
			state:              NewState(voters, uint64(c.set), uint64(c.round)),
			prevotes:           new(sync.Map),
			precommits:         new(sync.Map),
			pvEquivocations:    make(map[ed25519.PublicKeyBytes][]*SignedVote),
			pcEquivocations:    make(map[ed25519.PublicKeyBytes][]*SignedVote),
			preVotedBlock:      make(map[uint64]*Vote),
			bestFinalCandidate: make(map[uint64]*Vote),
			head:               t.headers[c.fin],
			telemetry:          c21Telemetry{},
		}
		if prev != nil { // the votes are only read by the queries
			svc.state = NewState(prev.state.voters, prev.state.setID, prev.state.round)
			svc.head = prev.head
			svc.grandpaState = &c21GrandpaState{chg: c.chg, init: prev.grandpaState.(*c21GrandpaState).init}
			svc.prevotes, svc.precommits = prev.prevotes, prev.precommits
			svc.pvEquivocations, svc.pcEquivocations = prev.pvEquivocations, prev.pcEquivocations
			svc.tracker = prev.tracker
		} else {
			svc.tracker = &tracker{votes: newVotesTracker(1000), commits: newCommitsTracker(8)}
		}
		return svc, bs
	}
	svc, _ := newSvc(nil)

	var res []string
	for _, op := range c.ops {
		switch op.kind {
		case "init":
			op := op
			bs := svc.blockState.(*c21BlockState)
			gst := svc.grandpaState.(*c21GrandpaState)
			bs.init, gst.init = &op, &op
			err := svc.initiateRound()
			bs.init = nil
			if err != nil {
				res = append(res, c21Class(err))
				break
			}
			vs := make([]string, len(svc.state.voters))
			for i, v := range svc.state.voters {
				vs[i] = c21KeyName(v.Key.AsBytes(), 0)
			}
			res = append(res, fmt.Sprintf("init:%d:%d:%s:%s", svc.state.setID, svc.state.round, t.name(svc.head.Hash()),
				strings.Join(vs, ",")))
		case "own":
			// the Service only votes for blocks it knows on the chain of its finalised head
			if op.blk >= len(t.headers) || !c21IsAnc(t.parents, t.index[svc.head.Hash()], op.blk) {
				res = append(res, "skip")
				break
			}
			sv := &SignedVote{
				Vote:        Vote{Hash: t.hash(op.blk), Number: uint32(t.headers[op.blk].Number)},
				AuthorityID: c21Pub(c.me),
			}
			if op.stage == 0 {
				svc.prevotes.Store(c21Pub(c.me), sv)
			} else {
				svc.precommits.Store(c21Pub(c.me), sv)
			}
			res = append(res, "ok")
		case "m":
			if op.mround < 0 {
				op.mround = int(svc.state.round)
			}
			if op.mset < 0 {
				op.mset = int(svc.state.setID)
			}
			msg := &VoteMessage{
				Round: uint64(op.mround),
				SetID: uint64(op.mset),
				Message: SignedMessage{
					Stage:       Subround(op.stage),
					BlockHash:   t.hash(op.blk),
					Number:      uint32(op.num),
					Signature:   c21Sign(c, op),
					AuthorityID: c21Pub(op.key),
				},
			}
			v, err := svc.validateVoteMessage(peer.ID("c21-peer"), msg)
			cl := c21Class(err)
			if (v == nil) != (err != nil) {
				cl += "+vote-mismatch"
			}
			res = append(res, cl)
		}
	}

	// ---- the tallies as stored
	dump := func(m *sync.Map) string {
		var es []string
		m.Range(func(k, v interface{}) bool {
			sv := v.(*SignedVote)
			es = append(es, fmt.Sprintf("%s:%s:%d", c21KeyName(k.(ed25519.PublicKeyBytes), c.n), t.name(sv.Vote.Hash), sv.Vote.Number))
			return true
		})
		sort.Strings(es)
		return "{" + strings.Join(es, ",") + "}"
	}
	dumpEq := func(m map[ed25519.PublicKeyBytes][]*SignedVote) string {
		var es []string
		for k, vs := range m {
			es = append(es, fmt.Sprintf("%s:%d", c21KeyName(k, c.n), len(vs)))
		}
		sort.Strings(es)
		return "{" + strings.Join(es, ",") + "}"
	}
	stateStr := fmt.Sprintf("pv=%s pc=%s pve=%s pce=%s trk=%d", dump(svc.prevotes), dump(svc.precommits),
		dumpEq(svc.pvEquivocations), dumpEq(svc.pcEquivocations), svc.tracker.votes.linkedList.Len())

	var totPv, totPc []string
	for k := range t.headers {
		a, err1 := svc.getTotalVotesForBlock(t.hash(k), prevote)
		b, err2 := svc.getTotalVotesForBlock(t.hash(k), precommit)
		if err1 != nil || err2 != nil {
			totPv, totPc = append(totPv, "e"), append(totPc, "e")
			continue
		}
		totPv, totPc = append(totPv, strconv.FormatUint(a, 10)), append(totPc, strconv.FormatUint(b, 10))
	}

	// ---- queries, repeated because Go's map iteration order is random
	voteStr := func(v *Vote, err error) string {
		if err != nil {
			return c21Class(err)
		}
		return fmt.Sprintf("%s:%d", t.name(v.Hash), v.Number)
	}
	k1 := vhEnvInt("VERIF_C21_K", 128)
	pvb, dpc, bfc, dpv, fin := map[string]bool{}, map[string]bool{}, map[string]bool{}, map[string]bool{}, map[string]bool{}
	for i := 0; i < k1; i++ {
		v, err := svc.getPreVotedBlock()
		pvb[voteStr(&v, err)] = true
		p, err := svc.determinePreCommit()
		dpc[voteStr(p, err)] = true
		b, err := svc.getBestFinalCandidate()
		bfc[voteStr(b, err)] = true
	}
	for i := 0; i < 4; i++ {
		p, err := svc.determinePreVote()
		dpv[voteStr(p, err)] = true
	}
	k2 := 24
	if len(pvb) > 1 {
		k2 = vhEnvInt("VERIF_C21_K2", 1000)
	}
	for i := 0; i < k2; i++ {
		s2, bs2 := newSvc(svc)
		okFin, err := s2.attemptToFinalize()
		out := "no"
		switch {
		case err != nil:
			out = c21Class(err)
		case okFin:
			out = "yes:" + strings.Join(bs2.finCalls, "+") + ":head=" + t.name(s2.head.Hash())
		}
		if !okFin && len(bs2.finCalls) > 0 {
			out += "+fin:" + strings.Join(bs2.finCalls, "+")
		}
		fin[out] = true
	}
	pvbStr, dpcStr, bfcStr, finStr := c21Set(pvb), c21Set(dpc), c21Set(bfc), c21Set(fin)
	if 3*len(svc.pcEquivocations) > len(svc.state.voters) {
		// more than one third of the authorities equivocated in their precommits: blocks on different forks can
		// have a supermajority at the same time and the candidate depends on the order in which the votes are
		// visited; the property says nothing about that region, the outcome is not compared
		bfcStr, finStr = "byz", "byz"
	}
	// a stored vote whose number is not its block's number (validateVote does not compare them: known finding
	// c21-wrong-number-vote-counted) makes the tallies depend on the map iteration order in ways no bounded
	// number of repetitions enumerates; the order-dependent outcomes are not compared in that region
	wrongNum := func(m *sync.Map) bool {
		bad := false
		m.Range(func(_, v interface{}) bool {
			sv := v.(*SignedVote)
			if i, ok := t.index[sv.Vote.Hash]; !ok || uint(sv.Vote.Number) != t.headers[i].Number {
				bad = true
			}
			return true
		})
		return bad
	}
	wv := wrongNum(svc.prevotes)
	if wv {
		pvbStr, dpcStr = "wn", "wn"
	}
	if wv || wrongNum(svc.precommits) {
		bfcStr, finStr = "wn", "wn"
	}
	return fmt.Sprintf("%s|%s|tot=%s/%s|pvb=%s dpc=%s bfc=%s dpv=%s fin=%s", strings.Join(res, ";"), stateStr,
		strings.Join(totPv, ","), strings.Join(totPc, ","), pvbStr, dpcStr, bfcStr, c21Set(dpv), finStr)
}

// ---------------------------------------------------------------- generator (first version: random)

func c21GenTree(r *vhRng) (string, []int) {
	size := 1 + r.Intn(8)
	parents := make([]int, 0, size)
	strs := make([]string, 0, size)
	for i := 1; i < size; i++ {
		p := i - 1
		if r.Chance(2, 5) {
			p = r.Intn(i)
		}
		parents = append(parents, p)
		strs = append(strs, strconv.Itoa(p))
	}
	if len(strs) == 0 {
		return "-", parents
	}
	return strings.Join(strs, ","), parents
}

func c21Depth(parents []int, b int) int {
	d := 0
	for b > 0 {
		b = parents[b-1]
		d++
	}
	return d
}

// c21GenDense concentrates on the tallies: every authority prevotes and most precommit, the votes cluster in
// the subtree of a focus block (so that common ancestors with a supermajority appear), some voters vote for
// ancestors of the focus (a directly voted block below the GHOST), some equivocate; no malformed messages.
func c21GenDense(r *vhRng) string {
	n := r.Pick(3, 4, 4, 5, 6, 7, 7)
	size := 2 + r.Intn(7)
	parents := make([]int, 0, size)
	strs := make([]string, 0, size)
	for i := 1; i < size; i++ {
		p := i - 1
		if r.Chance(1, 2) {
			p = r.Intn(i)
		}
		parents = append(parents, p)
		strs = append(strs, strconv.Itoa(p))
	}
	base := r.Pick(0, 0, 1)
	me := fmt.Sprintf("v%d", n+1)
	if r.Chance(1, 4) {
		me = fmt.Sprintf("v%d", r.Intn(n))
	}
	meIdx, _ := c21ParseKey(me)
	chg := "-"
	if r.Chance(1, 3) {
		chg = strconv.Itoa(base + r.Intn(4))
	}
	round := r.Pick(1, 1, 2, 5)
	vote := func(b int) string { return fmt.Sprintf("b%d:%d", b, base+c21Depth(parents, b)) }
	var ops []string
	for _, st := range []string{"pv", "pc"} {
		focus := r.Intn(size)
		var under, above []int
		for b := 0; b < size; b++ {
			if c21IsAnc(parents, focus, b) {
				under = append(under, b)
			} else if c21IsAnc(parents, b, focus) {
				above = append(above, b)
			}
		}
		pick := func() int {
			switch x := r.Intn(20); {
			case x < 13:
				return under[r.Intn(len(under))]
			case x < 17 && len(above) > 0:
				return above[r.Intn(len(above))]
			default:
				return r.Intn(size)
			}
		}
		voters := n
		if st == "pc" {
			voters = r.Pick(0, n/2, 2*n/3, 2*n/3+1, n, n)
		}
		perm := make([]int, n)
		for i := range perm {
			perm[i] = i
		}
		for i := n - 1; i > 0; i-- {
			j := r.Intn(i + 1)
			perm[i], perm[j] = perm[j], perm[i]
		}
		for _, a := range perm[:voters] {
			if a == meIdx {
				ops = append(ops, fmt.Sprintf("own %s b%d", st, pick()))
				continue
			}
			ops = append(ops, fmt.Sprintf("m %s v%d %s ok = =", st, a, vote(pick())))
		}
		eq := r.Pick(0, 0, 0, 1, 1, 2, n/3, n/3+1)
		for k := 0; k < eq; k++ {
			a := r.Intn(n)
			ops = append(ops, fmt.Sprintf("m %s v%d %s ok = =", st, a, vote(r.Intn(size))))
		}
	}
	if r.Chance(1, 3) {
		for i := len(ops) - 1; i > 0; i-- {
			j := r.Intn(i + 1)
			ops[i], ops[j] = ops[j], ops[i]
		}
	}
	return fmt.Sprintf("n=%d me=%s base=%d tree=%s fin=0 chg=%s R=%d S=0|%s",
		n, me, base, strings.Join(strs, ","), chg, round, strings.Join(ops, ";"))
}

// c21GenSetChange: votes in one authority set, an authority-set change through initiateRound (members leave and
// join, or the same members in another order, or no new set id at all), then votes of removed, surviving and new
// authorities for the new set id and for the old one.
func c21GenSetChange(r *vhRng) string {
	n := r.Pick(2, 3, 4, 4, 5, 6)
	size := 2 + r.Intn(6)
	parents := make([]int, 0, size)
	strs := make([]string, 0, size)
	for i := 1; i < size; i++ {
		p := i - 1
		if r.Chance(1, 3) {
			p = r.Intn(i)
		}
		parents = append(parents, p)
		strs = append(strs, strconv.Itoa(p))
	}
	base := r.Pick(0, 0, 1)
	me := fmt.Sprintf("v%d", r.Intn(n))
	if r.Chance(1, 3) {
		me = "v15"
	}
	set := r.Intn(3)
	set0 := set
	round := r.Pick(1, 1, 2, 3)
	vote := func(b int) string { return fmt.Sprintf("b%d:%d", b, base+c21Depth(parents, b)) }
	stage := func() string { return []string{"pv", "pv", "pv", "pc", "pc", "pp"}[r.Intn(6)] }
	var ops []string
	phase := func(keys []int, k int, setTok func() string) {
		for i := 0; i < k; i++ {
			key := keys[r.Intn(len(keys))]
			id := fmt.Sprintf("v%d", key)
			if key >= 100 {
				id = fmt.Sprintf("x%d", key-100)
			}
			if id == me && r.Chance(2, 3) {
				ops = append(ops, fmt.Sprintf("own %s b%d", []string{"pv", "pc"}[r.Intn(2)], r.Intn(size)))
				continue
			}
			ops = append(ops, fmt.Sprintf("m %s %s %s ok = %s", stage(), id, vote(r.Intn(size)), setTok()))
		}
	}
	cur := make([]int, n)
	for i := range cur {
		cur[i] = i
	}
	all := append([]int{}, cur...)
	phase(cur, r.Intn(2*n+1), func() string { return "=" })
	changes := 1 + r.Intn(2)
	for ch := 0; ch < changes; ch++ {
		next := append([]int{}, cur...)
		newSet := set + 1
		switch r.Intn(6) {
		case 0: // the same members in another order
		case 1: // no new set id: only the round moves on
			newSet = set
		default:
			rm := r.Intn(len(next))
			if len(next) > 1 && r.Chance(3, 4) {
				next = append(next[:rm], next[rm+1:]...)
			}
			for a := r.Intn(3); a > 0; a-- {
				k := r.Pick(6, 7, 8, 9, 100, 101)
				dup := false
				for _, x := range next {
					dup = dup || x == k
				}
				if !dup {
					next = append(next, k)
				}
			}
		}
		if r.Chance(2, 3) {
			for i := len(next) - 1; i > 0; i-- {
				j := r.Intn(i + 1)
				next[i], next[j] = next[j], next[i]
			}
		}
		names := make([]string, len(next))
		for i, k := range next {
			names[i] = fmt.Sprintf("v%d", k)
			if k >= 100 {
				names[i] = fmt.Sprintf("x%d", k-100)
			}
		}
		hr := r.Pick(0, 0, 0, 1, round+1)
		hs := r.Pick(newSet, newSet, newSet, 0, newSet+1)
		head := 0
		if r.Chance(1, 3) {
			head = r.Intn(size)
		}
		ops = append(ops, fmt.Sprintf("init %d %s %d %d b%d", newSet, strings.Join(names, ","), hr, hs, head))
		oldSet := set
		if newSet != set {
			cur = next
		}
		set = newSet
		if hs > set {
			set = hs
		}
		all = append(all, cur...)
		all = append(all, 15, 100) // sometimes a key that never was an authority
		phase(all, 2+r.Intn(2*n+2), func() string {
			switch r.Intn(6) {
			case 0:
				return strconv.Itoa(oldSet)
			case 1:
				return strconv.Itoa(set + 1)
			}
			return "="
		})
	}
	return fmt.Sprintf("n=%d me=%s base=%d tree=%s fin=0 chg=- R=%d S=%d|%s",
		n, me, base, strings.Join(strs, ","), round, set0, strings.Join(ops, ";"))
}

func c21Gen(r *vhRng) string {
	if r.Chance(1, 200) {
		return fmt.Sprintf("thr %d", r.Intn(200))
	}
	if r.Chance(1, 4) {
		return c21GenSetChange(r)
	}
	if r.Chance(1, 2) {
		return c21GenDense(r)
	}
	n := r.Pick(1, 2, 3, 3, 4, 4, 4, 5, 6, 7, 7)
	treeStr, parents := c21GenTree(r)
	size := len(parents) + 1
	base := r.Pick(0, 0, 0, 1, 5)
	fin := 0
	if r.Chance(1, 5) {
		fin = r.Intn(size)
	}
	me := "v0"
	switch {
	case r.Chance(1, 10):
		me = fmt.Sprintf("v%d", n+r.Intn(2))
	case r.Chance(1, 2):
		me = fmt.Sprintf("v%d", r.Intn(n))
	}
	meIdx, _ := c21ParseKey(me)
	maxDepth := 0
	for b := 0; b < size; b++ {
		if d := c21Depth(parents, b); d > maxDepth {
			maxDepth = d
		}
	}
	chg := "-"
	switch {
	case r.Chance(1, 3):
		chg = strconv.Itoa(base + r.Intn(maxDepth+2))
	case r.Chance(1, 40):
		chg = "e"
	case r.Chance(1, 40) && base > 0:
		chg = strconv.Itoa(r.Intn(base))
	}
	round := r.Pick(0, 1, 1, 2, 3, 7)
	set := r.Intn(3)

	var desc []int // blocks on the finalised head's subtree
	for b := 0; b < size; b++ {
		if c21IsAnc(parents, fin, b) {
			desc = append(desc, b)
		}
	}
	vote := func(b int) string {
		num := 0
		if b < size {
			num = base + c21Depth(parents, b)
		} else {
			num = base + r.Intn(4)
		}
		return fmt.Sprintf("b%d:%d", b, num)
	}
	pickDesc := func() int { return desc[r.Intn(len(desc))] }
	// a focus block makes supermajorities likely: most voters vote in its subtree
	focus := pickDesc()
	var under []int
	for _, b := range desc {
		if c21IsAnc(parents, focus, b) {
			under = append(under, b)
		}
	}
	pickVote := func() int {
		if r.Chance(3, 4) {
			return under[r.Intn(len(under))]
		}
		return pickDesc()
	}
	badSig := func(a int) string {
		switch r.Intn(9) {
		case 0:
			return fmt.Sprintf("bad%d", r.Intn(8))
		case 1:
			return "z"
		case 2:
			return fmt.Sprintf("r%d", round+1+r.Intn(2))
		case 3:
			return fmt.Sprintf("s%d", (set+1+r.Intn(2))%3)
		case 4:
			return "st" + []string{"pv", "pc", "pp", "x3"}[r.Intn(4)]
		case 5:
			return fmt.Sprintf("kv%d", (a+1+r.Intn(3))%9)
		case 6:
			return "kx" + strconv.Itoa(r.Intn(2))
		case 7:
			return "o" + vote(r.Intn(size+1))
		default:
			return fmt.Sprintf("bad%d", r.Intn(8))
		}
	}
	stageOf := func() string {
		switch r.Intn(12) {
		case 0:
			return "pp"
		case 1:
			if r.Chance(1, 4) {
				return "x3"
			}
			return "pc"
		case 2, 3, 4, 5:
			return "pc"
		}
		return "pv"
	}
	var ops []string
	msg := func(stage, id, v, sig, mr, ms string) {
		ops = append(ops, fmt.Sprintf("m %s %s %s %s %s %s", stage, id, v, sig, mr, ms))
	}
	// how many voters vote in each stage: around the supermajority boundary
	thr := 2 * n / 3
	for _, st := range []string{"pv", "pc"} {
		want := thr + r.Pick(-1, 0, 0, 1, 1, 1, 2, 3)
		if st == "pc" && r.Chance(1, 3) {
			want = r.Intn(n + 1)
		}
		if want < 0 {
			want = 0
		}
		if want > n {
			want = n
		}
		perm := make([]int, n)
		for i := range perm {
			perm[i] = i
		}
		for i := n - 1; i > 0; i-- {
			j := r.Intn(i + 1)
			perm[i], perm[j] = perm[j], perm[i]
		}
		for _, a := range perm[:want] {
			stage := st
			if st == "pv" && r.Chance(1, 12) {
				stage = "pp"
			}
			if a == meIdx {
				if r.Chance(3, 4) {
					ops = append(ops, fmt.Sprintf("own %s b%d", st, pickVote()))
					continue
				}
			}
			msg(stage, fmt.Sprintf("v%d", a), vote(pickVote()), "ok", "=", "=")
		}
	}
	noise := r.Pick(0, 0, 1, 1, 2, 2, 3, 4, 6)
	for k := 0; k < noise; k++ {
		a := r.Intn(n)
		id := fmt.Sprintf("v%d", a)
		switch r.Intn(14) {
		case 0: // repeat an existing op verbatim
			if len(ops) > 0 {
				ops = append(ops, ops[r.Intn(len(ops))])
			}
		case 1, 2: // second vote of an authority: equivocation or the same block again
			msg(stageOf(), id, vote(pickVote()), "ok", "=", "=")
		case 3: // bad signature
			msg(stageOf(), id, vote(pickVote()), badSig(a), "=", "=")
		case 4: // not an authority
			nid := "x" + strconv.Itoa(r.Intn(2))
			if r.Bool() {
				nid = fmt.Sprintf("v%d", n+r.Intn(3))
			}
			msg(stageOf(), nid, vote(pickVote()), "ok", "=", "=")
		case 5: // unknown block
			msg(stageOf(), id, vote(size+r.Intn(2)), "ok", "=", "=")
		case 6: // wrong number (rarely: a stored wrong number voids the comparison of the order-dependent queries)
			if r.Chance(2, 3) {
				msg(stageOf(), id, vote(pickVote()), badSig(a), "=", "=")
				break
			}
			b := pickVote()
			d := base + c21Depth(parents, b)
			num := d + 1 + r.Intn(2)
			if d > 0 && r.Bool() {
				num = r.Intn(d)
			}
			msg(stageOf(), id, fmt.Sprintf("b%d:%d", b, num), "ok", "=", "=")
		case 7: // any block of the tree (possibly off the finalised head's subtree)
			msg(stageOf(), id, vote(r.Intn(size)), "ok", "=", "=")
		case 8: // other round
			msg(stageOf(), id, vote(pickVote()), "ok", strconv.Itoa(r.Pick(0, round+1, round+1, round+2, round+5)), "=")
		case 9: // other set
			msg(stageOf(), id, vote(pickVote()), "ok", "=", strconv.Itoa((set+1+r.Intn(2))%3))
		case 10: // from ourselves
			msg(stageOf(), me, vote(pickVote()), "ok", "=", "=")
		case 11: // signature that spells out the honest parameters: identical bytes to "ok"
			sig := fmt.Sprintf("r%d", round)
			if r.Bool() {
				sig = fmt.Sprintf("s%d", set)
			}
			msg(stageOf(), id, vote(pickVote()), sig, "=", "=")
		case 12: // several defects at once
			msg(stageOf(), "x0", vote(size), badSig(a), strconv.Itoa(round+1), "=")
		default:
			msg(stageOf(), id, vote(r.Intn(size+1)), "ok", "=", "=")
		}
	}
	for i := len(ops) - 1; i > 0; i-- {
		j := r.Intn(i + 1)
		ops[i], ops[j] = ops[j], ops[i]
	}
	return fmt.Sprintf("n=%d me=%s base=%d tree=%s fin=%d chg=%s R=%d S=%d|%s",
		n, me, base, treeStr, fin, chg, round, set, strings.Join(ops, ";"))
}

func TestVerifC21(t *testing.T) {
	logger.Patch(log.SetLevel(log.Critical)) // the package logs every rejected vote
	vhMain(t, c21Gen, c21Run)
}
