//go:build verif

package triedb

import (
	"bytes"
	"encoding/hex"
	"sort"
	"strconv"
	"strings"

	"github.com/ChainSafe/gossamer/internal/database"
	"github.com/ChainSafe/gossamer/internal/primitives/core/hash"
	"github.com/ChainSafe/gossamer/internal/primitives/runtime"
	"github.com/ChainSafe/gossamer/pkg/trie"
	"github.com/ChainSafe/gossamer/pkg/trie/inmemory"
)

// One case = `ver|op;op;...` with ops
//   put k v | del k | get k | commit | reopen          (hex, `-` = empty)
// run against ONE database-backed trie (`TrieDB[hash.H256, runtime.BlakeTwo256]`) over a fresh
// in-memory key/value database with real batch semantics (writes are applied on Flush only).
// Observable per op:
//   put/del : `ok` | `err`, suffixed `!mut` when the caller's key slice was modified by the call
//   get     : value hex | `nil`           (Get on the current instance: in-memory walk + DB)
//   commit  : `<root hex>,<eq|ne>`        Hash(); flag = root equals the in-memory trie's root
//   reopen  : `<root hex>,<eq|ne>`        Hash(), then the instance is replaced by a fresh
//                                         NewTrieDB(root, db) (+SetVersion)
// and the line ends with an implicit `;F=<root>,<flag>,<get of every key mentioned on the line and
// of its neighbours on a fresh NewTrieDB(root, db)>`.

type c06DB struct {
	data map[string][]byte
	null []byte
}

func (d *c06DB) Get(key []byte) ([]byte, error) {
	// the empty node is never written: as the package's own MemoryDB does, the database
	// answers for it
	if bytes.HasSuffix(key, d.null) {
		return []byte{0}, nil
	}
	if v, ok := d.data[string(key)]; ok {
		return v, nil
	}
	return nil, nil
}
func (d *c06DB) Put(key, value []byte) error {
	d.data[string(key)] = append([]byte{}, value...)
	return nil
}
func (d *c06DB) Del(key []byte) error { delete(d.data, string(key)); return nil }
func (d *c06DB) Flush() error         { return nil }
func (d *c06DB) NewBatch() database.Batch {
	return &c06Batch{db: d}
}

type c06BatchOp struct {
	del bool
	k   string
	v   []byte
}
type c06Batch struct {
	db  *c06DB
	ops []c06BatchOp
}

func (b *c06Batch) Put(key, value []byte) error {
	b.ops = append(b.ops, c06BatchOp{false, string(key), append([]byte{}, value...)})
	return nil
}
func (b *c06Batch) Del(key []byte) error {
	b.ops = append(b.ops, c06BatchOp{true, string(key), nil})
	return nil
}
func (b *c06Batch) Flush() error {
	for _, o := range b.ops {
		if o.del {
			delete(b.db.data, o.k)
		} else {
			b.db.data[o.k] = o.v
		}
	}
	b.ops = nil
	return nil
}
func (b *c06Batch) Close() error   { b.ops = nil; return nil }
func (b *c06Batch) Reset()         { b.ops = nil }
func (b *c06Batch) ValueSize() int { return len(b.ops) }

type c06T = TrieDB[hash.H256, runtime.BlakeTwo256]

type c06State struct {
	// caller-owned slices handed to Put (the trie may keep them): pairs (slice, copy at call time);
	// re-checked after every later call
	held [][2][]byte
	ver  trie.TrieLayout
	db  *c06DB
	tr  *c06T
	im  *inmemory.InMemoryTrie
	m   map[string]bool
}

func c06New(ver trie.TrieLayout) *c06State {
	null := runtime.BlakeTwo256{}.Hash([]byte{0})
	db := &c06DB{data: map[string][]byte{}, null: null.Bytes()}
	tr := NewEmptyTrieDB[hash.H256, runtime.BlakeTwo256](db)
	tr.SetVersion(ver)
	im := inmemory.NewEmptyTrie()
	im.SetVersion(ver)
	return &c06State{ver: ver, db: db, tr: tr, im: im, m: map[string]bool{}}
}

func (s *c06State) root() (hash.H256, string) {
	h, err := s.tr.Hash()
	if err != nil {
		return h, "err"
	}
	flag := "ne"
	ih, ierr := s.im.Hash()
	if ierr == nil && bytes.Equal(ih[:], h.Bytes()) {
		flag = "eq"
	}
	return h, hex.EncodeToString(h.Bytes()) + "," + flag
}

func (s *c06State) fresh(h hash.H256) *c06T {
	tr := NewTrieDB[hash.H256, runtime.BlakeTwo256](h, s.db)
	tr.SetVersion(s.ver)
	return tr
}

func c06Opt(b []byte) string {
	if b == nil {
		return "nil"
	}
	return vhHex(b)
}

// heldMut reports whether a slice handed to an earlier Put has been modified since
func (s *c06State) heldMut() bool {
	for _, p := range s.held {
		if !bytes.Equal(p[0], p[1]) {
			return true
		}
	}
	return false
}

func (s *c06State) op(op string) string {
	out := s.op1(op)
	if s.heldMut() && !strings.Contains(out, "!mut") {
		out += "!mut"
	}
	return out
}

func (s *c06State) op1(op string) string {
	f := strings.Fields(op)
	if len(f) == 0 {
		return "bad-op"
	}
	switch {
	case f[0] == "put" && len(f) == 3:
		k, v := vhUnhex(f[1]), vhUnhex(f[2])
		k0 := append([]byte{}, k...)
		v0 := append([]byte{}, v...)
		err := s.tr.Put(k, v)
		out := "ok"
		if err != nil {
			out = "err"
		}
		if !bytes.Equal(k, k0) || !bytes.Equal(v, v0) {
			out += "!mut"
		}
		s.held = append(s.held, [2][]byte{k, k0}, [2][]byte{v, v0})
		_ = s.im.Put(k0, v0)
		s.m[string(k0)] = true
		return out
	case f[0] == "del" && len(f) == 2:
		k := vhUnhex(f[1])
		k0 := append([]byte{}, k...)
		err := s.tr.Delete(k)
		out := "ok"
		if err != nil {
			out = "err"
		}
		if !bytes.Equal(k, k0) {
			out += "!mut"
		}
		// the in-memory trie is only a cross-check: keep it out of its own known findings
		// (deletes of absent keys)
		if s.m[string(k0)] {
			_ = s.im.Delete(k0)
			delete(s.m, string(k0))
		}
		return out
	case f[0] == "get" && len(f) == 2:
		k := vhUnhex(f[1])
		k0 := append([]byte{}, k...)
		out := c06Opt(s.tr.Get(k))
		if !bytes.Equal(k, k0) {
			out += "!mut"
		}
		return out
	case f[0] == "commit" && len(f) == 1:
		_, out := s.root()
		return out
	case f[0] == "reopen" && len(f) == 1:
		h, out := s.root()
		if out != "err" {
			s.tr = s.fresh(h)
		}
		return out
	}
	return "bad-op"
}

// keys mentioned on the line (put/del/get), ascending, each followed by three neighbours:
// the key with its last byte dropped, with a zero byte appended, with the last bit flipped
func c06Probes(ops []string) [][]byte {
	seen := map[string]bool{}
	for _, op := range ops {
		f := strings.Fields(op)
		if len(f) >= 2 && (f[0] == "put" || f[0] == "del" || f[0] == "get") {
			k := vhUnhex(f[1])
			seen[string(k)] = true
			if len(k) > 0 {
				seen[string(k[:len(k)-1])] = true
				fl := append([]byte{}, k...)
				fl[len(fl)-1] ^= 1
				seen[string(fl)] = true
			}
			seen[string(append(append([]byte{}, k...), 0))] = true
		}
	}
	ks := make([]string, 0, len(seen))
	for k := range seen {
		ks = append(ks, k)
	}
	sort.Strings(ks)
	out := make([][]byte, len(ks))
	for i, k := range ks {
		out[i] = []byte(k)
	}
	return out
}

func c06Run(line string) string {
	switch line {
	case "const V1MaxInlineValueSize":
		return strconv.Itoa(trie.V1.MaxInlineValue())
	case "const HashLength":
		return strconv.Itoa((*new(hash.H256)).Length())
	}
	if strings.HasPrefix(line, "nib ") {
		return c06NibRun(line)
	}
	i := strings.IndexByte(line, '|')
	if i < 0 {
		return "bad-op"
	}
	var ver trie.TrieLayout
	switch line[:i] {
	case "0":
		ver = trie.V0
	case "1":
		ver = trie.V1
	default:
		return "bad-op"
	}
	s := c06New(ver)
	ops := strings.Split(line[i+1:], ";")
	outs := make([]string, 0, len(ops)+1)
	for _, op := range ops {
		op := op
		o := vhCatch(func() string { return s.op(op) })
		if o == "bad-op" {
			return "bad-op"
		}
		outs = append(outs, o)
		if o == "panic" || strings.HasPrefix(o, "panic ") {
			// a panic inside one op is the observable of that op; the sequence stops there
			return strings.Join(outs, ";")
		}
	}
	fin := vhCatch(func() string {
		h, out := s.root()
		if out == "err" {
			return "F=err"
		}
		tr := s.fresh(h)
		parts := []string{}
		for _, k := range c06Probes(ops) {
			parts = append(parts, c06Opt(tr.Get(k)))
		}
		return "F=" + out + "," + strings.Join(parts, ",")
	})
	outs = append(outs, fin)
	return strings.Join(outs, ";")
}
