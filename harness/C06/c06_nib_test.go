//go:build verif

package triedb

import (
	"fmt"
	"strconv"
	"strings"

	"github.com/ChainSafe/gossamer/pkg/trie/triedb/nibbles"
)

// Direct calls of the packed-nibble helpers (pkg/trie/triedb/nibbles and combineKey), compared
// with the byte-level Lean model (lean/Gossamer/Lib/C06Nibbles.lean).  Lines start with `nib `:
//   nib at D O I | len D O | mid D O I | adv D O I | left D O | cp D1 O1 D2 O2 | nk D O |
//   nib nkr D O NB | right D O | shift OFF D NEWOFF | comb O1 D1 O2 D2 | ns op,op,...
// D = packed data (hex), O = nibble offset.  Every input slice is cloned before the call and the
// observable gets `!mut` when a helper that is documented as non-mutating changed its input.

func c06NK(k nibbles.NodeKey) string { return fmt.Sprintf("%d %s", k.Offset, vhHex(k.Data)) }

func c06PrefixStr(p nibbles.Prefix) string {
	pad := "-"
	if p.Padded != nil {
		pad = fmt.Sprintf("%02x", *p.Padded)
	}
	key := append([]byte{}, p.Key...)
	return vhHex(key) + "," + pad + "," + vhHex(append([]byte{}, p.JoinedBytes()...))
}

func c06Int(s string) int {
	n, err := strconv.Atoi(s)
	if err != nil {
		panic("bad int " + s)
	}
	return n
}

func c06Nibbles(d, o string) (nibbles.Nibbles, []byte, []byte) {
	data := vhUnhex(d)
	orig := append([]byte{}, data...)
	return nibbles.NewNibbles(data, uint(c06Int(o))), data, orig
}

func c06Mut(out string, pairs ...[]byte) string {
	for i := 0; i+1 < len(pairs); i += 2 {
		if string(pairs[i]) != string(pairs[i+1]) {
			return out + "!mut"
		}
	}
	return out
}

func c06NibRun(line string) string {
	f := strings.Fields(line)
	if len(f) < 2 {
		return "bad-op"
	}
	switch {
	case f[1] == "at" && len(f) == 5:
		n, d, o := c06Nibbles(f[2], f[3])
		return c06Mut(strconv.Itoa(int(n.At(uint(c06Int(f[4]))))), d, o)
	case f[1] == "len" && len(f) == 4:
		n, _, _ := c06Nibbles(f[2], f[3])
		return strconv.Itoa(int(n.Len()))
	case f[1] == "mid" && len(f) == 5:
		n, d, o := c06Nibbles(f[2], f[3])
		m := n.Mid(uint(c06Int(f[4])))
		return c06Mut(fmt.Sprintf("%s %d", c06NK(m.NodeKey()), m.Len()), d, o)
	case f[1] == "adv" && len(f) == 5:
		n, d, o := c06Nibbles(f[2], f[3])
		n.Advance(uint(c06Int(f[4])))
		return c06Mut(fmt.Sprintf("%s %d", c06NK(n.NodeKey()), n.Len()), d, o)
	case f[1] == "left" && len(f) == 4:
		n, d, o := c06Nibbles(f[2], f[3])
		return c06Mut(c06PrefixStr(n.Left()), d, o)
	case f[1] == "cp" && len(f) == 6:
		a, da, oa := c06Nibbles(f[2], f[3])
		b, db, ob := c06Nibbles(f[4], f[5])
		bi := func(x bool) int {
			if x {
				return 1
			}
			return 0
		}
		return c06Mut(fmt.Sprintf("%d %d %d %d", a.CommonPrefix(b), bi(a.StartsWith(b)), bi(a.Equal(b)),
			a.Compare(b)), da, oa, db, ob)
	case f[1] == "nk" && len(f) == 4:
		n, d, o := c06Nibbles(f[2], f[3])
		k := n.NodeKey()
		back := nibbles.NewNibblesFromNodeKey(k)
		return c06Mut(fmt.Sprintf("%s %d", c06NK(k), back.Len()), d, o)
	case f[1] == "nkr" && len(f) == 5:
		// NodeKeyRange shifts in place on a view of the receiver's data: not checked for mutation
		n, _, _ := c06Nibbles(f[2], f[3])
		return c06NK(n.NodeKeyRange(uint(c06Int(f[4]))))
	case f[1] == "right" && len(f) == 4:
		n, d, o := c06Nibbles(f[2], f[3])
		p := n.RightPartial()
		return c06Mut(fmt.Sprintf("%s %d %02x %s", vhHex(n.Right()), p.First, p.PaddedNibble,
			vhHex(append([]byte{}, p.Data...))), d, o)
	case f[1] == "shift" && len(f) == 5:
		k := nibbles.NodeKey{Offset: uint(c06Int(f[2])), Data: vhUnhex(f[3])}
		ch := k.ShiftKey(uint(c06Int(f[4])))
		return fmt.Sprintf("%s %v", c06NK(k), ch)
	case f[1] == "comb" && len(f) == 6:
		a := nibbles.NodeKey{Offset: uint(c06Int(f[2])), Data: vhUnhex(f[3])}
		bd := vhUnhex(f[5])
		bo := append([]byte{}, bd...)
		b := nibbles.NodeKey{Offset: uint(c06Int(f[4])), Data: bd}
		return c06Mut(c06NK(combineKey(a, b)), bd, bo)
	case f[1] == "ns" && len(f) == 3:
		s := nibbles.NewNibbleSlice()
		var outs []string
		for _, op := range strings.Split(f[2], ",") {
			g := strings.Split(op, ":")
			switch {
			case g[0] == "p" && len(g) == 2:
				s.Push(uint8(c06Int(g[1])))
			case g[0] == "pop" && len(g) == 1:
				s.Pop()
			case g[0] == "app" && len(g) == 3:
				n, _, _ := c06Nibbles(g[1], g[2])
				s.AppendPartial(n.RightPartial())
			case g[0] == "aos" && len(g) == 4:
				var ns *nibbles.Nibbles
				if g[1] != "x" {
					n, _, _ := c06Nibbles(g[1], g[2])
					ns = &n
				}
				var ix *uint8
				if g[3] != "x" {
					v := uint8(c06Int(g[3]))
					ix = &v
				}
				outs = append(outs, strconv.Itoa(int(s.AppendOptionalSliceAndNibble(ns, ix))))
			case g[0] == "drop" && len(g) == 2:
				s.DropLasts(uint(c06Int(g[1])))
			default:
				return "bad-op"
			}
			cl := s.Clone()
			p := cl.Prefix()
			empty := 0
			if s.IsEmpty() {
				empty = 1
			}
			pad := "-"
			if p.Padded != nil {
				pad = fmt.Sprintf("%02x", *p.Padded)
			}
			outs = append(outs, fmt.Sprintf("%d/%s/%s", empty, vhHex(append([]byte{}, p.Key...)), pad))
		}
		return strings.Join(outs, ",")
	}
	return "bad-op"
}

// ---------------------------------------------------------------- generator

func c06NibData(r *vhRng) []byte {
	n := r.Pick(0, 1, 1, 2, 2, 3, 4, 5, 8, 33)
	d := make([]byte, n)
	for i := range d {
		switch r.Intn(4) {
		case 0:
			d[i] = r.Bytes(1)[0]
		case 1:
			d[i] = byte(r.Pick(0x00, 0x0f, 0xf0, 0xff, 0x10, 0x01))
		default:
			d[i] = byte(r.Pick(0x12, 0x13, 0x21, 0x31))
		}
	}
	return d
}

// data and an offset 0..2*len
func c06NibDO(r *vhRng) (string, int, int) {
	d := c06NibData(r)
	o := r.Intn(2*len(d) + 1)
	return vhHex(d), o, 2*len(d) - o
}

func c06NibGen(r *vhRng) string {
	switch r.Intn(12) {
	case 0:
		d, o, l := c06NibDO(r)
		if l == 0 {
			return fmt.Sprintf("nib len %s %d", d, o)
		}
		return fmt.Sprintf("nib at %s %d %d", d, o, r.Intn(l))
	case 1:
		d, o, l := c06NibDO(r)
		if r.Bool() {
			return fmt.Sprintf("nib mid %s %d %d", d, o, r.Intn(l+1))
		}
		return fmt.Sprintf("nib adv %s %d %d", d, o, r.Intn(l+1))
	case 2:
		d, o, _ := c06NibDO(r)
		return fmt.Sprintf("nib left %s %d", d, o)
	case 3, 4:
		d1, o1, l1 := c06NibDO(r)
		d2, o2, _ := c06NibDO(r)
		if r.Chance(2, 3) && l1 > 0 {
			// the second operand shares nibbles with the first: re-pack a prefix of it at another offset
			full := vhUnhex(d1)
			var ns []byte
			for i := 0; i < l1; i++ {
				b := full[(o1+i)/2]
				if (o1+i)%2 == 0 {
					ns = append(ns, b>>4)
				} else {
					ns = append(ns, b&0x0f)
				}
			}
			k := r.Intn(l1 + 1)
			ns = ns[:k]
			if r.Chance(1, 3) {
				ns = append(ns, byte(r.Intn(16)))
			}
			off := r.Intn(2)
			if (off+len(ns))%2 == 1 {
				ns = append(ns, byte(r.Intn(16)))
			}
			pad := make([]byte, off)
			all := append(pad, ns...)
			pk := make([]byte, len(all)/2)
			for i := range pk {
				pk[i] = all[2*i]<<4 | all[2*i+1]
			}
			if off == 1 && len(pk) > 0 {
				pk[0] |= byte(r.Intn(16)) << 4
			}
			d2, o2 = vhHex(pk), off
		}
		return fmt.Sprintf("nib cp %s %d %s %d", d1, o1, d2, o2)
	case 5:
		d, o, _ := c06NibDO(r)
		return fmt.Sprintf("nib nk %s %d", d, o)
	case 6, 7:
		d, o, l := c06NibDO(r)
		return fmt.Sprintf("nib nkr %s %d %d", d, o, r.Intn(l+2))
	case 8:
		d, o, _ := c06NibDO(r)
		return fmt.Sprintf("nib right %s %d", d, o)
	case 9:
		d := c06NibData(r)
		if len(d) == 0 {
			d = []byte{byte(r.Intn(256))}
		}
		return fmt.Sprintf("nib shift %d %s %d", r.Intn(2), vhHex(d), r.Intn(2))
	case 10:
		d1 := c06NibData(r)
		o1 := r.Intn(2)
		if len(d1) == 0 {
			o1 = 0
		}
		d2 := c06NibData(r)
		o2 := r.Intn(2)
		if len(d2) == 0 {
			o2 = 0
		}
		return fmt.Sprintf("nib comb %d %s %d %s", o1, vhHex(d1), o2, vhHex(d2))
	default:
		n := 1 + r.Intn(8)
		ops := make([]string, 0, n)
		ln := 0
		for i := 0; i < n; i++ {
			switch r.Intn(6) {
			case 0, 1:
				ops = append(ops, fmt.Sprintf("p:%d", r.Intn(16)))
				ln++
			case 2:
				ops = append(ops, "pop")
				if ln > 0 {
					ln--
				}
			case 3:
				d, o, l := c06NibDO(r)
				ops = append(ops, fmt.Sprintf("app:%s:%d", d, o))
				ln += l
			case 4:
				d, o, l := c06NibDO(r)
				ix := "x"
				if r.Bool() {
					ix = strconv.Itoa(r.Intn(16))
					ln++
				}
				if r.Chance(1, 4) {
					ops = append(ops, "aos:x:0:"+ix)
				} else {
					ops = append(ops, fmt.Sprintf("aos:%s:%d:%s", d, o, ix))
					ln += l
				}
			default:
				k := r.Intn(ln + 2)
				ops = append(ops, fmt.Sprintf("drop:%d", k))
				if k >= ln {
					ln = 0
				} else {
					ln -= k
				}
			}
		}
		return "nib ns " + strings.Join(ops, ",")
	}
}
