//go:build verif

package triedb

import (
	"strings"
	"testing"
)

// ---------------------------------------------------------------- generator
// Key pools are those of the C02/C01 harnesses (copied: they live in package inmemory).

// byte alphabets chosen so that keys share nibble prefixes, diverge inside a byte, end in a zero
// low nibble, and are prefixes of one another
var c06Alphabets = [][]byte{
	{0x00, 0x01, 0x10},
	{0x10, 0x11, 0x1f},
	{0x00, 0x0f, 0xf0, 0xff},
	{0x12, 0x13, 0x30, 0x3f},
	{0x00, 0x01},
	{0x10, 0x15, 0x1f, 0x50},
	{0x00, 0x10, 0x20, 0x02},
	{0xab, 0xa0, 0x0a, 0xb0},
}

type c06Pool struct {
	alpha []byte
	keys  [][]byte
}

func c06Key(r *vhRng, alpha []byte, maxLen int) []byte {
	n := r.Intn(maxLen + 1)
	k := make([]byte, n)
	for i := range k {
		k[i] = alpha[r.Intn(len(alpha))]
	}
	return k
}

// the C02 pool: short keys, extensions and truncations of one another
func c06ShortPool(r *vhRng) *c06Pool {
	p := &c06Pool{}
	if r.Chance(1, 8) {
		p.alpha = r.Bytes(3)
	} else {
		p.alpha = c06Alphabets[r.Intn(len(c06Alphabets))]
	}
	maxLen := 2 + r.Intn(3)
	n := 3 + r.Intn(6)
	for i := 0; i < n; i++ {
		var k []byte
		switch {
		case len(p.keys) > 0 && r.Chance(1, 3):
			base := p.keys[r.Intn(len(p.keys))]
			k = append(append([]byte{}, base...), c06Key(r, p.alpha, 2)...)
		case len(p.keys) > 0 && r.Chance(1, 5):
			base := p.keys[r.Intn(len(p.keys))]
			k = append([]byte{}, base[:r.Intn(len(base)+1)]...)
		default:
			k = c06Key(r, p.alpha, maxLen)
		}
		p.keys = append(p.keys, k)
	}
	return p
}

// stem lengths (bytes): partial keys on the header length boundaries (15/16, 31/32, 62..64,
// 318 nibbles) and keys of 32 bytes and more (the size of a row-key hash)
var c06StemLens = []int{0, 0, 1, 7, 8, 15, 16, 30, 31, 32, 33, 40, 158, 159, 160}

// the C01 pool: keys on a common stem
func c06StemPool(r *vhRng) *c06Pool {
	p := &c06Pool{}
	p.alpha = c06Alphabets[r.Intn(len(c06Alphabets))]
	stemLen := c06StemLens[r.Intn(len(c06StemLens))]
	stem := make([]byte, stemLen)
	for i := range stem {
		stem[i] = p.alpha[r.Intn(len(p.alpha))]
	}
	n := 2 + r.Intn(6)
	for i := 0; i < n; i++ {
		var k []byte
		switch r.Intn(5) {
		case 0:
			k = c06Key(r, p.alpha, 2)
		case 1:
			k = append([]byte{}, stem[:r.Intn(stemLen+1)]...)
		case 2:
			tail := c06StemLens[r.Intn(len(c06StemLens))]
			k = append(append([]byte{}, stem...), c06Key(r, p.alpha, 1)...)
			for j := 0; j < tail; j++ {
				k = append(k, p.alpha[r.Intn(len(p.alpha))])
			}
		default:
			k = append(append([]byte{}, stem...), c06Key(r, p.alpha, 2)...)
		}
		p.keys = append(p.keys, k)
	}
	return p
}

func (p *c06Pool) key(r *vhRng) []byte {
	if r.Chance(1, 10) {
		return c06Key(r, p.alpha, 3)
	}
	return p.keys[r.Intn(len(p.keys))]
}

// value sizes around the V1 hashing threshold (32) and the inline Merkle-value threshold
// and sizes that bring the encoding of a small leaf to exactly 31/32/33 bytes (inlined or hashed child)
var c06ValueSizes = []int{0, 1, 1, 2, 27, 28, 29, 30, 31, 32, 32, 33, 40, 200}

func c06Value(r *vhRng) []byte {
	n := c06ValueSizes[r.Intn(len(c06ValueSizes))]
	v := make([]byte, n)
	// few distinct values per size: equal values under different keys and re-puts of an equal value
	b := byte(r.Intn(3))
	for i := range v {
		v[i] = b + byte(i)
	}
	return v
}

func c06Gen(r *vhRng) string {
	if r.Chance(1, 4) {
		return c06NibGen(r)
	}
	var p *c06Pool
	if r.Chance(1, 2) {
		p = c06ShortPool(r)
	} else {
		p = c06StemPool(r)
	}
	present := [][]byte{}
	last := map[string]string{} // last value put under a key
	has := func(k []byte) int {
		for i, x := range present {
			if string(x) == string(k) {
				return i
			}
		}
		return -1
	}
	nops := 2 + r.Intn(13)
	ops := make([]string, 0, nops+8)
	put := func(k []byte) {
		v := vhHex(c06Value(r))
		if old, ok := last[string(k)]; ok && r.Chance(1, 4) {
			// put the value the key already has (or had): the "unchanged" paths
			v = old
		}
		last[string(k)] = v
		ops = append(ops, "put "+vhHex(k)+" "+v)
		if has(k) < 0 {
			present = append(present, k)
		}
	}
	del := func(k []byte) {
		ops = append(ops, "del "+vhHex(k))
		if i := has(k); i >= 0 {
			present = append(present[:i], present[i+1:]...)
		}
	}
	// a burst of puts first, often committed and reopened: later ops then work on nodes loaded
	// from the database
	burst := 1 + r.Intn(len(p.keys))
	for i := 0; i < burst; i++ {
		put(p.keys[i%len(p.keys)])
	}
	switch r.Intn(4) {
	case 0:
		ops = append(ops, "commit")
	case 1, 2:
		ops = append(ops, "reopen")
	}
	for len(ops) < nops {
		switch x := r.Intn(20); {
		case x < 7:
			put(p.key(r))
		case x < 11:
			// delete a stored key (nodes merge), sometimes any key
			if len(present) > 0 && r.Chance(4, 5) {
				del(present[r.Intn(len(present))])
			} else {
				del(p.key(r))
			}
		case x < 13:
			ops = append(ops, "commit")
		case x < 16:
			ops = append(ops, "reopen")
		default:
			ops = append(ops, "get "+vhHex(p.key(r)))
		}
	}
	if r.Chance(1, 3) && len(present) > 0 {
		// end with: reopen, delete (merging nodes), [reopen], reads
		ops = append(ops, "reopen")
		del(present[r.Intn(len(present))])
		if r.Bool() {
			ops = append(ops, "reopen")
		}
		for i := 0; i < 2; i++ {
			ops = append(ops, "get "+vhHex(p.key(r)))
		}
	}
	ver := "0"
	if r.Chance(2, 3) {
		ver = "1"
	}
	return ver + "|" + strings.Join(ops, ";")
}

func TestVerifC06(t *testing.T) { vhMain(t, c06Gen, c06Run) }
