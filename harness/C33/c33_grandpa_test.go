//go:build verif

package grandpa

import (
	"reflect"
	"testing"

	"github.com/ChainSafe/gossamer/dot/network"
	"github.com/ChainSafe/gossamer/dot/types"
	primitives "github.com/ChainSafe/gossamer/internal/primitives/consensus/grandpa"
	"github.com/ChainSafe/gossamer/internal/primitives/core/hash"
	"github.com/ChainSafe/gossamer/lib/common"
	finality "github.com/ChainSafe/gossamer/pkg/finality-grandpa"
	"github.com/ChainSafe/gossamer/pkg/scale"
)

func c33Hash(r *vhRng) common.Hash {
	var h common.Hash
	switch r.Intn(4) {
	case 0:
	case 1:
		h[r.Intn(32)] = byte(1 + r.Intn(255))
	default:
		copy(h[:], r.Bytes(32))
	}
	return h
}

func c33U64(r *vhRng) uint64 {
	switch r.Intn(4) {
	case 0:
		return uint64(r.Intn(3))
	case 1:
		return ^uint64(0) - uint64(r.Intn(2))
	default:
		return r.U64() >> uint(r.Intn(64))
	}
}

func c33Vote(r *vhRng) Vote { return Vote{Hash: c33Hash(r), Number: uint32(c33U64(r))} }

func c33SignedVotes(r *vhRng) []SignedVote {
	out := make([]SignedVote, r.Intn(3))
	for i := range out {
		out[i].Vote = c33Vote(r)
		copy(out[i].Signature[:], r.Bytes(64))
		copy(out[i].AuthorityID[:], r.Bytes(32))
	}
	return out
}

func c33Must(m *network.ConsensusMessage, err error) []byte {
	if err != nil {
		panic(err)
	}
	return m.Data
}

// c33GrandpaValid draws a valid GRANDPA gossip message of every kind.
func c33GrandpaValid(r *vhRng) []byte {
	switch r.Intn(5) {
	case 0:
		m := &VoteMessage{Round: c33U64(r), SetID: c33U64(r)}
		m.Message.Stage = Subround(r.Pick(0, 1, 2, 255))
		m.Message.BlockHash = c33Hash(r)
		m.Message.Number = uint32(c33U64(r))
		copy(m.Message.Signature[:], r.Bytes(64))
		copy(m.Message.AuthorityID[:], r.Bytes(32))
		return c33Must(m.ToConsensusMessage())
	case 1:
		m := &CommitMessage{Round: c33U64(r), SetID: c33U64(r), Vote: c33Vote(r)}
		m.Precommits = make([]Vote, r.Intn(3))
		for i := range m.Precommits {
			m.Precommits[i] = c33Vote(r)
		}
		m.AuthData = make([]AuthData, r.Intn(3))
		for i := range m.AuthData {
			copy(m.AuthData[i].Signature[:], r.Bytes(64))
			copy(m.AuthData[i].AuthorityID[:], r.Bytes(32))
		}
		return c33Must(m.ToConsensusMessage())
	case 2:
		m := &NeighbourPacketV1{Round: c33U64(r), SetID: c33U64(r), Number: uint32(c33U64(r))}
		return c33Must(m.ToConsensusMessage())
	case 3:
		return c33Must(newCatchUpRequest(c33U64(r), c33U64(r)).ToConsensusMessage())
	default:
		m := &CatchUpResponse{SetID: c33U64(r), Round: c33U64(r), PreVoteJustification: c33SignedVotes(r),
			PreCommitJustification: c33SignedVotes(r), Hash: c33Hash(r), Number: uint32(c33U64(r))}
		return c33Must(m.ToConsensusMessage())
	}
}

func c33NoScan([]byte) uint64 { return 0 }

func c33H256(r *vhRng) hash.H256 {
	h := c33Hash(r)
	return hash.H256(h[:])
}

// c33WarpProofValid draws a warp sync proof of zero to two fragments without vote ancestries
// (the only proofs the Go type can decode: its ancestries are a slice of interfaces).
func c33WarpProofValid(r *vhRng) []byte {
	p := NewWarpSyncProof()
	for i, n := 0, r.Intn(3); i < n; i++ {
		var f WarpSyncFragment
		f.Header = types.Header{ParentHash: c33Hash(r), Number: uint(c33U64(r)), StateRoot: c33Hash(r),
			ExtrinsicsRoot: c33Hash(r), Digest: types.NewDigest()}
		for j, k := 0, r.Intn(3); j < k; j++ {
			if r.Bool() {
				_ = f.Header.Digest.Add(types.ConsensusDigest{ConsensusEngineID: types.GrandpaEngineID, Data: r.Bytes(r.Intn(9))})
			} else {
				_ = f.Header.Digest.Add(types.SealDigest{ConsensusEngineID: types.BabeEngineID, Data: r.Bytes(r.Intn(9))})
			}
		}
		j := &f.Justification.Justification
		j.Round = c33U64(r)
		j.Commit.TargetHash = c33H256(r)
		j.Commit.TargetNumber = c33U64(r)
		for a, b := 0, r.Intn(3); a < b; a++ {
			var sp finality.SignedPrecommit[hash.H256, uint64, primitives.AuthoritySignature, primitives.AuthorityID]
			sp.Precommit.TargetHash = c33H256(r)
			sp.Precommit.TargetNumber = c33U64(r)
			copy(sp.Signature[:], r.Bytes(64))
			copy(sp.ID[:], r.Bytes(32))
			j.Commit.Precommits = append(j.Commit.Precommits, sp)
		}
		p.Proofs = append(p.Proofs, f)
	}
	p.IsFinished = r.Bool()
	b, err := scale.Marshal(p)
	if err != nil {
		panic(err)
	}
	return b
}

// c33GrandpaView names the message kind by its index in the varying data type, then dumps it.
func c33GrandpaView(m GrandpaMessage) string {
	idx := "v?:"
	switch m.(type) {
	case *VoteMessage:
		idx = "v0:"
	case *CommitMessage:
		idx = "v1:"
	case *NeighbourPacketV1:
		idx = "v2:v1:"
	case *CatchUpRequest:
		idx = "v3:"
	case *CatchUpResponse:
		idx = "v4:"
	}
	return idx + c33Dump(reflect.ValueOf(m).Elem())
}

var c33Kinds = []*c33Kind{
	{name: "gmsg", // Service.decodeMessage (ConsensusMessage) then decodeMessage (GRANDPA message)
		recv: func() *c33Recv {
			cm := new(network.ConsensusMessage)
			var m GrandpaMessage
			dec := func(in []byte) error {
				if err := cm.Decode(in); err != nil {
					return err
				}
				var err error
				m, err = decodeMessage(cm)
				return err
			}
			return &c33Recv{decode: dec, live: &c33Live{view: func() string { return c33GrandpaView(m) },
				reenc: func() ([]byte, error) {
					c, err := m.ToConsensusMessage()
					if err != nil {
						return nil, err
					}
					return c.Encode()
				}}}
		},
		decode: func(in []byte) (*c33Live, error) {
			nm, err := (&Service{}).decodeMessage(in)
			if err != nil {
				return nil, err
			}
			m, err := decodeMessage(nm.(*network.ConsensusMessage))
			if err != nil {
				return nil, err
			}
			reenc := func() ([]byte, error) {
				cm, err := m.ToConsensusMessage()
				if err != nil {
					return nil, err
				}
				return cm.Encode()
			}
			return &c33Live{view: func() string { return c33GrandpaView(m) }, reenc: reenc}, nil
		},
		valid: c33GrandpaValid,
		scan:  c33NoScan, typ: reflect.TypeOf(grandpaMessage{})},
	{name: "ghs",
		recv: func() *c33Recv {
			m := &GrandpaHandshake{}
			return &c33Recv{decode: m.Decode, live: &c33Live{view: func() string { return c33Dump(reflect.ValueOf(*m)) }, reenc: m.Encode}}
		},
		decode: func(in []byte) (*c33Live, error) {
			h, err := (&Service{}).decodeHandshake(in)
			if err != nil {
				return nil, err
			}
			hs := h.(*GrandpaHandshake)
			return &c33Live{view: func() string { return c33Dump(reflect.ValueOf(*hs)) }, reenc: hs.Encode}, nil
		},
		valid: func(r *vhRng) []byte { return []byte{byte(r.Pick(0, 1, 2, 4, 255))} },
		scan:  c33NoScan},
	{name: "wproof", // the decoding step of WarpSyncProofProvider.Verify
		recv: func() *c33Recv {
			proof := new(WarpSyncProof)
			return &c33Recv{decode: func(in []byte) error { return scale.Unmarshal(in, proof) },
				live: &c33Live{view: func() string { return c33Dump(reflect.ValueOf(*proof)) },
					reenc: func() ([]byte, error) { return scale.Marshal(*proof) }}}
		},
		decode: func(in []byte) (*c33Live, error) {
			var proof WarpSyncProof
			if err := scale.Unmarshal(in, &proof); err != nil {
				return nil, err
			}
			return &c33Live{view: func() string { return c33Dump(reflect.ValueOf(proof)) }, reenc: func() ([]byte, error) { return scale.Marshal(proof) }}, nil
		},
		valid: c33WarpProofValid,
		scan: func(in []byte) uint64 {
			var s uint64
			c33Scan(reflect.TypeOf(WarpSyncProof{}), in, &s)
			return s
		},
		typ: reflect.TypeOf(WarpSyncProof{})},
}

func c33GenGrandpa(r *vhRng) string    { return c33Gen(r, c33Kinds) }
func c33RunGrandpa(line string) string { return c33Run(c33Kinds, line) }

func TestVerifC33(t *testing.T) { vhMain(t, c33GenGrandpa, c33RunGrandpa) }
