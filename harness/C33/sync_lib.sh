#!/bin/sh
# c33_lib_grandpa_test.go is c33_lib_test.go with the package clause of lib/grandpa
cd "$(dirname "$0")" && sed 's/^package network$/package grandpa/' c33_lib_test.go > c33_lib_grandpa_test.go
