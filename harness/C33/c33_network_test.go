//go:build verif

package network

import (
	"bytes"
	"errors"
	"fmt"
	"io"
	"reflect"
	"strconv"
	"strings"
	"testing"

	libp2pnetwork "github.com/libp2p/go-libp2p/core/network"

	"github.com/ChainSafe/gossamer/dot/network/messages"
	pb "github.com/ChainSafe/gossamer/dot/network/proto"
	"github.com/ChainSafe/gossamer/dot/types"
	"github.com/ChainSafe/gossamer/lib/common"
	"github.com/ChainSafe/gossamer/pkg/scale"
	"google.golang.org/protobuf/proto"
)

// ---------------------------------------------------------------- random valid messages

func c33Hash(r *vhRng) common.Hash {
	var h common.Hash
	switch r.Intn(4) {
	case 0:
	case 1:
		h[r.Intn(32)] = byte(1 + r.Intn(255))
	default:
		copy(h[:], r.Bytes(32))
	}
	return h
}

func c33Uint(r *vhRng) uint {
	switch r.Intn(8) {
	case 0:
		return uint(r.Intn(64))
	case 1:
		return uint(r.Pick(63, 64, 16383, 16384, 1<<30-1, 1<<30, 1<<32-1))
	case 2:
		return uint(1<<56) + uint(r.Intn(1000))
	case 3:
		return ^uint(0) - uint(r.Intn(3))
	default:
		return uint(r.Intn(1 << 20))
	}
}

func c33Data(r *vhRng) []byte {
	switch r.Intn(6) {
	case 0:
		return []byte{}
	case 1:
		return r.Bytes(63 + r.Intn(3))
	default:
		return r.Bytes(r.Intn(12))
	}
}

func c33Digest(r *vhRng) types.Digest {
	d := types.NewDigest()
	for i, n := 0, r.Intn(4); i < n; i++ {
		var id types.ConsensusEngineID
		copy(id[:], r.Bytes(4))
		if r.Bool() {
			id = types.BabeEngineID
		}
		var err error
		switch r.Intn(4) {
		case 0:
			err = d.Add(types.PreRuntimeDigest{ConsensusEngineID: id, Data: c33Data(r)})
		case 1:
			err = d.Add(types.ConsensusDigest{ConsensusEngineID: id, Data: c33Data(r)})
		case 2:
			err = d.Add(types.SealDigest{ConsensusEngineID: id, Data: c33Data(r)})
		default:
			err = d.Add(types.RuntimeEnvironmentUpdated{})
		}
		if err != nil {
			panic(err)
		}
	}
	return d
}

func c33Header(r *vhRng) *types.Header {
	return &types.Header{ParentHash: c33Hash(r), Number: c33Uint(r), StateRoot: c33Hash(r),
		ExtrinsicsRoot: c33Hash(r), Digest: c33Digest(r)}
}

func c33Must(b []byte, err error) []byte {
	if err != nil {
		panic(err)
	}
	return b
}

func c33ByteStrings(r *vhRng) [][]byte {
	n := r.Intn(4)
	out := make([][]byte, n)
	for i := range out {
		out[i] = c33Data(r)
	}
	return out
}

func c33OptBytes(r *vhRng) *[]byte {
	if r.Bool() {
		return nil
	}
	b := c33Data(r)
	return &b
}

func c33OptHash(r *vhRng) *common.Hash {
	if r.Bool() {
		return nil
	}
	h := c33Hash(r)
	return &h
}

// ---------------------------------------------------------------- the decoders of dot/network

type c33LightReqDump struct {
	A RemoteCallRequest
	B RemoteReadRequest
	C RemoteHeaderRequest
	D RemoteReadChildRequest
	E RemoteChangesRequest
}

type c33LightRespDump struct {
	A RemoteCallResponse
	B RemoteReadResponse
	C RemoteHeaderResponse
	D RemoteChangesResponse
}

func c33BlockRequestDump(m *messages.BlockRequestMessage) string {
	from := "?"
	switch v := m.StartingBlock.RawValue().(type) {
	case uint:
		from = fmt.Sprintf("n:%d", v)
	case common.Hash:
		from = "h:x" + vhHex(v[:])
	}
	max := "none"
	if m.Max != nil {
		max = fmt.Sprintf("some(%d)", *m.Max)
	}
	return fmt.Sprintf("(%d,%s,%d,%s)", m.RequestedData, from, byte(m.Direction), max)
}

// c33RawBytes draws a byte string of an odd length for protobuf bytes fields.
func c33RawBytes(r *vhRng, typical int) []byte {
	switch r.Intn(5) {
	case 0:
		return []byte{}
	case 1:
		return r.Bytes(typical)
	case 2:
		return r.Bytes(typical + 1 + r.Intn(3))
	case 3:
		if typical > 0 {
			return r.Bytes(r.Intn(typical))
		}
		return r.Bytes(1)
	default:
		return r.Bytes(r.Intn(2*typical + 2))
	}
}

// c33RawBlockRequest marshals a protobuf BlockRequest the Go encoder would never write: number and
// hash of any length, any direction, fields above one byte.
func c33RawBlockRequest(r *vhRng) []byte {
	m := &pb.BlockRequest{Fields: uint32(r.U64()) >> uint(r.Pick(0, 8, 24)), Direction: pb.Direction(r.Pick(0, 1, 2, 255, 256, -1)),
		MaxBlocks: uint32(r.Pick(0, 0, 1, 128, 1<<32-1))}
	switch r.Intn(5) {
	case 0:
	case 1, 2:
		m.FromBlock = &pb.BlockRequest_Number{Number: c33RawBytes(r, 4)}
	default:
		m.FromBlock = &pb.BlockRequest_Hash{Hash: c33RawBytes(r, 32)}
	}
	return c33Must(proto.Marshal(m))
}

// c33RawBlockResponse marshals protobuf block data with every combination of present, empty and
// malformed parts (the flag with a present justification, empty body entries, junk headers).
func c33RawBlockResponse(r *vhRng) []byte {
	m := &pb.BlockResponse{}
	for i, n := 0, 1+r.Intn(2); i < n; i++ {
		bd := &pb.BlockData{Hash: c33RawBytes(r, 32)}
		switch r.Intn(10) {
		case 0, 1, 2, 3, 4:
		case 5:
			bd.Header = c33SmallBytes(r, r.Intn(120))
		default:
			bd.Header = c33Must(scale.Marshal(*c33Header(r)))
			if r.Chance(1, 4) {
				bd.Header = append(bd.Header, c33SmallBytes(r, 1+r.Intn(3))...)
			}
		}
		for j, k := 0, r.Intn(4); j < k; j++ {
			switch r.Intn(8) {
			case 0:
				bd.Body = append(bd.Body, []byte{})
			case 1:
				bd.Body = append(bd.Body, c33SmallBytes(r, 1+r.Intn(5)))
			default:
				bd.Body = append(bd.Body, c33Must(scale.Marshal(c33Data(r))))
			}
		}
		if r.Bool() {
			bd.Receipt = c33RawBytes(r, 3)
		}
		if r.Bool() {
			bd.MessageQueue = c33RawBytes(r, 3)
		}
		if r.Bool() {
			bd.Justification = c33RawBytes(r, 3)
		}
		bd.IsEmptyJustification = r.Bool()
		m.Blocks = append(m.Blocks, bd)
	}
	return c33Must(proto.Marshal(m))
}

func c33ScanType(t reflect.Type) func([]byte) uint64 {
	return func(in []byte) uint64 {
		var s uint64
		c33Scan(t, in, &s)
		return s
	}
}

func c33NoScan([]byte) uint64 { return 0 }

// c33ScanBlockResponse: the SCALE parts of a block response (headers and bodies).
func c33ScanBlockResponse(in []byte) uint64 {
	msg := &pb.BlockResponse{}
	if proto.Unmarshal(in, msg) != nil {
		return 0
	}
	var s uint64
	for _, b := range msg.Blocks {
		if b.Header != nil {
			c33Scan(reflect.TypeOf(types.Header{}), b.Header, &s)
		}
		if b.Body != nil {
			enc := c33Must(scale.Marshal(uint(len(b.Body))))
			for _, e := range b.Body {
				enc = append(enc, e...)
			}
			c33Scan(reflect.TypeOf([][]byte(nil)), enc, &s)
		}
	}
	return s
}

// c33CraftBlockResponse plants a boundary prefix inside a block response: in the SCALE header, at
// the length prefix of a body entry (the nested extrinsics), or at a protobuf length varint
// (block, hash, header, body entry, receipt, message queue, justification).
func c33CraftBlockResponse(r *vhRng) []byte {
	if r.Chance(1, 3) {
		return c33CraftWire(r, c33RawBlockResponse(r))
	}
	m := &pb.BlockResponse{}
	for i, n := 0, 1+r.Intn(2); i < n; i++ {
		h := c33Hash(r)
		bd := &pb.BlockData{Hash: h[:]}
		if r.Bool() {
			bd.Header = c33Must(scale.Marshal(*c33Header(r)))
		}
		for j, k := 0, 1+r.Intn(3); j < k; j++ {
			bd.Body = append(bd.Body, c33Must(scale.Marshal(c33Data(r))))
		}
		if r.Bool() {
			bd.Justification = c33Data(r)
		}
		m.Blocks = append(m.Blocks, bd)
	}
	bd := m.Blocks[r.Intn(len(m.Blocks))]
	if bd.Header != nil && r.Chance(1, 3) {
		bd.Header = c33CraftScale(r, reflect.TypeOf(types.Header{}), bd.Header)
	} else {
		j := r.Intn(len(bd.Body))
		bd.Body[j] = c33CraftScale(r, c33BytesType, bd.Body[j])
		if r.Chance(1, 4) { // drop the entries behind it: the crafted entry ends the stream
			bd.Body = bd.Body[:j+1]
		}
	}
	return c33Must(proto.Marshal(m))
}

func c33RawStateRequest(r *vhRng) []byte {
	m := &pb.StateRequest{Block: c33RawBytes(r, 32), NoProof: r.Bool()}
	for i, n := 0, r.Intn(4); i < n; i++ {
		m.Start = append(m.Start, c33RawBytes(r, 4))
	}
	return c33Must(proto.Marshal(m))
}

func c33RawStateResponse(r *vhRng) []byte {
	m := &pb.StateResponse{Proof: c33RawBytes(r, 6)}
	for i, n := 0, r.Intn(3); i < n; i++ {
		e := &pb.KeyValueStateEntry{StateRoot: c33RawBytes(r, 32), Complete: r.Bool()}
		for j, k := 0, r.Intn(4); j < k; j++ {
			e.Entries = append(e.Entries, &pb.StateEntry{Key: c33RawBytes(r, 3), Value: c33RawBytes(r, 3)})
		}
		m.Entries = append(m.Entries, e)
	}
	return c33Must(proto.Marshal(m))
}

// ---------------------------------------------------------------- readStream (LEB128 framing)

// c33Stream is a libp2p stream whose Read hands out the bytes in pieces of at most chunk.
type c33Stream struct {
	libp2pnetwork.Stream
	r     *bytes.Reader
	chunk int
}

func (s *c33Stream) Read(p []byte) (int, error) {
	if len(p) > s.chunk {
		p = p[:s.chunk]
	}
	return s.r.Read(p)
}

// c33RunStream: `stream <maxSize> <bufLen> <chunk> <hex>` -> tot, error class, message, buffer
// length afterwards, unread bytes.
func c33RunStream(f []string) string {
	maxSize, e1 := strconv.ParseUint(f[1], 10, 64)
	bufLen, e2 := strconv.Atoi(f[2])
	chunk, e3 := strconv.Atoi(f[3])
	if e1 != nil || e2 != nil || e3 != nil || chunk < 1 || bufLen < 0 || bufLen > 1<<20 {
		return "bad-op"
	}
	return vhWithTimeout(4000, func() string {
		st := &c33Stream{r: bytes.NewReader(vhUnhex(f[4])), chunk: chunk}
		buf := make([]byte, bufLen)
		tot, err := readStream(st, &buf, maxSize)
		class, msg := "nil", "-"
		switch {
		case err == nil:
			if tot <= len(buf) {
				msg = vhHex(buf[:tot])
			} else {
				msg = "overrun"
			}
		case errors.Is(err, io.EOF):
			class = "eof"
		case errors.Is(err, ErrInvalidLEB128EncodedData):
			class = "leb"
		case errors.Is(err, ErrGreaterThanMaxSize):
			class = "max"
		case errors.Is(err, ErrFailedToReadEntireMessage):
			class = "short"
		default:
			class = "other"
		}
		return fmt.Sprintf("tot=%d err=%s msg=%s buflen=%d rest=%d", tot, class, msg, len(buf), st.r.Len())
	})
}

func c33GenStream(r *vhRng) string {
	maxSize := r.Pick(0, 1, 16, 100, 1000)
	bufLen := r.Pick(0, 1, 16, 64, 2000)
	chunk := r.Pick(1, 2, 3, 7, 64, 4096)
	frame := func(n int) []byte { return append(Uint64ToLEB128(uint64(n)), r.Bytes(n)...) }
	var in []byte
	switch r.Intn(6) {
	case 0, 1: // one to three well-formed frames (some longer than the maximum)
		for i, k := 0, 1+r.Intn(3); i < k; i++ {
			in = append(in, frame(r.Pick(0, 1, 2, 15, 16, 17, 40, maxSize, maxSize+1))...)
		}
	case 2: // a frame cut short
		in = frame(1 + r.Intn(40))
		in = in[:r.Intn(len(in))]
	case 3, 4: // boundary length prefix and a short body
		// lengths between 2^21 and 2^48 are left out: code that allocates the announced length
		// before checking it would really allocate them
		v := c33BoundaryVarints[r.Pick(0, 5, 6, 7, 8, 9, 10, 11)]
		in = append(append([]byte{}, v...), r.Bytes(r.Intn(6))...)
	default:
		in = c33SmallBytes(r, r.Intn(14))
	}
	return fmt.Sprintf("stream %d %d %d %s", maxSize, bufLen, chunk, vhHex(in))
}

var c33Kinds = []*c33Kind{
	{name: "ba",
		recv: func() *c33Recv {
			m := &BlockAnnounceMessage{Digest: types.NewDigest()}
			return &c33Recv{decode: m.Decode, live: &c33Live{view: func() string { return c33Dump(reflect.ValueOf(*m)) }, reenc: m.Encode}}
		},
		decode: func(in []byte) (*c33Live, error) {
			m, err := decodeBlockAnnounceMessage(in)
			if err != nil {
				return nil, err
			}
			bm := m.(*BlockAnnounceMessage)
			return &c33Live{view: func() string { return c33Dump(reflect.ValueOf(*bm)) }, reenc: bm.Encode}, nil
		},
		valid: func(r *vhRng) []byte {
			h := c33Header(r)
			m := &BlockAnnounceMessage{ParentHash: h.ParentHash, Number: h.Number, StateRoot: h.StateRoot,
				ExtrinsicsRoot: h.ExtrinsicsRoot, Digest: h.Digest, BestBlock: r.Bool()}
			return c33Must(m.Encode())
		},
		scan: c33ScanType(reflect.TypeOf(BlockAnnounceMessage{})), typ: reflect.TypeOf(BlockAnnounceMessage{})},
	{name: "bah",
		recv: func() *c33Recv {
			m := &BlockAnnounceHandshake{}
			return &c33Recv{decode: m.Decode, live: &c33Live{view: func() string { return c33Dump(reflect.ValueOf(*m)) }, reenc: m.Encode}}
		},
		decode: func(in []byte) (*c33Live, error) {
			m, err := decodeBlockAnnounceHandshake(in)
			if err != nil {
				return nil, err
			}
			hs := m.(*BlockAnnounceHandshake)
			return &c33Live{view: func() string { return c33Dump(reflect.ValueOf(*hs)) }, reenc: hs.Encode}, nil
		},
		valid: func(r *vhRng) []byte {
			m := &BlockAnnounceHandshake{Roles: common.NetworkRole(r.Pick(0, 1, 2, 4, 255)),
				BestBlockNumber: uint32(c33Uint(r)), BestBlockHash: c33Hash(r), GenesisHash: c33Hash(r)}
			return c33Must(m.Encode())
		},
		scan: c33NoScan},
	{name: "tx",
		recv: func() *c33Recv {
			m := &TransactionMessage{}
			return &c33Recv{decode: m.Decode, live: &c33Live{view: func() string { return c33Dump(reflect.ValueOf(m.Extrinsics)) }, reenc: m.Encode}}
		},
		decode: func(in []byte) (*c33Live, error) {
			m, err := decodeTransactionMessage(in)
			if err != nil {
				return nil, err
			}
			tm := m.(*TransactionMessage)
			return &c33Live{view: func() string { return c33Dump(reflect.ValueOf(tm.Extrinsics)) }, reenc: tm.Encode}, nil
		},
		valid: func(r *vhRng) []byte {
			m := &TransactionMessage{Extrinsics: types.BytesArrayToExtrinsics(c33ByteStrings(r))}
			return c33Must(m.Encode())
		},
		scan: c33NoScan, typ: reflect.TypeOf([]types.Extrinsic(nil))},
	{name: "txh",
		recv: func() *c33Recv {
			m := &transactionHandshake{}
			return &c33Recv{decode: m.Decode, live: &c33Live{view: func() string { return "()" }, reenc: m.Encode}}
		},
		decode: func(in []byte) (*c33Live, error) {
			m, err := decodeTransactionHandshake(in)
			if err != nil {
				return nil, err
			}
			return &c33Live{view: func() string { return "()" }, reenc: m.Encode}, nil
		},
		valid: func(r *vhRng) []byte { return r.Bytes(r.Intn(4)) },
		scan:  c33NoScan},
	{name: "cons",
		recv: func() *c33Recv {
			m := &ConsensusMessage{}
			return &c33Recv{decode: m.Decode, live: &c33Live{view: func() string { return c33Dump(reflect.ValueOf(m.Data)) }, reenc: m.Encode}}
		},
		decode: func(in []byte) (*c33Live, error) {
			m := new(ConsensusMessage)
			if err := m.Decode(in); err != nil {
				return nil, err
			}
			return &c33Live{view: func() string { return c33Dump(reflect.ValueOf(m.Data)) }, reenc: m.Encode}, nil
		},
		valid: func(r *vhRng) []byte { return r.Bytes(r.Intn(12)) },
		scan:  c33NoScan},
	{name: "lreq",
		recv: func() *c33Recv {
			m := NewLightRequest()
			view := func() string {
				return c33Dump(reflect.ValueOf(c33LightReqDump{*m.RemoteCallRequest, *m.RemoteReadRequest, *m.RemoteHeaderRequest,
					*m.RemoteReadChildRequest, *m.RemoteChangesRequest}))
			}
			return &c33Recv{decode: m.Decode, live: &c33Live{view: view, reenc: m.Encode}}
		},
		decode: func(in []byte) (*c33Live, error) {
			m, err := newLightRequestFromBytes(in)
			if err != nil {
				return nil, err
			}
			d := c33LightReqDump{*m.RemoteCallRequest, *m.RemoteReadRequest, *m.RemoteHeaderRequest,
				*m.RemoteReadChildRequest, *m.RemoteChangesRequest}
			return &c33Live{view: func() string { return c33Dump(reflect.ValueOf(d)) }, reenc: m.Encode}, nil
		},
		valid: func(r *vhRng) []byte {
			m := NewLightRequest()
			m.RemoteCallRequest = &RemoteCallRequest{Block: c33Data(r), Method: string(c33Data(r)), Data: c33Data(r)}
			m.RemoteReadRequest = &RemoteReadRequest{Block: c33Data(r), Keys: c33ByteStrings(r)}
			m.RemoteHeaderRequest = &RemoteHeaderRequest{Block: c33Data(r)}
			m.RemoteReadChildRequest = &RemoteReadChildRequest{Block: c33Data(r), StorageKey: c33Data(r), Keys: c33ByteStrings(r)}
			m.RemoteChangesRequest = &RemoteChangesRequest{FirstBlock: c33OptHash(r), LastBlock: c33OptHash(r),
				Min: c33Data(r), Max: c33Data(r), StorageKey: c33OptBytes(r)}
			return c33Must(m.Encode())
		},
		scan: c33ScanType(reflect.TypeOf(request{})), typ: reflect.TypeOf(request{})},
	{name: "lresp",
		recv: func() *c33Recv {
			m := NewLightResponse()
			view := func() string {
				return c33Dump(reflect.ValueOf(c33LightRespDump{*m.RemoteCallResponse, *m.RemoteReadResponse, *m.RemoteHeaderResponse,
					*m.RemoteChangesResponse}))
			}
			return &c33Recv{decode: m.Decode, live: &c33Live{view: view, reenc: m.Encode}}
		},
		decode: func(in []byte) (*c33Live, error) {
			m, err := newLightResponseFromBytes(in)
			if err != nil {
				return nil, err
			}
			d := c33LightRespDump{*m.RemoteCallResponse, *m.RemoteReadResponse, *m.RemoteHeaderResponse,
				*m.RemoteChangesResponse}
			return &c33Live{view: func() string { return c33Dump(reflect.ValueOf(d)) }, reenc: m.Encode}, nil
		},
		valid: func(r *vhRng) []byte {
			m := NewLightResponse()
			m.RemoteCallResponse = &RemoteCallResponse{Proof: c33Data(r)}
			m.RemoteReadResponse = &RemoteReadResponse{Proof: c33Data(r)}
			hs := make([]*types.Header, r.Intn(3))
			for i := range hs {
				if r.Chance(3, 4) {
					hs[i] = c33Header(r)
				}
			}
			m.RemoteHeaderResponse = &RemoteHeaderResponse{Header: hs}
			roots := make([][]Pair, r.Intn(3))
			for i := range roots {
				roots[i] = make([]Pair, r.Intn(3))
				for j := range roots[i] {
					roots[i][j] = Pair{First: c33Data(r), Second: c33Data(r)}
				}
			}
			m.RemoteChangesResponse = &RemoteChangesResponse{Max: c33Data(r), Proof: c33ByteStrings(r),
				Roots: roots, RootsProof: c33Data(r)}
			return c33Must(m.Encode())
		},
		scan: c33ScanType(reflect.TypeOf(response{})), typ: reflect.TypeOf(response{})},
	{name: "warp",
		recv: func() *c33Recv {
			m := &messages.WarpProofRequest{}
			return &c33Recv{decode: m.Decode, live: &c33Live{view: func() string { return c33Dump(reflect.ValueOf(*m)) }, reenc: m.Encode}}
		},
		decode: func(in []byte) (*c33Live, error) {
			m, err := decodeWarpSyncMessage(in, "", false)
			if err != nil {
				return nil, err
			}
			w := m.(*messages.WarpProofRequest)
			return &c33Live{view: func() string { return c33Dump(reflect.ValueOf(*w)) }, reenc: w.Encode}, nil
		},
		valid: func(r *vhRng) []byte {
			return c33Must((&messages.WarpProofRequest{Begin: c33Hash(r)}).Encode())
		},
		scan: c33NoScan},
	{name: "breq",
		recv: func() *c33Recv {
			m := &messages.BlockRequestMessage{}
			return &c33Recv{decode: m.Decode, live: &c33Live{view: func() string { return c33BlockRequestDump(m) }, reenc: m.Encode}}
		},
		decode: func(in []byte) (*c33Live, error) {
			m, err := decodeSyncMessage(in, "", false)
			if err != nil {
				return nil, err
			}
			bm := m.(*messages.BlockRequestMessage)
			return &c33Live{view: func() string { return c33BlockRequestDump(bm) }, reenc: bm.Encode}, nil
		},
		valid: func(r *vhRng) []byte {
			if r.Bool() {
				return c33RawBlockRequest(r)
			}
			var from *messages.FromBlock
			if r.Bool() {
				from = messages.NewFromBlock(c33Hash(r))
			} else {
				from = messages.NewFromBlock(uint(r.Pick(0, 1, 255, 256, 1<<31, 1<<32-1)))
			}
			m := messages.NewBlockRequest(*from, uint32(r.Pick(0, 1, 128, 1<<32-1)),
				byte(r.Pick(0, 1, 3, 19, 255)), messages.SyncDirection(r.Pick(0, 1, 2, 255)))
			if r.Chance(1, 4) {
				m.Max = nil
			}
			return c33Must(m.Encode())
		},
		scan:  c33NoScan,
		craft: func(r *vhRng) []byte { return c33CraftWire(r, c33RawBlockRequest(r)) }},
	{name: "bresp",
		recv: func() *c33Recv {
			m := &messages.BlockResponseMessage{}
			return &c33Recv{decode: m.Decode, live: &c33Live{view: func() string { return c33Dump(reflect.ValueOf(m.BlockData)) }, reenc: m.Encode}}
		},
		decode: func(in []byte) (*c33Live, error) {
			m := new(messages.BlockResponseMessage)
			if err := m.Decode(in); err != nil {
				return nil, err
			}
			return &c33Live{view: func() string { return c33Dump(reflect.ValueOf(m.BlockData)) }, reenc: m.Encode}, nil
		},
		valid: func(r *vhRng) []byte {
			if r.Bool() {
				return c33RawBlockResponse(r)
			}
			m := &messages.BlockResponseMessage{}
			for i, n := 0, r.Intn(3); i < n; i++ {
				bd := &types.BlockData{Hash: c33Hash(r)}
				if r.Bool() {
					bd.Header = c33Header(r)
				}
				if r.Bool() {
					exts := c33ByteStrings(r)
					if len(exts) == 0 {
						exts = [][]byte{{1}}
					}
					bd.Body = types.NewBody(types.BytesArrayToExtrinsics(exts))
				}
				bd.Receipt = c33OptBytes(r)
				bd.MessageQueue = c33OptBytes(r)
				bd.Justification = c33OptBytes(r)
				m.BlockData = append(m.BlockData, bd)
			}
			return c33Must(m.Encode())
		},
		scan: c33ScanBlockResponse, craft: c33CraftBlockResponse},
	{name: "body",
		decode: func(in []byte) (*c33Live, error) {
			b, err := types.NewBodyFromBytes(in)
			if err != nil {
				return nil, err
			}
			if b == nil {
				return nil, errors.New("nil body")
			}
			return &c33Live{view: func() string { return c33Dump(reflect.ValueOf(*b)) }, reenc: func() ([]byte, error) { return scale.Marshal(*b) }}, nil
		},
		valid: func(r *vhRng) []byte {
			if r.Chance(1, 8) {
				return []byte{}
			}
			return c33Must(scale.Marshal(c33ByteStrings(r)))
		},
		scan: c33ScanType(reflect.TypeOf([][]byte(nil))), typ: reflect.TypeOf([][]byte(nil))},
	{name: "sreq",
		recv: func() *c33Recv {
			m := &messages.StateRequest{}
			return &c33Recv{decode: m.Decode, live: &c33Live{view: func() string { return c33Dump(reflect.ValueOf(*m)) }, reenc: m.Encode}}
		},
		decode: func(in []byte) (*c33Live, error) {
			m := new(messages.StateRequest)
			if err := m.Decode(in); err != nil {
				return nil, err
			}
			return &c33Live{view: func() string { return c33Dump(reflect.ValueOf(*m)) }, reenc: m.Encode}, nil
		},
		valid: c33RawStateRequest,
		scan:  c33NoScan,
		craft: func(r *vhRng) []byte { return c33CraftWire(r, c33RawStateRequest(r)) }},
	{name: "sresp", // StateResponse has no Encode: re=err
		recv: func() *c33Recv {
			m := &messages.StateResponse{}
			return &c33Recv{decode: m.Decode, live: &c33Live{view: func() string { return c33Dump(reflect.ValueOf(*m)) },
				reenc: func() ([]byte, error) { return nil, errors.New("no encoder") }}}
		},
		decode: func(in []byte) (*c33Live, error) {
			m := new(messages.StateResponse)
			if err := m.Decode(in); err != nil {
				return nil, err
			}
			return &c33Live{view: func() string { return c33Dump(reflect.ValueOf(*m)) }, reenc: func() ([]byte, error) { return nil, errors.New("no encoder") }}, nil
		},
		valid: c33RawStateResponse,
		scan:  c33NoScan,
		craft: func(r *vhRng) []byte { return c33CraftWire(r, c33RawStateResponse(r)) }},
}

func c33GenNetwork(r *vhRng) string {
	if r.Chance(1, 200) {
		return "const " + []string{"MaxBlocksInResponse", "MaxBlockResponseSize"}[r.Intn(2)]
	}
	if r.Chance(1, 14) {
		return c33GenStream(r)
	}
	return c33Gen(r, c33Kinds)
}

func c33RunNetwork(line string) string {
	switch line {
	case "const MaxBlocksInResponse":
		return fmt.Sprint(messages.MaxBlocksInResponse)
	case "const MaxBlockResponseSize":
		return fmt.Sprint(MaxBlockResponseSize)
	}
	if f := strings.Fields(line); len(f) == 5 && f[0] == "stream" {
		return c33RunStream(f)
	}
	return c33Run(c33Kinds, line)
}

func TestVerifC33(t *testing.T) { vhMain(t, c33GenNetwork, c33RunNetwork) }
