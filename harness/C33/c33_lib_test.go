//go:build verif

// Shared part of the C33 harness (copied verbatim into every package the property runs in; only
// the package clause differs: see sync_lib.sh).
package network

import (
	"fmt"
	"reflect"
	"runtime"
	"strings"
)

// ---------------------------------------------------------------- canonical dump of a decoded value

type c33IndexValuer interface {
	IndexValue() (uint, any, error)
}

// c33Dump prints a decoded Go value structurally: unsigned integers in decimal, byte strings and
// byte arrays as x<hex>, strings as s<hex>, structs as (f1,f2,..) over the EXPORTED fields,
// slices/arrays as [a,b,..], pointers as none / some(..), varying data types as v<index>:<value>.
func c33Dump(v reflect.Value) string {
	if !v.IsValid() {
		return "invalid"
	}
	if v.Kind() == reflect.Interface {
		if v.IsNil() {
			return "nil"
		}
		return c33Dump(v.Elem())
	}
	if v.CanInterface() {
		if iv, ok := v.Interface().(c33IndexValuer); ok {
			idx, val, err := iv.IndexValue()
			if err != nil {
				return "unset"
			}
			return fmt.Sprintf("v%d:%s", idx, c33Dump(reflect.ValueOf(val)))
		}
	}
	switch v.Kind() {
	case reflect.Bool:
		if v.Bool() {
			return "t"
		}
		return "f"
	case reflect.Uint, reflect.Uint8, reflect.Uint16, reflect.Uint32, reflect.Uint64:
		return fmt.Sprint(v.Uint())
	case reflect.Int, reflect.Int8, reflect.Int16, reflect.Int32, reflect.Int64:
		return fmt.Sprint(v.Int())
	case reflect.String:
		if v.Type().Name() == "H256" { // hash.H256: a string holding 32 bytes, "" for the zero hash
			b := make([]byte, 32)
			copy(b, v.String())
			return "x" + vhHex(b)
		}
		return "s" + vhHex([]byte(v.String()))
	case reflect.Ptr:
		if v.IsNil() {
			return "none"
		}
		return "some(" + c33Dump(v.Elem()) + ")"
	case reflect.Slice, reflect.Array:
		if v.Type().Elem().Kind() == reflect.Uint8 {
			b := make([]byte, v.Len())
			for i := range b {
				b[i] = byte(v.Index(i).Uint())
			}
			return "x" + vhHex(b)
		}
		parts := make([]string, v.Len())
		for i := range parts {
			parts[i] = c33Dump(v.Index(i))
		}
		return "[" + strings.Join(parts, ",") + "]"
	case reflect.Struct:
		var parts []string
		for i := 0; i < v.NumField(); i++ {
			if !v.Type().Field(i).IsExported() {
				continue
			}
			parts = append(parts, c33Dump(v.Field(i)))
		}
		return "(" + strings.Join(parts, ",") + ")"
	}
	return "unsupported-" + v.Kind().String()
}

// ---------------------------------------------------------------- prescan (generator side only)

type c33ValueAter interface {
	ValueAt(index uint) (any, error)
}

// c33Compact reads a compact integer the way scale.decodeUint accepts it.
func c33Compact(b []byte) (v uint64, rest []byte, ok bool) {
	if len(b) == 0 {
		return 0, nil, false
	}
	p := b[0]
	le := func(bs []byte) uint64 {
		var x uint64
		for i := len(bs) - 1; i >= 0; i-- {
			x = x<<8 | uint64(bs[i])
		}
		return x
	}
	switch p & 3 {
	case 0:
		return uint64(p >> 2), b[1:], true
	case 1:
		if len(b) < 2 {
			return 0, nil, false
		}
		v = le(b[:2]) >> 2
		return v, b[2:], v > 63
	case 2:
		if len(b) < 4 {
			return 0, nil, false
		}
		v = le(b[:4]) >> 2
		return v, b[4:], v > 16383
	default:
		n := int(p>>2) + 4
		if (n != 4 && n != 8) || len(b) < 1+n {
			return 0, nil, false
		}
		v = le(b[1 : 1+n])
		if n == 4 {
			return v, b[1+n:], v > 1<<30-1
		}
		return v, b[1+n:], v > 1<<56-1
	}
}

var c33BytesType = reflect.TypeOf([]byte(nil))

// c33Pos is a length-prefixed position of an encoding: a vector count, a byte-string length
// or a compact `uint` field.
type c33Pos struct {
	off, width int
	bytesLen   bool
}

// when c33ScanRec is non-nil c33Scan records every compact prefix it walks over
var (
	c33ScanRec     *[]c33Pos
	c33ScanOrigLen int
)

func c33Record(before, after []byte, bytesLen bool) {
	if c33ScanRec != nil {
		*c33ScanRec = append(*c33ScanRec, c33Pos{off: c33ScanOrigLen - len(before), width: len(before) - len(after), bytesLen: bytesLen})
	}
}

// c33Positions lists the length-prefixed positions of a (valid) SCALE encoding of type t.
func c33Positions(t reflect.Type, in []byte) []c33Pos {
	var pos []c33Pos
	c33ScanRec, c33ScanOrigLen = &pos, len(in)
	defer func() { c33ScanRec = nil }()
	var s uint64
	c33Scan(t, in, &s)
	return pos
}

// c33Scan walks b as scale.Unmarshal would for a destination of type t and returns the sum of
// the byte-string lengths the decoder would allocate (declared lengths of []byte / string
// values, each at most 2^32-1), the rest of the input and whether the walk succeeded.  It only
// guides the generators (never part of an observable).
func c33Scan(t reflect.Type, b []byte, sum *uint64) (rest []byte, ok bool) {
	if reflect.PointerTo(t).Implements(reflect.TypeOf((*c33ValueAter)(nil)).Elem()) && t.Kind() == reflect.Struct {
		if len(b) == 0 {
			return nil, false
		}
		val, err := reflect.New(t).Interface().(c33ValueAter).ValueAt(uint(b[0]))
		if err != nil {
			return nil, false
		}
		return c33Scan(reflect.TypeOf(val), b[1:], sum)
	}
	if t.Kind() == reflect.String && t.Name() == "H256" { // custom UnmarshalSCALE: [32]byte
		if len(b) < 32 {
			return nil, false
		}
		return b[32:], true
	}
	if t.Kind() == reflect.Interface {
		return nil, false
	}
	if t == c33BytesType || t.Kind() == reflect.String {
		l, r, ok := c33Compact(b)
		if ok {
			c33Record(b, r, true)
		}
		if !ok || l > 1<<32-1 {
			return nil, false
		}
		*sum += l
		if l == 0 {
			return r, true
		}
		if len(r) == 0 {
			return nil, false
		}
		if uint64(len(r)) < l {
			return nil, true
		}
		return r[l:], true
	}
	fixed := func(n int) ([]byte, bool) {
		if len(b) < n {
			return nil, false
		}
		return b[n:], true
	}
	switch t.Kind() {
	case reflect.Bool:
		if len(b) == 0 || b[0] > 1 {
			return nil, false
		}
		return b[1:], true
	case reflect.Uint8, reflect.Int8:
		return fixed(1)
	case reflect.Uint16, reflect.Int16:
		return fixed(2)
	case reflect.Uint32, reflect.Int32:
		return fixed(4)
	case reflect.Uint64, reflect.Int64:
		return fixed(8)
	case reflect.Uint, reflect.Int:
		_, r, ok := c33Compact(b)
		if ok {
			c33Record(b, r, false)
		}
		return r, ok
	case reflect.Ptr:
		if len(b) == 0 || b[0] > 1 {
			return nil, false
		}
		if b[0] == 0 {
			return b[1:], true
		}
		return c33Scan(t.Elem(), b[1:], sum)
	case reflect.Struct:
		for i := 0; i < t.NumField(); i++ {
			if !t.Field(i).IsExported() {
				continue
			}
			var ok bool
			b, ok = c33Scan(t.Field(i).Type, b, sum)
			if !ok {
				return nil, false
			}
		}
		return b, true
	case reflect.Array:
		for i := 0; i < t.Len(); i++ {
			var ok bool
			b, ok = c33Scan(t.Elem(), b, sum)
			if !ok {
				return nil, false
			}
		}
		return b, true
	case reflect.Slice:
		n, r, ok := c33Compact(b)
		if !ok {
			return nil, false
		}
		c33Record(b, r, false)
		b = r
		for i := uint64(0); i < n; i++ {
			b, ok = c33Scan(t.Elem(), b, sum)
			if !ok {
				return nil, false
			}
		}
		return b, true
	}
	return nil, false
}

// ---------------------------------------------------------------- measuring one decode

// c33AllocClass runs f and classifies the bytes it allocated (runtime.MemStats.TotalAlloc delta)
// against the linear budget 2*(64KiB + 256*len): "ok" within, "big" above.
func c33AllocClass(inLen int, f func()) string {
	var m0, m1 runtime.MemStats
	runtime.GC()
	runtime.ReadMemStats(&m0)
	f()
	runtime.ReadMemStats(&m1)
	if m1.TotalAlloc-m0.TotalAlloc > 2*(64*1024+256*uint64(inLen)) {
		return "big"
	}
	return "ok"
}

// c33Live is a decoded message that stays alive: view dumps its CURRENT content, reenc re-encodes it.
type c33Live struct {
	view  func() string
	reenc func() ([]byte, error)
}

// c33Recv is a message value used as the receiver of several Decode calls.
type c33Recv struct {
	decode func(in []byte) error
	live   *c33Live
}

// c33Kind describes one decoder under test.
type c33Kind struct {
	name string
	// decode runs the production entry point on a fresh value
	decode func(in []byte) (*c33Live, error)
	// recv (optional) makes a fresh receiver whose Decode method can be called repeatedly
	recv func() *c33Recv
	// valid draws the encoding of a random valid message
	valid func(r *vhRng) []byte
	// scan returns the byte-string bytes the decoder would allocate for this input
	scan func(in []byte) uint64
	// craft (optional) draws an input with a boundary length prefix planted at a length-prefixed
	// position of a valid message; when nil and typ is set the SCALE positions of typ are used
	craft func(r *vhRng) []byte
	typ   reflect.Type
}

func c33Clone(b []byte) []byte { return append(make([]byte, 0, len(b)), b...) }

// c33Hardening decodes the same input again under the three conditions a single decode into a
// fresh value never exercises, and returns the flags of what went wrong:
//
//	!mut    the decoder wrote into the caller's input buffer
//	!alias  the decoded message changed when the input buffer was overwritten afterwards (network
//	        read buffers are pooled and reused)
//	!reuse  decoding into a receiver that already held another valid message of the same kind
//	        gave a different result (stale fields) or a different error status
func c33Hardening(k *c33Kind, line string, in []byte, buf []byte, live *c33Live, freshErr error, dump string, enc []byte, encErr error) string {
	flags := ""
	if string(buf) != string(in) {
		flags += " !mut"
	}
	if freshErr == nil {
		for i := range buf {
			buf[i] ^= 0xff
		}
		if len(buf) < cap(buf) { // also what lies behind the message in the pooled buffer
			ext := buf[:cap(buf)]
			for i := len(buf); i < len(ext); i++ {
				ext[i] = 0xee
			}
		}
		enc2, err2 := live.reenc()
		if live.view() != dump || (err2 == nil) != (encErr == nil) || string(enc2) != string(enc) {
			flags += " !alias"
		}
	}
	if k.recv != nil {
		// the prefill depends on the line only
		h := uint64(1469598103934665603)
		for i := 0; i < len(line); i++ {
			h = (h ^ uint64(line[i])) * 1099511628211
		}
		r := vhNewRng(h)
		for round := 0; round < 2; round++ {
			rc := k.recv()
			prefill := k.valid(r)
			for try := 0; try < 20 && k.scan(prefill) > 64<<10; try++ { // never a huge declared length
				prefill = k.valid(r)
			}
			if k.scan(prefill) > 64<<10 {
				break
			}
			_ = vhCatch(func() string { _ = rc.decode(prefill); return "" })
			var err error
			out := vhCatch(func() string { err = rc.decode(c33Clone(in)); return "" })
			if out == "panic" {
				flags += " !reuse-panic"
				break
			}
			if (err == nil) != (freshErr == nil) {
				flags += " !reuse"
				break
			}
			if err == nil {
				enc3, err3 := rc.live.reenc()
				if rc.live.view() != dump || (err3 == nil) != (encErr == nil) || string(enc3) != string(enc) {
					flags += " !reuse"
					break
				}
			}
		}
	}
	return flags
}

// c33RunKind is the observable of one case: ok <dump> re=<hex> rt=<0|1> | err | panic | timeout,
// followed by the hardening flags (none on a correct decoder) and, on alloc lines, the class
func c33RunKind(k *c33Kind, line string, in []byte, withAlloc bool) string {
	return vhWithTimeout(4000, func() string {
		buf := append(make([]byte, 0, len(in)+16), in...) // spare capacity, like a pooled read buffer
		var live *c33Live
		var err error
		class := ""
		if withAlloc {
			class = " a=" + c33AllocClass(len(in), func() { live, err = k.decode(buf) })
		} else {
			live, err = k.decode(buf)
		}
		if err != nil {
			return "err" + c33Hardening(k, line, in, buf, nil, err, "", nil, nil) + class
		}
		dump := live.view()
		enc, encErr := live.reenc()
		enc = c33Clone(enc) // Encode may return the message's own (aliased) bytes
		flags := c33Hardening(k, line, in, buf, live, nil, dump, enc, encErr)
		if encErr != nil {
			return "ok " + dump + " re=err" + flags + class
		}
		rt := "0"
		live2, err := k.decode(c33Clone(enc))
		if err == nil && live2.view() == dump {
			rt = "1"
		}
		return "ok " + dump + " re=" + vhHex(enc) + " rt=" + rt + flags + class
	})
}

// ---------------------------------------------------------------- generators

var c33Crafted = [][]byte{
	{0xfe, 0xff, 0xff, 0xff},                               // compact 2^30-1
	{0x03, 0xff, 0xff, 0xff, 0xff},                         // compact 2^32-1
	{0x03, 0x00, 0x00, 0x00, 0x40},                         // compact 2^30
	{0x13, 0xff, 0xff, 0xff, 0xff, 0xff, 0xff, 0xff, 0xff}, // compact 2^64-1
	{0x13, 0, 0, 0, 0, 0, 0, 0, 1},                         // compact 2^56
	{0x07, 0, 0, 0, 0, 1},                                  // compact 2^32 (5 bytes: refused)
	{0xfd, 0xff},                                           // compact 2^14-1
	{0x02, 0x00, 0x01, 0x00},                               // compact 2^14
	{0x01, 0x01},                                           // compact 64
	{0xfc},                                                 // compact 63
	{0x01, 0x00},                                           // non-canonical 0
	{0xff, 0xff, 0xff, 0xff, 0xff, 0xff, 0xff, 0xff, 0xff, 0x01}, // varint 2^64-1
	{0x80, 0x80, 0x80, 0x80, 0x80, 0x80, 0x80, 0x80, 0x80, 0x02}, // varint overflow
	{0xff, 0xff, 0xff, 0xff, 0x0f},                               // varint 2^32-1
	{0x80, 0x00},                                                 // non-minimal varint 0
}

func c33LE(v uint64, n int) []byte {
	b := make([]byte, n)
	for i := 0; i < n && i < 8; i++ {
		b[i] = byte(v >> (8 * uint(i)))
	}
	return b
}

// c33Boundary: compact prefixes at the boundaries 2^30-1, 2^30, 2^31, 2^32-1, 2^32, 2^53, 2^56,
// 2^63-1, 2^63, 2^64-1 in the four-byte mode and in big-integer mode with 4, 8, 5..7 and more
// payload bytes, and non-canonical forms of small numbers.
var c33Boundary = func() [][]byte {
	out := [][]byte{{0xfe, 0xff, 0xff, 0xff}}
	for _, v := range []uint64{1<<30 - 1, 1 << 30, 1 << 31, 1<<32 - 1} {
		out = append(out, append([]byte{0x03}, c33LE(v, 4)...))
	}
	for _, v := range []uint64{1<<30 - 1, 1 << 30, 1 << 31, 1<<32 - 1, 1 << 32, 1 << 53, 1<<56 - 1, 1 << 56,
		1<<63 - 1, 1 << 63, 1<<64 - 1, 1<<64 - 2} {
		out = append(out, append([]byte{0x13}, c33LE(v, 8)...))
	}
	out = append(out,
		append([]byte{0x07}, c33LE(1<<32, 5)...), append([]byte{0x0b}, c33LE(1<<40, 6)...),
		append([]byte{0x0f}, c33LE(1<<53, 7)...),
		append([]byte{0x17}, append(c33LE(0, 8), 1)...),                  // 9 payload bytes: 2^64
		append([]byte{0x33}, append(c33LE(1<<63, 8), c33LE(1, 8)...)...), // 16 payload bytes
		append([]byte{0xff}, append(make([]byte, 66), 1)...),             // 67 payload bytes
		[]byte{0x01, 0x00}, []byte{0xfd, 0x00}, []byte{0x02, 0x00, 0x00, 0x00}, []byte{0xfe, 0xff, 0x00, 0x00},
		[]byte{0x03, 0x00, 0x00, 0x00, 0x00}, append([]byte{0x13}, c33LE(5, 8)...))
	return out
}()

// c33BoundaryVarints: protobuf / LEB128 length prefixes at 2^20, 2^31-1, 2^31, 2^32-1, 2^32,
// 2^53, 2^63-1, 2^63, 2^64-1, an overflowing one, an eleven-byte one and a non-minimal zero.
var c33BoundaryVarints = func() [][]byte {
	vi := func(v uint64) []byte {
		var b []byte
		for v >= 0x80 {
			b = append(b, byte(v)|0x80)
			v >>= 7
		}
		return append(b, byte(v))
	}
	out := [][]byte{}
	for _, v := range []uint64{1 << 20, 1<<31 - 1, 1 << 31, 1<<32 - 1, 1 << 32, 1 << 53, 1<<63 - 1, 1 << 63, 1<<64 - 1} {
		out = append(out, vi(v))
	}
	return append(out,
		[]byte{0x80, 0x80, 0x80, 0x80, 0x80, 0x80, 0x80, 0x80, 0x80, 0x02},
		[]byte{0x80, 0x80, 0x80, 0x80, 0x80, 0x80, 0x80, 0x80, 0x80, 0x80, 0x01},
		[]byte{0x80, 0x00})
}()

// c33Plant replaces in[off:off+width] by prefix and keeps either the whole tail or a short body.
func c33Plant(r *vhRng, in []byte, off, width int, prefix []byte) []byte {
	out := append(append([]byte{}, in[:off]...), prefix...)
	tail := in[off+width:]
	if r.Bool() && len(tail) > 0 {
		tail = tail[:r.Intn(minInt(len(tail), 9))]
	}
	return append(out, tail...)
}

func minInt(a, b int) int {
	if a < b {
		return a
	}
	return b
}

// c33CraftScale plants a boundary compact prefix at a length-prefixed position of a valid
// encoding of type t.
func c33CraftScale(r *vhRng, t reflect.Type, valid []byte) []byte {
	pos := c33Positions(t, valid)
	if len(pos) == 0 {
		return valid
	}
	p := pos[r.Intn(len(pos))]
	return c33Plant(r, valid, p.off, p.width, c33Boundary[r.Intn(len(c33Boundary))])
}

// c33WireLenPositions walks a protobuf message and lists the length varints of its
// length-delimited fields (offset, width), descending one level into each payload that parses.
func c33WireLenPositions(b []byte, base int, depth int) [][2]int {
	var out [][2]int
	rd := func(b []byte) (uint64, int) {
		var v uint64
		for i := 0; i < len(b) && i < 10; i++ {
			v |= uint64(b[i]&0x7f) << (7 * uint(i))
			if b[i] < 0x80 {
				return v, i + 1
			}
		}
		return 0, 0
	}
	off := 0
	for off < len(b) {
		tag, n := rd(b[off:])
		if n == 0 {
			return out
		}
		off += n
		switch tag & 7 {
		case 0:
			_, n := rd(b[off:])
			if n == 0 {
				return out
			}
			off += n
		case 2:
			l, n := rd(b[off:])
			if n == 0 || uint64(len(b)-off-n) < l {
				return out
			}
			out = append(out, [2]int{base + off, n})
			if depth > 0 {
				out = append(out, c33WireLenPositions(b[off+n:off+n+int(l)], base+off+n, depth-1)...)
			}
			off += n + int(l)
		default:
			return out
		}
	}
	return out
}

// c33CraftWire plants a boundary varint at a length prefix of a protobuf message.
func c33CraftWire(r *vhRng, valid []byte) []byte {
	pos := c33WireLenPositions(valid, 0, 2)
	if len(pos) == 0 {
		return valid
	}
	p := pos[r.Intn(len(pos))]
	return c33Plant(r, valid, p[0], p[1], c33BoundaryVarints[r.Intn(len(c33BoundaryVarints))])
}

// c33SmallBytes draws n bytes biased towards small values and SCALE/protobuf structure bytes.
func c33SmallBytes(r *vhRng, n int) []byte {
	b := make([]byte, n)
	for i := range b {
		switch r.Intn(8) {
		case 0:
			b[i] = byte(r.U64())
		case 1:
			b[i] = byte(r.Intn(4) << 2) // compact 0..3
		case 2:
			b[i] = byte(r.Intn(16))
		case 3:
			b[i] = byte(r.Intn(8)<<3 | r.Pick(0, 0, 2, 2, 1, 3, 4, 5, 6)) // protobuf tag
		default:
			b[i] = byte(r.Intn(3))
		}
	}
	return b
}

// c33Mutate damages an encoding.
func c33Mutate(r *vhRng, in []byte) []byte {
	b := append([]byte{}, in...)
	steps := 1 + r.Intn(3)
	for s := 0; s < steps; s++ {
		switch r.Intn(9) {
		case 0: // truncate
			if len(b) > 0 {
				b = b[:r.Intn(len(b))]
			}
		case 1: // bit flip
			if len(b) > 0 {
				b[r.Intn(len(b))] ^= 1 << uint(r.Intn(8))
			}
		case 2: // overwrite a byte
			if len(b) > 0 {
				b[r.Intn(len(b))] = byte(r.U64())
			}
		case 3: // insert crafted prefix
			c := c33Crafted[r.Intn(len(c33Crafted))]
			p := r.Intn(len(b) + 1)
			b = append(b[:p:p], append(append([]byte{}, c...), b[p:]...)...)
		case 4: // overwrite with crafted prefix
			c := c33Crafted[r.Intn(len(c33Crafted))]
			p := r.Intn(len(b) + 1)
			nb := append(b[:p:p], c...)
			if p+len(c) < len(b) {
				nb = append(nb, b[p+len(c):]...)
			}
			b = nb
		case 5: // delete a byte
			if len(b) > 0 {
				p := r.Intn(len(b))
				b = append(b[:p:p], b[p+1:]...)
			}
		case 6: // append junk
			b = append(b, c33SmallBytes(r, 1+r.Intn(6))...)
		case 7: // duplicate a segment
			if len(b) > 1 {
				p := r.Intn(len(b))
				q := p + 1 + r.Intn(len(b)-p)
				b = append(b[:q:q], append(append([]byte{}, b[p:q]...), b[q:]...)...)
			}
		default: // insert a byte
			p := r.Intn(len(b) + 1)
			b = append(b[:p:p], append([]byte{byte(r.U64())}, b[p:]...)...)
		}
	}
	return b
}

// c33Candidate draws one input for kind k.
func c33Candidate(r *vhRng, k *c33Kind) []byte {
	if r.Chance(1, 3) { // a boundary length prefix at a length-prefixed position of a valid message
		if k.craft != nil {
			return k.craft(r)
		}
		if k.typ != nil {
			return c33CraftScale(r, k.typ, k.valid(r))
		}
	}
	switch r.Intn(10) {
	case 0:
		return k.valid(r)
	case 1:
		return c33SmallBytes(r, r.Intn(40))
	case 2:
		return r.Bytes(r.Intn(24))
	case 3: // crafted prefix followed by a short body
		c := c33Crafted[r.Intn(len(c33Crafted))]
		return append(append(c33SmallBytes(r, r.Intn(3)), c...), c33SmallBytes(r, r.Intn(12))...)
	case 4: // nested vectors: a run of length prefixes
		var b []byte
		for i, n := 0, 1+r.Intn(6); i < n; i++ {
			if r.Chance(1, 4) {
				b = append(b, c33Crafted[r.Intn(len(c33Crafted))]...)
			} else {
				b = append(b, byte(r.Intn(6)<<2))
			}
		}
		return append(b, c33SmallBytes(r, r.Intn(10))...)
	case 5: // every strict prefix region of a valid encoding
		v := k.valid(r)
		return v[:r.Intn(len(v)+1)]
	default:
		return c33Mutate(r, k.valid(r))
	}
}

// c33Gen draws one case line: `dec <kind> <hex>` with at most 64KiB of declared byte strings, or
// (1 in 12) `alloc <kind> <hex>` whose declared byte strings are either below 8KiB or one of them
// is between 1MiB and 3MiB (total at most 6MiB) (so that the allocation class is unambiguous).
func c33Gen(r *vhRng, kinds []*c33Kind) string {
	k := kinds[r.Intn(len(kinds))]
	if r.Chance(1, 12) {
		for try := 0; try < 50; try++ {
			in := c33Candidate(r, k)
			if len(in) > 1000 {
				continue
			}
			if r.Bool() { // plant a large declared length somewhere
				l := uint32(1<<20) + uint32(r.Intn(2<<20))
				c := []byte{byte(l<<2) | 2, byte(l >> 6), byte(l >> 14), byte(l >> 22)}
				p := r.Intn(len(in) + 1)
				in = append(in[:p:p], append(c, in[p:]...)...)
			}
			s := k.scan(in)
			if s <= 8<<10 {
				return "alloc " + k.name + " " + vhHex(in)
			}
			if s >= 1<<20 && s <= 6<<20 {
				// a successful decode would carry megabytes of zero fill into the dump: keep the
				// failing ones (the allocation happens before the failure)
				failed := vhCatch(func() string {
					if _, err := k.decode(c33Clone(in)); err != nil {
						return "err"
					}
					return "ok"
				})
				if failed == "err" {
					return "alloc " + k.name + " " + vhHex(in)
				}
			}
		}
	}
	for try := 0; try < 50; try++ {
		in := c33Candidate(r, k)
		if len(in) <= 4000 && k.scan(in) <= 64<<10 {
			return "dec " + k.name + " " + vhHex(in)
		}
	}
	return "dec " + k.name + " " + vhHex(k.valid(r))
}

func c33Run(kinds []*c33Kind, line string) string {
	f := strings.Fields(line)
	if len(f) != 3 || (f[0] != "dec" && f[0] != "alloc") {
		return "bad-op"
	}
	for _, k := range kinds {
		if k.name == f[1] {
			return c33RunKind(k, line, vhUnhex(f[2]), f[0] == "alloc")
		}
	}
	return "bad-op"
}
